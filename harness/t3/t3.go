// Package t3 is the opportunistic kernel-mount tier: a real LiteFS FUSE mount driven by real SQLite
// (mattn/go-sqlite3). It needs /dev/fuse, CAP_SYS_ADMIN and the fusermount3 stand-in that setup.sh
// builds into /verif/bin. When a probe mount fails the tier is skipped and the evidence says so; its
// absence never fails a check (DESIGN 3.1, T3).
package t3

import (
	"database/sql"
	"encoding/binary"
	"fmt"
	"math/rand"
	"os"
	"os/exec"
	"path/filepath"
	"strings"
	"sync"
	"time"

	_ "github.com/mattn/go-sqlite3"
	"github.com/superfly/litefs"
	lfuse "github.com/superfly/litefs/fuse"
	lhttp "github.com/superfly/litefs/http"
	"github.com/superfly/litefs/verifharness/core"
	"github.com/superfly/litefs/verifharness/sim"
	"github.com/superfly/ltx"
)

var (
	probeOnce sync.Once
	probeOK   bool
	probeWhy  string
)

// Available probes once whether a real mount works here.
func Available() (bool, string) {
	probeOnce.Do(func() {
		bin := filepath.Join(core.VerifRoot(), "bin")
		if _, err := os.Stat(filepath.Join(bin, "fusermount3")); err != nil {
			if _, err2 := exec.LookPath("fusermount3"); err2 != nil {
				probeWhy = "no fusermount3 (neither installed nor built by setup.sh)"
				return
			}
		} else {
			_ = os.Setenv("PATH", bin+":"+os.Getenv("PATH"))
		}
		if f, err := os.OpenFile("/dev/fuse", os.O_RDWR, 0); err != nil {
			probeWhy = "/dev/fuse: " + err.Error()
			return
		} else {
			_ = f.Close()
		}
		dir := core.Scratch("t3probe")
		m, err := Mount(dir, MountOpts{Primary: true})
		if err != nil {
			probeWhy = "probe mount failed: " + err.Error()
			return
		}
		m.Close()
		probeOK = true
	})
	return probeOK, probeWhy
}

// MountOpts configures a mounted node.
type MountOpts struct {
	Primary    bool
	PrimaryURL string
	Serve      bool // run the HTTP server (so that replicas can stream from this node)
	Compress   bool
	ClusterID  string
}

// Mounted is a real store behind a real kernel mount.
type Mounted struct {
	Dir    string
	Mnt    string
	Store  *litefs.Store
	FS     *lfuse.FileSystem
	Server *lhttp.Server
	exitMu sync.Mutex
	exits  []int
}

// Mount starts a store on dir/data and mounts it on dir/mnt.
func Mount(dir string, o MountOpts) (*Mounted, error) {
	m := &Mounted{Dir: filepath.Join(dir, "data"), Mnt: filepath.Join(dir, "mnt")}
	if err := os.MkdirAll(m.Dir, 0o777); err != nil {
		return nil, err
	}
	if o.ClusterID != "" {
		if _, err := os.Stat(filepath.Join(m.Dir, "clusterid")); os.IsNotExist(err) {
			_ = os.WriteFile(filepath.Join(m.Dir, "clusterid"), []byte(o.ClusterID+"\n"), 0o666)
		}
	}
	s := litefs.NewStore(m.Dir, o.Primary)
	s.Compress = o.Compress
	s.RetentionMonitorInterval = 0
	s.ReconnectDelay = 20 * time.Millisecond
	s.Exit = func(code int) {
		m.exitMu.Lock()
		m.exits = append(m.exits, code)
		m.exitMu.Unlock()
	}
	url := o.PrimaryURL
	if o.Serve {
		m.Server = lhttp.NewServer(s, "127.0.0.1:0")
		if err := m.Server.Listen(); err != nil {
			return nil, err
		}
		url = m.Server.URL()
	}
	s.Leaser = litefs.NewStaticLeaser(o.Primary, "t3", url)
	s.Client = lhttp.NewClient()
	m.Store = s
	m.FS = lfuse.NewFileSystem(m.Mnt, s)
	s.Invalidator = m.FS
	if err := s.Open(); err != nil {
		return nil, err
	}
	if err := m.FS.Mount(false); err != nil {
		_ = s.Close()
		return nil, err
	}
	if m.Server != nil {
		m.Server.Serve()
	}
	if o.Primary {
		deadline := time.Now().Add(10 * time.Second)
		for !s.IsPrimary() {
			if time.Now().After(deadline) {
				m.Close()
				return nil, fmt.Errorf("mounted node did not become primary")
			}
			time.Sleep(time.Millisecond)
		}
	}
	return m, nil
}

// Exits returns the codes passed to Store.Exit.
func (m *Mounted) Exits() []int {
	m.exitMu.Lock()
	defer m.exitMu.Unlock()
	return append([]int(nil), m.exits...)
}

// Close unmounts (lazily, whatever happens) and stops the store.
func (m *Mounted) Close() {
	done := make(chan struct{})
	go func() {
		if m.Server != nil {
			_ = m.Server.Close()
		}
		_ = m.FS.Unmount()
		_ = m.Store.Close()
		close(done)
	}()
	select {
	case <-done:
	case <-time.After(20 * time.Second):
	}
	_ = exec.Command("umount", "-l", m.Mnt).Run()
}

// Fail is one monitor failure of the real-SQLite tier.
type Fail struct {
	Prop    string
	Monitor string
	Sig     string
	Detail  map[string]any
}

// Result of one workload.
type Result struct {
	Fails      []Fail
	Statements int
	Commits    int
	Evals      int
	Skipped    string
}

type state struct {
	pos ltx.Pos
	img sim.Image
}

func pageSizeOf(dbDir string) uint32 {
	f, err := os.Open(filepath.Join(dbDir, "database"))
	if err != nil {
		return 0
	}
	defer f.Close()
	h := make([]byte, 100)
	if _, err := f.ReadAt(h, 0); err != nil {
		return 0
	}
	ps := uint32(binary.BigEndian.Uint16(h[16:]))
	if ps == 1 {
		ps = 65536
	}
	return ps
}

func snapshot(m *Mounted, name string) state {
	var st state
	if db := m.Store.DB(name); db != nil {
		st.pos = db.Pos()
	}
	dir := filepath.Join(m.Dir, "dbs", name)
	st.img, _ = sim.DiskImage(dir, pageSizeOf(dir))
	return st
}

// Workload describes one real-SQLite run.
type Workload struct {
	JournalMode string // delete | truncate | persist | wal
	PageSize    int
	CacheSize   int // pages; small values force cache spills (multi-segment journals, repeated WAL frames)
	AutoVacuum  string
	Seed        int64
	Steps       int
	Replica     bool // also mount a replica and compare it after every statement
	Compress    bool
	ModeSwitch  bool // include journal-mode switches (rollback <-> WAL)
	AllocFree   bool // transactions that allocate pages and free them again before they commit (never-written free pages)
	LockPage    bool // grow the database past SQLite's lock page (1 GiB), work around it, shrink below it, grow again
}

func (w Workload) String() string {
	lp := ""
	if w.LockPage {
		lp = "/lockpage"
	}
	return fmt.Sprintf("%s/ps%d/cache%d/av%s/replica%v/switch%v/seed%d%s", w.JournalMode, w.PageSize, w.CacheSize, w.AutoVacuum, w.Replica, w.ModeSwitch, w.Seed, lp)
}

// Run executes the workload on a mounted primary (and optionally a mounted replica) and evaluates
// byte-level monitors after every SQL statement: C02/C03 (delta, at most one, rollback), C04
// (from-scratch checksum), C09 (chain) and C01 (replica identical through its mount).
func Run(w Workload, dir string) (res Result) {
	if ok, why := Available(); !ok {
		res.Skipped = why
		return
	}
	fail := func(prop, mon, sig string, d map[string]any) {
		if d == nil {
			d = map[string]any{}
		}
		d["workload"] = w.String()
		if len(res.Fails) < 20 {
			res.Fails = append(res.Fails, Fail{prop, mon, sig, d})
		}
	}
	const cid = "LFSC00000000000000T3"
	p, err := Mount(filepath.Join(dir, "p"), MountOpts{Primary: true, Serve: w.Replica, Compress: w.Compress, ClusterID: cid})
	if err != nil {
		res.Skipped = "mount: " + err.Error()
		return
	}
	defer p.Close()
	var r *Mounted
	if w.Replica {
		r, err = Mount(filepath.Join(dir, "r"), MountOpts{Primary: false, PrimaryURL: p.Server.URL(), ClusterID: cid, Compress: w.Compress})
		if err != nil {
			res.Skipped = "replica mount: " + err.Error()
			return
		}
		defer r.Close()
	}
	dsn := filepath.Join(p.Mnt, "db")
	db, err := sql.Open("sqlite3", dsn)
	if err != nil {
		res.Skipped = "sql open: " + err.Error()
		return
	}
	db.SetMaxOpenConns(1)
	defer db.Close()
	rnd := rand.New(rand.NewSource(w.Seed))
	prop := "C02"
	if w.JournalMode == "wal" {
		prop = "C03"
	}
	lockPg := func(ps uint32) uint32 {
		if ps == 0 {
			return 0
		}
		return uint32(0x40000000/int64(ps)) + 1
	}
	prev := snapshot(p, "db")
	exec1 := func(sqlText string, expectNoChange bool) bool {
		core.Beat("real:t3:" + firstWord(sqlText))
		_, err := db.Exec(sqlText)
		core.Beat("harness")
		res.Statements++
		if err != nil {
			fail(prop, prop+".operation-accepted", "sqlite-error/"+firstWord(sqlText), map[string]any{"sql": clip(sqlText), "error": err.Error()})
			return false
		}
		if ex := p.Exits(); len(ex) > 0 {
			fail(prop, prop+".no-exit", "exit/"+firstWord(sqlText), map[string]any{"sql": clip(sqlText), "codes": ex})
			return false
		}
		if os.Getenv("VERIF_T3_DEBUG") == "files" {
			ents, _ := os.ReadDir(filepath.Join(p.Dir, "dbs", "db"))
			var names []string
			for _, en := range ents {
				fi, _ := en.Info()
				names = append(names, fmt.Sprintf("%s:%d", en.Name(), fi.Size()))
			}
			fmt.Fprintf(os.Stderr, "FILES after %q mode=%v: %v\n", firstWord(sqlText)+" "+clip(sqlText), p.Store.DB("db").Mode(), names)
		}
		cur := snapshot(p, "db")
		ps := pageSizeOf(filepath.Join(p.Dir, "dbs", "db"))
		lp := lockPg(ps)
		res.Evals += 4
		delta := int64(cur.pos.TXID) - int64(prev.pos.TXID)
		d := map[string]any{"sql": clip(sqlText), "before": prev.pos.String(), "after": cur.pos.String()}
		// A single SQL statement may legitimately run several pager transactions (VACUUM, mode switch)
		if delta < 0 || delta > 3 {
			fail(prop, prop+".at-most-one", "txid-delta/"+firstWord(sqlText), d)
		}
		if cur.pos.TXID > 0 {
			if got := cur.img.Checksum(lp); got != uint64(cur.pos.PostApplyChecksum) {
				d["from_scratch"] = fmt.Sprintf("%016x", got)
				fail("C04", "C04.reported-equals-from-scratch", "checksum/"+firstWord(sqlText)+"/"+w.JournalMode, d)
				if keep := os.Getenv("VERIF_T3_KEEP"); keep != "" {
					_ = sim.CopyDir(p.Dir, keep)
				}
			}
		}
		if expectNoChange {
			// SQLite does not journal free-list leaf pages it reuses (their content is "don't care"), so a
			// rolled-back transaction may leave other bytes in them: compare everything but those leaves
			if ok, why := equalButFreeLeaves(prev.img, cur.img, lp); !ok {
				d["why"] = why
				if os.Getenv("VERIF_T3_DEBUG") != "" {
					for pg := uint32(1); pg <= cur.img.N; pg++ {
						a, b := prev.img.Pages[pg], cur.img.Pages[pg]
						if string(a) != string(b) {
							n, first := 0, -1
							for i := range a {
								if i < len(b) && a[i] != b[i] {
									n++
									if first < 0 {
										first = i
									}
								}
							}
							fmt.Fprintf(os.Stderr, "page %d differs in %d bytes, first at %d; prevN=%d curN=%d\n", pg, n, first, prev.img.N, cur.img.N)
						}
					}
					files, _ := sim.ListLTX(filepath.Join(p.Dir, "dbs", "db"))
					if len(files) > 0 {
						f := files[len(files)-1]
						fmt.Fprintf(os.Stderr, "newest ltx %s commit=%d pages=%v\n", f.Name, f.Commit, f.Order)
					}
				}
				fail(prop, prop+".rollback-leaves-image", "rollback-changed-image/"+w.JournalMode, d)
			}
		}
		if delta >= 1 {
			res.Commits++
			files, other := sim.ListLTX(filepath.Join(p.Dir, "dbs", "db"))
			img := prev.img
			applied := 0
			for i, f := range files {
				if f.Err != "" {
					fail("C09", "C09.file-verifies", "ltx-invalid/t3", map[string]any{"file": f.Name, "error": f.Err})
					break
				}
				if i > 0 && (f.Min != files[i-1].Max+1 || f.Pre != files[i-1].Post) {
					fail("C09", "C09.contiguous", "chain-gap/t3", map[string]any{"file": f.Name})
				}
				if f.Min > uint64(prev.pos.TXID) {
					if applied == 0 && prev.pos.TXID > 0 && f.Pre != uint64(prev.pos.PostApplyChecksum) {
						fail(prop, prop+".pre-checksum", "pre-mismatch/t3/"+w.JournalMode, map[string]any{"file": f.Name})
					}
					img = f.Apply(img)
					applied++
					for _, pg := range f.Order {
						if pg > f.Commit || pg == lp {
							fail(prop, prop+".no-page-beyond-size", "page-beyond-commit/t3", map[string]any{"file": f.Name, "page": pg})
						}
					}
				}
			}
			for _, o := range other {
				if !strings.HasSuffix(o, ".tmp") {
					fail("C09", "C09.only-transaction-files", "stray-file/t3", map[string]any{"name": o})
				}
			}
			if n := len(files); n == 0 || files[n-1].Max != uint64(cur.pos.TXID) || files[n-1].Post != uint64(cur.pos.PostApplyChecksum) {
				fail("C09", "C09.ends-at-position", "chain-end/t3", d)
			}
			if ok, why := img.Equal(cur.img, lp); !ok {
				d["why"] = why
				d["files_applied"] = applied
				fail(prop, prop+".file-applied-to-previous-image", "delta-wrong/t3/"+w.JournalMode+"/"+firstWord(sqlText), d)
			}
		} else if !expectNoChange {
			// nothing captured: then nothing may have changed either
			if ok, why := cur.img.Equal(prev.img, lp); !ok {
				d["why"] = why
				fail(prop, prop+".commit-captured", "changed-without-transaction/t3/"+w.JournalMode+"/"+firstWord(sqlText), d)
			}
		}
		// the replica, through its own kernel mount, is byte-identical at that position
		if r != nil && cur.pos.TXID > 0 {
			res.Evals++
			deadline := time.Now().Add(30 * time.Second)
			for time.Now().Before(deadline) {
				if rdb := r.Store.DB("db"); rdb != nil && rdb.Pos() == cur.pos {
					break
				}
				time.Sleep(time.Millisecond)
			}
			rdb := r.Store.DB("db")
			if rdb == nil || rdb.Pos() != cur.pos {
				fail("C01", "C01.converges", "no-convergence/t3", d)
			} else if len(cur.img.Pages) > 0 {
				b, err := os.ReadFile(filepath.Join(r.Mnt, "db"))
				if err != nil {
					fail("C01", "C01.replica-image-is-primary-image", "replica-unreadable/t3", map[string]any{"error": err.Error()})
				} else {
					rim := sim.Image{N: uint32(len(b) / int(ps)), Pages: map[uint32][]byte{}}
					for pg := uint32(1); pg <= rim.N; pg++ {
						rim.Pages[pg] = b[int(pg-1)*int(ps) : int(pg)*int(ps)]
					}
					if ok, why := rim.Equal(cur.img, lp); !ok {
						d["why"] = why
						fail("C01", "C01.replica-image-is-primary-image", "replica-read-differs/t3/"+w.JournalMode, d)
					}
				}
			}
		}
		prev = cur
		return true
	}

	setup := []string{
		fmt.Sprintf("PRAGMA page_size = %d", w.PageSize),
		"PRAGMA busy_timeout = 5000",
	}
	if w.AutoVacuum != "" {
		setup = append(setup, "PRAGMA auto_vacuum = "+w.AutoVacuum)
	}
	for _, s := range setup {
		if _, err := db.Exec(s); err != nil {
			res.Skipped = "setup: " + err.Error()
			return
		}
	}
	if !exec1("PRAGMA journal_mode = "+w.JournalMode, false) {
		return
	}
	if _, err := db.Exec(fmt.Sprintf("PRAGMA cache_size = %d", w.CacheSize)); err != nil {
		res.Skipped = "setup: " + err.Error()
		return
	}
	if !exec1("CREATE TABLE t (id INTEGER PRIMARY KEY, k INTEGER, v BLOB)", false) {
		return
	}
	if !exec1("CREATE INDEX t_k ON t(k)", false) {
		return
	}
	rows := 0
	if w.LockPage {
		// the lock page is the page that contains byte 1<<30: SQLite never stores data in it
		per := w.PageSize - 200 // one overflow page per row, roughly
		n := (1<<30)/w.PageSize + 300
		steps := []string{
			fmt.Sprintf("WITH RECURSIVE c(x) AS (SELECT 1 UNION ALL SELECT x+1 FROM c WHERE x < %d) INSERT INTO t(k, v) SELECT x, randomblob(%d) FROM c", n, per),
			fmt.Sprintf("UPDATE t SET v = randomblob(%d) WHERE id > (SELECT max(id) FROM t) - 700", per),
			"BEGIN; UPDATE t SET k = k + 1 WHERE id > (SELECT max(id) FROM t) - 400; ROLLBACK",
			"DELETE FROM t WHERE id > (SELECT max(id) FROM t) - 600",
			"VACUUM",
			fmt.Sprintf("WITH RECURSIVE c(x) AS (SELECT 1 UNION ALL SELECT x+1 FROM c WHERE x < 900) INSERT INTO t(k, v) SELECT x, randomblob(%d) FROM c", per),
		}
		for i, st := range steps {
			if !exec1(st, i == 2) {
				return res
			}
		}
		return res
	}
	for i := 0; i < w.Steps && len(res.Fails) == 0; i++ {
		var ok bool
		switch c := rnd.Intn(20); {
		case c < 6: // grow
			n := 20 + rnd.Intn(400)
			ok = exec1(fmt.Sprintf("WITH RECURSIVE c(x) AS (SELECT 1 UNION ALL SELECT x+1 FROM c WHERE x < %d) INSERT INTO t(k, v) SELECT x*%d, randomblob(%d) FROM c", n, 1+rnd.Intn(9), 50+rnd.Intn(900)), false)
			rows += n
		case c < 9: // update a slice
			ok = exec1(fmt.Sprintf("UPDATE t SET v = randomblob(%d), k = k + 1 WHERE id %% %d = 0", 20+rnd.Intn(600), 2+rnd.Intn(7)), false)
		case c < 11: // delete a slice
			ok = exec1(fmt.Sprintf("DELETE FROM t WHERE id %% %d = %d", 2+rnd.Intn(5), rnd.Intn(2)), false)
		case c < 12:
			ok = exec1("VACUUM", false)
		case c < 14: // a transaction that is rolled back (after enough writes to spill with a small cache)
			ok = exec1(fmt.Sprintf("BEGIN; UPDATE t SET v = randomblob(%d); INSERT INTO t(k, v) VALUES (1, randomblob(3000)); ROLLBACK", 100+rnd.Intn(800)), true)
		case c < 15: // a write lock taken without writing
			ok = exec1("BEGIN IMMEDIATE; COMMIT", true)
		case c < 16 && w.AutoVacuum == "incremental": // grow, then free pages inside one transaction
			ok = exec1(fmt.Sprintf("BEGIN; INSERT INTO t(k, v) SELECT k, randomblob(2000) FROM t LIMIT %d; DELETE FROM t WHERE id > (SELECT max(id) FROM t) - %d; PRAGMA incremental_vacuum; COMMIT", 50+rnd.Intn(200), 40+rnd.Intn(200)), false)
		case c < 17 && w.AllocFree: // pages are allocated and freed inside one transaction: with a cache large enough
			// SQLite never writes them, but the database may grow over them (free-list leaves with DONT_WRITE)
			ok = exec1(fmt.Sprintf("BEGIN; INSERT INTO t(k, v) SELECT x, randomblob(3000) FROM (WITH RECURSIVE c(x) AS (SELECT 1 UNION ALL SELECT x+1 FROM c WHERE x < %d) SELECT x FROM c); DELETE FROM t WHERE id > (SELECT max(id) FROM t) - %d; INSERT INTO t(k, v) VALUES (5, randomblob(%d)); COMMIT", 40+rnd.Intn(100), 30+rnd.Intn(60), 100+rnd.Intn(5000)), false)
		case c < 17 && w.JournalMode == "wal":
			mode := []string{"PASSIVE", "FULL", "RESTART", "TRUNCATE"}[rnd.Intn(4)]
			ok = exec1("PRAGMA wal_checkpoint("+mode+")", true)
		case c < 18 && w.ModeSwitch:
			if w.JournalMode == "wal" {
				ok = exec1("PRAGMA journal_mode = delete", false) && exec1("INSERT INTO t(k, v) VALUES (7, randomblob(100))", false) && exec1("PRAGMA journal_mode = wal", false)
			} else {
				ok = exec1("PRAGMA journal_mode = wal", false) && exec1("INSERT INTO t(k, v) VALUES (7, randomblob(100))", false) && exec1("PRAGMA journal_mode = "+w.JournalMode, false)
			}
		default: // one big multi-row statement that exceeds the cache
			ok = exec1(fmt.Sprintf("UPDATE t SET v = randomblob(%d) WHERE id > %d", 200+rnd.Intn(1500), rnd.Intn(rows+1)), false)
		}
		if !ok {
			break
		}
	}
	return res
}

func firstWord(s string) string {
	f := strings.Fields(s)
	if len(f) == 0 {
		return "?"
	}
	w := strings.ToUpper(strings.Trim(f[0], ";"))
	if w == "PRAGMA" && len(f) > 1 {
		return "PRAGMA-" + strings.SplitN(strings.SplitN(f[1], "(", 2)[0], "=", 2)[0]
	}
	if w == "BEGIN;" || w == "BEGIN" {
		return "BEGIN-" + strings.ToUpper(strings.Trim(f[len(f)-1], ";"))
	}
	return w
}

func clip(s string) string {
	if len(s) > 160 {
		return s[:160] + "..."
	}
	return s
}

// freeLeaves returns the free-list leaf pages of a database image (trunk pages are structure and are
// journaled like any other page).
func freeLeaves(im sim.Image) map[uint32]bool {
	out := map[uint32]bool{}
	p1 := im.Pages[1]
	if len(p1) < 40 {
		return out
	}
	trunk := binary.BigEndian.Uint32(p1[32:])
	for hops := 0; trunk != 0 && trunk <= im.N && hops < 100000; hops++ {
		t := im.Pages[trunk]
		if len(t) < 8 {
			break
		}
		n := binary.BigEndian.Uint32(t[4:])
		for i := uint32(0); i < n && int(8+4*i+4) <= len(t); i++ {
			out[binary.BigEndian.Uint32(t[8+4*i:])] = true
		}
		trunk = binary.BigEndian.Uint32(t[0:])
	}
	return out
}

func equalButFreeLeaves(a, b sim.Image, lock uint32) (bool, string) {
	if a.N != b.N {
		return false, fmt.Sprintf("size %d <> %d", a.N, b.N)
	}
	free := freeLeaves(a)
	for p := uint32(1); p <= a.N; p++ {
		if p == lock || free[p] {
			continue
		}
		if string(a.Pages[p]) != string(b.Pages[p]) {
			return false, fmt.Sprintf("page %d differs (not a free-list leaf)", p)
		}
	}
	return true, ""
}
