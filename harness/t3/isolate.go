package t3

import (
	"bytes"
	"context"
	"encoding/json"
	"fmt"
	"os"
	"os/exec"
	"path/filepath"
	"syscall"
	"time"
)

const childEnv = "VERIF_T3_CHILD"

// MaybeChild must be the first call of a main that uses RunIsolated: when the process was started as
// a workload child it runs the workload, prints the result as one JSON line and exits.
func MaybeChild() {
	spec := os.Getenv(childEnv)
	if spec == "" {
		return
	}
	var req struct {
		W   Workload
		Dir string
	}
	if err := json.Unmarshal([]byte(spec), &req); err != nil {
		fmt.Fprintln(os.Stderr, "t3 child: bad request:", err)
		os.Exit(3)
	}
	res := Run(req.W, req.Dir)
	b, _ := json.Marshal(res)
	fmt.Printf("T3RESULT %s\n", b)
	os.Exit(0)
}

// RunIsolated runs the workload in a child process of the same binary under a deadline. A real mount
// that wedges (a FUSE request nobody answers) can leave threads in uninterruptible sleep; the parent
// then aborts the FUSE connections, unmounts lazily and reports the hang as a result, not as its own.
func RunIsolated(w Workload, dir string, timeout time.Duration) (res Result, hung bool) {
	if ok, why := Available(); !ok {
		res.Skipped = why
		return res, false
	}
	self, err := os.Executable()
	if err != nil {
		res.Skipped = "no executable path: " + err.Error()
		return res, false
	}
	req, _ := json.Marshal(map[string]any{"W": w, "Dir": dir})
	ctx, cancel := context.WithTimeout(context.Background(), timeout)
	defer cancel()
	cmd := exec.CommandContext(ctx, self)
	cmd.Env = append(os.Environ(), childEnv+"="+string(req))
	cmd.SysProcAttr = &syscall.SysProcAttr{Setpgid: true}
	cmd.Cancel = func() error { return syscall.Kill(-cmd.Process.Pid, syscall.SIGKILL) }
	cmd.WaitDelay = 5 * time.Second
	var out bytes.Buffer
	cmd.Stdout = &out
	cmd.Stderr = os.Stderr
	runErr := cmd.Run()
	// whatever happened, nothing stays mounted
	for _, sub := range []string{"p", "r"} {
		mnt := filepath.Join(dir, sub, "mnt")
		if _, err := os.Stat(mnt); err == nil {
			abortFuseConnOf(mnt)
			_ = exec.Command("umount", "-l", mnt).Run()
		}
	}
	for _, line := range bytes.Split(out.Bytes(), []byte("\n")) {
		if bytes.HasPrefix(line, []byte("T3RESULT ")) {
			if json.Unmarshal(line[len("T3RESULT "):], &res) == nil {
				return res, false
			}
		}
	}
	if ctx.Err() != nil {
		return res, true
	}
	res.Skipped = fmt.Sprintf("workload child ended without a result: %v", runErr)
	return res, false
}

// abortFuseConnOf aborts the FUSE connection behind a mount point so that blocked requests fail.
func abortFuseConnOf(mnt string) {
	var st syscall.Stat_t
	if syscall.Stat(mnt, &st) != nil {
		return
	}
	minor := st.Dev & 0xff
	_ = os.WriteFile(fmt.Sprintf("/sys/fs/fuse/connections/%d/abort", minor), []byte("1"), 0o200)
}
