package t3

import (
	"encoding/json"
	"fmt"
	"os"
	"time"

	"github.com/superfly/litefs/verifharness/core"
)

// Workloads returns the real-SQLite workloads of a tier: every journal mode, small caches (spills,
// multi-segment journals, repeated WAL frames), small and large pages, auto-vacuum, mode switches,
// with and without a replica behind its own kernel mount.
func Workloads(args *core.Args, props map[string]bool) []Workload {
	s := args.Seed
	ws := []Workload{
		{JournalMode: "delete", PageSize: 4096, CacheSize: 10, Steps: 14, Seed: s*100 + 1, ModeSwitch: true, Replica: true},
		{JournalMode: "wal", PageSize: 512, CacheSize: 8, Steps: 14, Seed: s*100 + 2, AutoVacuum: "incremental", Replica: true},
		{JournalMode: "truncate", PageSize: 1024, CacheSize: 12, Steps: 12, Seed: s*100 + 3},
		// a cache that never spills: pages allocated and freed inside a transaction are never written
		{JournalMode: "delete", PageSize: 4096, CacheSize: 5000, Steps: 16, Seed: s*100 + 4, AllocFree: true, Replica: true},
	}
	if args.Quick() {
		return ws
	}
	for i, m := range []string{"delete", "truncate", "persist", "wal"} {
		for j, ps := range []int{512, 4096, 65536} {
			ws = append(ws, Workload{JournalMode: m, PageSize: ps, CacheSize: []int{6, 11, 4000}[j], Steps: 40, Seed: s*100 + int64(10+i*3+j), AllocFree: j == 2,
				AutoVacuum: []string{"", "incremental", "full"}[(i+j)%3], Replica: (i+j)%2 == 0, Compress: j == 1, ModeSwitch: j != 1})
		}
	}
	// databases that contain SQLite's lock page (64 KiB pages: a little over 1 GiB), a few minutes each
	if props["C02"] || props["C04"] {
		ws = append(ws, Workload{JournalMode: "delete", PageSize: 65536, CacheSize: 20, Seed: s*100 + 41, LockPage: true})
	}
	if props["C03"] || props["C01"] {
		ws = append(ws, Workload{JournalMode: "wal", PageSize: 65536, CacheSize: 20, Seed: s*100 + 42, LockPage: true, Replica: true})
	}
	return ws
}

// Stage runs the tier's workloads, each in its own child process, and reports the monitor failures
// that belong to the given properties. Failures of other properties are counted only. When no real
// mount is possible here the stage is skipped and says so.
func Stage(rep *core.Report, args *core.Args, props map[string]bool) {
	if ok, why := Available(); !ok {
		rep.Note("real-SQLite stage (kernel FUSE mount + SQLite) skipped: %s", why)
		return
	}
	t0 := time.Now()
	ran, stmts, commits, other, hangs := 0, 0, 0, 0, 0
	for i, w := range Workloads(args, props) {
		stop := make(chan struct{})
		go func() { // the parent only waits: keep the watchdog informed
			for {
				core.Beat("t3-child")
				select {
				case <-stop:
					return
				case <-time.After(5 * time.Second):
				}
			}
		}()
		res, hung := RunIsolated(w, core.Scratch(fmt.Sprintf("t3-%d", i)), 15*time.Minute)
		close(stop)
		core.Beat("harness")
		if res.Skipped != "" {
			rep.Note("real-SQLite workload %s skipped: %s", w, res.Skipped)
			continue
		}
		if hung {
			// a wedged mount is an observation about this sandbox's FUSE plumbing as much as about
			// LiteFS: it is recorded, never a verdict
			hangs++
			rep.Note("real-SQLite workload %s did not finish within its deadline (mount aborted)", w)
			continue
		}
		ran++
		stmts += res.Statements
		commits += res.Commits
		rep.Eval(res.Evals)
		rep.Case("t3/"+w.String(), res.Commits > 0)
		for _, f := range res.Fails {
			if props[f.Prop] {
				rep.Violate(f.Monitor, f.Sig, f.Detail, map[string]any{"t3_workload": w})
			} else {
				other++
			}
		}
	}
	rep.Note("real-SQLite stage: %d workloads on a real kernel mount, %d SQL statements, %d captured transactions, %d failures of other properties, %d unfinished, %.1fs",
		ran, stmts, commits, other, hangs, time.Since(t0).Seconds())
}

// MaybeReplay handles `-replay <file>` for violations reported by the real-SQLite stage: when the file
// names a workload it is run again (alone) and judged by the same monitors. Returns false when the
// file belongs to another stage of the check.
func MaybeReplay(rep *core.Report, args *core.Args, props map[string]bool) bool {
	if args.Replay == "" {
		return false
	}
	b, err := os.ReadFile(args.Replay)
	if err != nil {
		return false
	}
	var f struct {
		Replay struct {
			W *Workload `json:"t3_workload"`
		} `json:"replay"`
	}
	if json.Unmarshal(b, &f) != nil || f.Replay.W == nil {
		return false
	}
	if ok, why := Available(); !ok {
		core.Infra("cannot replay a real-SQLite workload here: %s", why)
	}
	w := *f.Replay.W
	res, hung := RunIsolated(w, core.Scratch("t3-replay"), 5*time.Minute)
	if hung || res.Skipped != "" {
		core.Infra("real-SQLite workload %s did not produce a result (hung=%v, %s)", w, hung, res.Skipped)
	}
	rep.Eval(res.Evals)
	rep.Case("t3/"+w.String(), res.Commits > 0)
	for _, fl := range res.Fails {
		if props[fl.Prop] {
			rep.Violate(fl.Monitor, fl.Sig, fl.Detail, map[string]any{"t3_workload": w})
		}
	}
	return true
}
