package dbreplay

import (
	"bytes"
	"encoding/json"
	"fmt"
	"math/rand"
	"os"
	"runtime"
	"runtime/debug"
	"strings"
	"sync"
	"time"

	"github.com/superfly/litefs/verifharness/core"
	"github.com/superfly/litefs/verifharness/sim"
)

// Stage is one TLC run that model-checks a configuration of DBFile.tla and emits behaviours.
type Stage struct {
	Name     string
	Module   string
	Cfg      string
	Simulate bool
	Num      int
	Depth    int
	Timeout  time.Duration
	MaxKeep  int    // keep at most this many traces (reservoir-sampled with the seed); 0 = all
	LastIs   string // if set, keep only behaviours whose last action has this name
	// Layouts, if set: every kept behaviour is replayed once under EACH of these page layouts
	// (instead of under one of the standard concretisations chosen per behaviour)
	Layouts []sim.Layout
	Always  []string // behaviours that contain one of these actions are kept regardless of the sample size
	AllCfgs bool     // replay every kept behaviour under EVERY standard concretisation (not one chosen per behaviour)
	Needs   []string // further required actions; "Name*2" = at least two occurrences
	Need    string   // if set, keep only behaviours that contain an action with this name
	Has     []string // raw substrings of the emitted JSON that must occur
	Not     []string // raw substrings of the emitted JSON that must not occur
	MinNs   int      // if > 0, keep only behaviours in which some transaction sets the size to at least this many model pages
	Workers int      // parallel replays (0 = one per CPU); the lock-page layout needs gigabytes per replay
}

// Collect runs the stage; a model-level violation is an infrastructure failure (R2: the model is
// fixed, it does not depend on /repo), never a verdict about the code.
// lastAlways holds the behaviours the most recent Collect kept because of Stage.Always.
var lastAlways []Trace

func Collect(rep *core.Report, st Stage, seed int64) []Trace {
	lastAlways = nil
	var mu sync.Mutex
	var traces, always []Trace
	seen := 0
	rnd := rand.New(rand.NewSource(seed))
	mod := st.Module
	if mod == "" {
		mod = "MC_DBFile"
	}
	res, err := core.RunTLC(core.TLCOpts{Module: mod, Cfg: st.Cfg, Simulate: st.Simulate, SimNum: st.Num, Depth: st.Depth, Seed: seed, Timeout: st.Timeout,
		OnLine: func(tag string, payload json.RawMessage) {
			if tag != "TRACE" {
				return
			}
			if st.LastIs != "" {
				k := bytes.LastIndex(payload, []byte(`"a":"`))
				if k < 0 || !bytes.HasPrefix(payload[k+5:], []byte(st.LastIs+`"`)) {
					return
				}
			}
			if st.Need != "" && !bytes.Contains(payload, []byte(`"a":"`+st.Need+`"`)) {
				return
			}
			okNeeds := true
			for _, nd := range st.Needs {
				name, cnt := nd, 1
				if k := strings.Index(nd, "*"); k > 0 {
					name = nd[:k]
					fmt.Sscan(nd[k+1:], &cnt)
				}
				if bytes.Count(payload, []byte(`"a":"`+name+`"`)) < cnt {
					okNeeds = false
				}
			}
			if !okNeeds {
				return
			}
			for _, h := range st.Has {
				if !bytes.Contains(payload, []byte(h)) {
					return
				}
			}
			for _, h := range st.Not {
				if bytes.Contains(payload, []byte(h)) {
					return
				}
			}
			if st.MinNs > 0 {
				ok := false
				for k := st.MinNs; k <= 9 && !ok; k++ {
					ok = bytes.Contains(payload, []byte(fmt.Sprintf(`"ns":%d`, k)))
				}
				if !ok {
					return
				}
			}
			for _, al := range st.Always {
				if bytes.Contains(payload, []byte(`"a":"`+al+`"`)) {
					var t Trace
					if err := json.Unmarshal(payload, &t); err != nil {
						core.Infra("bad TRACE line: %v", err)
					}
					mu.Lock()
					seen++
					always = append(always, t)
					mu.Unlock()
					return
				}
			}
			mu.Lock()
			seen++
			slot := -1
			if st.MaxKeep == 0 || len(traces) < st.MaxKeep {
				traces = append(traces, Trace{})
				slot = len(traces) - 1
			} else if j := rnd.Intn(seen); j < st.MaxKeep {
				slot = j
			}
			if slot >= 0 {
				var t Trace
				if err := json.Unmarshal(payload, &t); err != nil {
					core.Infra("bad TRACE line: %v", err)
				}
				traces[slot] = t
			}
			mu.Unlock()
		}})
	if err != nil {
		core.Infra("tlc %s: %v", st.Name, err)
	}
	if !res.OK() && !(st.Simulate && res.Violation == "" && !res.TimedOut) {
		core.Infra("model checking stage %s failed (a model problem, not a verdict about the code): %s\n%s\n%s", st.Name, res.Describe(), res.ErrorText, res.OutputTail)
	}
	rep.AddTLC(st.Name, res)
	lastAlways = always
	rep.Note("stage %s: %d behaviours emitted by TLC, %d sampled for replay, %d more kept unconditionally (replayed under every concretisation)", st.Name, seen, len(traces), len(always))
	return traces
}

// ReplayAll replays every trace under one configuration chosen per trace from cfgs (round-robin
// offset by the seed) and records the monitor failures that belong to `prop`.
func ReplayAll(rep *core.Report, prop string, traces []Trace, cfgs []Config, seed int64) {
	replayAll(rep, prop, traces, cfgs, seed, false, 0)
}

func replayAll(rep *core.Report, prop string, traces []Trace, cfgs []Config, seed int64, every bool, nworkers int) {
	if every && len(cfgs) > 1 {
		// one job per (behaviour, configuration)
		var all []Trace
		for _, tr := range traces {
			for range cfgs {
				all = append(all, tr)
			}
		}
		traces, seed = all, 0
	}
	type job struct {
		i  int
		tr Trace
	}
	jobs := make(chan job)
	var wg sync.WaitGroup
	var mu sync.Mutex
	other := map[string]int{}
	workers := runtime.NumCPU()
	if nworkers > 0 {
		workers = nworkers
	}
	for w := 0; w < workers; w++ {
		wg.Add(1)
		go func() {
			defer wg.Done()
			for j := range jobs {
				cfg := cfgs[(j.i+int(seed))%len(cfgs)]
				dir := core.Scratch("node")
				r := Run(j.tr, cfg, dir)
				_ = os.RemoveAll(dir)
				mu.Lock()
				rep.Eval(r.Evals)
				rep.TracesValidated++
				key := traceKey(j.tr) + "|" + cfg.String()
				rep.Case(key, r.Nontrivial)
				for _, nc := range r.Nonconf {
					rep.Nonconf("%s [%s] %s", traceKey(j.tr), cfg, nc)
				}
				for _, f := range r.Fails {
					if f.Prop == prop {
						rep.Violate(f.Monitor, f.Sig, map[string]any{"step": f.Step, "detail": f.Detail, "config": cfg.String()}, map[string]any{"trace": j.tr, "config": cfg})
					} else {
						other[f.Prop+":"+f.Monitor]++
					}
				}
				mu.Unlock()
			}
		}()
	}
	for i, tr := range traces {
		jobs <- job{i, tr}
	}
	close(jobs)
	wg.Wait()
	if len(other) > 0 {
		rep.Extra["monitor_failures_of_other_properties"] = other
	}
	if len(traces) > 0 {
		rep.Sample(map[string]any{"behaviour": compactTrace(traces[len(traces)/2])})
	}
}

func traceKey(t Trace) string {
	s := ""
	for _, st := range t.H {
		if st.A == "BeginJ" || st.A == "BeginW" || st.A == "Ckpt" || st.A == "LCkpt" {
			s += st.A + string(st.G) + ";"
		}
	}
	return s
}

func compactTrace(t Trace) []string {
	var out []string
	for _, st := range t.H {
		out = append(out, fmt.Sprintf("%s%s -> t=%d n=%d %s", st.A, st.G, st.O.T, st.O.N, st.O.M))
	}
	return out
}

// StdConfigs returns the concretisation variants used by the DBFile checks.
func StdConfigs(thorough bool) []Config {
	cfgs := []Config{
		{Layout: sim.L1(512), Pager: sim.PagerOpts{Sector: 512}},
		{Layout: sim.L0(4096), Pager: sim.PagerOpts{Sector: 4096, BigEndian: true, SplitHdr: true}, Compress: true},
		{Layout: sim.L1(1024), Pager: sim.PagerOpts{Sector: 512, BigEndian: true}},
		{Layout: sim.L0(512), Pager: sim.PagerOpts{Sector: 512, SplitHdr: true}, Compress: true},
	}
	if thorough {
		cfgs = append(cfgs,
			Config{Layout: sim.L1(4096), Pager: sim.PagerOpts{Sector: 4096}, Compress: true},
			Config{Layout: sim.L0(65536), Pager: sim.PagerOpts{Sector: 512, BigEndian: true}},
			Config{Layout: sim.L0(1024), Pager: sim.PagerOpts{Sector: 4096, SplitHdr: true}},
			Config{Layout: sim.L1(2048), Pager: sim.PagerOpts{Sector: 512, SplitHdr: true, BigEndian: true}},
		)
	}
	return cfgs
}

// Main is the common driver of the DBFile-based checks.
func Main(rep *core.Report, args *core.Args, prop string, stages []Stage) {
	core.Watchdog(120*time.Second, func(label string, since time.Duration) {
		if len(label) > 5 && label[:5] == "real:" {
			rep.Violate(prop+".no-hang", "hang/"+label, map[string]any{"no_progress_for": since.String()}, nil)
			rep.Finish()
		}
		core.Infra("no progress for %s while %s", since, label)
	})
	if args.Replay != "" {
		ReplayFile(rep, prop, args.Replay)
		rep.Finish()
	}
	cfgs := StdConfigs(!args.Quick())
	for _, st := range stages {
		core.Beat("tlc")
		stop := make(chan struct{})
		go func() {
			for {
				select {
				case <-stop:
					return
				case <-time.After(5 * time.Second):
					core.Beat("tlc")
				}
			}
		}()
		t0 := time.Now()
		traces := Collect(rep, st, args.Seed)
		close(stop)
		tTLC := time.Since(t0)
		stageStart := time.Now()
		stageDone := func() {
			rep.Note("stage %s: TLC %.1fs, replay on the code %.1fs", st.Name, tTLC.Seconds(), time.Since(stageStart).Seconds())
		}
		if len(st.Layouts) > 0 {
			var lc []Config
			for i, l := range st.Layouts {
				lc = append(lc, Config{Layout: l, Pager: sim.PagerOpts{Sector: 512, BigEndian: i%2 == 1}})
			}
			// huge layouts (the lock page is page 16385 of a 64 KiB-page database: every image is 1 GiB):
			// collect garbage eagerly while they run, the default lets the heap double first
			big := false
			for _, l := range st.Layouts {
				big = big || l.PageSize >= 65536
			}
			if big {
				old := debug.SetGCPercent(20)
				replayAll(rep, prop, traces, lc, args.Seed, true, st.Workers)
				debug.SetGCPercent(old)
				debug.FreeOSMemory()
			} else {
				replayAll(rep, prop, traces, lc, args.Seed, true, st.Workers)
			}
			stageDone()
			continue
		}
		if st.AllCfgs {
			replayAll(rep, prop, traces, cfgs, args.Seed, true, st.Workers)
		} else {
			ReplayAll(rep, prop, traces, cfgs, args.Seed)
		}
		if len(lastAlways) > 0 {
			replayAll(rep, prop, lastAlways, cfgs, args.Seed, true, st.Workers)
		}
		stageDone()
	}
	if Post != nil {
		Post()
	}
	rep.Finish()
}

// Post, when set, runs after the model-driven stages and before the report is finished (the
// real-SQLite stage of the checks that have one).
var Post func()

// ReplayFile re-executes the behaviour stored in a replay file.
func ReplayFile(rep *core.Report, prop, path string) {
	b, err := os.ReadFile(path)
	if err != nil {
		core.Infra("read replay: %v", err)
	}
	var f struct {
		Replay struct {
			Trace  Trace  `json:"trace"`
			Config Config `json:"config"`
		} `json:"replay"`
	}
	if err := json.Unmarshal(b, &f); err != nil {
		core.Infra("parse replay: %v", err)
	}
	ReplayAll(rep, prop, []Trace{f.Replay.Trace}, []Config{f.Replay.Config}, 0)
}

// Record adds the outcome of one replay to the report (failures of other properties are only counted).
func Record(rep *core.Report, prop string, tr Trace, cfg Config, r Result) {
	rep.Eval(r.Evals)
	rep.TracesValidated++
	rep.Case(traceKey(tr)+crashKey(tr)+"|"+cfg.String(), r.Nontrivial)
	for _, nc := range r.Nonconf {
		rep.Nonconf("%s [%s] %s", traceKey(tr), cfg, nc)
	}
	other, _ := rep.Extra["monitor_failures_of_other_properties"].(map[string]int)
	if other == nil {
		other = map[string]int{}
	}
	for _, f := range r.Fails {
		if f.Prop == prop {
			rep.Violate(f.Monitor, f.Sig, map[string]any{"step": f.Step, "detail": f.Detail, "config": cfg.String()}, map[string]any{"trace": tr, "config": cfg})
		} else {
			other[f.Prop+":"+f.Monitor]++
			if os.Getenv("VERIF_DEBUG_OTHER") != "" {
				b, _ := json.Marshal(f)
				fmt.Fprintf(os.Stderr, "other-property failure: %s\n  trace: %v\n", b, compactTrace(tr))
			}
		}
	}
	if len(other) > 0 {
		rep.Extra["monitor_failures_of_other_properties"] = other
	}
}

func crashKey(t Trace) string {
	if n := len(t.H); n > 0 && t.H[n-1].A == "Crash" {
		return "crash" + string(t.H[n-1].G)
	}
	return ""
}

// Compact renders a behaviour for the evidence file.
func Compact(t Trace) []string { return compactTrace(t) }

// ReplayCrashFile re-executes a crash behaviour stored in a replay file.
func ReplayCrashFile(rep *core.Report, prop, path string) {
	b, err := os.ReadFile(path)
	if err != nil {
		core.Infra("read replay: %v", err)
	}
	var f struct {
		Replay struct {
			Trace  Trace  `json:"trace"`
			Config Config `json:"config"`
		} `json:"replay"`
	}
	if err := json.Unmarshal(b, &f); err != nil {
		core.Infra("parse replay: %v", err)
	}
	dir := core.Scratch("crash")
	r := RunCrash(f.Replay.Trace, f.Replay.Config, dir, true)
	Record(rep, prop, f.Replay.Trace, f.Replay.Config, r)
}
