package dbreplay

import (
	"crypto/sha256"
	"encoding/hex"
	"encoding/json"
	"fmt"
	"os"
	"path/filepath"
	"sort"
	"strings"
	"sync"
	"time"

	"github.com/superfly/litefs"
	"github.com/superfly/litefs/verifharness/core"
	"github.com/superfly/litefs/verifharness/sim"
)

// Crash-point enumeration (C05). A behaviour of DBFile.tla that contains a Crash step is replayed up
// to that step; while the interrupted operation runs, the data directory is copied ("survivor") at
// every step boundary the real code exposes: every call LiteFS makes through its OS interface, every
// internal or client page write / file truncate (hook H1), and every boundary between two pager
// operations. Process death keeps completed writes, so each copy is exactly what a restart would
// find. A fresh store is opened on each survivor and the property's clauses are evaluated.

var (
	stepHookOnce sync.Once
	stepHooks    sync.Map // *litefs.Store -> func(kind string, arg uint32, internal bool)
)

func installStepHook() {
	stepHookOnce.Do(func() {
		litefs.VerifStepHook = func(db *litefs.DB, kind string, arg uint32, internal bool) {
			if f, ok := stepHooks.Load(db.Store()); ok {
				f.(func(string, uint32, bool))(kind, arg, internal)
			}
		}
	})
}

type survivor struct {
	dir      string
	label    string
	returned bool // taken after the capturing call (JFinal / WEnd) returned success
	opDone   bool
}

func dirDigest(dir string) string {
	h := sha256.New()
	_ = filepath.Walk(dir, func(p string, fi os.FileInfo, err error) error {
		if err != nil || fi.IsDir() {
			return nil
		}
		rel, _ := filepath.Rel(dir, p)
		if strings.HasPrefix(rel, "mnt-not-mounted") {
			return nil
		}
		b, _ := os.ReadFile(p)
		fmt.Fprintf(h, "%s:%d:", rel, len(b))
		h.Write(b)
		return nil
	})
	return hex.EncodeToString(h.Sum(nil)[:12])
}

// RunCrash replays a behaviour with a Crash step. base is a scratch directory.
func RunCrash(tr Trace, cfg Config, base string, followUp bool) (res Result) {
	installStepHook()
	crashAt := -1
	for i, st := range tr.H {
		if st.A == "Crash" {
			crashAt = i
			break
		}
	}
	if crashAt < 0 {
		return Run(tr, cfg, filepath.Join(base, "n0"))
	}
	var cg struct {
		Mid string `json:"mid"`
		S   []int  `json:"S"`
		At  string `json:"at"`
	}
	_ = json.Unmarshal(tr.H[crashAt].G, &cg)

	e := &engine{cfg: cfg, res: &res, name: "db"}
	liveDir := filepath.Join(base, "live")
	node, err := sim.OpenNode(sim.NodeOpts{Dir: liveDir, Primary: true, Compress: cfg.Compress})
	if err != nil {
		core.Infra("open node: %v", err)
	}
	e.node = node
	e.dbDir = node.DBDir(e.name)
	e.conn = node.Connect(e.name, 101)
	e.pg = sim.NewPager(e.conn, cfg.Layout, cfg.Pager)
	e.lastVisible = sim.Image{Pages: map[uint32][]byte{}}

	// the interrupted operation starts after the last idle point before the crash
	opStart := 0
	for i := 0; i < crashAt; i++ {
		if tr.H[i].O.I {
			opStart = i + 1
		}
	}
	var survivors []survivor
	seen := map[string]bool{}
	var smu sync.Mutex
	recording := false
	returned := false
	snapN := 0
	take := func(label string) {
		smu.Lock()
		defer smu.Unlock()
		if !recording {
			return
		}
		snapN++
		d := filepath.Join(base, fmt.Sprintf("s%03d", snapN))
		if err := sim.CopyDir(liveDir, d); err != nil {
			core.Infra("copy survivor: %v", err)
		}
		dg := dirDigest(d)
		if seen[dg] {
			_ = os.RemoveAll(d)
			return
		}
		seen[dg] = true
		survivors = append(survivors, survivor{dir: d, label: label, returned: returned})
	}
	node.OS.Before = func(ev sim.OSEvent) error {
		take("os:" + ev.Call + ":" + ev.Label)
		return nil
	}
	stepHooks.Store(node.Store, func(kind string, arg uint32, internal bool) {
		take(fmt.Sprintf("h1:%s:%d:%v", kind, arg, internal))
	})
	defer stepHooks.Delete(node.Store)

	// reference images: before = committed image when the interrupted operation began
	var before, after []sim.Content
	var beforePos, afterPos snap
	modelCrashDir := ""
	for i := 0; i < crashAt; i++ {
		e.step = i
		res.Steps++
		if i == opStart+1 && e.opShape == "" {
			e.opShape = e.shape()
		}
		if i == opStart {
			before = append([]sim.Content(nil), e.pg.Ref...)
			beforePos = e.snapshot()
			smu.Lock()
			recording = true
			smu.Unlock()
			take("op-start")
		}
		core.Beat("real:dbfile:" + tr.H[i].A)
		e.doStep(tr.H[i])
		if e.dead {
			break
		}
		if i >= opStart {
			if tr.H[i].A == "JFinal" || tr.H[i].A == "WEnd" {
				returned = true
			}
			take("after:" + tr.H[i].A)
		}
	}
	if opStart >= crashAt {
		// crash at an idle point: the only survivor is the current directory
		before = append([]sim.Content(nil), e.pg.Ref...)
		beforePos = e.snapshot()
		smu.Lock()
		recording = true
		smu.Unlock()
		returned = true
		take("idle")
	}
	if e.dead {
		_ = core.Try(e.conn.Close)
		_ = core.Try(node.Close)
		return res
	}

	// Let the interrupted operation run to its end on the live node so that every later step boundary
	// of it is enumerated too, and to learn the "after" image. The model-level crash point is the
	// survivor taken right before this continuation.
	smu.Lock()
	if len(survivors) > 0 {
		modelCrashDir = survivors[len(survivors)-1].dir
	}
	smu.Unlock()
	switch cg.Mid {
	case "ckpt":
		// client checkpoint in progress
		_ = core.Try(func() { _ = e.pg.Ckpt("PASSIVE") })
		take("after:Ckpt")
	case "lckpt":
		_ = core.Try(func() {
			if db := node.Store.DB(e.name); db != nil {
				_ = db.Checkpoint(sim.Ctx())
			}
		})
		take("after:LCkpt")
	default:
		// finish the open transaction the way its plan says
		e.finishOpenOperation(tr, crashAt, opStart, take, &returned, len(before))
	}
	after = append([]sim.Content(nil), e.pg.Ref...)
	afterPos = e.snapshot()
	smu.Lock()
	recording = false
	smu.Unlock()
	node.OS.Before = nil
	_ = core.Try(e.conn.Close)
	_ = core.Try(node.Close)
	if ex := node.Exits(); len(ex) > 0 {
		e.fail("C05", "C05.no-exit-before-crash", "exit-before-crash/"+e.shape(), map[string]any{"codes": ex})
	}

	// ---- open a fresh store on every survivor ----
	for _, sv := range survivors {
		e.checkSurvivor(sv, before, after, beforePos, afterPos, followUp && sv.dir == modelCrashDir)
	}
	res.Nontrivial = len(survivors) > 1
	res.Commits = len(survivors)
	for _, sv := range survivors {
		_ = os.RemoveAll(sv.dir)
	}
	return res
}

// finishOpenOperation drives the interrupted transaction to completion following its plan.
func (e *engine) finishOpenOperation(tr Trace, crashAt, opStart int, take func(string), returned *bool, beforeLen int) {
	if opStart >= crashAt {
		return
	}
	pl := e.plan
	done := map[string]bool{}
	pagesDone := map[int]bool{}
	for i := opStart; i < crashAt; i++ {
		done[tr.H[i].A] = true
		if tr.H[i].A == "JPage" || tr.H[i].A == "WFrame" {
			var g struct {
				P int `json:"p"`
			}
			_ = json.Unmarshal(tr.H[i].G, &g)
			pagesDone[g.P] = true
		}
	}
	run := func(label string, f func() error) bool {
		var err error
		if p := core.Try(func() { err = f() }); p != nil || err != nil {
			return false
		}
		take("after:" + label)
		return true
	}
	if pl.Kind == "j" {
		if !done["JCreate"] && !run("JCreate", e.pg.JCreate) {
			return
		}
		if pl.Out == "rb_early" {
			run("JFinal", e.pg.JFinal)
			*returned = true
			e.pg.EndJ()
			return
		}
		if !done["JSync"] && !run("JSync", e.pg.JSync) {
			return
		}
		if pl.Out == "commit" {
			for _, q := range pl.M {
				if !pagesDone[q] {
					q := q
					if !run("JPage", func() error { return e.pg.JPage(q) }) {
						return
					}
				}
			}
			if !done["JFinal"] {
				if !run("JFinal", e.pg.JFinal) {
					return
				}
				*returned = true
				take("returned:JFinal")
			}
			if pl.Ns < beforeLen && !done["JTrunc"] {
				run("JTrunc", func() error { return e.pg.JTrunc(pl.Ns) })
			}
			e.pg.EndJ()
		}
		// rb_spill continuation is not driven further: its remaining steps are rollback steps that the
		// model enumerates one by one in other behaviours
		return
	}
	if pl.Kind == "w" {
		// remaining frames then release of WRITE
		type fr struct {
			q     int
			early bool
		}
		var seq []fr
		if pl.Dup != 0 {
			seq = append(seq, fr{pl.Dup, true})
		}
		for _, q := range pl.M {
			seq = append(seq, fr{q, false})
		}
		written := 0
		for i := opStart; i < crashAt; i++ {
			if tr.H[i].A == "WFrame" {
				written++
			}
		}
		if !done["WHdr"] {
			return // the header decision belongs to the model; such crash points are covered by "op-start"
		}
		for k := written; k < len(seq); k++ {
			f := seq[k]
			last := k == len(seq)-1
			if !run("WFrame", func() error { return e.pg.WFrame(f.q, f.early, last && pl.Out == "commit") }) {
				return
			}
		}
		if !done["WEnd"] {
			if run("WEnd", e.pg.WEnd) {
				*returned = true
				take("returned:WEnd")
			}
		}
	}
}

func (e *engine) checkSurvivor(sv survivor, before, after []sim.Content, beforePos, afterPos snap, followUp bool) {
	L := e.cfg.Layout
	shp := e.opShape
	if shp == "" {
		shp = "idle"
	}
	sig := func(what string) string { return what + "/" + shp + "/at:" + sv.label }
	detail := func(extra map[string]any) map[string]any {
		m := map[string]any{"crash_point": sv.label, "plan": e.plan, "after_commit_returned": sv.returned}
		for k, v := range extra {
			m[k] = v
		}
		return m
	}
	// what the newest LTX file on disk names
	files, _ := sim.ListLTX(filepath.Join(sv.dir, "dbs", e.name))
	var wantTXID, wantChk uint64
	if n := len(files); n > 0 {
		if files[n-1].Err != "" {
			e.fail("C05", "C05.newest-ltx-verifies", sig("newest-ltx-invalid"), detail(map[string]any{"file": files[n-1].Name, "error": files[n-1].Err}))
			return
		}
		wantTXID, wantChk = files[n-1].Max, files[n-1].Post
	}
	e.res.Evals += 6
	var node *sim.Node
	var err error
	done := make(chan struct{})
	var pn *core.Panic
	core.Beat("real:open-survivor")
	go func() {
		pn = core.Try(func() { node, err = sim.OpenNode(sim.NodeOpts{Dir: sv.dir, Primary: true, Compress: e.cfg.Compress}) })
		close(done)
	}()
	select {
	case <-done:
	case <-time.After(30 * time.Second):
		e.fail("C05", "C05.restart-succeeds", sig("restart-hangs"), detail(nil))
		return
	}
	core.Beat("harness")
	if pn != nil {
		e.fail("C05", "C05.restart-succeeds", sig("restart-panics"), detail(map[string]any{"panic": pn.Value, "stack": pn.Stack}))
		return
	}
	if err != nil {
		e.fail("C05", "C05.restart-succeeds", sig("restart-fails"), detail(map[string]any{"error": err.Error()}))
		return
	}
	defer func() { _ = core.Try(node.Close) }()
	db := node.Store.DB(e.name)
	var pos snap
	if db != nil {
		p := db.Pos()
		pos = snap{txid: uint64(p.TXID), chk: uint64(p.PostApplyChecksum), pageN: db.PageN(), have: true}
		if db.Mode() == litefs.DBModeWAL {
			pos.mode = "wal"
		} else {
			pos.mode = "rb"
		}
	}
	if pos.txid != wantTXID || (wantTXID > 0 && pos.chk != wantChk) {
		e.fail("C05", "C05.position-of-newest-ltx", sig("position"), detail(map[string]any{"pos_txid": pos.txid, "pos_chk": pos.chk, "ltx_txid": wantTXID, "ltx_chk": wantChk}))
	}
	// before or after, never a mixture
	var expect []sim.Content
	switch {
	case pos.txid == afterPos.txid && afterPos.txid != beforePos.txid:
		expect = after
	case pos.txid == beforePos.txid:
		expect = before
	default:
		e.fail("C05", "C05.before-or-after", sig("neither-before-nor-after"), detail(map[string]any{"pos_txid": pos.txid, "before": beforePos.txid, "after": afterPos.txid}))
		return
	}
	if sv.returned && pos.txid != afterPos.txid {
		e.fail("C05", "C05.acknowledged-commit-not-lost", sig("acknowledged-commit-lost"), detail(map[string]any{"pos_txid": pos.txid, "after": afterPos.txid}))
	}
	dbDir := filepath.Join(sv.dir, "dbs", e.name)
	im, derr := sim.DiskImage(dbDir, L.PageSize)
	if derr != nil {
		core.Infra("disk image: %v", derr)
	}
	want := L.ImageOf(expect)
	if ok, why := im.Equal(want, L.LockPgno()); !ok {
		model, bad := L.ModelOf(im)
		e.fail("C05", "C05.image-of-that-position", sig("image"), detail(map[string]any{"why": why, "recovered_model": model, "undecodable_pages": bad, "expected_model": expect}))
	}
	// the file holds exactly the pages of that position: nothing of the other image survives behind its end
	if fi, serr := os.Stat(filepath.Join(dbDir, "database")); serr == nil && want.N > 0 && fi.Size() != int64(want.N)*int64(L.PageSize) {
		e.fail("C05", "C05.image-of-that-position", sig("file-size"), detail(map[string]any{"file_bytes": fi.Size(), "expected_pages": want.N, "page_size": L.PageSize}))
	}
	if pos.have && pos.txid > 0 && im.Checksum(L.LockPgno()) != pos.chk {
		e.fail("C04", "C04.reported-equals-from-scratch", sig("checksum-after-restart"), detail(map[string]any{"reported": pos.chk, "from_scratch": im.Checksum(L.LockPgno())}))
	}
	// nothing left for SQLite to replay differently
	if _, err := os.Stat(filepath.Join(dbDir, "journal")); err == nil {
		e.fail("C05", "C05.no-hot-journal", sig("journal-left"), detail(nil))
	}
	if fi, err := os.Stat(filepath.Join(dbDir, "wal")); err == nil && fi.Size() > 0 {
		e.fail("C05", "C05.no-uncheckpointed-wal", sig("wal-left"), detail(map[string]any{"size": fi.Size()}))
	}
	if ex := node.Exits(); len(ex) > 0 {
		e.fail("C05", "C05.restart-succeeds", sig("exit-on-restart"), detail(map[string]any{"codes": ex}))
	}
	if !followUp || len(e.res.Fails) > 0 {
		return
	}
	// the restarted node can commit again: one more transaction in the mode the header says
	e.res.Evals += 3
	conn := node.Connect(e.name, 202)
	pg := sim.NewPager(conn, L, e.cfg.Pager)
	pg.Ref = append([]sim.Content(nil), expect...)
	defer func() { _ = core.Try(conn.Close) }()
	ns := len(expect)
	if ns == 0 {
		ns = 2
	}
	pl := sim.Plan{Kind: "j", Ns: ns, M: seqTo(ns, len(expect)), Out: "commit", Fin: "DELETE", V: 90}
	var ferr error
	fpn := core.Try(func() {
		if pg.WalMode() {
			pl.Kind, pl.Wal = "w", true
			ferr = firstErr(func() error { return pg.BeginW(pl) }, func() error { return pg.WHdr(77) })
			for i, q := range pl.M {
				if ferr == nil {
					ferr = pg.WFrame(q, false, i == len(pl.M)-1)
				}
			}
			if ferr == nil {
				ferr = pg.WEnd()
			}
		} else {
			ferr = firstErr(func() error { return pg.BeginJ(pl) }, pg.JCreate, pg.JSync)
			for _, q := range pl.M {
				if ferr == nil {
					ferr = pg.JPage(q)
				}
			}
			if ferr == nil {
				ferr = pg.JFinal()
			}
			pg.EndJ()
		}
	})
	if fpn != nil || ferr != nil || len(node.Exits()) > 0 {
		e.fail("C05", "C05.can-commit-again", sig("follow-up-commit-fails"), detail(map[string]any{"error": fmt.Sprint(ferr), "panic": fpn, "exits": node.Exits()}))
		return
	}
	np := node.Store.DB(e.name).Pos()
	if uint64(np.TXID) != pos.txid+1 {
		e.fail("C05", "C05.can-commit-again", sig("follow-up-not-captured"), detail(map[string]any{"txid": np.TXID, "want": pos.txid + 1}))
		return
	}
	nfiles, _ := sim.ListLTX(dbDir)
	if n := len(nfiles); n == 0 || nfiles[n-1].Err != "" || nfiles[n-1].Pre != pos.chk && pos.txid > 0 {
		e.fail("C09", "C09.contiguous", sig("follow-up-chain"), detail(nil))
		return
	}
	last := nfiles[len(nfiles)-1]
	got := last.Apply(want)
	if ok, why := got.Equal(L.ImageOf(pg.Ref), L.LockPgno()); !ok {
		e.fail("C05", "C05.can-commit-again", sig("follow-up-delta-wrong"), detail(map[string]any{"why": why, "ltx_pages": last.Order, "mode_litefs": pos.mode, "header_wal": pg.WalMode()}))
	}
}

func firstErr(fs ...func() error) error {
	for _, f := range fs {
		if err := f(); err != nil {
			return err
		}
	}
	return nil
}

func seqTo(ns, cur int) []int {
	m := []int{1}
	for q := cur + 1; q <= ns; q++ {
		if q != 1 {
			m = append(m, q)
		}
	}
	sort.Ints(m)
	return m
}
