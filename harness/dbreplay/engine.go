// Package dbreplay steps behaviours of DBFile.tla through a real LiteFS node (no kernel mount) and
// evaluates the monitors of C02, C03, C04 and C09 on what the real code does.
package dbreplay

import (
	"encoding/json"
	"fmt"
	"os"
	"path/filepath"
	"sort"
	"strings"
	"time"

	"github.com/superfly/litefs"
	"github.com/superfly/litefs/verifharness/core"
	"github.com/superfly/litefs/verifharness/sim"
)

// Obs is the specification's prediction of the observables after a step.
type Obs struct {
	T  int    `json:"t"`
	N  int    `json:"n"`
	M  string `json:"m"`
	F  string `json:"f"`
	NL int    `json:"nl"`
	I  bool   `json:"i"`
}

// Step is one action of a behaviour.
type Step struct {
	A string          `json:"a"`
	G json.RawMessage `json:"g"`
	O Obs             `json:"o"`
}

// Trace is one behaviour printed by TLC (EmitInv of DBFile.tla).
type Trace struct {
	H   []Step        `json:"h"`
	Img []sim.Content `json:"img"`
	Ref []sim.Content `json:"ref"`
}

// Config holds the concretisation parameters of a replay.
type Config struct {
	Layout   sim.Layout
	Pager    sim.PagerOpts
	Compress bool
}

func (c Config) String() string {
	return fmt.Sprintf("%s/ps%d/sector%d/be%v/split%v/lz4%v", c.Layout.Name, c.Layout.PageSize, c.Pager.Sector, c.Pager.BigEndian, c.Pager.SplitHdr, c.Compress)
}

// Fail is one monitor failure.
type Fail struct {
	Prop    string `json:"prop"`
	Monitor string `json:"monitor"`
	Sig     string `json:"sig"`
	Step    int    `json:"step"`
	Detail  any    `json:"detail"`
}

// Result of replaying one trace.
type Result struct {
	Fails      []Fail
	Nonconf    []string
	Evals      int
	Commits    int // transactions captured (position advanced)
	Rollbacks  int
	Nontrivial bool
	Steps      int
}

type engine struct {
	cfg   Config
	node  *sim.Node
	conn  *sim.Conn
	pg    *sim.Pager
	res   *Result
	name  string
	dbDir string

	lastVisible sim.Image // image at the previous position (what SQLite saw before the open transaction)
	plan        sim.Plan
	step        int
	dead        bool
	opShape     string
}

func (e *engine) fail(prop, monitor, sig string, detail any) {
	e.res.Fails = append(e.res.Fails, Fail{Prop: prop, Monitor: monitor, Sig: sig, Step: e.step, Detail: detail})
}

func (e *engine) nonconf(format string, a ...any) {
	e.res.Nonconf = append(e.res.Nonconf, fmt.Sprintf("step %d: ", e.step)+fmt.Sprintf(format, a...))
}

type snap struct {
	txid  uint64
	chk   uint64
	pageN uint32
	mode  string
	have  bool
}

func (e *engine) snapshot() snap {
	db := e.node.Store.DB(e.name)
	if db == nil {
		return snap{}
	}
	pos := db.Pos()
	m := "rb"
	if db.Mode() == litefs.DBModeWAL {
		m = "wal"
	}
	return snap{txid: uint64(pos.TXID), chk: uint64(pos.PostApplyChecksum), pageN: db.PageN(), mode: m, have: true}
}

// Run replays one trace on a fresh node in dir.
func Run(tr Trace, cfg Config, dir string) (res Result) {
	e := &engine{cfg: cfg, res: &res, name: "db"}
	node, err := sim.OpenNode(sim.NodeOpts{Dir: dir, Primary: true, Compress: cfg.Compress})
	if err != nil {
		core.Infra("open node: %v", err)
	}
	defer func() { _ = core.Try(node.Close) }()
	e.node = node
	e.dbDir = node.DBDir(e.name)
	e.conn = node.Connect(e.name, 101)
	e.pg = sim.NewPager(e.conn, cfg.Layout, cfg.Pager)
	e.lastVisible = sim.Image{Pages: map[uint32][]byte{}}
	defer func() { _ = core.Try(e.conn.Close) }()

	for i, st := range tr.H {
		e.step = i
		res.Steps++
		core.Beat("real:dbfile:" + st.A)
		e.doStep(st)
		if e.dead {
			break
		}
	}
	core.Beat("harness")
	return res
}

func (e *engine) lockPg() uint32 { return e.cfg.Layout.LockPgno() }

func (e *engine) doStep(st Step) {
	before := e.snapshot()
	var err error
	var g struct {
		P      int    `json:"p"`
		N      int    `json:"n"`
		Salt   int    `json:"salt"`
		Commit int    `json:"commit"`
		Early  bool   `json:"early"`
		Kind   string `json:"kind"`
		X      bool   `json:"x"`
		Fr     bool   `json:"fr"`
	}
	_ = json.Unmarshal(st.G, &g)
	pn := core.Try(func() {
		switch st.A {
		case "BeginJ", "BeginW":
			var pl sim.Plan
			if uerr := json.Unmarshal(st.G, &pl); uerr != nil {
				core.Infra("bad plan: %v", uerr)
			}
			sort.Ints(pl.M)
			if st.A == "BeginJ" {
				pl.Kind = "j"
				e.plan = pl
				err = e.pg.BeginJ(pl)
			} else {
				pl.Kind = "w"
				pl.Wal = true
				e.plan = pl
				err = e.pg.BeginW(pl)
			}
		case "JRmWal":
			err = e.pg.JRmWal()
		case "JCreate":
			err = e.pg.JCreate()
		case "JSync":
			err = e.pg.JSync()
		case "JPage":
			if g.X {
				err = e.pg.JPageBeyond(g.P)
			} else if g.Fr {
				err = e.pg.JPageFree(g.P)
			} else {
				err = e.pg.JPage(g.P)
			}
		case "JRbTrunc":
			err = e.pg.JRbTrunc(g.N)
		case "JRbPage":
			err = e.pg.JRbPage(g.P)
		case "JFinal":
			err = e.pg.JFinal()
		case "JFinalFail":
			// the publication of the transaction fails: the rename of the LTX file is refused (what a refused
			// forwarded commit or a full disk amounts to); SQLite gets an error from the finalisation
			prev := e.node.OS.Before
			e.node.OS.Before = func(ev sim.OSEvent) error {
				if ev.Call == "Rename" && strings.HasPrefix(ev.Label, "COMMITJOURNAL") {
					return fmt.Errorf("injected: rename refused")
				}
				if prev != nil {
					return prev(ev)
				}
				return nil
			}
			ferr := e.pg.JFinal()
			e.node.OS.Before = prev
			if ferr == nil {
				e.nonconf("JFinalFail: the finalisation succeeded although the rename of the LTX file was refused")
			}
		case "JTrunc":
			err = e.pg.JTrunc(g.N)
		case "WHdr":
			err = e.pg.WHdr(g.Salt)
		case "WFrame":
			if g.X {
				err = e.pg.WFrameBeyond(g.P)
			} else {
				err = e.pg.WFrame(g.P, g.Early, g.Commit != 0)
			}
		case "WEnd":
			err = e.pg.WEnd()
		case "Ckpt":
			err = e.pg.Ckpt(g.Kind)
		case "LCkpt":
			db := e.node.Store.DB(e.name)
			if db != nil {
				err = db.Checkpoint(sim.Ctx())
			}
			e.pg.ForgetWAL()
		case "DropDB":
			// unlink of the database through the FUSE handler; every handle of the connection goes first
			e.conn.Close()
			e.plan = sim.Plan{Kind: "drop", Out: "commit"}
			c2 := e.node.Connect(e.name, 102)
			err = c2.RemoveDB()
			if err == nil {
				e.pg = sim.NewPager(e.conn, e.cfg.Layout, e.cfg.Pager)
			}
		case "Litter":
			// what interrupted receives leave behind: temporary files next to the transaction files
			dir := filepath.Join(e.dbDir, "ltx")
			top := e.snapshot().txid + 1
			for _, n := range []string{fmt.Sprintf("%016x-%016x.ltx.tmp", top, top), fmt.Sprintf("%016x-%016x.ltx.%d.tmp", top, top, 424242+e.step), fmt.Sprintf("%016x-%016x.ltx.%d.tmp", top+1, top+1, 7)} {
				_ = os.WriteFile(filepath.Join(dir, n), []byte("partial"), 0o666)
			}
		case "Retain":
			e.node.Store.Retention = time.Nanosecond
			time.Sleep(2 * time.Millisecond)
			err = e.node.Store.EnforceRetention(sim.Ctx())
			e.checkChain(e.snapshot())
		default:
			core.Infra("unknown action %q", st.A)
		}
	})
	after := e.snapshot()
	capture := st.A == "JFinal" || st.A == "WEnd" || st.A == "DropDB"
	prop := "C02"
	if e.plan.Kind == "w" || st.A == "Ckpt" || st.A == "LCkpt" || st.A == "WHdr" || st.A == "WFrame" || st.A == "WEnd" {
		prop = "C03"
	}
	shape := e.shape()

	// ---- no panic, no Exit ----
	e.res.Evals += 2
	if pn != nil {
		e.fail(prop, prop+".no-panic", "panic/"+st.A+"/"+shape, map[string]any{"panic": pn.Value, "stack": pn.Stack, "plan": e.plan})
		e.dead = true
		return
	}
	if ex := e.node.Exits(); len(ex) > 0 {
		e.fail(prop, prop+".no-exit", "exit/"+st.A+"/"+shape, map[string]any{"codes": ex, "plan": e.plan})
		e.dead = true
		return
	}

	// ---- an operation of a well-formed transaction on a writable node is accepted ----
	if err != nil {
		if st.O.F != "none" {
			// the specification predicts this refusal; it is only legitimate as a recorded finding
			e.fail(prop, prop+".operation-accepted", "refused/"+st.A+"/"+shape, map[string]any{"error": sim.ErrString(err), "plan": e.plan, "model_fault": st.O.F})
		} else {
			e.fail(prop, prop+".operation-accepted", "refused/"+st.A+"/"+shape, map[string]any{"error": sim.ErrString(err), "plan": e.plan})
		}
		e.dead = true
		return
	}
	if st.O.F != "none" {
		e.nonconf("%s: specification predicts fault %q, real code accepted", st.A, st.O.F)
		e.dead = true
		return
	}

	// ---- position moves by at most one, and only where a transaction is captured ----
	e.res.Evals++
	delta := int64(after.txid) - int64(before.txid)
	if delta < 0 || delta > 1 {
		e.fail(prop, prop+".at-most-one", "txid-delta/"+st.A, map[string]any{"before": before.txid, "after": after.txid, "plan": e.plan})
	} else if delta == 1 && !capture {
		e.fail(prop, prop+".at-most-one", "txid-moved-outside-capture/"+st.A, map[string]any{"before": before.txid, "after": after.txid})
	}
	if !capture && (after.chk != before.chk) {
		e.fail("C04", "C04.position-changes-only-at-capture", "chk-moved/"+st.A, map[string]any{"before": before.chk, "after": after.chk})
	}

	if capture {
		e.checkCapture(st, prop, before, after, delta, shape)
	}
	if st.A == "DropDB" {
		e.res.Evals += 2
		if after.chk != uint64(1)<<63 || delta != 1 {
			e.fail("C15", "C15.drop-is-one-transaction", "drop-position", map[string]any{"before": before.txid, "after": after.txid, "chk": after.chk})
		}
		for _, f := range []string{"database", "journal", "wal", "shm"} {
			if _, serr := os.Stat(filepath.Join(e.dbDir, f)); serr == nil {
				e.fail("C15", "C15.files-removed", "file-left/"+f+"/primary", nil)
			}
		}
	}

	// ---- C04 whenever a position is (newly) reported ----
	if delta != 0 || st.O.I {
		e.checkChecksum(st, after)
	}

	if st.O.I {
		if st.A == "JFinal" || st.A == "JTrunc" {
			e.pg.EndJ()
		}
		e.checkIdle(st, prop, after)
	}

	// ---- conformance with the specification (R3: never a verdict) ----
	if st.O.I || st.A == "Retain" {
		if files, _ := sim.ListLTX(e.dbDir); len(files) != st.O.NL {
			e.nonconf("%s: %d transaction files on disk, specification %d", st.A, len(files), st.O.NL)
		}
	}
	if after.have {
		if int(after.txid) != st.O.T {
			e.nonconf("%s: TXID %d, specification %d", st.A, after.txid, st.O.T)
		}
		if after.pageN != e.cfg.Layout.Real(st.O.N) {
			e.nonconf("%s: PageN %d, specification %d (real %d)", st.A, after.pageN, st.O.N, e.cfg.Layout.Real(st.O.N))
		}
		if after.mode != st.O.M {
			e.nonconf("%s: mode %s, specification %s", st.A, after.mode, st.O.M)
		}
	} else if st.O.T != 0 {
		e.nonconf("%s: database unknown to the store, specification at TXID %d", st.A, st.O.T)
	}
}

func (e *engine) shape() string {
	pl := e.plan
	if pl.Kind == "" {
		return "none"
	}
	first := ""
	if len(e.pg.Ref) == 0 {
		first = "first-tx/"
	}
	grow := "same"
	if pl.Ns > len(e.pg.Ref) {
		grow = "grow"
	} else if pl.Ns < len(e.pg.Ref) {
		grow = "shrink"
	}
	if pl.Kind == "drop" {
		return "drop"
	}
	if pl.Kind == "j" {
		hv := "hdr-unsynced"
		if pl.NoSync || pl.Out != "rb_early" {
			hv = "hdr-valid"
		}
		return fmt.Sprintf("%sjournal/%s/%s/%s", first, pl.Out, hv, grow)
	}
	return fmt.Sprintf("%swal/%s/%s", first, pl.Out, grow)
}

func (e *engine) checkCapture(st Step, prop string, before, after snap, delta int64, shape string) {
	committing := e.plan.Out == "commit"
	want := e.cfg.Layout.ImageOf(e.pg.Ref) // what SQLite sees now (reference semantics of the pager)
	e.res.Evals += 3
	if committing && delta != 1 {
		e.fail(prop, prop+".commit-captured", "not-captured/"+shape, map[string]any{"plan": e.plan, "txid": after.txid})
	}
	if !committing {
		e.res.Rollbacks++
		// (reused free pages are not restored by SQLite's rollback: then the image, and with it the
		// checksum, legitimately differs in exactly those pages - the image comparison below covers it)
		if after.chk != before.chk && !(e.plan.Out == "rb_spill" && len(e.plan.F) > 0) {
			e.fail(prop, prop+".rollback-leaves-checksum", "rollback-changed-checksum/"+shape, map[string]any{"before": before.chk, "after": after.chk, "plan": e.plan})
		}
		if prop == "C03" && delta != 0 {
			e.fail(prop, "C03.advance-iff-committed", "advanced-without-commit/"+shape, map[string]any{"plan": e.plan})
		}
	}
	if delta != 1 {
		return
	}
	e.res.Commits++
	e.res.Nontrivial = true
	files, _ := sim.ListLTX(e.dbDir)
	name := fmt.Sprintf("%016x-%016x.ltx", after.txid, after.txid)
	var f *sim.LTXFile
	for _, x := range files {
		if x.Name == name {
			f = x
		}
	}
	e.res.Evals += 7
	if f == nil {
		e.fail(prop, prop+".ltx-written", "ltx-missing/"+shape, map[string]any{"want": name})
		return
	}
	if f.Err != "" {
		e.fail("C09", "C09.file-verifies", "ltx-invalid/"+shape, map[string]any{"file": name, "error": f.Err})
		return
	}
	if f.Pre != before.chk && !(before.txid == 0 && f.Pre == 0) {
		e.fail(prop, prop+".pre-checksum", "pre-mismatch/"+shape, map[string]any{"file_pre": f.Pre, "previous": before.chk})
	}
	if f.Post != after.chk {
		e.fail(prop, prop+".post-checksum", "post-mismatch/"+shape, map[string]any{"file_post": f.Post, "position": after.chk})
	}
	for _, pg := range f.Order {
		if pg > f.Commit {
			e.fail(prop, prop+".no-page-beyond-size", "page-beyond-commit/"+shape, map[string]any{"page": pg, "commit": f.Commit})
		}
		if pg == e.lockPg() {
			e.fail(prop, prop+".no-lock-page", "lock-page/"+shape, map[string]any{"page": pg})
		}
	}
	got := f.Apply(e.lastVisible)
	if ok, why := got.Equal(want, e.lockPg()); !ok {
		model, bad := e.cfg.Layout.ModelOf(got)
		e.fail(prop, prop+".file-applied-to-previous-image", "delta-wrong/"+shape, map[string]any{"why": why, "applied_model": model, "undecodable_pages": bad, "expected_model": e.pg.Ref, "ltx_pages": f.Order, "commit": f.Commit, "plan": e.plan})
	}
	if prop == "C03" {
		e.res.Evals += 2
		if f.WALOff != e.pg.LastWALOff || f.WALSize != e.pg.LastWALLen {
			e.fail("C03", "C03.wal-extent", "wal-extent/"+shape, map[string]any{"ltx_off": f.WALOff, "ltx_size": f.WALSize, "written_off": e.pg.LastWALOff, "written_len": e.pg.LastWALLen})
		}
		// exactly the last frame per page of this transaction
		wantPages := map[uint32]bool{}
		for r := range e.pg.LastTxPages() {
			if r <= f.Commit && r != e.lockPg() {
				wantPages[r] = true
			}
		}
		if len(wantPages) != len(f.Order) {
			e.fail("C03", "C03.pages-are-tx-frames", "page-set/"+shape, map[string]any{"ltx": f.Order, "frames": keys(wantPages)})
		}
	}
	e.lastVisible = want
}

func keys(m map[uint32]bool) []uint32 {
	var out []uint32
	for k := range m {
		out = append(out, k)
	}
	sort.Slice(out, func(i, j int) bool { return out[i] < out[j] })
	return out
}

// checkChecksum is the C04 monitor: reported checksum = from-scratch checksum of the bytes on disk.
func (e *engine) checkChecksum(st Step, after snap) {
	if !after.have {
		return
	}
	e.res.Evals++
	im, err := sim.DiskImage(e.dbDir, e.cfg.Layout.PageSize)
	if err != nil {
		core.Infra("disk image: %v", err)
	}
	sum := im.Checksum(e.lockPg())
	if after.txid == 0 && after.chk == 0 {
		return // nothing reported yet
	}
	if sum != after.chk {
		e.fail("C04", "C04.reported-equals-from-scratch", "checksum/"+st.A+"/"+e.shape(), map[string]any{"reported": fmt.Sprintf("%016x", after.chk), "from_scratch": fmt.Sprintf("%016x", sum), "size": im.N, "plan": e.plan})
	}
}

func (e *engine) checkIdle(st Step, prop string, after snap) {
	// between transactions the image SQLite sees is the image at the current position
	e.res.Evals += 2
	want := e.cfg.Layout.ImageOf(e.pg.Ref)
	vis, err := e.pg.VisibleImage()
	if err != nil {
		e.fail(prop, prop+".image-readable", "read-error/"+e.shape(), map[string]any{"error": err.Error()})
		return
	}
	if ok, why := vis.Equal(want, e.lockPg()); !ok {
		model, bad := e.cfg.Layout.ModelOf(vis)
		e.fail(prop, prop+".image-is-image-at-position", "visible-image/"+e.shape(), map[string]any{"why": why, "seen_model": model, "undecodable_pages": bad, "expected_model": e.pg.Ref})
	}
	if after.have && after.txid > 0 {
		if vis.Checksum(e.lockPg()) != after.chk {
			e.fail("C04", "C04.reported-equals-visible", "checksum-visible/"+e.shape(), map[string]any{"reported": after.chk, "visible": vis.Checksum(e.lockPg())})
		}
	}
	e.lastVisible = want
	e.checkChain(after)
	// no journal left behind by a finished DELETE-mode transaction, no temporary files
	if e.plan.Kind == "j" && e.plan.Fin == "DELETE" {
		if _, err := os.Stat(filepath.Join(e.dbDir, "journal")); err == nil {
			e.fail("C02", "C02.journal-finalised", "journal-left/"+e.shape(), nil)
		}
	}
}

// checkChain is the C09 monitor on the on-disk log.
func (e *engine) checkChain(after snap) {
	files, other := sim.ListLTX(e.dbDir)
	e.res.Evals += 3
	for _, o := range other {
		if !strings.HasSuffix(o, ".tmp") {
			e.fail("C09", "C09.only-transaction-files", "stray-file", map[string]any{"name": o})
		}
	}
	for i, f := range files {
		if f.Err != "" {
			e.fail("C09", "C09.file-verifies", "ltx-invalid/idle", map[string]any{"file": f.Name, "error": f.Err})
			return
		}
		if i > 0 {
			p := files[i-1]
			if f.Min != p.Max+1 || f.Pre != p.Post {
				e.fail("C09", "C09.contiguous", "chain-gap", map[string]any{"prev": p.Name, "next": f.Name, "prev_post": p.Post, "next_pre": f.Pre})
			}
		}
	}
	if n := len(files); n > 0 {
		last := files[n-1]
		if last.Max != after.txid || last.Post != after.chk {
			e.fail("C09", "C09.ends-at-position", "chain-end", map[string]any{"last": last.Name, "last_post": last.Post, "txid": after.txid, "chk": after.chk})
		}
	} else if after.txid != 0 {
		e.fail("C09", "C09.ends-at-position", "chain-empty", map[string]any{"txid": after.txid})
	}
}
