package faults

import (
	"fmt"
	"os"
	"path/filepath"
	"time"

	"bazil.org/fuse"
	"github.com/superfly/litefs"

	"github.com/superfly/litefs/verifharness/core"
	"github.com/superfly/litefs/verifharness/sim"
)

// Operation role_change of Faults.tla: a primary loses its lease because a renewal FAILS (the lease service
// answers "expired" - not a demotion the node chose), while its database holds state that only this node's
// recovery can clean up: the hot journal of a client that died, or committed frames that are only in the
// WAL. The node becomes a replica of whoever is primary next, receives that primary's transactions, loses
// and re-establishes its stream. Monitor groups as for the other replica-side operations:
// replica-image, replica-checksum, replica-restart.

type roleCase struct {
	target string // rb_hot | wal_frames | wal_open_writer
	pages  string // "all" = the next primary rewrites every page the old one left dirty; "some" = not all of them
}

func roleChange(rep *core.Report, sel Select, c Case, l sim.Layout) {
	for _, pages := range []string{"all", "some"} {
		roleChangeOne(rep, sel, c, l, pages)
		if rep.ViolationCount() >= 20 {
			return
		}
	}
}

func roleChangeOne(rep *core.Report, sel Select, c Case, l sim.Layout, pages string) {
	key := fmt.Sprintf("%s/%s/%s/%d", c.Key(), pages, l.Name, l.PageSize)
	core.Beat("real:faults:" + key)
	defer core.Beat("harness")
	dir := core.Scratch("faultsrc")
	defer os.RemoveAll(dir)
	cl := sim.NewCluster(dir)
	defer func() { _ = core.Try(cl.Close) }()
	// (the lease keeps its short TTL: the holder notices an expiry at its next renewal, after TTL/2)
	must := func(err error, what string) {
		if err != nil {
			core.Infra("faults role_change setup: %s [%s]: %v", what, key, err)
		}
	}
	exitCopy := filepath.Join(dir, "a-at-exit")
	A, err := cl.Start("a", sim.ClusterNodeOpts{Candidate: true, Configure: func(s *litefs.Store) {
		old := s.Exit
		done := false
		s.Exit = func(code int) {
			if !done {
				done = true
				_ = sim.CopyDir(filepath.Join(dir, "a"), exitCopy)
			}
			old(code)
		}
	}})
	must(err, "start a")
	B, err := cl.Start("b", sim.ClusterNodeOpts{Candidate: true})
	must(err, "start b")
	must(cl.Elect("a", 20*time.Second), "elect a")
	wal := c.Target == "wal_frames"
	pgA := sim.NewPager(A.Connect(dbName, 101), l, sim.PagerOpts{Sector: 512, Busy: 2 * time.Second})
	must(commitJ(pgA, sim.Plan{Kind: "j", Ns: 4, M: []int{1, 2, 3, 4}, Out: "commit", Fin: "DELETE", V: 1, Wal: wal}), "tx1")
	if wal {
		must(commitW(pgA, sim.Plan{Kind: "w", Ns: 4, M: []int{1, 2, 3}, Out: "commit", V: 2, Wal: true}, 3), "tx2 (wal)")
	} else {
		must(commitJ(pgA, sim.Plan{Kind: "j", Ns: 4, M: []int{1, 2}, Out: "commit", Fin: "DELETE", V: 2}), "tx2")
		// (a node that joins while the journal is hot cannot be given a snapshot: b has to be there before)
		must(cl.WaitPos("b", dbName, A.Store.DB(dbName).Pos(), 20*time.Second), "b catches up")
		// a client dies in the middle of a transaction: hot journal, dirty pages 1..3
		pl := sim.Plan{Kind: "j", Ns: 4, M: []int{1, 2, 3}, Out: "commit", Fin: "DELETE", V: 9}
		must(firstErr(func() error { return pgA.BeginJ(pl) }, pgA.JCreate, pgA.JSync,
			func() error { return pgA.JPage(1) }, func() error { return pgA.JPage(2) }, func() error { return pgA.JPage(3) }), "hot journal")
	}
	committed := append([]sim.Content(nil), pgA.Ref...)
	_ = core.Try(func() {
		if wal {
			_ = pgA.C.LockSHM(fuse.LockUnlock, 124, 124)
		}
		pgA.C.Close()
	})
	must(cl.WaitPos("b", dbName, A.Store.DB(dbName).Pos(), 20*time.Second), "b catches up")

	if !A.Store.IsPrimary() || len(A.Exits()) > 0 {
		rep.Note("faults: %s: node a lost its lease before the scenario took it away (starved of CPU?); run discarded", key)
		return
	}
	// the lease service lets the lease run out: a's next renewal is answered "expired"; b takes over
	cl.Lease.AllowOnly(B.URL)
	cl.Lease.Expire()
	if err := cl.WaitPrimary("b", 30*time.Second); err != nil {
		core.Infra("faults role_change: %s: %v", key, err)
	}
	rep.Case("faults:"+key, true)
	rep.Eval(1)
	pgB := sim.NewPager(B.Connect(dbName, 102), l, sim.PagerOpts{Sector: 512, Busy: 2 * time.Second})
	pgB.Ref = committed
	m := []int{1, 2, 3}
	if pages == "some" {
		m = []int{1, 2}
	}
	var cerr error
	if wal {
		cerr = commitW(pgB, sim.Plan{Kind: "w", Ns: 4, M: m, Out: "commit", V: 3, Wal: true}, 5)
	} else {
		cerr = commitJ(pgB, sim.Plan{Kind: "j", Ns: 4, M: m, Out: "commit", Fin: "DELETE", V: 3})
	}
	must(cerr, "tx3 on b")
	_ = core.Try(func() { pgB.C.Close() })
	want := B.Store.DB(dbName).Pos()
	lockPg := l.LockPgno()
	v := func(group, monitor, what string, detail map[string]any) {
		detail["what"] = what
		detail["next_primary_rewrites"] = pages
		violate(rep, sel, group, monitor, monitor+"/"+c.Key()+"/"+pages, detail, c, l, pages, 0, "lease-expired")
	}
	restart := func(src string, exited bool) {
		cp := filepath.Join(dir, "a-restart")
		_ = os.RemoveAll(cp)
		if err := sim.CopyDir(src, cp); err != nil {
			core.Infra("copy: %v", err)
		}
		n2, err := sim.OpenNode(sim.NodeOpts{Dir: cp, Primary: false, PrimaryURL: "http://127.0.0.1:1", NoWait: true})
		if err != nil {
			v("replica-restart", "restart-fails-after-a-lost-lease", "a restart of the node that lost its lease fails", map[string]any{"error": sim.ErrString(err), "node_had_stopped_itself": exited})
			return
		}
		defer func() { _ = core.Try(n2.Close) }()
		if db := n2.Store.DB(dbName); db != nil {
			if im, ierr := sim.DiskImage(n2.DBDir(dbName), l.PageSize); ierr == nil && db.Pos().TXID > 0 && im.Checksum(lockPg) != uint64(db.Pos().PostApplyChecksum) {
				v("replica-restart", "restarted-checksum-mismatch-after-a-lost-lease", "after a restart the position checksum of the node that lost its lease is not the checksum of its pages", map[string]any{"position": db.Pos().String(), "recomputed": fmt.Sprintf("%016x", im.Checksum(lockPg))})
			}
		}
	}
	deadline := time.Now().Add(20 * time.Second)
	for time.Now().Before(deadline) && len(A.Exits()) == 0 && A.Store.DB(dbName).Pos() != want {
		time.Sleep(time.Millisecond)
	}
	if len(A.Exits()) > 0 {
		// stopping is an allowed reaction; what the restart finds is judged
		v("replica-image", "former-primary-stops-itself-on-the-next-primarys-transaction", "the node that lost its lease stopped itself (Store.Exit) when the next primary's transaction arrived: the state its recovery should have cleaned up at the role change was still there", map[string]any{"exits": A.Exits()})
		src := exitCopy
		if !fileExists(src) {
			src = A.Dir
		}
		restart(src, true)
		return
	}
	if A.Store.DB(dbName).Pos() != want {
		v("replica-image", "former-primary-does-not-converge", "20 s after it lost its lease the former primary has not reached the new primary's position", map[string]any{"primary": want.String(), "former_primary": A.Store.DB(dbName).Pos().String()})
		return
	}
	check := func(when string) bool {
		aIm, aerr := sim.StableDiskImage(A.DBDir(dbName), l.PageSize)
		bIm, berr := sim.StableDiskImage(B.DBDir(dbName), l.PageSize)
		if aerr != nil || berr != nil {
			core.Infra("faults role_change: images: %v %v", aerr, berr)
		}
		ok := true
		if same, diff := aIm.Equal(bIm, lockPg); !same {
			ok = false
			v("replica-image", "former-primary-differs-from-the-primary/"+when, "the former primary reports the new primary's position but its database differs ("+when+")", map[string]any{"diff": diff, "position": want.String()})
		}
		if got := aIm.Checksum(lockPg); got != uint64(want.PostApplyChecksum) {
			ok = false
			v("replica-checksum", "former-primary-checksum-is-not-the-checksum-of-its-pages/"+when, "the former primary's position checksum differs from the checksum recomputed over its pages ("+when+")", map[string]any{"reported": want.String(), "recomputed": fmt.Sprintf("%016x", got)})
		}
		return ok
	}
	if !check("after-the-apply") {
		return
	}
	// the stream breaks once; the node reconnects (the replica-side recovery runs again)
	A.Client.Cut()
	time.Sleep(300 * time.Millisecond)
	deadline = time.Now().Add(10 * time.Second)
	for time.Now().Before(deadline) && A.Store.DB(dbName).Pos() != want {
		time.Sleep(time.Millisecond)
	}
	if !check("after-a-reconnect") {
		return
	}
	if fi, err := os.Stat(filepath.Join(A.DBDir(dbName), "journal")); err == nil && fi.Size() > 0 {
		if b, _ := os.ReadFile(filepath.Join(A.DBDir(dbName), "journal")); len(b) >= 8 && string(b[:8]) == "\xd9\xd5\x05\xf9\x20\xa1\x63\xd7" {
			v("replica-restart", "hot-journal-left-on-a-replica", "the former primary is a replica at the primary's position and still has a dead client's hot journal", map[string]any{"journal_bytes": fi.Size()})
		}
	}
	restart(A.Dir, false)
}
