// Package faults realises the cases of spec/Faults.tla on a real store: for every (operation, target
// state, kind of fault) case TLC enumerates, the operation is first run once without a fault to
// learn the calls it makes through LiteFS's OS interface (or the handles it opens, or the cache
// notifications it sends), then once per call on a fresh store with exactly that call failing.
// After the failed (or, if the node tolerated the fault, successful) operation and the caller's
// reaction the monitors look at what the node does next.
package faults

import (
	"bytes"
	"context"
	"encoding/json"
	"fmt"
	"os"
	"path/filepath"
	"sort"
	"strings"
	"sync"
	"syscall"
	"time"

	"bazil.org/fuse"
	"github.com/superfly/litefs"
	"github.com/superfly/ltx"

	"github.com/superfly/litefs/verifharness/core"
	"github.com/superfly/litefs/verifharness/sim"
)

// Case is one case printed by Faults.tla.
type Case struct {
	Op     string   `json:"op"`
	Target string   `json:"target"`
	Kind   string   `json:"kind"`
	Phases []string `json:"phases"`
}

func (c Case) Key() string { return c.Op + "/" + c.Target + "/" + c.Kind }

// Select says which operations and which monitor groups a property is concerned with.
// Monitor groups: posfile (what an application polling <db>-pos reads = the position), mount (what an application reads through the kernel page cache = the file), image, chain, checksum, export, locks, restart, journal, backup, effect; for the replica-side
// operations (cluster.go): replica-image, replica-checksum, replica-chain, replica-restart.
type Select struct {
	Ops       []string
	Monitors  []string
	Layouts   []sim.Layout
	MaxPoints int // upper bound on fault points per case (0 = all)
	Thorough  bool
	Kinds     []string // kinds of fault to realise (empty = all)
}

func (s Select) has(m string) bool {
	for _, x := range s.Monitors {
		if x == m {
			return true
		}
	}
	return false
}

// Cases runs TLC on Faults.tla and returns the enumerated cases.
func Cases(rep *core.Report, args *core.Args) []Case {
	var cases []Case
	var mu sync.Mutex
	res, err := core.RunTLC(core.TLCOpts{Module: "Faults", Cfg: "MC_Faults.cfg", Workers: 2, Timeout: 5 * time.Minute,
		OnLine: func(tag string, payload json.RawMessage) {
			if tag != "CASE" {
				return
			}
			var c Case
			if err := json.Unmarshal(payload, &c); err != nil {
				core.Infra("bad CASE: %v", err)
			}
			mu.Lock()
			cases = append(cases, c)
			mu.Unlock()
		}})
	if err != nil {
		core.Infra("tlc: %v", err)
	}
	if !res.OK() {
		core.Infra("model checking of Faults.tla failed (model problem, not a verdict): %s\n%s", res.Describe(), res.ErrorText)
	}
	rep.AddTLC("MC_Faults", res)
	if !args.Quick() {
		for _, v := range []string{"noundo", "nocleanup", "swallow"} {
			if r2, err := core.RunTLC(core.TLCOpts{Module: "Faults", Cfg: "MC_Faults_" + v + ".cfg", Workers: 2, Timeout: 5 * time.Minute}); err == nil {
				rep.Extra["faults_relevance_"+v+"_violation"] = r2.Violation
			}
		}
	}
	sort.Slice(cases, func(i, j int) bool { return cases[i].Key() < cases[j].Key() })
	return cases
}

type facts struct {
	exists bool
	txid   uint64
	chk    uint64
	image  sim.Image
}

// world is one fresh primary with one SQLite-like connection.
type world struct {
	c       Case
	l       sim.Layout
	dir     string
	node    *sim.Node
	conn    *sim.Conn
	pg      *sim.Pager
	backup  *litefs.FileBackupClient
	input   []byte // import
	plan    sim.Plan
	variant string

	reopened bool
	old      []*sim.Node
	exitOnce sync.Once
	mu       sync.Mutex
	armed    bool
	count    int
	failAt   int // -1 = record only
	events   []string
	hit      string
	errno    syscall.Errno
}

const dbName = "db"

func (w *world) db() *litefs.DB { return w.node.Store.DB(dbName) }

func (w *world) factsNow() facts {
	db := w.db()
	if db == nil {
		return facts{}
	}
	pos := db.Pos()
	f := facts{exists: true, txid: uint64(pos.TXID), chk: uint64(pos.PostApplyChecksum)}
	if im, err := sim.DiskImage(w.node.DBDir(dbName), w.l.PageSize); err == nil {
		f.image = im
	}
	return f
}

func must(err error, what string, c Case) {
	if err != nil {
		core.Infra("faults setup: %s [%s]: %v", what, c.Key(), err)
	}
}

func commitJ(pg *sim.Pager, pl sim.Plan) error {
	if err := pg.BeginJ(pl); err != nil {
		return err
	}
	for _, f := range []func() error{pg.JCreate, pg.JSync} {
		if err := f(); err != nil {
			pg.EndJ()
			return err
		}
	}
	for _, q := range pl.M {
		if err := pg.JPage(q); err != nil {
			return err
		}
	}
	if err := pg.JFinal(); err != nil {
		return err
	}
	if pl.Ns < len(pg.Ref) || pl.Ns < 0 {
		// unreachable: Ref was already replaced by JFinal
	}
	pg.EndJ()
	return nil
}

func commitW(pg *sim.Pager, pl sim.Plan, salt int) error {
	if err := pg.BeginW(pl); err != nil {
		return err
	}
	if !pg.HasHdr() {
		if err := pg.WHdr(salt); err != nil {
			return err
		}
	}
	for i, q := range pl.M {
		if err := pg.WFrame(q, false, i == len(pl.M)-1); err != nil {
			return err
		}
	}
	return pg.WEnd()
}

func openWorld(c Case, l sim.Layout, variant string) *world {
	w := &world{c: c, l: l, dir: core.Scratch("faults"), failAt: -1, variant: variant, errno: syscall.EIO}
	var err error
	core.Beat("real:OpenNode")
	w.node, err = sim.OpenNode(sim.NodeOpts{Dir: filepath.Join(w.dir, "data"), Primary: true, Configure: func(s *litefs.Store) {
		s.HaltAcquireTimeout = 500 * time.Millisecond
		// Store.Exit ends the process in real life: what a restart finds is the directory at that moment
		old := s.Exit
		s.Exit = func(code int) {
			w.exitOnce.Do(func() { _ = sim.CopyDir(filepath.Join(w.dir, "data"), filepath.Join(w.dir, "at-exit")) })
			old(code)
		}
		if c.Op == "backup_sync" {
			w.backup = litefs.NewFileBackupClient(filepath.Join(w.dir, "backup"))
			_ = w.backup.Open()
			s.BackupClient = w.backup
			s.BackupDelay = 0
			s.BackupFullSyncInterval = 0
		}
	}})
	core.Beat("harness")
	if err != nil {
		core.Infra("faults: open node: %v", err)
	}
	w.conn = w.node.Connect(dbName, 101)
	w.pg = sim.NewPager(w.conn, l, sim.PagerOpts{Sector: 512, Busy: time.Second})
	wal := c.Target == "wal_frames" || c.Target == "wal_clean"
	must(commitJ(w.pg, sim.Plan{Kind: "j", Ns: 4, M: []int{1, 2, 3, 4}, Out: "commit", Fin: "DELETE", V: 1, Wal: wal}), "tx1", c)
	if wal {
		must(commitW(w.pg, sim.Plan{Kind: "w", Ns: 4, M: []int{1, 2}, Out: "commit", V: 2, Wal: true}, 3), "wal tx2", c)
		if c.Op == "backup_sync" {
			must(w.node.Store.SyncBackup(context.Background()), "first sync", c)
		}
		must(commitW(w.pg, sim.Plan{Kind: "w", Ns: 4, M: []int{1, 3}, Out: "commit", V: 3, Wal: true}, 3), "wal tx3", c)
		if c.Target == "wal_clean" {
			must(w.pg.Ckpt("TRUNCATE"), "ckpt", c)
		}
	} else {
		must(commitJ(w.pg, sim.Plan{Kind: "j", Ns: 4, M: []int{1, 2}, Out: "commit", Fin: "DELETE", V: 2}), "tx2", c)
		if c.Op == "backup_sync" {
			must(w.node.Store.SyncBackup(context.Background()), "first sync", c)
		}
		must(commitJ(w.pg, sim.Plan{Kind: "j", Ns: 4, M: []int{1, 3}, Out: "commit", Fin: "DELETE", V: 3}), "tx3", c)
	}
	if c.Target == "rb_hot" {
		// an application dies in the middle of a growing transaction: its locks go, the hot journal stays
		pl := sim.Plan{Kind: "j", Ns: 6, M: []int{1, 2, 3, 5, 6}, Out: "commit", Fin: "DELETE", V: 9}
		must(firstErr(func() error { return w.pg.BeginJ(pl) }, w.pg.JCreate, w.pg.JSync,
			func() error { return w.pg.JPage(1) }, func() error { return w.pg.JPage(2) }, func() error { return w.pg.JPage(3) },
			func() error { return w.pg.JPage(5) }, func() error { return w.pg.JPage(6) }), "hot journal", c)
		w.conn.Close()
		w.conn = w.node.Connect(dbName, 102)
		ref := w.pg.Ref
		w.pg = sim.NewPager(w.conn, l, sim.PagerOpts{Sector: 512, Busy: time.Second})
		w.pg.Ref = ref
	}
	w.input = flat(l.ImageOf([]sim.Content{{V: 31, Sz: 3, Wal: wal}, {V: 32}, {V: 33}}))
	if variant == "bigger" {
		w.input = flat(l.ImageOf([]sim.Content{{V: 31, Sz: 7, Wal: wal}, {V: 32}, {V: 33}, {V: 34}, {V: 35}, {V: 36}, {V: 37}}))
	}
	w.warmCache()
	w.node.OS.Before = w.before
	w.node.OS.Mangle = w.mangle
	w.node.Cache.Fail = w.notify
	return w
}

func firstErr(fs ...func() error) error {
	for _, f := range fs {
		if err := f(); err != nil {
			return err
		}
	}
	return nil
}

func flat(im sim.Image) []byte {
	var buf bytes.Buffer
	for r := uint32(1); r <= im.N; r++ {
		buf.Write(im.Pages[r])
	}
	return buf.Bytes()
}

func mask(b []byte) []byte {
	o := append([]byte(nil), b...)
	if len(o) >= 44 {
		copy(o[24:28], []byte{0, 0, 0, 0})
		copy(o[40:44], []byte{0, 0, 0, 0})
	}
	return o
}

func (w *world) warmCache() { w.node.WarmCache(dbName, w.l.PageSize) }

// stalePosFile: what an application that keeps the position file open and re-reads it whenever the kernel
// drops its cached content sees, against the position the node has.
func stalePosFile(n *sim.Node, name string) (string, bool) {
	db := n.Store.DB(name)
	if db == nil {
		return "", false
	}
	cached, ok := n.Cache.CachedPos(name)
	if !ok {
		return "", false
	}
	if now := db.Pos(); cached != now {
		return fmt.Sprintf("position file reads %s, the node is at %s", cached, now), true
	}
	return "", false
}

func (w *world) mountView() []uint32 {
	if w.db() == nil {
		return nil
	}
	return w.node.StalePages(dbName, w.l.PageSize, w.l.LockPgno())
}

// ---- the three injection points ----

// windowEnd names the last call of an operation that belongs to the fault window: the specification's
// phases up to and including publication. What SQLite or the kernel do after LiteFS has published a
// transaction (SQLite's own truncation of the file, the removal of the journal of a transaction that is
// already in the log, the unlinking of the files of a database whose drop is already in the log) is
// outside Faults.tla.
var windowEnd = map[string]string{
	"rb_commit":  "Rename:COMMITJOURNAL:LTX",
	"wal_commit": "Rename:COMMITWAL:LTX",
	"drop":       "Rename:DROP:LTX",
}

// skipped calls: the fsync of the WAL is SQLite's own step before it releases the write lock.
var windowSkip = map[string]bool{"Open:SYNCWAL": true}

func (w *world) tick(label string) bool {
	w.mu.Lock()
	defer w.mu.Unlock()
	if !w.armed || windowSkip[label] {
		return false
	}
	w.events = append(w.events, label)
	k := w.count
	w.count++
	if w.failAt >= 0 && k == w.failAt {
		w.hit = label
		return true
	}
	return false
}

func (w *world) before(ev sim.OSEvent) error {
	if end := windowEnd[w.c.Op]; end != "" && ev.Call+":"+ev.Label == end {
		defer func() { w.mu.Lock(); w.armed = false; w.mu.Unlock() }()
	}
	if w.c.Kind != "error" {
		return nil
	}
	if w.tick(ev.Call + ":" + ev.Label) {
		e := w.errno
		if ev.Call == "Open" || ev.Call == "OpenFile" || ev.Call == "Create" {
			e = syscall.EMFILE
		}
		return &os.PathError{Op: strings.ToLower(ev.Call), Path: ev.Path, Err: e}
	}
	return nil
}

func (w *world) mangle(ev sim.OSEvent, f *os.File) *os.File {
	if w.c.Kind != "unreadable" && w.c.Kind != "unwritable" {
		return f
	}
	if fi, err := f.Stat(); err != nil || fi.IsDir() {
		return f
	}
	if !w.tick(ev.Call + ":" + ev.Label) {
		return f
	}
	flag := os.O_WRONLY
	if w.c.Kind == "unwritable" {
		flag = os.O_RDONLY
	}
	g, err := os.OpenFile(f.Name(), flag, 0)
	if err != nil {
		return f
	}
	_ = f.Close()
	return g
}

func (w *world) notify(kind string) error {
	if w.c.Kind != "notify" {
		return nil
	}
	if w.tick("notify:" + kind) {
		return syscall.EIO
	}
	return nil
}

func (w *world) arm(failAt int) {
	w.mu.Lock()
	w.armed, w.count, w.failAt, w.hit = true, 0, failAt, ""
	w.events = nil
	w.mu.Unlock()
}
func (w *world) disarm() []string {
	w.mu.Lock()
	defer w.mu.Unlock()
	w.armed = false
	return append([]string(nil), w.events...)
}

func (w *world) close() {
	_ = core.Try(func() { w.conn.Close() })
	_ = core.Try(w.node.Close)
	for _, n := range w.old {
		_ = core.Try(n.Close)
	}
	_ = os.RemoveAll(w.dir)
}

// ---- the operations ----

// variants of an operation (different transaction shapes)
func variants(op string) []string {
	switch op {
	case "rb_commit":
		return []string{"modify", "shrink", "grow", "chmod"} // chmod: a third party changes the journal's attributes in mid-transaction
	case "wal_commit":
		return []string{"modify", "grow"}
	case "import":
		return []string{"", "bigger"} // the imported image is smaller / bigger than the database it replaces
	}
	return []string{""}
}

type outcome struct {
	err       error
	journal   bool // a rollback-journal transaction had created its journal when the error came
	wantAfter []sim.Content
}

func (w *world) planFor() sim.Plan {
	wal := w.c.Op == "wal_commit"
	kind := "j"
	if wal {
		kind = "w"
	}
	switch w.variant {
	case "shrink":
		return sim.Plan{Kind: kind, Ns: 2, M: []int{1, 2}, Out: "commit", Fin: "DELETE", V: 5, Wal: wal}
	case "grow":
		return sim.Plan{Kind: kind, Ns: 6, M: []int{1, 2, 5, 6}, Out: "commit", Fin: "DELETE", V: 5, Wal: wal}
	}
	return sim.Plan{Kind: kind, Ns: 4, M: []int{1, 3}, Out: "commit", Fin: "DELETE", V: 5, Wal: wal}
}

// op runs the operation under test; the reaction of the caller (SQLite's rollback) is part of it.
func (w *world) op() (out outcome) {
	ctx, cancel := context.WithTimeout(context.Background(), 10*time.Second)
	defer cancel()
	core.Beat("real:faults:" + w.c.Key())
	defer core.Beat("harness")
	switch w.c.Op {
	case "rb_commit":
		pl := w.planFor()
		w.plan = pl
		pg := w.pg
		refBefore := append([]sim.Content(nil), pg.Ref...)
		if err := pg.BeginJ(pl); err != nil {
			out.err = err
			pg.EndJ()
			return
		}
		step := func(f func() error) bool {
			if out.err != nil {
				return false
			}
			out.err = f()
			return out.err == nil
		}
		if !step(pg.JCreate) {
			pg.EndJ()
			return
		}
		out.journal = true
		step(pg.JSync)
		if w.variant == "chmod" {
			_ = core.Try(func() { _ = pg.C.ChmodJournal() })
		}
		for _, q := range pl.M {
			q := q
			step(func() error { return pg.JPage(q) })
		}
		step(pg.JFinal)
		if out.err == nil && pl.Ns < len(refBefore) {
			step(func() error { return pg.JTrunc(pl.Ns) })
		}
		if out.err != nil {
			// SQLite rolls back: originals of the journalled pages, file back to its size, journal removed
			_ = core.Try(func() {
				_ = pg.JRbTrunc(len(refBefore))
				for _, q := range pl.M {
					if q <= len(refBefore) {
						_ = pg.JRbPage(q)
					}
				}
				_ = pg.C.SyncDB()
				_ = pg.C.RemoveJournal()
			})
			pg.Ref = refBefore
		}
		pg.EndJ()
	case "wal_commit":
		pl := w.planFor()
		w.plan = pl
		pg := w.pg
		refBefore := append([]sim.Content(nil), pg.Ref...)
		out.err = commitW(pg, pl, 4) // a restarted log gets new salts
		if out.err != nil {
			_ = core.Try(func() {
				_ = pg.C.LockSHM(fuse.LockUnlock, 120, 120)
				_ = pg.C.LockSHM(fuse.LockUnlock, 124, 124)
			})
			pg.Ref = refBefore
		}
	case "import":
		out.err = w.db().Import(ctx, bytes.NewReader(w.input))
	case "halt":
		_, out.err = w.db().AcquireHaltLock(ctx, 1000)
	case "recover":
		out.err = w.db().Recover(ctx)
	case "drop":
		out.err = w.conn.RemoveDB()
	case "backup_sync":
		out.err = w.node.Store.SyncBackup(ctx)
	case "open":
		// the process dies and is started again: the new process works on the directory as the old one left it (a
		// copy taken now, with the old process's files as they are); the fault hits the new process
		w.mu.Lock()
		armedNow := w.armed
		w.armed = false
		w.mu.Unlock()
		crashDir := filepath.Join(w.dir, "crashed")
		if !fileExists(crashDir) {
			if err := sim.CopyDir(filepath.Join(w.dir, "data"), crashDir); err != nil {
				core.Infra("faults: copy for restart: %v", err)
			}
		}
		_ = core.Try(func() { w.conn.Close() })
		w.mu.Lock()
		w.armed = armedNow
		w.mu.Unlock()
		node, err := sim.OpenNode(sim.NodeOpts{Dir: crashDir, Primary: true, Configure: func(s *litefs.Store) {
			osw := s.OS.(*sim.OSWrap)
			osw.Before, osw.Mangle = w.before, w.mangle
		}})
		out.err = err
		if err == nil {
			w.old = append(w.old, w.node)
			w.node = node
			w.node.Cache.Fail = w.notify
			w.conn = w.node.Connect(dbName, 104)
			ref := w.pg.Ref
			w.pg = sim.NewPager(w.conn, w.l, sim.PagerOpts{Sector: 512, Busy: time.Second})
			w.pg.Ref = ref
			w.reopened = true
		}
	}
	return out
}

// undo ends what a successful operation started (the halt lock is released again).
func (w *world) undo() {
	if w.c.Op == "halt" {
		if db := w.db(); db != nil {
			db.ReleaseHaltLock(context.Background(), 1000)
		}
	}
}

// Run sweeps every selected case.
func Run(rep *core.Report, args *core.Args, sel Select) {
	sel.Thorough = !args.Quick()
	cases := Cases(rep, args)
	layouts := sel.Layouts
	if len(layouts) == 0 {
		layouts = []sim.Layout{sim.L0(4096), sim.L1(512)}
		if !args.Quick() {
			layouts = append(layouts, sim.L0(1024), sim.L1(4096))
		}
	}
	want := map[string]bool{}
	for _, o := range sel.Ops {
		want[o] = true
	}
	type job struct {
		c Case
		l sim.Layout
		v string
	}
	var jobs []job
	n := 0
	for _, c := range cases {
		if !want[c.Op] || c.Op == "set_cluster_id" {
			continue
		}
		if len(sel.Kinds) > 0 && !inList(sel.Kinds, c.Kind) {
			continue
		}
		for _, v := range variants(c.Op) {
			l := layouts[(n+int(args.Seed))%len(layouts)]
			n++
			jobs = append(jobs, job{c, l, v})
			if !args.Quick() {
				jobs = append(jobs, job{c, layouts[(n+int(args.Seed))%len(layouts)], v})
			}
		}
	}
	if len(jobs) == 0 {
		core.Infra("faults: no case of Faults.tla matches %v", sel.Ops)
	}
	ch := make(chan job)
	var wg sync.WaitGroup
	for i := 0; i < 8; i++ {
		wg.Add(1)
		go func() {
			defer wg.Done()
			for j := range ch {
				if j.c.Op == "role_change" {
					roleChange(rep, sel, j.c, j.l)
				} else if clusterOps[j.c.Op] {
					sweepCluster(rep, sel, j.c, j.l)
				} else {
					sweep(rep, sel, j.c, j.l, j.v)
				}
			}
		}()
	}
	for _, j := range jobs {
		ch <- j
	}
	close(ch)
	wg.Wait()
	statMu.Lock()
	rep.Extra["faults_fault_points_by_outcome"] = outcomes
	statMu.Unlock()
	if ents, err := os.ReadDir("/proc/self/fd"); err == nil {
		rep.Extra["faults_open_descriptors_at_the_end"] = len(ents)
	}
}

var statMu sync.Mutex

// outcomes counts, per operation, what the fault points led to: the operation reported the error, the node
// stopped itself, or the fault was tolerated (the operation succeeded). Written into the evidence.
var outcomes = map[string]map[string]int{}

func countOutcome(op, what string) {
	statMu.Lock()
	if outcomes[op] == nil {
		outcomes[op] = map[string]int{}
	}
	outcomes[op][what]++
	statMu.Unlock()
}

// sweep runs the reference execution of one case and then one execution per fault point.
func sweep(rep *core.Report, sel Select, c Case, l sim.Layout, variant string) {
	ref := openWorld(c, l, variant)
	ref.arm(-1)
	o := ref.op()
	events := ref.disarm()
	if o.err != nil {
		// the operation fails although nothing was injected (on the unchanged tree it never does)
		exits := ref.node.Exits()
		ref.close()
		rep.Eval(1)
		for _, g := range []string{"effect", "image", "journal", "locks", "backup", "checksum", "export", "restart", "mount"} {
			if sel.has(g) {
				violate(rep, sel, g, "operation-fails-without-a-fault", "operation-fails-without-a-fault/"+c.Op+"/"+c.Target+"/"+variant,
					map[string]any{"error": sim.ErrString(o.err), "exits": exits, "what": "the operation, run without any injected fault, failed"}, c, l, variant, -1, "")
				return
			}
		}
		return
	}
	refAfter := ref.factsNow()
	ref.undo()
	if sel.has("posfile") && c.Op != "open" && c.Kind == "error" {
		rep.Eval(1)
		if what, stale := stalePosFile(ref.node, dbName); stale {
			violate(rep, sel, "posfile", "position-file-read-through-the-mount-is-stale", "position-file-read-through-the-mount-is-stale/"+c.Op+"/"+c.Target+"/"+variant,
				map[string]any{"observed": what, "what": "an application that keeps <db>-pos open and re-reads it whenever the kernel drops the cached content reads a position the node is not at: the invalidation was sent before the new position was in place"}, c, l, variant, -1, "")
		}
	}
	if sel.has("mount") && c.Op != "drop" && c.Op != "open" && c.Op != "backup_sync" && c.Kind == "error" {
		rep.Eval(1)
		if stale := ref.mountView(); len(stale) > 0 {
			violate(rep, sel, "mount", "application-reads-stale-pages-through-the-mount", "application-reads-stale-pages-through-the-mount/"+c.Op+"/"+c.Target+"/"+variant,
				map[string]any{"stale_pages": stale, "what": "after the operation (no fault) an application that had the database in its page cache reads pages through the mount that differ from the database file: LiteFS changed them without telling the kernel (or told it before the bytes were in place)"},
				c, l, variant, -1, "")
		}
	}
	ref.close()
	key := fmt.Sprintf("%s/%s/%s/%d", c.Key(), variant, l.Name, l.PageSize)
	if os.Getenv("FAULTS_LIST") != "" {
		fmt.Fprintf(os.Stderr, "EVENTS %s: %s\n", key, strings.Join(events, " "))
	}
	rep.Case("faults:"+key, len(events) > 0)
	points := len(events)
	if sel.MaxPoints > 0 && points > sel.MaxPoints {
		points = sel.MaxPoints
	}
	for k := 0; k < points; k++ {
		one(rep, sel, c, l, variant, k, events, refAfter)
		if rep.ViolationCount() >= 20 {
			return
		}
	}
}

func violate(rep *core.Report, sel Select, group, monitor, sig string, detail map[string]any, c Case, l sim.Layout, variant string, k int, hit string) {
	if !sel.has(group) {
		return
	}
	// the harness process itself ran out of descriptors or ports: what a node did then says nothing about litefs
	if b, err := json.Marshal(detail); err == nil {
		if s := string(b); (strings.Contains(s, "too many open files") && hit != "" && !strings.HasPrefix(hit, "Open") && !strings.HasPrefix(hit, "Create")) || strings.Contains(s, "address already in use") {
			core.Infra("faults: resource exhaustion in the harness process (%s): %s", monitor, s)
		}
	}
	detail["case"] = c.Key()
	detail["variant"] = variant
	detail["fault_point"] = k
	detail["failing_call"] = hit
	detail["layout"] = fmt.Sprintf("%s/%d", l.Name, l.PageSize)
	rep.Violate("faults."+monitor, sig, detail, map[string]any{"faults_case": c, "variant": variant, "fault_point": k, "layout": l.Name, "page_size": l.PageSize})
}

func one(rep *core.Report, sel Select, c Case, l sim.Layout, variant string, k int, events []string, refAfter facts) {
	w := openWorld(c, l, variant)
	defer w.close()
	before := w.factsNow()
	refBefore := append([]sim.Content(nil), w.pg.Ref...)
	w.arm(k)
	o := w.op()
	w.disarm()
	hit := w.hit
	if hit == "" {
		// the faulted run made fewer calls than the reference run: nothing was injected
		w.undo()
		return
	}
	sigBase := c.Key() + "/" + variant + "/" + hit
	v := func(group, monitor, what string, detail map[string]any) {
		detail["what"] = what
		detail["op_error"] = sim.ErrString(o.err)
		violate(rep, sel, group, monitor, monitor+"/"+sigBase, detail, c, l, variant, k, hit)
	}
	rep.Eval(1)
	exited := len(w.node.Exits()) > 0
	switch {
	case exited:
		countOutcome(c.Op, "node-stopped-itself")
	case o.err != nil:
		countOutcome(c.Op, "error-reported")
	default:
		countOutcome(c.Op, "tolerated")
	}
	if exited {
		// the node stopped itself: what counts is what a restart finds
		w.checkRestart(rep, v, before, refAfter, true)
		return
	}
	lockPg := l.LockPgno()
	if c.Op == "open" {
		// a start that failed is repeated (the supervisor restarts the process); the repeated start must work
		if o.err != nil {
			if o2 := w.op(); o2.err != nil {
				v("restart", "repetition-fails", "the store could not be opened once (one failing call); the next start, without any fault, fails too", map[string]any{"error": sim.ErrString(o2.err)})
				return
			}
		}
		if !w.reopened {
			return
		}
		now := w.factsNow()
		if ok, diff := now.image.Equal(l.ImageOf(refBefore), lockPg); !ok {
			v("restart", "restarted-image-is-not-the-committed-image", "after the (repeated) start the database is not the committed image", map[string]any{"diff": diff})
		}
		if now.txid != before.txid || now.chk != before.chk {
			v("restart", "restart-changed-the-position", "after the (repeated) start the position differs from the one before the restart", map[string]any{"before": fmt.Sprintf("%d/%016x", before.txid, before.chk), "after": fmt.Sprintf("%d/%016x", now.txid, now.chk)})
		}
		before.image = l.ImageOf(refBefore)
		o.err = nil
	}
	if c.Target == "rb_hot" && c.Op != "recover" && c.Op != "open" {
		// The reference is the committed image. While the dead connection's journal is still hot the file holds
		// uncommitted pages by design; the next opener rolls it back, which is played here without a fault.
		before.image = l.ImageOf(refBefore)
		if fileExists(filepath.Join(w.node.DBDir(dbName), "journal")) {
			if c.Op == "halt" && o.err == nil {
				w.undo()
			}
			ctx, cancel := context.WithTimeout(context.Background(), 5*time.Second)
			rerr := w.db().Recover(ctx)
			cancel()
			if rerr != nil {
				v("journal", "rollback-fails-after-a-failed-operation", "the hot journal the failed operation left cannot be rolled back", map[string]any{"error": sim.ErrString(rerr)})
				return
			}
		}
	}
	after := w.factsNow()

	// ---- a failed operation reports the failure and leaves the image; a successful one has its effect ----
	switch c.Op {
	case "rb_commit", "wal_commit", "import":
		if o.err != nil {
			if ok, diff := after.image.Equal(before.image, lockPg); !ok {
				v("image", "failed-operation-changed-the-image", "the operation failed (and the application rolled back), the node runs on, but the database image differs from the one before", map[string]any{"diff": diff})
			}
		} else {
			var want sim.Image
			if c.Op == "import" {
				want = refAfter.image
			} else {
				want = l.ImageOf(w.pg.Ref)
			}
			if ok, diff := after.image.Equal(want, lockPg); !ok && c.Op != "import" {
				v("image", "successful-operation-without-its-image", "the operation reported success but the image is not the new one", map[string]any{"diff": diff})
			}
			if after.txid != before.txid+1 {
				v("effect", "success-without-a-new-position", "the operation reported success to the application but the position did not advance by one", map[string]any{"before": before.txid, "after": after.txid})
			}
		}
	case "drop":
		gone := w.db() == nil || !fileExists(filepath.Join(w.node.DBDir(dbName), "database"))
		if o.err == nil {
			if !gone || after.txid != before.txid+1 || after.chk != uint64(ltx.ChecksumFlag) {
				v("effect", "unlink-succeeded-without-a-drop", "unlink of the database returned success but the database was not dropped", map[string]any{"file_gone": gone, "before": before.txid, "after": after.txid, "chk": fmt.Sprintf("%016x", after.chk)})
			}
		} else if gone || after.txid != before.txid {
			v("effect", "unlink-failed-but-changed-the-database", "unlink of the database failed but the database or its position changed", map[string]any{"file_gone": gone, "before": before.txid, "after": after.txid})
		}
	case "recover":
		jpath := filepath.Join(w.node.DBDir(dbName), "journal")
		if c.Target == "rb_hot" {
			same, diff := after.image.Equal(before.image, lockPg)
			_ = same
			rolledBack, _ := after.image.Equal(l.ImageOf(refBefore), lockPg)
			if o.err != nil && !fileExists(jpath) && !rolledBack {
				v("journal", "hot-journal-gone-after-a-failed-rollback", "the rollback failed, the database still holds uncommitted pages, and the hot journal has been removed", map[string]any{"diff_to_start": diff})
			}
			if o.err == nil && !rolledBack {
				v("journal", "rollback-succeeded-without-restoring", "the rollback reported success but the database is not the pre-transaction image", map[string]any{})
			}
		}
	case "backup_sync":
		if after.txid < before.txid {
			v("backup", "sync-moved-the-primary-backwards", "a sync pass during which an OS call failed took the primary back to an older position although its log extends the service's", map[string]any{"before": before.txid, "after": after.txid})
		}
	}
	if c.Op == "halt" && o.err == nil {
		w.undo()
	}

	// ---- the operation is repeated without the fault (recover / halt / backup: must now work) ----
	if o.err != nil && (c.Op == "recover" || c.Op == "halt" || c.Op == "backup_sync" || c.Op == "drop") {
		o2 := w.op()
		if len(w.node.Exits()) > 0 {
			w.checkRestart(rep, v, before, refAfter, true)
			return
		}
		if o2.err != nil {
			group := "locks"
			switch c.Op {
			case "recover":
				group = "journal"
			case "backup_sync":
				group = "backup"
			case "import":
				group = "image"
			case "drop":
				group = "effect"
			case "open":
				group = "restart"
			}
			v(group, "repetition-fails", "the same operation, repeated without any fault, fails", map[string]any{"error": sim.ErrString(o2.err)})
		} else {
			w.undo()
			after = w.factsNow()
			switch c.Op {
			case "recover":
				if ok, diff := after.image.Equal(l.ImageOf(refBefore), lockPg); !ok {
					v("journal", "rollback-after-a-failed-attempt-does-not-restore", "after a failed rollback attempt the repeated rollback reports success, but the database is not the pre-transaction image", map[string]any{"diff": diff, "size": after.image.N})
				}
			case "backup_sync":
				if pm, err := w.backup.PosMap(context.Background()); err != nil || uint64(pm[dbName].TXID) != before.txid {
					v("backup", "service-not-at-the-primary-position", "after the repeated sync the service is not at the position the primary had", map[string]any{"service": fmt.Sprint(pm[dbName]), "primary_before": before.txid})
				}
				if after.txid != before.txid {
					v("backup", "primary-position-changed-by-syncs", "syncs changed the primary's position", map[string]any{"before": before.txid, "after": after.txid})
				}
			}
		}
	}
	if c.Op == "drop" || w.db() == nil {
		return
	}
	after = w.factsNow()

	// ---- derived state: the reported checksum is the checksum of the pages ----
	chk := func(when string) {
		f := w.factsNow()
		if got := f.image.Checksum(lockPg); got != f.chk {
			v("checksum", "position-checksum-is-not-the-checksum-of-the-pages/"+when, "the reported position checksum differs from the checksum recomputed over the database file overlaid with the committed WAL frames ("+when+")", map[string]any{"reported": fmt.Sprintf("%016x", f.chk), "recomputed": fmt.Sprintf("%016x", got), "txid": f.txid})
		}
	}
	chk("after-the-operation")
	// ---- export returns the committed image at the reported position ----
	if sel.has("export") {
		var buf bytes.Buffer
		ctx, cancel := context.WithTimeout(context.Background(), 5*time.Second)
		pos, err := w.db().Export(ctx, &buf)
		cancel()
		if err != nil {
			v("export", "export-fails-after-a-failed-operation", "export fails after the failed operation", map[string]any{"error": sim.ErrString(err)})
		} else if !bytes.Equal(buf.Bytes(), flat(after.image)) || uint64(pos.TXID) != after.txid {
			v("export", "export-is-not-the-committed-image", "export after the failed operation does not return the image of the position it reports", map[string]any{"reported": fmt.Sprint(pos), "bytes": buf.Len(), "image_pages": after.image.N})
		}
	}
	// ---- the application goes on: a commit that continues the WAL, a checkpoint, a commit into a fresh log ----
	if sel.has("checksum") || sel.has("image") || sel.has("effect") || sel.has("chain") {
		if w.db().Mode() == litefs.DBModeWAL && w.walAsPagerKnowsIt() {
			if w.nextCommit(v, lockPg, true) {
				chk("after-the-next-wal-commit")
			}
		}
		if len(w.node.Exits()) > 0 {
			return
		}
		ctx, cancel := context.WithTimeout(context.Background(), 5*time.Second)
		rerr := w.db().Recover(ctx)
		cancel()
		w.pg.ForgetWAL()
		if rerr != nil {
			v("image", "checkpoint-fails-after-a-failed-operation", "a checkpoint / journal rollback after the failed operation fails", map[string]any{"error": sim.ErrString(rerr)})
		}
		chk("after-a-checkpoint")
	}
	// ---- internal locks are free: a new connection can write, a halt lock can be taken ----
	if sel.has("locks") {
		if w.db().InWriteTx() {
			v("locks", "write-lock-left-behind", "after the failed operation the database's internal write lock is still held", map[string]any{})
		}
		ctx, cancel := context.WithTimeout(context.Background(), 2*time.Second)
		_, herr := w.db().AcquireHaltLock(ctx, 2000)
		cancel()
		if herr != nil {
			v("locks", "halt-lock-not-grantable", "after the failed operation a new halt request is not granted", map[string]any{"error": sim.ErrString(herr)})
		} else {
			w.db().ReleaseHaltLock(context.Background(), 2000)
		}
		w.pg.ForgetWAL()
	}
	if sel.has("checksum") || sel.has("image") || sel.has("effect") || sel.has("chain") {
		if w.nextCommit(v, lockPg, false) {
			chk("after-the-next-commit")
		}
	}
	// (not when the injected fault IS a refused cache notification: the stale page is then the fault itself)
	if sel.has("mount") && c.Kind != "notify" && len(w.node.Exits()) == 0 {
		rep.Eval(1)
		if stale := w.mountView(); len(stale) > 0 {
			v("mount", "application-reads-stale-pages-through-the-mount", "after the failed operation and what followed, an application that had the database in its page cache reads pages through the mount that differ from the database file", map[string]any{"stale_pages": stale})
		}
	}
	if sel.has("restart") && len(w.node.Exits()) == 0 {
		w.checkRestart(rep, v, w.factsNow(), w.factsNow(), false)
	}
}

// walAsPagerKnowsIt: the WAL file still has exactly the committed frames the connection's wal-index says.
func (w *world) walAsPagerKnowsIt() bool {
	n := w.pg.CommittedFrames()
	fi, err := os.Stat(filepath.Join(w.node.DBDir(dbName), "wal"))
	return n > 0 && w.pg.HasHdr() && err == nil && fi.Size() == 32+int64(n)*(24+int64(w.l.PageSize))
}

func fileExists(p string) bool { _, err := os.Stat(p); return err == nil }

// nextCommit: one more application transaction on the node that went on after the failure; continueWAL = by the
// connection that already knows the log (it appends to the chain), otherwise by a new connection.
func (w *world) nextCommit(v func(group, monitor, what string, detail map[string]any), lockPg uint32, continueWAL bool) bool {
	db := w.db()
	if db == nil {
		return false
	}
	cur := w.factsNow()
	model, bad := w.l.ModelOf(cur.image)
	if len(bad) > 0 || len(model) < 2 {
		return false
	}
	how := "new-connection"
	var err error
	if continueWAL {
		how = "continuing-the-wal"
		w.pg.Ref = model
		w.pg.SetCommittedSize(0)
		err = commitW(w.pg, sim.Plan{Kind: "w", Ns: len(model), M: []int{2}, Out: "commit", V: 6, Wal: true}, 3)
	} else {
		conn := w.node.Connect(dbName, 103)
		defer conn.Close()
		pg := sim.NewPager(conn, w.l, sim.PagerOpts{Sector: 512, Busy: time.Second})
		pg.Ref = model
		if db.Mode() == litefs.DBModeWAL {
			if fi, e := os.Stat(filepath.Join(w.node.DBDir(dbName), "wal")); e == nil && fi.Size() > 0 {
				return false // a log this connection does not know: it would have to be read first
			}
			err = commitW(pg, sim.Plan{Kind: "w", Ns: len(model), M: []int{1, 2}, Out: "commit", V: 7, Wal: true}, 5)
		} else {
			err = commitJ(pg, sim.Plan{Kind: "j", Ns: len(model), M: []int{1, 2}, Out: "commit", Fin: "DELETE", V: 7})
		}
	}
	if len(w.node.Exits()) > 0 {
		v("checksum", "next-commit-stops-the-node/"+how, "the commit after the failed operation makes the node stop itself", map[string]any{"exits": w.node.Exits(), "error": sim.ErrString(err)})
		return false
	}
	if err != nil {
		v("image", "next-commit-fails/"+how, "the commit after the failed operation fails", map[string]any{"error": sim.ErrString(err)})
		return false
	}
	after := w.factsNow()
	if after.txid != cur.txid+1 {
		v("effect", "next-commit-not-captured/"+how, "the commit after the failed operation did not advance the position by one", map[string]any{"before": cur.txid, "after": after.txid})
	}
	if probs := sim.ChainProblems(w.node.DBDir(dbName), after.txid, after.chk); len(probs) > 0 {
		v("chain", "log-is-not-a-chain-to-the-position/"+how, "after the failed operation and one more commit the transaction files are not one chain ending at the position", map[string]any{"problems": probs})
	}
	return true
}

// checkRestart opens a fresh store on a copy of the data directory.
func (w *world) checkRestart(rep *core.Report, v func(group, monitor, what string, detail map[string]any), before, refAfter facts, exited bool) {
	cp := filepath.Join(w.dir, "restart")
	_ = os.RemoveAll(cp)
	src := w.node.Dir
	if exited && fileExists(filepath.Join(w.dir, "at-exit")) {
		src = filepath.Join(w.dir, "at-exit")
	}
	if err := sim.CopyDir(src, cp); err != nil {
		core.Infra("copy for restart: %v", err)
	}
	defer os.RemoveAll(cp)
	core.Beat("real:faults:restart")
	n2, err := sim.OpenNode(sim.NodeOpts{Dir: cp, Primary: true})
	core.Beat("harness")
	if err != nil {
		v("restart", "restart-fails", "a restart on the data directory the failed operation left fails", map[string]any{"error": sim.ErrString(err), "after_exit": exited})
		return
	}
	defer func() { _ = core.Try(n2.Close) }()
	db := n2.Store.DB(dbName)
	if db == nil {
		if w.c.Op != "drop" && before.exists {
			v("restart", "database-missing-after-restart", "the database is missing after a restart", map[string]any{})
		}
		return
	}
	pos := db.Pos()
	im, err := sim.DiskImage(n2.DBDir(dbName), w.l.PageSize)
	if err != nil {
		return
	}
	lockPg := w.l.LockPgno()
	if got := im.Checksum(lockPg); got != uint64(pos.PostApplyChecksum) && pos.TXID > 0 && w.c.Op != "drop" {
		v("restart", "restarted-checksum-mismatch", "after a restart the position checksum is not the checksum of the pages", map[string]any{"reported": fmt.Sprint(pos), "recomputed": fmt.Sprintf("%016x", got)})
	}
	if exited && w.c.Op != "drop" {
		okB, _ := im.Equal(before.image, lockPg)
		okA, _ := im.Equal(refAfter.image, lockPg)
		if !okB && !okA && w.c.Op != "import" {
			v("restart", "restart-yields-a-mixture", "after the node stopped itself a restart yields an image that is neither the one before nor the one after the operation", map[string]any{"pos": fmt.Sprint(pos)})
		}
	}
}

func inList(l []string, x string) bool {
	for _, y := range l {
		if y == x {
			return true
		}
	}
	return false
}

// LocalKinds are the kinds of fault that happen on the node itself (no broken stream).
var LocalKinds = []string{"error", "unreadable", "unwritable", "notify", "lease"}
