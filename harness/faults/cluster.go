package faults

import (
	"fmt"
	"os"
	"path/filepath"
	"strings"
	"sync"
	"syscall"
	"time"

	"github.com/superfly/litefs"

	"github.com/superfly/litefs/verifharness/core"
	"github.com/superfly/litefs/verifharness/sim"
)

// Replica-side operations of Faults.tla: a replica applies one streamed transaction file
// (replica_apply) or is given a snapshot (replica_snapshot) while one call it makes through the OS
// interface fails. The failed attempt ends the stream; the replica reconnects and is served again.
// Monitor groups: replica-mount (what an application on the replica reads through the kernel's page cache is
// what the replica's file holds: C01's "as an application reads it through the replica's mount"),
// replica-image (it reaches the primary's position with the primary's image),
// replica-checksum (the checksum it reports is that of its pages), replica-chain (its log is one chain
// to its position), replica-restart (if it stopped itself, a restart on the directory as it was at that
// moment opens with a consistent database).

var clusterOps = map[string]bool{"replica_apply": true, "replica_snapshot": true}

type cworld struct {
	c   Case
	l   sim.Layout
	dir string
	cl  *sim.Cluster
	p   *sim.CNode
	r   *sim.CNode
	pg  *sim.Pager

	base     int64 // stream bytes delivered to the replica when the window opened
	cutAt    int
	exitOnce sync.Once
	mu       sync.Mutex
	armed    bool
	count    int
	failAt   int
	events   []string
	hit      string
}

func (w *cworld) tick(label string) bool {
	w.mu.Lock()
	defer w.mu.Unlock()
	if !w.armed {
		return false
	}
	w.events = append(w.events, label)
	k := w.count
	w.count++
	if w.failAt >= 0 && k == w.failAt {
		w.hit = label
		return true
	}
	return false
}

func (w *cworld) arm(k int) {
	w.r.WarmCache(dbName, w.l.PageSize)
	w.mu.Lock()
	w.armed, w.count, w.failAt, w.hit, w.events = true, 0, k, "", nil
	w.mu.Unlock()
	if w.c.Kind == "cut" {
		w.base = w.r.Client.Delivered()
		if k >= 0 {
			w.r.Client.CutAfter(w.base + int64(k) + 1)
			w.hit = fmt.Sprintf("stream-cut")
			w.cutAt = k
		}
	}
}
func (w *cworld) disarm() []string {
	w.mu.Lock()
	defer w.mu.Unlock()
	w.armed = false
	return append([]string(nil), w.events...)
}

func openCWorld(c Case, l sim.Layout) *cworld {
	w := &cworld{c: c, l: l, dir: core.Scratch("faultsc"), failAt: -1}
	w.cl = sim.NewCluster(w.dir)
	// lease timing is not what this sweep is about: a primary that is starved of CPU for two seconds (other
	// checks run beside this one) must not lose its lease in the middle of a commit
	w.cl.Lease.TTL = 60 * time.Second
	must := func(err error, what string) {
		if err != nil {
			core.Infra("faults cluster setup: %s [%s]: %v", what, c.Key(), err)
		}
	}
	core.Beat("real:faults:cluster-start")
	var err error
	w.p, err = w.cl.Start("p", sim.ClusterNodeOpts{Candidate: true})
	must(err, "start primary")
	must(w.cl.Elect("p", 20*time.Second), "elect")
	wal := c.Target == "wal_frames"
	w.pg = sim.NewPager(w.p.Connect(dbName, 101), l, sim.PagerOpts{Sector: 512, Busy: 2 * time.Second})
	must(commitJ(w.pg, sim.Plan{Kind: "j", Ns: 4, M: []int{1, 2, 3, 4}, Out: "commit", Fin: "DELETE", V: 1, Wal: wal}), "tx1")
	must(w.commit(2, []int{1, 2}), "tx2")
	w.r, err = w.cl.Start("r", sim.ClusterNodeOpts{Configure: func(s *litefs.Store) {
		osw := s.OS.(*sim.OSWrap)
		old := s.Exit
		s.Exit = func(code int) {
			w.exitOnce.Do(func() { _ = sim.CopyDir(filepath.Join(w.dir, "r"), filepath.Join(w.dir, "r-at-exit")) })
			old(code)
		}
		osw.Before = func(ev sim.OSEvent) error {
			if c.Kind != "error" {
				return nil
			}
			if w.tick(ev.Call + ":" + ev.Label) {
				e := syscall.EIO
				if ev.Call == "Open" || ev.Call == "OpenFile" || ev.Call == "Create" {
					e = syscall.EMFILE
				}
				return &os.PathError{Op: strings.ToLower(ev.Call), Path: ev.Path, Err: e}
			}
			return nil
		}
		osw.Mangle = func(ev sim.OSEvent, f *os.File) *os.File {
			if c.Kind != "unreadable" && c.Kind != "unwritable" {
				return f
			}
			if fi, err := f.Stat(); err != nil || fi.IsDir() {
				return f
			}
			if !w.tick(ev.Call + ":" + ev.Label) {
				return f
			}
			flag := os.O_WRONLY
			if c.Kind == "unwritable" {
				flag = os.O_RDONLY
			}
			g, err := os.OpenFile(f.Name(), flag, 0)
			if err != nil {
				return f
			}
			_ = f.Close()
			return g
		}
	}})
	must(err, "start replica")
	w.r.Cache.Fail = func(kind string) error {
		if c.Kind == "notify" && w.tick("notify:"+kind) {
			return syscall.EIO
		}
		return nil
	}
	if c.Op == "replica_apply" {
		must(w.cl.WaitPos("r", dbName, w.p.Store.DB(dbName).Pos(), 20*time.Second), "replica catches up")
	} else {
		// the replica is cut off while the primary writes on and forgets the files the replica would need
		must(w.cl.WaitPos("r", dbName, w.p.Store.DB(dbName).Pos(), 20*time.Second), "replica catches up")
		w.r.Client.Block()
	}
	core.Beat("harness")
	return w
}

func (w *cworld) commit(v int, pages []int) error {
	if w.c.Target == "wal_frames" {
		return commitW(w.pg, sim.Plan{Kind: "w", Ns: 4, M: pages, Out: "commit", V: v, Wal: true}, 3)
	}
	return commitJ(w.pg, sim.Plan{Kind: "j", Ns: 4, M: pages, Out: "commit", Fin: "DELETE", V: v})
}

// op: the primary produces what the replica has to apply; the fault window is open on the replica until it
// has reached the primary's position (or has stopped itself, or the bound has passed).
func (w *cworld) op(k int) (converged bool, err error) {
	core.Beat("real:faults:" + w.c.Key())
	defer core.Beat("harness")
	if w.c.Op == "replica_snapshot" {
		if err := w.commit(3, []int{1, 3}); err != nil {
			return false, err
		}
		if err := w.commit(4, []int{2, 4}); err != nil {
			return false, err
		}
		// retention: the primary keeps only its newest file, so the replica's position cannot be served incrementally
		w.p.Store.Retention = time.Nanosecond
		time.Sleep(2 * time.Millisecond)
		if err := w.p.Store.EnforceRetention(sim.Ctx()); err != nil {
			return false, err
		}
		w.p.Store.Retention = time.Hour
		w.arm(k)
		w.r.Client.Unblock()
	} else {
		w.arm(k)
		if err := w.commit(3, []int{1, 3}); err != nil {
			return false, err
		}
	}
	want := w.p.Store.DB(dbName).Pos()
	deadline := time.Now().Add(20 * time.Second)
	for time.Now().Before(deadline) {
		if len(w.r.Exits()) > 0 {
			return false, nil
		}
		if db := w.r.Store.DB(dbName); db != nil && db.Pos() == want {
			return true, nil
		}
		time.Sleep(time.Millisecond)
	}
	return false, nil
}

func (w *cworld) close() {
	_ = core.Try(func() { w.pg.C.Close() })
	_ = core.Try(w.cl.Close)
	_ = os.RemoveAll(w.dir)
}

func sweepCluster(rep *core.Report, sel Select, c Case, l sim.Layout) {
	ref := openCWorld(c, l)
	ok, err := ref.op(-1)
	events := ref.disarm()
	streamBytes := int(ref.r.Client.Delivered() - ref.base)
	if ok && c.Kind == "error" {
		rep.Eval(1)
		if stale := ref.r.StalePages(dbName, l.PageSize, l.LockPgno()); len(stale) > 0 {
			violate(rep, sel, "replica-mount", "replica-reads-stale-pages-through-the-mount", "replica-reads-stale-pages-through-the-mount/"+c.Op+"/"+c.Target,
				map[string]any{"stale_pages": stale, "what": "after the replica applied what the primary sent (no fault), an application on the replica that had the database in its page cache reads pages through the mount that differ from the replica's database file"}, c, l, "", -1, "")
		}
	}
	if ok && c.Kind == "error" && c.Op == "replica_apply" {
		ref.replicaHistories(rep, sel)
	}
	ref.close()
	if err != nil || !ok {
		core.Infra("faults: fault-free run of %s did not converge (err=%v)", c.Key(), err)
	}
	key := fmt.Sprintf("%s/%s/%d", c.Key(), l.Name, l.PageSize)
	if os.Getenv("FAULTS_LIST") != "" {
		fmt.Fprintf(os.Stderr, "EVENTS %s: %s\n", key, strings.Join(events, " "))
	}
	rep.Case("faults:"+key, len(events) > 0)
	points := len(events)
	if sel.MaxPoints > 0 && points > sel.MaxPoints {
		points = sel.MaxPoints
	}
	if c.Kind == "cut" {
		// the stream breaks after k+1 of the bytes the primary sends for this operation: every offset of the first 48
		// and the last 48 bytes (frame type, header fields, name, trailer), a stride through the page data in between
		if streamBytes <= 0 {
			core.Infra("faults: no stream bytes were delivered in the fault-free run of %s", c.Key())
		}
		stride, edge, most := 997, 24, 60
		if sel.Thorough {
			stride, edge, most = 53, 48, 300
		}
		// (a block-straddling layout makes the snapshot a megabyte: the number of interior cut points is bounded,
		// the stride grows with the stream)
		if n := (streamBytes - 2*edge) / most; n > stride {
			stride = n | 1
		}
		seen := map[int]bool{}
		var offs []int
		add := func(k int) {
			if k >= 0 && k < streamBytes && !seen[k] {
				seen[k] = true
				offs = append(offs, k)
			}
		}
		for k := 0; k < edge; k++ {
			add(k)
			add(streamBytes - 1 - k)
		}
		for k := edge; k < streamBytes; k += stride {
			add(k)
		}
		rep.Case("faults:"+key, true)
		for _, k := range offs {
			oneCluster(rep, sel, c, l, k)
			if rep.ViolationCount() >= 20 {
				return
			}
		}
		return
	}
	for k := 0; k < points; k++ {
		oneCluster(rep, sel, c, l, k)
		if rep.ViolationCount() >= 20 {
			return
		}
	}
}

func oneCluster(rep *core.Report, sel Select, c Case, l sim.Layout, k int) {
	w := openCWorld(c, l)
	defer w.close()
	converged, err := w.op(k)
	w.disarm()
	if err != nil {
		core.Infra("faults: primary-side step of %s failed: %v", c.Key(), err)
	}
	hit := w.hit
	if hit == "" {
		return
	}
	if len(w.p.Exits()) > 0 || !w.p.Store.IsPrimary() {
		// the PRIMARY of this little cluster got into trouble (nothing was injected there): no verdict from this run
		rep.Note("faults: %s point %d: the primary stopped being primary during the run (exits %v); run discarded", c.Key(), k, w.p.Exits())
		return
	}
	if c.Kind == "cut" {
		hit = "stream-cut" // the byte offset is in the detail, not in the signature
	}
	rep.Eval(1)
	lockPg := l.LockPgno()
	groupOf := map[string]string{
		"replica-restart-fails": "replica-restart", "replica-restarted-checksum-mismatch": "replica-restart",
		"replica-does-not-converge": "replica-image", "replica-image-differs-at-the-primarys-position": "replica-image",
		"replica-reads-stale-pages-through-the-mount":       "replica-image",
		"replica-checksum-is-not-the-checksum-of-its-pages": "replica-checksum",
		"replica-log-is-not-a-chain-to-its-position":        "replica-chain",
	}
	v := func(monitor, what string, detail map[string]any) {
		detail["what"] = what
		violate(rep, sel, groupOf[monitor], monitor, monitor+"/"+c.Key()+"//"+hit, detail, c, l, "", k, hit)
	}
	pIm, perr := sim.StableDiskImage(w.p.DBDir(dbName), l.PageSize)
	if perr != nil {
		core.Infra("faults: primary image: %v", perr)
	}
	ppos := w.p.Store.DB(dbName).Pos()
	switch {
	case len(w.r.Exits()) > 0:
		countOutcome(c.Op, "node-stopped-itself")
	case converged:
		countOutcome(c.Op, "reconnected-and-converged")
	default:
		countOutcome(c.Op, "did-not-converge")
	}
	if len(w.r.Exits()) > 0 {
		// the replica stopped itself: a restart on the directory as it was then must open and be consistent
		cp := filepath.Join(w.dir, "r-restart")
		src := filepath.Join(w.dir, "r-at-exit")
		if !fileExists(src) {
			src = w.r.Dir
		}
		if err := sim.CopyDir(src, cp); err != nil {
			core.Infra("copy: %v", err)
		}
		core.Beat("real:faults:restart")
		n2, err := sim.OpenNode(sim.NodeOpts{Dir: cp, Primary: false, PrimaryURL: "http://127.0.0.1:1", NoWait: true})
		core.Beat("harness")
		if err != nil {
			v("replica-restart-fails", "the replica stopped itself during the apply; a restart on its data directory fails", map[string]any{"error": sim.ErrString(err)})
			return
		}
		defer func() { _ = core.Try(n2.Close) }()
		if db := n2.Store.DB(dbName); db != nil {
			im, ierr := sim.DiskImage(n2.DBDir(dbName), l.PageSize)
			if ierr == nil && db.Pos().TXID > 0 && im.Checksum(lockPg) != uint64(db.Pos().PostApplyChecksum) {
				v("replica-restarted-checksum-mismatch", "after the restart the replica's position checksum is not the checksum of its pages", map[string]any{"position": db.Pos().String(), "recomputed": fmt.Sprintf("%016x", im.Checksum(lockPg))})
			}
		}
		return
	}
	if !converged {
		v("replica-does-not-converge", "20 s after one failed call on the replica (the primary is up and idle) the replica has not reached the primary's position", map[string]any{"primary": ppos.String(), "replica": fmt.Sprint(w.r.Store.DB(dbName).Pos())})
		return
	}
	rIm, rerr := sim.StableDiskImage(w.r.DBDir(dbName), l.PageSize)
	if rerr != nil {
		core.Infra("faults: replica image: %v", rerr)
	}
	if ok, diff := rIm.Equal(pIm, lockPg); !ok {
		v("replica-image-differs-at-the-primarys-position", "the replica reports the primary's position but its database differs from the primary's", map[string]any{"diff": diff, "position": ppos.String()})
	}
	if got := rIm.Checksum(lockPg); got != uint64(ppos.PostApplyChecksum) {
		v("replica-checksum-is-not-the-checksum-of-its-pages", "the replica's position checksum differs from the checksum recomputed over its pages", map[string]any{"reported": ppos.String(), "recomputed": fmt.Sprintf("%016x", got)})
	}
	if c.Kind == "notify" {
		// the injected fault is a refused cache notification: what the kernel still has cached is the fault itself
	} else if what, stale := stalePosFile(w.r.Node, dbName); stale {
		v("replica-position-file-is-stale", "an application on the replica that keeps <db>-pos open reads a position the replica is not at", map[string]any{"observed": what})
	}
	if stale := w.r.StalePages(dbName, l.PageSize, lockPg); len(stale) > 0 && c.Kind != "notify" {
		v("replica-reads-stale-pages-through-the-mount", "an application on the replica that had the database in its page cache reads pages through the mount that differ from the replica's database file", map[string]any{"stale_pages": stale, "position": ppos.String()})
	}
	if probs := sim.ChainProblems(w.r.DBDir(dbName), uint64(ppos.TXID), uint64(ppos.PostApplyChecksum)); len(probs) > 0 {
		v("replica-log-is-not-a-chain-to-its-position", "the replica's transaction files are not one chain that ends at its position", map[string]any{"problems": probs})
	}
}

// replicaHistories continues the fault-free run: the primary shrinks the database and lets it grow again over
// the same page numbers, then drops it and creates it again under the same name, while an application on the
// replica keeps the database open (its pages stay in the kernel's cache, its inode stays alive). After every
// step the replica's mount must show what the replica's file holds.
func (w *cworld) replicaHistories(rep *core.Report, sel Select) {
	c, l := w.c, w.l
	wal := c.Target == "wal_frames"
	check := func(step string) bool {
		want := w.p.Store.DB(dbName)
		if want == nil {
			return true
		}
		if err := w.cl.WaitPos("r", dbName, want.Pos(), 20*time.Second); err != nil {
			core.Infra("faults: replica did not follow (%s): %v", step, err)
		}
		rep.Eval(1)
		if stale := w.r.StalePages(dbName, l.PageSize, l.LockPgno()); len(stale) > 0 {
			violate(rep, sel, "replica-mount", "replica-reads-stale-pages-through-the-mount", "replica-reads-stale-pages-through-the-mount/"+step+"/"+c.Target,
				map[string]any{"stale_pages": stale, "history": step, "what": "an application on the replica that keeps the database open reads pages through the mount that differ from the replica's database file"}, c, l, step, -1, "")
			return false
		}
		return true
	}
	commit := func(v, ns int, pages []int) error {
		if wal {
			return commitW(w.pg, sim.Plan{Kind: "w", Ns: ns, M: pages, Out: "commit", V: v, Wal: true}, 3)
		}
		return commitJ(w.pg, sim.Plan{Kind: "j", Ns: ns, M: pages, Out: "commit", Fin: "DELETE", V: v})
	}
	w.r.WarmCache(dbName, l.PageSize)
	if err := commit(11, 2, []int{1, 2}); err != nil {
		core.Infra("faults: shrink: %v", err)
	}
	if !wal {
		_ = w.pg.JTrunc(2)
	}
	if !check("shrink") {
		return
	}
	if err := commit(12, 6, []int{1, 3, 4, 5, 6}); err != nil {
		core.Infra("faults: regrow: %v", err)
	}
	if !check("shrink-then-regrow") {
		return
	}
	w.r.WarmCache(dbName, l.PageSize)
	// drop and create again under the same name (rollback journal; the log continues)
	_ = core.Try(func() { w.pg.C.Close() })
	if err := w.p.Connect(dbName, 111).RemoveDB(); err != nil {
		core.Infra("faults: drop: %v", err)
	}
	deadline := time.Now().Add(20 * time.Second)
	for time.Now().Before(deadline) {
		if db := w.r.Store.DB(dbName); db == nil || db.Pos() == w.p.Store.DB(dbName).Pos() {
			break
		}
		time.Sleep(time.Millisecond)
	}
	w.pg = sim.NewPager(w.p.Connect(dbName, 112), l, sim.PagerOpts{Sector: 512, Busy: 2 * time.Second})
	if err := w.pg.C.OpenDB(true); err != nil {
		core.Infra("faults: re-create: %v", err)
	}
	if err := commitJ(w.pg, sim.Plan{Kind: "j", Ns: 4, M: []int{1, 2, 3, 4}, Out: "commit", Fin: "DELETE", V: 21}); err != nil {
		core.Infra("faults: first transaction after the re-creation: %v", err)
	}
	check("drop-then-recreate")
}
