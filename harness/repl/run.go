package repl

import (
	"encoding/json"
	"math/rand"
	"os"
	"sort"
	"sync"
	"time"

	lfuse "github.com/superfly/litefs/fuse"
	"github.com/superfly/litefs/verifharness/core"
	"github.com/superfly/litefs/verifharness/sim"
)

func lfuseRootHandle(cn *sim.CNode) *lfuse.RootHandle { return lfuse.NewRootHandle(cn.Root) }

// Stage is one TLC run over Replication.tla that model-checks a configuration and emits scripts.
type Stage struct {
	Name    string
	Cfg     string
	Timeout time.Duration
	MaxKeep int
	Live    bool   // liveness configuration: no scripts expected
	Need    string // keep only scripts that contain this action
	Forks   bool   // keep only scripts in which two different nodes commit (a node can leave the other's history)
}

// Collect runs TLC; model-level violations are infrastructure failures (R2).
func Collect(rep *core.Report, st Stage, seed int64) []Script {
	var mu sync.Mutex
	byKey := map[string]Script{}
	core.Beat("tlc")
	stop := make(chan struct{})
	go func() {
		for {
			select {
			case <-stop:
				return
			case <-time.After(5 * time.Second):
				core.Beat("tlc")
			}
		}
	}()
	res, err := core.RunTLC(core.TLCOpts{Module: "Replication", Cfg: st.Cfg, Timeout: st.Timeout, Seed: seed,
		OnLine: func(tag string, payload json.RawMessage) {
			if tag != "SCRIPT" {
				return
			}
			var s Script
			if err := json.Unmarshal(payload, &s); err != nil {
				core.Infra("bad SCRIPT line: %v", err)
			}
			if st.Need != "" {
				has := false
				for _, x := range s.H {
					if x.A == st.Need {
						has = true
					}
				}
				if !has {
					return
				}
			}
			if st.Forks {
				who := map[string]bool{}
				for _, x := range s.H {
					if x.A == "Commit" {
						who[x.G.N] = true
					}
				}
				if len(who) < 2 {
					return
				}
			}
			k := s.Key()
			mu.Lock()
			if _, ok := byKey[k]; !ok {
				byKey[k] = s
			}
			mu.Unlock()
		}})
	close(stop)
	if err != nil {
		core.Infra("tlc %s: %v", st.Name, err)
	}
	if !res.OK() {
		core.Infra("model checking stage %s failed (a model problem, not a verdict about the code): %s\n%s\n%s", st.Name, res.Describe(), res.ErrorText, res.OutputTail)
	}
	rep.AddTLC(st.Name, res)
	keys := make([]string, 0, len(byKey))
	for k := range byKey {
		keys = append(keys, k)
	}
	sort.Strings(keys)
	rnd := rand.New(rand.NewSource(seed))
	rnd.Shuffle(len(keys), func(i, j int) { keys[i], keys[j] = keys[j], keys[i] })
	if st.MaxKeep > 0 && len(keys) > st.MaxKeep {
		keys = keys[:st.MaxKeep]
	}
	out := make([]Script, 0, len(keys))
	for _, k := range keys {
		out = append(out, byKey[k])
	}
	rep.Note("stage %s: %d distinct control scripts emitted by TLC, %d kept for execution", st.Name, len(byKey), len(out))
	return out
}

// StdConfigs are the concretisation variants of the cluster checks.
func StdConfigs(thorough bool) []Config {
	cfgs := []Config{
		{Layout: sim.L1(512), Pager: sim.PagerOpts{Sector: 512, Busy: 10 * time.Second}},
		{Layout: sim.L0(4096), Pager: sim.PagerOpts{Sector: 4096, BigEndian: true, Busy: 10 * time.Second}, Compress: true, WAL: true},
		{Layout: sim.L0(512), Pager: sim.PagerOpts{Sector: 512}, Compress: true},
		{Layout: sim.L1(1024), Pager: sim.PagerOpts{Sector: 512, SplitHdr: true, Busy: 10 * time.Second}, WAL: true},
	}
	if thorough {
		cfgs = append(cfgs, Config{Layout: sim.L1(4096), Pager: sim.PagerOpts{Sector: 512}, Compress: true, WAL: true},
			Config{Layout: sim.L0(1024), Pager: sim.PagerOpts{Sector: 4096, Busy: 10 * time.Second}})
	}
	return cfgs
}

// RunAll executes the scripts (a few clusters at a time) and records the failures that belong to
// one of `props` as violations of rep.Property's check; others are only counted.
func RunAll(rep *core.Report, props map[string]bool, scripts []Script, cfgs []Config, seed int64, parallel int) {
	type job struct {
		i  int
		sc Script
	}
	jobs := make(chan job)
	var wg sync.WaitGroup
	var mu sync.Mutex
	other := map[string]int{}
	var reads, applies, snaps int64
	for w := 0; w < parallel; w++ {
		wg.Add(1)
		go func() {
			defer wg.Done()
			for j := range jobs {
				cfg := cfgs[(j.i+int(seed))%len(cfgs)]
				dir := core.Scratch("cluster")
				r := Run(j.sc, cfg, dir)
				_ = os.RemoveAll(dir)
				mu.Lock()
				if r.Infra != "" {
					mu.Unlock()
					core.Infra("script %s [%s]: %s", j.sc.Key(), cfg, r.Infra)
				}
				rep.Eval(int(r.Evals))
				rep.TracesValidated++
				rep.Case(j.sc.Key()+"|"+cfg.String(), r.Nontrivial)
				reads += r.Reads
				applies += r.Applies
				snaps += r.Snapshots
				for _, f := range r.Fails {
					if props[f.Prop] {
						rep.Violate(f.Monitor, f.Sig, map[string]any{"step": f.Step, "detail": f.Detail, "config": cfg.String(), "script": j.sc.Key()}, map[string]any{"script": j.sc, "config": cfg})
					} else {
						other[f.Prop+":"+f.Monitor]++
						if os.Getenv("VERIF_DEBUG_OTHER") != "" {
							println("other-property failure:", mustJSON(f), j.sc.Key(), cfg.String())
						}
					}
				}
				mu.Unlock()
			}
		}()
	}
	skipped := 0
	for i, sc := range scripts {
		// a tree in which every script ends in a convergence time-out would take hours: once enough violations
		// are on record the remaining scripts add nothing to the verdict
		if rep.ViolationCount() >= 20 {
			skipped = len(scripts) - i
			break
		}
		jobs <- job{i, sc}
	}
	close(jobs)
	wg.Wait()
	if skipped > 0 {
		rep.Note("%d scripts were not executed: %d violations had been recorded already", skipped, rep.ViolationCount())
	}
	if len(other) > 0 {
		rep.Extra["monitor_failures_of_other_properties"] = other
	}
	add := func(k string, v int64) {
		old, _ := rep.Extra[k].(int64)
		rep.Extra[k] = old + v
	}
	add("replica_consistent_reads", reads)
	add("replica_position_changes_observed", applies)
	add("snapshots_applied", snaps)
	if len(scripts) > 0 {
		rep.Sample(map[string]any{"script": scripts[len(scripts)/2].Key()})
	}
}

// ReplayFile re-executes the script stored in a replay file.
func ReplayFile(rep *core.Report, props map[string]bool, path string) bool {
	b, err := os.ReadFile(path)
	if err != nil {
		core.Infra("read replay: %v", err)
	}
	var f struct {
		Replay struct {
			Script Script `json:"script"`
			Config Config `json:"config"`
		} `json:"replay"`
	}
	if err := json.Unmarshal(b, &f); err != nil {
		core.Infra("parse replay: %v", err)
	}
	if len(f.Replay.Script.H) == 0 {
		return false // not a cluster script: a replay file of another stage of the same check
	}
	RunAll(rep, props, []Script{f.Replay.Script}, []Config{f.Replay.Config}, 0, 1)
	return true
}

// Main is the common driver of the cluster checks.
func Main(rep *core.Report, args *core.Args, props map[string]bool, stages []Stage) {
	core.Watchdog(180*time.Second, func(label string, since time.Duration) {
		if len(label) > 5 && label[:5] == "real:" {
			rep.Violate(rep.Property+".no-hang", "hang/"+label, map[string]any{"no_progress_for": since.String()}, nil)
			rep.Finish()
		}
		core.Infra("no progress for %s while %s", since, label)
	})
	if args.Replay != "" {
		if ReplayFile(rep, props, args.Replay) {
			rep.Finish()
		}
		return
	}
	cfgs := StdConfigs(!args.Quick())
	for _, st := range stages {
		scripts := Collect(rep, st, args.Seed)
		if st.Live {
			continue
		}
		RunAll(rep, props, scripts, cfgs, args.Seed, 6)
	}
}
