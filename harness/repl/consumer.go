package repl

import (
	"bytes"
	"context"
	"fmt"
	"io"
	"os"
	"path/filepath"
	"sync/atomic"
	"time"

	"github.com/superfly/litefs"
	"github.com/superfly/litefs/verifharness/core"
	"github.com/superfly/litefs/verifharness/sim"
	"github.com/superfly/ltx"
)

// StreamConsumer (C18: "every frame a node can write is read back as the identical value", on the consuming
// side of the replication stream): a real replica store reads a byte stream made of the real encodings of
// every frame kind in the orders a primary produces them - in particular a transaction frame whose file the
// replica itself created (it is skipped, but its chunked body has to be consumed up to and including its end
// marker) followed by further frames. Every frame behind it must arrive: the high-water mark and the
// heartbeat timestamp that follow are observable on the store, and the stream must be read to its end
// without the replica giving up on it.
func StreamConsumer(rep *core.Report, prop string) {
	l := sim.L0(512)
	base := core.Scratch("consumer")
	d := filepath.Join(base, "src")
	_ = os.MkdirAll(d, 0o777)
	_ = os.WriteFile(filepath.Join(d, "clusterid"), []byte(offeredCluster+"\n"), 0o666)
	src, err := sim.OpenNode(sim.NodeOpts{Dir: d, Primary: true})
	if err != nil {
		core.Infra("consumer: open source: %v", err)
	}
	f, err := commitN(src, l, 3, 0)
	src.Close()
	if err != nil {
		core.Infra("consumer: source chain: %v", err)
	}
	for _, bodyKB := range []int{0, 160} { // the body in chunks of 7 bytes / in one chunk
		core.Beat("real:consumer")
		gc := &gatedClient{cluster: offeredCluster, ready: make(chan struct{})}
		vd := filepath.Join(base, fmt.Sprintf("victim-%d", bodyKB))
		_ = os.MkdirAll(vd, 0o777)
		_ = os.WriteFile(filepath.Join(vd, "clusterid"), []byte(offeredCluster+"\n"), 0o666)
		victim, err := sim.OpenNode(sim.NodeOpts{Dir: vd, Primary: false, PrimaryURL: "http://scripted.invalid", Client: gc})
		if err != nil {
			core.Infra("consumer: open victim: %v", err)
		}
		own := reencodeLTX(f[1], func(h *ltx.Header) { h.NodeID = victim.Store.ID() })
		var buf bytes.Buffer
		frameLTX(&buf, "db", f[0])
		_ = litefs.WriteStreamFrame(&buf, &litefs.HWMStreamFrame{Name: "db", TXID: 1})
		_ = litefs.WriteStreamFrame(&buf, &litefs.ReadyStreamFrame{})
		// the replica's own transaction coming back, then more frames
		frameLTXChunks(&buf, "db", own, map[int]int{0: 7, 160: 65535}[bodyKB])
		_ = litefs.WriteStreamFrame(&buf, &litefs.HWMStreamFrame{Name: "db", TXID: 7})
		_ = litefs.WriteStreamFrame(&buf, &litefs.HeartbeatStreamFrame{Timestamp: 1234567})
		_ = litefs.WriteStreamFrame(&buf, &litefs.EndStreamFrame{})
		gc.payload = buf.Bytes()
		close(gc.ready)
		deadline := time.Now().Add(20 * time.Second)
		for time.Now().Before(deadline) && gc.served.Load() < 2 && !gc.eof.Load() {
			time.Sleep(time.Millisecond)
		}
		time.Sleep(20 * time.Millisecond)
		rep.Eval(3)
		rep.TracesValidated++
		rep.Case(fmt.Sprintf("stream-consumer/own-transaction-then-frames/chunk=%d", map[int]int{0: 7, 160: 65535}[bodyKB]), true)
		var hwm uint64
		var pos string
		if db := victim.Store.DB("db"); db != nil {
			hwm, pos = uint64(db.HWM()), db.Pos().String()
		}
		detail := map[string]any{"bytes_in_stream": len(gc.payload), "bytes_read_by_the_replica": gc.read.Load(), "stream_requests": gc.served.Load(),
			"hwm_on_replica": hwm, "heartbeat_timestamp_on_replica": victim.Store.PrimaryTimestamp(), "position": pos, "exits": victim.Exits()}
		switch {
		case gc.read.Load() < int64(len(gc.payload)):
			rep.Violate(prop+".stream-read-to-its-end", "stream-consumer/gave-up-mid-stream", detail, map[string]any{"consumer": bodyKB})
		case hwm != 7 || victim.Store.PrimaryTimestamp() != 1234567:
			rep.Violate(prop+".frames-after-own-transaction-arrive", "stream-consumer/frames-lost-after-own-transaction", detail, map[string]any{"consumer": bodyKB})
		}
		_ = core.Try(victim.Close)
	}
	core.Beat("harness")
}

// frameLTXChunks writes a transaction frame whose body is cut into chunks of n bytes.
func frameLTXChunks(buf *bytes.Buffer, name string, data []byte, n int) {
	_ = litefs.WriteStreamFrame(buf, &litefs.LTXStreamFrame{Name: name})
	for len(data) > 0 {
		k := n
		if k > len(data) {
			k = len(data)
		}
		buf.Write([]byte{byte(k >> 8), byte(k)})
		buf.Write(data[:k])
		data = data[k:]
	}
	buf.Write([]byte{0, 0})
}

// gatedClient serves one fixed byte stream (once it has been set), then refuses connections.
type gatedClient struct {
	payload []byte
	ready   chan struct{}
	served  atomic.Int32
	read    atomic.Int64
	eof     atomic.Bool
	cluster string
}

type countingReader struct {
	r *bytes.Reader
	c *gatedClient
}

func (c *countingReader) Read(p []byte) (int, error) {
	n, err := c.r.Read(p)
	c.c.read.Add(int64(n))
	if err == io.EOF {
		c.c.eof.Store(true)
	}
	return n, err
}

func (c *gatedClient) AcquireHaltLock(ctx context.Context, primaryURL string, nodeID uint64, name string, lockID int64) (*litefs.HaltLock, error) {
	return nil, fmt.Errorf("not supported")
}
func (c *gatedClient) ReleaseHaltLock(ctx context.Context, primaryURL string, nodeID uint64, name string, lockID int64) error {
	return nil
}
func (c *gatedClient) Commit(ctx context.Context, primaryURL string, nodeID uint64, name string, lockID int64, r io.Reader) error {
	return fmt.Errorf("not supported")
}
func (c *gatedClient) Stream(ctx context.Context, primaryURL string, nodeID uint64, posMap map[string]ltx.Pos, filter []string) (litefs.Stream, error) {
	select {
	case <-c.ready:
	case <-ctx.Done():
		return nil, ctx.Err()
	}
	if c.served.Add(1) > 1 {
		return nil, fmt.Errorf("scripted primary is gone")
	}
	return &scriptedStream{Reader: &countingReader{r: bytes.NewReader(c.payload), c: c}, cluster: c.cluster}, nil
}
