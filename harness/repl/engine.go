// Package repl executes fault scripts generated from Replication.tla on a real three-node cluster
// (real stores, real h2c HTTP, in one process) and evaluates the monitors of C01, C06, C09, C15 (and
// C04) on what the real nodes do.
package repl

import (
	"encoding/json"
	"fmt"
	"os"
	"path/filepath"
	"sort"
	"strings"
	"sync"
	"sync/atomic"
	"time"

	"bazil.org/fuse"
	"github.com/superfly/litefs"
	"github.com/superfly/litefs/verifharness/core"
	"github.com/superfly/litefs/verifharness/sim"
	"github.com/superfly/ltx"
)

// Step is one control action of a script.
type Step struct {
	A string `json:"a"`
	G struct {
		N    string `json:"n"`
		Size int    `json:"size"`
		W    []int  `json:"W"`
		V    int    `json:"v"`
	} `json:"g"`
}

// Script is the control part of one behaviour of Replication.tla.
type Script struct {
	H []Step `json:"h"`
}

// Key identifies a script.
func (s Script) Key() string {
	var sb strings.Builder
	for _, st := range s.H {
		fmt.Fprintf(&sb, "%s(%s", st.A, st.G.N)
		if st.A == "Commit" {
			fmt.Fprintf(&sb, ",%d,%v", st.G.Size, st.G.W)
		}
		sb.WriteString(");")
	}
	return sb.String()
}

// Config holds the concretisation parameters.
type Config struct {
	Layout   sim.Layout
	Pager    sim.PagerOpts
	Compress bool
	WAL      bool // databases are switched to WAL mode by their creating transaction
}

func (c Config) String() string {
	return fmt.Sprintf("%s/ps%d/lz4%v/wal%v/be%v", c.Layout.Name, c.Layout.PageSize, c.Compress, c.WAL, c.Pager.BigEndian)
}

// Fail is one monitor failure.
type Fail struct {
	Prop    string `json:"prop"`
	Monitor string `json:"monitor"`
	Sig     string `json:"sig"`
	Step    int    `json:"step"`
	Detail  any    `json:"detail"`
}

// Result of one script.
type Result struct {
	Fails      []Fail
	Evals      int64
	Reads      int64 // consistent (position, image) reads taken on replicas
	Applies    int64 // position changes observed on non-primary nodes
	Snapshots  int64
	Nontrivial bool
	Infra      string
}

type posKey struct {
	txid uint64
	chk  uint64
}

type nodeState struct {
	name    string
	cn      *sim.CNode
	mu      sync.Mutex // serialises the harness's own use of the node (commit vs reader vs restart)
	pager   *sim.Pager
	conn    *sim.Conn
	lastRen atomic.Value // string: path of the LTX file most recently renamed into place on this node
	prevPos atomic.Value // posKey before the current apply
	blocked bool
}

type engine struct {
	cfg   Config
	cl    *sim.Cluster
	nodes map[string]*nodeState
	res   *Result
	fmu   sync.Mutex
	refs  sync.Map // posKey -> sim.Image
	step  atomic.Int64
	name  string
	stop  chan struct{}
	wg    sync.WaitGroup
}

func (e *engine) fail(prop, monitor, sig string, detail any) {
	e.fmu.Lock()
	defer e.fmu.Unlock()
	if len(e.res.Fails) < 30 {
		e.res.Fails = append(e.res.Fails, Fail{Prop: prop, Monitor: monitor, Sig: sig, Step: int(e.step.Load()), Detail: detail})
	}
}

func (e *engine) eval(n int) { atomic.AddInt64(&e.res.Evals, int64(n)) }

const emptyChk = uint64(1) << 63

func keyOf(p ltx.Pos) posKey { return posKey{uint64(p.TXID), uint64(p.PostApplyChecksum)} }

// Run executes one script.
func Run(sc Script, cfg Config, dir string) (res Result) {
	if cfg.Pager.Busy == 0 {
		cfg.Pager.Busy = 10 * time.Second // SQLite's busy handler: snapshots being streamed hold read locks
	}
	e := &engine{cfg: cfg, res: &res, nodes: map[string]*nodeState{}, name: "db", stop: make(chan struct{})}
	e.refs.Store(posKey{0, 0}, sim.Image{Pages: map[uint32][]byte{}})
	e.cl = sim.NewCluster(dir)
	e.cl.Lease.AllowOnly()
	defer func() { _ = core.Try(e.cl.Close) }()
	names := []string{"n1", "n2", "n3"}
	for _, n := range names {
		if err := e.startNode(n); err != nil {
			res.Infra = "start node: " + err.Error()
			return res
		}
	}
	// one reader per node, active while the node is not primary
	for _, n := range names {
		e.wg.Add(1)
		go e.reader(e.nodes[n])
	}
	for i, st := range sc.H {
		e.step.Store(int64(i))
		core.Beat("real:repl:" + st.A)
		if p := core.Try(func() { e.doStep(st) }); p != nil {
			e.fail("C01", "C01.no-panic", "panic/"+st.A, map[string]any{"panic": p.Value, "stack": p.Stack})
			break
		}
		if res.Infra != "" {
			break
		}
	}
	if res.Infra == "" && len(res.Fails) == 0 {
		e.step.Store(int64(len(sc.H)))
		core.Beat("real:repl:settle")
		e.settle()
	}
	close(e.stop)
	e.wg.Wait()
	core.Beat("harness")
	for _, ns := range e.nodes {
		if ex := ns.cn.Exits(); len(ex) > 0 {
			e.fail("C01", "C01.no-exit", "exit/"+ns.name, map[string]any{"codes": ex})
		}
	}
	res.Nontrivial = res.Applies > 0
	return res
}

func (e *engine) startNode(name string) error {
	ns := e.nodes[name]
	if ns == nil {
		ns = &nodeState{name: name}
		ns.lastRen.Store("")
		ns.prevPos.Store(posKey{})
		e.nodes[name] = ns
	}
	cn, err := e.cl.Start(name, sim.ClusterNodeOpts{Candidate: true, Compress: e.cfg.Compress})
	if err != nil {
		return err
	}
	ns.cn = cn
	ns.pager, ns.conn = nil, nil
	if ns.blocked {
		cn.Client.Block()
	}
	if db := cn.Store.DB(e.name); db != nil {
		ns.prevPos.Store(keyOf(db.Pos()))
	}
	cn.OS.Before = func(ev sim.OSEvent) error {
		if ev.Call == "Rename" && (ev.Label == "PROCESSLTX" || ev.Label == "WRITELTX") {
			ns.lastRen.Store(ev.Path2)
		}
		return nil
	}
	cn.Cache.OnPos = func(db *litefs.DB) { e.onPos(ns, db) }
	return nil
}

// loadRef looks a position up in the committed history. The committing goroutine records a position
// right after the commit call returns, while a replica can already have received the transaction:
// a miss is only final once the writer has had time to record it.
func (e *engine) loadRef(k posKey) (any, bool) {
	for i := 0; ; i++ {
		if v, ok := e.refs.Load(k); ok || i >= 300 {
			return v, ok
		}
		time.Sleep(10 * time.Millisecond)
	}
}

// onPos runs inside DB.setPos on every node: LiteFS's own linearisation point of a position change.
func (e *engine) onPos(ns *nodeState, db *litefs.DB) {
	if db.Name() != e.name {
		return
	}
	now := keyOf(db.Pos())
	prev := ns.prevPos.Load().(posKey)
	ns.prevPos.Store(now)
	if ns.cn.Store.IsPrimary() {
		return // local commits are judged by the DBFile checks
	}
	atomic.AddInt64(&e.res.Applies, 1)
	e.eval(3)
	// C01/C06: a replica only ever reports positions some primary committed
	if _, ok := e.loadRef(now); !ok && !(now.txid == 0) {
		e.fail("C01", "C01.position-on-history", "replica-position-not-committed/"+ns.name, map[string]any{"txid": now.txid, "chk": fmt.Sprintf("%016x", now.chk)})
	}
	// C06: an incremental file is applied only on exactly the position it extends
	path, _ := ns.lastRen.Load().(string)
	if path == "" {
		return
	}
	f := sim.ReadLTX(path)
	if f.Max != now.txid {
		return // the rename seen last is not the file being applied (e.g. restart re-apply)
	}
	if f.Min == 1 {
		atomic.AddInt64(&e.res.Snapshots, 1)
		// C09: a received snapshot replaces the whole chain
		ents, _ := os.ReadDir(filepath.Dir(path))
		n := 0
		for _, en := range ents {
			if strings.HasSuffix(en.Name(), ".ltx") {
				n++
			}
		}
		if n != 1 {
			e.fail("C09", "C09.snapshot-replaces-chain", "files-besides-snapshot/"+ns.name, map[string]any{"count": n})
		}
		return
	}
	if f.Min-1 != prev.txid || (f.Pre != prev.chk && !(prev.txid == 0 && f.Pre == 0)) {
		e.fail("C06", "C06.never-patched", "incremental-file-on-wrong-position/"+ns.name,
			map[string]any{"file": f.Name, "file_min": f.Min, "file_pre": fmt.Sprintf("%016x", f.Pre), "node_txid": prev.txid, "node_chk": fmt.Sprintf("%016x", prev.chk)})
	}
}

func (e *engine) primary() *nodeState {
	for _, ns := range e.nodes {
		if ns.cn != nil && ns.cn.Store.IsPrimary() {
			return ns
		}
	}
	return nil
}

func (e *engine) doStep(st Step) {
	ns := e.nodes[st.G.N]
	switch st.A {
	case "Promote":
		e.cl.Lease.AllowOnly(ns.cn.URL)
		if err := e.cl.WaitPrimary(ns.name, 20*time.Second); err != nil {
			e.res.Infra = err.Error()
		}
	case "Demote":
		e.cl.Lease.AllowOnly()
		ns.cn.Store.Demote()
		deadline := time.Now().Add(20 * time.Second)
		for ns.cn.Store.IsPrimary() {
			if time.Now().After(deadline) {
				e.fail("C08", "C08.demotion-takes-effect", "still-primary-after-demote", nil)
				return
			}
			time.Sleep(200 * time.Microsecond)
		}
		ns.mu.Lock()
		ns.pager, ns.conn = nil, nil
		ns.mu.Unlock()
	case "Block":
		ns.blocked = true
		ns.cn.Client.Block()
	case "Unblock":
		ns.blocked = false
		ns.cn.Client.Unblock()
	case "Restart":
		ns.mu.Lock()
		if ns.conn != nil {
			_ = core.Try(ns.conn.Close)
		}
		ns.pager, ns.conn = nil, nil
		if e.cl.Lease.Holder() == ns.cn.URL {
			e.cl.Lease.AllowOnly()
		}
		e.cl.Stop(ns.name)
		err := e.startNode(ns.name)
		ns.mu.Unlock()
		if err != nil {
			e.fail("C05", "C05.restart-succeeds", "cluster-restart-fails/"+ns.name, map[string]any{"error": err.Error()})
		}
	case "Sweep":
		// one sweep with a retention period that has passed for every file; the period is restored
		// afterwards (http.Server derives its snapshot time-out from it)
		old := ns.cn.Store.Retention
		ns.cn.Store.Retention = time.Nanosecond
		time.Sleep(2 * time.Millisecond)
		_ = ns.cn.Store.EnforceRetention(sim.Ctx())
		ns.cn.Store.Retention = old
	case "Commit":
		e.commit(ns, st)
	case "Drop":
		e.drop(ns)
	default:
		core.Infra("unknown script action %q", st.A)
	}
}

func (e *engine) ensurePager(ns *nodeState) {
	if ns.pager != nil {
		return
	}
	ns.conn = ns.cn.Connect(e.name, 301)
	ns.pager = sim.NewPager(ns.conn, e.cfg.Layout, e.cfg.Pager)
	im, err := sim.StableDiskImage(ns.cn.DBDir(e.name), e.cfg.Layout.PageSize)
	if err == nil && im.N > 0 {
		model, _ := e.cfg.Layout.ModelOf(im)
		ns.pager.Ref = model
		ns.pager.SetCommittedSize(im.N)
	}
}

func (e *engine) commit(ns *nodeState, st Step) {
	ns.mu.Lock()
	defer ns.mu.Unlock()
	if !ns.cn.Store.IsPrimary() {
		e.res.Infra = "script commits on a node that is not primary: " + ns.name
		return
	}
	e.ensurePager(ns)
	pg := ns.pager
	var beforeTx posKey
	if db0 := ns.cn.Store.DB(e.name); db0 != nil {
		beforeTx = keyOf(db0.Pos())
	}
	// The script was generated along one behaviour of the model; on the real cluster the node may
	// hold less than it did there (frames still in flight when the script moved on). Pages that do
	// not exist yet must be written, as the model's Commit requires.
	w := append([]int(nil), st.G.W...)
	for q := len(pg.Ref) + 1; q <= st.G.Size; q++ {
		found := false
		for _, x := range w {
			if x == q {
				found = true
			}
		}
		if !found {
			w = append(w, q)
		}
	}
	sort.Ints(w)
	pl := sim.Plan{Ns: st.G.Size, M: w, Out: "commit", Fin: "DELETE", V: st.G.V}
	var err error
	if pg.WalMode() {
		pl.Kind, pl.Wal = "w", true
		err = pg.BeginW(pl)
		if err == nil && !pg.HasHdr() {
			err = pg.WHdr(int(e.step.Load()) + 1 + 10*st.G.V)
		}
		// every other WAL transaction spills an early version of its last page first, so that the
		// page appears in two frames of the transaction (SQLite does this when its cache is too small)
		if err == nil && st.G.V%2 == 0 {
			err = pg.WFrame(pl.M[len(pl.M)-1], true, false)
		}
		for i, q := range pl.M {
			if err == nil {
				err = pg.WFrame(q, false, i == len(pl.M)-1)
			}
		}
		if err == nil {
			err = pg.WEnd()
		}
	} else {
		pl.Kind = "j"
		pl.Wal = e.cfg.WAL
		err = firstErr(func() error { return pg.BeginJ(pl) }, pg.JCreate, pg.JSync)
		for _, q := range pl.M {
			if err == nil {
				err = pg.JPage(q)
			}
		}
		shrink := pl.Ns < len(pg.Ref)
		if err == nil {
			err = pg.JFinal()
		}
		if err == nil && shrink {
			err = pg.JTrunc(pl.Ns)
		}
		pg.EndJ()
	}
	if err != nil {
		e.fail("C02", "C02.operation-accepted", "cluster-commit-refused/"+ns.name, map[string]any{"error": sim.ErrString(err), "plan": pl})
		return
	}
	db := ns.cn.Store.DB(e.name)
	pos := db.Pos()
	e.eval(1)
	if uint64(pos.TXID) != beforeTx.txid+1 {
		prop, mon, sig := "C02", "C02.commit-captured", "cluster-commit-txid/"+ns.name
		if beforeTx.chk == emptyChk && beforeTx.txid > 0 {
			// C15: a database created again under the same name continues the TXID sequence
			prop, mon, sig = "C15", "C15.recreation-continues-log", "recreate-txid"
		}
		e.fail(prop, mon, sig, map[string]any{"before": beforeTx.txid, "after": pos.String()})
	}
	e.refs.Store(keyOf(pos), e.cfg.Layout.ImageOf(pg.Ref))
}

func (e *engine) drop(ns *nodeState) {
	ns.mu.Lock()
	defer ns.mu.Unlock()
	if db := ns.cn.Store.DB(e.name); db == nil || db.PageN() == 0 {
		return // nothing to drop on this node in the real run (the model's Drop needs a non-empty database)
	}
	e.ensurePager(ns)
	before := ns.cn.Store.DB(e.name).Pos()
	ns.conn.Close()
	c := ns.cn.Connect(e.name, 302)
	err := c.RemoveDB()
	ns.pager, ns.conn = nil, nil
	if err != nil {
		e.fail("C15", "C15.drop-accepted", "drop-refused", map[string]any{"error": sim.ErrString(err)})
		return
	}
	pos := ns.cn.Store.DB(e.name).Pos()
	e.eval(2)
	// C15: position advances by exactly one with the empty checksum
	if uint64(pos.TXID) != uint64(before.TXID)+1 || uint64(pos.PostApplyChecksum) != emptyChk {
		e.fail("C15", "C15.drop-is-one-transaction", "drop-position", map[string]any{"before": before.String(), "after": pos.String()})
	}
	e.refs.Store(keyOf(pos), sim.Image{Pages: map[uint32][]byte{}})
	e.checkDropped(ns, "primary")
}

// checkDropped: the four files are gone and the directory listing omits the database.
func (e *engine) checkDropped(ns *nodeState, who string) {
	e.eval(2)
	for _, f := range []string{"database", "journal", "wal", "shm"} {
		if _, err := os.Stat(filepath.Join(ns.cn.DBDir(e.name), f)); err == nil {
			e.fail("C15", "C15.files-removed", "file-left/"+f+"/"+who, map[string]any{"node": ns.name})
		}
	}
	h := lfuseRootHandle(ns.cn)
	if ents, err := h.ReadDirAll(sim.Ctx()); err == nil {
		for _, en := range ents {
			if en.Name == e.name || strings.HasPrefix(en.Name, e.name+"-") {
				e.fail("C15", "C15.not-listed", "listed-after-drop/"+who, map[string]any{"node": ns.name, "entry": en.Name})
			}
		}
	}
}

func firstErr(fs ...func() error) error {
	for _, f := range fs {
		if err := f(); err != nil {
			return err
		}
	}
	return nil
}

// reader is monitor M1: on a node that is not primary, take the locks a SQLite reader would take,
// read the position and every page through the (simulated) page cache, and compare with the
// reference image of exactly that position.
func (e *engine) reader(ns *nodeState) {
	defer e.wg.Done()
	for {
		select {
		case <-e.stop:
			return
		default:
		}
		time.Sleep(300 * time.Microsecond)
		ns.mu.Lock()
		if ns.cn != nil && !ns.cn.Store.IsPrimary() {
			_ = core.Try(func() { e.readOnce(ns) })
		}
		ns.mu.Unlock()
	}
}

func (e *engine) readOnce(ns *nodeState) {
	db := ns.cn.Store.DB(e.name)
	if db == nil || db.PageN() == 0 {
		return
	}
	c := ns.cn.Connect(e.name, 900)
	if err := c.OpenDB(false); err != nil {
		return
	}
	defer c.Close()
	wal := db.Mode() == litefs.DBModeWAL
	if wal {
		if err := c.OpenSHM(); err != nil {
			return
		}
		if c.LockSHM(fuse.LockRead, 128, 128) != nil || c.LockSHM(fuse.LockRead, 124, 124) != nil {
			return
		}
	} else {
		if c.LockDB(fuse.LockRead, sim.PendingByte, sim.PendingByte) != nil {
			return
		}
		if c.LockDB(fuse.LockRead, sim.SharedFirst, sim.SharedFirst+sim.SharedSize-1) != nil {
			return
		}
		_ = c.LockDB(fuse.LockUnlock, sim.PendingByte, sim.PendingByte)
	}
	if (db.Mode() == litefs.DBModeWAL) != wal || ns.cn.Store.IsPrimary() {
		return // the mode changed under us: the locks taken are not the ones that exclude the writer
	}
	pos := db.Pos()
	size, err := c.DBSize()
	if err != nil {
		return
	}
	ps := int64(e.cfg.Layout.PageSize)
	im := sim.Image{N: uint32(size / ps), Pages: map[uint32][]byte{}}
	fileN, hdrN := im.N, uint32(0)
	for r := uint32(1); r <= im.N; r++ {
		b, err := c.ReadDB(int64(r-1)*ps, int(ps))
		if err != nil || int64(len(b)) != ps {
			return
		}
		im.Pages[r] = b
	}
	// SQLite takes the database size from the header, not from the file length
	if p1 := im.Pages[1]; len(p1) >= 32 {
		hn := uint32(p1[28])<<24 | uint32(p1[29])<<16 | uint32(p1[30])<<8 | uint32(p1[31])
		hdrN = hn
		if hn > 0 && hn < im.N {
			for r := hn + 1; r <= im.N; r++ {
				delete(im.Pages, r)
			}
			im.N = hn
		}
	}
	if wal {
		// a WAL-mode reader sees committed frames of the log on top of the database file
		frames, commitN := sim.WalkWAL(filepath.Join(ns.cn.DBDir(e.name), "wal"), e.cfg.Layout.PageSize)
		if commitN > 0 {
			for r, data := range frames {
				im.Pages[r] = data
			}
			for r := commitN + 1; r <= im.N; r++ {
				delete(im.Pages, r)
			}
			im.N = commitN
		}
	}
	if db.Pos() != pos {
		e.fail("C11", "C11.apply-excludes-readers", "position-moved-under-read-lock/"+ns.name, map[string]any{"before": pos.String(), "after": db.Pos().String(), "wal": wal})
		return
	}
	atomic.AddInt64(&e.res.Reads, 1)
	e.eval(2)
	ref, ok := e.loadRef(keyOf(pos))
	if !ok {
		if pos.TXID != 0 {
			e.fail("C01", "C01.position-on-history", "read-position-not-committed/"+ns.name, map[string]any{"pos": pos.String()})
		}
		return
	}
	if ok2, why := im.Equal(ref.(sim.Image), e.cfg.Layout.LockPgno()); !ok2 {
		model, bad := e.cfg.Layout.ModelOf(im)
		e.fail("C01", "C01.replica-image-is-primary-image", "replica-read-differs/"+ns.name, map[string]any{"pos": pos.String(), "why": why, "seen_model": model, "undecodable": bad, "wal": wal, "file_pages": fileN, "hdr_pages": hdrN})
	}
}

// settle: faults stop, one primary stays up, everything unblocked: every replica must reach the
// primary's position and be byte-identical (C01 convergence, C06 resnapshot, C09, C04, C15).
func (e *engine) settle() {
	p := e.primary()
	if p == nil {
		// elect the node with the most advanced log deterministically: n1
		p = e.nodes["n1"]
		e.cl.Lease.AllowOnly(p.cn.URL)
		if err := e.cl.WaitPrimary(p.name, 20*time.Second); err != nil {
			e.res.Infra = err.Error()
			return
		}
	}
	for _, ns := range e.nodes {
		ns.blocked = false
		ns.cn.Client.Unblock()
	}
	pdb := p.cn.Store.DB(e.name)
	if pdb == nil {
		return // no database anywhere
	}
	want := pdb.Pos()
	if want.TXID == 0 {
		return // (DESIGN 6a: a primary at TXID 0 is outside the convergence clause)
	}
	for _, ns := range e.nodes {
		if ns == p {
			continue
		}
		e.eval(1)
		if err := e.cl.WaitPos(ns.name, e.name, want, 30*time.Second); err != nil {
			e.fail("C01", "C01.converges", "no-convergence/"+ns.name, map[string]any{"error": err.Error()})
			return
		}
	}
	ref, _ := e.refs.Load(keyOf(want))
	for _, ns := range e.nodes {
		e.eval(4)
		ns.mu.Lock()
		dir := ns.cn.DBDir(e.name)
		im, err := sim.StableDiskImage(dir, e.cfg.Layout.PageSize)
		if err != nil {
			core.Infra("disk image: %v", err)
		}
		if ref != nil {
			if ok, why := im.Equal(ref.(sim.Image), e.cfg.Layout.LockPgno()); !ok {
				e.fail("C01", "C01.byte-identical-after-convergence", "image-differs-at-quiescence/"+ns.name, map[string]any{"why": why, "pos": want.String()})
			}
		}
		if got := im.Checksum(e.cfg.Layout.LockPgno()); got != uint64(want.PostApplyChecksum) {
			e.fail("C04", "C04.reported-equals-from-scratch", "checksum-at-quiescence/"+ns.name, map[string]any{"reported": want.String(), "from_scratch": fmt.Sprintf("%016x", got)})
		}
		// C09 chain on every node
		files, other := sim.ListLTX(dir)
		for _, o := range other {
			if !strings.HasSuffix(o, ".tmp") {
				e.fail("C09", "C09.only-transaction-files", "stray-file/"+ns.name, map[string]any{"name": o})
			}
		}
		for i, f := range files {
			if f.Err != "" {
				e.fail("C09", "C09.file-verifies", "ltx-invalid/"+ns.name, map[string]any{"file": f.Name, "error": f.Err})
			} else if i > 0 && (f.Min != files[i-1].Max+1 || f.Pre != files[i-1].Post) {
				e.fail("C09", "C09.contiguous", "chain-gap/"+ns.name, map[string]any{"prev": files[i-1].Name, "next": f.Name})
			}
		}
		if n := len(files); n == 0 || files[n-1].Max != uint64(want.TXID) || files[n-1].Post != uint64(want.PostApplyChecksum) {
			e.fail("C09", "C09.ends-at-position", "chain-end/"+ns.name, map[string]any{"files": len(files), "pos": want.String()})
		}
		if uint64(want.PostApplyChecksum) == emptyChk {
			e.checkDropped(ns, "replica")
		}
		ns.mu.Unlock()
	}
	e.fmu.Lock()
	clean := len(e.res.Fails) == 0
	e.fmu.Unlock()
	if clean {
		e.afterRestart(want, ref)
		if uint64(want.PostApplyChecksum) == emptyChk {
			for _, ns := range e.nodes {
				e.checkDropped(ns, "restarted")
			}
		}
	}
}

// afterRestart: every node is stopped and started again on its data directory; it must come back at
// the position it had, with the same bytes (a node that was brought back onto the primary's history by
// a snapshot must not fall off it again).
func (e *engine) afterRestart(want ltx.Pos, ref any) {
	for _, name := range []string{"n3", "n2", "n1"} {
		ns := e.nodes[name]
		ns.mu.Lock()
		if e.cl.Lease.Holder() == ns.cn.URL {
			e.cl.Lease.AllowOnly()
		}
		e.cl.Stop(name)
		err := e.startNode(name)
		ns.mu.Unlock()
		e.eval(3)
		if err != nil {
			e.fail("C05", "C05.restart-succeeds", "restart-after-convergence-fails/"+name, map[string]any{"error": err.Error()})
			continue
		}
		db := ns.cn.Store.DB(e.name)
		if db == nil || db.Pos() != want {
			got := "none"
			if db != nil {
				got = db.Pos().String()
			}
			if uint64(want.PostApplyChecksum) == emptyChk {
				// the position of a dropped database (N+1, empty) is what lets a recreation continue the log
				e.fail("C15", "C15.drop-survives-restart", "dropped-position-lost-by-restart/"+name, map[string]any{"got": got, "want": want.String()})
				continue
			}
			e.fail("C06", "C06.ends-identical-to-primary", "position-after-restart/"+name, map[string]any{"got": got, "want": want.String()})
			continue
		}
		im, _ := sim.StableDiskImage(ns.cn.DBDir(e.name), e.cfg.Layout.PageSize)
		if ref != nil {
			if ok, why := im.Equal(ref.(sim.Image), e.cfg.Layout.LockPgno()); !ok {
				e.fail("C06", "C06.ends-identical-to-primary", "image-after-restart/"+name, map[string]any{"why": why})
			}
		}
	}
}

func mustJSON(v any) string { b, _ := json.Marshal(v); return string(b) }
