package repl

import (
	"bytes"
	"context"
	"fmt"
	"io"
	"os"
	"path/filepath"
	"strings"
	"sync"
	"sync/atomic"
	"time"

	"github.com/superfly/litefs"
	lhttp "github.com/superfly/litefs/http"
	"github.com/superfly/litefs/internal/chunk"
	"github.com/superfly/litefs/verifharness/core"
	"github.com/superfly/litefs/verifharness/sim"
	"github.com/superfly/ltx"
)

// Offered files (C06, second clause): "any transaction file that does not extend a node's exact
// current (ID, checksum) is rejected without modifying that node's database or position".
// A source primary produces a real chain f1..f4, a second primary a forked chain g1..g3. A victim
// replica is fed f1, f2 and then one bad file through a harness-controlled stream; a victim primary at
// position 2 gets the same bad file on its /tx endpoint.

type offered struct {
	name string
	data []byte
}

func commitN(node *sim.Node, l sim.Layout, n int, vbase int) ([][]byte, error) {
	c := node.Connect("db", 11)
	defer c.Close()
	pg := sim.NewPager(c, l, sim.PagerOpts{Sector: 512, Busy: 5 * time.Second})
	var out [][]byte
	for v := 1; v <= n; v++ {
		pl := sim.Plan{Kind: "j", Ns: 2, M: []int{1, 2}, Out: "commit", Fin: "DELETE", V: vbase + v}
		if v > 1 {
			pl.M = []int{1, 1 + v%2}
			if pl.M[1] == 1 {
				pl.M = []int{1}
			}
		}
		err := firstErr(func() error { return pg.BeginJ(pl) }, pg.JCreate, pg.JSync)
		for _, q := range pl.M {
			if err == nil {
				err = pg.JPage(q)
			}
		}
		if err == nil {
			err = pg.JFinal()
		}
		pg.EndJ()
		if err != nil {
			return nil, err
		}
		b, err := os.ReadFile(filepath.Join(node.DBDir("db"), "ltx", ltx.FormatFilename(ltx.TXID(v), ltx.TXID(v))))
		if err != nil {
			return nil, err
		}
		out = append(out, b)
	}
	return out, nil
}

// scriptedClient serves a fixed sequence of frames once, then refuses connections.
type scriptedClient struct {
	mu      sync.Mutex
	payload []byte
	served  atomic.Int32
	cluster string
}

type scriptedStream struct {
	io.Reader
	cluster string
}

func (s *scriptedStream) Close() error      { return nil }
func (s *scriptedStream) ClusterID() string { return s.cluster }

func (c *scriptedClient) AcquireHaltLock(ctx context.Context, primaryURL string, nodeID uint64, name string, lockID int64) (*litefs.HaltLock, error) {
	return nil, fmt.Errorf("not supported")
}
func (c *scriptedClient) ReleaseHaltLock(ctx context.Context, primaryURL string, nodeID uint64, name string, lockID int64) error {
	return nil
}
func (c *scriptedClient) Commit(ctx context.Context, primaryURL string, nodeID uint64, name string, lockID int64, r io.Reader) error {
	return fmt.Errorf("not supported")
}
func (c *scriptedClient) Stream(ctx context.Context, primaryURL string, nodeID uint64, posMap map[string]ltx.Pos, filter []string) (litefs.Stream, error) {
	if c.served.Add(1) > 1 {
		return nil, fmt.Errorf("scripted primary is gone")
	}
	return &scriptedStream{Reader: bytes.NewReader(c.payload), cluster: c.cluster}, nil
}

// reencodeLTX returns the transaction file with its header changed by fn and the trailer recomputed,
// so that the file is well formed and only its claimed position differs.
func reencodeLTX(data []byte, fn func(*ltx.Header)) []byte {
	dec := ltx.NewDecoder(bytes.NewReader(data))
	if err := dec.DecodeHeader(); err != nil {
		core.Infra("offered: decode: %v", err)
	}
	hdr := dec.Header()
	var out bytes.Buffer
	enc := ltx.NewEncoder(&out)
	nh := hdr
	fn(&nh)
	if err := enc.EncodeHeader(nh); err != nil {
		core.Infra("offered: encode header: %v", err)
	}
	buf := make([]byte, hdr.PageSize)
	for {
		var ph ltx.PageHeader
		if err := dec.DecodePage(&ph, buf); err == io.EOF {
			break
		} else if err != nil {
			core.Infra("offered: decode page: %v", err)
		}
		if err := enc.EncodePage(ph, buf); err != nil {
			core.Infra("offered: encode page: %v", err)
		}
	}
	if err := dec.Close(); err != nil {
		core.Infra("offered: decode close: %v", err)
	}
	enc.SetPostApplyChecksum(dec.Trailer().PostApplyChecksum)
	if err := enc.Close(); err != nil {
		core.Infra("offered: encode close: %v", err)
	}
	return out.Bytes()
}

func frameLTX(buf *bytes.Buffer, name string, data []byte) {
	_ = litefs.WriteStreamFrame(buf, &litefs.LTXStreamFrame{Name: name})
	cw := chunk.NewWriter(buf)
	_, _ = cw.Write(data)
	_ = cw.Close()
}

type nodeFacts struct {
	pos   ltx.Pos
	image string
	files string
}

func facts(n *sim.Node, l sim.Layout) nodeFacts {
	var f nodeFacts
	if db := n.Store.DB("db"); db != nil {
		f.pos = db.Pos()
	}
	im, _ := sim.StableDiskImage(n.DBDir("db"), l.PageSize)
	f.image = fmt.Sprintf("%d:%016x", im.N, im.Checksum(l.LockPgno()))
	ents, _ := os.ReadDir(filepath.Join(n.DBDir("db"), "ltx"))
	for _, e := range ents {
		if fi, err := e.Info(); err == nil {
			f.files += fmt.Sprintf("%s:%d;", e.Name(), fi.Size())
		}
	}
	return f
}

const offeredCluster = "LFSC0123456789ABCDEF"

// OfferedFiles runs the offered-files generator and records C06 violations.
func OfferedFiles(rep *core.Report, args *core.Args) {
	l := sim.L0(512)
	if args.Seed%2 == 0 {
		l = sim.L1(512)
	}
	base := core.Scratch("offered")
	mk := func(name string) *sim.Node {
		d := filepath.Join(base, name)
		_ = os.MkdirAll(d, 0o777)
		_ = os.WriteFile(filepath.Join(d, "clusterid"), []byte(offeredCluster+"\n"), 0o666)
		n, err := sim.OpenNode(sim.NodeOpts{Dir: d, Primary: true})
		if err != nil {
			core.Infra("offered: open %s: %v", name, err)
		}
		return n
	}
	src, fork := mk("src"), mk("fork")
	f, err := commitN(src, l, 4, 0)
	if err != nil {
		core.Infra("offered: source chain: %v", err)
	}
	g, err := commitN(fork, l, 3, 40)
	if err != nil {
		core.Infra("offered: fork chain: %v", err)
	}
	src.Close()
	fork.Close()
	corrupt := append([]byte(nil), f[2]...)
	corrupt[len(corrupt)/2] ^= 0x5a
	bad := []offered{
		{"gap-min-txid-4-at-2", f[3]},
		{"fork-wrong-pre-checksum", g[2]},
		{"duplicate-txid-2", f[1]},
		{"older-txid-1-snapshot-of-fork", nil}, // not offered on the stream (a snapshot from the primary legitimately replaces)
		// ... but the forwarding endpoint takes transactions of a halt-lock holder, which writes from the primary's
		// position on: a file that starts the log again (TXID 1) does not extend position 2
		{"tx-only:txid-1-file-of-another-history-at-2", g[0]},
		{"truncated-body", f[2][:len(f[2])-37]},
		{"corrupt-body", corrupt},
		{"garbage", bytes.Repeat([]byte{0xA7}, 300)},
		// exactly one coordinate of the position is wrong: the right pre-apply checksum under a
		// TXID that skips ahead, and (the fork file above) the right TXID under a foreign checksum
		{"right-checksum-txid-5-at-2", reencodeLTX(f[2], func(h *ltx.Header) { h.MinTXID, h.MaxTXID = 5, 5 })},
		{"right-checksum-txid-2-at-2", reencodeLTX(f[2], func(h *ltx.Header) { h.MinTXID, h.MaxTXID = 2, 2 })},
	}
	for _, b := range bad {
		if b.data == nil {
			continue
		}
		core.Beat("real:offered:" + b.name)
		txOnly := strings.HasPrefix(b.name, "tx-only:")
		// ---- (i) replica fed through a harness-controlled stream ----
		if !txOnly {
			var buf bytes.Buffer
			frameLTX(&buf, "db", f[0])
			frameLTX(&buf, "db", f[1])
			okLen := buf.Len()
			_ = okLen
			sc := &scriptedClient{cluster: offeredCluster}
			d := filepath.Join(base, "victim-replica-"+b.name)
			_ = os.MkdirAll(d, 0o777)
			_ = os.WriteFile(filepath.Join(d, "clusterid"), []byte(offeredCluster+"\n"), 0o666)
			// first stream: the two good files, so that the victim stands at position 2
			sc.payload = buf.Bytes()
			victim, err := sim.OpenNode(sim.NodeOpts{Dir: d, Primary: false, PrimaryURL: "http://scripted.invalid", Client: sc})
			if err != nil {
				core.Infra("offered: open victim: %v", err)
			}
			want := ltx.Pos{}
			deadline := time.Now().Add(20 * time.Second)
			for time.Now().Before(deadline) {
				if db := victim.Store.DB("db"); db != nil && db.Pos().TXID == 2 {
					want = db.Pos()
					break
				}
				time.Sleep(time.Millisecond)
			}
			if want.TXID != 2 {
				victim.Close()
				core.Infra("offered: victim replica did not reach TXID 2")
			}
			before := facts(victim, l)
			// second stream: the bad file
			var buf2 bytes.Buffer
			frameLTX(&buf2, "db", b.data)
			sc.mu.Lock()
			sc.payload = buf2.Bytes()
			sc.mu.Unlock()
			sc.served.Store(0)
			// wait until the stream was consumed and the node asked for a new one (or exited)
			deadline = time.Now().Add(20 * time.Second)
			for time.Now().Before(deadline) && sc.served.Load() < 2 && len(victim.Exits()) == 0 {
				time.Sleep(time.Millisecond)
			}
			time.Sleep(5 * time.Millisecond)
			after := facts(victim, l)
			rep.Eval(3)
			rep.Case("offered/stream/"+b.name, true)
			rep.TracesValidated++
			detail := map[string]any{"file": b.name, "before": fmt.Sprintf("%+v", before), "after": fmt.Sprintf("%+v", after), "exits": victim.Exits()}
			if after.pos != before.pos {
				rep.Violate("C06.rejected-file-leaves-position", "offered/stream/"+b.name+"/position", detail, nil)
			}
			if after.image != before.image {
				rep.Violate("C06.rejected-file-leaves-database", "offered/stream/"+b.name+"/database", detail, nil)
			}
			if after.files != before.files {
				rep.Violate("C06.rejected-file-leaves-log", "offered/stream/"+b.name+"/log", detail, nil)
			}
			_ = core.Try(victim.Close)
		}

		// ---- (ii) the same file offered to a primary's /tx endpoint ----
		pd := filepath.Join(base, "victim-primary-"+b.name)
		_ = os.MkdirAll(pd, 0o777)
		_ = os.WriteFile(filepath.Join(pd, "clusterid"), []byte(offeredCluster+"\n"), 0o666)
		var srv *lhttp.Server
		prim, err := sim.OpenNode(sim.NodeOpts{Dir: pd, Primary: true, Configure: func(s *litefs.Store) {
			srv = lhttp.NewServer(s, "127.0.0.1:0")
			if err := srv.Listen(); err != nil {
				core.Infra("offered: listen: %v", err)
			}
		}})
		if err != nil {
			core.Infra("offered: open primary: %v", err)
		}
		srv.Serve()
		if _, err := commitN(prim, l, 2, 0); err != nil {
			core.Infra("offered: primary chain: %v", err)
		}
		// the forwarding endpoint only listens to the holder of the halt lock: take it first, so
		// that the offered file reaches the position check rather than the holder check
		if _, herr := lhttp.NewClient().AcquireHaltLock(context.Background(), srv.URL(), 12345, "db", 999); herr != nil {
			core.Infra("offered: halt lock: %v", herr)
		}
		pbefore := facts(prim, l)
		cerr := lhttp.NewClient().Commit(context.Background(), srv.URL(), 12345, "db", 999, bytes.NewReader(b.data))
		pafter := facts(prim, l)
		rep.Eval(3)
		rep.Case("offered/tx/"+b.name, true)
		rep.TracesValidated++
		pdetail := map[string]any{"file": b.name, "before": fmt.Sprintf("%+v", pbefore), "after": fmt.Sprintf("%+v", pafter), "response_error": fmt.Sprint(cerr), "exits": prim.Exits()}
		if pafter.pos != pbefore.pos || pafter.image != pbefore.image || pafter.files != pbefore.files || len(prim.Exits()) > 0 {
			rep.Violate("C06.rejected-file-leaves-node", "offered/tx/"+b.name, pdetail, nil)
		}
		_ = srv.Close()
		_ = core.Try(prim.Close)
	}
	core.Beat("harness")
	rep.Extra["offered_files"] = len(bad) - 1
}
