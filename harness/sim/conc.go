package sim

import (
	"bytes"
	"encoding/binary"
	"fmt"
	"hash/crc64"
	"io"
	"os"
	"path/filepath"
	"sort"
	"time"

	"github.com/superfly/ltx"
)

// Content is a model page content: version, and for page 1 the database size in MODEL pages and
// the journal-mode flag of the SQLite header.
type Content struct {
	V   int  `json:"v"`
	Sz  int  `json:"sz"`
	Wal bool `json:"wal"`
	// Z: a page of zero bytes (SQLite extended the file over a page it never wrote)
	Z bool `json:"z,omitempty"`
}

// Layout maps model pages to real pages (DESIGN 3.2). Real pages that are not the image of a model
// page are fillers with fixed content.
type Layout struct {
	Name     string
	PageSize uint32
	Map      []uint32 // Map[p] = real page of model page p (Map[0] unused, Map[0]=0)
}

// L0 is the identity layout.
func L0(pageSize uint32) Layout {
	return Layout{Name: "L0", PageSize: pageSize, Map: []uint32{0, 1, 2, 3, 4, 5, 6, 7, 8}}
}

// L1 straddles LiteFS's 256-page checksum blocks: model blocks {1,2},{3,4},{5,..}.
func L1(pageSize uint32) Layout {
	return Layout{Name: "L1", PageSize: pageSize, Map: []uint32{0, 1, 256, 257, 512, 513, 768, 769, 1024}}
}

// L2 puts a size change of one model page next to a block boundary: sizes 2 and 3 are 257 and 258
// real pages (a shrink by exactly one page inside block 1, whose first page is model page 2).
func L2(pageSize uint32) Layout {
	return Layout{Name: "L2", PageSize: pageSize, Map: []uint32{0, 1, 257, 258, 259, 513, 514, 770, 771}}
}

// L3 makes a model page the LAST page of a checksum block with another model page earlier in the same
// block: model pages 2 and 3 are real pages 257 and 512 (block 1), 4 and 5 are 513 and 768 (block 2).
func L3(pageSize uint32) Layout {
	return Layout{Name: "L3", PageSize: pageSize, Map: []uint32{0, 1, 257, 512, 513, 768, 769, 1024, 1025}}
}

// L4 contains SQLite's lock page (page size 65536: page 16385): model pages 2, 3, 4 are real pages
// 16384, 16385 (the lock page itself, never written) and 16386. A database of two model pages is 1 GiB.
func L4() Layout {
	return Layout{Name: "L4", PageSize: 65536, Map: []uint32{0, 1, 16384, 16385, 16386, 16641}}
}

// Real returns the real page number of model page p (0 -> 0).
func (l Layout) Real(p int) uint32 {
	if p <= 0 {
		return 0
	}
	return l.Map[p]
}

// Model returns the model page of real page r, or 0 if r is a filler.
func (l Layout) Model(r uint32) int {
	for p := 1; p < len(l.Map); p++ {
		if l.Map[p] == r {
			return p
		}
	}
	return 0
}

// LockPgno is SQLite's lock page for the layout's page size.
func (l Layout) LockPgno() uint32 { return uint32(0x40000000/int64(l.PageSize)) + 1 }

const dbMagic = "SQLite format 3\x00"

func prng(seed uint64, b []byte) {
	x := seed*0x9E3779B97F4A7C15 + 0x1234567
	for i := 0; i+8 <= len(b); i += 8 {
		x ^= x << 13
		x ^= x >> 7
		x ^= x << 17
		binary.LittleEndian.PutUint64(b[i:], x)
	}
}

// PageBytes concretises a model content for real page r. Fillers use Content{V:0}.
func (l Layout) PageBytes(r uint32, c Content) []byte {
	b := make([]byte, l.PageSize)
	if c.Z {
		return b
	}
	prng(uint64(r)<<20^uint64(c.V+1), b)
	if r == 1 {
		copy(b, dbMagic)
		ps := l.PageSize
		if ps == 65536 {
			ps = 1
		}
		binary.BigEndian.PutUint16(b[16:], uint16(ps))
		ver := byte(1)
		if c.Wal {
			ver = 2
		}
		b[18], b[19] = ver, ver
		b[20], b[21], b[22], b[23] = 0, 64, 32, 32
		binary.BigEndian.PutUint32(b[24:], uint32(c.V))            // change counter
		binary.BigEndian.PutUint32(b[28:], l.Real(c.Sz))           // size in (real) pages
		binary.BigEndian.PutUint32(b[40:], uint32(c.V))            // schema cookie
		binary.BigEndian.PutUint32(b[92:], uint32(c.V))            // version-valid-for
		binary.BigEndian.PutUint32(b[96:], 3039000)                // sqlite version
		binary.BigEndian.PutUint32(b[100:], uint32(c.Sz)|0xA5<<24) // model size, for decoding
		return b
	}
	copy(b, "VPAG")
	binary.BigEndian.PutUint32(b[4:], r)
	binary.BigEndian.PutUint32(b[8:], uint32(c.V))
	return b
}

// DecodePage maps real bytes back to a model content; ok=false means the bytes are not any version
// this harness ever wrote for that page (corrupt / mixed).
func (l Layout) DecodePage(r uint32, b []byte) (Content, bool) {
	if uint32(len(b)) != l.PageSize {
		return Content{}, false
	}
	var c Content
	if r != 1 && isZero(b) {
		return Content{Z: true}, true
	}
	if r == 1 {
		if !bytes.HasPrefix(b, []byte(dbMagic)) {
			return c, false
		}
		c.V = int(binary.BigEndian.Uint32(b[24:]))
		c.Wal = b[18] == 2
		c.Sz = int(binary.BigEndian.Uint32(b[100:]) & 0xffffff)
	} else {
		if string(b[:4]) != "VPAG" || binary.BigEndian.Uint32(b[4:]) != r {
			return c, false
		}
		c.V = int(binary.BigEndian.Uint32(b[8:]))
	}
	if !bytes.Equal(l.PageBytes(r, c), b) {
		return c, false
	}
	return c, true
}

func isZero(b []byte) bool {
	for _, x := range b {
		if x != 0 {
			return false
		}
	}
	return true
}

// Image is a concrete database image: real page number -> bytes, plus size in real pages.
type Image struct {
	N     uint32
	Pages map[uint32][]byte
}

// Clone copies the image.
func (im Image) Clone() Image {
	o := Image{N: im.N, Pages: make(map[uint32][]byte, len(im.Pages))}
	for k, v := range im.Pages {
		o.Pages[k] = v
	}
	return o
}

// Equal compares two images ignoring the lock page.
func (im Image) Equal(o Image, lock uint32) (bool, string) {
	if im.N != o.N {
		return false, fmt.Sprintf("size %d <> %d", im.N, o.N)
	}
	for p := uint32(1); p <= im.N; p++ {
		if p == lock {
			continue
		}
		if !bytes.Equal(im.Pages[p], o.Pages[p]) {
			return false, fmt.Sprintf("page %d differs", p)
		}
	}
	return true, ""
}

// ImageOf builds the concrete image of a model image (sequence of contents; index 0 = page 1).
func (l Layout) ImageOf(model []Content) Image {
	im := Image{Pages: map[uint32][]byte{}}
	if len(model) == 0 {
		return im
	}
	im.N = l.Real(len(model))
	for r := uint32(1); r <= im.N; r++ {
		if p := l.Model(r); p != 0 {
			im.Pages[r] = l.PageBytes(r, model[p-1])
		} else {
			im.Pages[r] = l.PageBytes(r, Content{})
		}
	}
	return im
}

// ModelOf maps a concrete image back to model contents; bad lists real pages that do not decode.
func (l Layout) ModelOf(im Image) (model []Content, bad []uint32) {
	n := 0
	for p := 1; p < len(l.Map); p++ {
		if l.Map[p] <= im.N {
			n = p
		}
	}
	model = make([]Content, n)
	for r := uint32(1); r <= im.N; r++ {
		if r == l.LockPgno() {
			continue
		}
		c, ok := l.DecodePage(r, im.Pages[r])
		if !ok {
			bad = append(bad, r)
			continue
		}
		if p := l.Model(r); p != 0 {
			model[p-1] = c
		} else if c.V != 0 {
			bad = append(bad, r)
		}
	}
	return model, bad
}

var crcTable = crc64.MakeTable(crc64.ISO)

// ChecksumFlag is the top bit every LiteFS checksum carries.
const ChecksumFlag = uint64(1) << 63

// PageChecksum is CRC64-ISO(be32(pgno) || page) with the top bit set, computed with hash/crc64 only.
func PageChecksum(pgno uint32, data []byte) uint64 {
	h := crc64.New(crcTable)
	var b [4]byte
	binary.BigEndian.PutUint32(b[:], pgno)
	_, _ = h.Write(b[:])
	_, _ = h.Write(data)
	return ChecksumFlag | h.Sum64()
}

// Checksum recomputes the database checksum of an image from nothing.
func (im Image) Checksum(lock uint32) uint64 {
	var c uint64
	for p := uint32(1); p <= im.N; p++ {
		if p == lock {
			continue
		}
		c ^= PageChecksum(p, im.Pages[p])
	}
	return ChecksumFlag | c
}

// LTXFile is a decoded transaction file.
type LTXFile struct {
	Name    string
	Min     uint64
	Max     uint64
	Pre     uint64
	Post    uint64
	Commit  uint32
	PgSize  uint32
	NodeID  uint64
	WALOff  int64
	WALSize int64
	Salt1   uint32
	Salt2   uint32
	Flags   uint32
	Pages   map[uint32][]byte
	Order   []uint32
	Err     string // verification / decode error, "" if the file verifies
}

// ReadLTX decodes and verifies one LTX file.
func ReadLTX(path string) *LTXFile {
	out := &LTXFile{Name: filepath.Base(path), Pages: map[uint32][]byte{}}
	b, err := os.ReadFile(path)
	if err != nil {
		out.Err = err.Error()
		return out
	}
	if err := ltx.NewDecoder(bytes.NewReader(b)).Verify(); err != nil {
		out.Err = "verify: " + err.Error()
	}
	dec := ltx.NewDecoder(bytes.NewReader(b))
	if err := dec.DecodeHeader(); err != nil {
		out.Err = "header: " + err.Error()
		return out
	}
	h := dec.Header()
	out.Min, out.Max, out.Pre, out.Commit, out.PgSize = uint64(h.MinTXID), uint64(h.MaxTXID), uint64(h.PreApplyChecksum), h.Commit, h.PageSize
	out.NodeID, out.WALOff, out.WALSize, out.Salt1, out.Salt2, out.Flags = h.NodeID, h.WALOffset, h.WALSize, h.WALSalt1, h.WALSalt2, h.Flags
	buf := make([]byte, h.PageSize)
	for {
		var ph ltx.PageHeader
		if err := dec.DecodePage(&ph, buf); err == io.EOF {
			break
		} else if err != nil {
			if out.Err == "" {
				out.Err = "page: " + err.Error()
			}
			return out
		}
		out.Pages[ph.Pgno] = append([]byte(nil), buf...)
		out.Order = append(out.Order, ph.Pgno)
	}
	if err := dec.Close(); err != nil && out.Err == "" {
		out.Err = "close: " + err.Error()
	}
	out.Post = uint64(dec.Trailer().PostApplyChecksum)
	return out
}

// Apply applies the file to an image (reference semantics of an LTX file).
func (f *LTXFile) Apply(im Image) Image {
	o := Image{N: f.Commit, Pages: map[uint32][]byte{}}
	for p := uint32(1); p <= f.Commit; p++ {
		if b, ok := f.Pages[p]; ok {
			o.Pages[p] = b
		} else if b, ok := im.Pages[p]; ok && p <= im.N {
			o.Pages[p] = b
		}
	}
	return o
}

// ListLTX returns the decoded LTX files of a database directory sorted by name, and the names in
// the ltx directory that do not parse as transaction files.
func ListLTX(dbDir string) (files []*LTXFile, other []string) {
	ents, err := os.ReadDir(filepath.Join(dbDir, "ltx"))
	if err != nil {
		return nil, nil
	}
	var names []string
	for _, e := range ents {
		if _, _, err := ltx.ParseFilename(e.Name()); err != nil {
			other = append(other, e.Name())
			continue
		}
		names = append(names, e.Name())
	}
	sort.Strings(names)
	for _, n := range names {
		files = append(files, ReadLTX(filepath.Join(dbDir, "ltx", n)))
	}
	return files, other
}

// ChainProblems checks the transaction log of a database directory: every file verifies, files are
// contiguous by TXID and linked by checksum, only transaction files (and *.tmp leftovers) exist, and the
// chain ends at the given position (wantTXID 0 = do not check the end).
func ChainProblems(dbDir string, wantTXID, wantChk uint64) []string {
	var out []string
	files, other := ListLTX(dbDir)
	for _, o := range other {
		if filepath.Ext(o) != ".tmp" {
			out = append(out, "stray file "+o)
		}
	}
	for i, f := range files {
		if f.Err != "" {
			out = append(out, fmt.Sprintf("%s does not verify: %s", f.Name, f.Err))
			continue
		}
		if i > 0 && files[i-1].Err == "" && (f.Min != files[i-1].Max+1 || f.Pre != files[i-1].Post) {
			out = append(out, fmt.Sprintf("%s does not continue %s", f.Name, files[i-1].Name))
		}
	}
	if wantTXID != 0 {
		if n := len(files); n == 0 {
			out = append(out, "no transaction file although the position is not zero")
		} else if files[n-1].Max != wantTXID || (files[n-1].Err == "" && files[n-1].Post != wantChk) {
			out = append(out, fmt.Sprintf("log ends at %s, position is %016x/%016x", files[n-1].Name, wantTXID, wantChk))
		}
	}
	return out
}

// StableDiskImage reads the image of a LIVE node's database directory until two consecutive readings
// agree. LiteFS's own goroutines (the checkpoint after a role change, recovery at halt release) may be
// moving frames from the log into the database file at that moment; a reading that sees the file before
// and the log after such a step is torn by the reader, not a state of the node.
func StableDiskImage(dir string, pageSize uint32) (Image, error) {
	prev, err := DiskImage(dir, pageSize)
	for i := 0; i < 100; i++ {
		time.Sleep(3 * time.Millisecond)
		cur, cerr := DiskImage(dir, pageSize)
		if cerr == nil && err == nil {
			if ok, _ := cur.Equal(prev, 0); ok {
				return cur, nil
			}
		}
		prev, err = cur, cerr
	}
	return prev, err
}

// SQLiteView is the image a SQLite connection would read on a node whose wal-index LiteFS wrote last
// (a replica after an apply: DB.updateSHM resets the header, mxFrame = 0): the database file overlaid by
// the first mxFrame frames of the log, mxFrame taken from the wal-index header in the shm file. ok=false
// when there is no initialised wal-index (then SQLite would recover the log itself: use DiskImage).
func SQLiteView(dbDir string, pageSize uint32) (im Image, ok bool, err error) {
	b, rerr := os.ReadFile(filepath.Join(dbDir, "shm"))
	if rerr != nil || len(b) < 48 {
		return Image{}, false, nil
	}
	// walIndexHdr: version u32, unused u32, change u32, isInit u8, bigEndCksum u8, pageSize u16, mxFrame u32 (native order)
	if b[12] == 0 {
		return Image{}, false, nil
	}
	mx := binary.LittleEndian.Uint32(b[16:])
	im, err = DiskImageUpTo(dbDir, pageSize, int(mx))
	return im, true, err
}
