package sim

// Helpers for stages that drive SEVERAL pagers (connections) on one database: every Pager keeps its
// own copy of what SQLite keeps in the shared wal-index, so a second connection has to take that
// bookkeeping over from the connection that wrote last.

// AdoptFrom makes p see the database as q leaves it: the committed reference image and SQLite's view of
// the log (header, salts, running checksum, committed frame count, page -> frame map, committed size).
// If q is in the middle of releasing WAL_WRITE_LOCK after writing a committing transaction (the caller
// sits inside q's WEnd, e.g. in an OS hook called from the unlock handler), the transaction is complete in
// the log and p adopts the state q will have after WEnd. Must not run concurrently with q's methods.
func (p *Pager) AdoptFrom(q *Pager) {
	p.hdr, p.salt1, p.salt2 = q.hdr, q.salt1, q.salt2
	p.mx, p.ck1, p.ck2 = q.mx, q.ck1, q.ck2
	p.walPages = make(map[uint32]int, len(q.walPages)+len(q.txPages))
	for r, i := range q.walPages {
		p.walPages[r] = i
	}
	p.Ref = append([]Content(nil), q.Ref...)
	p.walSizeN = q.walSizeN
	if q.txN > 0 && q.plan.Out == "commit" {
		for r, i := range q.txPages {
			p.walPages[r] = i
		}
		p.mx += q.txN
		p.ck1, p.ck2 = q.tck1, q.tck2
		p.Ref = q.NewImage()
		p.walSizeN = p.L.Real(len(p.Ref))
	}
	p.txN, p.txPages, p.txBytes = 0, map[uint32]int{}, map[uint32][]byte{}
	p.tck1, p.tck2 = p.ck1, p.ck2
}

// SetPlan installs a transaction plan without issuing any lock request (for a connection that already
// holds the locks the transaction needs, e.g. EXCLUSIVE during PRAGMA journal_mode=DELETE).
func (p *Pager) SetPlan(pl Plan) { p.plan = pl }

// OpenFrames is the number of frames the open WAL transaction has written so far.
func (p *Pager) OpenFrames() int { return p.txN }
