package sim

import (
	"testing"
	"time"
)

func TestClusterSmoke(t *testing.T) {
	cl := NewCluster(t.TempDir())
	defer cl.Close()
	for _, n := range []string{"n1", "n2", "n3"} {
		cl.Lease.AllowOnly()
		if _, err := cl.Start(n, ClusterNodeOpts{Candidate: true}); err != nil {
			t.Fatal(err)
		}
	}
	if err := cl.Elect("n1", 10*time.Second); err != nil {
		t.Fatal(err)
	}
	p := cl.Nodes["n1"]
	c := p.Connect("db", 7)
	pg := NewPager(c, L1(512), PagerOpts{})
	for v := 1; v <= 3; v++ {
		pl := Plan{Kind: "j", Ns: 3, M: []int{1, 2, 3}, Out: "commit", Fin: "DELETE", V: v}
		if v > 1 {
			pl.M = []int{1, 2}
		}
		for _, f := range []func() error{func() error { return pg.BeginJ(pl) }, pg.JCreate, pg.JSync} {
			if err := f(); err != nil {
				t.Fatal(err)
			}
		}
		for _, q := range pl.M {
			if err := pg.JPage(q); err != nil {
				t.Fatal(err)
			}
		}
		if err := pg.JFinal(); err != nil {
			t.Fatal(err)
		}
		pg.EndJ()
	}
	want := p.Store.DB("db").Pos()
	start := time.Now()
	for _, n := range []string{"n2", "n3"} {
		if err := cl.WaitPos(n, "db", want, 10*time.Second); err != nil {
			t.Fatal(err)
		}
	}
	t.Logf("replicated to %v in %s", want, time.Since(start))
	// fail over
	if err := cl.Elect("n2", 10*time.Second); err != nil {
		t.Fatal(err)
	}
	t.Logf("n2 primary; exits n1=%v", p.Exits())
}
