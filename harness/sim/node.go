package sim

import (
	"bytes"
	"context"
	"fmt"
	"io"
	"log"
	"os"
	"path/filepath"
	"sync"
	"sync/atomic"
	"time"

	"github.com/superfly/litefs"
	lfuse "github.com/superfly/litefs/fuse"
	"github.com/superfly/litefs/internal"
	"github.com/superfly/ltx"
)

func init() {
	// LiteFS logs a lot through the standard logger; keep checks quiet unless asked.
	if os.Getenv("VERIF_LOG") == "" {
		log.SetOutput(io.Discard)
	}
}

// OSEvent is one call LiteFS made through its OS interface.
type OSEvent struct {
	Call  string // Create, Open, OpenFile, Remove, Rename, Truncate, ...
	Label string // LiteFS's own operation label, e.g. "COMMITWAL:LTX"
	Path  string
	Path2 string
}

// OSWrap wraps the real OS; Before may inject an error (returning non-nil aborts the call) and is
// the observation point for crash-point enumeration.
type OSWrap struct {
	Sys    internal.SystemOS
	Before func(ev OSEvent) error
	// Mangle, if set, may replace the handle a successful Create / Open / OpenFile returned (e.g. by
	// one whose reads or writes fail): a file that opens but then cannot be read or written.
	Mangle func(ev OSEvent, f *os.File) *os.File
}

func (o *OSWrap) mangle(call, label, path string, f *os.File, err error) (*os.File, error) {
	if err == nil && o.Mangle != nil {
		return o.Mangle(OSEvent{Call: call, Label: label, Path: path}, f), nil
	}
	return f, err
}

func (o *OSWrap) hook(call, label, path, path2 string) error {
	if o.Before != nil {
		return o.Before(OSEvent{Call: call, Label: label, Path: path, Path2: path2})
	}
	return nil
}

func (o *OSWrap) Create(op, name string) (*os.File, error) {
	if err := o.hook("Create", op, name, ""); err != nil {
		return nil, err
	}
	f, err := o.Sys.Create(op, name)
	return o.mangle("Create", op, name, f, err)
}
func (o *OSWrap) Mkdir(op, path string, perm os.FileMode) error {
	if err := o.hook("Mkdir", op, path, ""); err != nil {
		return err
	}
	return o.Sys.Mkdir(op, path, perm)
}
func (o *OSWrap) MkdirAll(op, path string, perm os.FileMode) error {
	if err := o.hook("MkdirAll", op, path, ""); err != nil {
		return err
	}
	return o.Sys.MkdirAll(op, path, perm)
}
func (o *OSWrap) Open(op, name string) (*os.File, error) {
	if err := o.hook("Open", op, name, ""); err != nil {
		return nil, err
	}
	f, err := o.Sys.Open(op, name)
	return o.mangle("Open", op, name, f, err)
}
func (o *OSWrap) OpenFile(op, name string, flag int, perm os.FileMode) (*os.File, error) {
	if err := o.hook("OpenFile", op, name, ""); err != nil {
		return nil, err
	}
	f, err := o.Sys.OpenFile(op, name, flag, perm)
	return o.mangle("OpenFile", op, name, f, err)
}
func (o *OSWrap) ReadDir(op, name string) ([]os.DirEntry, error) {
	if err := o.hook("ReadDir", op, name, ""); err != nil {
		return nil, err
	}
	return o.Sys.ReadDir(op, name)
}
func (o *OSWrap) ReadFile(op, name string) ([]byte, error) {
	if err := o.hook("ReadFile", op, name, ""); err != nil {
		return nil, err
	}
	return o.Sys.ReadFile(op, name)
}
func (o *OSWrap) Remove(op, name string) error {
	if err := o.hook("Remove", op, name, ""); err != nil {
		return err
	}
	return o.Sys.Remove(op, name)
}
func (o *OSWrap) RemoveAll(op, name string) error {
	if err := o.hook("RemoveAll", op, name, ""); err != nil {
		return err
	}
	return o.Sys.RemoveAll(op, name)
}
func (o *OSWrap) Rename(op, oldpath, newpath string) error {
	if err := o.hook("Rename", op, oldpath, newpath); err != nil {
		return err
	}
	return o.Sys.Rename(op, oldpath, newpath)
}
func (o *OSWrap) Stat(op, name string) (os.FileInfo, error) {
	if err := o.hook("Stat", op, name, ""); err != nil {
		return nil, err
	}
	return o.Sys.Stat(op, name)
}
func (o *OSWrap) Truncate(op, name string, size int64) error {
	if err := o.hook("Truncate", op, name, ""); err != nil {
		return err
	}
	return o.Sys.Truncate(op, name, size)
}
func (o *OSWrap) WriteFile(op, name string, data []byte, perm os.FileMode) error {
	if err := o.hook("WriteFile", op, name, ""); err != nil {
		return err
	}
	return o.Sys.WriteFile(op, name, data, perm)
}

// CacheSim stands in for the kernel page cache under fuse.ExplicitInvalidateData + OpenKeepCache:
// a page that was read stays cached until LiteFS invalidates it. It is the store's Invalidator.
type CacheSim struct {
	mu    sync.Mutex
	pages map[string]map[int64][]byte // db name -> offset -> cached bytes
	// OnPos is called inside every position change (DB.setPos), i.e. at LiteFS's own linearisation point.
	OnSHM func(db *litefs.DB) // called inside InvalidateSHM
	// Fail, if set, is asked before every invalidation; a non-nil error is returned to LiteFS instead
	// (the kernel refused the notification).
	Fail  func(kind string) error
	OnPos func(db *litefs.DB)
	// Eager: a reader re-reads every dropped page at the moment of the invalidation (see refill)
	Eager bool
	pos   map[string]ltx.Pos
	// Entries counts InvalidateEntry calls by name.
	Entries map[string]int
}

func newCacheSim() *CacheSim {
	return &CacheSim{pages: map[string]map[int64][]byte{}, Entries: map[string]int{}, pos: map[string]ltx.Pos{}, Eager: os.Getenv("VERIF_CACHE_LAZY") == ""}
}

func (c *CacheSim) InvalidateDB(db *litefs.DB) error {
	if f := c.Fail; f != nil {
		if err := f("db"); err != nil {
			return err
		}
	}
	c.mu.Lock()
	old := c.pages[db.Name()]
	delete(c.pages, db.Name())
	c.mu.Unlock()
	c.refill(db, old)
	return nil
}

// refill plays a reader that is faster than LiteFS: every page the kernel has just dropped is read again at
// once, from the file as it is at this moment (an application with the file open - a copy, a polling monitor,
// SQLite's header read - can always do that). When LiteFS invalidates AFTER the new bytes are in place this
// caches the new bytes; when it invalidates first and writes afterwards, the old bytes are back in the cache
// and nothing drops them again.
func (c *CacheSim) refill(db *litefs.DB, old map[int64][]byte) {
	if !c.Eager || len(old) == 0 {
		return
	}
	f, err := os.Open(db.DatabasePath())
	if err != nil {
		return
	}
	defer f.Close()
	for off, b := range old {
		nb := make([]byte, len(b))
		if n, _ := f.ReadAt(nb, off); n == len(nb) {
			c.put(db.Name(), off, nb)
		}
	}
}

// CachedPos is what an application that keeps the position file open and polls it reads: the position at the
// moment of the last invalidation of that file (zero value before the first one).
func (c *CacheSim) CachedPos(name string) (ltx.Pos, bool) {
	c.mu.Lock()
	defer c.mu.Unlock()
	p, ok := c.pos[name]
	return p, ok
}
func (c *CacheSim) InvalidateDBRange(db *litefs.DB, offset, size int64) error {
	if f := c.Fail; f != nil {
		if err := f("range"); err != nil {
			return err
		}
	}
	c.mu.Lock()
	old := map[int64][]byte{}
	for off, b := range c.pages[db.Name()] {
		if off < offset+size && offset < off+int64(len(b)) {
			old[off] = b
			delete(c.pages[db.Name()], off)
		}
	}
	c.mu.Unlock()
	c.refill(db, old)
	return nil
}

// InvalidateSHM: the kernel drops its cached pages of the -shm file. A page that a client has dirtied through its
// mapping is written back first (that is what OnSHM plays, if set).
func (c *CacheSim) InvalidateSHM(db *litefs.DB) error {
	if f := c.Fail; f != nil {
		if err := f("shm"); err != nil {
			return err
		}
	}
	if f := c.OnSHM; f != nil {
		f(db)
	}
	return nil
}
func (c *CacheSim) InvalidatePos(db *litefs.DB) error {
	if f := c.Fail; f != nil {
		if err := f("pos"); err != nil {
			return err
		}
	}
	if c.Eager {
		c.mu.Lock()
		c.pos[db.Name()] = db.Pos()
		c.mu.Unlock()
	}
	if f := c.OnPos; f != nil {
		f(db)
	}
	return nil
}
func (c *CacheSim) InvalidateEntry(name string) error {
	if f := c.Fail; f != nil {
		if err := f("entry"); err != nil {
			return err
		}
	}
	c.mu.Lock()
	c.Entries[name]++
	// Only the directory entry goes. An application that still has the database open keeps the inode - LiteFS
	// hands out the same node when the name is created again - and with it the cached pages (Eager); without
	// such an application the inode and its pages are gone.
	if !c.Eager {
		delete(c.pages, name)
	}
	c.mu.Unlock()
	return nil
}
func (c *CacheSim) InvalidateLag() error { return nil }

func (c *CacheSim) get(db string, off int64, n int) ([]byte, bool) {
	c.mu.Lock()
	defer c.mu.Unlock()
	b, ok := c.pages[db][off]
	if ok && len(b) == n {
		return b, true
	}
	return nil, false
}
func (c *CacheSim) put(db string, off int64, b []byte) {
	c.mu.Lock()
	if c.pages[db] == nil {
		c.pages[db] = map[int64][]byte{}
	}
	c.pages[db][off] = append([]byte(nil), b...)
	c.mu.Unlock()
}

// Drop forgets everything cached for a database (what a kernel does on memory pressure; always legal).
func (c *CacheSim) Drop(db string) {
	c.mu.Lock()
	delete(c.pages, db)
	c.mu.Unlock()
}

// NodeOpts configures a simulated node.
type NodeOpts struct {
	Dir        string // data directory
	Primary    bool   // static leaser: this node is the primary
	PrimaryURL string // static leaser: advertise URL of the primary
	Leaser     litefs.Leaser
	Client     litefs.Client
	Candidate  bool
	Compress   bool
	Configure  func(s *litefs.Store) // last-minute store settings before Open
	NoWait     bool                  // do not wait for primary status / ready
}

// Node is one LiteFS node without a kernel mount: a real Store plus a real fuse.FileSystem whose
// node and handle methods are called directly.
type Node struct {
	Dir   string
	Store *litefs.Store
	FS    *lfuse.FileSystem
	Root  *lfuse.RootNode
	OS    *OSWrap
	Cache *CacheSim

	exitMu sync.Mutex
	exits  []int
	closed atomic.Bool
}

// OpenNode creates the store on opts.Dir and opens it.
func OpenNode(opts NodeOpts) (*Node, error) {
	n := &Node{Dir: opts.Dir, OS: &OSWrap{}, Cache: newCacheSim()}
	s := litefs.NewStore(opts.Dir, opts.Candidate || opts.Primary)
	s.OS = n.OS
	s.Exit = func(code int) {
		n.exitMu.Lock()
		n.exits = append(n.exits, code)
		n.exitMu.Unlock()
	}
	s.Invalidator = n.Cache
	s.Compress = opts.Compress
	s.RetentionMonitorInterval = 0
	s.ReconnectDelay = 20 * time.Millisecond
	s.DemoteDelay = 50 * time.Millisecond
	if opts.Leaser != nil {
		s.Leaser = opts.Leaser
	} else {
		s.Leaser = litefs.NewStaticLeaser(opts.Primary, "node", opts.PrimaryURL)
	}
	s.Client = opts.Client
	if opts.Configure != nil {
		opts.Configure(s)
	}
	n.Store = s
	n.FS = lfuse.NewFileSystem(filepath.Join(opts.Dir, "mnt-not-mounted"), s)
	n.FS.VerifAttachNullServer()
	root, _ := n.FS.Root()
	n.Root = root.(*lfuse.RootNode)
	if err := s.Open(); err != nil {
		return nil, err
	}
	if !opts.NoWait && opts.Leaser == nil && opts.Primary {
		deadline := time.Now().Add(10 * time.Second)
		for !s.IsPrimary() {
			if time.Now().After(deadline) {
				_ = s.Close()
				return nil, fmt.Errorf("node did not become primary within 10s")
			}
			time.Sleep(200 * time.Microsecond)
		}
	}
	return n, nil
}

// Close shuts the store down.
func (n *Node) Close() {
	if n.closed.Swap(true) {
		return
	}
	done := make(chan struct{})
	go func() { _ = n.Store.Close(); close(done) }()
	select {
	case <-done:
	case <-time.After(20 * time.Second):
	}
}

// Exits returns the codes passed to Store.Exit so far.
func (n *Node) Exits() []int {
	n.exitMu.Lock()
	defer n.exitMu.Unlock()
	return append([]int(nil), n.exits...)
}

// DBDir is the on-disk directory of a database.
func (n *Node) DBDir(name string) string { return filepath.Join(n.Dir, "dbs", name) }

// Ctx is the context used for handler calls.
func Ctx() context.Context { return context.Background() }

// CopyDir copies a directory tree (used for crash-point survivors).
func CopyDir(src, dst string) error {
	return filepath.Walk(src, func(p string, fi os.FileInfo, err error) error {
		if err != nil {
			if os.IsNotExist(err) {
				return nil
			}
			return err
		}
		rel, _ := filepath.Rel(src, p)
		t := filepath.Join(dst, rel)
		if fi.IsDir() {
			return os.MkdirAll(t, 0o777)
		}
		if !fi.Mode().IsRegular() {
			return nil
		}
		b, err := os.ReadFile(p)
		if err != nil {
			if os.IsNotExist(err) {
				return nil
			}
			return err
		}
		return os.WriteFile(t, b, 0o666)
	})
}

// WarmCache: an application has the database open and has read every page of the file (what the kernel then
// keeps in its page cache); the pages a writer wrote through the mount are there already (write-through).
func (n *Node) WarmCache(name string, pageSize uint32) {
	c := n.Connect(name, 9105)
	defer c.Close()
	if err := c.OpenDB(false); err != nil {
		return
	}
	size, err := c.DBSize()
	if err != nil {
		return
	}
	ps := int64(pageSize)
	for off := int64(0); off+ps <= size; off += ps {
		_, _ = c.ReadDB(off, int(ps))
	}
}

// StalePages compares what an application reads through the mount (the simulated kernel page cache in front of
// LiteFS) with what LiteFS serves for the same page now; it returns the pages that differ.
func (n *Node) StalePages(name string, pageSize uint32, lockPgno uint32) (stale []uint32) {
	if n.Store.DB(name) == nil {
		return nil
	}
	c := n.Connect(name, 9106)
	defer c.Close()
	if err := c.OpenDB(false); err != nil {
		return nil
	}
	size, err := c.DBSize()
	if err != nil {
		return nil
	}
	ps := int64(pageSize)
	for r := uint32(1); int64(r)*ps <= size; r++ {
		if r == lockPgno {
			continue
		}
		got, err := c.ReadDB(int64(r-1)*ps, int(ps))
		if err != nil {
			continue
		}
		want, err := c.ReadDBUncached(int64(r-1)*ps, int(ps))
		if err == nil && !bytes.Equal(got, want) {
			stale = append(stale, r)
		}
	}
	return stale
}
