package sim

import (
	"fmt"
	"syscall"

	"bazil.org/fuse"
	"bazil.org/fuse/fs"
	"github.com/superfly/litefs"
	lfuse "github.com/superfly/litefs/fuse"
)

// Errno maps a handler error to the errno the kernel would hand to the application (bazil's own mapping).
func Errno(err error) syscall.Errno {
	if err == nil {
		return 0
	}
	return syscall.Errno(fuse.ToErrno(err))
}

// Conn is one simulated SQLite connection (one POSIX lock owner) on a database of a node. Every
// method is exactly one FUSE request as bazil would deliver it.
type Conn struct {
	N     *Node
	Name  string
	Owner fuse.LockOwner

	dbn *lfuse.DatabaseNode
	dbh *lfuse.DatabaseHandle
	jn  *lfuse.JournalNode
	jh  *lfuse.JournalHandle
	wn  *lfuse.WALNode
	wh  *lfuse.WALHandle
	sn  *lfuse.SHMNode
	sh  *lfuse.SHMHandle
}

// Connect returns a connection with the given lock owner (nothing is opened yet).
func (n *Node) Connect(name string, owner uint64) *Conn {
	return &Conn{N: n, Name: name, Owner: fuse.LockOwner(owner)}
}

func (c *Conn) lookup(name string) (fs.Node, error) { return c.N.Root.Lookup(Ctx(), name) }

// OpenDB opens the database file, creating it (O_CREAT) when it does not exist.
func (c *Conn) OpenDB(create bool) error {
	if c.dbh != nil {
		return nil
	}
	node, err := c.lookup(c.Name)
	if err == nil {
		dn := node.(*lfuse.DatabaseNode)
		// a dropped database keeps a node in the store but has no file
		var a fuse.Attr
		if aerr := dn.Attr(Ctx(), &a); aerr == nil {
			h, err := dn.Open(Ctx(), &fuse.OpenRequest{}, &fuse.OpenResponse{})
			if err != nil {
				return err
			}
			c.dbn, c.dbh = dn, h.(*lfuse.DatabaseHandle)
			return nil
		}
		c.N.Root.ForgetNode(dn)
	}
	if !create {
		if err == nil {
			err = syscall.ENOENT
		}
		return err
	}
	nd, h, err := c.N.Root.Create(Ctx(), &fuse.CreateRequest{Name: c.Name, Mode: 0o644}, &fuse.CreateResponse{})
	if err != nil {
		return err
	}
	c.dbn, c.dbh = nd.(*lfuse.DatabaseNode), h.(*lfuse.DatabaseHandle)
	return nil
}

// DBOpen reports whether the database handle is open.
func (c *Conn) DBOpen() bool { return c.dbh != nil }

// CloseDB flushes (drops POSIX locks) and releases the database handle.
func (c *Conn) CloseDB() {
	if c.dbh == nil {
		return
	}
	_ = c.dbh.Flush(Ctx(), &fuse.FlushRequest{LockOwner: c.Owner})
	_ = c.dbh.Release(Ctx(), &fuse.ReleaseRequest{})
	c.dbh, c.dbn = nil, nil
}

// WriteDB writes bytes at an offset of the database file.
func (c *Conn) WriteDB(off int64, data []byte) error {
	err := c.dbh.Write(Ctx(), &fuse.WriteRequest{Offset: off, Data: data, LockOwner: c.Owner}, &fuse.WriteResponse{})
	if err == nil {
		c.N.Cache.put(c.Name, off, data) // the kernel's own write-through of the page cache
	}
	return err
}

// ReadDB reads through the simulated page cache.
func (c *Conn) ReadDB(off int64, n int) ([]byte, error) {
	if b, ok := c.N.Cache.get(c.Name, off, n); ok {
		return b, nil
	}
	b, err := c.ReadDBUncached(off, n)
	if err == nil && len(b) == n {
		c.N.Cache.put(c.Name, off, b)
	}
	return b, err
}

// ReadDBUncached issues the read request to LiteFS.
func (c *Conn) ReadDBUncached(off int64, n int) ([]byte, error) {
	resp := &fuse.ReadResponse{Data: make([]byte, n)}
	err := c.dbh.Read(Ctx(), &fuse.ReadRequest{Offset: off, Size: n, LockOwner: c.Owner}, resp)
	return resp.Data, err
}

// DBSize is the size the application sees (getattr).
func (c *Conn) DBSize() (int64, error) {
	var a fuse.Attr
	if err := c.dbn.Attr(Ctx(), &a); err != nil {
		return 0, err
	}
	return int64(a.Size), nil
}

// DBAttr returns the attributes of the database node.
func (c *Conn) DBAttr() (fuse.Attr, error) {
	var a fuse.Attr
	err := c.dbn.Attr(Ctx(), &a)
	return a, err
}

// TruncateDB is ftruncate on the database file.
func (c *Conn) TruncateDB(size int64) error {
	req := &fuse.SetattrRequest{Valid: fuse.SetattrSize, Size: uint64(size)}
	err := c.dbn.Setattr(Ctx(), req, &fuse.SetattrResponse{})
	if err == nil {
		c.N.Cache.mu.Lock()
		for off := range c.N.Cache.pages[c.Name] {
			if off >= size {
				delete(c.N.Cache.pages[c.Name], off)
			}
		}
		c.N.Cache.mu.Unlock()
	}
	return err
}

// SyncDB is fsync on the database file.
func (c *Conn) SyncDB() error { return c.dbn.Fsync(Ctx(), &fuse.FsyncRequest{}) }

// RemoveDB unlinks the database file.
func (c *Conn) RemoveDB() error {
	err := c.N.Root.Remove(Ctx(), &fuse.RemoveRequest{Name: c.Name})
	if err == nil {
		c.N.Cache.Drop(c.Name)
	}
	return err
}

// LockDB issues a non-blocking fcntl lock on a byte range of the database file.
func (c *Conn) LockDB(typ fuse.LockType, start, end uint64) error {
	if typ == fuse.LockUnlock {
		return c.dbh.Unlock(Ctx(), &fuse.UnlockRequest{LockOwner: c.Owner, Lock: fuse.FileLock{Start: start, End: end, Type: typ}})
	}
	return c.dbh.Lock(Ctx(), &fuse.LockRequest{LockOwner: c.Owner, Lock: fuse.FileLock{Start: start, End: end, Type: typ}})
}

// ---- rollback journal ----

// JournalExists reports whether the journal file is visible to the application.
func (c *Conn) JournalExists() bool {
	c.N.Root.ForgetNodeByName(c.Name + "-journal")
	_, err := c.lookup(c.Name + "-journal")
	return err == nil
}

// OpenJournal opens the journal, creating it with O_CREAT|O_EXCL if it does not exist.
func (c *Conn) OpenJournal() error {
	if c.jh != nil {
		return nil
	}
	c.N.Root.ForgetNodeByName(c.Name + "-journal")
	if node, err := c.lookup(c.Name + "-journal"); err == nil {
		jn := node.(*lfuse.JournalNode)
		h, err := jn.Open(Ctx(), &fuse.OpenRequest{}, &fuse.OpenResponse{})
		if err != nil {
			return err
		}
		c.jn, c.jh = jn, h.(*lfuse.JournalHandle)
		return nil
	}
	nd, h, err := c.N.Root.Create(Ctx(), &fuse.CreateRequest{Name: c.Name + "-journal", Mode: 0o644}, &fuse.CreateResponse{})
	if err != nil {
		return err
	}
	c.jn, c.jh = nd.(*lfuse.JournalNode), h.(*lfuse.JournalHandle)
	return nil
}

// WriteJournal writes to the journal file.
func (c *Conn) WriteJournal(off int64, data []byte) error {
	return c.jh.Write(Ctx(), &fuse.WriteRequest{Offset: off, Data: data, LockOwner: c.Owner}, &fuse.WriteResponse{})
}

// ReadJournal reads from the journal file.
func (c *Conn) ReadJournal(off int64, n int) ([]byte, error) {
	resp := &fuse.ReadResponse{Data: make([]byte, n)}
	err := c.jh.Read(Ctx(), &fuse.ReadRequest{Offset: off, Size: n, LockOwner: c.Owner}, resp)
	return resp.Data, err
}

// SyncJournal is fsync on the journal.
func (c *Conn) SyncJournal() error { return c.jn.Fsync(Ctx(), &fuse.FsyncRequest{}) }

// CloseJournal releases the journal handle.
func (c *Conn) CloseJournal() {
	if c.jh != nil {
		_ = c.jh.Release(Ctx(), &fuse.ReleaseRequest{})
		c.jh, c.jn = nil, nil
	}
}

// RemoveJournal unlinks the journal (DELETE-mode finalisation).
func (c *Conn) RemoveJournal() error {
	c.CloseJournal()
	err := c.N.Root.Remove(Ctx(), &fuse.RemoveRequest{Name: c.Name + "-journal"})
	if err == nil {
		c.N.Root.ForgetNodeByName(c.Name + "-journal")
	}
	return err
}

// ChmodJournal is chmod / chown / utimes on the journal file (a SETATTR that carries no size): an operator's
// chmod -R over the mount, or SQLite's own fchown() on a journal it opens as root.
func (c *Conn) ChmodJournal() error {
	if c.jn == nil {
		return fmt.Errorf("journal not open")
	}
	return c.jn.Setattr(Ctx(), &fuse.SetattrRequest{Valid: fuse.SetattrMode, Mode: 0o640}, &fuse.SetattrResponse{})
}

// TruncateJournal is ftruncate(journal, size) (TRUNCATE-mode finalisation uses 0).
func (c *Conn) TruncateJournal(size int64) error {
	return c.jn.Setattr(Ctx(), &fuse.SetattrRequest{Valid: fuse.SetattrSize, Size: uint64(size)}, &fuse.SetattrResponse{})
}

// ---- WAL and shared memory ----

// OpenWAL opens the WAL file, creating it if needed.
func (c *Conn) OpenWAL() error {
	if c.wh != nil {
		return nil
	}
	c.N.Root.ForgetNodeByName(c.Name + "-wal")
	if node, err := c.lookup(c.Name + "-wal"); err == nil {
		wn := node.(*lfuse.WALNode)
		h, err := wn.Open(Ctx(), &fuse.OpenRequest{}, &fuse.OpenResponse{})
		if err != nil {
			return err
		}
		c.wn, c.wh = wn, h.(*lfuse.WALHandle)
		return nil
	}
	nd, h, err := c.N.Root.Create(Ctx(), &fuse.CreateRequest{Name: c.Name + "-wal", Mode: 0o644}, &fuse.CreateResponse{})
	if err != nil {
		return err
	}
	c.wn, c.wh = nd.(*lfuse.WALNode), h.(*lfuse.WALHandle)
	return nil
}

// WriteWAL writes to the WAL file.
func (c *Conn) WriteWAL(off int64, data []byte) error {
	return c.wh.Write(Ctx(), &fuse.WriteRequest{Offset: off, Data: data, LockOwner: c.Owner}, &fuse.WriteResponse{})
}

// ReadWAL reads from the WAL file.
func (c *Conn) ReadWAL(off int64, n int) ([]byte, error) {
	resp := &fuse.ReadResponse{Data: make([]byte, n)}
	err := c.wh.Read(Ctx(), &fuse.ReadRequest{Offset: off, Size: n, LockOwner: c.Owner}, resp)
	return resp.Data, err
}

// WALSize is the size of the WAL the application sees, -1 if it does not exist.
func (c *Conn) WALSize() int64 {
	if c.wn == nil {
		return -1
	}
	var a fuse.Attr
	if err := c.wn.Attr(Ctx(), &a); err != nil {
		return -1
	}
	return int64(a.Size)
}

// TruncateWAL is ftruncate on the WAL.
func (c *Conn) TruncateWAL(size int64) error {
	return c.wn.Setattr(Ctx(), &fuse.SetattrRequest{Valid: fuse.SetattrSize, Size: uint64(size)}, &fuse.SetattrResponse{})
}

// SyncWAL is fsync on the WAL.
func (c *Conn) SyncWAL() error { return c.wn.Fsync(Ctx(), &fuse.FsyncRequest{}) }

// CloseWAL releases the WAL handle.
func (c *Conn) CloseWAL() {
	if c.wh != nil {
		_ = c.wh.Release(Ctx(), &fuse.ReleaseRequest{})
		c.wh, c.wn = nil, nil
	}
}

// WALExists reports whether the WAL file exists (fresh lookup).
func (c *Conn) WALExists() bool {
	c.N.Root.ForgetNodeByName(c.Name + "-wal")
	_, err := c.lookup(c.Name + "-wal")
	return err == nil
}

// RemoveWAL unlinks the WAL.
func (c *Conn) RemoveWAL() error {
	c.CloseWAL()
	err := c.N.Root.Remove(Ctx(), &fuse.RemoveRequest{Name: c.Name + "-wal"})
	if err == nil {
		c.N.Root.ForgetNodeByName(c.Name + "-wal")
	}
	return err
}

// OpenSHM opens the shared-memory file, creating it if needed.
func (c *Conn) OpenSHM() error {
	if c.sh != nil {
		return nil
	}
	c.N.Root.ForgetNodeByName(c.Name + "-shm")
	if node, err := c.lookup(c.Name + "-shm"); err == nil {
		sn := node.(*lfuse.SHMNode)
		h, err := sn.Open(Ctx(), &fuse.OpenRequest{}, &fuse.OpenResponse{})
		if err != nil {
			return err
		}
		c.sn, c.sh = sn, h.(*lfuse.SHMHandle)
		return nil
	}
	nd, h, err := c.N.Root.Create(Ctx(), &fuse.CreateRequest{Name: c.Name + "-shm", Mode: 0o644}, &fuse.CreateResponse{})
	if err != nil {
		return err
	}
	c.sn, c.sh = nd.(*lfuse.SHMNode), h.(*lfuse.SHMHandle)
	return nil
}

// SHMOpen reports whether the shm handle is open.
func (c *Conn) SHMOpen() bool { return c.sh != nil }

// LockSHM issues a non-blocking fcntl lock on lock bytes of the shared-memory file.
func (c *Conn) LockSHM(typ fuse.LockType, start, end uint64) error {
	if typ == fuse.LockUnlock {
		return c.sh.Unlock(Ctx(), &fuse.UnlockRequest{LockOwner: c.Owner, Lock: fuse.FileLock{Start: start, End: end, Type: typ}})
	}
	return c.sh.Lock(Ctx(), &fuse.LockRequest{LockOwner: c.Owner, Lock: fuse.FileLock{Start: start, End: end, Type: typ}})
}

// WriteSHM writes to the shared-memory file.
func (c *Conn) WriteSHM(off int64, data []byte) error {
	return c.sh.Write(Ctx(), &fuse.WriteRequest{Offset: off, Data: data, LockOwner: c.Owner}, &fuse.WriteResponse{})
}

// CloseSHM flushes (drops locks, may capture a WAL transaction) and releases the shm handle.
func (c *Conn) CloseSHM() {
	if c.sh != nil {
		_ = c.sh.Flush(Ctx(), &fuse.FlushRequest{LockOwner: c.Owner})
		_ = c.sh.Release(Ctx(), &fuse.ReleaseRequest{})
		c.sh, c.sn = nil, nil
	}
}

// RemoveSHM unlinks the shared-memory file.
func (c *Conn) RemoveSHM() error {
	c.CloseSHM()
	err := c.N.Root.Remove(Ctx(), &fuse.RemoveRequest{Name: c.Name + "-shm"})
	c.N.Root.ForgetNodeByName(c.Name + "-shm")
	return err
}

// Close releases every handle.
func (c *Conn) Close() {
	c.CloseJournal()
	c.CloseWAL()
	c.CloseSHM()
	c.CloseDB()
}

// DB returns the litefs database object (nil if unknown to the store).
func (c *Conn) DB() *litefs.DB { return c.N.Store.DB(c.Name) }

// SQLite's lock byte ranges.
const (
	PendingByte  = uint64(litefs.PENDING_BYTE)
	ReservedByte = uint64(litefs.RESERVED_BYTE)
	SharedFirst  = uint64(litefs.SHARED_FIRST)
	SharedSize   = uint64(litefs.SHARED_SIZE)
)

// ErrString renders an error with its errno for logs.
func ErrString(err error) string {
	if err == nil {
		return ""
	}
	return fmt.Sprintf("%v (errno %d)", err, Errno(err))
}
