// Package sim drives real LiteFS nodes without a kernel mount.
package sim
