package sim

import (
	"encoding/binary"
	"fmt"
	"os"
	"path/filepath"
	"sort"
	"syscall"
	"time"

	"bazil.org/fuse"
)

// Plan is a transaction plan chosen by the specification (DBFile.tla BeginJ / BeginW).
type Plan struct {
	Kind   string `json:"kind"`
	Ns     int    `json:"ns"`
	M      []int  `json:"M"`
	Out    string `json:"out"`
	Fin    string `json:"fin"`
	NoSync bool   `json:"nosync"`
	Wal    bool   `json:"wal"`
	V      int    `json:"v"`
	Dup    int    `json:"dup"`
	E      []int  `json:"E"` // pages beyond the committed size that are written and then freed (never committed)
	U      []int  `json:"U"` // new pages the transaction never writes (allocated and freed again): the file grows over them
	F      []int  `json:"F"` // free-list leaves reused by the transaction: written without being journalled
}

// PagerOpts are concretisation parameters that do not enlarge the model's state space.
type PagerOpts struct {
	Busy      time.Duration // like SQLite's busy handler: retry a refused lock for this long (0 = fail at once)
	Sector    int           // journal sector size: 512 or 4096
	BigEndian bool          // WAL checksum byte order
	SplitHdr  bool          // write WAL frame headers in two partial writes
}

// Pager plays SQLite's pager: it turns the specification's environment actions into the file
// operations SQLite would issue, with real bytes, through one Conn. It keeps the reference image
// (what SQLite believes is committed) independently of LiteFS.
type Pager struct {
	C    *Conn
	L    Layout
	Opts PagerOpts
	Ref  []Content // committed reference image in model pages
	plan Plan

	// rollback journal
	jNonce uint32
	jRecs  []uint32 // real pages journalled, in order
	jOrig  map[uint32][]byte
	jOrigN uint32

	// WAL (SQLite's own view, i.e. its wal-index)
	hdr        bool
	salt1      uint32
	salt2      uint32
	ck1, ck2   uint32            // running checksum after the last committed frame
	mx         int               // committed frames
	walPages   map[uint32]int    // real page -> frame index (1-based) of its last committed version
	txN        int               // frames written by the open transaction
	tck1, tck2 uint32            // running checksum inside the open transaction
	txPages    map[uint32]int    // pages written by the open transaction
	txBytes    map[uint32][]byte // their last content
	walSizeN   uint32            // committed database size (real pages) while in WAL mode
	readLock   bool
	failed     bool  // fail_rb: the failing finalisation has been attempted
	LastWALOff int64 // offset of the first frame of the last written transaction
	LastWALLen int64
}

// NewPager creates a pager for a connection.
func NewPager(c *Conn, l Layout, o PagerOpts) *Pager {
	if o.Sector == 0 {
		o.Sector = 512
	}
	return &Pager{C: c, L: l, Opts: o, walPages: map[uint32]int{}}
}

func (p *Pager) ps() int64 { return int64(p.L.PageSize) }

// busy retries f while it is refused with EAGAIN, for at most Opts.Busy.
func (p *Pager) busy(f func() error) error {
	err := f()
	if p.Opts.Busy <= 0 {
		return err
	}
	deadline := time.Now().Add(p.Opts.Busy)
	for err != nil && Errno(err) == syscall.EAGAIN && time.Now().Before(deadline) {
		time.Sleep(200 * time.Microsecond)
		err = f()
	}
	return err
}

// RealSize is the committed database size in real pages.
func (p *Pager) RealSize() uint32 { return p.L.Real(len(p.Ref)) }

// NewContent is the content the open transaction writes to model page q.
func (p *Pager) NewContent(q int) Content {
	c := Content{V: p.plan.V}
	if q == 1 {
		c.Sz = p.plan.Ns
		c.Wal = p.plan.Wal
	}
	return c
}

func inSet(s []int, x int) bool {
	for _, v := range s {
		if v == x {
			return true
		}
	}
	return false
}

// NewImage is the reference image after the open transaction commits.
func (p *Pager) NewImage() []Content {
	out := make([]Content, p.plan.Ns)
	for q := 1; q <= p.plan.Ns; q++ {
		switch {
		case inSet(p.plan.M, q):
			out[q-1] = p.NewContent(q)
		case q <= len(p.Ref):
			out[q-1] = p.Ref[q-1]
		case inSet(p.plan.U, q):
			out[q-1] = Content{Z: true} // never written: a gap of zero bytes in the file
		}
	}
	return out
}

// ---------------------------------------------------------------- rollback journal

var journalMagic = []byte{0xd9, 0xd5, 0x05, 0xf9, 0x20, 0xa1, 0x63, 0xd7}

// BeginJ opens the database and takes SHARED then RESERVED, as a SQLite writer does.
func (p *Pager) BeginJ(pl Plan) error {
	p.plan = pl
	p.failed = false
	if err := p.C.OpenDB(true); err != nil {
		return fmt.Errorf("open db: %w", err)
	}
	if err := p.busy(func() error { return p.C.LockDB(fuse.LockRead, PendingByte, PendingByte) }); err != nil {
		return fmt.Errorf("lock pending: %w", err)
	}
	if err := p.busy(func() error { return p.C.LockDB(fuse.LockRead, SharedFirst, SharedFirst+SharedSize-1) }); err != nil {
		return fmt.Errorf("lock shared: %w", err)
	}
	if err := p.C.LockDB(fuse.LockUnlock, PendingByte, PendingByte); err != nil {
		return err
	}
	if err := p.busy(func() error { return p.C.LockDB(fuse.LockWrite, ReservedByte, ReservedByte) }); err != nil {
		return fmt.Errorf("lock reserved: %w", err)
	}
	return nil
}

func (p *Pager) journalHeader(withMagic bool, nRec uint32) []byte {
	h := make([]byte, p.Opts.Sector)
	if withMagic {
		copy(h, journalMagic)
		binary.BigEndian.PutUint32(h[8:], nRec)
	}
	binary.BigEndian.PutUint32(h[12:], p.jNonce)
	binary.BigEndian.PutUint32(h[16:], p.jOrigN)
	binary.BigEndian.PutUint32(h[20:], uint32(p.Opts.Sector))
	binary.BigEndian.PutUint32(h[24:], p.L.PageSize)
	return h
}

func journalChecksum(data []byte, nonce uint32) uint32 {
	c := nonce
	for i := len(data) - 200; i > 0; i -= 200 {
		c += uint32(data[i])
	}
	return c
}

// JCreate creates (or re-opens) the journal, writes the header and one record per pre-existing
// page the transaction is going to modify.
func (p *Pager) JCreate() error {
	if err := p.C.OpenJournal(); err != nil {
		return err
	}
	p.jNonce = uint32(0x5a5a0000 + p.plan.V)
	p.jOrigN = p.RealSize()
	p.jRecs = nil
	p.jOrig = map[uint32][]byte{}
	hdr := p.journalHeader(p.plan.NoSync, 0xffffffff)
	// SQLite writes the header in chunks of min(pageSize, sectorSize) bytes
	chunk := int(p.L.PageSize)
	if chunk > p.Opts.Sector {
		chunk = p.Opts.Sector
	}
	for off := 0; off < p.Opts.Sector; off += chunk {
		if err := p.C.WriteJournal(int64(off), hdr[:chunk]); err != nil {
			return fmt.Errorf("journal header: %w", err)
		}
	}
	off := int64(p.Opts.Sector)
	var reals []uint32
	for _, q := range p.plan.M {
		if q <= len(p.Ref) {
			reals = append(reals, p.L.Real(q))
		}
	}
	sort.Slice(reals, func(i, j int) bool { return reals[i] < reals[j] })
	for _, r := range reals {
		orig, err := p.C.ReadDB(int64(r-1)*p.ps(), int(p.ps()))
		if err != nil || int64(len(orig)) != p.ps() {
			return fmt.Errorf("read original page %d: %v (%d bytes)", r, err, len(orig))
		}
		var b4 [4]byte
		binary.BigEndian.PutUint32(b4[:], r)
		if err := p.C.WriteJournal(off, b4[:]); err != nil {
			return err
		}
		if err := p.C.WriteJournal(off+4, orig); err != nil {
			return err
		}
		binary.BigEndian.PutUint32(b4[:], journalChecksum(orig, p.jNonce))
		if err := p.C.WriteJournal(off+4+p.ps(), b4[:]); err != nil {
			return err
		}
		off += 8 + p.ps()
		p.jRecs = append(p.jRecs, r)
		p.jOrig[r] = append([]byte(nil), orig...)
	}
	return nil
}

// JSync syncs the journal, stamps magic + record count into the header, and takes EXCLUSIVE.
func (p *Pager) JSync() error {
	if err := p.C.SyncJournal(); err != nil {
		return err
	}
	if !p.plan.NoSync {
		b := make([]byte, 12)
		copy(b, journalMagic)
		binary.BigEndian.PutUint32(b[8:], uint32(len(p.jRecs)))
		if err := p.C.WriteJournal(0, b); err != nil {
			return err
		}
		if err := p.C.SyncJournal(); err != nil {
			return err
		}
	}
	if err := p.busy(func() error { return p.C.LockDB(fuse.LockWrite, PendingByte, PendingByte) }); err != nil {
		return fmt.Errorf("lock pending(w): %w", err)
	}
	if err := p.busy(func() error { return p.C.LockDB(fuse.LockWrite, SharedFirst, SharedFirst+SharedSize-1) }); err != nil {
		return fmt.Errorf("lock shared(w): %w", err)
	}
	return nil
}

func (p *Pager) fileRealSize() uint32 {
	sz, err := p.C.DBSize()
	if err != nil {
		return 0
	}
	return uint32(sz / p.ps())
}

// JPage writes the new version of model page q (and the filler pages a growing file needs before it).
func (p *Pager) JPage(q int) error {
	r := p.L.Real(q)
	if q > 1 {
		for f := p.L.Real(q-1) + 1; f < r; f++ {
			if f > p.fileRealSize() {
				if err := p.C.WriteDB(int64(f-1)*p.ps(), p.L.PageBytes(f, Content{})); err != nil {
					return fmt.Errorf("filler %d: %w", f, err)
				}
			}
		}
	}
	return p.C.WriteDB(int64(r-1)*p.ps(), p.L.PageBytes(r, p.NewContent(q)))
}

// JPageFree overwrites model page q, a free-list leaf, without journalling it (SQLite does not care
// what a free page contains): a rollback will not bring its old bytes back.
func (p *Pager) JPageFree(q int) error {
	r := p.L.Real(q)
	return p.C.WriteDB(int64(r-1)*p.ps(), p.L.PageBytes(r, Content{V: p.plan.V + 300}))
}

// JPageBeyond writes model page q although it lies beyond the size the transaction will commit
// (spilled during the transaction, freed again before the commit).
func (p *Pager) JPageBeyond(q int) error {
	r := p.L.Real(q)
	if q > 1 {
		for f := p.L.Real(q-1) + 1; f < r; f++ {
			if f > p.fileRealSize() {
				if err := p.C.WriteDB(int64(f-1)*p.ps(), p.L.PageBytes(f, Content{})); err != nil {
					return fmt.Errorf("filler %d: %w", f, err)
				}
			}
		}
	}
	return p.C.WriteDB(int64(r-1)*p.ps(), p.L.PageBytes(r, Content{V: p.plan.V + 200}))
}

// WFrameBeyond appends a (non-commit) frame for model page q that lies beyond the committed size.
func (p *Pager) WFrameBeyond(q int) error {
	r := p.L.Real(q)
	return p.writeFrame(r, p.L.PageBytes(r, Content{V: p.plan.V + 200}), 0)
}

// JRbTrunc: rollback first cuts the file back to its original size.
func (p *Pager) JRbTrunc(n int) error {
	if p.fileRealSize() > p.L.Real(n) {
		return p.C.TruncateDB(int64(p.L.Real(n)) * p.ps())
	}
	return nil
}

// JRbPage plays the original of model page q back.
func (p *Pager) JRbPage(q int) error {
	r := p.L.Real(q)
	return p.C.WriteDB(int64(r-1)*p.ps(), p.jOrig[r])
}

// JFinal finalises the journal in the plan's mode. On success of a committing plan the reference
// image becomes the new image.
func (p *Pager) JFinal() error {
	var err error
	if p.plan.Out == "commit" || (p.plan.Out == "fail_rb" && !p.failed) {
		if e := p.C.SyncDB(); e != nil {
			return e
		}
	}
	if p.plan.Out == "fail_rb" {
		p.failed = true // the first finalisation is the one that fails; the second ends the rollback
	}
	switch p.plan.Fin {
	case "DELETE":
		err = p.C.RemoveJournal()
	case "TRUNCATE":
		err = p.C.TruncateJournal(0)
	case "PERSIST":
		err = p.C.WriteJournal(0, make([]byte, 28))
		if err == nil {
			err = p.C.SyncJournal()
		}
	default:
		return fmt.Errorf("unknown finalisation %q", p.plan.Fin)
	}
	if err != nil {
		return err
	}
	if p.plan.Out == "commit" {
		p.Ref = p.NewImage()
	} else if p.plan.Out == "rb_spill" && len(p.plan.F) > 0 {
		ref := append([]Content(nil), p.Ref...)
		for _, q := range p.plan.F {
			if q >= 1 && q <= len(ref) {
				ref[q-1] = Content{V: p.plan.V + 300}
			}
		}
		p.Ref = ref
	}
	return nil
}

// JTrunc: after a shrinking commit SQLite cuts the file (after the journal is finalised).
func (p *Pager) JTrunc(n int) error { return p.C.TruncateDB(int64(p.L.Real(n)) * p.ps()) }

// EndJ releases the connection's database locks.
func (p *Pager) EndJ() {
	if p.C.DBOpen() {
		_ = p.C.LockDB(fuse.LockUnlock, PendingByte, SharedFirst+SharedSize-1)
	}
	if p.plan.Fin != "DELETE" {
		// TRUNCATE / PERSIST keep the journal file; SQLite keeps the handle, we re-open next time
		p.C.CloseJournal()
	}
}

// ---------------------------------------------------------------- write-ahead log

const (
	walWrite = uint64(120)
	walCkpt  = uint64(121)
	walRead1 = uint64(124)
	walDMS   = uint64(128)
)

func (p *Pager) bo() binary.ByteOrder {
	if p.Opts.BigEndian {
		return binary.BigEndian
	}
	return binary.LittleEndian
}

func walChecksum(bo binary.ByteOrder, s0, s1 uint32, b []byte) (uint32, uint32) {
	for i := 0; i+8 <= len(b); i += 8 {
		s0 += bo.Uint32(b[i:]) + s1
		s1 += bo.Uint32(b[i+4:]) + s0
	}
	return s0, s1
}

// BeginW opens database, shm and WAL and takes a read mark and the WRITE lock.
func (p *Pager) BeginW(pl Plan) error {
	p.plan = pl
	if err := p.C.OpenDB(false); err != nil {
		return err
	}
	first := !p.C.SHMOpen()
	if err := p.C.OpenSHM(); err != nil {
		return err
	}
	if first {
		if err := p.busy(func() error { return p.C.LockSHM(fuse.LockRead, walDMS, walDMS) }); err != nil {
			return fmt.Errorf("lock dms: %w", err)
		}
	}
	if err := p.C.OpenWAL(); err != nil {
		return err
	}
	if err := p.busy(func() error { return p.C.LockSHM(fuse.LockRead, walRead1, walRead1) }); err != nil {
		return fmt.Errorf("lock read1: %w", err)
	}
	p.readLock = true
	if err := p.busy(func() error { return p.C.LockSHM(fuse.LockWrite, walWrite, walWrite) }); err != nil {
		return fmt.Errorf("lock write: %w", err)
	}
	p.txN, p.txPages, p.txBytes = 0, map[uint32]int{}, map[uint32][]byte{}
	p.tck1, p.tck2 = p.ck1, p.ck2
	if p.walSizeN == 0 {
		p.walSizeN = p.RealSize()
	}
	return nil
}

// WHdr writes a fresh WAL header with salt generation `salt` (0 = the log continues, no write).
func (p *Pager) WHdr(salt int) error {
	if salt == 0 {
		return nil
	}
	h := make([]byte, 32)
	magic := uint32(0x377f0682)
	if p.Opts.BigEndian {
		magic = 0x377f0683
	}
	binary.BigEndian.PutUint32(h[0:], magic)
	binary.BigEndian.PutUint32(h[4:], 3007000)
	binary.BigEndian.PutUint32(h[8:], p.L.PageSize)
	binary.BigEndian.PutUint32(h[12:], uint32(salt))
	p.salt1 = uint32(0x10000 + salt)
	p.salt2 = uint32(0xabcd0000 + salt*7)
	binary.BigEndian.PutUint32(h[16:], p.salt1)
	binary.BigEndian.PutUint32(h[20:], p.salt2)
	c1, c2 := walChecksum(p.bo(), 0, 0, h[:24])
	binary.BigEndian.PutUint32(h[24:], c1)
	binary.BigEndian.PutUint32(h[28:], c2)
	if err := p.C.WriteWAL(0, h); err != nil {
		return err
	}
	p.hdr = true
	p.ck1, p.ck2, p.tck1, p.tck2 = c1, c2, c1, c2
	p.mx = 0
	p.walPages = map[uint32]int{}
	return nil
}

func (p *Pager) frameOff(i int) int64 { return 32 + int64(i-1)*(24+p.ps()) }

func (p *Pager) writeFrame(r uint32, data []byte, commit uint32) error {
	i := p.mx + p.txN + 1
	off := p.frameOff(i)
	if p.txN == 0 {
		p.LastWALOff = off
	}
	h := make([]byte, 24)
	binary.BigEndian.PutUint32(h[0:], r)
	binary.BigEndian.PutUint32(h[4:], commit)
	binary.BigEndian.PutUint32(h[8:], p.salt1)
	binary.BigEndian.PutUint32(h[12:], p.salt2)
	c1, c2 := walChecksum(p.bo(), p.tck1, p.tck2, h[:8])
	c1, c2 = walChecksum(p.bo(), c1, c2, data)
	binary.BigEndian.PutUint32(h[16:], c1)
	binary.BigEndian.PutUint32(h[20:], c2)
	if p.Opts.SplitHdr {
		if err := p.C.WriteWAL(off, h[:8]); err != nil {
			return err
		}
		if err := p.C.WriteWAL(off+8, h[8:]); err != nil {
			return err
		}
	} else if err := p.C.WriteWAL(off, h); err != nil {
		return err
	}
	if err := p.C.WriteWAL(off+24, data); err != nil {
		return err
	}
	p.tck1, p.tck2 = c1, c2
	p.txN++
	p.txPages[r] = i
	p.txBytes[r] = data
	p.LastWALLen = off + 24 + p.ps() - p.LastWALOff
	return nil
}

// WFrame appends the frame of model page q (early = a spilled earlier version); commit marks the
// transaction's last frame. Filler pages of a growing database get their own frames first.
func (p *Pager) WFrame(q int, early, commit bool) error {
	r := p.L.Real(q)
	c := p.NewContent(q)
	if early {
		c.V += 100
	}
	if !early && q > 1 {
		for f := p.L.Real(q-1) + 1; f < r; f++ {
			if f > p.walSizeN {
				if _, done := p.txPages[f]; !done {
					if err := p.writeFrame(f, p.L.PageBytes(f, Content{}), 0); err != nil {
						return fmt.Errorf("filler frame %d: %w", f, err)
					}
				}
			}
		}
	}
	cm := uint32(0)
	if commit {
		cm = p.L.Real(p.plan.Ns)
	}
	return p.writeFrame(r, p.L.PageBytes(r, c), cm)
}

// WEnd syncs the log and releases the WRITE lock (LiteFS captures the transaction there).
func (p *Pager) WEnd() error {
	if err := p.C.SyncWAL(); err != nil {
		return err
	}
	err := p.C.LockSHM(fuse.LockUnlock, walWrite, walWrite)
	if p.plan.Out == "commit" {
		for r, i := range p.txPages {
			p.walPages[r] = i
		}
		p.mx += p.txN
		p.ck1, p.ck2 = p.tck1, p.tck2
		p.Ref = p.NewImage()
		p.walSizeN = p.RealSize()
	}
	p.txN = 0
	if p.readLock {
		_ = p.C.LockSHM(fuse.LockUnlock, walRead1, walRead1)
		p.readLock = false
	}
	return err
}

// Ckpt is a client checkpoint: every page whose last committed version is in the log is copied
// into the database file, the file is cut to the committed size; TRUNCATE also empties the log.
func (p *Pager) Ckpt(kind string) error {
	if err := p.busy(func() error { return p.C.LockSHM(fuse.LockWrite, walCkpt, walCkpt) }); err != nil {
		return fmt.Errorf("lock ckpt: %w", err)
	}
	defer func() { _ = p.C.LockSHM(fuse.LockUnlock, walCkpt, walCkpt) }()
	if err := p.C.SyncWAL(); err != nil {
		return err
	}
	var pages []uint32
	for r := range p.walPages {
		pages = append(pages, r)
	}
	sort.Slice(pages, func(i, j int) bool { return pages[i] < pages[j] })
	for _, r := range pages {
		if r > p.walSizeN {
			continue
		}
		b, err := p.C.ReadWAL(p.frameOff(p.walPages[r])+24, int(p.ps()))
		if err != nil || int64(len(b)) != p.ps() {
			return fmt.Errorf("read wal frame: %v", err)
		}
		if err := p.C.WriteDB(int64(r-1)*p.ps(), b); err != nil {
			return fmt.Errorf("checkpoint write page %d: %w", r, err)
		}
	}
	if p.fileRealSize() > p.walSizeN {
		if err := p.C.TruncateDB(int64(p.walSizeN) * p.ps()); err != nil {
			return fmt.Errorf("checkpoint truncate: %w", err)
		}
	}
	if err := p.C.SyncDB(); err != nil {
		return err
	}
	if kind == "TRUNCATE" {
		if err := p.busy(func() error { return p.C.LockSHM(fuse.LockWrite, walWrite, walWrite) }); err != nil {
			return fmt.Errorf("lock write for truncate: %w", err)
		}
		terr := p.C.TruncateWAL(0)
		_ = p.C.LockSHM(fuse.LockUnlock, walWrite, walWrite)
		if terr != nil {
			return terr
		}
		p.ForgetWAL()
	}
	return nil
}

// LastTxPages returns the real pages written by the most recent WAL transaction (page -> frame index).
func (p *Pager) LastTxPages() map[uint32]int { return p.txPages }

// JRmWal: leaving WAL mode, SQLite unlinks the (checkpointed, empty) log before the header is rewritten
// in a rollback-journal transaction.
func (p *Pager) JRmWal() error {
	if p.C.WALExists() {
		if err := p.C.RemoveWAL(); err != nil {
			return fmt.Errorf("remove wal: %w", err)
		}
	}
	p.ForgetWAL()
	return nil
}

// ForgetWAL resets SQLite's view of the log (after a truncation by either side).
func (p *Pager) ForgetWAL() {
	p.hdr, p.mx, p.txN = false, 0, 0
	p.walPages = map[uint32]int{}
}

// InWAL reports whether real page r is currently served from the log.
func (p *Pager) InWAL(r uint32) (int, bool) { i, ok := p.walPages[r]; return i, ok }

// WalMode reports whether the committed header says WAL.
func (p *Pager) WalMode() bool { return len(p.Ref) > 0 && p.Ref[0].Wal }

// VisibleImage reads what SQLite sees now through the handles: committed log frames override the
// database file; the size comes from the header / last commit frame.
func (p *Pager) VisibleImage() (Image, error) {
	im := Image{Pages: map[uint32][]byte{}}
	if !p.C.DBOpen() {
		if err := p.C.OpenDB(false); err != nil {
			return im, nil // no database
		}
	}
	n := p.fileRealSize()
	if p.WalMode() && p.mx > 0 {
		n = p.walSizeN
	}
	im.N = n
	for r := uint32(1); r <= n; r++ {
		if r == p.L.LockPgno() {
			continue
		}
		var b []byte
		var err error
		if i, ok := p.walPages[r]; ok {
			b, err = p.C.ReadWAL(p.frameOff(i)+24, int(p.ps()))
		} else {
			b, err = p.C.ReadDB(int64(r-1)*p.ps(), int(p.ps()))
		}
		if err != nil {
			return im, fmt.Errorf("read page %d: %w", r, err)
		}
		im.Pages[r] = b
	}
	return im, nil
}

// ---------------------------------------------------------------- direct file inspection

// DiskImage recomputes the logical image from the files alone: the database file overlaid with the
// committed frames found by the harness's own walk of the WAL (salts + cumulative checksums).
func DiskImage(dbDir string, pageSize uint32) (Image, error) {
	return DiskImageUpTo(dbDir, pageSize, -1)
}

// DiskImageUpTo is DiskImage restricted to the first maxFrames frames of the WAL (-1 = all): the image
// at the position LiteFS reports while a complete but not yet captured transaction sits in the log.
func DiskImageUpTo(dbDir string, pageSize uint32, maxFrames int) (Image, error) {
	im := Image{Pages: map[uint32][]byte{}}
	b, err := os.ReadFile(filepath.Join(dbDir, "database"))
	if err != nil {
		if os.IsNotExist(err) {
			return im, nil
		}
		return im, err
	}
	if pageSize == 0 {
		if len(b) >= 100 {
			pageSize = uint32(binary.BigEndian.Uint16(b[16:]))
			if pageSize == 1 {
				pageSize = 65536
			}
		} else {
			return im, nil
		}
	}
	im.N = uint32(int64(len(b)) / int64(pageSize))
	// the logical size is the one recorded in the header (a shrinking commit truncates the file later)
	if len(b) >= 100 {
		if hn := binary.BigEndian.Uint32(b[28:]); hn > 0 && hn < im.N {
			im.N = hn
		}
	}
	for r := uint32(1); r <= im.N; r++ {
		im.Pages[r] = b[int64(r-1)*int64(pageSize) : int64(r)*int64(pageSize)]
	}
	frames, commitN := walkWAL(filepath.Join(dbDir, "wal"), pageSize, maxFrames)
	if commitN > 0 {
		for r, data := range frames {
			im.Pages[r] = data
		}
		for r := commitN + 1; r <= im.N; r++ {
			delete(im.Pages, r)
		}
		im.N = commitN
	}
	return im, nil
}

// WalkWAL returns the last committed version of every page in the valid prefix of a WAL file and
// the size recorded by the last commit frame (0 if there is no committed frame).
func WalkWAL(path string, pageSize uint32) (map[uint32][]byte, uint32) {
	return walkWAL(path, pageSize, -1)
}

func walkWAL(path string, pageSize uint32, maxFrames int) (map[uint32][]byte, uint32) {
	b, err := os.ReadFile(path)
	if err != nil || len(b) < 32 {
		return nil, 0
	}
	var bo binary.ByteOrder
	switch binary.BigEndian.Uint32(b[0:]) {
	case 0x377f0682:
		bo = binary.LittleEndian
	case 0x377f0683:
		bo = binary.BigEndian
	default:
		return nil, 0
	}
	if binary.BigEndian.Uint32(b[8:]) != pageSize {
		return nil, 0
	}
	c1, c2 := walChecksum(bo, 0, 0, b[:24])
	if c1 != binary.BigEndian.Uint32(b[24:]) || c2 != binary.BigEndian.Uint32(b[28:]) {
		return nil, 0
	}
	s1, s2 := binary.BigEndian.Uint32(b[16:]), binary.BigEndian.Uint32(b[20:])
	out := map[uint32][]byte{}
	tx := map[uint32][]byte{}
	var commitN uint32
	fs := 24 + int(pageSize)
	for off, k := 32, 0; off+fs <= len(b) && (maxFrames < 0 || k < maxFrames); off, k = off+fs, k+1 {
		h := b[off : off+24]
		data := b[off+24 : off+fs]
		if binary.BigEndian.Uint32(h[8:]) != s1 || binary.BigEndian.Uint32(h[12:]) != s2 {
			break
		}
		c1, c2 = walChecksum(bo, c1, c2, h[:8])
		c1, c2 = walChecksum(bo, c1, c2, data)
		if c1 != binary.BigEndian.Uint32(h[16:]) || c2 != binary.BigEndian.Uint32(h[20:]) {
			break
		}
		tx[binary.BigEndian.Uint32(h[0:])] = data
		if cm := binary.BigEndian.Uint32(h[4:]); cm != 0 {
			for k, v := range tx {
				out[k] = v
			}
			tx = map[uint32][]byte{}
			commitN = cm
		}
	}
	return out, commitN
}

// HasHdr reports whether SQLite's view says the log has a header (false after a truncation).
func (p *Pager) HasHdr() bool { return p.hdr }

// SetCommittedSize tells a fresh pager the committed database size (real pages) of an existing database.
func (p *Pager) SetCommittedSize(n uint32) { p.walSizeN = n }

// CommittedFrames is the number of frames of transactions that were committed (and captured).
func (p *Pager) CommittedFrames() int { return p.mx }
