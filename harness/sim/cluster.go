package sim

import (
	"context"
	"fmt"
	"io"
	"net"
	"os"
	"path/filepath"
	"sync"
	"sync/atomic"
	"syscall"
	"time"

	"github.com/superfly/litefs"
	lhttp "github.com/superfly/litefs/http"
	"github.com/superfly/ltx"
)

// LeaseService is an in-memory lease service shared by the nodes of a simulated cluster (what
// Consul is to a real one). The harness controls who may acquire and can expire the lease.
type LeaseService struct {
	mu        sync.Mutex
	clusterID string
	holder    *SimLease
	seq       int
	allowed   map[string]bool // advertise URL -> may acquire a free lease (nil = everybody)
	TTL       time.Duration
	Log       func(ev string, node string, detail string)
}

// SetClusterID sets the cluster ID the lease service holds ("" = not initialised yet).
func (ls *LeaseService) SetClusterID(id string) { ls.mu.Lock(); ls.clusterID = id; ls.mu.Unlock() }

// ClusterID is the cluster ID the lease service holds.
func (ls *LeaseService) ClusterID() string { ls.mu.Lock(); defer ls.mu.Unlock(); return ls.clusterID }

// NewLeaseService returns a lease service with a TTL of 2s.
func NewLeaseService() *LeaseService { return &LeaseService{TTL: 2 * time.Second} }

func (ls *LeaseService) log(ev, node, detail string) {
	if ls.Log != nil {
		ls.Log(ev, node, detail)
	}
}

// AllowOnly restricts acquisition of a free lease to the given advertise URLs (none = nobody).
func (ls *LeaseService) AllowOnly(urls ...string) {
	ls.mu.Lock()
	ls.allowed = map[string]bool{}
	for _, u := range urls {
		ls.allowed[u] = true
	}
	ls.mu.Unlock()
}

// AllowAll lets every candidate acquire.
func (ls *LeaseService) AllowAll() { ls.mu.Lock(); ls.allowed = nil; ls.mu.Unlock() }

// Expire makes the current lease (if any) report ErrLeaseExpired on its next renewal and frees the key.
func (ls *LeaseService) Expire() {
	ls.mu.Lock()
	if ls.holder != nil {
		ls.holder.expired.Store(true)
		ls.holder = nil
	}
	ls.mu.Unlock()
}

// Holder returns the advertise URL of the current lease holder ("" if none).
func (ls *LeaseService) Holder() string {
	ls.mu.Lock()
	defer ls.mu.Unlock()
	if ls.holder == nil {
		return ""
	}
	return ls.holder.url
}

// HolderRenewedAt returns when the current holder last renewed (zero time if nobody holds the lease).
func (ls *LeaseService) HolderRenewedAt() time.Time {
	ls.mu.Lock()
	defer ls.mu.Unlock()
	if ls.holder == nil {
		return time.Time{}
	}
	return ls.holder.RenewedAt()
}

// SimLeaser is one node's view of the lease service.
type SimLeaser struct {
	svc      *LeaseService
	hostname string
	url      string
}

// Leaser returns the litefs.Leaser of a node.
func (ls *LeaseService) Leaser(hostname, url string) *SimLeaser {
	return &SimLeaser{svc: ls, hostname: hostname, url: url}
}

func (l *SimLeaser) Close() error         { return nil }
func (l *SimLeaser) Type() string         { return "sim" }
func (l *SimLeaser) Hostname() string     { return l.hostname }
func (l *SimLeaser) AdvertiseURL() string { return l.url }

func (l *SimLeaser) Acquire(ctx context.Context) (litefs.Lease, error) {
	ls := l.svc
	ls.mu.Lock()
	defer ls.mu.Unlock()
	if ls.holder != nil {
		return nil, litefs.ErrPrimaryExists
	}
	if ls.allowed != nil && !ls.allowed[l.url] {
		return nil, fmt.Errorf("lease service: acquisition not permitted now")
	}
	ls.seq++
	le := &SimLease{svc: ls, id: fmt.Sprintf("lease-%d", ls.seq), url: l.url, hostname: l.hostname, handoff: make(chan uint64, 1)}
	le.renewedAt.Store(time.Now().UnixNano())
	ls.holder = le
	ls.log("acquire", l.url, le.id)
	return le, nil
}

func (l *SimLeaser) AcquireExisting(ctx context.Context, leaseID string) (litefs.Lease, error) {
	ls := l.svc
	ls.mu.Lock()
	defer ls.mu.Unlock()
	if ls.holder == nil || ls.holder.id != leaseID {
		return nil, litefs.ErrLeaseExpired
	}
	old := ls.holder
	le := &SimLease{svc: ls, id: old.id, url: l.url, hostname: l.hostname, handoff: make(chan uint64, 1)}
	le.renewedAt.Store(time.Now().UnixNano())
	old.handedOff.Store(true)
	ls.holder = le
	ls.log("acquire-existing", l.url, le.id)
	return le, nil
}

func (l *SimLeaser) PrimaryInfo(ctx context.Context) (litefs.PrimaryInfo, error) {
	ls := l.svc
	ls.mu.Lock()
	defer ls.mu.Unlock()
	if ls.holder == nil {
		return litefs.PrimaryInfo{}, litefs.ErrNoPrimary
	}
	return litefs.PrimaryInfo{Hostname: ls.holder.hostname, AdvertiseURL: ls.holder.url}, nil
}

func (l *SimLeaser) ClusterID(ctx context.Context) (string, error) {
	l.svc.mu.Lock()
	defer l.svc.mu.Unlock()
	return l.svc.clusterID, nil
}

func (l *SimLeaser) SetClusterID(ctx context.Context, id string) error {
	l.svc.mu.Lock()
	defer l.svc.mu.Unlock()
	l.svc.clusterID = id
	return nil
}

// SimLease is a lease granted by the LeaseService.
type SimLease struct {
	svc       *LeaseService
	id        string
	url       string
	hostname  string
	renewedAt atomic.Int64
	expired   atomic.Bool
	handedOff atomic.Bool
	closed    atomic.Bool
	handoff   chan uint64
}

func (l *SimLease) ID() string           { return l.id }
func (l *SimLease) RenewedAt() time.Time { return time.Unix(0, l.renewedAt.Load()) }
func (l *SimLease) TTL() time.Duration   { return l.svc.TTL }
func (l *SimLease) Renew(ctx context.Context) error {
	if l.expired.Load() || l.handedOff.Load() {
		return litefs.ErrLeaseExpired
	}
	l.svc.mu.Lock()
	cur := l.svc.holder == l
	l.svc.mu.Unlock()
	if !cur {
		return litefs.ErrLeaseExpired
	}
	l.renewedAt.Store(time.Now().UnixNano())
	return nil
}
func (l *SimLease) Handoff(ctx context.Context, nodeID uint64) error {
	select {
	case l.handoff <- nodeID:
		return nil
	case <-ctx.Done():
		return ctx.Err()
	}
}
func (l *SimLease) HandoffCh() <-chan uint64 { return l.handoff }
func (l *SimLease) Close() error {
	l.closed.Store(true)
	l.svc.mu.Lock()
	if l.svc.holder == l {
		l.svc.holder = nil
	}
	l.svc.mu.Unlock()
	l.svc.log("close", l.url, l.id)
	return nil
}

// FaultClient wraps the real HTTP client of a node; the harness can refuse or cut its streams and
// observe every frame-level call.
type FaultClient struct {
	// LoseReleaseAnswer: DELETE /halt is executed by the primary, the caller is told it timed out
	LoseReleaseAnswer atomic.Bool
	Inner             *lhttp.Client
	mu                sync.Mutex
	blocked           bool
	streams           []*faultStream
	// hooks (optional)
	OnCommit  func(name string, lockID int64) error // return error to drop the request before it is sent
	AfterHalt func(name string, lockID int64, hl *litefs.HaltLock, err error) (*litefs.HaltLock, error)
	Calls     atomic.Int64
	held      atomic.Bool
	holdAfter atomic.Int64 // Hold once this many stream bytes have been delivered (0 = off)
	delivered atomic.Int64 // stream bytes delivered to the node so far
	cutAfter  atomic.Int64 // break the stream (connection reset) once this many stream bytes have been delivered (0 = off)
}

// CutAfter breaks the node's stream with a connection error as soon as n stream bytes (counted from the node's
// start) have been delivered - once; the node reconnects on its own.
func (c *FaultClient) CutAfter(n int64) { c.cutAfter.Store(n) }

// HoldAfter puts the client on hold as soon as n stream bytes (counted from the node's start) have been
// delivered: the node has then received exactly the beginning of what the primary sent.
func (c *FaultClient) HoldAfter(n int64) { c.holdAfter.Store(n) }

// Delivered returns the number of stream bytes delivered so far.
func (c *FaultClient) Delivered() int64 { return c.delivered.Load() }

// Hold stops the delivery of stream data to the node without disconnecting it; Resume continues.
func (c *FaultClient) Hold()   { c.held.Store(true) }
func (c *FaultClient) Resume() { c.held.Store(false) }

// NewFaultClient returns a client around lhttp.NewClient().
func NewFaultClient() *FaultClient { return &FaultClient{Inner: lhttp.NewClient()} }

// Block makes new streams fail and cuts the current ones.
func (c *FaultClient) Block() {
	c.mu.Lock()
	c.blocked = true
	ss := c.streams
	c.streams = nil
	c.mu.Unlock()
	for _, s := range ss {
		_ = s.Close()
	}
}

// Unblock lets the node connect again.
func (c *FaultClient) Unblock() { c.mu.Lock(); c.blocked = false; c.mu.Unlock() }

// Cut closes the current streams once (the node reconnects on its own).
func (c *FaultClient) Cut() {
	c.mu.Lock()
	ss := c.streams
	c.streams = nil
	c.mu.Unlock()
	for _, s := range ss {
		_ = s.Close()
	}
}

func (c *FaultClient) AcquireHaltLock(ctx context.Context, primaryURL string, nodeID uint64, name string, lockID int64) (*litefs.HaltLock, error) {
	c.Calls.Add(1)
	hl, err := c.Inner.AcquireHaltLock(ctx, primaryURL, nodeID, name, lockID)
	if c.AfterHalt != nil {
		return c.AfterHalt(name, lockID, hl, err)
	}
	return hl, err
}
func (c *FaultClient) ReleaseHaltLock(ctx context.Context, primaryURL string, nodeID uint64, name string, lockID int64) error {
	c.Calls.Add(1)
	err := c.Inner.ReleaseHaltLock(ctx, primaryURL, nodeID, name, lockID)
	if c.LoseReleaseAnswer.Load() {
		return context.DeadlineExceeded // the primary executed the request; its answer never arrived
	}
	return err
}
func (c *FaultClient) Commit(ctx context.Context, primaryURL string, nodeID uint64, name string, lockID int64, r io.Reader) error {
	c.Calls.Add(1)
	if c.OnCommit != nil {
		if err := c.OnCommit(name, lockID); err != nil {
			return err
		}
	}
	return c.Inner.Commit(ctx, primaryURL, nodeID, name, lockID, r)
}
func (c *FaultClient) Stream(ctx context.Context, primaryURL string, nodeID uint64, posMap map[string]ltx.Pos, filter []string) (litefs.Stream, error) {
	c.Calls.Add(1)
	c.mu.Lock()
	blocked := c.blocked
	c.mu.Unlock()
	if blocked {
		return nil, fmt.Errorf("fault injection: connection refused")
	}
	st, err := c.Inner.Stream(ctx, primaryURL, nodeID, posMap, filter)
	if err != nil {
		return nil, err
	}
	fs := &faultStream{Stream: st, c: c}
	c.mu.Lock()
	c.streams = append(c.streams, fs)
	c.mu.Unlock()
	return fs, nil
}

type faultStream struct {
	litefs.Stream
	once sync.Once
	c    *FaultClient
}

// Read delivers nothing while the client is on hold: the node stays connected to its primary (it keeps its
// primary info) but falls behind.
func (s *faultStream) Read(p []byte) (int, error) {
	if s.c != nil {
		if t := s.c.holdAfter.Load(); t > 0 && s.c.delivered.Load() >= t {
			s.c.held.Store(true)
			s.c.holdAfter.Store(0)
		}
		for s.c.held.Load() {
			time.Sleep(200 * time.Microsecond)
		}
		if t := s.c.holdAfter.Load(); t > 0 {
			if room := t - s.c.delivered.Load(); room > 0 && int64(len(p)) > room {
				p = p[:room] // stop exactly at the threshold
			}
		}
	}
	if s.c != nil {
		if t := s.c.cutAfter.Load(); t > 0 {
			room := t - s.c.delivered.Load()
			if room <= 0 {
				s.c.cutAfter.Store(0)
				_ = s.Close()
				return 0, &net.OpError{Op: "read", Net: "tcp", Err: syscall.ECONNRESET}
			}
			if int64(len(p)) > room {
				p = p[:room]
			}
		}
	}
	n, err := s.Stream.Read(p)
	if s.c != nil {
		s.c.delivered.Add(int64(n))
	}
	return n, err
}

func (s *faultStream) Close() error {
	var err error
	s.once.Do(func() { err = s.Stream.Close() })
	return err
}

// CNode is a cluster member: a Node plus its HTTP server and fault-injecting client.
type CNode struct {
	*Node
	Name   string
	Server *lhttp.Server
	URL    string
	Client *FaultClient
	opts   ClusterNodeOpts
	cl     *Cluster
}

// ClusterNodeOpts configures one member.
type ClusterNodeOpts struct {
	Candidate bool
	Compress  bool
	Filter    []string
	Configure func(s *litefs.Store)
}

// Cluster is a set of real stores in one process talking real h2c HTTP over localhost.
type Cluster struct {
	Dir   string
	Lease *LeaseService
	Nodes map[string]*CNode
	// ClusterID is written into every member's data directory before it first starts, as in a
	// cluster that has been formed already ("" = let the first primary generate one; members that
	// never streamed from it can then never become primary, by design of LiteFS).
	ClusterID string
	mu        sync.Mutex
}

// NewCluster creates an empty cluster rooted at dir.
func NewCluster(dir string) *Cluster {
	cl := &Cluster{Dir: dir, Lease: NewLeaseService(), Nodes: map[string]*CNode{}, ClusterID: "LFSC0123456789ABCDEF"}
	cl.Lease.clusterID = cl.ClusterID
	return cl
}

// Start opens (or re-opens, keeping its data directory) the node called name.
func (cl *Cluster) Start(name string, o ClusterNodeOpts) (*CNode, error) {
	dir := filepath.Join(cl.Dir, name)
	if err := os.MkdirAll(dir, 0o777); err != nil {
		return nil, err
	}
	if cl.ClusterID != "" {
		if _, err := os.Stat(filepath.Join(dir, "clusterid")); os.IsNotExist(err) {
			if err := os.WriteFile(filepath.Join(dir, "clusterid"), []byte(cl.ClusterID+"\n"), 0o666); err != nil {
				return nil, err
			}
		}
	}
	cn := &CNode{Name: name, Client: NewFaultClient(), opts: o, cl: cl}
	var startErr error
	node, err := OpenNode(NodeOpts{Dir: dir, Candidate: o.Candidate, Compress: o.Compress, NoWait: true, Configure: func(s *litefs.Store) {
		srv := lhttp.NewServer(s, "127.0.0.1:0")
		if err := srv.Listen(); err != nil {
			startErr = err
			return
		}
		cn.Server = srv
		cn.URL = srv.URL()
		s.Leaser = cl.Lease.Leaser(name, cn.URL)
		s.Client = cn.Client
		s.DatabaseFilter = o.Filter
		s.HaltLockMonitorInterval = 50 * time.Millisecond
		if o.Configure != nil {
			o.Configure(s)
		}
	}})
	if startErr != nil {
		return nil, startErr
	}
	if err != nil {
		if cn.Server != nil {
			_ = cn.Server.Close()
		}
		return nil, err
	}
	cn.Node = node
	cn.Server.Serve()
	cl.mu.Lock()
	cl.Nodes[name] = cn
	cl.mu.Unlock()
	return cn, nil
}

// Stop shuts a node down (process death as seen by the others: server closed, store closed).
func (cl *Cluster) Stop(name string) {
	cl.mu.Lock()
	cn := cl.Nodes[name]
	delete(cl.Nodes, name)
	cl.mu.Unlock()
	if cn == nil {
		return
	}
	done := make(chan struct{})
	go func() {
		_ = cn.Server.Close()
		cn.Node.Close()
		// give the h2c connections of this member's client back (thousands of small clusters in one process
		// otherwise exhaust descriptors and ephemeral ports)
		if cn.Client != nil && cn.Client.Inner != nil && cn.Client.Inner.HTTPClient != nil {
			cn.Client.Inner.HTTPClient.CloseIdleConnections()
		}
		close(done)
	}()
	select {
	case <-done:
	case <-time.After(30 * time.Second):
	}
}

// Restart stops and starts a node on the same data directory.
func (cl *Cluster) Restart(name string) (*CNode, error) {
	cl.mu.Lock()
	cn := cl.Nodes[name]
	cl.mu.Unlock()
	var o ClusterNodeOpts
	if cn != nil {
		o = cn.opts
	}
	cl.Stop(name)
	return cl.Start(name, o)
}

// Close stops every node.
func (cl *Cluster) Close() {
	cl.mu.Lock()
	var names []string
	for n := range cl.Nodes {
		names = append(names, n)
	}
	cl.mu.Unlock()
	for _, n := range names {
		cl.Stop(n)
	}
}

// Primary returns the node that currently reports IsPrimary (nil if none or several).
func (cl *Cluster) Primary() *CNode {
	cl.mu.Lock()
	defer cl.mu.Unlock()
	var p *CNode
	for _, n := range cl.Nodes {
		if n.Store.IsPrimary() {
			if p != nil {
				return nil
			}
			p = n
		}
	}
	return p
}

// WaitPrimary waits until exactly the named node is primary.
func (cl *Cluster) WaitPrimary(name string, d time.Duration) error {
	deadline := time.Now().Add(d)
	for time.Now().Before(deadline) {
		if p := cl.Primary(); p != nil && p.Name == name {
			return nil
		}
		time.Sleep(500 * time.Microsecond)
	}
	return fmt.Errorf("node %s did not become the only primary within %s", name, d)
}

// Elect makes name the primary: everybody else is barred from acquiring, the current holder (if
// different) is demoted, and the call returns when name reports primary.
func (cl *Cluster) Elect(name string, d time.Duration) error {
	cl.mu.Lock()
	cn := cl.Nodes[name]
	var others []*CNode
	for _, n := range cl.Nodes {
		if n != cn {
			others = append(others, n)
		}
	}
	cl.mu.Unlock()
	if cn == nil {
		return fmt.Errorf("unknown node %s", name)
	}
	cl.Lease.AllowOnly(cn.URL)
	for _, o := range others {
		if o.Store.IsPrimary() {
			o.Store.Demote()
		}
	}
	return cl.WaitPrimary(name, d)
}

// WaitPos waits until the named node reports the given position for a database.
func (cl *Cluster) WaitPos(name, db string, want ltx.Pos, d time.Duration) error {
	cl.mu.Lock()
	cn := cl.Nodes[name]
	cl.mu.Unlock()
	if cn == nil {
		return fmt.Errorf("unknown node %s", name)
	}
	deadline := time.Now().Add(d)
	var got ltx.Pos
	for time.Now().Before(deadline) {
		if x := cn.Store.DB(db); x != nil {
			got = x.Pos()
			if got == want {
				return nil
			}
		}
		time.Sleep(300 * time.Microsecond)
	}
	return fmt.Errorf("node %s db %s at %s, want %s after %s", name, db, got, want, d)
}
