// Check C11: LiteFS's internal writers and SQLite connections exclude each other.
//
// spec -> impl: DBLocks.tla (the twelve locks of one database, client owners issuing SQLite's FUSE
// lock requests, DB.TryLocks as coded incl. the CKPT gate, DB.TryAcquireWriteLock as a multi-step
// process) is model-checked exhaustively by TLC; the complete state graph of the replay
// configurations (every state with all outgoing edges) is walked on a real node: client requests go
// through the real FUSE handlers, the internal writer is the real TryAcquireWriteLock paused inside
// OnLockStateChange between its lock calls. Property monitors are evaluated on the observed lock
// table, guard sets and errnos; agreement with the model's prediction is reported as conformance.
// Real internal operations (Recover, Checkpoint, Import, halt lock, stream apply on a replica, /tx)
// are run in client-lock configurations taken from the graph; at every internal page write the
// verif step hook evaluates the section monitor from inside the operation.
package main

import (
	"encoding/json"
	"fmt"
	"math/rand"
	"os"
	"strings"
	"time"

	"github.com/superfly/litefs/verifharness/core"
	"github.com/superfly/litefs/verifharness/sim"
	"github.com/superfly/litefs/verifharness/twowriters"
)

type replayCfg struct {
	name      string
	cfg       string
	mode      string
	clients   []string
	internals []string
	budget    time.Duration
	ops       int
}

func main() {
	args := core.ParseArgs()
	rep := core.NewReport("C11", "model_checking", args)
	rep.Rule = "a case is one edge (state, actor, request or internal lock step) of the TLC-generated state graph of DBLocks.tla executed on a real node after replaying a path to its source state, or one real internal operation (Recover/Checkpoint/Import/halt/AcquireWriteLock/stream apply//tx) run in a client-lock configuration of that graph, or one lock table seen by the section monitor inside an internal page write; non-trivial = the source state is not the initial state or the request is refused"
	rep.Assumptions = []string{
		"the journal mode does not change during a replayed behaviour (a mode switch needs a page-1 write, outside the lock model)",
		"SQLite's locking protocols are the requests listed in DESIGN Appendix A (rollback: SHARED/RESERVED/PENDING/EXCLUSIVE; WAL: DMS/WRITE/CKPT/RECOVER/READ0-4), each with a light protocol guard",
		"the real TryAcquireWriteLock can be paused only after lock calls that change a mutex state (OnLockStateChange); the replayed graph is the sub-graph with exactly those interleavings, the invariants are model-checked for every interleaving",
		"bounds: 2 clients (thorough: 3), 1 internal writer (thorough: 2), read marks as listed per configuration",
	}
	rep.Exhaustive = true
	defer core.Cleanup()

	core.Watchdog(120*time.Second, func(label string, since time.Duration) {
		if strings.HasPrefix(label, "real:") {
			rep.Violate("C11.no-hang", "hang/"+label, map[string]any{"no_progress_for": since.String(), "doing": label}, nil)
			rep.Finish()
		}
		core.Infra("no progress for %s while %s", since, label)
	})
	installHook()

	pageSizes := []uint32{4096, 512, 1024}
	layout := sim.L0(pageSizes[int(args.Seed)%len(pageSizes)])
	rnd := rand.New(rand.NewSource(args.Seed*7919 + 11))
	rep.Extra["page_size"] = layout.PageSize

	if args.Replay != "" {
		replayFile(rep, args.Replay, layout)
		rep.Finish()
	}

	// ---- 1. exhaustive model checking, every interleaving ----
	runTLC(rep, "rb", "MC_DBLocks_rb.cfg", 5*time.Minute, nil)
	runTLC(rep, "wal", "MC_DBLocks_wal.cfg", 5*time.Minute, nil)
	runTLC(rep, "walclose", "MC_DBLocks_walclose.cfg", 5*time.Minute, nil)
	if !args.Quick() {
		for _, c := range []string{"rb3", "wal3", "walfull", "rb_2int", "wal_2int", "rb_snap", "wal_snap", "wal_dbops"} {
			runTLC(rep, c, "MC_DBLocks_"+c+".cfg", 10*time.Minute, nil)
		}
		runRelevance(rep, "rel_nogate", "MC_DBLocks_rel_nogate.cfg", "CkptNeverGrantedUnderForeignWrite")
		runRelevance(rep, "rel_skipread", "MC_DBLocks_rel_skipread.cfg", "Exclusion")
		runRelevance(rep, "rel_skippend", "MC_DBLocks_rel_skippend.cfg", "NoBegin")
		runRelevance(rep, "rel_txnolock", "MC_DBLocks_rel_txnolock.cfg", "WritesInsideSection")
		runRelevance(rep, "rel_nowalguard", "MC_DBLocks_rel_nowalguard.cfg", "WalWriteNeedsWriteLock")
		runRelevance(rep, "lead_walowner", "MC_DBLocks_lead_walowner.cfg", "WalWriteByHolder")
		runRelevance(rep, "rel_flushall", "MC_DBLocks_rel_flushall.cfg", "Exclusion")
	}

	// ---- 2. replay of the complete graphs + real operations in their states ----
	cfgs := []replayCfg{
		{"rb_replay", "MC_DBLocks_rb_replay.cfg", "rollback", []string{"a", "b"}, []string{"i"}, 30 * time.Second, core.Pick(args, 60, 400)},
		{"wal_replay", "MC_DBLocks_wal_replay.cfg", "wal", []string{"a", "b"}, []string{"i"}, core.Pick(args, 40*time.Second, 3*time.Minute), core.Pick(args, 90, 800)},
	}
	// WAL connections that also take the database-file locks (up to EXCLUSIVE) and close their -shm /
	// database descriptors in every protocol state (PRAGMA journal_mode=DELETE closes -shm under EXCLUSIVE)
	cfgs = append(cfgs, replayCfg{"walclose_replay", "MC_DBLocks_walclose_replay.cfg", "wal", []string{"a", "b"}, []string{"i"}, core.Pick(args, 20*time.Second, 2*time.Minute), core.Pick(args, 0, 300)})
	if !args.Quick() {
		cfgs = append(cfgs,
			replayCfg{"rb3_replay", "MC_DBLocks_rb3_replay.cfg", "rollback", []string{"a", "b", "c"}, []string{"i"}, 2 * time.Minute, 200},
			replayCfg{"rb_2int_replay", "MC_DBLocks_rb_2int_replay.cfg", "rollback", []string{"a", "b"}, []string{"i", "j"}, 2 * time.Minute, 0},
			replayCfg{"walfull_replay", "MC_DBLocks_walfull_replay.cfg", "wal", []string{"a", "b"}, []string{"i"}, 4 * time.Minute, 300},
		)
	}
	totals := map[string]any{}
	for _, c := range cfgs {
		g := loadGraph(rep, c.name, c.cfg, 10*time.Minute)
		w := openWorld(rep, c.mode, c.clients, c.internals, layout, nil)
		r := &replayer{rep: rep, g: g, w: w}
		r.run(c.budget)
		rep.TracesValidated += int64(r.edgesReplayed)
		totals[c.name] = map[string]any{"states": len(g.nodes), "edges": g.edges, "states_visited": r.statesVisited,
			"states_passed_through_unpausable": r.statesUngated, "edges_replayed": r.edgesReplayed,
			"edges_unpausable": r.edgesUngated, "real_steps": r.pathSteps, "replays_abandoned": r.aborted}
		if len(c.internals) == 1 {
			sequenceConformance(rep, w, g.prog)
			if c.ops > 0 {
				operationsInStates(rep, r, c.ops, rnd)
			}
			snapshotSequences(rep, w, g.prog)
		}
		if ex := w.node.Exits(); len(ex) > 0 {
			rep.Violate("C11.no-exit", "exit/"+c.name, map[string]any{"codes": ex}, nil)
		}
		rep.Sample(map[string]any{"cfg": c.cfg, "state": g.order[len(g.order)/2].rec})
		w.close()
	}
	rep.Extra["replay"] = totals

	// ---- 3. directed scenarios ----
	shmCloseScenario(rep, layout)
	twowriters.Stage(rep, args, "C11")
	txScenario(rep, layout)
	replicaScenario(rep, "rollback", layout)
	replicaScenario(rep, "wal", layout)
	replicaHaltCatchUpScenario(rep, "rollback", layout)
	replicaHaltCatchUpScenario(rep, "wal", layout)
	replicaRecreateScenario(rep, layout)

	rep.Finish()
}

// replayFile re-executes a recorded violation.
func replayFile(rep *core.Report, path string, layout sim.Layout) {
	b, err := os.ReadFile(path)
	if err != nil {
		core.Infra("read replay: %v", err)
	}
	var f struct {
		Replay struct {
			Kind string   `json:"kind"`
			Cfg  string   `json:"cfg"`
			Mode string   `json:"mode"`
			Op   string   `json:"op"`
			Path []outRec `json:"path"`
			Act  *outRec  `json:"act"`
		} `json:"replay"`
	}
	if err := json.Unmarshal(b, &f); err != nil {
		core.Infra("parse replay: %v", err)
	}
	switch f.Replay.Kind {
	case "tx":
		txScenario(rep, layout)
		return
	case "replica-apply":
		replicaScenario(rep, f.Replay.Mode, layout)
		return
	case "replica-recreate":
		replicaRecreateScenario(rep, layout)
		return
	case "replica-halt-catch-up":
		replicaHaltCatchUpScenario(rep, f.Replay.Mode, layout)
		return
	case "shm-close":
		shmCloseScenario(rep, layout)
		return
	case "twowriters":
		twowriters.ReplayFile(rep, "C11", b)
		return
	case "edge", "operation":
	default:
		core.Infra("replay file has no replayable description (kind %q)", f.Replay.Kind)
	}
	g := loadGraph(rep, "replay", f.Replay.Cfg, 10*time.Minute)
	var clients, internals []string
	for o := range g.init.rec.G {
		if _, ok := g.init.rec.Pc[o]; ok {
			internals = append(internals, o)
		} else if _, ok := clientIDs[o]; ok {
			clients = append(clients, o)
		}
	}
	w := openWorld(rep, f.Replay.Mode, clients, internals, layout, nil)
	defer w.close()
	r := &replayer{rep: rep, g: g, w: w}
	w.curReplay = r.replayDesc
	w.reset()
	if f.Replay.Kind == "operation" {
		w.prepare(f.Replay.Op)
	}
	cur := g.init
	steps := f.Replay.Path
	if f.Replay.Act != nil {
		steps = append(steps, *f.Replay.Act)
	}
	for i := range steps {
		e := &steps[i]
		ok := r.execEdge(cur.rec, e)
		o := w.observe(false)
		fmt.Printf("%-40s conforms=%v  lock table %s  guards %v\n", e.String(), ok, o.M, o.G)
		if nx := g.nodes[cur.rec.target(e)]; nx != nil {
			cur = nx
		}
		if !ok {
			break
		}
	}
	if f.Replay.Kind == "operation" {
		out := w.runOp(f.Replay.Op, 77)
		fmt.Printf("operation %s -> err=%v, clients holding %v, lock table %s\n", f.Replay.Op, out.err, w.clientsHolding(), w.observe(false).M)
	}
}
