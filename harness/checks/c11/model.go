package main

import (
	"encoding/json"
	"fmt"
	"sort"
	"strings"
	"sync"
	"time"

	"github.com/superfly/litefs"
	"github.com/superfly/litefs/verifharness/core"
)

// ---- what DBLocks.tla prints ----

type progStep struct {
	Op string `json:"op"`
	L  string `json:"l"`
}

type reqDef struct {
	N  string   `json:"n"`
	T  string   `json:"t"`
	Ls []string `json:"ls"`
}

// progLine is the PROG line: the programs and vocabulary of the configuration.
type progLine struct {
	Mode     string     `json:"mode"`
	Prog     []progStep `json:"prog"`
	Snap     []progStep `json:"snap"`
	Rel      []string   `json:"rel"`
	Locks    []string   `json:"locks"`
	Conflict []string   `json:"conflict"`
	Reqs     []reqDef   `json:"reqs"`
}

type pcRec struct {
	St   string `json:"st"`
	K    int    `json:"k"`
	Gate bool   `json:"gate"`
}

// outRec is one outgoing edge of a state: actor, action and the predicted observables.
type outRec struct {
	A  string `json:"a"`  // actor (owner name, or "tx")
	N  string `json:"n"`  // request name, or IStep / IRel / IWrite / TxWrite / SnapStep
	Op string `json:"op"` // request type (R/W/U/F/A) or lock operation of an internal step
	L  string `json:"l"`  // lock of an internal step
	R  bool   `json:"r"`  // predicted result
	G  string `json:"g"`  // the actor's guard states after the step (12 chars, lock order of LockSeq)
	St string `json:"st"` // internal writer: state after the step
	K  int    `json:"k"`
	Gt bool   `json:"gt"` // internal writer: the real call can be observed/paused after this step
}

func (o outRec) String() string {
	if o.N == "IStep" || o.N == "IRel" {
		return fmt.Sprintf("%s:%s(%s %s)=%v->%s", o.A, o.N, o.Op, o.L, o.R, o.St)
	}
	return fmt.Sprintf("%s:%s=%v", o.A, o.N, o.R)
}

// stateRec is one STATE line: a distinct state with its projection and all outgoing edges.
type stateRec struct {
	G     map[string]string `json:"g"`
	Pc    map[string]pcRec  `json:"pc"`
	Sp    int               `json:"sp"`
	M     string            `json:"m"`
	Cx    map[string]string `json:"cx"`
	Cs    map[string]string `json:"cs"`
	Enter map[string]bool   `json:"enter"`
	Outs  []outRec          `json:"outs"`
}

type node struct {
	key    string
	rec    *stateRec
	parent *node
	via    *outRec
	depth  int
	seen   bool
}

func (n *node) atGate() bool {
	for _, p := range n.rec.Pc {
		if !p.Gate {
			return false
		}
	}
	return true
}

func (n *node) allIdle() bool {
	for _, p := range n.rec.Pc {
		if p.St != "idle" {
			return false
		}
	}
	return n.rec.Sp == 0
}

// path returns the edges from the initial state to n.
func (n *node) path() []*outRec {
	var p []*outRec
	for x := n; x.via != nil; x = x.parent {
		p = append(p, x.via)
	}
	for i, j := 0, len(p)-1; i < j; i, j = i+1, j-1 {
		p[i], p[j] = p[j], p[i]
	}
	return p
}

func keyOf(g map[string]string, pc map[string]pcRec, sp int) string {
	var names []string
	for o := range g {
		names = append(names, o)
	}
	sort.Strings(names)
	var sb strings.Builder
	for _, o := range names {
		sb.WriteString(o)
		sb.WriteByte('=')
		sb.WriteString(g[o])
		sb.WriteByte(';')
	}
	names = names[:0]
	for w := range pc {
		names = append(names, w)
	}
	sort.Strings(names)
	for _, w := range names {
		p := pc[w]
		fmt.Fprintf(&sb, "%s:%s,%d,%v;", w, p.St, p.K, p.Gate)
	}
	fmt.Fprintf(&sb, "sp%d", sp)
	return sb.String()
}

// target computes the key of the state an edge leads to (only the actor's part changes).
func (s *stateRec) target(o *outRec) string {
	g := s.G
	pc := s.Pc
	sp := s.Sp
	if _, ok := s.G[o.A]; ok && o.G != "-" && o.G != s.G[o.A] {
		g = map[string]string{}
		for k, v := range s.G {
			g[k] = v
		}
		g[o.A] = o.G
	}
	switch o.N {
	case "IStep", "IRel":
		pc = map[string]pcRec{}
		for k, v := range s.Pc {
			pc[k] = v
		}
		pc[o.A] = pcRec{St: o.St, K: o.K, Gate: o.Gt}
	case "SnapStep":
		sp = o.K
	}
	return keyOf(g, pc, sp)
}

// graph is the complete state graph of one configuration as emitted by TLC.
type graph struct {
	cfg   string
	prog  progLine
	nodes map[string]*node
	init  *node
	order []*node // breadth-first order from the initial state
	edges int
	reqs  map[string]reqDef
}

// loadGraph model-checks cfg exhaustively and collects the emitted states and edges.
func loadGraph(rep *core.Report, name, cfg string, timeout time.Duration) *graph {
	g := &graph{cfg: cfg, nodes: map[string]*node{}, reqs: map[string]reqDef{}}
	var mu sync.Mutex
	havePROG := false
	res := runTLC(rep, name, cfg, timeout, func(tag string, payload json.RawMessage) {
		switch tag {
		case "PROG":
			mu.Lock()
			defer mu.Unlock()
			if err := json.Unmarshal(payload, &g.prog); err != nil {
				core.Infra("bad PROG line: %v: %s", err, payload)
			}
			havePROG = true
		case "STATE":
			var s stateRec
			if err := json.Unmarshal(payload, &s); err != nil {
				core.Infra("bad STATE line: %v: %.300s", err, payload)
			}
			k := keyOf(s.G, s.Pc, s.Sp)
			mu.Lock()
			if _, dup := g.nodes[k]; !dup {
				g.nodes[k] = &node{key: k, rec: &s}
			}
			mu.Unlock()
		}
	})
	if !havePROG {
		core.Infra("%s: TLC printed no PROG line", cfg)
	}
	if int64(len(g.nodes)) != res.Distinct {
		core.Infra("%s: TLC reports %d distinct states but %d STATE lines were collected", cfg, res.Distinct, len(g.nodes))
	}
	for _, r := range g.prog.Reqs {
		g.reqs[r.N] = r
	}
	// breadth-first search over the emitted edge relation
	for _, n := range g.nodes {
		idle := n.allIdle()
		for _, s := range n.rec.G {
			if strings.Trim(s, "U") != "" {
				idle = false
			}
		}
		if idle {
			g.init = n
		}
		sort.Slice(n.rec.Outs, func(i, j int) bool {
			a, b := n.rec.Outs[i], n.rec.Outs[j]
			if a.A != b.A {
				return a.A < b.A
			}
			return a.N < b.N
		})
	}
	if g.init == nil {
		core.Infra("%s: initial state not among the emitted states", cfg)
	}
	g.init.seen = true
	queue := []*node{g.init}
	for len(queue) > 0 {
		n := queue[0]
		queue = queue[1:]
		g.order = append(g.order, n)
		for i := range n.rec.Outs {
			o := &n.rec.Outs[i]
			g.edges++
			t := g.nodes[n.rec.target(o)]
			if t == nil {
				core.Infra("%s: edge %s of state %s leads to a state that was not emitted (%s)", cfg, o, n.key, n.rec.target(o))
			}
			if !t.seen {
				t.seen = true
				t.parent, t.via, t.depth = n, o, n.depth+1
				queue = append(queue, t)
			}
		}
	}
	if res.Generated != int64(g.edges)+1 {
		core.Infra("%s: TLC generated %d states (1 initial + transitions) but %d edges were emitted", cfg, res.Generated, g.edges)
	}
	if len(g.order) != len(g.nodes) {
		core.Infra("%s: %d emitted states but only %d reachable over the emitted edges", cfg, len(g.nodes), len(g.order))
	}
	return g
}

// runTLC runs one exhaustive configuration; a model-level problem is infrastructure trouble (R2).
func runTLC(rep *core.Report, name, cfg string, timeout time.Duration, onLine func(string, json.RawMessage)) *core.TLCResult {
	stop := keepBeating("tlc:" + name)
	defer stop()
	res, err := core.RunTLC(core.TLCOpts{Module: "DBLocks", Cfg: cfg, Workers: tlcWorkers, Timeout: timeout, OnLine: onLine})
	if err != nil {
		core.Infra("tlc %s: %v", cfg, err)
	}
	if !res.OK() {
		core.Infra("model checking of %s failed (a model problem, not a verdict about the code): %s\n%s\n%s", cfg, res.Describe(), res.ErrorText, res.OutputTail)
	}
	rep.AddTLC(name, res)
	return res
}

// runRelevance runs a configuration in which a guard is removed: TLC must find the named violation.
func runRelevance(rep *core.Report, name, cfg, want string) {
	stop := keepBeating("tlc:" + name)
	defer stop()
	res, err := core.RunTLC(core.TLCOpts{Module: "DBLocks", Cfg: cfg, Workers: tlcWorkers, Timeout: 5 * time.Minute})
	if err != nil {
		core.Infra("tlc %s: %v", cfg, err)
	}
	if res.TimedOut || res.Violation != want {
		core.Infra("relevance configuration %s: expected TLC to report a violation of %s, got %s\n%s", cfg, want, res.Describe(), res.OutputTail)
	}
	l, _ := rep.Extra["relevance"].([]any)
	rep.Extra["relevance"] = append(l, map[string]any{"cfg": cfg, "violated_as_expected": want, "states_until_found": res.Distinct})
}

const tlcWorkers = 4

func keepBeating(label string) func() {
	core.Beat(label)
	stop := make(chan struct{})
	go func() {
		for {
			select {
			case <-stop:
				return
			case <-time.After(3 * time.Second):
				core.Beat(label)
			}
		}
	}()
	return func() { close(stop); core.Beat("harness") }
}

// ---- lock vocabulary shared by model and code ----

var lockNames = []string{"PENDING", "RESERVED", "SHARED", "WRITE", "CKPT", "RECOVER", "READ0", "READ1", "READ2", "READ3", "READ4", "DMS"}

var lockTypes = []litefs.LockType{litefs.LockTypePending, litefs.LockTypeReserved, litefs.LockTypeShared,
	litefs.LockTypeWrite, litefs.LockTypeCkpt, litefs.LockTypeRecover,
	litefs.LockTypeRead0, litefs.LockTypeRead1, litefs.LockTypeRead2, litefs.LockTypeRead3, litefs.LockTypeRead4, litefs.LockTypeDMS}

func lockIndex(name string) int {
	for i, n := range lockNames {
		if n == name {
			return i
		}
	}
	return -1
}

func lockIndexOfType(t litefs.LockType) int {
	for i, x := range lockTypes {
		if x == t {
			return i
		}
	}
	return -1
}

func stateChar(s litefs.RWMutexState) byte {
	switch s {
	case litefs.RWMutexStateUnlocked:
		return 'U'
	case litefs.RWMutexStateShared:
		return 'S'
	case litefs.RWMutexStateExclusive:
		return 'X'
	}
	return '?'
}

func stateCharOfString(s string) byte {
	switch s {
	case "unlocked":
		return 'U'
	case "shared":
		return 'S'
	case "exclusive":
		return 'X'
	}
	return '?'
}
