package main

import (
	"fmt"
	"time"

	"github.com/superfly/litefs"
	"github.com/superfly/litefs/verifharness/core"
)

// replayer walks the TLC-generated state graph on a real node.
type replayer struct {
	rep *core.Report
	g   *graph
	w   *world

	statesVisited int
	statesUngated int
	edgesReplayed int
	edgesUngated  int
	pathSteps     int
	aborted       int
	curPath       []*outRec
	curAct        *outRec
	executed      map[*outRec]bool // distinct edges of the graph executed on the real node
	stopped       bool             // time budget exhausted
}

func (r *replayer) replayDesc() any {
	var p []outRec
	for _, e := range r.curPath {
		p = append(p, *e)
	}
	d := map[string]any{"kind": "edge", "cfg": r.g.cfg, "mode": r.w.mode, "path": p}
	if r.curAct != nil {
		d["act"] = *r.curAct
	}
	return d
}

// wait receives the next message of a gated goroutine; a goroutine that neither parks nor returns
// is a hang of litefs.
func (r *replayer) wait(p *proc, what string) (procMsg, bool) {
	core.Beat("real:" + what)
	defer core.Beat("harness")
	select {
	case m := <-p.out:
		if m.done {
			p.active = false
		}
		return m, true
	case <-time.After(15 * time.Second):
		r.rep.Violate("C11.no-hang", "hang/"+what, map[string]any{"waited": "15s", "doing": what}, r.replayDesc())
		return procMsg{}, false
	}
}

// launch starts the real call of an internal writer on its own goroutine.
func (r *replayer) launch(p *proc, acquire bool) {
	w := r.w
	p.active = true
	gs := p.gs
	p.relng = !acquire
	p.acq = acquire
	w.setRunning(p)
	go func() {
		var m procMsg
		m.done = true
		m.panic = core.Try(func() {
			if acquire {
				m.gs = w.db.TryAcquireWriteLock()
			} else {
				gs.Unlock()
			}
		})
		p.out <- m
	}()
}

// stepInternal executes one IStep / IRel edge. It returns false when the replay of this path has
// to be abandoned (non-conformance already recorded).
func (r *replayer) stepInternal(src *stateRec, o *outRec) bool {
	w := r.w
	p := w.procs[o.A]
	if p == nil {
		core.Infra("model names internal writer %q that the world does not have", o.A)
	}
	if p.ahead {
		// the real call already executed this step (it could not be paused before it)
		if o.Gt {
			p.ahead = false
			return r.verifyInternal(src, o, p, p.pending)
		}
		return true
	}
	switch {
	case !p.active && o.N == "IStep":
		if p.gs != nil {
			core.Infra("model starts an attempt while the real writer %s still holds its guard set", o.A)
		}
		r.launch(p, true)
	case !p.active && o.N == "IRel":
		if p.gs == nil {
			r.rep.Nonconf("%s: model releases the guard set of %s but the real TryAcquireWriteLock returned nil", r.g.cfg, o.A)
			return false
		}
		r.launch(p, false)
	default:
		w.setRunning(p)
		p.in <- struct{}{}
	}
	m, ok := r.wait(p, "internal:"+o.N)
	w.setRunning(nil)
	if !ok {
		return false
	}
	if !o.Gt {
		// not a pause point of the model: the real call must have run on to the next one
		p.ahead, p.pending = true, m
		return true
	}
	return r.verifyInternal(src, o, p, m)
}

// runOut is used after the real call diverged from the model: the call is left to run to its end
// without pauses and the property's monitors are evaluated on what it returns (a divergence is only
// non-conformance; entering the section while a client holds a conflicting lock is a violation).
func (r *replayer) runOut(p *proc) {
	w := r.w
	if p == nil {
		return
	}
	var last procMsg
	have := false
	if p.ahead && p.pending.done {
		last, have = p.pending, true
	}
	p.ahead, p.pending = false, procMsg{}
	w.setRunning(nil)
	for p.active {
		p.in <- struct{}{}
		m, ok := r.wait(p, "internal:run-out")
		if !ok {
			return
		}
		if m.done {
			last, have = m, true
		}
	}
	if !have || !p.acq {
		return
	}
	if last.gs == nil {
		return
	}
	r.rep.Eval(1)
	if held := w.clientsHolding(); len(held) > 0 {
		r.rep.Violate("C11.enter-only-when-free", "entered-while-client-holds/"+firstLockOf(held)+"/"+w.mode,
			map[string]any{"clients_holding": held, "lock_table": w.observe(false).M}, r.replayDesc())
	}
	w.sectionCheck("replay-after-divergence", "TryAcquireWriteLock returned a guard set")
	last.gs.Unlock()
	if p.gs == last.gs {
		p.gs = nil
	}
}

// verifyInternal compares what the real call reported at a pause point with the model's edge.
func (r *replayer) verifyInternal(src *stateRec, o *outRec, p *proc, m procMsg) bool {
	w := r.w
	terminal := o.St == "idle" || o.St == "held"
	li := lockIndex(o.L)
	prevM := string(src.M[li])
	// the lock's mutex state after the step, from the actor's new guards and the others' old ones
	nextM := mutexAfter(src, o, li)
	r.rep.Eval(1)
	if m.panic != nil {
		r.rep.Violate("C11.no-panic", "panic/internal/"+o.N, map[string]any{"panic": m.panic.Value, "stack": m.panic.Stack}, r.replayDesc())
		p.active = false
		return false
	}
	if !m.done {
		want := lockEv{Lock: o.L, Prev: prevM, Next: nextM}
		if prevM == nextM {
			r.rep.Nonconf("%s: %s paused after a transition %+v where the model expects the call to return (edge %s)", r.g.cfg, o.A, m.ev, o)
			return false
		}
		if m.ev != want {
			r.rep.Nonconf("%s: lock transition %+v observed in %s of %s, model expects %+v (edge %s)", r.g.cfg, m.ev, o.N, o.A, want, o)
			return false
		}
		if !terminal {
			return true
		}
		// the last lock call changed a mutex and the function returns right after it
		w.setRunning(p)
		p.in <- struct{}{}
		var ok bool
		m, ok = r.wait(p, "internal:return")
		w.setRunning(nil)
		if !ok {
			return false
		}
		if !m.done {
			r.rep.Nonconf("%s: %s performs a further lock transition %+v where the model expects the call to return (edge %s)", r.g.cfg, o.A, m.ev, o)
			return false
		}
	} else if prevM != nextM {
		r.rep.Nonconf("%s: call of %s returned without the lock transition %s %s->%s the model expects (edge %s)", r.g.cfg, o.A, o.L, prevM, nextM, o)
		p.active = false
		r.finishInternal(o, p, m)
		return false
	}
	p.active = false
	if m.panic != nil {
		r.rep.Violate("C11.no-panic", "panic/internal/"+o.N, map[string]any{"panic": m.panic.Value, "stack": m.panic.Stack}, r.replayDesc())
		return false
	}
	if !terminal {
		r.rep.Nonconf("%s: call of %s returned where the model expects it to go on (edge %s)", r.g.cfg, o.A, o)
		r.finishInternal(o, p, m)
		return false
	}
	return r.finishInternal(o, p, m)
}

func mutexAfter(src *stateRec, o *outRec, li int) string {
	x, s := false, false
	for owner, g := range src.G {
		if owner == o.A {
			g = o.G
		}
		switch g[li] {
		case 'X':
			x = true
		case 'S':
			s = true
		}
	}
	if x {
		return "X"
	} else if s {
		return "S"
	}
	return "U"
}

// finishInternal handles the return of TryAcquireWriteLock / GuardSet.Unlock.
func (r *replayer) finishInternal(o *outRec, p *proc, m procMsg) bool {
	w := r.w
	if o.N == "IRel" {
		p.gs, p.relng = nil, false
		return o.St == "idle"
	}
	p.gs = m.gs
	entered := m.gs != nil
	// monitor: an internal attempt while a client holds a conflicting lock does not proceed
	r.rep.Eval(1)
	if entered {
		if held := w.clientsHolding(); len(held) > 0 {
			r.rep.Violate("C11.enter-only-when-free", "entered-while-client-holds/"+firstLockOf(held)+"/"+w.mode,
				map[string]any{"clients_holding": held, "lock_table": w.observe(false).M}, r.replayDesc())
		}
	}
	if entered != (o.St == "held") {
		r.rep.Nonconf("%s: TryAcquireWriteLock of %s returned entered=%v, model says %s (edge %s)", r.g.cfg, o.A, entered, o.St, o)
		return false
	}
	return true
}

func firstLockOf(held []string) string {
	if len(held) == 0 {
		return "-"
	}
	s := held[0]
	for i := 0; i < len(s); i++ {
		if s[i] == ':' {
			s = s[i+1:]
			break
		}
	}
	for i := 0; i < len(s); i++ {
		if s[i] == '=' {
			return s[:i]
		}
	}
	return s
}

// execEdge performs one edge on the real node, evaluates the property monitors on what is observed
// and compares the result with the model's prediction (conformance).
func (r *replayer) execEdge(src *stateRec, o *outRec) bool {
	w := r.w
	r.pathSteps++
	switch o.N {
	case "IStep", "IRel":
		if !r.stepInternal(src, o) {
			r.runOut(w.procs[o.A])
			return false
		}
		return true
	case "IWrite":
		if p := w.procs[o.A]; p == nil || !p.inSection() {
			r.rep.Nonconf("%s: model's writer %s is in its section, the real one is not", r.g.cfg, o.A)
			return false
		}
		w.sectionCheck("replay-IWrite", "model step")
		return true
	case "TxWrite", "SnapStep":
		return true // not part of the replayed configurations
	}
	c := w.clients[o.A]
	rq, ok := r.g.reqs[o.N]
	if c == nil || !ok {
		core.Infra("unknown client %q or request %q in edge", o.A, o.N)
	}
	var before observed
	sectionOpen := false
	for _, p := range w.procs {
		if p.inSection() {
			sectionOpen = true
		}
	}
	touchesCkpt := rq.T == "W" && contains(rq.Ls, "CKPT")
	if touchesCkpt || rq.T == "A" {
		before = w.observe(false)
	}
	res, infra := w.doReq(c, rq, o.R)
	if infra != nil {
		if len(infra.Error()) > 5 && infra.Error()[:5] == "PANIC" {
			r.rep.Violate("C11.no-panic", "panic/request/"+o.N, map[string]any{"panic": infra.Error()}, r.replayDesc())
			return false
		}
		core.Infra("request %s of %s: %v", o.N, o.A, infra)
	}
	// ---- monitors (R1) ----
	if rq.T == "R" || rq.T == "W" {
		r.rep.Eval(1)
		if sectionOpen && res.OK && intersects(rq.Ls, w.conflict) {
			r.rep.Violate("C11.no-begin-during-section", "client-lock-granted-during-section/replay/"+o.N+"/"+w.mode,
				map[string]any{"request": o.N, "owner": o.A, "lock_table": w.observe(false).M}, r.replayDesc())
		}
		if !res.OK && res.Errno != 11 { // EAGAIN
			r.rep.Nonconf("%s: request %s refused with errno %d (%s), EAGAIN expected", r.g.cfg, o.N, res.Errno, res.Err)
		}
	}
	if touchesCkpt {
		r.rep.Eval(1)
		after := w.observe(false)
		ci, wi := lockIndex("CKPT"), lockIndex("WRITE")
		if before.G[o.A][ci] != 'X' && after.G[o.A][ci] == 'X' && before.M[wi] != 'U' && before.G[o.A][wi] != 'X' {
			r.rep.Violate("C11.ckpt-not-granted-under-foreign-write", "ckpt-granted/other-owner-holds-WRITE/"+o.N,
				map[string]any{"request": o.N, "owner": o.A, "before": before, "after": after}, r.replayDesc())
		}
	}
	if rq.T == "A" {
		r.rep.Eval(2)
		wi := lockIndex("WRITE")
		if res.OK && before.M[wi] != 'X' {
			r.rep.Violate("C11.wal-write-needs-write-lock", "wal-write-accepted/nobody-holds-WRITE/"+acceptedParts(res.Parts),
				map[string]any{"owner": o.A, "writes": res.Parts, "lock_table": before.M}, r.replayDesc())
		} else if res.OK && before.G[o.A][wi] != 'X' {
			who := "other-connection-holds-WRITE"
			if sectionOpen {
				who = "internal-writer-holds-WRITE"
			}
			r.rep.Violate("C11.wal-write-needs-write-lock", "wal-write-accepted/writer-not-holder/"+who,
				map[string]any{"owner": o.A, "writes": res.Parts, "lock_table": before.M, "writer_guards": before.G[o.A]}, r.replayDesc())
		}
	}
	if rq.T == "F" {
		r.afterClose(o)
	}
	// ---- conformance of the result ----
	if res.OK != o.R {
		r.rep.Nonconf("%s: request %s of %s -> ok=%v (%s), model predicts %v", r.g.cfg, o.N, o.A, res.OK, res.Err, o.R)
		return false
	}
	return true
}

// afterClose runs after a connection closed a descriptor (FUSE FLUSH: DatabaseHandle.Flush ->
// DB.UnlockDatabase, SHMHandle.Flush -> DB.UnlockSHM). Closing one file gives up the locks of that file
// only; SQLite closes the -shm descriptor in the middle of PRAGMA journal_mode=DELETE while it still holds
// EXCLUSIVE on the database file. Monitor: a complete, uninterrupted TryAcquireWriteLock made right now
// does not enter while a connection holds a conflicting lock. Conformance: LiteFS's guard sets still show
// every lock the connections hold, and a new reader (PENDING, SHARED read locks through a spare
// connection) is refused while a connection holds PENDING or SHARED exclusively.
func (r *replayer) afterClose(o *outRec) {
	w := r.w
	r.rep.Eval(1)
	if f := w.forgotten(); len(f) > 0 {
		r.rep.Nonconf("%s: after %s of %s LiteFS's guard sets no longer show locks the connection still holds: %v (path %v)",
			r.g.cfg, o.N, o.A, f, pathString(r.curPath, r.curAct))
	}
	for _, p := range w.procs {
		if p.active || p.ahead || p.gs != nil {
			return // an internal writer of the model is under way: its own edges are the attempts
		}
	}
	w.entryProbe("after-"+o.N, r.replayDesc())
	w.readerProbe("after-" + o.N)
}

func acceptedParts(parts map[string]string) string {
	s := ""
	for _, k := range []string{"header", "frame-header", "frame-data"} {
		if v, ok := parts[k]; ok && v == "" {
			if s != "" {
				s += "+"
			}
			s += k
		}
	}
	return s
}

func contains(l []string, s string) bool {
	for _, x := range l {
		if x == s {
			return true
		}
	}
	return false
}

func intersects(ls []string, idx []int) bool {
	for _, l := range ls {
		li := lockIndex(l)
		for _, i := range idx {
			if i == li {
				return true
			}
		}
	}
	return false
}

// goTo resets the node and replays the path to n; false = abandoned.
func (r *replayer) goTo(n *node) bool {
	w := r.w
	w.reset()
	r.curPath = r.curPath[:0]
	r.curAct = nil
	cur := r.g.init
	for _, e := range n.path() {
		r.curAct = e
		if !r.execEdge(cur.rec, e) {
			r.aborted++
			return false
		}
		r.executed[e] = true
		r.curPath = append(r.curPath, e)
		cur = r.g.nodes[cur.rec.target(e)]
	}
	r.curAct = nil
	return true
}

// compare checks the projection of the real node against the model state (conformance, R3).
func (r *replayer) compare(n *node, when string) bool {
	o := r.w.observe(true)
	r.rep.Eval(1)
	if d := o.diff(n.rec, r.w.procs); d != "" {
		r.rep.Nonconf("%s: %s: %s (path %v)", r.g.cfg, when, d, pathString(r.curPath, r.curAct))
		return false
	}
	return true
}

func pathString(p []*outRec, act *outRec) string {
	s := ""
	for _, e := range p {
		s += e.String() + " "
	}
	if act != nil {
		s += "| " + act.String()
	}
	return s
}

// run replays the whole graph: every state is reached over its breadth-first path and compared;
// every outgoing edge is executed from it (tree edges when the child is visited) and the target
// compared. States in which the real TryAcquireWriteLock cannot be paused are passed through.
func (r *replayer) run(budget time.Duration) {
	w := r.w
	w.curReplay = r.replayDesc
	r.executed = map[*outRec]bool{}
	start := time.Now()
	treeChild := map[*outRec]bool{}
	for _, n := range r.g.order {
		if n.via != nil {
			treeChild[n.via] = true
		}
	}
	for _, n := range r.g.order {
		if time.Since(start) > budget {
			r.stopped = true
			r.rep.Note("%s: replay stopped after %s with %d of %d states visited", r.g.cfg, budget, r.statesVisited, len(r.g.order))
			break
		}
		if !n.atGate() {
			r.statesUngated++
			continue
		}
		if !r.goTo(n) {
			continue
		}
		r.statesVisited++
		if n.via != nil {
			r.rep.Case(r.g.cfg+"|"+n.parent.key+"|"+n.via.A+":"+n.via.N, n.parent != r.g.init || !n.via.R)
		}
		if !r.compare(n, "state after path") {
			r.aborted++ // its edges are not executed from a state the node is not in
			continue
		}
		dirty := false
		// self-loops first (refused requests, WAL write probes, IWrite): no reset needed
		for pass := 0; pass < 2; pass++ {
			for i := range n.rec.Outs {
				o := &n.rec.Outs[i]
				tk := n.rec.target(o)
				self := tk == n.key
				t := r.g.nodes[tk]
				if (pass == 0) != self {
					continue
				}
				if treeChild[o] && t.atGate() {
					continue // executed and compared when the child is visited
				}
				if dirty {
					if !r.goTo(n) {
						break
					}
					dirty = false
				}
				keep := len(r.curPath)
				r.curAct = o
				ok := r.execEdge(n.rec, o)
				r.executed[o] = true
				r.rep.Case(r.g.cfg+"|"+n.key+"|"+o.A+":"+o.N, true)
				if !self {
					dirty = true
				}
				// where the real call cannot be paused, pass through its forced steps to the next pause point
				cur := t
				for ok && !cur.atGate() {
					if len(cur.rec.Outs) != 1 {
						core.Infra("%s: state %s is not a pause point but has %d outgoing edges", r.g.cfg, cur.key, len(cur.rec.Outs))
					}
					o2 := &cur.rec.Outs[0]
					r.curPath = append(r.curPath, r.curAct)
					r.curAct = o2
					ok = r.execEdge(cur.rec, o2)
					r.executed[o2] = true
					r.edgesUngated++
					cur = r.g.nodes[cur.rec.target(o2)]
				}
				if !ok {
					r.aborted++
					dirty = true
				} else if !r.compare(cur, "state after edge") {
					dirty = true
				}
				r.curPath = r.curPath[:keep]
				r.curAct = nil
			}
		}
	}
	r.edgesReplayed = len(r.executed)
	if !r.stopped && r.aborted == 0 && r.edgesReplayed != r.g.edges {
		core.Infra("%s: %d of %d edges executed although the replay ran to its end (coverage hole in the driver)", r.g.cfg, r.edgesReplayed, r.g.edges)
	}
	w.reset()
	w.curReplay = nil
}

// ---- recorded lock-transition sequences vs. the model's programs ----

func expectedAcquire(pl progLine) []lockEv {
	held := map[string]string{}
	var evs []lockEv
	for _, s := range pl.Prog {
		prev := held[s.L]
		if prev == "" {
			prev = "U"
		}
		next := map[string]string{"R": "S", "W": "X", "U": "U"}[s.Op]
		if prev != next {
			evs = append(evs, lockEv{Lock: s.L, Prev: prev, Next: next})
		}
		held[s.L] = next
	}
	for _, l := range pl.Rel {
		if h := held[l]; h != "" && h != "U" {
			evs = append(evs, lockEv{Lock: l, Prev: h, Next: "U"})
		}
	}
	return evs
}

func expectedSnapshot(pl progLine) []lockEv {
	held := map[string]string{}
	var evs []lockEv
	for _, s := range pl.Snap {
		if s.Op == "READING" {
			continue
		}
		prev := held[s.L]
		if prev == "" {
			prev = "U"
		}
		next := map[string]string{"R": "S", "W": "X", "U": "U"}[s.Op]
		if prev != next {
			evs = append(evs, lockEv{Lock: s.L, Prev: prev, Next: next})
		}
		held[s.L] = next
	}
	for _, l := range pl.Rel {
		if h := held[l]; h != "" && h != "U" {
			evs = append(evs, lockEv{Lock: l, Prev: h, Next: "U"})
		}
	}
	return evs
}

func sameEvents(a, b []lockEv) bool {
	if len(a) != len(b) {
		return false
	}
	for i := range a {
		if a[i] != b[i] {
			return false
		}
	}
	return true
}

// sequenceConformance records the lock transitions of an uncontended TryAcquireWriteLock+Unlock and
// of WriteSnapshotTo / Export and compares them with the programs of the specification.
func sequenceConformance(rep *core.Report, w *world, pl progLine) {
	w.reset()
	w.record(true)
	var gs *litefs.GuardSet
	if p := core.Try(func() { gs = w.db.TryAcquireWriteLock() }); p != nil {
		rep.Violate("C11.no-panic", "panic/TryAcquireWriteLock", p, nil)
		return
	}
	if gs == nil {
		rep.Nonconf("uncontended TryAcquireWriteLock returned nil in %s mode", w.mode)
		w.record(false)
		return
	}
	w.sectionCheck("TryAcquireWriteLock-uncontended", "held")
	gs.Unlock()
	got := w.record(false)
	rep.Eval(1)
	if want := expectedAcquire(pl); !sameEvents(got, want) {
		rep.Nonconf("%s mode: lock transitions of TryAcquireWriteLock+Unlock %v differ from the specification's program %v", w.mode, got, want)
	}
	rep.Sample(map[string]any{"mode": w.mode, "TryAcquireWriteLock_transitions": fmt.Sprint(got)})
}
