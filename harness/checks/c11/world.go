package main

import (
	"context"
	"encoding/json"
	"fmt"
	"math"
	"os"
	"path/filepath"
	"sort"
	"strings"
	"sync"
	"syscall"
	"time"

	"bazil.org/fuse"
	"github.com/superfly/litefs"
	"github.com/superfly/litefs/verifharness/core"
	"github.com/superfly/litefs/verifharness/sim"
)

const dbName = "db"

// owner ids of the simulated connections
var clientIDs = map[string]uint64{"a": 101, "b": 102, "c": 103}

const (
	setupOwner = 50
	spareOwner = 900
)

type lockEv struct {
	Lock string `json:"lock"`
	Prev string `json:"prev"`
	Next string `json:"next"`
}

// procMsg is what a gated goroutine running real litefs code reports to the driver.
type procMsg struct {
	done  bool
	ev    lockEv
	gs    *litefs.GuardSet
	err   error
	panic *core.Panic
}

// proc is one internal writer of the model bound to a goroutine that executes the real
// DB.TryAcquireWriteLock / GuardSet.Unlock and parks inside OnLockStateChange after every lock call
// that changes a mutex state.
type proc struct {
	name    string
	out     chan procMsg
	in      chan struct{}
	active  bool // a goroutine is parked inside litefs
	ahead   bool // the real call already ran past model steps that cannot be paused
	pending procMsg
	gs      *litefs.GuardSet // guard set returned by TryAcquireWriteLock
	relng   bool             // GuardSet.Unlock() of gs has started
	acq     bool             // the running / last call is TryAcquireWriteLock
}

// inSection reports whether the real writer holds its complete guard set.
func (p *proc) inSection() bool { return p.gs != nil && !p.relng }

// world is one real node with one database, the simulated connections of the model's client owners
// and the internal writers.
type world struct {
	rep    *core.Report
	mode   string // rollback | wal
	node   *sim.Node
	db     *litefs.DB
	layout sim.Layout
	pg     *sim.Pager
	setup  *sim.Conn
	ver    int // version counter of the pager transactions

	clients map[string]*sim.Conn
	names   []string
	spare   *sim.Conn
	procs   map[string]*proc
	running *proc // the gated goroutine currently executing litefs code (driver is waiting for it)

	evMu     sync.Mutex
	evRecord bool
	evLog    []lockEv

	conflict  []int // lock indices that conflict with an internal writer in this mode
	xconflict []int // lock indices that conflict when a connection holds them EXCLUSIVELY (WAL mode: SHARED = SQLite's EXCLUSIVE lock)
	// kern is the connections' own view of their locks (what the kernel's POSIX lock table says): a lock
	// the connection was granted and has neither unlocked nor given up by closing that file. The property
	// speaks about locks connections HOLD, not about what LiteFS remembers of them.
	kern       map[*sim.Conn][]byte
	probeSigs  map[string]int
	walEnd     int64 // offset behind the last frame of the WAL (WalWrite probes go there)
	hookCalls  int64
	hookEntry  map[string]int
	inSection  string // label of the internal operation the driver is running (for messages)
	expectHook bool
	curReplay  func() any // replay description of what is being executed
}

var (
	registryMu sync.Mutex
	registry   = map[*litefs.DB]*world{}
)

func register(db *litefs.DB, w *world) {
	registryMu.Lock()
	registry[db] = w
	registryMu.Unlock()
}

func lookupWorld(db *litefs.DB) *world {
	registryMu.Lock()
	defer registryMu.Unlock()
	return registry[db]
}

// openWorld opens a primary node, creates the database and brings it into the wanted journal mode
// with real pager transactions.
func openWorld(rep *core.Report, mode string, clients []string, internals []string, layout sim.Layout, configure func(*litefs.Store)) *world {
	w := &world{rep: rep, mode: mode, layout: layout, clients: map[string]*sim.Conn{}, procs: map[string]*proc{}, hookEntry: map[string]int{}}
	dir := core.Scratch("c11-" + mode)
	n, err := sim.OpenNode(sim.NodeOpts{Dir: dir, Primary: true, Configure: func(s *litefs.Store) {
		s.HaltAcquireTimeout = 60 * time.Millisecond
		if configure != nil {
			configure(s)
		}
	}})
	if err != nil {
		core.Infra("open node: %v", err)
	}
	w.attach(n, clients, internals)
	w.createDatabase()
	return w
}

// attach binds the world to an already opened node (used for cluster members).
func (w *world) attach(n *sim.Node, clients []string, internals []string) {
	w.node = n
	w.names = append([]string{}, clients...)
	sort.Strings(w.names)
	for _, c := range clients {
		w.clients[c] = n.Connect(dbName, clientIDs[c])
	}
	w.spare = n.Connect(dbName, spareOwner)
	w.setup = n.Connect(dbName, setupOwner)
	for _, i := range internals {
		w.procs[i] = &proc{name: i, out: make(chan procMsg), in: make(chan struct{})}
	}
	if w.mode == "rollback" {
		w.conflict = []int{0, 1, 2}
	} else {
		w.conflict = []int{3, 4, 5, 6, 7, 8, 9, 10}
		w.xconflict = []int{2}
	}
	w.kern = map[*sim.Conn][]byte{}
}

// kernOf returns the connection's own record of its locks (12 bytes U/S/X in the order of lockNames).
func (w *world) kernOf(c *sim.Conn) []byte {
	k := w.kern[c]
	if k == nil {
		k = []byte("UUUUUUUUUUUU")
		w.kern[c] = k
	}
	return k
}

// kernUpdate records the effect of one request on the connection's own view: a granted fcntl lock sets
// the byte range, an unlock clears it, closing a descriptor drops the locks of THAT file. A refused
// request changes nothing (POSIX: all or nothing).
func (w *world) kernUpdate(c *sim.Conn, r reqDef, ok bool) {
	k := w.kernOf(c)
	switch r.T {
	case "R", "W":
		if !ok {
			return
		}
		st := byte('S')
		if r.T == "W" {
			st = 'X'
		}
		for _, l := range r.Ls {
			k[lockIndex(l)] = st
		}
	case "U", "F":
		for _, l := range r.Ls {
			k[lockIndex(l)] = 'U'
		}
	}
}

func (w *world) createDatabase() {
	if err := w.setup.OpenDB(true); err != nil {
		core.Infra("create database: %v", err)
	}
	w.db = w.node.Store.DB(dbName)
	if w.db == nil {
		core.Infra("database object missing after create")
	}
	w.db.VerifOnLockStateChange(w.onLock)
	register(w.db, w)
	w.pg = sim.NewPager(w.setup, w.layout, sim.PagerOpts{})
	w.must(w.commitJ([]int{1, 2, 3}, 3, false), "first transaction")
	if w.mode == "wal" {
		w.must(w.commitJ([]int{1}, 3, true), "switch to WAL mode")
		w.must(w.commitW([]int{1, 2}, 3), "first WAL transaction")
		if w.db.Mode() != litefs.DBModeWAL {
			core.Infra("database did not enter WAL mode")
		}
	}
	w.setup.Close()
	w.refreshWalEnd()
}

func (w *world) must(err error, what string) {
	if err != nil {
		core.Infra("%s: %v", what, err)
	}
	if ex := w.node.Exits(); len(ex) > 0 {
		core.Infra("%s: litefs called Exit(%v)", what, ex)
	}
}

// commitJ runs one rollback-journal transaction through the setup connection.
func (w *world) commitJ(pages []int, ns int, toWal bool) error {
	w.ver++
	pl := sim.Plan{Kind: "j", Ns: ns, M: pages, Out: "commit", Fin: "DELETE", V: w.ver, Wal: toWal}
	pg := w.pg
	for _, f := range []func() error{func() error { return pg.BeginJ(pl) }, pg.JCreate, pg.JSync} {
		if err := f(); err != nil {
			return err
		}
	}
	for _, q := range pl.M {
		if err := pg.JPage(q); err != nil {
			return err
		}
	}
	if err := pg.JFinal(); err != nil {
		return err
	}
	pg.EndJ()
	return nil
}

// hotJournal starts a rollback-journal transaction, writes its pages and "crashes": handles are
// closed (locks dropped), the journal and the modified pages stay behind.
func (w *world) hotJournal() error {
	w.ver++
	pl := sim.Plan{Kind: "j", Ns: 3, M: []int{1, 2}, Out: "rollback", Fin: "DELETE", V: w.ver}
	pg := w.pg
	for _, f := range []func() error{func() error { return pg.BeginJ(pl) }, pg.JCreate, pg.JSync} {
		if err := f(); err != nil {
			return err
		}
	}
	for _, q := range pl.M {
		if err := pg.JPage(q); err != nil {
			return err
		}
	}
	w.setup.Close()
	w.node.Cache.Drop(dbName)
	return nil
}

// commitW runs one WAL transaction through the setup connection.
func (w *world) commitW(pages []int, ns int) error {
	w.ver++
	pl := sim.Plan{Kind: "w", Ns: ns, M: pages, Out: "commit", V: w.ver, Wal: true}
	pg := w.pg
	if err := pg.BeginW(pl); err != nil {
		return err
	}
	if w.walFrames() == 0 {
		if err := pg.WHdr(w.ver); err != nil {
			return err
		}
	}
	for i, q := range pl.M {
		if err := pg.WFrame(q, false, i == len(pl.M)-1); err != nil {
			return err
		}
	}
	return pg.WEnd()
}

func (w *world) walPath() string { return filepath.Join(w.node.DBDir(dbName), "wal") }

func (w *world) walFrames() int64 {
	fi, err := os.Stat(w.walPath())
	if err != nil || fi.Size() < 32 {
		return 0
	}
	return (fi.Size() - 32) / (24 + int64(w.layout.PageSize))
}

func (w *world) refreshWalEnd() {
	w.walEnd = 32 + w.walFrames()*(24+int64(w.layout.PageSize))
}

func (w *world) close() {
	registryMu.Lock()
	delete(registry, w.db)
	registryMu.Unlock()
	_ = core.Try(func() {
		for _, c := range w.clients {
			c.Close()
		}
		w.spare.Close()
		w.setup.Close()
	})
	_ = core.Try(w.node.Close)
}

// onLock is installed on the twelve locks (H2). It records the transition and parks the gated
// goroutine, if one is running.
func (w *world) onLock(t litefs.LockType, prev, next litefs.RWMutexState) {
	ev := lockEv{Lock: lockNames[lockIndexOfType(t)], Prev: string(stateChar(prev)), Next: string(stateChar(next))}
	w.evMu.Lock()
	if w.evRecord {
		w.evLog = append(w.evLog, ev)
	}
	p := w.running
	w.evMu.Unlock()
	if p != nil {
		p.out <- procMsg{ev: ev}
		<-p.in
	}
}

func (w *world) setRunning(p *proc) {
	w.evMu.Lock()
	w.running = p
	w.evMu.Unlock()
}

func (w *world) record(on bool) []lockEv {
	w.evMu.Lock()
	defer w.evMu.Unlock()
	l := w.evLog
	w.evLog = nil
	w.evRecord = on
	return l
}

// ---- client requests ----

func byteOf(i int) uint64 { return uint64(lockTypes[i]) }

// rangeOf turns the lock list of a request into the byte range SQLite would use.
func rangeOf(ls []string) (start, end uint64, shm bool) {
	start, end = math.MaxUint64, 0
	for _, l := range ls {
		i := lockIndex(l)
		b, e := byteOf(i), byteOf(i)
		if l == "SHARED" {
			e = sim.SharedFirst + sim.SharedSize - 1
		}
		if b < start {
			start = b
		}
		if e > end {
			end = e
		}
		if i >= 3 {
			shm = true
		}
	}
	return
}

func (w *world) ensureOpen(c *sim.Conn, shm bool) error {
	if !c.DBOpen() {
		if err := c.OpenDB(false); err != nil {
			return fmt.Errorf("open database: %w", err)
		}
	}
	if shm && !c.SHMOpen() {
		if err := c.OpenSHM(); err != nil {
			return fmt.Errorf("open shm: %w", err)
		}
	}
	return nil
}

type reqResult struct {
	OK    bool
	Errno syscall.Errno
	Err   string
	Parts map[string]string // WalWrite: result per kind of write
}

// doReq issues one FUSE request of the model's vocabulary for connection c.
func (w *world) doReq(c *sim.Conn, r reqDef, predicted bool) (res reqResult, infra error) {
	var err error
	pn := core.Try(func() {
		switch r.T {
		case "R", "W", "U":
			start, end, shm := rangeOf(r.Ls)
			if r.N == "DbUnlockAll" {
				start, end = 0, math.MaxInt64 // what unixUnlock(NO_LOCK) sends: the whole file
			}
			if infra = w.ensureOpen(c, shm); infra != nil {
				return
			}
			typ := map[string]fuse.LockType{"R": fuse.LockRead, "W": fuse.LockWrite, "U": fuse.LockUnlock}[r.T]
			core.Beat("real:lock:" + r.N)
			if shm {
				err = c.LockSHM(typ, start, end)
			} else {
				err = c.LockDB(typ, start, end)
			}
		case "F":
			_, _, shm := rangeOf(r.Ls)
			core.Beat("real:flush:" + r.N)
			if shm {
				c.CloseSHM()
			} else {
				c.CloseDB()
			}
		case "A":
			res.Parts = map[string]string{}
			if infra = w.ensureOpen(c, true); infra != nil {
				return
			}
			if infra = c.OpenWAL(); infra != nil {
				return
			}
			core.Beat("real:walwrite")
			hdr := make([]byte, 24) // frame header with salts that do not match: never part of a transaction
			hdr[3] = 2
			e1 := c.WriteWAL(w.walEnd, hdr)
			e2 := c.WriteWAL(w.walEnd+24, make([]byte, w.layout.PageSize))
			res.Parts["frame-header"], res.Parts["frame-data"] = sim.ErrString(e1), sim.ErrString(e2)
			accepted := e1 == nil || e2 == nil
			err = e1
			if err == nil {
				err = e2
			}
			if !predicted {
				// an accepted WAL header write resets LiteFS's view of the log, so it is only probed where
				// the model predicts refusal (a refused write has no effect)
				wh := make([]byte, 32)
				wh[0], wh[1], wh[2], wh[3] = 0x37, 0x7f, 0x06, 0x82
				e3 := c.WriteWAL(0, wh)
				res.Parts["header"] = sim.ErrString(e3)
				accepted = accepted || e3 == nil
			}
			if accepted {
				err = nil
			}
		default:
			infra = fmt.Errorf("unknown request type %q", r.T)
		}
	})
	core.Beat("harness")
	if pn != nil {
		return res, fmt.Errorf("PANIC %s\n%s", pn.Value, pn.Stack)
	}
	res.Errno = sim.Errno(err)
	res.OK = err == nil
	res.Err = sim.ErrString(err)
	if infra == nil {
		w.kernUpdate(c, r, res.OK)
	}
	return res, infra
}

// ---- observation of the real lock table ----

type observed struct {
	M  string            // mutex states from Store.Expvar()
	G  map[string]string // guard states per owner (clients; internal writers while they hold a guard set)
	Cx map[string]string
	Cs map[string]string
}

type expvarJSON struct {
	DBs map[string]struct {
		Locks struct {
			Pending, Shared, Reserved, Write, Ckpt, Recover, Read0, Read1, Read2, Read3, Read4, DMS string
		} `json:"locks"`
	} `json:"dbs"`
}

// lockTable reads the per-lock mutex state from the store's expvar JSON.
func lockTable(store *litefs.Store, name string) (string, error) {
	var v expvarJSON
	if err := json.Unmarshal([]byte(store.Expvar().String()), &v); err != nil {
		return "", err
	}
	d, ok := v.DBs[name]
	if !ok {
		return "", fmt.Errorf("database %q not in expvar", name)
	}
	l := d.Locks
	var b []byte
	for _, s := range []string{l.Pending, l.Reserved, l.Shared, l.Write, l.Ckpt, l.Recover, l.Read0, l.Read1, l.Read2, l.Read3, l.Read4, l.DMS} {
		b = append(b, stateCharOfString(s))
	}
	return string(b), nil
}

func guardString(gs *litefs.GuardSet) string {
	if gs == nil {
		return "UUUUUUUUUUUU"
	}
	b := make([]byte, 12)
	for i, t := range lockTypes {
		b[i] = stateChar(gs.Guard(t).State())
	}
	return string(b)
}

func (w *world) observe(withQueries bool) observed {
	core.Beat("real:observe")
	defer core.Beat("harness")
	o := observed{G: map[string]string{}, Cx: map[string]string{}, Cs: map[string]string{}}
	m, err := lockTable(w.node.Store, dbName)
	if err != nil {
		core.Infra("expvar: %v", err)
	}
	o.M = m
	for _, c := range w.names {
		o.G[c] = guardString(w.db.GuardSet(clientIDs[c]))
	}
	for n, p := range w.procs {
		if p.inSection() {
			o.G[n] = guardString(p.gs)
		}
	}
	if withQueries {
		for _, c := range w.names {
			cx, cs := make([]byte, 12), make([]byte, 12)
			for i, t := range lockTypes {
				okx, _ := w.db.CanLock(context.Background(), clientIDs[c], []litefs.LockType{t})
				oks := w.db.CanRLock(context.Background(), clientIDs[c], []litefs.LockType{t})
				cx[i], cs[i] = '0', '0'
				if okx {
					cx[i] = '1'
				}
				if oks {
					cs[i] = '1'
				}
			}
			o.Cx[c], o.Cs[c] = string(cx), string(cs)
		}
	}
	return o
}

// diff compares an observation with the model's projection of a state; "" = equal.
func (o observed) diff(s *stateRec, procs map[string]*proc) string {
	var d []string
	if o.M != s.M {
		d = append(d, fmt.Sprintf("lock table %s, model %s", o.M, s.M))
	}
	for c, g := range o.G {
		if s.G[c] != g {
			d = append(d, fmt.Sprintf("guards of %s %s, model %s", c, g, s.G[c]))
		}
	}
	for c, x := range o.Cx {
		if s.Cx[c] != x {
			d = append(d, fmt.Sprintf("CanLock of %s %s, model %s", c, x, s.Cx[c]))
		}
	}
	for c, x := range o.Cs {
		if s.Cs[c] != x {
			d = append(d, fmt.Sprintf("CanRLock of %s %s, model %s", c, x, s.Cs[c]))
		}
	}
	for n, p := range procs {
		if want := s.Pc[n].St == "held"; want != p.inSection() {
			d = append(d, fmt.Sprintf("internal writer %s in section: %v, model %v", n, p.inSection(), want))
		}
	}
	return strings.Join(d, "; ")
}

// clientsHolding lists "owner:LOCK=state" for every conflicting lock a client connection holds: by
// LiteFS's own guard sets, and by the connection's own view (a lock it was granted and did not give up).
func (w *world) clientsHolding() []string {
	var out []string
	ids := map[string]uint64{"spare": spareOwner, "setup": setupOwner}
	for c := range w.clients {
		ids[c] = clientIDs[c]
	}
	var names []string
	for n := range ids {
		names = append(names, n)
	}
	sort.Strings(names)
	for _, n := range names {
		gs := w.db.GuardSet(ids[n])
		var kern []byte
		if c := w.clients[n]; c != nil {
			kern = w.kern[c]
		}
		one := func(i int, onlyExclusive bool) {
			st := litefs.RWMutexStateUnlocked
			if gs != nil {
				st = gs.Guard(lockTypes[i]).State()
			}
			if st != litefs.RWMutexStateUnlocked && (!onlyExclusive || st == litefs.RWMutexStateExclusive) {
				out = append(out, fmt.Sprintf("%s:%s=%s", n, lockNames[i], st))
				return
			}
			if kern != nil && kern[i] != 'U' && (!onlyExclusive || kern[i] == 'X') {
				out = append(out, fmt.Sprintf("%s:%s=%s (granted to the connection and not given up; LiteFS's guard set says %s)",
					n, lockNames[i], map[byte]string{'S': "shared", 'X': "exclusive"}[kern[i]], st))
			}
		}
		for _, i := range w.conflict {
			one(i, false)
		}
		for _, i := range w.xconflict {
			one(i, true)
		}
	}
	return out
}

// forgotten lists the locks a connection holds by its own view that LiteFS's guard set of that owner
// does not show (weaker or absent).
func (w *world) forgotten() []string {
	var out []string
	for _, n := range w.names {
		kern := w.kern[w.clients[n]]
		if kern == nil {
			continue
		}
		g := guardString(w.db.GuardSet(clientIDs[n]))
		for i := range lockNames {
			if kern[i] != 'U' && (g[i] == 'U' || (kern[i] == 'X' && g[i] != 'X')) {
				out = append(out, fmt.Sprintf("%s:%s held %c, guard set %c", n, lockNames[i], kern[i], g[i]))
			}
		}
	}
	return out
}

// entryProbe makes one complete, unpaused TryAcquireWriteLock (what apply, checkpoint, recover, import and
// halt start with) and releases it again. Monitor (R1): it is not granted while a connection holds a
// conflicting lock. Returns whether it was granted.
func (w *world) entryProbe(at string, replay any) bool {
	held := w.clientsHolding()
	w.setRunning(nil)
	var gs *litefs.GuardSet
	core.Beat("real:TryAcquireWriteLock:" + at)
	pn := core.Try(func() { gs = w.db.TryAcquireWriteLock() })
	core.Beat("harness")
	w.rep.Eval(1)
	if pn != nil {
		w.rep.Violate("C11.no-panic", "panic/TryAcquireWriteLock/"+at, pn, replay)
		return false
	}
	if gs == nil {
		return false
	}
	if sig := "entered-while-client-holds/" + firstLockOf(held) + "/" + w.mode + "/" + at; len(held) > 0 && w.probeSigs[sig] < 3 {
		// (the same failing input class is reported at most three times per world)
		if w.probeSigs == nil {
			w.probeSigs = map[string]int{}
		}
		w.probeSigs[sig]++
		w.rep.Violate("C11.enter-only-when-free", sig,
			map[string]any{"at": at, "clients_holding": held, "lock_table_inside": w.observe(false).M, "lock_order": strings.Join(lockNames, ",")}, replay)
	}
	gs.Unlock()
	return true
}

// readerProbe: while a connection holds PENDING or SHARED exclusively (by its own view) a new reader must
// be refused. Two connections excluding each other is not a clause of C11 (see C12): a grant is recorded
// as non-conformance of the lock table with the specification.
func (w *world) readerProbe(at string) {
	var excl []string
	for _, n := range w.names {
		k := w.kern[w.clients[n]]
		if k != nil && (k[0] == 'X' || k[2] == 'X') {
			excl = append(excl, n)
		}
	}
	if len(excl) == 0 {
		return
	}
	c := w.spare
	if err := w.ensureOpen(c, false); err != nil {
		core.Infra("spare connection: %v", err)
	}
	w.rep.Eval(1)
	core.Beat("real:reader-probe")
	defer core.Beat("harness")
	e1 := c.LockDB(fuse.LockRead, sim.PendingByte, sim.PendingByte)
	var e2 error
	if e1 == nil {
		e2 = c.LockDB(fuse.LockRead, sim.SharedFirst, sim.SharedFirst+sim.SharedSize-1)
	}
	_ = c.LockDB(fuse.LockUnlock, 0, math.MaxInt64)
	if e1 == nil && e2 == nil {
		w.rep.Nonconf("%s: a new connection was granted PENDING+SHARED read locks while %v hold(s) PENDING/SHARED exclusively (lock table %s)", at, excl, w.observe(false).M)
	}
}

// ---- reset between replays ----

// reset brings the real node back to the model's initial state: internal writers finish or release,
// every connection drops its locks.
func (w *world) reset() {
	w.setRunning(nil)
	for _, p := range w.procs {
		for p.active {
			// let the parked call run to its end without further pauses
			p.in <- struct{}{}
			w.drain(p)
		}
		if p.ahead && p.pending.done && p.pending.gs != nil && p.pending.gs != p.gs {
			p.pending.gs.Unlock()
		}
		p.ahead, p.pending = false, procMsg{}
		if p.gs != nil {
			p.gs.Unlock()
			p.gs = nil
		}
		p.relng = false
	}
	for _, c := range w.clients {
		w.dropLocks(c)
	}
	w.dropLocks(w.spare)
}

func (w *world) drain(p *proc) {
	select {
	case m := <-p.out:
		if m.done {
			p.active = false
			if m.gs != nil {
				m.gs.Unlock()
			}
		}
	case <-time.After(20 * time.Second):
		core.Infra("internal writer goroutine did not finish during reset")
	}
}

func (w *world) dropLocks(c *sim.Conn) {
	delete(w.kern, c)
	if c.DBOpen() {
		_ = c.LockDB(fuse.LockUnlock, 0, math.MaxInt64)
	}
	if c.SHMOpen() {
		_ = c.LockSHM(fuse.LockUnlock, 0, math.MaxInt64)
	}
}
