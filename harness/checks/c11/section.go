package main

import (
	"fmt"
	"runtime"
	"strings"
	"sync"
	"sync/atomic"
	"syscall"

	"bazil.org/fuse"
	"github.com/superfly/litefs"
	"github.com/superfly/litefs/verifharness/core"
	"github.com/superfly/litefs/verifharness/sim"
)

// entry points of LiteFS that change a database file on their own (innermost match wins)
var knownEntries = []string{"handlePostTx", "processLTXStreamFrame", "restoreDBFromBackup", "Import", "AcquireHaltLock",
	"Recover", "Checkpoint", "CheckpointNoLock", "ApplyLTXNoLock", "Open"}

// classifyStack names the LiteFS operation that is writing and tells client writes (a FUSE
// truncate/write request) from LiteFS's own.
func classifyStack() (entry string, client bool) {
	pcs := make([]uintptr, 48)
	n := runtime.Callers(3, pcs)
	frames := runtime.CallersFrames(pcs[:n])
	var chain []string
	for {
		f, more := frames.Next()
		if strings.Contains(f.Function, "github.com/superfly/litefs") && !strings.Contains(f.Function, "/verifharness/") {
			name := f.Function[strings.LastIndex(f.Function, "/")+1:]
			chain = append(chain, name)
			if strings.HasSuffix(name, "(*DB).TruncateDatabase") || strings.HasSuffix(name, "(*DB).WriteDatabaseAt") {
				client = true
			}
		}
		if !more {
			break
		}
	}
	for _, name := range chain {
		short := name[strings.LastIndex(name, ".")+1:]
		for _, k := range knownEntries {
			if short == k && short != "CheckpointNoLock" && short != "ApplyLTXNoLock" {
				return k, client
			}
		}
	}
	for _, name := range chain {
		short := name[strings.LastIndex(name, ".")+1:]
		if short == "CheckpointNoLock" || short == "ApplyLTXNoLock" {
			return short, client
		}
	}
	if len(chain) > 0 {
		return chain[len(chain)-1], client
	}
	return "unknown", client
}

var hookOnce sync.Once

// installHook sets the verif-tagged step hook once, before any node is opened. It is called at the
// entry of writeDatabasePage / truncateDatabase; internal=true marks LiteFS's own page writes.
func installHook() {
	hookOnce.Do(func() {
		litefs.VerifStepHook = func(db *litefs.DB, kind string, arg uint32, internal bool) {
			if !internal {
				return
			}
			w := lookupWorld(db)
			if w == nil {
				return // a database the check does not watch (or not yet registered: DB.Open before the node serves)
			}
			entry, client := classifyStack()
			if client {
				return
			}
			atomic.AddInt64(&w.hookCalls, 1)
			w.evMu.Lock()
			w.hookEntry[entry]++
			w.evMu.Unlock()
			w.sectionCheck(entry, fmt.Sprintf("%s(%d)", kind, arg))
		}
	})
}

type sectionDetail struct {
	Entry          string   `json:"entry"`
	At             string   `json:"at"`
	Mode           string   `json:"mode"`
	LockTable      string   `json:"lock_table"`
	LockOrder      string   `json:"lock_order"`
	NotExclusive   []string `json:"write_locks_not_exclusive"`
	ClientsHolding []string `json:"clients_holding_conflicting_locks"`
	Granted        []string `json:"client_attempts_granted"`
	Odd            []string `json:"client_attempts_with_unexpected_errno,omitempty"`
}

// sectionCheck is the key monitor (R1), evaluated from inside an internal page write / truncate (or,
// in the lock-level replay, at the model's IWrite step while the real guard set is held):
// (i) the mode's full write-lock set is held exclusively, (ii) no client owner holds a conflicting
// lock, (iii) client read- and write-lock attempts made right now are refused with EAGAIN.
func (w *world) sectionCheck(entry, at string) {
	core.Beat("real:section-check")
	defer core.Beat("harness")
	w.rep.Eval(3)
	d := sectionDetail{Entry: entry, At: at, Mode: w.mode, LockOrder: strings.Join(lockNames, ",")}
	m, err := lockTable(w.node.Store, dbName)
	if err != nil {
		core.Infra("expvar inside section: %v", err)
	}
	d.LockTable = m
	for _, i := range w.conflict {
		if m[i] != 'X' {
			d.NotExclusive = append(d.NotExclusive, lockNames[i]+"="+string(m[i]))
		}
	}
	d.ClientsHolding = w.clientsHolding()
	d.Granted, d.Odd = w.spareAttempts()
	w.rep.Case("section/"+entry+"/"+w.mode+"/"+m, true)
	var rp any
	if w.curReplay != nil {
		rp = w.curReplay()
	}
	switch {
	case len(d.NotExclusive) > 0:
		w.rep.Violate("C11.section-holds-write-locks", "write-set-not-held/"+entry+"/"+w.mode, d, rp)
	case len(d.ClientsHolding) > 0:
		w.rep.Violate("C11.no-client-lock-during-section", "client-holds-conflicting-lock/"+entry+"/"+w.mode, d, rp)
	case len(d.Granted) > 0:
		w.rep.Violate("C11.no-begin-during-section", "client-lock-granted-during-section/"+entry+"/"+w.mode, d, rp)
	}
	for _, o := range d.Odd {
		w.rep.Nonconf("section %s: client attempt %s", entry, o)
	}
}

// spareAttempts tries, through a spare connection and the real FUSE handlers, a read lock and a
// write lock on every conflicting lock; anything granted is reported and released again.
func (w *world) spareAttempts() (granted, odd []string) {
	c := w.spare
	shm := w.mode == "wal"
	if err := w.ensureOpen(c, shm); err != nil {
		core.Infra("spare connection: %v", err)
	}
	for _, i := range w.conflict {
		start, end, _ := rangeOf([]string{lockNames[i]})
		for _, typ := range []fuse.LockType{fuse.LockRead, fuse.LockWrite} {
			var err error
			if shm {
				err = c.LockSHM(typ, start, end)
			} else {
				err = c.LockDB(typ, start, end)
			}
			tn := map[fuse.LockType]string{fuse.LockRead: "read", fuse.LockWrite: "write"}[typ]
			switch en := sim.Errno(err); {
			case err == nil:
				granted = append(granted, tn+"("+lockNames[i]+")")
				if shm {
					_ = c.LockSHM(fuse.LockUnlock, start, end)
				} else {
					_ = c.LockDB(fuse.LockUnlock, start, end)
				}
			case en != syscall.EAGAIN:
				odd = append(odd, fmt.Sprintf("%s(%s) -> errno %d (%v)", tn, lockNames[i], en, err))
			}
		}
	}
	return
}
