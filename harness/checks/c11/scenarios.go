package main

import (
	"bytes"
	"context"
	"errors"
	"fmt"
	"io"
	"math/rand"
	"os"
	"sort"
	"sync/atomic"
	"time"

	"github.com/superfly/litefs"
	lhttp "github.com/superfly/litefs/http"
	"github.com/superfly/litefs/verifharness/core"
	"github.com/superfly/litefs/verifharness/sim"
)

const opTimeout = 50 * time.Millisecond

// prepare puts the database into a condition in which the internal operation has pages to write
// (a hot journal to roll back, committed frames to checkpoint).
func (w *world) prepare(op string) {
	switch {
	case w.mode == "rollback" && (op == "Recover" || op == "Halt" || op == "StoreRecover"):
		if _, err := os.Stat(w.db.JournalPath()); err == nil {
			return // still there from a refused attempt
		}
		w.must(w.hotJournal(), "hot journal")
	case w.mode == "wal" && op != "Import" && op != "AcquireWriteLock":
		if w.walFrames() == 0 {
			w.must(w.commitW([]int{1, 2}, 3), "WAL transaction")
			w.setup.Close()
			w.refreshWalEnd()
		}
	}
}

// afterInternal re-synchronises the pager simulator with what LiteFS did on its own.
func (w *world) afterInternal(op string, imported []sim.Content) {
	if imported != nil {
		w.pg.Ref = imported
	}
	if w.mode == "wal" && w.walFrames() == 0 {
		w.pg.ForgetWAL()
	}
	w.node.Cache.Drop(dbName)
	w.refreshWalEnd()
}

func (w *world) importImage() ([]byte, []sim.Content) {
	w.ver++
	model := []sim.Content{{V: w.ver, Sz: 3, Wal: w.mode == "wal"}, {V: w.ver}, {V: w.ver}}
	im := w.layout.ImageOf(model)
	var buf bytes.Buffer
	for p := uint32(1); p <= im.N; p++ {
		buf.Write(im.Pages[p])
	}
	return buf.Bytes(), model
}

type opOutcome struct {
	err      error
	panic    *core.Panic
	halt     *litefs.HaltLock
	gs       *litefs.GuardSet
	imported []sim.Content
}

// runOp calls one internal operation of the public API. An operation that has not entered its
// section after opTimeout is cancelled (it is being kept out); one that has entered is given time
// to finish, so that a slow machine cannot turn "proceeds" into "refused".
func (w *world) runOp(op string, haltID int64) (out opOutcome) {
	ctx, cancel := context.WithCancel(context.Background())
	defer cancel()
	core.Beat("real:op:" + op)
	defer core.Beat("harness")
	h0 := atomic.LoadInt64(&w.hookCalls)
	done := make(chan struct{})
	go func() {
		defer close(done)
		out.panic = core.Try(func() { w.runOp1(ctx, op, haltID, &out) })
	}()
	select {
	case <-done:
		return out
	case <-time.After(opTimeout):
	}
	entered := atomic.LoadInt64(&w.hookCalls) != h0
	if m, err := lockTable(w.node.Store, dbName); err == nil && !entered && len(w.clientsHolding()) == 0 {
		// the whole write set is exclusive and none of it belongs to a connection: the operation is inside
		entered = true
		for _, i := range w.conflict {
			if m[i] != 'X' {
				entered = false
			}
		}
	}
	if !entered {
		cancel()
	}
	select {
	case <-done:
	case <-time.After(30 * time.Second):
		w.rep.Violate("C11.no-hang", "hang/op/"+op, map[string]any{"op": op, "entered": entered}, nil)
		w.rep.Finish()
	}
	return out
}

func (w *world) runOp1(ctx context.Context, op string, haltID int64, out *opOutcome) {
	switch op {
	case "Recover":
		out.err = w.db.Recover(ctx)
	case "StoreRecover":
		out.err = w.node.Store.Recover(ctx)
	case "Checkpoint":
		out.err = w.db.Checkpoint(ctx)
	case "Import":
		img, model := w.importImage()
		out.err = w.db.Import(ctx, bytes.NewReader(img))
		if out.err == nil {
			out.imported = model
		}
	case "Halt":
		out.halt, out.err = w.db.AcquireHaltLock(ctx, haltID)
	case "AcquireWriteLock":
		out.gs, out.err = w.db.AcquireWriteLock(ctx, nil)
	case "TryAcquireWriteLock":
		out.gs = w.db.TryAcquireWriteLock()
		if out.gs == nil {
			out.err = errors.New("TryAcquireWriteLock returned nil")
		}
	default:
		core.Infra("unknown op %s", op)
	}
}

// heldState follows the internal writer's own steps from n to the state in which it holds its section.
func heldState(g *graph, n *node, who string) *node {
	cur := n
	for i := 0; i < 40; i++ {
		var next *node
		for j := range cur.rec.Outs {
			o := &cur.rec.Outs[j]
			if o.A == who && o.N == "IStep" {
				next = g.nodes[cur.rec.target(o)]
			}
		}
		if next == nil {
			return nil
		}
		if next.rec.Pc[who].St == "held" {
			return next
		}
		if next.rec.Pc[who].St != "acq" {
			return nil
		}
		cur = next
	}
	return nil
}

// operationsInStates runs real internal operations (public API) in client-lock configurations taken
// from the model's state graph and checks: the operation proceeds only if no client holds a
// conflicting lock (monitor), exactly when the model's uninterrupted attempt succeeds (conformance),
// and every page write it makes passes the section monitor (hook).
func operationsInStates(rep *core.Report, r *replayer, count int, rnd *rand.Rand) {
	w, g := r.w, r.g
	who := ""
	for n := range w.procs {
		who = n
	}
	var cands []*node
	for _, n := range g.order {
		if n.allIdle() && n.atGate() {
			cands = append(cands, n)
		}
	}
	rnd.Shuffle(len(cands), func(i, j int) { cands[i], cands[j] = cands[j], cands[i] })
	ops := []string{"Recover", "Import", "Halt", "StoreRecover", "AcquireWriteLock"}
	if w.mode == "wal" {
		ops = []string{"Checkpoint", "Recover", "Import", "Halt", "AcquireWriteLock", "StoreRecover"}
	}
	// every operation in every state in which the model lets the writer in; for the states that
	// keep it out: one per distinct (conflicting locks held) first, then random ones up to the budget
	type job struct {
		n  *node
		op string
	}
	var jobs []job
	seen := map[string]bool{}
	var first, rest []*node
	for _, n := range cands {
		if n.rec.Enter[who] {
			for _, op := range ops {
				jobs = append(jobs, job{n, op})
			}
			continue
		}
		k := ""
		for _, i := range w.conflict {
			k += string(n.rec.M[i])
		}
		if !seen[k] {
			seen[k] = true
			first = append(first, n)
		} else {
			rest = append(rest, n)
		}
	}
	// states with the fewest conflicting locks held are the most discriminating ones
	blockers := func(n *node) int {
		c := 0
		for _, i := range w.conflict {
			if n.rec.M[i] != 'U' {
				c++
			}
		}
		return c
	}
	sort.SliceStable(first, func(i, j int) bool { return blockers(first[i]) < blockers(first[j]) })
	for k, n := range append(first, rest...) {
		if len(jobs) >= count {
			break
		}
		jobs = append(jobs, job{n, ops[(k+int(rnd.Int31n(2)))%len(ops)]})
	}
	stats := map[string]int{}
	for k, j := range jobs {
		n, op := j.n, j.op
		if len(w.node.Exits()) > 0 {
			break
		}
		w.reset()
		w.prepare(op)
		desc := func() any {
			var p []outRec
			for _, e := range n.path() {
				p = append(p, *e)
			}
			return map[string]any{"kind": "operation", "cfg": g.cfg, "mode": w.mode, "op": op, "path": p}
		}
		if !r.goTo(n) {
			continue
		}
		w.curReplay = desc
		held := w.clientsHolding()
		predicted := n.rec.Enter[who]
		hook0 := atomic.LoadInt64(&w.hookCalls)
		haltID := int64(1000 + k)
		out := w.runOp(op, haltID)
		rep.Eval(3)
		rep.Case("op/"+w.mode+"/"+op+"/"+n.key, len(held) > 0 || !predicted || true)
		if out.panic != nil {
			rep.Violate("C11.no-panic", "panic/op/"+op, out.panic, desc())
			break
		}
		proceeded := out.err == nil
		stats[op+fmt.Sprintf("/proceeded=%v", proceeded)]++
		// monitor: an internal attempt while a client holds a conflicting lock does not proceed
		if proceeded && len(held) > 0 {
			rep.Violate("C11.enter-only-when-free", "operation-proceeded-while-client-holds/"+op+"/"+firstLockOf(held)+"/"+w.mode,
				map[string]any{"op": op, "clients_holding": held, "hook_calls": atomic.LoadInt64(&w.hookCalls) - hook0}, desc())
		}
		if !proceeded && atomic.LoadInt64(&w.hookCalls) != hook0 {
			rep.Violate("C11.enter-only-when-free", "pages-written-by-refused-operation/"+op+"/"+w.mode,
				map[string]any{"op": op, "error": out.err.Error(), "hook_calls": atomic.LoadInt64(&w.hookCalls) - hook0}, desc())
		}
		// conformance with the model's uninterrupted attempt
		if proceeded != predicted {
			rep.Nonconf("%s: %s in state %s proceeded=%v (%v), model predicts %v", g.cfg, op, n.key, proceeded, out.err, predicted)
		}
		if proceeded {
			switch {
			case out.halt != nil:
				// the guard set is pinned: the lock table must be the model's "held" state
				if h := heldState(g, n, who); h != nil {
					o := w.observe(false)
					if o.M != h.rec.M {
						rep.Nonconf("%s: lock table under halt lock %s, model %s", g.cfg, o.M, h.rec.M)
					}
				}
				w.sectionCheck("halt-lock-held", "after AcquireHaltLock")
				w.db.ReleaseHaltLock(context.Background(), haltID)
			case out.gs != nil:
				w.sectionCheck("AcquireWriteLock-held", "after AcquireWriteLock")
				out.gs.Unlock()
			}
			w.afterInternal(op, out.imported)
		}
		// afterwards only the clients' locks remain
		if o := w.observe(false); o.M != n.rec.M {
			rep.Nonconf("%s: lock table after %s is %s, model state has %s", g.cfg, op, o.M, n.rec.M)
		}
		// leave a clean database behind: without client locks the same operation must go through
		if !proceeded {
			w.reset()
			out2 := w.runOp(op, haltID)
			if out2.err != nil || out2.panic != nil {
				rep.Nonconf("%s: %s refused although no client holds a lock: %v", g.cfg, op, out2.err)
			} else {
				if out2.halt != nil {
					w.db.ReleaseHaltLock(context.Background(), haltID)
				}
				if out2.gs != nil {
					out2.gs.Unlock()
				}
				w.afterInternal(op, out2.imported)
			}
		}
		if ex := w.node.Exits(); len(ex) > 0 {
			rep.Violate("C11.no-exit", "exit/op/"+op+"/"+w.mode, map[string]any{"codes": ex}, desc())
		}
	}
	w.curReplay = nil
	w.reset()
	w.evMu.Lock()
	entries := map[string]int{}
	for e, c := range w.hookEntry {
		entries[e] = c
	}
	w.evMu.Unlock()
	rep.Extra["operations_"+g.cfg] = map[string]any{"outcomes": stats, "internal_page_writes_by_entry_point": entries}
}

// snapshotSequences: WriteSnapshotTo / Export on an idle database; the recorded lock transitions
// are compared with the specification's snapshot program (conformance).
func snapshotSequences(rep *core.Report, w *world, pl progLine) {
	w.reset()
	for _, which := range []string{"WriteSnapshotTo", "Export"} {
		w.record(true)
		var err error
		ctx, cancel := context.WithTimeout(context.Background(), 5*time.Second)
		pn := core.Try(func() {
			if which == "Export" {
				_, err = w.db.Export(ctx, io.Discard)
			} else {
				_, _, err = w.db.WriteSnapshotTo(ctx, io.Discard)
			}
		})
		cancel()
		got := w.record(false)
		if pn != nil {
			rep.Violate("C11.no-panic", "panic/"+which, pn, nil)
			continue
		}
		if err != nil {
			rep.Nonconf("%s on an idle %s database failed: %v", which, w.mode, err)
			continue
		}
		prog := pl
		if which == "Export" {
			// Export keeps CKPT and RECOVER until the deferred Unlock, and (since the repair of the
			// C10 finding) keeps the temporary WRITE lock until READ4 is held
			prog.Snap = nil
			for _, s := range pl.Snap {
				if s.Op == "U" && (s.L == "CKPT" || s.L == "RECOVER" || s.L == "WRITE") {
					continue
				}
				prog.Snap = append(prog.Snap, s)
				if s.Op == "R" && s.L == "READ4" && w.mode == "wal" {
					u := s
					u.Op, u.L = "U", "WRITE"
					prog.Snap = append(prog.Snap, u)
				}
			}
		}
		rep.Eval(1)
		if want := expectedSnapshot(prog); !sameEvents(got, want) {
			rep.Nonconf("%s mode: lock transitions of %s %v differ from the specification's snapshot program %v", w.mode, which, got, want)
		}
	}
	// a snapshot does not start while an internal writer is in its section, and vice versa
	gs := w.db.TryAcquireWriteLock()
	if gs != nil {
		ctx, cancel := context.WithTimeout(context.Background(), opTimeout)
		_, _, err := w.db.WriteSnapshotTo(ctx, io.Discard)
		cancel()
		rep.Eval(1)
		if err == nil {
			rep.Nonconf("%s mode: WriteSnapshotTo completed while an internal writer held the write lock", w.mode)
		}
		gs.Unlock()
	}
}

// identical reports whether two worlds hold the same database position.
func samePos(a, b *world) bool { return a.db.Pos() == b.db.Pos() }

// txScenario: POST /tx on a primary. As coded the handler applies the forwarded file without taking
// the write lock and without checking for a halt lock, so the section monitor fails inside
// ApplyLTXNoLock (known finding). With the halt lock held by the sender the same request is legal
// and must pass the monitor.
func txScenario(rep *core.Report, layout sim.Layout) {
	cl := sim.NewCluster(core.Scratch("c11-tx"))
	defer cl.Close()
	cl.Lease.AllowOnly()
	p, err := cl.Start("p", sim.ClusterNodeOpts{Candidate: true})
	if err != nil {
		core.Infra("start primary: %v", err)
	}
	if err := cl.Elect("p", 10*time.Second); err != nil {
		core.Infra("elect: %v", err)
	}
	wp := &world{rep: rep, mode: "rollback", layout: layout, clients: map[string]*sim.Conn{}, procs: map[string]*proc{}, hookEntry: map[string]int{}}
	wp.attach(p.Node, []string{"a"}, nil)
	wp.createDatabase()
	defer func() { registryMu.Lock(); delete(registry, wp.db); registryMu.Unlock() }()
	// scratch node with the same history
	wq := openWorld(rep, "rollback", nil, nil, layout, nil)
	defer wq.close()
	if !samePos(wp, wq) {
		core.Infra("scratch node and primary differ after identical transactions: %s vs %s", wp.db.Pos(), wq.db.Pos())
	}
	client := lhttp.NewClient()
	send := func(lockID int64) (error, int64) {
		pos := wq.db.Pos()
		f, err := os.Open(wq.db.LTXPath(pos.TXID, pos.TXID))
		if err != nil {
			core.Infra("open forwarded ltx: %v", err)
		}
		defer f.Close()
		h0 := atomic.LoadInt64(&wp.hookCalls)
		ctx, cancel := context.WithTimeout(context.Background(), 10*time.Second)
		defer cancel()
		core.Beat("real:POST /tx")
		err = client.Commit(ctx, p.URL, wq.node.Store.ID(), dbName, lockID, f)
		core.Beat("harness")
		return err, atomic.LoadInt64(&wp.hookCalls) - h0
	}
	// 1. no halt lock at all; an application connection on the primary holds a read lock
	wq.must(wq.commitJ([]int{1, 2}, 3, false), "transaction on scratch node")
	rd := []reqDef{{N: "PendR", T: "R", Ls: []string{"PENDING"}}, {N: "SharedR", T: "R", Ls: []string{"SHARED"}}, {N: "PendU", T: "U", Ls: []string{"PENDING"}}}
	for _, q := range rd {
		if res, e := wp.doReq(wp.clients["a"], q, true); e != nil || !res.OK {
			core.Infra("reader on primary: %v %v", e, res.Err)
		}
	}
	wp.curReplay = func() any { return map[string]any{"kind": "tx", "halt_lock": "none", "reader_on_primary": true} }
	err1, hooks1 := send(999)
	rep.Eval(1)
	rep.Case("tx/no-halt-lock", true)
	txStats := map[string]any{"no_halt_lock": map[string]any{"error": fmt.Sprint(err1), "internal_page_writes": hooks1}}
	if err1 == nil && hooks1 == 0 {
		rep.Nonconf("/tx without halt lock answered 200 but wrote no page")
	}
	wp.reset()
	// 2. the legal use: the sender holds the halt lock
	if err1 != nil {
		rep.Note("/tx without a halt lock was refused (%v): the defect recorded as known finding tx-without-write-lock no longer reproduces", err1)
	} else {
		wq.must(wq.commitJ([]int{1, 3}, 3, false), "second transaction on scratch node")
	}
	wp.node.Cache.Drop(dbName)
	ctx, cancel := context.WithTimeout(context.Background(), 5*time.Second)
	hl, herr := wp.db.AcquireHaltLock(ctx, 4242)
	cancel()
	if herr != nil || hl == nil {
		rep.Nonconf("AcquireHaltLock on an idle primary failed: %v", herr)
	} else {
		wp.curReplay = func() any { return map[string]any{"kind": "tx", "halt_lock": "held by sender"} }
		err2, hooks2 := send(4242)
		rep.Eval(1)
		rep.Case("tx/halt-lock-held", true)
		txStats["halt_lock_held"] = map[string]any{"error": fmt.Sprint(err2), "internal_page_writes": hooks2}
		if err2 != nil {
			rep.Nonconf("/tx under the sender's halt lock failed: %v", err2)
		} else if hooks2 == 0 {
			rep.Nonconf("/tx under the sender's halt lock wrote no page")
		}
		wp.db.ReleaseHaltLock(context.Background(), 4242)
		if m := wp.observe(false).M; m != "UUUUUUUUUUUU" {
			rep.Nonconf("lock table after ReleaseHaltLock: %s", m)
		}
	}
	if ex := p.Node.Exits(); len(ex) > 0 {
		txStats["exits"] = ex
	}
	rep.Extra["tx_scenario"] = txStats
	wp.curReplay = nil
}

// replicaScenario: a streamed transaction is applied on a replica (Store.processLTXStreamFrame takes
// AcquireWriteLock). While an application connection on the replica holds a conflicting read lock
// the apply must not proceed; once released it proceeds and its page writes pass the section monitor.
func replicaScenario(rep *core.Report, mode string, layout sim.Layout) {
	cl := sim.NewCluster(core.Scratch("c11-repl-" + mode))
	defer cl.Close()
	cl.Lease.AllowOnly()
	p, err := cl.Start("p", sim.ClusterNodeOpts{Candidate: true})
	if err != nil {
		core.Infra("start primary: %v", err)
	}
	if err := cl.Elect("p", 10*time.Second); err != nil {
		core.Infra("elect: %v", err)
	}
	wp := &world{rep: rep, mode: mode, layout: layout, clients: map[string]*sim.Conn{}, procs: map[string]*proc{}, hookEntry: map[string]int{}}
	wp.attach(p.Node, nil, nil)
	wp.createDatabase()
	defer func() { registryMu.Lock(); delete(registry, wp.db); registryMu.Unlock() }()
	// the replica joins afterwards: the snapshot the primary sends it takes SHARED for a moment and would
	// make the (non-retrying) pager simulator's EXCLUSIVE request busy
	rn, err := cl.Start("r", sim.ClusterNodeOpts{Candidate: false})
	if err != nil {
		core.Infra("start replica: %v", err)
	}
	if err := cl.WaitPos("r", dbName, wp.db.Pos(), 10*time.Second); err != nil {
		core.Infra("replica did not catch up: %v", err)
	}
	wr := &world{rep: rep, mode: mode, layout: layout, clients: map[string]*sim.Conn{}, procs: map[string]*proc{}, hookEntry: map[string]int{}}
	wr.attach(rn.Node, []string{"a"}, nil)
	wr.db = rn.Node.Store.DB(dbName)
	register(wr.db, wr)
	defer func() { registryMu.Lock(); delete(registry, wr.db); registryMu.Unlock() }()
	wr.curReplay = func() any { return map[string]any{"kind": "replica-apply", "mode": mode} }
	// reader on the replica
	rd := []reqDef{{N: "PendR", T: "R", Ls: []string{"PENDING"}}, {N: "SharedR", T: "R", Ls: []string{"SHARED"}}, {N: "PendU", T: "U", Ls: []string{"PENDING"}}}
	if mode == "wal" {
		rd = append(rd, reqDef{N: "DmsR", T: "R", Ls: []string{"DMS"}}, reqDef{N: "Read2R", T: "R", Ls: []string{"READ2"}})
	}
	for _, q := range rd {
		// the replica may still be releasing the locks of the apply that produced the awaited position:
		// retry like SQLite's busy handler
		deadline := time.Now().Add(3 * time.Second)
		for {
			res, e := wr.doReq(wr.clients["a"], q, true)
			if e == nil && res.OK {
				break
			}
			if e != nil || time.Now().After(deadline) {
				rep.Nonconf("reader on replica (%s): request %s failed: %v %s", mode, q.N, e, res.Err)
				return
			}
			time.Sleep(time.Millisecond)
		}
	}
	held := wr.clientsHolding()
	before := wr.db.Pos()
	if mode == "wal" {
		wp.must(wp.commitW([]int{1, 2}, 3), "WAL transaction on primary")
	} else {
		wp.must(wp.commitJ([]int{1, 2}, 3, false), "transaction on primary")
	}
	wp.setup.Close()
	want := wp.db.Pos()
	core.Beat("real:replica-apply-blocked")
	time.Sleep(150 * time.Millisecond)
	rep.Eval(2)
	rep.Case("replica-apply/"+mode, true)
	if got := wr.db.Pos(); got != before || atomic.LoadInt64(&wr.hookCalls) != 0 {
		rep.Violate("C11.enter-only-when-free", "replica-apply-proceeded-while-client-holds/"+firstLockOf(held)+"/"+mode,
			map[string]any{"clients_holding": held, "pos_before": before.String(), "pos_now": got.String(), "internal_page_writes": atomic.LoadInt64(&wr.hookCalls)}, wr.curReplay())
	}
	wr.reset()
	core.Beat("real:replica-apply")
	if err := cl.WaitPos("r", dbName, want, 10*time.Second); err != nil {
		rep.Nonconf("replica (%s) did not apply the transaction after the reader released its lock: %v", mode, err)
	}
	core.Beat("harness")
	n := atomic.LoadInt64(&wr.hookCalls)
	if n == 0 {
		rep.Nonconf("replica (%s) applied a transaction without an observed page write", mode)
	}
	var entries []string
	wr.evMu.Lock()
	for e := range wr.hookEntry {
		entries = append(entries, e)
	}
	wr.evMu.Unlock()
	sort.Strings(entries)
	rep.Extra["replica_apply_"+mode] = map[string]any{"internal_page_writes": n, "entry_points": entries, "reader_held": held}
	if ex := rn.Node.Exits(); len(ex) > 0 {
		rep.Violate("C11.no-exit", "exit/replica-apply/"+mode, map[string]any{"codes": ex}, wr.curReplay())
	}
}
