package main

import (
	"bazil.org/fuse"
	"bytes"
	"context"
	"errors"
	"fmt"
	"io"
	"math/rand"
	"os"
	"sort"
	"sync/atomic"
	"time"

	"github.com/superfly/litefs"
	lhttp "github.com/superfly/litefs/http"
	"github.com/superfly/litefs/verifharness/core"
	"github.com/superfly/litefs/verifharness/sim"
)

const opTimeout = 50 * time.Millisecond

// prepare puts the database into a condition in which the internal operation has pages to write
// (a hot journal to roll back, committed frames to checkpoint).
func (w *world) prepare(op string) {
	switch {
	case w.mode == "rollback" && (op == "Recover" || op == "Halt" || op == "StoreRecover"):
		if _, err := os.Stat(w.db.JournalPath()); err == nil {
			return // still there from a refused attempt
		}
		w.must(w.hotJournal(), "hot journal")
	case w.mode == "wal" && op != "Import" && op != "AcquireWriteLock":
		if w.walFrames() == 0 {
			w.must(w.commitW([]int{1, 2}, 3), "WAL transaction")
			w.setup.Close()
			w.refreshWalEnd()
		}
	}
}

// afterInternal re-synchronises the pager simulator with what LiteFS did on its own.
func (w *world) afterInternal(op string, imported []sim.Content) {
	if imported != nil {
		w.pg.Ref = imported
	}
	if w.mode == "wal" && w.walFrames() == 0 {
		w.pg.ForgetWAL()
	}
	w.node.Cache.Drop(dbName)
	w.refreshWalEnd()
}

func (w *world) importImage() ([]byte, []sim.Content) {
	w.ver++
	model := []sim.Content{{V: w.ver, Sz: 3, Wal: w.mode == "wal"}, {V: w.ver}, {V: w.ver}}
	im := w.layout.ImageOf(model)
	var buf bytes.Buffer
	for p := uint32(1); p <= im.N; p++ {
		buf.Write(im.Pages[p])
	}
	return buf.Bytes(), model
}

type opOutcome struct {
	err      error
	panic    *core.Panic
	halt     *litefs.HaltLock
	gs       *litefs.GuardSet
	imported []sim.Content
}

// runOp calls one internal operation of the public API. An operation that has not entered its
// section after opTimeout is cancelled (it is being kept out); one that has entered is given time
// to finish, so that a slow machine cannot turn "proceeds" into "refused".
func (w *world) runOp(op string, haltID int64) (out opOutcome) {
	ctx, cancel := context.WithCancel(context.Background())
	defer cancel()
	core.Beat("real:op:" + op)
	defer core.Beat("harness")
	h0 := atomic.LoadInt64(&w.hookCalls)
	done := make(chan struct{})
	go func() {
		defer close(done)
		out.panic = core.Try(func() { w.runOp1(ctx, op, haltID, &out) })
	}()
	select {
	case <-done:
		return out
	case <-time.After(opTimeout):
	}
	entered := atomic.LoadInt64(&w.hookCalls) != h0
	if m, err := lockTable(w.node.Store, dbName); err == nil && !entered && len(w.clientsHolding()) == 0 {
		// the whole write set is exclusive and none of it belongs to a connection: the operation is inside
		entered = true
		for _, i := range w.conflict {
			if m[i] != 'X' {
				entered = false
			}
		}
	}
	if !entered {
		cancel()
	}
	select {
	case <-done:
	case <-time.After(30 * time.Second):
		w.rep.Violate("C11.no-hang", "hang/op/"+op, map[string]any{"op": op, "entered": entered}, nil)
		w.rep.Finish()
	}
	return out
}

func (w *world) runOp1(ctx context.Context, op string, haltID int64, out *opOutcome) {
	switch op {
	case "Recover":
		out.err = w.db.Recover(ctx)
	case "StoreRecover":
		out.err = w.node.Store.Recover(ctx)
	case "Checkpoint":
		out.err = w.db.Checkpoint(ctx)
	case "Import":
		img, model := w.importImage()
		out.err = w.db.Import(ctx, bytes.NewReader(img))
		if out.err == nil {
			out.imported = model
		}
	case "Halt":
		out.halt, out.err = w.db.AcquireHaltLock(ctx, haltID)
	case "AcquireWriteLock":
		out.gs, out.err = w.db.AcquireWriteLock(ctx, nil)
	case "TryAcquireWriteLock":
		out.gs = w.db.TryAcquireWriteLock()
		if out.gs == nil {
			out.err = errors.New("TryAcquireWriteLock returned nil")
		}
	default:
		core.Infra("unknown op %s", op)
	}
}

// heldState follows the internal writer's own steps from n to the state in which it holds its section.
func heldState(g *graph, n *node, who string) *node {
	cur := n
	for i := 0; i < 40; i++ {
		var next *node
		for j := range cur.rec.Outs {
			o := &cur.rec.Outs[j]
			if o.A == who && o.N == "IStep" {
				next = g.nodes[cur.rec.target(o)]
			}
		}
		if next == nil {
			return nil
		}
		if next.rec.Pc[who].St == "held" {
			return next
		}
		if next.rec.Pc[who].St != "acq" {
			return nil
		}
		cur = next
	}
	return nil
}

// operationsInStates runs real internal operations (public API) in client-lock configurations taken
// from the model's state graph and checks: the operation proceeds only if no client holds a
// conflicting lock (monitor), exactly when the model's uninterrupted attempt succeeds (conformance),
// and every page write it makes passes the section monitor (hook).
func operationsInStates(rep *core.Report, r *replayer, count int, rnd *rand.Rand) {
	w, g := r.w, r.g
	who := ""
	for n := range w.procs {
		who = n
	}
	var cands []*node
	for _, n := range g.order {
		if n.allIdle() && n.atGate() {
			cands = append(cands, n)
		}
	}
	rnd.Shuffle(len(cands), func(i, j int) { cands[i], cands[j] = cands[j], cands[i] })
	ops := []string{"Recover", "Import", "Halt", "StoreRecover", "AcquireWriteLock"}
	if w.mode == "wal" {
		ops = []string{"Checkpoint", "Recover", "Import", "Halt", "AcquireWriteLock", "StoreRecover"}
	}
	// every operation in every state in which the model lets the writer in; for the states that
	// keep it out: one per distinct (conflicting locks held) first, then random ones up to the budget
	type job struct {
		n  *node
		op string
	}
	var jobs []job
	seen := map[string]bool{}
	var first, rest []*node
	for _, n := range cands {
		if n.rec.Enter[who] {
			for _, op := range ops {
				jobs = append(jobs, job{n, op})
			}
			continue
		}
		k := ""
		for _, i := range w.conflict {
			k += string(n.rec.M[i])
		}
		if !seen[k] {
			seen[k] = true
			first = append(first, n)
		} else {
			rest = append(rest, n)
		}
	}
	// states with the fewest conflicting locks held are the most discriminating ones
	blockers := func(n *node) int {
		c := 0
		for _, i := range w.conflict {
			if n.rec.M[i] != 'U' {
				c++
			}
		}
		return c
	}
	sort.SliceStable(first, func(i, j int) bool { return blockers(first[i]) < blockers(first[j]) })
	for k, n := range append(first, rest...) {
		if len(jobs) >= count {
			break
		}
		jobs = append(jobs, job{n, ops[(k+int(rnd.Int31n(2)))%len(ops)]})
	}
	stats := map[string]int{}
	for k, j := range jobs {
		n, op := j.n, j.op
		if len(w.node.Exits()) > 0 {
			break
		}
		w.reset()
		w.prepare(op)
		desc := func() any {
			var p []outRec
			for _, e := range n.path() {
				p = append(p, *e)
			}
			return map[string]any{"kind": "operation", "cfg": g.cfg, "mode": w.mode, "op": op, "path": p}
		}
		if !r.goTo(n) {
			continue
		}
		w.curReplay = desc
		held := w.clientsHolding()
		predicted := n.rec.Enter[who]
		hook0 := atomic.LoadInt64(&w.hookCalls)
		haltID := int64(1000 + k)
		out := w.runOp(op, haltID)
		rep.Eval(3)
		rep.Case("op/"+w.mode+"/"+op+"/"+n.key, len(held) > 0 || !predicted || true)
		if out.panic != nil {
			rep.Violate("C11.no-panic", "panic/op/"+op, out.panic, desc())
			break
		}
		proceeded := out.err == nil
		stats[op+fmt.Sprintf("/proceeded=%v", proceeded)]++
		// monitor: an internal attempt while a client holds a conflicting lock does not proceed
		if proceeded && len(held) > 0 {
			rep.Violate("C11.enter-only-when-free", "operation-proceeded-while-client-holds/"+op+"/"+firstLockOf(held)+"/"+w.mode,
				map[string]any{"op": op, "clients_holding": held, "hook_calls": atomic.LoadInt64(&w.hookCalls) - hook0}, desc())
		}
		if !proceeded && atomic.LoadInt64(&w.hookCalls) != hook0 {
			rep.Violate("C11.enter-only-when-free", "pages-written-by-refused-operation/"+op+"/"+w.mode,
				map[string]any{"op": op, "error": out.err.Error(), "hook_calls": atomic.LoadInt64(&w.hookCalls) - hook0}, desc())
		}
		// conformance with the model's uninterrupted attempt
		if proceeded != predicted {
			rep.Nonconf("%s: %s in state %s proceeded=%v (%v), model predicts %v", g.cfg, op, n.key, proceeded, out.err, predicted)
		}
		if proceeded {
			switch {
			case out.halt != nil:
				// the guard set is pinned: the lock table must be the model's "held" state
				if h := heldState(g, n, who); h != nil {
					o := w.observe(false)
					if o.M != h.rec.M {
						rep.Nonconf("%s: lock table under halt lock %s, model %s", g.cfg, o.M, h.rec.M)
					}
				}
				w.sectionCheck("halt-lock-held", "after AcquireHaltLock")
				w.db.ReleaseHaltLock(context.Background(), haltID)
			case out.gs != nil:
				w.sectionCheck("AcquireWriteLock-held", "after AcquireWriteLock")
				out.gs.Unlock()
			}
			w.afterInternal(op, out.imported)
		}
		// afterwards only the clients' locks remain
		if o := w.observe(false); o.M != n.rec.M {
			rep.Nonconf("%s: lock table after %s is %s, model state has %s", g.cfg, op, o.M, n.rec.M)
		}
		// leave a clean database behind: without client locks the same operation must go through
		if !proceeded {
			w.reset()
			out2 := w.runOp(op, haltID)
			if out2.err != nil || out2.panic != nil {
				rep.Nonconf("%s: %s refused although no client holds a lock: %v", g.cfg, op, out2.err)
			} else {
				if out2.halt != nil {
					w.db.ReleaseHaltLock(context.Background(), haltID)
				}
				if out2.gs != nil {
					out2.gs.Unlock()
				}
				w.afterInternal(op, out2.imported)
			}
		}
		if ex := w.node.Exits(); len(ex) > 0 {
			rep.Violate("C11.no-exit", "exit/op/"+op+"/"+w.mode, map[string]any{"codes": ex}, desc())
		}
	}
	w.curReplay = nil
	w.reset()
	w.evMu.Lock()
	entries := map[string]int{}
	for e, c := range w.hookEntry {
		entries[e] = c
	}
	w.evMu.Unlock()
	rep.Extra["operations_"+g.cfg] = map[string]any{"outcomes": stats, "internal_page_writes_by_entry_point": entries}
}

// snapshotSequences: WriteSnapshotTo / Export on an idle database; the recorded lock transitions
// are compared with the specification's snapshot program (conformance).
func snapshotSequences(rep *core.Report, w *world, pl progLine) {
	w.reset()
	for _, which := range []string{"WriteSnapshotTo", "Export"} {
		w.record(true)
		var err error
		ctx, cancel := context.WithTimeout(context.Background(), 5*time.Second)
		pn := core.Try(func() {
			if which == "Export" {
				_, err = w.db.Export(ctx, io.Discard)
			} else {
				_, _, err = w.db.WriteSnapshotTo(ctx, io.Discard)
			}
		})
		cancel()
		got := w.record(false)
		if pn != nil {
			rep.Violate("C11.no-panic", "panic/"+which, pn, nil)
			continue
		}
		if err != nil {
			rep.Nonconf("%s on an idle %s database failed: %v", which, w.mode, err)
			continue
		}
		prog := pl
		if which == "Export" {
			// Export keeps CKPT and RECOVER until the deferred Unlock, and (since the repair of the
			// C10 finding) keeps the temporary WRITE lock until READ4 is held
			prog.Snap = nil
			for _, s := range pl.Snap {
				if s.Op == "U" && (s.L == "CKPT" || s.L == "RECOVER" || s.L == "WRITE") {
					continue
				}
				prog.Snap = append(prog.Snap, s)
				if s.Op == "R" && s.L == "READ4" && w.mode == "wal" {
					u := s
					u.Op, u.L = "U", "WRITE"
					prog.Snap = append(prog.Snap, u)
				}
			}
		}
		rep.Eval(1)
		if want := expectedSnapshot(prog); !sameEvents(got, want) {
			rep.Nonconf("%s mode: lock transitions of %s %v differ from the specification's snapshot program %v", w.mode, which, got, want)
		}
	}
	// a snapshot does not start while an internal writer is in its section, and vice versa
	gs := w.db.TryAcquireWriteLock()
	if gs != nil {
		ctx, cancel := context.WithTimeout(context.Background(), opTimeout)
		_, _, err := w.db.WriteSnapshotTo(ctx, io.Discard)
		cancel()
		rep.Eval(1)
		if err == nil {
			rep.Nonconf("%s mode: WriteSnapshotTo completed while an internal writer held the write lock", w.mode)
		}
		gs.Unlock()
	}
}

// identical reports whether two worlds hold the same database position.
func samePos(a, b *world) bool { return a.db.Pos() == b.db.Pos() }

// txScenario: POST /tx on a primary. As coded the handler applies the forwarded file without taking
// the write lock and without checking for a halt lock, so the section monitor fails inside
// ApplyLTXNoLock (known finding). With the halt lock held by the sender the same request is legal
// and must pass the monitor.
func txScenario(rep *core.Report, layout sim.Layout) {
	cl := sim.NewCluster(core.Scratch("c11-tx"))
	defer cl.Close()
	cl.Lease.AllowOnly()
	p, err := cl.Start("p", sim.ClusterNodeOpts{Candidate: true})
	if err != nil {
		core.Infra("start primary: %v", err)
	}
	if err := cl.Elect("p", 10*time.Second); err != nil {
		core.Infra("elect: %v", err)
	}
	wp := &world{rep: rep, mode: "rollback", layout: layout, clients: map[string]*sim.Conn{}, procs: map[string]*proc{}, hookEntry: map[string]int{}}
	wp.attach(p.Node, []string{"a"}, nil)
	wp.createDatabase()
	defer func() { registryMu.Lock(); delete(registry, wp.db); registryMu.Unlock() }()
	// scratch node with the same history
	wq := openWorld(rep, "rollback", nil, nil, layout, nil)
	defer wq.close()
	if !samePos(wp, wq) {
		core.Infra("scratch node and primary differ after identical transactions: %s vs %s", wp.db.Pos(), wq.db.Pos())
	}
	client := lhttp.NewClient()
	send := func(lockID int64) (error, int64) {
		pos := wq.db.Pos()
		f, err := os.Open(wq.db.LTXPath(pos.TXID, pos.TXID))
		if err != nil {
			core.Infra("open forwarded ltx: %v", err)
		}
		defer f.Close()
		h0 := atomic.LoadInt64(&wp.hookCalls)
		ctx, cancel := context.WithTimeout(context.Background(), 10*time.Second)
		defer cancel()
		core.Beat("real:POST /tx")
		err = client.Commit(ctx, p.URL, wq.node.Store.ID(), dbName, lockID, f)
		core.Beat("harness")
		return err, atomic.LoadInt64(&wp.hookCalls) - h0
	}
	// 1. no halt lock at all; an application connection on the primary holds a read lock
	wq.must(wq.commitJ([]int{1, 2}, 3, false), "transaction on scratch node")
	rd := []reqDef{{N: "PendR", T: "R", Ls: []string{"PENDING"}}, {N: "SharedR", T: "R", Ls: []string{"SHARED"}}, {N: "PendU", T: "U", Ls: []string{"PENDING"}}}
	for _, q := range rd {
		if res, e := wp.doReq(wp.clients["a"], q, true); e != nil || !res.OK {
			core.Infra("reader on primary: %v %v", e, res.Err)
		}
	}
	wp.curReplay = func() any { return map[string]any{"kind": "tx", "halt_lock": "none", "reader_on_primary": true} }
	err1, hooks1 := send(999)
	rep.Eval(1)
	rep.Case("tx/no-halt-lock", true)
	txStats := map[string]any{"no_halt_lock": map[string]any{"error": fmt.Sprint(err1), "internal_page_writes": hooks1}}
	if err1 == nil && hooks1 == 0 {
		rep.Nonconf("/tx without halt lock answered 200 but wrote no page")
	}
	wp.reset()
	// 2. the legal use: the sender holds the halt lock
	if err1 != nil {
		rep.Note("/tx without a halt lock was refused (%v): the defect recorded as known finding tx-without-write-lock no longer reproduces", err1)
	} else {
		wq.must(wq.commitJ([]int{1, 3}, 3, false), "second transaction on scratch node")
	}
	wp.node.Cache.Drop(dbName)
	ctx, cancel := context.WithTimeout(context.Background(), 5*time.Second)
	hl, herr := wp.db.AcquireHaltLock(ctx, 4242)
	cancel()
	if herr != nil || hl == nil {
		rep.Nonconf("AcquireHaltLock on an idle primary failed: %v", herr)
	} else {
		wp.curReplay = func() any { return map[string]any{"kind": "tx", "halt_lock": "held by sender"} }
		err2, hooks2 := send(4242)
		rep.Eval(1)
		rep.Case("tx/halt-lock-held", true)
		txStats["halt_lock_held"] = map[string]any{"error": fmt.Sprint(err2), "internal_page_writes": hooks2}
		if err2 != nil {
			rep.Nonconf("/tx under the sender's halt lock failed: %v", err2)
		} else if hooks2 == 0 {
			rep.Nonconf("/tx under the sender's halt lock wrote no page")
		}
		wp.db.ReleaseHaltLock(context.Background(), 4242)
		if m := wp.observe(false).M; m != "UUUUUUUUUUUU" {
			rep.Nonconf("lock table after ReleaseHaltLock: %s", m)
		}
	}
	if ex := p.Node.Exits(); len(ex) > 0 {
		txStats["exits"] = ex
	}
	rep.Extra["tx_scenario"] = txStats
	wp.curReplay = nil
}

// replicaScenario: a streamed transaction is applied on a replica (Store.processLTXStreamFrame takes
// AcquireWriteLock). While an application connection on the replica holds a conflicting read lock
// the apply must not proceed; once released it proceeds and its page writes pass the section monitor.
func replicaScenario(rep *core.Report, mode string, layout sim.Layout) {
	cl := sim.NewCluster(core.Scratch("c11-repl-" + mode))
	defer cl.Close()
	cl.Lease.AllowOnly()
	p, err := cl.Start("p", sim.ClusterNodeOpts{Candidate: true})
	if err != nil {
		core.Infra("start primary: %v", err)
	}
	if err := cl.Elect("p", 10*time.Second); err != nil {
		core.Infra("elect: %v", err)
	}
	wp := &world{rep: rep, mode: mode, layout: layout, clients: map[string]*sim.Conn{}, procs: map[string]*proc{}, hookEntry: map[string]int{}}
	wp.attach(p.Node, nil, nil)
	wp.createDatabase()
	defer func() { registryMu.Lock(); delete(registry, wp.db); registryMu.Unlock() }()
	// the replica joins afterwards: the snapshot the primary sends it takes SHARED for a moment and would
	// make the (non-retrying) pager simulator's EXCLUSIVE request busy
	rn, err := cl.Start("r", sim.ClusterNodeOpts{Candidate: false})
	if err != nil {
		core.Infra("start replica: %v", err)
	}
	if err := cl.WaitPos("r", dbName, wp.db.Pos(), 10*time.Second); err != nil {
		core.Infra("replica did not catch up: %v", err)
	}
	wr := &world{rep: rep, mode: mode, layout: layout, clients: map[string]*sim.Conn{}, procs: map[string]*proc{}, hookEntry: map[string]int{}}
	wr.attach(rn.Node, []string{"a"}, nil)
	wr.db = rn.Node.Store.DB(dbName)
	register(wr.db, wr)
	defer func() { registryMu.Lock(); delete(registry, wr.db); registryMu.Unlock() }()
	wr.curReplay = func() any { return map[string]any{"kind": "replica-apply", "mode": mode} }
	// reader on the replica
	rd := []reqDef{{N: "PendR", T: "R", Ls: []string{"PENDING"}}, {N: "SharedR", T: "R", Ls: []string{"SHARED"}}, {N: "PendU", T: "U", Ls: []string{"PENDING"}}}
	if mode == "wal" {
		rd = append(rd, reqDef{N: "DmsR", T: "R", Ls: []string{"DMS"}}, reqDef{N: "Read2R", T: "R", Ls: []string{"READ2"}})
	}
	for _, q := range rd {
		// the replica may still be releasing the locks of the apply that produced the awaited position:
		// retry like SQLite's busy handler
		deadline := time.Now().Add(3 * time.Second)
		for {
			res, e := wr.doReq(wr.clients["a"], q, true)
			if e == nil && res.OK {
				break
			}
			if e != nil || time.Now().After(deadline) {
				rep.Nonconf("reader on replica (%s): request %s failed: %v %s", mode, q.N, e, res.Err)
				return
			}
			time.Sleep(time.Millisecond)
		}
	}
	held := wr.clientsHolding()
	before := wr.db.Pos()
	if mode == "wal" {
		wp.must(wp.commitW([]int{1, 2}, 3), "WAL transaction on primary")
	} else {
		wp.must(wp.commitJ([]int{1, 2}, 3, false), "transaction on primary")
	}
	wp.setup.Close()
	want := wp.db.Pos()
	core.Beat("real:replica-apply-blocked")
	time.Sleep(150 * time.Millisecond)
	rep.Eval(2)
	rep.Case("replica-apply/"+mode, true)
	if got := wr.db.Pos(); got != before || atomic.LoadInt64(&wr.hookCalls) != 0 {
		rep.Violate("C11.enter-only-when-free", "replica-apply-proceeded-while-client-holds/"+firstLockOf(held)+"/"+mode,
			map[string]any{"clients_holding": held, "pos_before": before.String(), "pos_now": got.String(), "internal_page_writes": atomic.LoadInt64(&wr.hookCalls)}, wr.curReplay())
	}
	wr.reset()
	core.Beat("real:replica-apply")
	if err := cl.WaitPos("r", dbName, want, 10*time.Second); err != nil {
		rep.Nonconf("replica (%s) did not apply the transaction after the reader released its lock: %v", mode, err)
	}
	core.Beat("harness")
	n := atomic.LoadInt64(&wr.hookCalls)
	if n == 0 {
		rep.Nonconf("replica (%s) applied a transaction without an observed page write", mode)
	}
	var entries []string
	wr.evMu.Lock()
	for e := range wr.hookEntry {
		entries = append(entries, e)
	}
	wr.evMu.Unlock()
	sort.Strings(entries)
	rep.Extra["replica_apply_"+mode] = map[string]any{"internal_page_writes": n, "entry_points": entries, "reader_held": held}
	if ex := rn.Node.Exits(); len(ex) > 0 {
		rep.Violate("C11.no-exit", "exit/replica-apply/"+mode, map[string]any{"codes": ex}, wr.curReplay())
	}
}

// replicaHaltCatchUpScenario: the same on a replica that is BEHIND and holds the primary's halt lock for a
// position it has not reached (the files it is waiting for arrive over the stream): they are applied under
// the write lock like every other streamed transaction, so a connection holding a read lock keeps them out.
func replicaHaltCatchUpScenario(rep *core.Report, mode string, layout sim.Layout) {
	cl := sim.NewCluster(core.Scratch("c11-replh-" + mode))
	defer cl.Close()
	cl.Lease.AllowOnly()
	p, err := cl.Start("p", sim.ClusterNodeOpts{Candidate: true})
	if err != nil {
		core.Infra("start primary: %v", err)
	}
	if err := cl.Elect("p", 10*time.Second); err != nil {
		core.Infra("elect: %v", err)
	}
	wp := &world{rep: rep, mode: mode, layout: layout, clients: map[string]*sim.Conn{}, procs: map[string]*proc{}, hookEntry: map[string]int{}}
	wp.attach(p.Node, nil, nil)
	wp.createDatabase()
	defer func() { registryMu.Lock(); delete(registry, wp.db); registryMu.Unlock() }()
	// the replica joins afterwards: the snapshot the primary sends it takes SHARED for a moment and would
	// make the (non-retrying) pager simulator's EXCLUSIVE request busy
	rn, err := cl.Start("r", sim.ClusterNodeOpts{Candidate: false, Configure: func(s *litefs.Store) { s.HaltAcquireTimeout = 30 * time.Second }})
	if err != nil {
		core.Infra("start replica: %v", err)
	}
	if err := cl.WaitPos("r", dbName, wp.db.Pos(), 10*time.Second); err != nil {
		core.Infra("replica did not catch up: %v", err)
	}
	wr := &world{rep: rep, mode: mode, layout: layout, clients: map[string]*sim.Conn{}, procs: map[string]*proc{}, hookEntry: map[string]int{}}
	wr.attach(rn.Node, []string{"a"}, nil)
	wr.db = rn.Node.Store.DB(dbName)
	register(wr.db, wr)
	defer func() { registryMu.Lock(); delete(registry, wr.db); registryMu.Unlock() }()
	wr.curReplay = func() any { return map[string]any{"kind": "replica-halt-catch-up", "mode": mode} }
	// reader on the replica
	rd := []reqDef{{N: "PendR", T: "R", Ls: []string{"PENDING"}}, {N: "SharedR", T: "R", Ls: []string{"SHARED"}}, {N: "PendU", T: "U", Ls: []string{"PENDING"}}}
	if mode == "wal" {
		rd = append(rd, reqDef{N: "DmsR", T: "R", Ls: []string{"DMS"}}, reqDef{N: "Read2R", T: "R", Ls: []string{"READ2"}})
	}
	for _, q := range rd {
		// the replica may still be releasing the locks of the apply that produced the awaited position:
		// retry like SQLite's busy handler
		deadline := time.Now().Add(3 * time.Second)
		for {
			res, e := wr.doReq(wr.clients["a"], q, true)
			if e == nil && res.OK {
				break
			}
			if e != nil || time.Now().After(deadline) {
				rep.Nonconf("reader on replica (%s): request %s failed: %v %s", mode, q.N, e, res.Err)
				return
			}
			time.Sleep(time.Millisecond)
		}
	}
	held := wr.clientsHolding()
	before := wr.db.Pos()
	// the replica falls behind: nothing is delivered to it while the primary commits (it stays connected)
	rn.Client.Hold()
	if mode == "wal" {
		wp.must(wp.commitW([]int{1, 2}, 3), "WAL transaction on primary")
	} else {
		wp.must(wp.commitJ([]int{1, 2}, 3, false), "transaction on primary")
	}
	wp.setup.Close()
	want := wp.db.Pos()
	// a connection on the replica asks for the halt lock: it is granted at the primary's position, which
	// the replica has not reached, and waits for the missing transaction
	haltDone := make(chan error, 1)
	go func() {
		_, herr := wr.db.AcquireRemoteHaltLock(context.Background(), 777)
		haltDone <- herr
	}()
	for t0 := time.Now(); wr.db.RemoteHaltLock() == nil && time.Since(t0) < 10*time.Second; time.Sleep(time.Millisecond) {
	}
	if wr.db.RemoteHaltLock() == nil {
		rep.Nonconf("replica (%s): the remote halt lock was not granted", mode)
		rn.Client.Resume()
		return
	}
	rn.Client.Resume()
	released := false
	defer func() {
		if released {
			return
		}
		select {
		case herr := <-haltDone:
			if herr != nil {
				rep.Nonconf("replica (%s): AcquireRemoteHaltLock: %v", mode, herr)
			} else {
				_ = wr.db.ReleaseRemoteHaltLock(context.Background(), 777)
			}
		case <-time.After(40 * time.Second):
			rep.Nonconf("replica (%s): AcquireRemoteHaltLock did not return", mode)
		}
	}()
	core.Beat("real:replica-halt-catch-up-blocked")
	time.Sleep(400 * time.Millisecond) // reconnect period of the stream + the apply
	rep.Eval(2)
	rep.Case("replica-halt-catch-up/"+mode, true)
	if got := wr.db.Pos(); got != before || atomic.LoadInt64(&wr.hookCalls) != 0 {
		rep.Violate("C11.enter-only-when-free", "catch-up-under-halt-proceeded-while-client-holds/"+firstLockOf(held)+"/"+mode,
			map[string]any{"clients_holding": held, "pos_before": before.String(), "pos_now": got.String(), "internal_page_writes": atomic.LoadInt64(&wr.hookCalls)}, wr.curReplay())
	}
	wr.reset()
	core.Beat("real:replica-apply")
	if err := cl.WaitPos("r", dbName, want, 10*time.Second); err != nil {
		rep.Nonconf("replica (%s) did not apply the transaction after the reader released its lock: %v", mode, err)
	}
	core.Beat("harness")
	n := atomic.LoadInt64(&wr.hookCalls)
	if n == 0 {
		rep.Nonconf("replica (%s) applied a transaction without an observed page write", mode)
	}
	var entries []string
	wr.evMu.Lock()
	for e := range wr.hookEntry {
		entries = append(entries, e)
	}
	wr.evMu.Unlock()
	sort.Strings(entries)
	rep.Extra["replica_halt_catch_up_"+mode] = map[string]any{"internal_page_writes": n, "entry_points": entries, "reader_held": held}
	// ---- second part: the lock is released by the connection that holds it while ANOTHER connection of the
	// same node has a write transaction open (journal written, a page changed). Giving the lock back runs the
	// node's recovery (journal rollback / checkpoint), which changes the database file: it waits for the
	// open transaction like every internal writer.
	if mode == "rollback" {
		select {
		case herr := <-haltDone:
			if herr != nil {
				rep.Nonconf("replica (%s): AcquireRemoteHaltLock: %v", mode, herr)
				released = true
				return
			}
		case <-time.After(40 * time.Second):
			rep.Nonconf("replica (%s): AcquireRemoteHaltLock did not return", mode)
			released = true
			return
		}
		released = true
		c2 := rn.Node.Connect(dbName, 99)
		pg2 := sim.NewPager(c2, layout, sim.PagerOpts{Sector: 512, Busy: 3 * time.Second})
		if im, ierr := sim.StableDiskImage(rn.Node.DBDir(dbName), layout.PageSize); ierr == nil {
			pg2.Ref, _ = layout.ModelOf(im)
		}
		pl := sim.Plan{Kind: "j", Ns: len(pg2.Ref), M: []int{1}, Out: "rb_spill", Fin: "DELETE", V: 99}
		var terr error
		for _, f := range []func() error{func() error { return pg2.BeginJ(pl) }, pg2.JCreate, pg2.JSync, func() error { return pg2.JPage(1) }} {
			if terr == nil {
				terr = f()
			}
		}
		if terr != nil {
			rep.Nonconf("replica (%s): open transaction under the halt lock: %v", mode, terr)
			_ = wr.db.ReleaseRemoteHaltLock(context.Background(), 777)
			return
		}
		base := atomic.LoadInt64(&wr.hookCalls)
		relDone := make(chan error, 1)
		go func() { relDone <- wr.db.ReleaseRemoteHaltLock(context.Background(), 777) }()
		core.Beat("real:halt-release-blocked")
		time.Sleep(200 * time.Millisecond)
		rep.Eval(2)
		rep.Case("halt-release-with-open-transaction/"+mode, true)
		_, jerr := os.Stat(wr.db.JournalPath())
		if n := atomic.LoadInt64(&wr.hookCalls) - base; n != 0 || jerr != nil {
			rep.Violate("C11.enter-only-when-free", "halt-release-recovery-proceeded-while-client-holds/RESERVED/"+mode,
				map[string]any{"internal_page_writes": n, "journal_still_there": jerr == nil, "lock_table": wr.observe(false).M}, wr.curReplay())
		}
		// the application rolls its transaction back and lets go; the release then completes
		_ = pg2.JRbPage(1)
		_ = pg2.JFinal()
		pg2.EndJ()
		c2.Close()
		select {
		case rerr := <-relDone:
			if rerr != nil {
				rep.Nonconf("replica (%s): ReleaseRemoteHaltLock: %v", mode, rerr)
			}
		case <-time.After(30 * time.Second):
			rep.Violate("C11.no-hang", "hang/halt-release-with-open-transaction/"+mode, map[string]any{}, wr.curReplay())
		}
	}
	if ex := rn.Node.Exits(); len(ex) > 0 {
		rep.Violate("C11.no-exit", "exit/replica-halt-catch-up/"+mode, map[string]any{"codes": ex}, wr.curReplay())
	}
}

// shmCloseScenario: PRAGMA journal_mode=DELETE on a WAL database, request by request as SQLite issues it
// (sqlite3PagerCloseWal): the connection takes EXCLUSIVE on the database file (PENDING then the SHARED
// range, write locks), checkpoints and empties the log, closes its -shm descriptor (FUSE FLUSH ->
// SHMHandle.Flush -> DB.UnlockSHM) WHILE STILL HOLDING EXCLUSIVE, unlinks the log, rewrites page 1 through
// a rollback journal and only then unlocks the database file. From the close to the unlock every internal
// write-lock attempt (TryAcquireWriteLock; Recover, Checkpoint, Import through AcquireWriteLock) must be
// kept out (monitor: an internal writer does not enter while a connection holds a conflicting lock; here
// the EXCLUSIVE lock on the database file), and a second connection's read-lock request must be refused
// (conformance of the lock table). After the unlock the write lock must be obtainable again.
func shmCloseScenario(rep *core.Report, layout sim.Layout) {
	w := openWorld(rep, "wal", []string{"a", "b"}, nil, layout, nil)
	defer w.close()
	step := "start"
	desc := func() any { return map[string]any{"kind": "shm-close", "step": step} }
	w.curReplay = desc
	a, b := w.clients["a"], w.clients["b"]
	rq := func(n, t string, ls ...string) reqDef { return reqDef{N: n, T: t, Ls: ls} }
	shmAll := []string{"WRITE", "CKPT", "RECOVER", "READ0", "READ1", "READ2", "READ3", "READ4", "DMS"}
	must := func(c *sim.Conn, r reqDef) bool {
		res, e := w.doReq(c, r, true)
		if e != nil {
			core.Infra("shm-close scenario: request %s: %v", r.N, e)
		}
		if !res.OK {
			rep.Nonconf("shm-close scenario: request %s refused on an otherwise idle database: %s", r.N, res.Err)
		}
		return res.OK
	}
	// both connections are open WAL connections; b is idle, a holds a read transaction's database lock
	for _, r := range []reqDef{rq("PendR", "R", "PENDING"), rq("SharedR", "R", "SHARED"), rq("PendU", "U", "PENDING"), rq("DmsR", "R", "DMS")} {
		if !must(a, r) {
			return
		}
	}
	if !must(b, rq("DmsR", "R", "DMS")) {
		return
	}
	// sqlite3PagerCloseWal: EXCLUSIVE on the database file
	step = "exclusive"
	if !must(a, rq("PendW", "W", "PENDING")) || !must(a, rq("SharedW", "W", "SHARED")) {
		return
	}
	// sqlite3WalClose: checkpoint everything, empty the log
	step = "checkpoint"
	pa := sim.NewPager(a, w.layout, sim.PagerOpts{})
	pa.AdoptFrom(w.pg)
	if err := a.OpenWAL(); err != nil {
		core.Infra("shm-close scenario: open wal: %v", err)
	}
	if err := pa.Ckpt("TRUNCATE"); err != nil {
		rep.Nonconf("shm-close scenario: checkpoint by the connection holding EXCLUSIVE failed: %v", err)
		return
	}
	// walIndexClose -> unixShmUnmap: close(-shm) while EXCLUSIVE is still held
	step = "close-shm"
	must(a, rq("ShmFlush", "F", shmAll...))
	probes := func(at string, ops []string) bool {
		rep.Case("shm-close/"+at, true)
		rep.Eval(1)
		if f := w.forgotten(); len(f) > 0 {
			rep.Nonconf("shm-close scenario (%s): LiteFS's guard sets no longer show locks the connection still holds: %v", at, f)
		}
		// a second connection starts a read transaction
		res, e := w.doReq(b, rq("PendR", "R", "PENDING"), false)
		if e != nil {
			core.Infra("shm-close scenario: %v", e)
		}
		rep.Eval(1)
		if res.OK {
			rep.Nonconf("shm-close scenario (%s): connection b was granted a PENDING read lock while connection a holds EXCLUSIVE on the database file (lock table %s)", at, w.observe(false).M)
			_, _ = w.doReq(b, rq("PendU", "U", "PENDING"), true)
		}
		bad := w.entryProbe("journal-mode-switch/"+at, desc())
		for _, op := range ops {
			held := w.clientsHolding()
			out := w.runOp(op, 7000)
			rep.Eval(1)
			rep.Case("shm-close/"+at+"/"+op, true)
			if out.panic != nil {
				rep.Violate("C11.no-panic", "panic/op/"+op+"/journal-mode-switch", out.panic, desc())
				return false
			}
			if out.err == nil {
				bad = true
				if len(held) > 0 {
					rep.Violate("C11.enter-only-when-free", "operation-proceeded-while-client-holds/"+op+"/"+firstLockOf(held)+"/"+w.mode+"/journal-mode-switch/"+at,
						map[string]any{"op": op, "at": at, "clients_holding": held}, desc())
				}
				if out.halt != nil {
					w.db.ReleaseHaltLock(context.Background(), 7000)
				}
				if out.gs != nil {
					out.gs.Unlock()
				}
			}
		}
		return !bad
	}
	if !probes("after-close-shm", nil) {
		return
	}
	// the log is unlinked, page 1 (journal-mode bytes 1/1) is rewritten through a rollback journal
	step = "journal"
	w.ver++
	pa.SetPlan(sim.Plan{Kind: "j", Ns: 3, M: []int{1}, Out: "commit", Fin: "DELETE", V: w.ver, Wal: false})
	for _, f := range []struct {
		n string
		f func() error
	}{{"unlink wal", pa.JRmWal}, {"create journal", pa.JCreate}, {"sync journal, EXCLUSIVE again", pa.JSync}, {"write page 1", func() error { return pa.JPage(1) }}} {
		if err := f.f(); err != nil {
			rep.Nonconf("shm-close scenario: %s failed for the connection holding EXCLUSIVE: %v", f.n, err)
			return
		}
	}
	step = "hot-journal"
	pos0 := w.db.Pos()
	if !probes("journal-written", []string{"Recover", "Checkpoint", "Import"}) {
		return
	}
	if _, err := os.Stat(w.db.JournalPath()); err != nil {
		rep.Nonconf("shm-close scenario: the journal of the open transaction disappeared: %v", err)
		return
	}
	step = "commit"
	if err := pa.JFinal(); err != nil {
		rep.Nonconf("shm-close scenario: commit of the journal-mode change failed: %v", err)
		return
	}
	rep.Eval(1)
	if pos := w.db.Pos(); pos.TXID != pos0.TXID+1 {
		rep.Nonconf("shm-close scenario: the journal-mode change moved the position from %s to %s", pos0, pos)
	}
	step = "unlock"
	must(a, rq("DbUnlockAll", "U", "PENDING", "RESERVED", "SHARED"))
	a.CloseJournal()
	rep.Eval(1)
	if !w.entryProbe("journal-mode-switch/after-unlock", desc()) {
		rep.Nonconf("shm-close scenario: TryAcquireWriteLock refused after the connection released EXCLUSIVE (lock table %s)", w.observe(false).M)
	}
	if ex := w.node.Exits(); len(ex) > 0 {
		rep.Violate("C11.no-exit", "exit/journal-mode-switch", map[string]any{"codes": ex}, desc())
	}
	w.curReplay = nil
}

// replicaRecreateScenario: the per-database state that selects the lock set of LiteFS's internal writers (the
// journal mode) follows the database through drop and re-creation: a database that was in WAL mode is dropped on
// the primary and created again under the same name with a rollback journal; a rollback-mode reader on the
// (running) replica then keeps replicated transactions out like any other reader.
func replicaRecreateScenario(rep *core.Report, layout sim.Layout) {
	cl := sim.NewCluster(core.Scratch("c11-recreate"))
	defer cl.Close()
	cl.Lease.AllowOnly()
	p, err := cl.Start("p", sim.ClusterNodeOpts{Candidate: true})
	if err != nil {
		core.Infra("start primary: %v", err)
	}
	if err := cl.Elect("p", 10*time.Second); err != nil {
		core.Infra("elect: %v", err)
	}
	step := func(what string, fs ...func() error) {
		for _, f := range fs {
			if err := f(); err != nil {
				core.Infra("recreate scenario, %s: %v", what, err)
			}
		}
	}
	commitJ := func(pg *sim.Pager, pl sim.Plan) {
		fs := []func() error{func() error { return pg.BeginJ(pl) }, pg.JCreate, pg.JSync}
		for _, q := range pl.M {
			q := q
			fs = append(fs, func() error { return pg.JPage(q) })
		}
		fs = append(fs, pg.JFinal)
		step("journal transaction", fs...)
		pg.EndJ()
	}
	c1 := p.Connect(dbName, 61)
	pg := sim.NewPager(c1, layout, sim.PagerOpts{Sector: 512, Busy: 5 * time.Second})
	commitJ(pg, sim.Plan{Kind: "j", Ns: 3, M: []int{1, 2, 3}, Out: "commit", Fin: "DELETE", V: 1})
	commitJ(pg, sim.Plan{Kind: "j", Ns: 3, M: []int{1}, Out: "commit", Fin: "DELETE", V: 2, Wal: true})
	pw := sim.Plan{Kind: "w", Ns: 3, M: []int{1, 2}, Out: "commit", V: 3, Wal: true}
	step("WAL transaction", func() error { return pg.BeginW(pw) }, func() error { return pg.WHdr(1) }, func() error { return pg.WFrame(1, false, false) }, func() error { return pg.WFrame(2, false, true) }, pg.WEnd)
	r, err := cl.Start("r", sim.ClusterNodeOpts{Candidate: false})
	if err != nil {
		core.Infra("start replica: %v", err)
	}
	if err := cl.WaitPos("r", dbName, p.Store.DB(dbName).Pos(), 10*time.Second); err != nil {
		core.Infra("replica did not catch up: %v", err)
	}
	if r.Store.DB(dbName).Mode() != litefs.DBModeWAL {
		rep.Nonconf("recreate scenario: the replica's database is not in WAL mode before the drop")
	}
	// drop, then the same name again with a rollback journal
	c1.Close()
	step("drop", p.Connect(dbName, 62).RemoveDB)
	if err := cl.WaitPos("r", dbName, p.Store.DB(dbName).Pos(), 10*time.Second); err != nil {
		core.Infra("replica did not receive the drop: %v", err)
	}
	c2 := p.Connect(dbName, 63)
	pg2 := sim.NewPager(c2, layout, sim.PagerOpts{Sector: 512, Busy: 5 * time.Second})
	commitJ(pg2, sim.Plan{Kind: "j", Ns: 3, M: []int{1, 2, 3}, Out: "commit", Fin: "DELETE", V: 11})
	if err := cl.WaitPos("r", dbName, p.Store.DB(dbName).Pos(), 10*time.Second); err != nil {
		core.Infra("replica did not receive the re-created database: %v", err)
	}
	// a rollback-mode reader on the replica: PENDING (shared), SHARED (shared), PENDING released
	rc := r.Connect(dbName, 64)
	step("reader", func() error { return rc.OpenDB(false) },
		func() error { return rc.LockDB(fuse.LockRead, sim.PendingByte, sim.PendingByte) },
		func() error { return rc.LockDB(fuse.LockRead, sim.SharedFirst, sim.SharedFirst+sim.SharedSize-1) },
		func() error { return rc.LockDB(fuse.LockUnlock, sim.PendingByte, sim.PendingByte) })
	before := r.Store.DB(dbName).Pos()
	first, _ := rc.ReadDBUncached(int64(layout.Real(2)-1)*int64(layout.PageSize), 64)
	commitJ(pg2, sim.Plan{Kind: "j", Ns: 3, M: []int{1, 2}, Out: "commit", Fin: "DELETE", V: 12})
	want := p.Store.DB(dbName).Pos()
	core.Beat("real:replica-apply-blocked-after-recreate")
	time.Sleep(300 * time.Millisecond)
	rep.Eval(2)
	rep.Case("replica-apply-after-drop-and-recreate", true)
	second, _ := rc.ReadDBUncached(int64(layout.Real(2)-1)*int64(layout.PageSize), 64)
	if got := r.Store.DB(dbName).Pos(); got != before || !bytes.Equal(first, second) {
		rep.Violate("C11.enter-only-when-free", "replica-apply-proceeded-while-client-holds/SHARED/after-drop-and-recreate",
			map[string]any{"pos_before": before.String(), "pos_now": got.String(), "page_2_changed_under_the_reader": !bytes.Equal(first, second),
				"replica_mode": fmt.Sprint(r.Store.DB(dbName).Mode()), "primary_mode": fmt.Sprint(p.Store.DB(dbName).Mode())},
			map[string]any{"kind": "replica-recreate"})
	}
	_ = rc.LockDB(fuse.LockUnlock, sim.SharedFirst, sim.SharedFirst+sim.SharedSize-1)
	rc.Close()
	if err := cl.WaitPos("r", dbName, want, 10*time.Second); err != nil {
		rep.Nonconf("recreate scenario: the replica did not apply the transaction after the reader let go: %v", err)
	}
	if ex := r.Node.Exits(); len(ex) > 0 {
		rep.Violate("C11.no-exit", "exit/replica-recreate", map[string]any{"codes": ex}, nil)
	}
}
