// Check C19: the HTTP proxy gives read-your-writes and never runs writes on a replica.
//
// spec -> impl: Proxy.tla (the decision procedure of http/proxy_server.go, one action per decision
// point / loop iteration, interleaved with replica applies, commits by others, a primary becoming
// known, and the two time-outs) is model-checked exhaustively by TLC, which prints one CASE line per
// distinct terminal state. Every case is projected onto what a harness can schedule (request class,
// cookie relative to the local position, what arrives during the wait, what the application does)
// and replayed against real lhttp.ProxyServer instances in front of a stub application on real
// stores (a primary, a connected replica, a node that knows no primary) of a sim.Cluster.
// Verdicts come only from the monitors P1a/P1b/P1c, P2a/P2b, P3 evaluated on observed values;
// agreement with the model's predicted outcome beyond them is conformance (R3).
package main

import (
	"encoding/json"
	"fmt"
	"math/rand"
	"net/http"
	"os"
	"sort"
	"strconv"
	"strings"
	"sync"
	"time"

	"github.com/superfly/litefs"
	lhttp "github.com/superfly/litefs/http"
	"github.com/superfly/litefs/verifharness/core"
	"github.com/superfly/litefs/verifharness/sim"
)

// ---------------------------------------------------------------- model cases

type modelCase struct {
	Init struct {
		Role string `json:"role"`
		Dbx  bool   `json:"dbx"`
		Pos  int    `json:"pos"`
		Src  int    `json:"src"`
	} `json:"init"`
	Role string `json:"role"`
	Req  struct {
		M string `json:"m"`
		P string `json:"p"`
		C struct {
			K string `json:"k"`
			T int    `json:"t"`
		} `json:"c"`
	} `json:"req"`
	Obs struct {
		Parr int    `json:"parr"`
		Dbxl bool   `json:"dbxl"`
		Pdec int    `json:"pdec"`
		Look string `json:"look"`
		Pfw  int    `json:"pfw"`
		Lag  bool   `json:"lag"`
	} `json:"obs"`
	App struct {
		Got  bool `json:"got"`
		Pos  int  `json:"pos"`
		Dbx  bool `json:"dbx"`
		W    int  `json:"w"`
		Wpos int  `json:"wpos"`
	} `json:"app"`
	Out struct {
		Kind   string `json:"kind"`
		Status int    `json:"status"`
		Cookie int    `json:"cookie"`
	} `json:"out"`
	Pt   bool     `json:"pt"`
	Hist []string `json:"hist"`
}

// pcase is a model case projected onto what the harness can schedule, plus the model's prediction.
type pcase struct {
	Node  string `json:"node"`  // primary | replica | noprimary (the role when the request arrives)
	Dbx   bool   `json:"dbx"`   // the tracked database exists on the node when the request arrives
	M     string `json:"m"`     // method
	P     string `json:"p"`     // path class
	CK    string `json:"ck"`    // absent | malformed | zero | wf
	DC    int    `json:"dc"`    // wf: cookie TXID minus the local TXID at arrival
	A     int    `json:"a"`     // transactions that arrive during the wait, before the decision
	Learn bool   `json:"learn"` // a primary becomes known during the wait, before the decision
	W     int    `json:"w"`     // transactions the application commits
	Lag   bool   `json:"lag"`   // health endpoint: lag above MaxLag
	Wait  bool   `json:"wait"`  // the handler waited (poll loop) before deciding
	// prediction
	Kind   string `json:"kind"` // fwd | redirect | e503 | e504 | health
	Status int    `json:"status"`
	Issue  bool   `json:"issue"` // a cookie is issued
}

func (c *pcase) key() string {
	return fmt.Sprintf("%s|dbx=%v|%s|%s|%s%+d|a=%d|learn=%v|w=%d|lag=%v", c.Node, c.Dbx, c.M, c.P, c.CK, c.DC, c.A, c.Learn, c.W, c.Lag)
}

// project maps a model behaviour to a schedulable case; racy = its outcome depends on an event that
// falls between the handler's last look and its time-out (legal, but no harness can force it).
func project(mc *modelCase) (pc pcase, racy bool) {
	pc = pcase{Node: mc.Init.Role, Dbx: mc.Init.Dbx, M: mc.Req.M, P: mc.Req.P, W: mc.App.W, Lag: mc.Obs.Lag,
		Kind: mc.Out.Kind, Status: mc.Out.Status, Issue: mc.Out.Cookie >= 0}
	switch {
	case mc.Req.C.K == "wf" && mc.Req.C.T == 0:
		pc.CK = "zero"
	case mc.Req.C.K == "wf":
		pc.CK = "wf"
		pc.DC = mc.Req.C.T - mc.Init.Pos
	default:
		pc.CK = mc.Req.C.K
	}
	lastLook := -1
	checked := false
	for i, a := range mc.Hist {
		switch a {
		case "Check":
			checked = true
			lastLook = i
		case "Read", "NonRead", "PLook":
			lastLook = i
		case "Tick":
			pc.Wait = true
		case "Timeout":
			pc.Wait = true
			for j := lastLook + 1; j < i; j++ {
				if mc.Hist[j] == "Apply" || mc.Hist[j] == "OtherCommit" {
					racy = true
				}
			}
		case "PTimeout":
			pc.Wait = true
			for j := lastLook + 1; j < i; j++ {
				if mc.Hist[j] == "LearnPrimary" {
					racy = true
				}
			}
		}
	}
	if checked {
		pc.A = mc.Obs.Pdec - mc.Obs.Parr
		if pc.A > 0 {
			pc.Wait = true
		}
	}
	if mc.Init.Role == "noprimary" {
		if checked {
			pc.Learn = pc.A > 0
		} else {
			pc.Learn = mc.Obs.Look == "replica"
		}
		if pc.Learn {
			pc.Wait = true
		}
	}
	return pc, racy
}

// ---------------------------------------------------------------- request classes (the property's, not the code's)

func ptMatch(p string) bool  { return p == "pt" || p == "both" || p == "healthpt" }
func afMatch(p string) bool  { return p == "af" || p == "both" || p == "healthaf" }
func isHealth(p string) bool { return strings.HasPrefix(p, "health") }
func readMethod(m string) bool {
	return m == "GET" || m == "HEAD"
}
func writeMethod(m string) bool { return m == "POST" || m == "PUT" || m == "DELETE" || m == "PATCH" }
func ownEndpoint(m, p string) bool {
	return m == "GET" && isHealth(p) && !ptMatch(p)
}
func readReq(m, p string) bool {
	return readMethod(m) && !ptMatch(p) && !afMatch(p) && !ownEndpoint(m, p)
}
func writeReq(m, p string) bool {
	return !ptMatch(p) && !ownEndpoint(m, p) && (writeMethod(m) || (readMethod(m) && afMatch(p)))
}

// ---------------------------------------------------------------- running one request

type result struct {
	ID        string    `json:"id"`
	Proxy     proxyCfg  `json:"proxy"`
	Path      string    `json:"path"`
	Cookie    string    `json:"cookie_header,omitempty"`
	T         uint64    `json:"t"` // TXID the cookie names (well-formed cookies)
	Err       string    `json:"err,omitempty"`
	Status    int       `json:"status"`
	FlyReplay string    `json:"fly_replay,omitempty"`
	SetCookie string    `json:"set_cookie,omitempty"` // value of the __txid cookie in the response
	HasCookie bool      `json:"has_cookie"`
	Arr       *arrival  `json:"arrival"`
	PreExists bool      `json:"pre_exists"`
	PreTXID   uint64    `json:"pre_txid"` // tracked position read by the harness before sending
	PostTXID  uint64    `json:"post_txid"`
	PreKnown  string    `json:"pre_known"` // what the node knew about the primary before / after
	PostKnown string    `json:"post_known"`
	SentAt    time.Time `json:"-"`
	DoneAt    time.Time `json:"-"`
	TookMS    float64   `json:"took_ms"`
}

func formatTXID(t uint64) string { return fmt.Sprintf("%016x", t) }

func parseTXID(s string) (uint64, bool) {
	if len(s) != 16 {
		return 0, false
	}
	for _, c := range s {
		if !strings.ContainsRune("0123456789abcdef", c) {
			return 0, false
		}
	}
	v, err := strconv.ParseUint(s, 16, 64)
	return v, err == nil
}

var malformedCookies = []string{"", "zzzzzzzzzzzzzzzz", "00000000000000a", "00000000000000a00", "0x000000000000a0", "+00000000000000a", "-000000000000001", "000000000000000g", "1e10", "0000-0000-0000-0"}

var pathsOf = map[string][]string{
	// (the last four "plain" paths differ from a configured pattern exactly where the pattern has a dot or
	// another character that means something in a regular expression: patterns are globs, not expressions)
	"plain":    {"/", "/app/items/7", "/index.html", "/ptx/y", "/litefs/healthz", "/packages/nodejs", "/ptxv1/x", "/afxv1/do", "/pt+/x"},
	"pt":       {"/pt/", "/pt/asset.png", "/pt/a/b/c", "/static/app.js", "/pt.v1/x", "/pt+x/y"},
	"af":       {"/af/", "/af/do", "/af/x/y", "/af.v1/do"},
	"both":     {"/both/", "/both/z"},
	"health":   {"/litefs/health"},
	"healthpt": {"/litefs/health"},
	"healthaf": {"/litefs/health"},
}

// request describes one concrete HTTP request through one proxy of one node.
type request struct {
	node   *nodeEnv
	cfg    proxyCfg
	method string
	path   string
	cookie string // full Cookie header ("" = none)
	t      uint64
	write  int
}

func (w *world) send(rq request) *result {
	id := fmt.Sprintf("c%d", w.seq.Add(1))
	px := rq.node.proxy(rq.cfg)
	r := &result{ID: id, Proxy: rq.cfg, Path: rq.path, Cookie: rq.cookie, T: rq.t}
	req, err := http.NewRequest(rq.method, px.URL()+rq.path, nil)
	if err != nil {
		core.Infra("build request: %v", err)
	}
	if rq.cookie != "" {
		req.Header.Set("Cookie", rq.cookie)
	}
	req.Header.Set(hdrCase, id)
	req.Header.Set(hdrDB, rq.cfg.DB)
	req.Header.Set(hdrWrite, strconv.Itoa(rq.write))
	r.PreExists, r.PreTXID = trackedPos(rq.node.cn.Store, rq.cfg.DB)
	r.PreKnown = rq.node.known()
	r.SentAt = time.Now()
	var resp *http.Response
	if p := core.Try(func() { resp, err = w.hc.Do(req) }); p != nil {
		err = fmt.Errorf("panic: %s", p.Value)
	}
	r.DoneAt = time.Now()
	r.TookMS = float64(r.DoneAt.Sub(r.SentAt).Microseconds()) / 1000
	r.PostKnown = rq.node.known()
	_, r.PostTXID = trackedPos(rq.node.cn.Store, rq.cfg.DB)
	if err != nil {
		r.Err = err.Error()
	} else {
		r.Status = resp.StatusCode
		r.FlyReplay = resp.Header.Get("fly-replay")
		for _, c := range resp.Cookies() {
			if c.Name == lhttp.TXIDCookieName {
				r.HasCookie, r.SetCookie = true, c.Value
			}
		}
		_ = resp.Body.Close()
	}
	r.Arr = rq.node.stub.take(id)
	return r
}

// ---------------------------------------------------------------- monitors (R1: observed values only)

type checker struct {
	rep   *core.Report
	args  *core.Args
	rnd   *rand.Rand
	w     *world
	fresh int // databases created so far by "application creates the tracked database" cases
}

func dbState(exists bool) string {
	if exists {
		return "tracked-db-present"
	}
	return "tracked-db-absent"
}

// monitors evaluates the property clauses on one observed request. reachedAt is when the harness saw
// the tracked database reach the cookie's TXID during the wait (zero: before sending, or never).
// It returns true when a timing-dependent clause failed and the case should be re-run once.
func (ck *checker) monitors(node *nodeEnv, m, p, cookieKind string, r *result, reachedAt time.Time, final bool, replay any) (again bool) {
	rep := ck.rep
	detail := func(extra map[string]any) map[string]any {
		d := map[string]any{"role": node.role, "method": m, "path_class": p, "cookie": cookieKind, "observed": r}
		for k, v := range extra {
			d[k] = v
		}
		return d
	}
	wellFormed := cookieKind == "wf" || cookieKind == "zero"
	if readReq(m, p) && wellFormed {
		rep.Eval(3)
		if r.Arr != nil {
			// P1a: forwarded only when the tracked database had reached t at arrival
			if r.Arr.TXID < r.T {
				when := "while-waiting"
				if r.TookMS >= float64(r.timeout().Milliseconds())*0.8 {
					when = "at-timeout"
				} else if r.TookMS < 20 {
					when = "at-once"
				}
				rep.Violate("C19.P1a.read-forwarded-only-at-or-after-cookie", "P1a/read-forwarded-below-cookie/"+dbState(r.Arr.Exists)+ifs(r.Arr.Exists, "/"+when, ""),
					detail(map[string]any{"cookie_txid": r.T, "tracked_txid_at_arrival": r.Arr.TXID}), replay)
			}
		} else if r.Status != http.StatusGatewayTimeout {
			// P1b: otherwise it ends in a gateway time-out
			rep.Violate("C19.P1b.unforwarded-read-ends-in-504", fmt.Sprintf("P1b/read-neither-forwarded-nor-504/status=%d%s", r.Status, ifs(r.Err != "", "/no-response", "")), detail(nil), replay)
		}
		if r.Status == http.StatusGatewayTimeout {
			// P1c: "until ... otherwise": no time-out when the database had reached t
			switch {
			case r.PreExists && r.PreTXID >= r.T:
				rep.Violate("C19.P1c.no-timeout-once-reached", "P1c/504-although-reached-before-request/"+relation(r.PreTXID, r.T), detail(map[string]any{"cookie_txid": r.T}), replay)
			case !reachedAt.IsZero() && r.DoneAt.Sub(reachedAt) > time.Second:
				// the loop had >= 500 poll intervals to notice
				if final {
					rep.Violate("C19.P1c.no-timeout-once-reached", "P1c/504-although-reached-during-wait", detail(map[string]any{"cookie_txid": r.T, "reached_ms_before_response": r.DoneAt.Sub(reachedAt).Milliseconds()}), replay)
				} else {
					again = true
				}
			}
		}
	}
	if writeReq(m, p) && node.role != "primary" {
		rep.Eval(2)
		if r.Arr != nil {
			rep.Violate("C19.P2a.write-never-runs-on-replica", fmt.Sprintf("P2a/write-forwarded-on-%s/%s/%s", node.role, m, p), detail(nil), replay)
		}
		redirected := r.Err == "" && r.FlyReplay == "instance=n1"
		failed := r.Err == "" && r.Status >= 400 && r.FlyReplay == ""
		ok := false
		switch {
		case r.PreKnown == "n1" && r.PostKnown == "n1":
			ok = redirected
		case r.PreKnown == "" && r.PostKnown == "":
			ok = failed
		default:
			ok = redirected || failed
		}
		if !ok && r.Arr == nil {
			rep.Violate("C19.P2b.replica-write-redirected-or-error", fmt.Sprintf("P2b/%s/known=%q->%q/status=%d/fly-replay=%q", node.role, r.PreKnown, r.PostKnown, r.Status, r.FlyReplay), detail(nil), replay)
		}
	}
	if node.role == "primary" && r.Arr != nil && r.Arr.W > 0 && r.PreExists && writeMethod(m) && !ptMatch(p) && r.Err == "" {
		// P3 (issuance): a write that committed on the primary's tracked database is answered with the cookie
		rep.Eval(1)
		if !r.HasCookie {
			rep.Violate("C19.P3.cookie-at-or-after-write", fmt.Sprintf("P3/no-cookie-after-write/%s/%s", m, p), detail(map[string]any{"write_txid": r.Arr.WPos, "response_status": r.Status}), replay)
		}
	}
	if node.role == "primary" && r.Arr != nil && r.Arr.W > 0 && r.HasCookie {
		rep.Eval(1)
		if t, ok := parseTXID(r.SetCookie); !ok || t < r.Arr.WPos {
			rep.Violate("C19.P3.cookie-at-or-after-write", fmt.Sprintf("P3/cookie-before-write/%s/%s", m, p), detail(map[string]any{"cookie": r.SetCookie, "write_txid": r.Arr.WPos}), replay)
		}
	}
	return again
}

func (r *result) timeout() time.Duration {
	if r.Proxy.Slow {
		return slowTimeout
	}
	return fastTimeout
}

func ifs(c bool, a, b string) string {
	if c {
		return a
	}
	return b
}

func relation(pos, t uint64) string {
	switch {
	case pos == t:
		return "equal"
	case pos > t:
		return "behind"
	}
	return "ahead"
}

// conform compares the observation with the model's prediction (R3: evidence only).
func conform(c *pcase, r *result, sequential bool) (msgs []string) {
	nonconf := func(format string, a ...any) { msgs = append(msgs, fmt.Sprintf(format, a...)) }
	kind := "none"
	switch {
	case r.Err != "":
		kind = "no-response"
	case r.Arr != nil:
		kind = "fwd"
	case r.FlyReplay != "":
		kind = "redirect"
	case r.Status == 504:
		kind = "e504"
	case r.Status == 503 && c.Kind != "health":
		kind = "e503"
	case c.Kind == "health":
		kind = "health"
	}
	if kind != c.Kind || (r.Err == "" && r.Status != c.Status) || r.HasCookie != c.Issue {
		nonconf("case %s: model predicts %s/%d cookie=%v, real proxy gave %s/%d cookie=%v fly-replay=%q", c.key(), c.Kind, c.Status, c.Issue, kind, r.Status, r.HasCookie, r.FlyReplay)
		return msgs
	}
	if r.Arr != nil && r.Arr.N != 1 {
		nonconf("case %s: the application received the request %d times", c.key(), r.Arr.N)
	}
	if r.Arr != nil && r.Arr.W != c.W {
		nonconf("case %s: stub committed %d of %d transactions: %s", c.key(), r.Arr.W, c.W, r.Arr.WErr)
	}
	if sequential && c.Issue {
		// nobody else writes in the sequential phase: the cookie is the position after the response
		if t, ok := parseTXID(r.SetCookie); !ok || t != r.PostTXID {
			nonconf("case %s: cookie %q, position after the response %d", c.key(), r.SetCookie, r.PostTXID)
		}
	}
	if c.Kind == "redirect" && r.FlyReplay != "instance=n1" {
		nonconf("case %s: fly-replay %q", c.key(), r.FlyReplay)
	}
	return msgs
}

// ---------------------------------------------------------------- concretisation of a case

func (ck *checker) concretise(c *pcase) request {
	n := ck.w.nodes[c.Node]
	cfg := proxyCfg{DB: trackedDB, Paths: "std", Tight: c.Lag}
	switch c.P {
	case "healthpt":
		cfg.Paths = "hpt"
	case "healthaf":
		cfg.Paths = "haf"
	}
	if !c.Dbx {
		cfg.DB = ghostDB
		if c.W > 0 {
			ck.fresh++
			cfg.DB = fmt.Sprintf("fresh%d", ck.fresh)
		}
	}
	// cases that must proceed after something arrives get generous time-outs, cases that must time out short ones
	cfg.Slow = c.Wait && c.Kind != "e504" && c.Kind != "e503"
	ps := pathsOf[c.P]
	rq := request{node: n, cfg: cfg, method: c.M, path: ps[ck.rnd.Intn(len(ps))], write: c.W}
	_, local := trackedPos(n.cn.Store, cfg.DB)
	switch c.CK {
	case "malformed":
		rq.cookie = lhttp.TXIDCookieName + "=" + malformedCookies[ck.rnd.Intn(len(malformedCookies))]
	case "zero":
		rq.cookie = lhttp.TXIDCookieName + "=" + formatTXID(0)
	case "wf":
		t := int64(local) + int64(c.DC)
		if t < 1 {
			core.Infra("case %s: local position %d too small for the cookie offset", c.key(), local)
		}
		rq.t = uint64(t)
		rq.cookie = lhttp.TXIDCookieName + "=" + formatTXID(rq.t)
		if ck.rnd.Intn(3) == 0 {
			rq.cookie = "theme=dark; " + rq.cookie + "; sid=abc"
		}
	}
	return rq
}

// realisable says whether the node is in the state the case needs (health lag needs a primary timestamp).
func (ck *checker) realisable(c *pcase) bool {
	if c.Kind == "health" && c.Lag {
		if ts := ck.w.nodes[c.Node].cn.Store.PrimaryTimestamp(); ts == 0 || ts == -1 {
			return false
		}
	}
	return true
}

// ---------------------------------------------------------------- phase A: cases without a wait, one at a time

func (ck *checker) runSequential(cases []*pcase) {
	for _, c := range cases {
		if !ck.realisable(c) {
			ck.rep.Note("not realisable on this node state, skipped: %s", c.key())
			continue
		}
		n := ck.w.nodes[c.Node]
		switch c.Node {
		case "replica":
			if n.known() != "n1" {
				ck.w.syncNode("replica")
			}
		case "noprimary":
			if n.known() != "" {
				ck.w.hidePrimary()
			}
		}
		rq := ck.concretise(c)
		core.Beat("real:proxy " + c.key())
		r := ck.w.send(rq)
		core.Beat("harness")
		ck.rep.Case(c.key(), nontrivial(c))
		ck.rep.TracesValidated++
		ck.monitors(n, c.M, c.P, c.CK, r, time.Time{}, true, map[string]any{"case": c})
		ck.rep.Eval(1)
		for _, m := range conform(c, r, true) {
			ck.rep.Nonconf("%s", m)
		}
		if len(cases) > 0 && c == cases[len(cases)/3] {
			ck.rep.Sample(map[string]any{"case": c, "observed": r})
		}
	}
}

func nontrivial(c *pcase) bool { return !(c.M == "GET" && c.P == "plain" && c.CK == "absent") }

// ---------------------------------------------------------------- phase B: cases with a wait, grouped by schedule

type groupKey struct {
	Node  string
	A     int
	Learn bool
	Live  bool
}

// runGroup sends every case of the group concurrently, releases the mid-wait event, and evaluates.
func (ck *checker) runGroup(k groupKey, cases []*pcase, final bool) (again []*pcase) {
	w := ck.w
	n := w.nodes[k.Node]
	prim := w.primary()
	commitN := func(cnt int) {
		for i := 0; i < cnt; i++ {
			core.Beat("real:commit")
			if _, err := prim.stub.commit(trackedDB); err != nil {
				core.Infra("commit on the primary failed: %v", err)
			}
			core.Beat("harness")
		}
	}
	// ---- prepare: node at L, exactly A more transactions available to it at the mid event
	var mid func()
	switch k.Node {
	case "primary":
		mid = func() { commitN(k.A) }
	case "replica":
		w.syncNode("replica")
		if k.A > 0 && !k.Live {
			L := n.pos(trackedDB)
			n.cn.Client.Block()
			time.Sleep(5 * time.Millisecond)
			commitN(k.A)
			time.Sleep(50 * time.Millisecond) // more than two reconnect periods
			if n.pos(trackedDB) != L {
				core.Infra("harness: blocked replica still advanced (%d -> %d)", L, n.pos(trackedDB))
			}
			mid = func() { n.cn.Client.Unblock() }
		} else {
			mid = func() { commitN(k.A) }
		}
	case "noprimary":
		// bring it level with the primary, hide the primary again, then let the primary move on by A
		w.showPrimary()
		w.syncNode("noprimary")
		w.hidePrimary()
		commitN(k.A)
		if k.Learn {
			mid = func() { w.showPrimary() }
		} else {
			mid = func() {}
		}
	}
	L := n.pos(trackedDB)
	target := L + uint64(k.A)

	// ---- fire
	type run struct {
		c  *pcase
		rq request
		r  *result
	}
	runs := make([]*run, 0, len(cases))
	for _, c := range cases {
		runs = append(runs, &run{c: c, rq: ck.concretise(c)})
	}
	var wg sync.WaitGroup
	core.Beat("real:group " + fmt.Sprint(k))
	for _, ru := range runs {
		wg.Add(1)
		go func(ru *run) { defer wg.Done(); ru.r = w.send(ru.rq) }(ru)
	}
	time.Sleep(midDelay)
	mid()
	var reachedAt time.Time
	if k.A > 0 {
		waitFor(30*time.Second, fmt.Sprintf("%s reaches TXID %d after the mid-wait event", k.Node, target), func() bool { return n.pos(trackedDB) >= target })
		reachedAt = time.Now()
	}
	done := make(chan struct{})
	go func() { wg.Wait(); close(done) }()
	for waiting := true; waiting; {
		select {
		case <-done:
			waiting = false
		case <-time.After(time.Second):
			core.Beat("real:group " + fmt.Sprint(k)) // each request is bounded by the client's own 40 s time-out
		}
	}
	core.Beat("harness")
	if k.Node == "noprimary" && k.Learn {
		w.hidePrimary()
	}

	// ---- evaluate
	for i, ru := range runs {
		c := ru.c
		ck.rep.Case(c.key()+ifs(k.Live, "|live", ""), nontrivial(c))
		ck.rep.TracesValidated++
		var ra time.Time
		if c.CK == "wf" && ru.rq.t <= target && ru.rq.t > L {
			ra = reachedAt
		}
		if ck.monitors(n, c.M, c.P, c.CK, ru.r, ra, final, map[string]any{"case": c, "live": k.Live}) {
			again = append(again, c)
			continue
		}
		// conformance is timing-dependent here as well: a miss is re-run once before it is recorded
		ck.rep.Eval(1)
		msgs := conform(c, ru.r, false)
		if len(msgs) > 0 && !final {
			again = append(again, c)
			continue
		}
		for _, m := range msgs {
			ck.rep.Nonconf("%s", m)
		}
		if i == len(runs)/2 {
			ck.rep.Sample(map[string]any{"case": c, "group": k, "observed": ru.r})
		}
	}
	return again
}

// runGroups runs the waiting cases; on the replica "arrives during the wait" is realised both ways:
// a lagging stream is released, and the primary commits while the stream is connected.
func (ck *checker) runGroups(cases []*pcase) {
	groups := map[groupKey][]*pcase{}
	for _, c := range cases {
		k := groupKey{Node: c.Node, A: c.A, Learn: c.Learn}
		groups[k] = append(groups[k], c)
		if c.Node == "replica" && c.A > 0 {
			k.Live = true
			groups[k] = append(groups[k], c)
		}
	}
	keys := make([]groupKey, 0, len(groups))
	for k := range groups {
		keys = append(keys, k)
	}
	sort.Slice(keys, func(i, j int) bool { return fmt.Sprint(keys[i]) < fmt.Sprint(keys[j]) })
	var gl []any
	for _, k := range keys {
		cs := groups[k]
		again := ck.runGroup(k, cs, false)
		if len(again) > 0 {
			ck.rep.Note("group %v: %d timing-dependent case(s) re-run once (R5)", k, len(again))
			ck.runGroup(k, again, true)
		}
		gl = append(gl, map[string]any{"node": k.Node, "arrive_during_wait": k.A, "primary_learned": k.Learn, "live": k.Live, "cases": len(cs), "rerun": len(again)})
	}
	ck.rep.Extra["wait_groups"] = gl
}

// ---------------------------------------------------------------- phase C: the cookie round trip

// chain writes through the primary's proxy, takes the Set-Cookie header as a browser would and reads
// through the lagging replica's proxy with it.
func (ck *checker) chain(rounds int) {
	w := ck.w
	prim, repl := w.primary(), w.nodes["replica"]
	methods := []string{"POST", "PUT", "DELETE", "PATCH"}
	for i := 0; i < rounds; i++ {
		arrives := i%2 == 0
		w.syncNode("replica")
		repl.cn.Client.Block()
		time.Sleep(5 * time.Millisecond)
		m := methods[ck.rnd.Intn(len(methods))]
		core.Beat("real:chain write")
		wr := w.send(request{node: prim, cfg: proxyCfg{DB: trackedDB, Paths: "std"}, method: m, path: "/app/items/7", write: 1})
		core.Beat("harness")
		rp := map[string]any{"chain": map[string]any{"method": m, "arrives": arrives}}
		ck.monitors(prim, m, "plain", "absent", wr, time.Time{}, true, rp)
		t, ok := parseTXID(wr.SetCookie)
		if !wr.HasCookie || !ok {
			ck.rep.Nonconf("chain: write through the primary's proxy returned no usable cookie: %+v", wr)
			repl.cn.Client.Unblock()
			continue
		}
		time.Sleep(50 * time.Millisecond)
		if wr.Arr != nil && wr.Arr.W > 0 && repl.pos(trackedDB) >= wr.Arr.WPos {
			core.Infra("harness: blocked replica received the write")
		}
		rq := request{node: repl, cfg: proxyCfg{DB: trackedDB, Paths: "std", Slow: arrives}, method: "GET", path: "/app/items/7",
			cookie: lhttp.TXIDCookieName + "=" + wr.SetCookie, t: t}
		var rr *result
		done := make(chan struct{})
		core.Beat("real:chain read")
		go func() { rr = w.send(rq); close(done) }()
		var reachedAt time.Time
		if arrives {
			time.Sleep(midDelay)
			repl.cn.Client.Unblock()
			waitFor(30*time.Second, "replica receives the write", func() bool { return repl.pos(trackedDB) >= t })
			reachedAt = time.Now()
		}
		<-done
		core.Beat("harness")
		repl.cn.Client.Unblock()
		ck.rep.TracesValidated++
		ck.rep.Case(fmt.Sprintf("chain|%s|arrives=%v", m, arrives), true)
		ck.monitors(repl, "GET", "plain", "wf", rr, reachedAt, true, rp)
		// read-your-writes end to end (follows from P1a and P3; evaluated on the observed values)
		ck.rep.Eval(1)
		if rr.Arr != nil && wr.Arr != nil && rr.Arr.TXID < wr.Arr.WPos {
			ck.rep.Violate("C19.P1a+P3.read-your-writes", "RYW/replica-read-before-own-write", map[string]any{"write": wr, "read": rr}, rp)
		}
		want := ifs(arrives, "fwd", "e504")
		got := ifs(rr.Arr != nil, "fwd", ifs(rr.Status == 504, "e504", fmt.Sprintf("status %d %s", rr.Status, rr.Err)))
		if want != got {
			ck.rep.Nonconf("chain %s arrives=%v: expected %s, got %s", m, arrives, want, got)
		}
		if i == 0 {
			ck.rep.Sample(map[string]any{"chain": map[string]any{"write": wr, "read": rr}})
		}
	}
}

// ---------------------------------------------------------------- phase D: a replica that has not received the database yet

// freshReplica is the realistic embodiment of the model's "tracked database absent" cases: the
// database exists on the primary, a node has just booted and has not found the primary yet.
func (ck *checker) freshReplica() {
	w := ck.w
	env := &nodeEnv{role: "noprimary", proxies: map[string]*lhttp.ProxyServer{}}
	core.Beat("real:start n4")
	cn, err := w.cl.Start("n4", sim.ClusterNodeOpts{Configure: func(s *litefs.Store) {
		env.gate = &gatedLeaser{Leaser: s.Leaser}
		env.gate.closed.Store(true)
		s.Leaser = env.gate
	}})
	if err != nil {
		core.Infra("start n4: %v", err)
	}
	env.cn = cn
	env.stub = newStub(cn)
	defer func() {
		for _, p := range env.proxies {
			_ = p.Close()
		}
		_ = env.stub.srv.Close()
	}()
	t := w.primary().pos(trackedDB)
	rq := request{node: env, cfg: proxyCfg{DB: trackedDB, Paths: "std"}, method: "GET", path: "/app/items/7", cookie: lhttp.TXIDCookieName + "=" + formatTXID(t), t: t}
	rp := map[string]any{"fresh_replica": true}
	core.Beat("real:fresh replica read")
	r1 := w.send(rq)
	core.Beat("harness")
	ck.rep.TracesValidated++
	ck.rep.Case("fresh-replica|before-first-snapshot", true)
	ck.monitors(env, "GET", "plain", "wf", r1, time.Time{}, true, rp)
	// the database arrives: from now on the same read is held until the position is there
	env.gate.closed.Store(false)
	waitFor(30*time.Second, "n4 receives the database", func() bool { return env.pos(trackedDB) >= t })
	core.Beat("real:fresh replica read")
	r2 := w.send(rq)
	core.Beat("harness")
	ck.rep.TracesValidated++
	ck.rep.Case("fresh-replica|after-first-snapshot", true)
	ck.monitors(env, "GET", "plain", "wf", r2, time.Time{}, true, rp)
	// ... and a read that names a position the replica has not reached is not forwarded (the same proxy object
	// that served the request before the database existed)
	rq3 := rq
	rq3.t = t + 5
	rq3.cookie = lhttp.TXIDCookieName + "=" + formatTXID(rq3.t)
	core.Beat("real:fresh replica read ahead")
	r3 := w.send(rq3)
	core.Beat("harness")
	ck.rep.TracesValidated++
	ck.rep.Case("fresh-replica|after-first-snapshot|cookie-ahead", true)
	ck.monitors(env, "GET", "plain", "wf", r3, time.Time{}, true, rp)
	// the primary side of the same story: a proxy that served a request before the tracked database existed
	// issues the cookie once the application has created and written it
	ck.lateDatabaseOnPrimary()
	ck.rep.Extra["fresh_replica"] = map[string]any{"before_snapshot": r1, "after_snapshot": r2, "cookie_ahead": r3}
}

// lateDatabaseOnPrimary: the proxy of the primary tracks a database that does not exist yet; a first write request
// goes through (nothing to report), then the application creates the database and writes: that write is
// answered with the cookie.
func (ck *checker) lateDatabaseOnPrimary() {
	w := ck.w
	ck.fresh++
	name := fmt.Sprintf("late%d", ck.fresh)
	n := w.primary()
	cfg := proxyCfg{DB: name, Paths: "std"}
	rp := map[string]any{"late_database": true}
	r1 := w.send(request{node: n, cfg: cfg, method: "POST", path: "/app/other", write: 0})
	r2 := w.send(request{node: n, cfg: cfg, method: "POST", path: "/app/items", write: 1})
	r3 := w.send(request{node: n, cfg: cfg, method: "POST", path: "/app/items", write: 1})
	ck.rep.TracesValidated++
	ck.rep.Case("late-database-on-primary", true)
	ck.monitors(n, "POST", "plain", "absent", r1, time.Time{}, true, rp)
	ck.monitors(n, "POST", "plain", "absent", r2, time.Time{}, true, rp)
	ck.monitors(n, "POST", "plain", "absent", r3, time.Time{}, true, rp)
	ck.rep.Extra["late_database_on_primary"] = map[string]any{"first": r1, "creating_write": r2, "second_write": r3}
}

// ---------------------------------------------------------------- phase E: the primary has left for good

// departedPrimary is another embodiment of the model's role "noprimary": the replica was connected to a
// primary that has shut down in an orderly way (its stream ended with an end frame, its lease is destroyed)
// and nobody has taken over. The ground truth "no primary" comes from the lease service, not from what
// the node believes: a write arriving at the replica's proxy has to end in an error, not in a redirect to
// a node that is not the primary any more.
func (ck *checker) departedPrimary() {
	w := ck.w
	cl := sim.NewCluster(core.Scratch("departed"))
	defer func() { _ = core.Try(cl.Close) }()
	cl.Lease.AllowOnly()
	core.Beat("real:start departed-primary cluster")
	pn, err := cl.Start("n1", sim.ClusterNodeOpts{Candidate: true})
	if err != nil {
		core.Infra("start n1: %v", err)
	}
	if err := cl.Elect("n1", 20*time.Second); err != nil {
		core.Infra("elect n1: %v", err)
	}
	pstub := newStub(pn)
	for i := 0; i < 3; i++ {
		if _, err := pstub.commit(trackedDB); err != nil {
			core.Infra("commit on the primary: %v", err)
		}
	}
	env := &nodeEnv{role: "noprimary", proxies: map[string]*lhttp.ProxyServer{}}
	cn, err := cl.Start("n5", sim.ClusterNodeOpts{Configure: func(s *litefs.Store) {
		env.gate = &gatedLeaser{Leaser: s.Leaser}
		s.Leaser = env.gate
	}})
	if err != nil {
		core.Infra("start n5: %v", err)
	}
	env.cn = cn
	env.stub = newStub(cn)
	defer func() {
		for _, p := range env.proxies {
			_ = p.Close()
		}
		_ = env.stub.srv.Close()
		_ = pstub.srv.Close()
	}()
	_, want := trackedPos(pn.Store, trackedDB)
	waitFor(30*time.Second, "n5 catches up", func() bool { return env.pos(trackedDB) == want && env.known() == "n1" })
	rp := map[string]any{"departed_primary": true}
	// while the primary is there the write is redirected to it
	core.Beat("real:departed primary: write while connected")
	r0 := w.send(request{node: env, cfg: proxyCfg{DB: trackedDB, Paths: "std"}, method: "POST", path: "/app/items"})
	core.Beat("harness")
	ck.rep.TracesValidated++
	ck.rep.Case("departed-primary|connected", true)
	ck.monitors(env, "POST", "plain", "absent", r0, time.Time{}, true, rp)
	// orderly shutdown of the primary (server first: the stream handlers send their end frame)
	core.Beat("real:departed primary: shutdown")
	cl.Stop("n1")
	if h := cl.Lease.Holder(); h != "" {
		core.Infra("the departed primary's lease is still held by %s", h)
	}
	a0 := env.gate.asked.Load()
	waitFor(30*time.Second, "n5 looks for a primary again", func() bool { return env.gate.asked.Load() >= a0+3 })
	for i, m := range []string{"POST", "PUT", "DELETE"} {
		core.Beat("real:departed primary: write")
		r := w.send(request{node: env, cfg: proxyCfg{DB: trackedDB, Paths: "std"}, method: m, path: "/app/items"})
		core.Beat("harness")
		ck.rep.TracesValidated++
		ck.rep.Case("departed-primary|gone|"+m, true)
		ck.monitors(env, m, "plain", "absent", r, time.Time{}, true, rp)
		ck.rep.Eval(1)
		if r.Err == "" && r.FlyReplay != "" {
			ck.rep.Violate("C19.P2b.replica-write-redirected-or-error", "P2b/redirect-to-departed-primary/"+m,
				map[string]any{"observed": r, "lease_holder_at_the_lease_service": cl.Lease.Holder(), "node_believes_primary_is": env.known(),
					"primary_lookups_since_the_shutdown": env.gate.asked.Load() - a0}, rp)
		}
		if i == 0 {
			ck.rep.Extra["departed_primary"] = map[string]any{"connected": r0, "gone": r}
		}
	}
}

// ---------------------------------------------------------------- TLC

func collect(rep *core.Report, cfg string) (cases []*pcase, nModel, nRacy int) {
	var mu sync.Mutex
	byKey := map[string]*pcase{}
	res, err := core.RunTLC(core.TLCOpts{Module: "Proxy", Cfg: cfg, Workers: 4, Timeout: 5 * time.Minute,
		OnLine: func(tag string, payload json.RawMessage) {
			if tag != "CASE" {
				return
			}
			var mc modelCase
			if err := json.Unmarshal(payload, &mc); err != nil {
				core.Infra("bad CASE line: %v: %s", err, payload)
			}
			pc, racy := project(&mc)
			mu.Lock()
			defer mu.Unlock()
			nModel++
			if racy {
				nRacy++
				return
			}
			if old := byKey[pc.key()]; old != nil {
				if old.Kind != pc.Kind || old.Status != pc.Status || old.Issue != pc.Issue {
					core.Infra("projection is ambiguous for %s: %s/%d/%v and %s/%d/%v", pc.key(), old.Kind, old.Status, old.Issue, pc.Kind, pc.Status, pc.Issue)
				}
				return
			}
			byKey[pc.key()] = &pc
		}})
	if err != nil {
		core.Infra("tlc: %v", err)
	}
	if !res.OK() {
		core.Infra("model checking of Proxy.tla (%s) failed (model problem, not a code verdict): %s\n%s", cfg, res.Describe(), res.ErrorText+res.OutputTail)
	}
	rep.AddTLC(strings.TrimSuffix(cfg, ".cfg"), res)
	keys := make([]string, 0, len(byKey))
	for k := range byKey {
		keys = append(keys, k)
	}
	sort.Strings(keys)
	for _, k := range keys {
		cases = append(cases, byKey[k])
	}
	return cases, nModel, nRacy
}

// expectViolation runs a configuration in which TLC must find the named invariant violated.
func expectViolation(rep *core.Report, cfg, inv, what string) map[string]any {
	res, err := core.RunTLC(core.TLCOpts{Module: "Proxy", Cfg: cfg, Workers: 4, Timeout: 5 * time.Minute})
	if err != nil {
		core.Infra("tlc: %v", err)
	}
	if res.TimedOut || (res.Violation == "" && res.ExitCode != 0) {
		core.Infra("TLC failed on %s: %s\n%s", cfg, res.Describe(), res.OutputTail)
	}
	return map[string]any{"cfg": cfg, "what": what, "expected_violation": inv, "found": res.Violation, "states": res.Distinct}
}

func main() {
	args := core.ParseArgs()
	rep := core.NewReport("C19", "model_checking", args)
	rep.Rule = "every distinct terminal state of Proxy.tla (complete state space within the bounds) projected onto (role, tracked database present, method, path class, cookie class and offset from the local TXID, transactions arriving during the wait, primary learned during the wait, application commits, health lag) and replayed on a real ProxyServer; distinct = distinct projection (plus realisation of the arrival for replica waits); non-trivial = anything but GET on a plain path without cookie"
	rep.Assumptions = []string{
		"paths and cookie values are classes (which configured patterns match; absent / malformed / TXID relative to the local position), concrete strings are drawn from small lists by the seed",
		"read request = GET/HEAD not matching passthrough or always-forward patterns; write request = POST/PUT/DELETE/PATCH, or GET/HEAD on an always-forward path, not matching a passthrough pattern; OPTIONS and the proxy's own health endpoint are compared with the model only (conformance)",
		"the application answers after it has committed (a handler that flushes headers and commits afterwards gets a cookie older than its write; outside the model)",
		"a node's role changes only from 'no primary known' to 'replica' while a request is handled",
		"behaviours whose outcome hinges on an event between the handler's last look and its time-out are model-checked but cannot be forced on the real code (counted as racy_not_replayed)",
	}
	rep.Exhaustive = true
	defer core.Cleanup()

	core.Watchdog(120*time.Second, func(label string, since time.Duration) {
		if strings.HasPrefix(label, "real:") {
			rep.Violate("C19.no-hang", "hang/"+strings.SplitN(label, " ", 2)[0], map[string]any{"no_progress_for": since.String(), "doing": label}, nil)
			rep.Finish()
		}
		core.Infra("no progress for %s while %s", since, label)
	})

	ck := &checker{rep: rep, args: args, rnd: rand.New(rand.NewSource(args.Seed*7919 + 19))}

	if args.Replay != "" {
		replay(ck, args.Replay)
		rep.Finish()
	}

	// ---- 1. exhaustive model checking + case emission
	cfg := core.Pick(args, "MC_Proxy.cfg", "MC_Proxy_big.cfg")
	cases, nModel, nRacy := collect(rep, cfg)
	if len(cases) < 1000 {
		core.Infra("expected >= 1000 projected cases from TLC, got %d", len(cases))
	}
	rep.Extra["model_terminal_states"] = nModel
	rep.Extra["racy_not_replayed"] = nRacy
	rep.Extra["projected_cases"] = len(cases)

	// ---- 2. the clause as the property states it (no carve-out for an absent database): TLC's
	// counterexample is a lead (R2); the replay below reproduces it on the real code (known finding)
	lead := expectViolation(rep, "MC_Proxy_strict.cfg", "P1aStrict", "P1a without the exception for an absent tracked database")
	rep.Extra["model_lead"] = lead

	// ---- 3. relevance: a broken guard must violate the property on the model (all in the thorough
	// tier, one chosen by the seed in the quick tier); evidence about the model, never a verdict
	muts := []struct{ mut, inv string }{{"gt", "P1c"}, {"off_by_one", "P1a"}, {"fwd_on_timeout", "P1a"}, {"patch_read", "P2a"},
		{"cookie_before", "P3"}, {"no_replica_guard", "P2a"}, {"no_always_forward", "P2a"}}
	if args.Quick() {
		muts = muts[int(args.Seed)%len(muts):][:1]
	}
	var rel []any
	for _, m := range muts {
		r := expectViolation(rep, "MC_Proxy_mut_"+m.mut+".cfg", m.inv, "guard broken in the model: "+m.mut)
		if r["found"] != m.inv {
			core.Infra("relevance configuration %s: expected TLC to report %s violated, got %q (invariants vacuous?)", m.mut, m.inv, r["found"])
		}
		rel = append(rel, r)
	}
	rep.Extra["relevance"] = rel

	// ---- 4. replay on the real proxy
	ck.w = newWorld()
	defer ck.w.close()
	var seq, grp []*pcase
	for _, c := range cases {
		if c.Wait {
			grp = append(grp, c)
		} else {
			seq = append(seq, c)
		}
	}
	rep.Extra["cases_without_wait"] = len(seq)
	rep.Extra["cases_with_wait"] = len(grp)
	// every round draws other concrete paths / cookie strings for the same classes
	rounds := core.Pick(args, 2, 5)
	rep.Extra["concretisation_rounds"] = rounds
	for i := 0; i < rounds; i++ {
		ck.rnd.Shuffle(len(seq), func(i, j int) { seq[i], seq[j] = seq[j], seq[i] })
		sort.SliceStable(seq, func(i, j int) bool { return seq[i].Node < seq[j].Node })
		ck.runSequential(seq)
	}
	ck.runGroups(grp)
	ck.chain(core.Pick(args, 4, 24))
	ck.freshReplica()
	ck.departedPrimary()
	ck.w.close()
	rep.Finish()
}

// ---------------------------------------------------------------- replay of one recorded case

func replay(ck *checker, path string) {
	b, err := os.ReadFile(path)
	if err != nil {
		core.Infra("read replay: %v", err)
	}
	var f struct {
		Replay struct {
			Case  *pcase `json:"case"`
			Live  bool   `json:"live"`
			Chain *struct {
				Method  string `json:"method"`
				Arrives bool   `json:"arrives"`
			} `json:"chain"`
			Fresh bool `json:"fresh_replica"`
		} `json:"replay"`
	}
	if err := json.Unmarshal(b, &f); err != nil {
		core.Infra("parse replay: %v", err)
	}
	ck.w = newWorld()
	defer ck.w.close()
	switch {
	case f.Replay.Case != nil && !f.Replay.Case.Wait:
		ck.runSequential([]*pcase{f.Replay.Case})
	case f.Replay.Case != nil:
		c := f.Replay.Case
		k := groupKey{Node: c.Node, A: c.A, Learn: c.Learn, Live: f.Replay.Live}
		if again := ck.runGroup(k, []*pcase{c}, false); len(again) > 0 {
			ck.runGroup(k, again, true)
		}
	case f.Replay.Chain != nil:
		ck.chain(2)
	case f.Replay.Fresh:
		ck.freshReplica()
	ck.departedPrimary()
	default:
		core.Infra("replay file has neither a case nor a chain")
	}
	fmt.Printf("replayed %s\n", path)
}
