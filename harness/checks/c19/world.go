package main

import (
	"context"
	"fmt"
	"net"
	"net/http"
	"regexp"
	"strconv"
	"strings"
	"sync"
	"sync/atomic"
	"time"

	"github.com/superfly/litefs"
	lhttp "github.com/superfly/litefs/http"
	"github.com/superfly/litefs/verifharness/core"
	"github.com/superfly/litefs/verifharness/sim"
)

const (
	trackedDB = "db"    // the database the ordinary proxies track
	ghostDB   = "ghost" // a database that never exists on any node

	hdrCase  = "X-C19-Case"
	hdrDB    = "X-C19-Db"
	hdrWrite = "X-C19-Write"

	fastPoll    = 2 * time.Millisecond
	fastTimeout = 150 * time.Millisecond // cases that must end in a time-out
	slowTimeout = 6 * time.Second        // cases that must proceed once something arrives (>= 50x the typical catch-up)
	midDelay    = 30 * time.Millisecond  // when the mid-wait event is released
)

// gatedLeaser lets the harness hide the primary from one node ("no primary known").
type gatedLeaser struct {
	litefs.Leaser
	closed atomic.Bool
	asked  atomic.Int64 // PrimaryInfo calls begun
}

func (g *gatedLeaser) PrimaryInfo(ctx context.Context) (litefs.PrimaryInfo, error) {
	g.asked.Add(1)
	if g.closed.Load() {
		return litefs.PrimaryInfo{}, litefs.ErrNoPrimary
	}
	return g.Leaser.PrimaryInfo(ctx)
}

// arrival is what the stub application recorded for one request.
type arrival struct {
	N      int    `json:"n"` // how many times the request arrived
	Method string `json:"method"`
	Path   string `json:"path"`
	DB     string `json:"db"`
	Exists bool   `json:"exists"` // tracked database existed at arrival
	TXID   uint64 `json:"txid"`   // its TXID at arrival (0 if absent)
	W      int    `json:"w"`      // transactions the application committed
	WPos   uint64 `json:"wpos"`   // TXID of the last of them
	WErr   string `json:"werr,omitempty"`
}

type dbWriter struct {
	pg *sim.Pager
	v  int
}

// stubApp is the application behind the proxy of one node.
type stubApp struct {
	node  *sim.CNode
	ln    net.Listener
	srv   *http.Server
	mu    sync.Mutex
	seen  map[string]*arrival
	wmu   sync.Mutex
	wr    map[string]*dbWriter
	owner uint64
}

func trackedPos(s *litefs.Store, name string) (bool, uint64) {
	db := s.DB(name)
	if db == nil {
		return false, 0
	}
	return true, uint64(db.Pos().TXID)
}

func newStub(cn *sim.CNode) *stubApp {
	ln, err := net.Listen("tcp", "127.0.0.1:0")
	if err != nil {
		core.Infra("stub listen: %v", err)
	}
	a := &stubApp{node: cn, ln: ln, seen: map[string]*arrival{}, wr: map[string]*dbWriter{}, owner: 100}
	a.srv = &http.Server{Handler: http.HandlerFunc(a.serve)}
	go func() { _ = a.srv.Serve(ln) }()
	return a
}

func (a *stubApp) target() string { return a.ln.Addr().String() }

func (a *stubApp) serve(w http.ResponseWriter, r *http.Request) {
	id := r.Header.Get(hdrCase)
	dbn := r.Header.Get(hdrDB)
	ex, txid := trackedPos(a.node.Store, dbn) // the position at arrival, before anything else
	nw, _ := strconv.Atoi(r.Header.Get(hdrWrite))
	a.mu.Lock()
	arr := a.seen[id]
	if arr == nil {
		arr = &arrival{Method: r.Method, Path: r.URL.Path, DB: dbn, Exists: ex, TXID: txid}
		a.seen[id] = arr
	}
	arr.N++
	a.mu.Unlock()
	var wpos uint64
	var werr string
	done := 0
	for i := 0; i < nw; i++ {
		p, err := a.commit(dbn)
		if err != nil {
			werr = err.Error()
			break
		}
		wpos = p
		done++
	}
	a.mu.Lock()
	arr.W, arr.WPos, arr.WErr = done, wpos, werr
	a.mu.Unlock()
	w.Header().Set("X-C19-Stub", a.node.Name)
	// like a real application: a cookie of its own and a header with several values on every response
	w.Header().Add("Set-Cookie", "session=s-"+id+"; Path=/")
	w.Header().Add("Set-Cookie", "theme=dark; Path=/")
	w.Header().Add("Vary", "Cookie")
	w.Header().Add("Vary", "Accept-Encoding")
	w.WriteHeader(http.StatusOK)
	if r.Method != http.MethodHead {
		_, _ = w.Write([]byte("ok\n"))
	}
}

func (a *stubApp) take(id string) *arrival {
	a.mu.Lock()
	defer a.mu.Unlock()
	arr := a.seen[id]
	delete(a.seen, id)
	if arr == nil {
		return nil
	}
	c := *arr
	return &c
}

// commit plays one SQLite rollback-journal transaction on the node (must be the primary) and returns
// the TXID of the database afterwards.
func (a *stubApp) commit(name string) (txid uint64, err error) {
	a.wmu.Lock()
	defer a.wmu.Unlock()
	if p := core.Try(func() { txid, err = a.commit1(name) }); p != nil {
		return 0, fmt.Errorf("panic in litefs while committing: %s", p.Value)
	}
	return txid, err
}

func (a *stubApp) commit1(name string) (uint64, error) {
	w := a.wr[name]
	if w == nil {
		a.owner++
		w = &dbWriter{pg: sim.NewPager(a.node.Connect(name, a.owner), sim.L0(512), sim.PagerOpts{})}
		a.wr[name] = w
	}
	w.v++
	pl := sim.Plan{Kind: "j", Ns: 3, M: []int{1, 2}, Out: "commit", Fin: "DELETE", V: w.v}
	if w.v == 1 {
		pl.M = []int{1, 2, 3}
	}
	pg := w.pg
	// SQLite's busy handler: a lock refused because LiteFS itself holds the database for a moment
	// (e.g. while it snapshots it for a replica) is retried, here for up to 5 s
	busy := func(step func() error, undo func()) error {
		deadline := time.Now().Add(5 * time.Second)
		for {
			err := step()
			if err == nil || !strings.Contains(err.Error(), "temporarily unavailable") || time.Now().After(deadline) {
				return err
			}
			if undo != nil {
				undo()
			}
			time.Sleep(time.Millisecond)
		}
	}
	if err := busy(func() error { return pg.BeginJ(pl) }, pg.EndJ); err != nil {
		return 0, err
	}
	if err := pg.JCreate(); err != nil {
		return 0, err
	}
	if err := busy(pg.JSync, nil); err != nil {
		return 0, err
	}
	for _, q := range pl.M {
		if err := pg.JPage(q); err != nil {
			return 0, err
		}
	}
	if err := pg.JFinal(); err != nil {
		return 0, err
	}
	pg.EndJ()
	_, t := trackedPos(a.node.Store, name)
	return t, nil
}

// nodeEnv is one role: a real store, its stub application and its proxies.
type nodeEnv struct {
	role    string // primary | replica | noprimary
	cn      *sim.CNode
	stub    *stubApp
	gate    *gatedLeaser
	mu      sync.Mutex
	proxies map[string]*lhttp.ProxyServer
}

// proxyCfg selects one proxy configuration; every distinct one is a real ProxyServer with its own listener.
type proxyCfg struct {
	DB    string // DBName
	Slow  bool   // generous time-outs (cases that must proceed), else short ones (cases that must time out)
	Paths string // std | hpt (passthrough also matches the health path) | haf (always-forward also matches it)
	Tight bool   // MaxLag = 1ns (health must report lag on a replica) else 1h
}

func mustMatch(s string) *regexp.Regexp {
	re, err := lhttp.CompileMatch(s)
	if err != nil {
		core.Infra("CompileMatch(%q): %v", s, err)
	}
	return re
}

func (n *nodeEnv) proxy(c proxyCfg) *lhttp.ProxyServer {
	key := fmt.Sprintf("%s|%v|%s|%v", c.DB, c.Slow, c.Paths, c.Tight)
	n.mu.Lock()
	defer n.mu.Unlock()
	if p := n.proxies[key]; p != nil {
		return p
	}
	p := lhttp.NewProxyServer(n.cn.Store)
	p.Target = n.stub.target()
	p.DBName = c.DB
	p.Addr = "127.0.0.1:0"
	p.Passthroughs = []*regexp.Regexp{mustMatch("/pt/*"), mustMatch("/both/*"), mustMatch("*.js"), mustMatch("/pt.v1/*"), mustMatch("/pt+x/*")}
	p.AlwaysForward = []*regexp.Regexp{mustMatch("/af/*"), mustMatch("/both/*"), mustMatch("/af.v1/*")}
	switch c.Paths {
	case "hpt":
		p.Passthroughs = append(p.Passthroughs, mustMatch("/litefs/*"))
	case "haf":
		p.AlwaysForward = append(p.AlwaysForward, mustMatch("/litefs/*"))
	}
	p.PollTXIDInterval = fastPoll
	p.PollTXIDTimeout = fastTimeout
	p.PrimaryRedirectTimeout = fastTimeout
	if c.Slow {
		p.PollTXIDTimeout = slowTimeout
		p.PrimaryRedirectTimeout = slowTimeout
	}
	p.MaxLag = time.Hour
	if c.Tight {
		p.MaxLag = time.Nanosecond
	}
	if err := p.Listen(); err != nil {
		core.Infra("proxy listen: %v", err)
	}
	p.Serve()
	n.proxies[key] = p
	return p
}

// known reports what the node knows about the primary: "self", the primary's hostname, or "".
func (n *nodeEnv) known() string {
	isP, info := n.cn.Store.PrimaryInfo()
	if isP {
		return "self"
	}
	if info != nil {
		return info.Hostname
	}
	return ""
}

func (n *nodeEnv) pos(db string) uint64 { _, t := trackedPos(n.cn.Store, db); return t }

type world struct {
	cl    *sim.Cluster
	nodes map[string]*nodeEnv // by role
	hc    *http.Client
	seq   atomic.Int64
}

func (w *world) primary() *nodeEnv { return w.nodes["primary"] }

func waitFor(d time.Duration, what string, f func() bool) {
	deadline := time.Now().Add(d)
	for !f() {
		if time.Now().After(deadline) {
			core.Infra("harness: %s did not happen within %s", what, d)
		}
		core.Beat("harness:wait " + what)
		time.Sleep(500 * time.Microsecond)
	}
}

func newWorld() *world {
	w := &world{cl: sim.NewCluster(core.Scratch("cluster")), nodes: map[string]*nodeEnv{}}
	w.hc = &http.Client{Timeout: 40 * time.Second, Transport: &http.Transport{MaxIdleConnsPerHost: 512, MaxIdleConns: 2048},
		CheckRedirect: func(*http.Request, []*http.Request) error { return http.ErrUseLastResponse }}
	w.cl.Lease.AllowOnly()
	for _, nd := range []struct{ name, role string }{{"n1", "primary"}, {"n2", "replica"}, {"n3", "noprimary"}} {
		env := &nodeEnv{role: nd.role, proxies: map[string]*lhttp.ProxyServer{}}
		o := sim.ClusterNodeOpts{Candidate: nd.role == "primary"}
		if nd.role == "noprimary" {
			o.Configure = func(s *litefs.Store) {
				env.gate = &gatedLeaser{Leaser: s.Leaser}
				s.Leaser = env.gate
			}
		}
		core.Beat("real:start " + nd.name)
		cn, err := w.cl.Start(nd.name, o)
		if err != nil {
			core.Infra("start %s: %v", nd.name, err)
		}
		env.cn = cn
		env.stub = newStub(cn)
		w.nodes[nd.role] = env
	}
	core.Beat("real:elect")
	if err := w.cl.Elect("n1", 20*time.Second); err != nil {
		core.Infra("elect n1: %v", err)
	}
	core.Beat("harness")
	// the tracked database, far enough from TXID 0 that "behind" cookies are positive
	for i := 0; i < 5; i++ {
		if _, err := w.primary().stub.commit(trackedDB); err != nil {
			core.Infra("initial commit on the primary failed: %v", err)
		}
	}
	w.syncNode("replica")
	w.syncNode("noprimary")
	// a transaction received after the initial replication set gives both nodes a primary timestamp
	// (Store.Lag() is 0 until then), which the health cases with lag need
	for i := 0; ; i++ {
		ts2, ts3 := w.nodes["replica"].cn.Store.PrimaryTimestamp(), w.nodes["noprimary"].cn.Store.PrimaryTimestamp()
		if ts2 > 0 && ts3 > 0 {
			break
		}
		if i > 200 {
			core.Infra("harness: replicas never got a primary timestamp (%d, %d)", ts2, ts3)
		}
		if _, err := w.primary().stub.commit(trackedDB); err != nil {
			core.Infra("commit on the primary failed: %v", err)
		}
		w.syncNode("replica")
		w.syncNode("noprimary")
		time.Sleep(2 * time.Millisecond)
	}
	w.hidePrimary()
	return w
}

func (w *world) close() {
	for _, n := range w.nodes {
		for _, p := range n.proxies {
			_ = p.Close()
		}
		_ = n.stub.srv.Close()
	}
	w.cl.Close()
}

// syncNode waits until a node (connected to the primary) has the primary's position of the tracked database.
func (w *world) syncNode(role string) {
	n := w.nodes[role]
	waitFor(30*time.Second, role+" catches up with the primary", func() bool {
		return n.pos(trackedDB) == w.primary().pos(trackedDB) && n.known() == "n1"
	})
}

// hidePrimary puts the third node into the "no primary known" state (its data stays).
func (w *world) hidePrimary() {
	n := w.nodes["noprimary"]
	n.gate.closed.Store(true)
	n.cn.Client.Cut()
	ok := 0
	waitFor(30*time.Second, "third node forgets the primary", func() bool {
		if n.known() == "" {
			ok++
		} else {
			ok = 0
			n.cn.Client.Cut()
		}
		return ok > 40 // stable for >= 20 ms (one reconnect period)
	})
}

// showPrimary lets the third node find the primary again.
func (w *world) showPrimary() { w.nodes["noprimary"].gate.closed.Store(false) }
