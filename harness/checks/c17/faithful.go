package main

import (
	"fmt"
	"os"
	"path/filepath"

	"github.com/superfly/litefs/verifharness/core"
	"github.com/superfly/litefs/verifharness/sim"
)

// The "faithful" stage does not build files itself: a live node is driven by sim.Pager (every
// journal and database byte passes through LiteFS's own FUSE handlers), the data directory is
// copied at an interruption point (application death) and a fresh store is opened on the copy.
// Only the property monitor is evaluated (pre-transaction bytes and size while the journal is hot,
// the new image once it is finalised). The newest LTX file is re-applied by DB.Open here, which
// can mask a rollback that restores too little - the directly built states of the main stage have
// no LTX file for exactly that reason.

type fPlan struct {
	M      []int
	Ns     int
	NoSync bool
	Fin    string
}

type fCase struct {
	Kind string `json:"kind"` // "faithful"
	Plan fPlan  `json:"plan"`
	Cut  int    `json:"cut"` // number of pager steps of the second transaction before the copy
	Cfg  Cfg    `json:"cfg"`
}

const fN0 = 3

func fSteps(pg *sim.Pager, pl sim.Plan) []func() error {
	steps := []func() error{func() error { return pg.BeginJ(pl) }, pg.JCreate, pg.JSync}
	for _, q := range pl.M {
		if q <= pl.Ns {
			q := q
			steps = append(steps, func() error { return pg.JPage(q) })
		}
	}
	steps = append(steps, pg.JFinal)
	if pl.Ns < fN0 {
		steps = append(steps, func() error { return pg.JTrunc(pl.Ns) })
	}
	return steps
}

func runFaithful(p *pool, c fCase) (out caseOut) {
	cfg := c.Cfg
	l := cfg.layout()
	dirA := core.Scratch("fa")
	dirB := core.Scratch("fb")
	defer os.RemoveAll(dirA)
	defer os.RemoveAll(dirB)
	var want sim.Image
	var finalised bool
	var drvErr error
	core.Beat("real:drive-pager")
	pn := core.Try(func() {
		node, err := sim.OpenNode(sim.NodeOpts{Dir: dirA, Primary: true})
		if err != nil {
			drvErr = fmt.Errorf("open live node: %w", err)
			return
		}
		defer node.Close()
		conn := node.Connect("db", 7)
		pg := sim.NewPager(conn, l, sim.PagerOpts{Sector: cfg.Sector})
		all := []int{}
		for q := 1; q <= fN0; q++ {
			all = append(all, q)
		}
		first := sim.Plan{Kind: "j", Ns: fN0, M: all, Out: "commit", Fin: "DELETE", V: 1}
		for i, f := range fSteps(pg, first) {
			if err := f(); err != nil {
				drvErr = fmt.Errorf("initial transaction step %d: %w", i, err)
				return
			}
		}
		pg.EndJ()
		second := sim.Plan{Kind: "j", Ns: c.Plan.Ns, M: c.Plan.M, Out: "commit", Fin: c.Plan.Fin, NoSync: c.Plan.NoSync, V: 2}
		steps := fSteps(pg, second)
		for i := 0; i < c.Cut && i < len(steps); i++ {
			if err := steps[i](); err != nil {
				drvErr = fmt.Errorf("second transaction step %d: %w", i, err)
				return
			}
		}
		// the reference image moves when the journal is finalised (Pager.JFinal updates Ref)
		finalised = c.Cut >= len(steps)-btoi(c.Plan.Ns < fN0)
		want = l.ImageOf(pg.Ref)
		if err := sim.CopyDir(dirA, dirB); err != nil {
			drvErr = fmt.Errorf("copy: %w", err)
		}
	})
	core.Beat("harness")
	if pn != nil {
		out.fails = append(out.fails, fail{"C17.no-panic", "panic/faithful-driver/" + norm(pn.Value), map[string]any{"panic": pn.Value, "stack": pn.Stack, "case": c}})
		return
	}
	if drvErr != nil {
		// the live node refused a legal pager step: not a C17 clause, the driver cannot produce the state
		out.skipped = true
		out.openErr = drvErr.Error()
		return
	}
	_ = os.RemoveAll(filepath.Join(dirB, "mnt-not-mounted"))
	res := p.open(openReq{Dir: dirB, AbortAbove: 8 + farBeyond})
	out.res = res
	out.evals = 5
	out.nontrivial = c.Cut >= 2
	monitor := "C17.rollback-restores-pre-transaction-bytes-and-size"
	if finalised {
		monitor = "C17.finalised-journal-is-not-played-back"
	}
	detail := func(extra map[string]any) map[string]any {
		d := map[string]any{"case": c, "cfg": cfg.String(), "finalised": finalised}
		for k, v := range extra {
			d[k] = v
		}
		return d
	}
	switch {
	case res.Hang:
		out.fails = append(out.fails, fail{"C17.no-hang", "hang/faithful", detail(nil)})
		return
	case res.Crash != "":
		out.fails = append(out.fails, fail{"C17.no-panic", "crash/faithful/" + normCrash(res.Crash), detail(map[string]any{"child_died": res.Crash})})
		return
	case res.Panic != "":
		out.fails = append(out.fails, fail{"C17.no-panic", "panic/faithful/" + norm(res.Panic), detail(map[string]any{"panic": res.Panic, "stack": res.Stack})})
		return
	case res.Err != "":
		out.fails = append(out.fails, fail{monitor, "open-error/faithful/" + norm(res.Err), detail(map[string]any{"open_error": res.Err})})
		return
	}
	dbd := filepath.Join(dirB, "dbs", "db")
	im, err := diskImage(dbd, cfg.PageSize)
	if err != nil {
		out.fails = append(out.fails, fail{monitor, "db-missing/faithful", detail(map[string]any{"error": err.Error()})})
		return
	}
	if ok, why := im.Equal(want, l.LockPgno()); !ok {
		out.fails = append(out.fails, fail{monitor, "image-mismatch/faithful", detail(map[string]any{"difference": why, "size_after": im.N, "size_expected": want.N})})
	}
	if _, err := os.Stat(filepath.Join(dbd, "journal")); err == nil && !(finalised && c.Plan.Fin != "DELETE") {
		out.fails = append(out.fails, fail{"C17.no-journal-left-after-reopen", "journal-left/faithful", detail(nil)})
	}
	return
}

func btoi(b bool) int {
	if b {
		return 1
	}
	return 0
}

func (r *runner) faithfulStage(cfgs []Cfg) {
	var cases []fCase
	i := 0
	for _, pl := range []fPlan{
		{M: []int{1}, Ns: 3}, {M: []int{1, 2}, Ns: 3}, {M: []int{1, 3}, Ns: 3}, {M: []int{1, 2, 3}, Ns: 3},
		{M: []int{1, 4}, Ns: 4}, {M: []int{1, 2, 4}, Ns: 4}, {M: []int{1, 3}, Ns: 2}, {M: []int{1, 2, 3}, Ns: 2},
	} {
		for _, nosync := range []bool{false, true} {
			for _, fin := range []string{"DELETE", "PERSIST"} {
				pl := pl
				pl.NoSync, pl.Fin = nosync, fin
				n := 3 + 1 + btoi(pl.Ns < fN0)
				for _, q := range pl.M {
					if q <= pl.Ns {
						n++
					}
				}
				for cut := 1; cut <= n; cut++ {
					if fin == "PERSIST" && cut < n-1-btoi(pl.Ns < fN0) {
						continue // the finalisation mode only matters from JFinal on
					}
					cases = append(cases, fCase{Kind: "faithful", Plan: pl, Cut: cut, Cfg: cfgs[(i+int(r.args.Seed))%len(cfgs)]})
					i++
				}
			}
		}
	}
	parallel(len(cases), workersN(), func(i int) {
		c := cases[i]
		o := runFaithful(r.pool, c)
		if o.skipped {
			r.count("faithful_driver_refused", 1)
			r.rep.Note("faithful driver: %s (%+v)", o.openErr, c)
			return
		}
		r.record(o, fmt.Sprintf("faithful/%v", c), c)
		r.count("faithful_tests", 1)
	})
}
