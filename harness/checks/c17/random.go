package main

import (
	"bytes"
	"encoding/binary"
	"fmt"
	"math/rand"
	"os"
	"path/filepath"

	"github.com/superfly/litefs/verifharness/core"
)

// rCase is one randomized input: a generated file with byte-level damage, or a random byte string,
// as journal or WAL next to an intact database file. Everything is derived from CaseSeed.
type rCase struct {
	Kind     string  `json:"kind"` // "random"
	File     string  `json:"file"` // "journal" | "wal"
	JBase    *JState `json:"jbase,omitempty"`
	WBase    *WState `json:"wbase,omitempty"`
	Cfg      Cfg     `json:"cfg"`
	CaseSeed int64   `json:"case_seed"`
}

func randBytes(rnd *rand.Rand, n int) []byte {
	b := make([]byte, n)
	rnd.Read(b)
	return b
}

// damage applies byte-level mutations: bit flips, truncation, zeroed regions, swapped salts.
func damage(b []byte, file string, cfg Cfg, rnd *rand.Rand) ([]byte, []string) {
	b = append([]byte{}, b...)
	var ops []string
	unit := int(cfg.PageSize) + 8 // journal record
	hdr := 28
	if file == "wal" {
		unit, hdr = int(cfg.PageSize)+24, 24
	}
	pos := func() int {
		if len(b) == 0 {
			return 0
		}
		if rnd.Intn(2) == 0 {
			// inside a header: the file header or the header of some record / frame
			base := 0
			if rnd.Intn(3) > 0 && len(b) > 64 {
				start := 32
				if file == "journal" {
					start = cfg.Sector
				}
				if len(b) > start {
					base = start + unit*rnd.Intn((len(b)-start)/unit+1)
				}
			}
			if p := base + rnd.Intn(hdr+4); p < len(b) {
				return p
			}
		}
		return rnd.Intn(len(b))
	}
	// now and then aim at the database-header fields inside the image of page 1 (page size at 16,
	// size in pages at 28): the record checksum samples every 200th byte only, so damage there is
	// played back into the database
	if file == "journal" && rnd.Intn(10) == 0 && len(b) >= cfg.Sector+4+32 && binary.BigEndian.Uint32(b[cfg.Sector:]) == 1 {
		off := cfg.Sector + 4 + []int{16, 17, 28, 28, 29, 31}[rnd.Intn(6)]
		if rnd.Intn(2) == 0 {
			bit := byte(1) << uint(rnd.Intn(8))
			b[off] ^= bit
			ops = append(ops, fmt.Sprintf("flip bit %#x of byte %d (database header inside the record of page 1)", bit, off))
		} else {
			field, n := cfg.Sector+4+16, 2
			if off >= cfg.Sector+4+28 {
				field, n = cfg.Sector+4+28, 4
			}
			copy(b[field:field+n], make([]byte, n))
			ops = append(ops, fmt.Sprintf("zero %d bytes at %d (database header inside the record of page 1)", n, field))
		}
	}
	for n := 1 + rnd.Intn(3); n > 0; n-- {
		if len(b) == 0 {
			break
		}
		switch k := rnd.Intn(10); {
		case k < 4:
			p := pos()
			bit := byte(1) << uint(rnd.Intn(8))
			b[p] ^= bit
			ops = append(ops, fmt.Sprintf("flip bit %#x of byte %d", bit, p))
		case k < 6:
			n := rnd.Intn(len(b) + 1)
			if rnd.Intn(2) == 0 && len(b) > unit {
				n = len(b) - 1 - rnd.Intn(unit) // near the end: a torn last unit
			}
			b = b[:n]
			ops = append(ops, fmt.Sprintf("truncate to %d bytes", n))
		case k < 9:
			p := pos()
			n := 1 + rnd.Intn(64)
			if rnd.Intn(4) == 0 {
				n = 1 + rnd.Intn(cfg.Sector+unit)
			}
			if rnd.Intn(6) == 0 {
				p = 0
			}
			for i := p; i < p+n && i < len(b); i++ {
				b[i] = 0
			}
			ops = append(ops, fmt.Sprintf("zero %d bytes at %d", n, p))
		default:
			if file == "wal" && len(b) >= 32 {
				off := 16 // header salts
				if nf := (len(b) - 32) / unit; nf > 0 && rnd.Intn(2) == 0 {
					off = 32 + unit*rnd.Intn(nf) + 8
				}
				if off+8 <= len(b) {
					var t [4]byte
					copy(t[:], b[off:off+4])
					copy(b[off:off+4], b[off+4:off+8])
					copy(b[off+4:off+8], t[:])
					ops = append(ops, fmt.Sprintf("swap salts at %d", off))
				}
			} else if len(b) >= 20 {
				var t [4]byte
				copy(t[:], b[12:16])
				copy(b[12:16], b[16:20])
				copy(b[16:20], t[:])
				ops = append(ops, "swap nonce and size fields of the journal header")
			}
		}
	}
	return b, ops
}

// randomFile builds a random byte string, optionally behind a plausible header.
func randomFile(file string, cfg Cfg, rnd *rand.Rand, mode int) ([]byte, string) {
	ps := int(cfg.PageSize)
	n := rnd.Intn(2*(cfg.Sector+ps+24) + 64)
	if rnd.Intn(8) == 0 {
		n = rnd.Intn(64)
	}
	b := randBytes(rnd, n)
	switch {
	case mode == 0:
		return b, "random bytes"
	case file == "journal" && mode == 1:
		if len(b) >= 8 {
			copy(b, journalMagic)
		}
		return b, "random bytes behind the journal magic"
	case file == "wal" && mode == 1:
		if len(b) >= 4 {
			binary.BigEndian.PutUint32(b, 0x377f0682+uint32(rnd.Intn(2)))
		}
		return b, "random bytes behind a WAL magic"
	case file == "journal":
		if len(b) < 28 {
			b = append(b, randBytes(rnd, 28)...)
		}
		copy(b, journalMagic)
		binary.BigEndian.PutUint32(b[8:], []uint32{0, 0xffffffff, 1, 2, 3, rnd.Uint32()}[rnd.Intn(6)])
		binary.BigEndian.PutUint32(b[16:], []uint32{0, 1, 2, 3, 5, rnd.Uint32() >> uint(rnd.Intn(32))}[rnd.Intn(6)])
		binary.BigEndian.PutUint32(b[20:], []uint32{uint32(cfg.Sector), uint32(cfg.Sector), 512, 1, 100, 31, 1 << 31, rnd.Uint32()}[rnd.Intn(8)])
		binary.BigEndian.PutUint32(b[24:], []uint32{cfg.PageSize, cfg.PageSize, cfg.PageSize, 0, 512, rnd.Uint32()}[rnd.Intn(6)])
		return b, "random bytes behind a journal header with plausible fields"
	default:
		if len(b) < 32 {
			b = append(b, randBytes(rnd, 32)...)
		}
		bo := binary.ByteOrder(binary.LittleEndian)
		magic := uint32(0x377f0682)
		if rnd.Intn(2) == 0 {
			bo, magic = binary.BigEndian, 0x377f0683
		}
		binary.BigEndian.PutUint32(b[0:], magic)
		binary.BigEndian.PutUint32(b[4:], []uint32{3007000, 3007000, 3007000, 3007001, 0}[rnd.Intn(5)])
		binary.BigEndian.PutUint32(b[8:], []uint32{cfg.PageSize, cfg.PageSize, cfg.PageSize, 0, 512, 3, 1000, 1 << 17, 8 * (1 + uint32(rnd.Intn(64)))}[rnd.Intn(9)])
		c1, c2 := wsum(bo, 0, 0, b[:24])
		binary.BigEndian.PutUint32(b[24:], c1)
		binary.BigEndian.PutUint32(b[28:], c2)
		// sometimes make the first "frame" carry the header's salts so that only the checksum guards it
		if len(b) >= 56 && rnd.Intn(2) == 0 {
			copy(b[40:48], b[16:24])
		}
		return b, "random bytes behind a valid WAL header"
	}
}

func runRandom(p *pool, c rCase, hung *hungSet) (out caseOut) {
	rnd := rand.New(rand.NewSource(c.CaseSeed))
	cfg := c.Cfg
	l := cfg.layout()
	ps := int(cfg.PageSize)
	var dbPre, base []byte
	if c.File == "journal" {
		s := c.JBase
		dbPre = dbBytes(l, s.Db, s.Plan)
		if s.J.Exists {
			base = journalBytes(s, cfg, rnd).Bytes
		}
	} else {
		dbPre = wDBBytes(l, c.WBase)
		base = walBytes(c.WBase, cfg, rnd)
	}
	var file []byte
	var how []string
	if mode := rnd.Intn(10); mode < 6 && len(base) > 0 {
		file, how = damage(base, c.File, cfg, rnd)
	} else {
		var d string
		file, d = randomFile(c.File, cfg, rnd, mode%3)
		how = []string{d}
	}
	prePages := uint32(len(dbPre) / ps)
	bound := prePages
	class := "random"
	if c.File == "journal" {
		if mc := journalMaxClaim(file); mc > bound {
			bound = mc // the largest size a header of the journal claims the database had
		}
		if _, _, _, sector, _, ok := journalClaims(file); ok {
			switch {
			case len(dbPre) == 0:
				class = "newdb-empty-dbfile"
			case sector == 0:
				class = "sector0"
			case bound > 1<<20:
				class = "claims-huge-size" // a header of the journal claims a database of more than 2^20 pages
			}
		}
	} else {
		class = wClass(file)
		if _, _, mc := refWAL(file, cfg.PageSize); mc > bound {
			bound = mc
		}
	}
	if hung.has(class) {
		out.skipped = true
		return
	}
	dir := core.Scratch("r")
	defer os.RemoveAll(dir)
	dbd := filepath.Join(dir, "dbs", "db")
	if err := os.MkdirAll(dbd, 0o777); err != nil {
		core.Infra("mkdir: %v", err)
	}
	if err := os.WriteFile(filepath.Join(dbd, "database"), dbPre, 0o666); err != nil {
		core.Infra("write database: %v", err)
	}
	if err := os.WriteFile(filepath.Join(dbd, c.File), file, 0o666); err != nil {
		core.Infra("write %s: %v", c.File, err)
	}
	abortAbove := bound
	if abortAbove > 1<<20 {
		abortAbove = 1 << 20
	}
	res := p.open(openReq{Dir: dir, AbortAbove: abortAbove + farBeyond})
	out.res = res
	out.evals = 3
	out.nontrivial = true
	detail := func(extra map[string]any) map[string]any {
		d := map[string]any{"class": class, "file": c.File, "cfg": cfg.String(), "how": how, "file_bytes": len(file), "db_pages_before": prePages, "pages_of_database": bound}
		if len(file) <= 96 {
			d["file_hex"] = fmt.Sprintf("%x", file)
		} else {
			d["file_hex_first_96"] = fmt.Sprintf("%x", file[:96])
		}
		for k, v := range extra {
			d[k] = v
		}
		return d
	}
	// a panic is identified by its message; the size-claim class only matters for the time an open takes
	pclass := class
	if pclass == "claims-huge-size" {
		pclass = "random"
	}
	switch {
	case res.Hang:
		hung.add(class)
		out.fails = append(out.fails, fail{"C17.no-hang", "hang/" + c.File + "/" + class, detail(map[string]any{"no_answer_for": openDeadline.String()})})
		return
	case res.Crash != "":
		out.fails = append(out.fails, fail{"C17.no-panic", "crash/" + c.File + "/" + pclass + "/" + normCrash(res.Crash), detail(map[string]any{"child_died": res.Crash})})
		return
	case res.Panic != "":
		out.fails = append(out.fails, fail{"C17.no-panic", "panic/" + c.File + "/" + pclass + "/" + norm(res.Panic), detail(map[string]any{"panic": res.Panic, "stack": res.Stack})})
		return
	}
	out.openErr = res.Err
	pages, truncs := stepViolations(res, bound)
	out.transient = len(pages) + len(truncs)
	// (a journal that itself claims an enormous database has no "outside" worth the name)
	if far := farWrites(pages, truncs, bound); len(far) > 0 && bound <= 1<<20 {
		sig := "oob-write/wal/" + class
		if c.File == "journal" {
			sig = "oob-write/journal/record-pgno-far-beyond-database"
			if len(farWrites(pages, nil, bound)) == 0 {
				sig = "oob-write/journal/truncate-far-beyond-database/" + class
			}
		}
		out.fails = append(out.fails, fail{"C17.no-write-outside-the-database-pages", sig,
			detail(map[string]any{"writes_outside": far, "aborted_by_harness": res.Aborted})})
	}
	if res.Aborted {
		return
	}
	// final state: the file stays within the database's pages and every page is either untouched,
	// a hole, or a page image that is in the journal / WAL
	out.evals += 2
	fi, err := os.Stat(filepath.Join(dbd, "database"))
	if err != nil {
		if len(dbPre) > 0 && res.Err == "" {
			out.fails = append(out.fails, fail{"C17.no-write-outside-the-database-pages", "db-missing/" + c.File + "/" + class, detail(map[string]any{"error": err.Error()})})
		}
		return
	}
	if fi.Size() > int64(bound)*int64(ps) {
		sig := "oob-final/" + c.File + "/" + class + "/size"
		if c.File == "journal" && len(pages) > 0 {
			// LiteFS was seen writing a record at a page number outside the database (and then
			// failed before its final truncate): the file kept the page
			sig = "oob-final/journal/record-pgno-outside-database/size"
		}
		out.fails = append(out.fails, fail{"C17.no-write-outside-the-database-pages", sig,
			detail(map[string]any{"size_after": fi.Size(), "page_writes_outside": pages, "open_error": res.Err})})
	}
	f, err := os.Open(filepath.Join(dbd, "database"))
	if err != nil {
		return
	}
	defer f.Close()
	page := make([]byte, ps)
	zero := make([]byte, ps)
	var alien []int
	for pg := 0; pg < 64 && int64(pg+1)*int64(ps) <= fi.Size(); pg++ {
		if _, err := f.ReadAt(page, int64(pg)*int64(ps)); err != nil {
			break
		}
		if (pg+1)*ps <= len(dbPre) && bytes.Equal(page, dbPre[pg*ps:(pg+1)*ps]) {
			continue
		}
		if bytes.Equal(page, zero) || bytes.Contains(file, page) {
			continue
		}
		alien = append(alien, pg+1)
	}
	if len(alien) > 0 {
		out.fails = append(out.fails, fail{"C17.no-write-outside-the-database-pages", "oob-final/" + c.File + "/" + class + "/content",
			detail(map[string]any{"pages_with_bytes_from_nowhere": alien})})
	}
	return
}

func (r *runner) randomStage(js []*JState, ws []*WState, cfgs []Cfg, n int) {
	var jb []*JState
	for _, s := range js {
		if s.J.Exists && len(s.J.Segs) > 0 && s.Mut.Kind != "sector0" && s.Mut.Kind != "pgbig" && s.Mut.Kind != "orig2" {
			jb = append(jb, s)
		}
	}
	var wb []*WState
	for _, s := range ws {
		if s.H == "ok" && len(s.F) >= 2 {
			wb = append(wb, s)
		}
	}
	if len(jb) == 0 || len(wb) == 0 {
		core.Infra("no base states for the randomized part")
	}
	parallel(n, workersN(), func(i int) {
		seed := r.args.Seed*7_368_787 + int64(i)*104_729 + 13
		rnd := rand.New(rand.NewSource(seed))
		c := rCase{Kind: "random", Cfg: cfgs[rnd.Intn(len(cfgs))], CaseSeed: seed}
		if c.Cfg.PageSize == 65536 && rnd.Intn(4) != 0 {
			c.Cfg = cfgs[rnd.Intn(2)] // few of the expensive ones
		}
		if rnd.Intn(2) == 0 {
			c.File, c.JBase = "journal", jb[rnd.Intn(len(jb))]
		} else {
			c.File, c.WBase = "wal", wb[rnd.Intn(len(wb))]
		}
		o := runRandom(r.pool, c, r.hung)
		r.record(o, fmt.Sprintf("random/%d", seed), c)
		r.count("random_tests/"+c.File, 1)
		if o.openErr != "" {
			r.count("random_open_errors/"+c.File, 1)
		}
	})
}
