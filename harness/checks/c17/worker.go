package main

import (
	"bufio"
	"encoding/json"
	"fmt"
	"io"
	"os"
	"os/exec"
	"strings"
	"sync"
	"syscall"
	"time"

	"github.com/superfly/litefs"
	"github.com/superfly/litefs/verifharness/core"
	"github.com/superfly/litefs/verifharness/sim"
)

// Opening a store on prepared files is done in child processes: a hang of the code under test
// (Store.Open not returning) cannot be interrupted inside a Go process, but a child can be killed
// after the deadline, and a fatal error of the child (out of memory, panic on another goroutine)
// is an observation instead of a crashed check.

const openDeadline = 30 * time.Second

// openReq asks a worker to open (and close) a store on Dir.
type openReq struct {
	Dir string `json:"dir"`
	// page writes above AbortAbove are recorded and then aborted (they would create terabyte-sized
	// sparse files and allocate gigabytes of checksum table); 0 = never abort
	AbortAbove uint32 `json:"abort_above"`
}

// stepEv is one call of LiteFS's internal page-write / truncate helper during the open.
type stepEv struct {
	Kind string `json:"k"` // "page" | "truncate"
	Arg  uint32 `json:"a"`
}

// openRes is what the worker observed.
type openRes struct {
	Err     string   `json:"err,omitempty"`
	Panic   string   `json:"panic,omitempty"`
	Stack   string   `json:"stack,omitempty"`
	Aborted bool     `json:"aborted,omitempty"` // the harness stopped a hazardous write (see AbortAbove)
	Steps   []stepEv `json:"steps,omitempty"`
	Exits   []int    `json:"exits,omitempty"`
	Ms      float64  `json:"ms"`
	// set by the parent:
	Hang  bool   `json:"hang,omitempty"`  // no answer within the deadline; the child was killed
	Crash string `json:"crash,omitempty"` // the child died; tail of its stderr
}

type abortSentinel struct{}

func workerMain() {
	// keep a runaway allocation of the code under test from taking the machine down
	lim := syscall.Rlimit{Cur: 3 << 30, Max: 3 << 30}
	_ = syscall.Setrlimit(syscall.RLIMIT_AS, &lim)
	in := bufio.NewReaderSize(os.Stdin, 1<<20)
	out := bufio.NewWriter(os.Stdout)
	var mu sync.Mutex
	// A worker stuck inside the code under test never reads stdin again: leave when the parent is
	// gone or when one open has been running far beyond the parent's deadline.
	var busySince time.Time
	parent := os.Getppid()
	go func() {
		for {
			time.Sleep(500 * time.Millisecond)
			mu.Lock()
			b := busySince
			mu.Unlock()
			if os.Getppid() != parent || (!b.IsZero() && time.Since(b) > openDeadline+15*time.Second) {
				os.Exit(4)
			}
		}
	}()
	var steps []stepEv
	var abortAbove uint32
	var aborted bool
	litefs.VerifStepHook = func(db *litefs.DB, kind string, arg uint32, internal bool) {
		mu.Lock()
		if len(steps) < 200 {
			steps = append(steps, stepEv{Kind: kind, Arg: arg})
		}
		ab := kind == "page" && abortAbove != 0 && arg > abortAbove
		if ab {
			aborted = true
		}
		mu.Unlock()
		if ab {
			panic(abortSentinel{})
		}
	}
	for {
		line, err := in.ReadBytes('\n')
		if err != nil {
			return
		}
		var req openReq
		if err := json.Unmarshal(line, &req); err != nil {
			fmt.Fprintf(os.Stderr, "worker: bad request: %v\n", err)
			os.Exit(3)
		}
		mu.Lock()
		steps, abortAbove, aborted = nil, req.AbortAbove, false
		busySince = time.Now()
		mu.Unlock()
		var res openRes
		start := time.Now()
		var node *sim.Node
		var oerr error
		p := core.Try(func() { node, oerr = sim.OpenNode(sim.NodeOpts{Dir: req.Dir, Primary: true}) })
		mu.Lock()
		res.Steps, res.Aborted = steps, aborted
		mu.Unlock()
		if p != nil && !res.Aborted {
			res.Panic, res.Stack = p.Value, p.Stack
		}
		if oerr != nil {
			res.Err = oerr.Error()
		}
		if node != nil {
			res.Exits = node.Exits()
			if p := core.Try(func() { node.Close() }); p != nil && res.Panic == "" {
				res.Panic, res.Stack = "close: "+p.Value, p.Stack
			}
		}
		res.Ms = float64(time.Since(start).Microseconds()) / 1000
		mu.Lock()
		busySince = time.Time{}
		mu.Unlock()
		b, _ := json.Marshal(res)
		out.Write(b)
		out.WriteByte('\n')
		out.Flush()
	}
}

// worker is the parent's handle on one child.
type worker struct {
	uses   int
	cmd    *exec.Cmd
	in     io.WriteCloser
	lines  chan []byte
	errBuf *tailBuf
}

// tailBuf keeps the beginning of a child's stderr (a Go fatal error starts with the informative lines).
type tailBuf struct {
	mu sync.Mutex
	b  []byte
}

func (t *tailBuf) Write(p []byte) (int, error) {
	t.mu.Lock()
	if room := 4000 - len(t.b); room > 0 {
		if len(p) < room {
			room = len(p)
		}
		t.b = append(t.b, p[:room]...)
	}
	t.mu.Unlock()
	return len(p), nil
}

func (t *tailBuf) String() string {
	t.mu.Lock()
	defer t.mu.Unlock()
	return string(t.b)
}

func startWorker() *worker {
	exe, err := os.Executable()
	if err != nil {
		core.Infra("cannot find own executable: %v", err)
	}
	cmd := exec.Command(exe)
	cmd.Env = append(os.Environ(), "VERIF_C17_WORKER=1")
	in, err := cmd.StdinPipe()
	if err != nil {
		core.Infra("worker pipe: %v", err)
	}
	outp, err := cmd.StdoutPipe()
	if err != nil {
		core.Infra("worker pipe: %v", err)
	}
	w := &worker{cmd: cmd, in: in, lines: make(chan []byte, 1), errBuf: &tailBuf{}}
	cmd.Stderr = w.errBuf
	if err := cmd.Start(); err != nil {
		core.Infra("cannot start worker: %v", err)
	}
	go func() {
		rd := bufio.NewReaderSize(outp, 1<<20)
		for {
			line, err := rd.ReadBytes('\n')
			if len(line) > 0 && err == nil {
				w.lines <- line
			}
			if err != nil {
				close(w.lines)
				return
			}
		}
	}()
	return w
}

func (w *worker) kill() {
	_ = w.in.Close()
	if w.cmd.Process != nil {
		_ = w.cmd.Process.Kill()
	}
	go func() { _ = w.cmd.Wait() }()
}

// pool hands out workers; a worker that hung or died is replaced.
type pool struct {
	mu     sync.Mutex
	free   []*worker
	flukes []string // children that died once but not on the immediate retry (harness trouble, recorded)
}

func (p *pool) get() *worker {
	p.mu.Lock()
	defer p.mu.Unlock()
	if n := len(p.free); n > 0 {
		w := p.free[n-1]
		p.free = p.free[:n-1]
		return w
	}
	return startWorker()
}

// A worker is retired after a number of opens: stores that failed to open leave goroutines and
// memory behind, and the child runs under an address-space limit.
const workerMaxUses = 1000

func (p *pool) put(w *worker) {
	w.uses++
	if w.uses >= workerMaxUses {
		w.kill()
		return
	}
	p.mu.Lock()
	p.free = append(p.free, w)
	p.mu.Unlock()
}

func (p *pool) close() {
	p.mu.Lock()
	for _, w := range p.free {
		w.kill()
	}
	p.free = nil
	p.mu.Unlock()
}

// open runs one open in a child with the deadline of the property's no-hang clause. A child that
// dies is an observation only if a fresh child dies on the same input again (R5).
func (p *pool) open(req openReq) openRes {
	res := p.open1(req)
	if res.Crash != "" {
		first := res.Crash
		if res = p.open1(req); res.Crash == "" {
			p.mu.Lock()
			p.flukes = append(p.flukes, crashTail(first))
			p.mu.Unlock()
		}
	}
	return res
}

func (p *pool) open1(req openReq) openRes {
	w := p.get()
	b, _ := json.Marshal(req)
	core.Beat("real:Store.Open")
	defer core.Beat("harness")
	if _, err := w.in.Write(append(b, '\n')); err != nil {
		w.kill()
		return openRes{Crash: "worker not accepting requests: " + err.Error() + " " + w.errBuf.String()}
	}
	select {
	case line, ok := <-w.lines:
		if !ok {
			w.kill()
			time.Sleep(20 * time.Millisecond)
			return openRes{Crash: crashTail(w.errBuf.String())}
		}
		var res openRes
		if err := json.Unmarshal(line, &res); err != nil {
			w.kill()
			return openRes{Crash: "unreadable answer: " + err.Error()}
		}
		p.put(w)
		return res
	case <-time.After(openDeadline):
		w.kill()
		return openRes{Hang: true}
	}
}

func crashTail(s string) string {
	// first lines of a Go fatal error / panic are the informative ones
	lines := strings.Split(strings.TrimSpace(s), "\n")
	if len(lines) > 12 {
		lines = lines[:12]
	}
	return strings.Join(lines, "\n")
}

// parallel runs fn(i) for i in [0,n) on `workers` goroutines.
func parallel(n, workers int, fn func(i int)) {
	var wg sync.WaitGroup
	ch := make(chan int)
	for w := 0; w < workers; w++ {
		wg.Add(1)
		go func() {
			defer wg.Done()
			for i := range ch {
				fn(i)
			}
		}()
	}
	for i := 0; i < n; i++ {
		ch <- i
	}
	close(ch)
	wg.Wait()
}
