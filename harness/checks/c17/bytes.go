package main

import (
	"bytes"
	"encoding/binary"
	"fmt"
	"math/rand"

	"github.com/superfly/litefs/verifharness/sim"
)

// Cfg holds the concretisation parameters of one implementation test; they do not enlarge the
// model's state space.
type Cfg struct {
	PageSize uint32 `json:"page_size"`
	Sector   int    `json:"sector"`
	BigEnd   bool   `json:"big_endian"` // WAL checksum byte order
}

func (c Cfg) String() string {
	return fmt.Sprintf("ps%d/sector%d/be%v", c.PageSize, c.Sector, c.BigEnd)
}

func (c Cfg) layout() sim.Layout { return sim.L0(c.PageSize) }

func stdCfgs(thorough bool) []Cfg {
	var out []Cfg
	// the smallest, the usual and the largest legal page size in both tiers (65536 is the one a bound
	// written with >= instead of > loses); every legal size in the thorough tier
	sizes := []uint32{512, 1024, 4096, 65536}
	if thorough {
		sizes = []uint32{512, 1024, 2048, 4096, 8192, 16384, 32768, 65536}
	}
	for i, ps := range sizes {
		for j, sec := range []int{512, 4096} {
			out = append(out, Cfg{PageSize: ps, Sector: sec, BigEnd: (i+j)%2 == 1})
		}
	}
	return out
}

var journalMagic = []byte{0xd9, 0xd5, 0x05, 0xf9, 0x20, 0xa1, 0x63, 0xd7}

const (
	nonceNew = uint32(0x1234abcd)
	nonceOld = uint32(0x6234abcd) // nonce of the older transaction whose records are the stale tail
	bigPgno  = uint32(0x80000002)
)

// jcksum is SQLite's journal record checksum (pager_cksum): nonce + every 200th byte from the end.
func jcksum(data []byte, nonce uint32) uint32 {
	c := nonce
	for i := len(data) - 200; i > 0; i -= 200 {
		c += uint32(data[i])
	}
	return c
}

// content maps a journal-part version to harness page content for page pg.
func jContent(v int, pg uint32, pl JPlan) (sim.Content, bool) {
	switch v {
	case 0:
		c := sim.Content{V: 10}
		if pg == 1 {
			c.Sz = pl.N0
		}
		return c, true
	case 1:
		c := sim.Content{V: 11}
		if pg == 1 {
			c.Sz = pl.Ns
		}
		return c, true
	case 9:
		c := sim.Content{V: 19}
		if pg == 1 {
			c.Sz = pl.N0
		}
		return c, true
	}
	return sim.Content{}, false // -1: zero page
}

func jPage(l sim.Layout, v int, pg uint32, pl JPlan) []byte {
	c, ok := jContent(v, pg, pl)
	if !ok {
		return make([]byte, l.PageSize)
	}
	return l.PageBytes(pg, c)
}

// dbBytes builds a database file from page versions.
func dbBytes(l sim.Layout, vers []int, pl JPlan) []byte {
	var b []byte
	for i, v := range vers {
		b = append(b, jPage(l, v, uint32(i+1), pl)...)
	}
	return b
}

// decodeDB maps database bytes back to journal-part versions; bad lists what does not decode.
func decodeDB(l sim.Layout, b []byte, pl JPlan) (vers []int, bad []string) {
	ps := int(l.PageSize)
	if len(b)%ps != 0 {
		bad = append(bad, fmt.Sprintf("file size %d is not a multiple of the page size %d", len(b), ps))
	}
	for i := 0; i+ps <= len(b); i += ps {
		pg := uint32(i/ps + 1)
		page := b[i : i+ps]
		v := -99
		for _, cand := range []int{0, 1, 9, -1} {
			if bytes.Equal(page, jPage(l, cand, pg, pl)) {
				v = cand
				break
			}
		}
		if v == -99 {
			bad = append(bad, fmt.Sprintf("page %d holds bytes the harness never wrote for it", pg))
		}
		vers = append(vers, v)
	}
	return vers, bad
}

// jBuild describes how an abstract journal became bytes (for replay files and signatures).
type jBuild struct {
	Bytes   []byte
	BigPgno uint32 // real page number used for the "pgbig" record, 0 if none
	Orig2   uint32 // size field written into a damaged second header ("orig2"), 0 if none
}

// journalBytes concretises an abstract journal exactly as SQLite lays it out: a sector-sized header
// per segment (the header buffer of min(pageSize, sector) bytes is written repeatedly to fill the
// sector; a later sync rewrites only the first 12 bytes), records pgno|page|checksum.
func journalBytes(s *JState, cfg Cfg, rnd *rand.Rand) jBuild {
	l := cfg.layout()
	ps := int(cfg.PageSize)
	chunk := ps
	if chunk > cfg.Sector {
		chunk = cfg.Sector
	}
	var out jBuild
	var f []byte
	for k := range s.J.Segs {
		sg := &s.J.Segs[k]
		off := len(f)
		if k > 0 && off%cfg.Sector != 0 {
			off = (off/cfg.Sector + 1) * cfg.Sector
			f = append(f, make([]byte, off-len(f))...)
		}
		mk := func(magic bool, nrec int) []byte {
			h := make([]byte, chunk)
			if magic {
				copy(h, journalMagic)
				binary.BigEndian.PutUint32(h[8:], uint32(int32(nrec)))
			}
			binary.BigEndian.PutUint32(h[12:], nonceNew)
			orig := uint32(sg.Orig)
			if sg.Orig == 99 { // damaged size field of a later header: some pages or very many pages too large
				if out.Orig2 == 0 {
					out.Orig2 = []uint32{uint32(s.N0 + 32), 0x10000003}[rnd.Intn(2)]
				}
				orig = out.Orig2
			} else if s.Mut.Kind == "orig2" && k == 1 {
				out.Orig2 = orig
			}
			binary.BigEndian.PutUint32(h[16:], orig)
			sec := uint32(cfg.Sector)
			if sg.Sect == "zero" {
				sec = 0
			}
			binary.BigEndian.PutUint32(h[20:], sec)
			binary.BigEndian.PutUint32(h[24:], cfg.PageSize)
			return h
		}
		first := mk(sg.Magic, sg.Nrec)
		initNrec := 0
		if !s.Plan.Sync {
			initNrec = -1
		}
		other := mk(!s.Plan.Sync, initNrec)
		hdr := append([]byte{}, first...)
		for len(hdr) < cfg.Sector {
			hdr = append(hdr, other...)
		}
		switch sg.Hdr {
		case "full":
		case "zero":
			copy(hdr, make([]byte, 28))
		case "part":
			n := chunk
			if n >= cfg.Sector {
				n = cfg.Sector / 2
			}
			if s.Mut.Kind == "trunc-part" {
				n = 28 + rnd.Intn(cfg.Sector-28)
			}
			hdr = hdr[:n]
		case "lt28":
			hdr = hdr[:[]int{1, 8, 12, 20, 27}[rnd.Intn(5)]]
		}
		f = append(f, hdr...)
		if sg.Hdr == "part" || sg.Hdr == "lt28" {
			if !s.Plan.Stale {
				break
			}
		}
		for i, r := range sg.Recs {
			pos := uint32(i + 1)
			pgno := uint32(r.Pg)
			if r.Pg == 99 {
				// a page number beyond the original size and beyond the file
				pgno = uint32(max(s.N0, len(s.Db)) + 1 + rnd.Intn(3))
				if rnd.Intn(2) == 0 {
					pgno = bigPgno
				}
				out.BigPgno = pgno
			}
			var data []byte
			if r.V == 9 {
				data = jPage(l, 9, pos, s.Plan) // bytes of the stale record at this position
			} else {
				dp := uint32(r.Pg)
				if r.Pg == 99 {
					dp = pos // the record kept its page image, only the number is damaged
					if orig := origPgOf(s, k, i); orig != 0 {
						dp = orig
					}
				}
				data = jPage(l, r.V, dp, s.Plan)
			}
			var ck uint32
			switch {
			case r.Ck:
				ck = jcksum(data, nonceNew)
			case r.St || (s.Plan.Stale && k == 0 && !(s.Mut.Kind == "ckbad" && s.Mut.Seg == k+1 && s.Mut.I == i+1)):
				ck = jcksum(jPage(l, 9, pos, s.Plan), nonceOld) // the stale record's own checksum
			default:
				ck = jcksum(data, nonceNew) + 1 + uint32(rnd.Intn(1000))
			}
			rec := make([]byte, 4, 8+ps)
			binary.BigEndian.PutUint32(rec, pgno)
			rec = append(rec, data...)
			rec = binary.BigEndian.AppendUint32(rec, ck)
			switch r.Len {
			case "pgno":
				n := 4
				if s.Mut.Kind == "torn-pgno" {
					n = 1 + rnd.Intn(4)
				}
				rec = rec[:n]
			case "data":
				n := 4 + ps
				if s.Mut.Kind == "torn-data" {
					n = 5 + rnd.Intn(ps+3)
				}
				rec = rec[:n]
			}
			f = append(f, rec...)
		}
	}
	out.Bytes = f
	return out
}

// origPgOf returns the page the k-th segment's i-th record originally journalled (plan order),
// used to keep the page image of a record whose number field was damaged.
func origPgOf(s *JState, k, i int) uint32 {
	var j []int
	for _, p := range s.Plan.M {
		if p <= s.Plan.N0 {
			j = append(j, p)
		}
	}
	idx := i // segment 1 holds the first records; a second segment continues after the spill point
	if k == 1 {
		idx = s.Plan.Spill + i
	}
	if idx < len(j) {
		return uint32(j[idx])
	}
	return 0
}

// ---- write-ahead log -----------------------------------------------------------------------------

func wsum(bo binary.ByteOrder, s0, s1 uint32, b []byte) (uint32, uint32) {
	for i := 0; i+8 <= len(b); i += 8 {
		s0 += bo.Uint32(b[i:]) + s1
		s1 += bo.Uint32(b[i+4:]) + s0
	}
	return s0, s1
}

const (
	wSalt1 = uint32(0x00010007)
	wSalt2 = uint32(0xabcd0031)
)

// wContent is the content of WAL frame i (1-based) for page pg; version 0 is the database file's page.
func wContent(s *WState, i int, pg uint32) sim.Content {
	if i == 0 {
		c := sim.Content{V: 10, Wal: true}
		if pg == 1 {
			c.Sz = wN0
		}
		return c
	}
	c := sim.Content{V: 100 + i, Wal: pg == 1}
	if pg == 1 {
		// page 1 carries the size its transaction commits (first commit frame at or after i)
		c.Sz = wN0
		for k := i; k <= len(s.F); k++ {
			if s.F[k-1].Cm != 0 {
				c.Sz = s.F[k-1].Cm
				break
			}
		}
	}
	return c
}

func wDBBytes(l sim.Layout, s *WState) []byte {
	var b []byte
	for p := uint32(1); p <= wN0; p++ {
		b = append(b, l.PageBytes(p, wContent(s, 0, p))...)
	}
	return b
}

// walBytes concretises an abstract WAL: 32-byte header (magic selects the checksum byte order),
// frames of 24-byte header + page with salts and cumulative checksums.
func walBytes(s *WState, cfg Cfg, rnd *rand.Rand) []byte {
	l := cfg.layout()
	ps := int(cfg.PageSize)
	var bo binary.ByteOrder = binary.LittleEndian
	magic := uint32(0x377f0682)
	if cfg.BigEnd {
		bo = binary.BigEndian
		magic = 0x377f0683
	}
	h := make([]byte, 32)
	binary.BigEndian.PutUint32(h[0:], magic)
	binary.BigEndian.PutUint32(h[4:], 3007000)
	binary.BigEndian.PutUint32(h[8:], cfg.PageSize)
	binary.BigEndian.PutUint32(h[12:], 7)
	binary.BigEndian.PutUint32(h[16:], wSalt1)
	binary.BigEndian.PutUint32(h[20:], wSalt2)
	c1, c2 := wsum(bo, 0, 0, h[:24])
	binary.BigEndian.PutUint32(h[24:], c1)
	binary.BigEndian.PutUint32(h[28:], c2)
	switch s.H {
	case "badmagic":
		binary.BigEndian.PutUint32(h[0:], []uint32{0x377f0680, 0x377f0684, 0x82067f37, 0xd9d505f9}[rnd.Intn(4)])
	case "badck":
		binary.BigEndian.PutUint32(h[24+4*rnd.Intn(2):], c1+1+uint32(rnd.Intn(9)))
	case "zero":
		h = make([]byte, 32)
	}
	f := h
	for i, fr := range s.F {
		if s.H == "zero" {
			f = append(f, make([]byte, 24+ps)...)
			continue
		}
		data := l.PageBytes(uint32(fr.Pg), wContent(s, i+1, uint32(fr.Pg)))
		fh := make([]byte, 24)
		binary.BigEndian.PutUint32(fh[0:], uint32(fr.Pg))
		binary.BigEndian.PutUint32(fh[4:], uint32(fr.Cm))
		s1, s2 := wSalt1, wSalt2
		if !fr.Salt {
			switch rnd.Intn(4) {
			case 0:
				s1, s2 = s2, s1 // swapped
			case 1:
				s1-- // the previous generation's first salt (incremented at every restart)
			case 2:
				s2 ^= 0x00100000
			default:
				s1, s2 = s1-1, 0x5eed5eed // stale generation
			}
		}
		binary.BigEndian.PutUint32(fh[8:], s1)
		binary.BigEndian.PutUint32(fh[12:], s2)
		c1, c2 = wsum(bo, c1, c2, fh[:8])
		c1, c2 = wsum(bo, c1, c2, data)
		k1, k2 := c1, c2
		if !fr.Ck {
			if rnd.Intn(2) == 0 {
				k1 += 1 + uint32(rnd.Intn(9))
			} else {
				k2 ^= 1 << uint(rnd.Intn(32))
			}
		}
		binary.BigEndian.PutUint32(fh[16:], k1)
		binary.BigEndian.PutUint32(fh[20:], k2)
		f = append(f, fh...)
		switch fr.Len {
		case "full":
			f = append(f, data...)
		case "hdr":
			if rnd.Intn(2) == 0 {
				f = f[:len(f)-24+1+rnd.Intn(23)] // not even the whole frame header
			}
		case "part":
			f = append(f, data[:1+rnd.Intn(ps-1)]...)
		}
	}
	if s.H == "short" {
		f = f[:[]int{0, 1, 16, 31}[rnd.Intn(4)]]
	}
	return f
}

// ---- independent byte-level readers (the harness's own, used for bounds of the randomized part) --

// refWAL walks a WAL by SQLite's rules and returns the (pgno, commit) sequence of the valid prefix,
// the index of the last commit frame in it and the largest committed size.
func refWAL(b []byte, pageSize uint32) (seq [][2]uint32, lastCommit int, maxCommit uint32) {
	if len(b) < 32 {
		return nil, 0, 0
	}
	var bo binary.ByteOrder
	switch binary.BigEndian.Uint32(b[0:]) {
	case 0x377f0682:
		bo = binary.LittleEndian
	case 0x377f0683:
		bo = binary.BigEndian
	default:
		return nil, 0, 0
	}
	c1, c2 := wsum(bo, 0, 0, b[:24])
	if c1 != binary.BigEndian.Uint32(b[24:]) || c2 != binary.BigEndian.Uint32(b[28:]) {
		return nil, 0, 0
	}
	if binary.BigEndian.Uint32(b[4:]) != 3007000 || binary.BigEndian.Uint32(b[8:]) != pageSize {
		return nil, 0, 0
	}
	s1, s2 := binary.BigEndian.Uint32(b[16:]), binary.BigEndian.Uint32(b[20:])
	fs := 24 + int(pageSize)
	for off := 32; off+fs <= len(b); off += fs {
		h := b[off : off+24]
		if binary.BigEndian.Uint32(h[8:]) != s1 || binary.BigEndian.Uint32(h[12:]) != s2 {
			break
		}
		c1, c2 = wsum(bo, c1, c2, h[:8])
		c1, c2 = wsum(bo, c1, c2, b[off+24:off+fs])
		if c1 != binary.BigEndian.Uint32(h[16:]) || c2 != binary.BigEndian.Uint32(h[20:]) {
			break
		}
		pg, cm := binary.BigEndian.Uint32(h[0:]), binary.BigEndian.Uint32(h[4:])
		seq = append(seq, [2]uint32{pg, cm})
		if cm != 0 {
			lastCommit = len(seq)
			if cm > maxCommit {
				maxCommit = cm
			}
		}
	}
	return seq, lastCommit, maxCommit
}

// journalMaxClaim is the largest database size any header-looking place of a journal claims: the
// first 28 bytes (magic not required) and every 512-aligned offset that carries the magic.
func journalMaxClaim(b []byte) (max uint32) {
	if _, _, orig, _, _, ok := journalClaims(b); ok {
		max = orig
	}
	for off := 512; off+28 <= len(b); off += 512 {
		if bytes.Equal(b[off:off+8], journalMagic) {
			if o := binary.BigEndian.Uint32(b[off+16:]); o > max {
				max = o
			}
		}
	}
	return max
}

// journalClaims parses what a journal's first header claims, leniently (magic not required):
// ok=false if there is no readable, non-zero 28-byte header.
func journalClaims(b []byte) (magic bool, nrec int32, orig, sector, pageSize uint32, ok bool) {
	if len(b) < 28 || bytes.Equal(b[:28], make([]byte, 28)) {
		return false, 0, 0, 0, 0, false
	}
	return bytes.Equal(b[:8], journalMagic), int32(binary.BigEndian.Uint32(b[8:])), binary.BigEndian.Uint32(b[16:]),
		binary.BigEndian.Uint32(b[20:]), binary.BigEndian.Uint32(b[24:]), true
}
