// Check C17: journal rollback and WAL scanning follow SQLite's validity rules on any bytes.
//
// spec -> impl: spec/JournalWAL.tla enumerates (TLC, exhaustively within the bounds) every file
// state SQLite's rollback-journal commit protocol can leave at an interruption, the structural
// mutations of those states, and every WAL (header class + frames with salt / cumulative-checksum
// defects). Each state carries the specification's prediction (SQLite's playback rule /
// valid prefix / committed frames). The harness builds the REAL bytes of every state in a fresh
// data directory, lets the real code open it (litefs.Store.Open -> DB.Open -> rollbackJournal +
// CheckpointNoLock, in a child process with a 30 s deadline; litefs.WALReader in process) and
// evaluates the property's clauses on what the real code left on disk.
//
// Monitors (R1: each is a clause of the property, evaluated on observations of the real code):
//
//	C17.rollback-restores-pre-transaction-bytes-and-size   protocol states, journal hot (exact)
//	C17.finalised-journal-is-not-played-back               protocol states after finalisation (exact)
//	C17.mutated-journal-playback-follows-sqlite-rules      mutated states: result = JournalPlayback
//	C17.no-journal-left-after-reopen
//	C17.valid-frames-are-the-longest-matching-prefix       WALReader's (page, commit) sequence
//	C17.only-frames-up-to-the-last-commit-affect-the-database   image after the start-up checkpoint
//	C17.no-panic  C17.no-hang (30 s per open)  C17.no-write-outside-the-database-pages
//
// The randomized part evaluates only the last three. Stages: journal states, "faithful" (files
// written by LiteFS's own handlers under sim.Pager), WAL states, random bytes, relevance (thorough).
package main

import (
	"bytes"
	"encoding/json"
	"fmt"
	"io"
	"math/rand"
	"os"
	"path/filepath"
	"regexp"
	"runtime"
	"sort"
	"strings"
	"sync"
	"time"

	"github.com/superfly/litefs"
	"github.com/superfly/litefs/verifharness/core"
	"github.com/superfly/litefs/verifharness/faults"
	"github.com/superfly/litefs/verifharness/sim"
)

type fail struct {
	Monitor string
	Sig     string
	Detail  any
}

// hungSet remembers input classes on which an open did not return: one hang per class and run is
// an observation, probing the same class again would only burn 30 s each time.
type hungSet struct {
	mu sync.Mutex
	m  map[string]bool
	n  map[string]int
}

func (h *hungSet) has(c string) bool {
	h.mu.Lock()
	defer h.mu.Unlock()
	if h.m[c] {
		h.n[c]++
		return true
	}
	return false
}
func (h *hungSet) add(c string) { h.mu.Lock(); h.m[c] = true; h.mu.Unlock() }

var (
	reAddr = regexp.MustCompile(`0x[0-9a-f]+|\d{3,}`)
)

func norm(s string) string {
	if i := strings.IndexByte(s, '\n'); i >= 0 {
		s = s[:i]
	}
	s = reAddr.ReplaceAllString(s, "N")
	if len(s) > 120 {
		s = s[:120]
	}
	return s
}

// normCrash names the way a child process died. Every form of running into the child's
// address-space limit (failed allocation, failed thread creation, failed mapping) is one class.
func normCrash(s string) string {
	for _, pat := range []string{"out of memory", "pthread_create failed", "cannot allocate memory", "failed to create new OS thread", "errno=12", "cannot map pages"} {
		if strings.Contains(s, pat) {
			return "address-space-exhausted"
		}
	}
	return norm(s)
}

func eqInts(a, b []int) bool {
	if len(a) != len(b) {
		return false
	}
	for i := range a {
		if a[i] != b[i] {
			return false
		}
	}
	return true
}

// ---- journal states --------------------------------------------------------------------------------

func jHeaderReadable(s *JState) bool {
	return s.J.Exists && len(s.J.Segs) > 0 && (s.J.Segs[0].Hdr == "full" || s.J.Segs[0].Hdr == "part")
}

// jClass is the input class used in signatures.
func jClass(s *JState) string {
	switch {
	case s.N0 == 0 && len(s.Db) == 0 && jHeaderReadable(s):
		return "newdb-empty-dbfile"
	case s.Mut.Kind != "none":
		return s.Mut.Kind
	}
	return "protocol"
}

type jCase struct {
	Kind     string  `json:"kind"` // "journal"
	State    *JState `json:"state"`
	Cfg      Cfg     `json:"cfg"`
	CaseSeed int64   `json:"case_seed"`
}

type caseOut struct {
	fails      []fail
	evals      int
	nontrivial bool
	skipped    bool
	openErr    string
	res        openRes
	observed   []int
	transient  int // page writes beyond the final size that a later truncate removed (informational)
}

func stepViolations(res openRes, bound uint32) (pages, truncs []uint32) {
	for _, st := range res.Steps {
		switch st.Kind {
		case "page":
			if st.Arg == 0 || st.Arg > bound {
				pages = append(pages, st.Arg)
			}
		case "truncate":
			if st.Arg > bound {
				truncs = append(truncs, st.Arg)
			}
		}
	}
	return
}

func runJournal(p *pool, c jCase, hung *hungSet) (out caseOut) {
	s, cfg := c.State, c.Cfg
	rnd := rand.New(rand.NewSource(c.CaseSeed))
	l := cfg.layout()
	class := jClass(s)
	if hung.has(class) {
		out.skipped = true
		return
	}
	dir := core.Scratch("j")
	defer os.RemoveAll(dir)
	dbd := filepath.Join(dir, "dbs", "db")
	if err := os.MkdirAll(dbd, 0o777); err != nil {
		core.Infra("mkdir: %v", err)
	}
	pre := dbBytes(l, s.Db, s.Plan)
	if err := os.WriteFile(filepath.Join(dbd, "database"), pre, 0o666); err != nil {
		core.Infra("write database: %v", err)
	}
	var jb jBuild
	if s.J.Exists {
		jb = journalBytes(s, cfg, rnd)
		if err := os.WriteFile(filepath.Join(dbd, "journal"), jb.Bytes, 0o666); err != nil {
			core.Infra("write journal: %v", err)
		}
	}
	mutated := s.Stage == 3
	ref := make([]int, s.N0)
	want := s.Exp
	monitor := "C17.mutated-journal-playback-follows-sqlite-rules"
	if !mutated {
		prop := ref
		monitor = "C17.rollback-restores-pre-transaction-bytes-and-size"
		if s.Fin {
			prop = s.Db
			monitor = "C17.finalised-journal-is-not-played-back"
		}
		if !eqInts(prop, s.Exp) {
			core.Infra("specification inconsistent: JournalPlayback prediction %v differs from the property image %v although TLC checked RollbackRestores", s.Exp, prop)
		}
	}
	out.nontrivial = mutated || !eqInts(s.Db, want)
	bound := uint32(max(s.N0, len(s.Db)))
	res := p.open(openReq{Dir: dir, AbortAbove: bound + farBeyond})
	out.res = res
	out.evals = 3
	detail := func(extra map[string]any) map[string]any {
		d := map[string]any{"class": class, "cfg": cfg.String(), "mutation": s.Mut, "journal": s.J, "db_before": s.Db, "expected": want,
			"journal_bytes": len(jb.Bytes), "open_ms": res.Ms}
		if jb.BigPgno != 0 {
			d["record_pgno"] = jb.BigPgno
		}
		for k, v := range extra {
			d[k] = v
		}
		return d
	}
	switch {
	case res.Hang:
		hung.add(class)
		out.fails = append(out.fails, fail{"C17.no-hang", "hang/journal/" + class, detail(map[string]any{"no_answer_for": openDeadline.String()})})
		return
	case res.Crash != "":
		out.fails = append(out.fails, fail{"C17.no-panic", "crash/journal/" + class + "/" + normCrash(res.Crash), detail(map[string]any{"child_died": res.Crash})})
		return
	case res.Panic != "":
		out.fails = append(out.fails, fail{"C17.no-panic", "panic/journal/" + class + "/" + norm(res.Panic), detail(map[string]any{"panic": res.Panic, "stack": res.Stack})})
		return
	}
	// no write outside the database's pages. The verdict is taken on the final file (below) and on
	// writes far beyond anything the database ever was (the harness stops those: they would create
	// terabyte-sized sparse files and gigabytes of checksum table). A write a few pages past the
	// end that the following truncate removes again is only counted.
	pages, truncs := stepViolations(res, bound)
	out.transient = len(pages) + len(truncs)
	if s.Mut.Kind == "orig2" && jb.Orig2 != uint32(s.N0) {
		// one specific deviation gets its own signature: the database resized to the size field of
		// the damaged LATER header (SQLite restores the size from the first header only)
		for _, st := range res.Steps {
			if st.Kind == "truncate" && st.Arg == jb.Orig2 {
				out.fails = append(out.fails, fail{monitor, "journal/orig2/database-resized-to-size-field-of-later-header",
					detail(map[string]any{"size_field_of_second_header": jb.Orig2, "size_field_of_first_header": s.N0, "litefs_steps": res.Steps})})
				return
			}
		}
	}
	if far := farWrites(pages, nil, bound); len(far) > 0 {
		out.fails = append(out.fails, fail{"C17.no-write-outside-the-database-pages", "oob-write/journal/record-pgno-far-beyond-database",
			detail(map[string]any{"page_writes_outside": far, "pages_of_database": bound, "aborted_by_harness": res.Aborted})})
	}
	if far := farWrites(nil, truncs, bound); len(far) > 0 {
		out.fails = append(out.fails, fail{"C17.no-write-outside-the-database-pages", "oob-write/journal/truncate-far-beyond-database/" + class,
			detail(map[string]any{"truncate_to": far, "pages_of_database": bound})})
		return
	}
	if res.Aborted {
		return
	}
	if res.Err != "" {
		out.openErr = res.Err
		out.fails = append(out.fails, fail{monitor, "open-error/journal/" + class + "/" + norm(res.Err), detail(map[string]any{"open_error": res.Err})})
		return
	}
	// database bytes and size after the re-open
	out.evals += 4
	if fi, err := os.Stat(filepath.Join(dbd, "database")); err == nil && fi.Size() > int64(bound+farBeyond)*int64(cfg.PageSize) {
		out.fails = append(out.fails, fail{"C17.no-write-outside-the-database-pages", "oob-final/journal/" + class, detail(map[string]any{"size_after": fi.Size(), "max_allowed_pages": bound})})
		return
	}
	after, err := os.ReadFile(filepath.Join(dbd, "database"))
	if err != nil {
		out.fails = append(out.fails, fail{monitor, "db-missing/journal/" + class, detail(map[string]any{"error": err.Error()})})
		return
	}
	got, bad := decodeDB(l, after, s.Plan)
	out.observed = got
	if len(after) > int(bound)*int(cfg.PageSize) || len(bad) > 0 {
		out.fails = append(out.fails, fail{"C17.no-write-outside-the-database-pages", "oob-final/journal/" + class,
			detail(map[string]any{"size_after": len(after), "max_allowed_pages": bound, "undecodable": bad, "observed": got})})
	}
	if !eqInts(got, want) {
		kind := "content"
		if len(got) != len(want) {
			kind = "size"
		} else if laterSegmentPlayed(s, got, want) {
			kind = "later-segment-played-after-bad-record"
		}
		out.fails = append(out.fails, fail{monitor, "image-mismatch/journal/" + class + "/" + kind, detail(map[string]any{"observed": got})})
	}
	if _, err := os.Stat(filepath.Join(dbd, "journal")); err == nil {
		out.fails = append(out.fails, fail{"C17.no-journal-left-after-reopen", "journal-left/journal/" + class, detail(nil)})
	}
	return
}

// laterSegmentPlayed recognises one specific deviation: playback stopped at a checksum-bad record
// as SQLite does, but then resumed with the records of a LATER segment. True iff every page that
// differs from the prediction holds exactly the content of a valid record of a later segment.
func laterSegmentPlayed(s *JState, got, want []int) bool {
	if s.Mut.Kind != "ckbad" || len(got) != len(want) {
		return false
	}
	later := map[int]int{}
	for k := s.Mut.Seg; k < len(s.J.Segs); k++ { // segments after the mutated one (Seg is 1-based)
		for _, r := range s.J.Segs[k].Recs {
			if r.Ck && r.Len == "full" {
				later[r.Pg] = r.V
			}
		}
	}
	n := 0
	for i := range got {
		if got[i] != want[i] {
			v, ok := later[i+1]
			if !ok || v != got[i] {
				return false
			}
			n++
		}
	}
	return n > 0
}

// farWrites selects the observed writes that lie at least farBeyond pages past the database.
func farWrites(pages, truncs []uint32, bound uint32) (far []uint32) {
	for _, p := range append(append([]uint32{}, pages...), truncs...) {
		if p == 0 || p > bound+farBeyond {
			far = append(far, p)
		}
	}
	return
}

const farBeyond = 4096

// ---- WAL states -------------------------------------------------------------------------------------

func wClass(b []byte) string {
	if len(b) < 32 {
		return "short-header"
	}
	switch uint32(b[0])<<24 | uint32(b[1])<<16 | uint32(b[2])<<8 | uint32(b[3]) {
	case 0x377f0682, 0x377f0683:
		return "valid-magic"
	}
	return "invalid-magic"
}

type wCase struct {
	Kind     string  `json:"kind"` // "wal"
	State    *WState `json:"state"`
	Cfg      Cfg     `json:"cfg"`
	CaseSeed int64   `json:"case_seed"`
	Open     bool    `json:"open"` // also open a store on database + wal
}

func wExpectedSeq(s *WState) [][2]uint32 {
	var out [][2]uint32
	for i := 0; i < s.Nv; i++ {
		out = append(out, [2]uint32{uint32(s.F[i].Pg), uint32(s.F[i].Cm)})
	}
	return out
}

func eqSeq(a, b [][2]uint32) bool {
	if len(a) != len(b) {
		return false
	}
	for i := range a {
		if a[i] != b[i] {
			return false
		}
	}
	return true
}

// readWithWALReader drives litefs.WALReader over the bytes the way its callers do.
func readWithWALReader(b []byte, maxFrames int) (seq [][2]uint32, hdrErr, frameErr error, pan *core.Panic) {
	core.Beat("real:WALReader")
	defer core.Beat("harness")
	pan = core.Try(func() {
		r := litefs.NewWALReader(bytes.NewReader(b))
		if err := r.ReadHeader(); err != nil {
			hdrErr = err
			return
		}
		if r.PageSize() > 1<<20 {
			frameErr = fmt.Errorf("page size %d", r.PageSize())
			return
		}
		buf := make([]byte, r.PageSize())
		for len(seq) <= maxFrames {
			pg, cm, err := r.ReadFrame(buf)
			if err != nil {
				frameErr = err
				return
			}
			seq = append(seq, [2]uint32{pg, cm})
		}
	})
	return
}

func runWAL(p *pool, c wCase, rep *core.Report) (out caseOut) {
	s, cfg := c.State, c.Cfg
	rnd := rand.New(rand.NewSource(c.CaseSeed))
	l := cfg.layout()
	wb := walBytes(s, cfg, rnd)
	class := wClass(wb)
	want := wExpectedSeq(s)
	// the harness's own reader must agree with the specification on the bytes it built
	if seq, lc, _ := refWAL(wb, cfg.PageSize); !eqSeq(seq, want) || lc != s.Lc {
		core.Infra("concretisation of WAL state %+v does not have the predicted valid prefix: own reader %v/%d, spec %v/%d", s, seq, lc, want, s.Lc)
	}
	out.nontrivial = len(s.F) > 0
	detail := func(extra map[string]any) map[string]any {
		d := map[string]any{"class": class, "cfg": cfg.String(), "wal": s, "wal_bytes": len(wb)}
		for k, v := range extra {
			d[k] = v
		}
		return d
	}
	// (i) the frames WALReader treats as valid
	out.evals = 2
	seq, hdrErr, frameErr, pan := readWithWALReader(wb, len(s.F)+2)
	if pan != nil {
		out.fails = append(out.fails, fail{"C17.no-panic", "panic/walreader/" + class + "/" + norm(pan.Value), detail(map[string]any{"panic": pan.Value, "stack": pan.Stack})})
	} else {
		if hdrErr != nil {
			seq = nil
		}
		if !eqSeq(seq, want) {
			kind := "different"
			if len(seq) > len(want) && eqSeq(seq[:len(want)], want) {
				kind = "longer"
			} else if len(seq) < len(want) && eqSeq(seq, want[:len(seq)]) {
				kind = "shorter"
			}
			out.fails = append(out.fails, fail{"C17.valid-frames-are-the-longest-matching-prefix", "wal-prefix/" + class + "/" + kind,
				detail(map[string]any{"yielded": seq, "expected": want, "header_error": fmt.Sprint(hdrErr), "frame_error": fmt.Sprint(frameErr)})})
		}
		if frameErr != nil && frameErr != io.EOF && hdrErr == nil {
			rep.Nonconf("WALReader.ReadFrame ended with %v instead of io.EOF on %s %+v", frameErr, cfg, s)
		}
	}
	if !c.Open {
		return
	}
	// (ii) a store opened on database + wal: only committed frames reach the database
	dir := core.Scratch("w")
	defer os.RemoveAll(dir)
	dbd := filepath.Join(dir, "dbs", "db")
	if err := os.MkdirAll(dbd, 0o777); err != nil {
		core.Infra("mkdir: %v", err)
	}
	if err := os.WriteFile(filepath.Join(dbd, "database"), wDBBytes(l, s), 0o666); err != nil {
		core.Infra("write database: %v", err)
	}
	if err := os.WriteFile(filepath.Join(dbd, "wal"), wb, 0o666); err != nil {
		core.Infra("write wal: %v", err)
	}
	bound := uint32(wN0)
	for i := 0; i < s.Lc; i++ {
		if cm := uint32(s.F[i].Cm); cm > bound {
			bound = cm
		}
	}
	res := p.open(openReq{Dir: dir, AbortAbove: bound + farBeyond})
	out.res = res
	out.evals += 3
	switch {
	case res.Hang:
		out.fails = append(out.fails, fail{"C17.no-hang", "hang/wal/" + class, detail(map[string]any{"no_answer_for": openDeadline.String()})})
		return
	case res.Crash != "":
		out.fails = append(out.fails, fail{"C17.no-panic", "crash/wal/" + class + "/" + normCrash(res.Crash), detail(map[string]any{"child_died": res.Crash})})
		return
	case res.Panic != "":
		out.fails = append(out.fails, fail{"C17.no-panic", "panic/wal/" + class + "/" + norm(res.Panic), detail(map[string]any{"panic": res.Panic, "stack": res.Stack})})
		return
	}
	pages, truncs := stepViolations(res, bound)
	out.transient = len(pages) + len(truncs)
	if far := farWrites(pages, truncs, bound); len(far) > 0 {
		out.fails = append(out.fails, fail{"C17.no-write-outside-the-database-pages", "oob-write/wal/" + class,
			detail(map[string]any{"page_writes_outside": far, "pages_of_database": bound, "aborted_by_harness": res.Aborted})})
	}
	if res.Aborted {
		return
	}
	monitor := "C17.only-frames-up-to-the-last-commit-affect-the-database"
	if res.Err != "" {
		out.openErr = res.Err
		out.fails = append(out.fails, fail{monitor, "open-error/wal/" + class + "/" + norm(res.Err), detail(map[string]any{"open_error": res.Err})})
		return
	}
	out.evals += 2
	im, err := diskImage(dbd, cfg.PageSize)
	if err != nil {
		out.fails = append(out.fails, fail{monitor, "db-missing/wal/" + class, detail(map[string]any{"error": err.Error()})})
		return
	}
	var diffs []string
	if int(im.N) != len(s.Img) {
		diffs = append(diffs, fmt.Sprintf("size %d pages, expected %d", im.N, len(s.Img)))
	}
	var got []int
	for pg := uint32(1); pg <= im.N; pg++ {
		v := -99
		for i := 0; i <= len(s.F); i++ {
			if bytes.Equal(im.Pages[pg], l.PageBytes(pg, wContent(s, i, pg))) {
				v = 0
				if i > 0 {
					v = 10 + i
				}
				break
			}
		}
		got = append(got, v)
		if int(pg) <= len(s.Img) && v != s.Img[pg-1] {
			diffs = append(diffs, fmt.Sprintf("page %d holds version %d, expected %d", pg, v, s.Img[pg-1]))
		}
	}
	out.observed = got
	if len(diffs) > 0 {
		kind := "content"
		if int(im.N) != len(s.Img) {
			kind = "size"
		}
		out.fails = append(out.fails, fail{monitor, "image-mismatch/wal/" + class + "/" + kind, detail(map[string]any{"observed": got, "expected": s.Img, "differences": diffs})})
	}
	if fi, err := os.Stat(filepath.Join(dbd, "database")); err == nil && fi.Size() > int64(bound)*int64(cfg.PageSize) {
		out.fails = append(out.fails, fail{"C17.no-write-outside-the-database-pages", "oob-final/wal/" + class, detail(map[string]any{"size_after": fi.Size(), "max_allowed_pages": bound})})
	}
	return
}

// diskImage is what SQLite would see now: the database file, overlaid with whatever committed
// frames the harness's own reader still finds in the WAL (LiteFS empties the WAL; if it did not,
// the frames left behind count).
func diskImage(dbd string, pageSize uint32) (sim.Image, error) {
	im := sim.Image{Pages: map[uint32][]byte{}}
	b, err := os.ReadFile(filepath.Join(dbd, "database"))
	if err != nil {
		return im, err
	}
	ps := int(pageSize)
	im.N = uint32(len(b) / ps)
	for pg := uint32(1); pg <= im.N; pg++ {
		im.Pages[pg] = b[int(pg-1)*ps : int(pg)*ps]
	}
	if len(b)%ps != 0 {
		im.Pages[im.N+1] = b[int(im.N)*ps:]
		im.N++
	}
	wb, err := os.ReadFile(filepath.Join(dbd, "wal"))
	if err != nil {
		return im, nil
	}
	seq, lc, _ := refWAL(wb, pageSize)
	for i := 0; i < lc; i++ {
		off := 32 + i*(24+ps) + 24
		im.Pages[seq[i][0]] = wb[off : off+ps]
	}
	if lc > 0 {
		n := seq[lc-1][1]
		for pg := n + 1; pg <= im.N; pg++ {
			delete(im.Pages, pg)
		}
		im.N = n
	}
	return im, nil
}

// ---- driver ------------------------------------------------------------------------------------------

type runner struct {
	rep  *core.Report
	args *core.Args
	pool *pool
	hung *hungSet
	mu   sync.Mutex
	cnt  map[string]int
}

func (r *runner) count(k string, n int) { r.mu.Lock(); r.cnt[k] += n; r.mu.Unlock() }

func (r *runner) record(o caseOut, key string, replay any) {
	r.rep.Eval(o.evals)
	if o.skipped {
		r.count("skipped_class_already_hung", 1)
		return
	}
	r.mu.Lock()
	r.rep.TracesValidated++
	r.mu.Unlock()
	r.rep.Case(key, o.nontrivial)
	for _, f := range o.fails {
		if dbg := os.Getenv("VERIF_C17_DEBUG_SIG"); dbg != "" && strings.HasPrefix(f.Sig, dbg) { // development aid
			r.mu.Lock()
			if r.cnt["debug_printed"] < 6 && key[:3] == "ran" {
				r.cnt["debug_printed"]++
				d, _ := json.Marshal(f.Detail)
				fmt.Fprintf(os.Stderr, "DEBUG %s %s\n", f.Sig, d)
			}
			r.mu.Unlock()
		}
		r.count("monitor_failures/"+f.Sig, 1)
		r.rep.Violate(f.Monitor, f.Sig, f.Detail, replay)
	}
	if o.transient > 0 {
		r.count("page_writes_later_truncated_away", o.transient)
	}
}

func workersN() int {
	n := runtime.NumCPU()
	if n > 8 {
		n = 8
	}
	if n < 2 {
		n = 2
	}
	return n
}

func main() {
	if os.Getenv("VERIF_C17_WORKER") != "" {
		workerMain()
		return
	}
	args := core.ParseArgs()
	rep := core.NewReport("C17", "model_checking", args)
	rep.Rule = "TLC enumerates the abstract file-state space completely; one implementation test per file state enumerated by TLC (journal: protocol states at every interruption point and their structural mutations; WAL: every header class x frame sequence within the bounds) x concretisation (page size, sector size, byte order); non-trivial = journal states whose playback must change the database or that are mutated, WALs with at least one frame; plus seeded random byte-level mutations and random byte strings"
	rep.Assumptions = []string{
		"application death: completed writes survive in order (no torn or reordered sectors)",
		"SQLite's protocol and validity rules are the transcription in spec/JournalWAL.tla (pager.c / wal.c 3.39)",
		"pages are harness pages (sim.Layout L0); journal checksums sample every 200th byte as SQLite does",
		"arbitrary-byte universality is not decided: structural classes enumerated by the spec plus seeded random bytes only",
	}
	// TLC enumerates the abstract file-state space completely (coverage.states) and every state gets
	// at least one implementation test, but concretisations are sampled per state and the randomized
	// part is sampling, so the run as a whole is not claimed to be exhaustive.
	rep.Exhaustive = false
	defer core.Cleanup()
	core.Watchdog(150*time.Second, func(label string, since time.Duration) {
		if strings.HasPrefix(label, "real:") {
			rep.Violate("C17.no-hang", "hang/"+label, map[string]any{"no_progress_for": since.String(), "doing": label}, nil)
			rep.Finish()
		}
		core.Infra("no progress for %s while %s", since, label)
	})
	r := &runner{rep: rep, args: args, pool: &pool{}, hung: &hungSet{m: map[string]bool{}, n: map[string]int{}}, cnt: map[string]int{}}
	defer r.pool.close()

	if args.Replay != "" {
		r.replay(args.Replay)
		r.finish()
	}
	thorough := !args.Quick()
	cfgs := stdCfgs(thorough)
	stageT := map[string]float64{}
	t0 := time.Now()
	lap := func(name string) {
		stageT[name] = time.Since(t0).Seconds()
		t0 = time.Now()
		rep.Extra["stage_wall_s"] = stageT
	}

	// ---- 1. journal: model checking + one implementation test per file state -------------------
	jstates := collectJournal(rep, core.Pick(args, "MC_JournalWAL_j.cfg", "MC_JournalWAL_j_big.cfg"))
	lap("tlc_journal")
	waitProbes := r.journalStage(jstates, cfgs, thorough)
	lap("journal_states")
	r.faithfulStage(cfgs)
	lap("faithful")
	// segment boundaries that coincide with sector boundaries: four records of pageSize+8 bytes fill
	// a whole number of 32-byte sectors, so the second header follows the first segment without padding
	aligned := collectJournal(rep, "MC_JournalWAL_j_aligned.cfg")
	r.journalStage(aligned, []Cfg{{PageSize: 512, Sector: 32}, {PageSize: 1024, Sector: 32, BigEnd: true}, {PageSize: 512, Sector: 64}}, true)()
	lap("journal_states_sector_aligned")

	// ---- 2. WAL ---------------------------------------------------------------------------------
	wstates := collectWAL(rep, "MC_JournalWAL_w.cfg")
	lap("tlc_wal")
	r.walStage(wstates, cfgs, thorough, 1)
	lap("wal_states")
	if thorough {
		big := collectWAL(rep, "MC_JournalWAL_w_big.cfg")
		r.walStage(big, cfgs, false, 2)
		wstates = append(wstates, big...)
		lap("wal_states_big")
	}

	// ---- 3. random bytes ------------------------------------------------------------------------
	waitProbes() // the randomized part must know which input classes hang
	lap("wait_for_hang_probes")
	nRandom := core.Pick(args, 12000, 150000)
	if v := os.Getenv("VERIF_C17_RANDOM_N"); v != "" { // development aid: size of the randomized part
		fmt.Sscan(v, &nRandom)
	}
	r.randomStage(jstates, wstates, cfgs, nRandom)
	lap("random")

	// ---- 4. relevance of the specification's rules (thorough) ------------------------------------
	if thorough {
		relevance(rep, "MC_JournalWAL_j_notrunc.cfg", "RollbackRestores")
		relevance(rep, "MC_JournalWAL_j_oneseg.cfg", "RollbackRestores")
		relevance(rep, "MC_JournalWAL_w_nocommit.cfg", "ScanIsCommitted")
		relevance(rep, "MC_JournalWAL_w_nosalt.cfg", "PrefixIsLongest")
	}
	r.finish()
}

func (r *runner) finish() {
	r.pool.close()
	r.hung.mu.Lock()
	for c, n := range r.hung.n {
		r.cnt["skipped_after_hang/"+c] = n
	}
	r.hung.mu.Unlock()
	r.rep.Extra["counters"] = r.cnt
	// failure paths (spec/Faults.tla): LiteFS's own rollback with every call through the OS interface failing once
	faults.Run(r.rep, r.args, faults.Select{Ops: []string{"recover", "halt", "import"}, Monitors: []string{"journal", "mount"}})
	if n := len(r.pool.flukes); n > 0 {
		r.rep.Extra["worker_deaths_not_reproduced"] = n
		r.rep.Note("a child process died %d time(s) on an input on which a fresh child then succeeded (not an observation about litefs); first: %s", n, r.pool.flukes[0])
	}
	r.rep.Finish()
}

// journalStage runs one implementation test per journal state. The hang probes (sector size 0)
// run on their own goroutines; the returned function waits for them, so that their 30 s deadline
// overlaps with the following stages.
func (r *runner) journalStage(states []*JState, cfgs []Cfg, allCfgs bool) (waitProbes func()) {
	// hang probes first, on their own goroutines, so that their 30 s run in parallel with the rest
	var probes, rest []*JState
	for _, s := range states {
		if s.Mut.Kind == "sector0" && jClass(s) == "sector0" {
			probes = append(probes, s)
		} else {
			rest = append(rest, s)
		}
	}
	rnd := rand.New(rand.NewSource(r.args.Seed))
	rnd.Shuffle(len(probes), func(i, j int) { probes[i], probes[j] = probes[j], probes[i] })
	nProbe := core.Pick(r.args, 3, 8)
	if len(probes) > nProbe {
		r.count("sector0_states_not_probed", len(probes)-nProbe)
		probes = probes[:nProbe]
	}
	var wg sync.WaitGroup
	for i, s := range probes {
		wg.Add(1)
		go func(i int, s *JState) {
			defer wg.Done()
			c := jCase{Kind: "journal", State: s, Cfg: cfgs[(i+int(r.args.Seed))%len(cfgs)], CaseSeed: r.args.Seed*1_000_003 + int64(i)}
			o := runJournal(r.pool, c, &hungSet{m: map[string]bool{}, n: map[string]int{}})
			if o.res.Hang {
				r.hung.add("sector0")
			}
			r.record(o, s.fileKey()+c.Cfg.String(), c)
		}(i, s)
	}
	var sampleMu sync.Mutex
	sampled := 0
	parallel(len(rest), workersN(), func(i int) {
		s := rest[i]
		// quick: two of the concretisations per state (rotating with the seed); thorough: all of them
		use := []Cfg{cfgs[(i+int(r.args.Seed))%len(cfgs)], cfgs[(i+int(r.args.Seed)+len(cfgs)/2+1)%len(cfgs)]}
		if allCfgs {
			use = cfgs
		}
		for k, cfg := range use {
			c := jCase{Kind: "journal", State: s, Cfg: cfg, CaseSeed: r.args.Seed*1_000_003 + int64(i)*16 + int64(k) + 100}
			o := runJournal(r.pool, c, r.hung)
			r.record(o, s.fileKey()+cfg.String(), c)
			r.count("journal_tests", 1)
			if o.res.Err != "" {
				r.count("journal_open_errors", 1)
			}
			if s.Stage == 3 {
				r.count("journal_tests_mutated/"+s.Mut.Kind, 1)
			}
			sampleMu.Lock()
			if len(o.fails) == 0 && !o.skipped && !eqInts(s.Db, s.Exp) &&
				((sampled == 0 && s.Stage != 3 && len(s.J.Segs) == 2 && s.J.Segs[1].Magic) || (sampled == 1 && s.Mut.Kind == "ckbad" && len(s.J.Segs) == 2)) {
				sampled++
				r.rep.Sample(map[string]any{"journal_state": s, "cfg": cfg.String(), "observed_after_reopen": o.observed, "litefs_steps": o.res.Steps})
			}
			sampleMu.Unlock()
		}
	})
	return wg.Wait
}

func (r *runner) walStage(states []*WState, cfgs []Cfg, allCfgs bool, stage int) {
	var sampleMu sync.Mutex
	sampled := 0
	parallel(len(states), workersN(), func(i int) {
		s := states[i]
		use := []Cfg{cfgs[(i+int(r.args.Seed))%len(cfgs)]}
		if allCfgs {
			use = []Cfg{cfgs[(i+int(r.args.Seed))%len(cfgs)], cfgs[(i+int(r.args.Seed)+3)%len(cfgs)]}
		}
		for k, cfg := range use {
			c := wCase{Kind: "wal", State: s, Cfg: cfg, CaseSeed: r.args.Seed*1_000_003 + int64(stage)*7_000_000 + int64(i)*4 + int64(k), Open: true}
			o := runWAL(r.pool, c, r.rep)
			b, _ := json.Marshal(s)
			r.record(o, string(b)+cfg.String(), c)
			r.count("wal_tests", 1)
			// the reader alone under the other byte order as well
			c2 := c
			c2.Cfg.BigEnd = !cfg.BigEnd
			c2.Open = false
			o2 := runWAL(r.pool, c2, r.rep)
			r.record(o2, string(b)+c2.Cfg.String()+"/reader", c2)
			sampleMu.Lock()
			if sampled < 2 && s.Lc > 0 && s.Nv < len(s.F) && len(o.fails) == 0 && i%1013 == 7 {
				sampled++
				r.rep.Sample(map[string]any{"wal_state": s, "cfg": cfg.String(), "observed_image_after_reopen": o.observed})
			}
			sampleMu.Unlock()
		}
	})
}

// ---- replay ------------------------------------------------------------------------------------------

func (r *runner) replay(path string) {
	b, err := os.ReadFile(path)
	if err != nil {
		core.Infra("read replay: %v", err)
	}
	var f struct {
		Replay json.RawMessage `json:"replay"`
	}
	if err := json.Unmarshal(b, &f); err != nil {
		core.Infra("parse replay: %v", err)
	}
	var k struct {
		Kind string `json:"kind"`
	}
	_ = json.Unmarshal(f.Replay, &k)
	var o caseOut
	switch k.Kind {
	case "journal":
		var c jCase
		if err := json.Unmarshal(f.Replay, &c); err != nil {
			core.Infra("parse replay: %v", err)
		}
		sort.Ints(c.State.Plan.M)
		o = runJournal(r.pool, c, r.hung)
		r.record(o, "replay", c)
	case "wal":
		var c wCase
		if err := json.Unmarshal(f.Replay, &c); err != nil {
			core.Infra("parse replay: %v", err)
		}
		o = runWAL(r.pool, c, r.rep)
		r.record(o, "replay", c)
	case "faithful":
		var c fCase
		if err := json.Unmarshal(f.Replay, &c); err != nil {
			core.Infra("parse replay: %v", err)
		}
		o = runFaithful(r.pool, c)
		r.record(o, "replay", c)
	case "random":
		var c rCase
		if err := json.Unmarshal(f.Replay, &c); err != nil {
			core.Infra("parse replay: %v", err)
		}
		if c.JBase != nil {
			sort.Ints(c.JBase.Plan.M)
		}
		o = runRandom(r.pool, c, r.hung)
		r.record(o, "replay", c)
	default:
		core.Infra("replay file has no known kind: %q", k.Kind)
	}
	fmt.Printf("replayed %s case: open={err:%q panic:%q hang:%v crash:%q aborted:%v steps:%v} observed=%v\n", k.Kind, o.res.Err, o.res.Panic, o.res.Hang, o.res.Crash, o.res.Aborted, o.res.Steps, o.observed)
	for _, fl := range o.fails {
		d, _ := json.Marshal(fl.Detail)
		if len(d) > 1500 {
			d = d[:1500]
		}
		fmt.Printf("  monitor %s failed: sig=%s detail=%s\n", fl.Monitor, fl.Sig, d)
	}
}
