package main

import (
	"encoding/json"
	"fmt"
	"sort"
	"sync"
	"time"

	"github.com/superfly/litefs/verifharness/core"
)

// ---- states emitted by spec/JournalWAL.tla ------------------------------------------------------

// JPlan is a transaction plan of the journal part.
type JPlan struct {
	M     []int `json:"m"`
	Ns    int   `json:"ns"`
	N0    int   `json:"n0"`
	Spill int   `json:"spill"`
	Stale bool  `json:"stale"`
	Sync  bool  `json:"sync"`
}

// JRec is one journal record: page number field, content version, checksum ok, length class, stale.
type JRec struct {
	Pg  int    `json:"pg"`
	V   int    `json:"v"`
	Ck  bool   `json:"ck"`
	Len string `json:"len"`
	St  bool   `json:"st"`
}

// JSeg is one journal segment (header + records).
type JSeg struct {
	Hdr   string `json:"hdr"`
	Magic bool   `json:"magic"`
	Nrec  int    `json:"nrec"`
	Orig  int    `json:"orig"`
	Sect  string `json:"sect"`
	Recs  []JRec `json:"recs"`
}

// JMut names the structural mutation that produced a terminal state.
type JMut struct {
	Kind string `json:"kind"`
	Seg  int    `json:"seg"`
	I    int    `json:"i"`
}

// JState is one file state of the journal part with the specification's prediction.
type JState struct {
	Plan  JPlan `json:"plan"`
	Left  int   `json:"left"`
	Stage int   `json:"stage"`
	Fin   bool  `json:"fin"`
	Mut   JMut  `json:"mut"`
	J     struct {
		Exists bool   `json:"exists"`
		Segs   []JSeg `json:"segs"`
	} `json:"j"`
	Db  []int `json:"db"`
	N0  int   `json:"n0"`
	Exp []int `json:"exp"` // JournalPlayback(j, db): page versions, length = final size
}

// fileKey identifies the FILE state (journal + database + reference): states reached by different
// plans that leave the same bytes are one implementation test.
func (s *JState) fileKey() string {
	b, _ := json.Marshal([]any{s.J, s.Db, s.N0, s.Fin, s.Plan.Sync, s.Plan.Stale, s.Plan.Ns, s.Mut.Kind})
	return string(b)
}

// WFrame is one WAL frame as emitted: <<pg, cm, salt, ck, len>>.
type WFrame struct {
	Pg   int
	Cm   int
	Salt bool
	Ck   bool
	Len  string
}

func (f *WFrame) UnmarshalJSON(b []byte) error {
	var raw []json.RawMessage
	if err := json.Unmarshal(b, &raw); err != nil {
		return err
	}
	if len(raw) != 5 {
		return fmt.Errorf("frame tuple of length %d", len(raw))
	}
	for i, dst := range []any{&f.Pg, &f.Cm, &f.Salt, &f.Ck, &f.Len} {
		if err := json.Unmarshal(raw[i], dst); err != nil {
			return err
		}
	}
	return nil
}

func (f WFrame) MarshalJSON() ([]byte, error) {
	return json.Marshal([]any{f.Pg, f.Cm, f.Salt, f.Ck, f.Len})
}

// WState is one WAL file state with the specification's prediction.
type WState struct {
	H    string   `json:"h"`
	F    []WFrame `json:"f"`
	Nv   int      `json:"nv"`   // length of WALValidPrefix
	Lc   int      `json:"lc"`   // index of the last commit frame in the valid prefix (0 = none)
	Size int      `json:"size"` // WALCommitted.size
	Img  []int    `json:"img"`  // database image after a checkpoint: 0 = page of the file, 10+i = frame i
}

const wN0 = 2 // WN0 in the cfgs: size of the database file under the WAL

// runTLC runs one configuration with a heartbeat so that the watchdog does not mistake TLC for a hang.
func runTLC(cfg string, timeout time.Duration, onLine func(tag string, payload json.RawMessage)) *core.TLCResult {
	stop := make(chan struct{})
	go func() {
		for {
			select {
			case <-stop:
				return
			case <-time.After(3 * time.Second):
				core.Beat("tlc")
			}
		}
	}()
	core.Beat("tlc")
	res, err := core.RunTLC(core.TLCOpts{Module: "MC_JournalWAL", Cfg: cfg, Workers: 4, Timeout: timeout, OnLine: onLine})
	close(stop)
	core.Beat("harness")
	if err != nil {
		core.Infra("tlc %s: %v", cfg, err)
	}
	return res
}

// collectJournal model-checks the journal part and returns the emitted states (deduplicated by file state).
func collectJournal(rep *core.Report, cfg string) []*JState {
	var mu sync.Mutex
	var out []*JState
	seen := map[string]bool{}
	emitted := 0
	res := runTLC(cfg, 8*time.Minute, func(tag string, payload json.RawMessage) {
		if tag != "JSTATE" {
			return
		}
		var s JState
		if err := json.Unmarshal(payload, &s); err != nil {
			core.Infra("bad JSTATE line: %v: %s", err, payload)
		}
		sort.Ints(s.Plan.M)
		mu.Lock()
		emitted++
		if k := s.fileKey(); !seen[k] {
			seen[k] = true
			out = append(out, &s)
		}
		mu.Unlock()
	})
	if !res.OK() {
		core.Infra("model checking %s failed (a model problem, not a verdict about the code): %s\n%s\n%s", cfg, res.Describe(), res.ErrorText, res.OutputTail)
	}
	rep.AddTLC(cfg, res)
	rep.Note("%s: %d states emitted by TLC, %d distinct file states", cfg, emitted, len(out))
	if int64(emitted) != res.Distinct {
		core.Infra("%s: TLC found %d distinct states but %d were emitted", cfg, res.Distinct, emitted)
	}
	return out
}

// collectWAL model-checks the wal part and returns every emitted state.
func collectWAL(rep *core.Report, cfg string) []*WState {
	var mu sync.Mutex
	var out []*WState
	res := runTLC(cfg, 8*time.Minute, func(tag string, payload json.RawMessage) {
		if tag != "WSTATE" {
			return
		}
		var s WState
		if err := json.Unmarshal(payload, &s); err != nil {
			core.Infra("bad WSTATE line: %v: %s", err, payload)
		}
		mu.Lock()
		out = append(out, &s)
		mu.Unlock()
	})
	if !res.OK() {
		core.Infra("model checking %s failed (a model problem, not a verdict about the code): %s\n%s\n%s", cfg, res.Describe(), res.ErrorText, res.OutputTail)
	}
	rep.AddTLC(cfg, res)
	if int64(len(out)) != res.Distinct {
		core.Infra("%s: TLC found %d distinct states but %d were emitted", cfg, res.Distinct, len(out))
	}
	return out
}

// relevance runs a configuration in which one rule of the specification is removed; TLC must find
// the named invariant violated. The outcome is evidence, never a verdict about the code.
func relevance(rep *core.Report, cfg, invariant string) {
	res := runTLC(cfg, 5*time.Minute, nil)
	ok := res.Violation == invariant
	l, _ := rep.Extra["relevance_runs"].([]any)
	rep.Extra["relevance_runs"] = append(l, map[string]any{"cfg": cfg, "expected_violation": invariant, "found": res.Violation, "as_expected": ok, "distinct": res.Distinct})
	if !ok {
		core.Infra("relevance configuration %s: expected TLC to report %s, got %q (%s)", cfg, invariant, res.Violation, res.Describe())
	}
}
