// Streams stage of check C18: several outgoing streams and writes that fail.
//
// spec: CodecStreams.tla (frames written to several streams; a write may fail after the transport took
// k bytes; every stream must be the concatenation of the frames successfully written to it plus, on a
// dead stream, a proper prefix of the one failed frame).  TLC checks the model, refutes the invariant
// for the variant with a shared encode buffer that a failed write does not reset (relevance) and prints
// one EDGE line per explored transition.
//
// bind: every edge (a sequence of writes) is executed on the real WriteStreamFrame through writers that
// fail after k bytes; then, for every ordered pair (A, B) of the frame values of Codec.tla and the
// failure offsets 0, 1, middle, last byte: A to a writer that fails, B to a healthy one; and one long
// fixed interleaving over five streams of which three die.  The verdict is taken from the bytes the
// healthy writers received and from what the real ReadStreamFrame decodes from them.
package main

import (
	"bytes"
	"encoding/json"
	"errors"
	"fmt"
	"hash/fnv"
	"io"
	"reflect"
	"sort"
	"time"

	"github.com/superfly/litefs"
	"github.com/superfly/litefs/verifharness/core"
)

type sop struct {
	S int      `json:"s"`
	V frameVal `json:"v"`
	K int      `json:"k"` // -1: the transport takes everything; k >= 0: it takes k bytes of this write and fails
}

var errConnReset = errors.New("verif: connection reset by peer (injected)")

// faultWriter is a transport that can die: it takes bytes up to failAt (absolute stream length), then
// reports an error for this and every later Write.
type faultWriter struct {
	buf    []byte
	failAt int // -1 = healthy
	dead   bool
}

func (w *faultWriter) Write(p []byte) (int, error) {
	if w.dead {
		return 0, errConnReset
	}
	if w.failAt >= 0 && len(w.buf)+len(p) > w.failAt {
		n := w.failAt - len(w.buf)
		w.buf = append(w.buf, p[:n]...)
		w.dead = true
		return n, errConnReset
	}
	w.buf = append(w.buf, p...)
	return len(p), nil
}

// encTokens is EncFrame of Codec.tla.
func encTokens(v frameVal) []tok {
	w := []tok{{K: "tag", N: int64(v.T)}}
	for _, f := range v.F {
		if f.K == "u64" {
			w = append(w, tok{K: "u64", S: f.S})
		} else {
			w = append(w, tok{K: "len", N: f.N}, tok{K: "body", N: f.N})
		}
	}
	return w
}

func valKey(v frameVal) string {
	b, _ := json.Marshal(v)
	return string(b)
}

func valName(v frameVal) string {
	s := frameTypeName[v.T]
	for _, f := range v.F {
		if f.K == "u64" {
			s += "," + f.S
		} else {
			s += fmt.Sprintf(",%dB", f.N)
		}
	}
	return s
}

// refs holds, per frame value, the encoding produced by the real WriteStreamFrame BEFORE any write
// of this process has failed (checked against the harness's own encoder of the model's tokens).
type refs struct {
	e *env
	m map[string][]byte
}

func (r *refs) of(v frameVal) []byte {
	k := valKey(v)
	if b, ok := r.m[k]; ok {
		return b
	}
	model := encodeTokens(encTokens(v), func(t tok) []byte { return []byte(nameOf(int(t.N))) })
	r.m[k] = model
	return model
}

// prepare takes the reference encodings of all values from the real writer while it is still pristine.
func (r *refs) prepare(vals []frameVal) {
	for _, v := range vals {
		k := valKey(v)
		if _, ok := r.m[k]; ok {
			continue
		}
		model := encodeTokens(encTokens(v), func(t tok) []byte { return []byte(nameOf(int(t.N))) })
		var buf bytes.Buffer
		var werr error
		p := r.e.s.real("WriteStreamFrame", func() { werr = litefs.WriteStreamFrame(&buf, frameOf(v)) })
		if p != nil || werr != nil {
			r.m[k] = model // reported by the frame edges
			continue
		}
		if !bytes.Equal(buf.Bytes(), model) {
			r.e.rep.Nonconf("WriteStreamFrame(%s): %d bytes written, the model's token sequence gives %d bytes (first difference at %d)", valName(v), buf.Len(), len(model), firstDiff(buf.Bytes(), model))
		}
		r.m[k] = append([]byte(nil), buf.Bytes()...)
	}
}

type streamStats struct {
	Cases, Writes, FailedWrites, HealthyStreamsDecoded int
}

// caseHist keeps the writes of the last three cases: WriteStreamFrame is a package-level function, so
// anything it keeps between calls is carried from one case into the next; a replay file therefore
// holds the cases that ran immediately before the failing one as well.
type caseHist struct{ last [][]sop }

func (h *caseHist) rp(ops []sop, wlen, nack []int) map[string]any {
	rp := map[string]any{"kind": "edge", "edge": streamEdgeOf(ops, wlen, nack), "before": h.last}
	n := append(h.last[:len(h.last):len(h.last)], ops)
	if len(n) > 3 {
		n = n[1:]
	}
	h.last = n
	return rp
}

// runStreamCase executes a sequence of writes on fresh writers and evaluates the clause on the real bytes.
// wlen/nack: the model's prediction per stream (conformance only; nil = none).
//
// A case in which a write failed ends with one more write of the frame that failed last to a fresh
// healthy stream, so that whatever a failed write leaves behind shows within the case that caused it.
func (e *env) runStreamCase(ops []sop, wlen, nack []int, rf *refs, st *streamStats, rp any) (violated bool) {
	nstreams := 0
	lastFailed := -1
	for i, o := range ops {
		if o.S > nstreams {
			nstreams = o.S
		}
		if o.K >= 0 {
			lastFailed = i
		}
	}
	if len(wlen) > nstreams {
		nstreams = len(wlen) // the probe stream is none of the model's
	}
	if lastFailed >= 0 {
		nstreams++
		ops = append(ops[:len(ops):len(ops)], sop{S: nstreams, V: ops[lastFailed].V, K: -1})
	}
	type stream struct {
		w      faultWriter
		acked  []frameVal
		expect []byte // what the property allows the transport to hold
		failed *sop
	}
	ss := make([]*stream, nstreams+1)
	for i := 1; i <= nstreams; i++ {
		ss[i] = &stream{w: faultWriter{failAt: -1}}
	}
	opsDesc := func() []string {
		var d []string
		for _, o := range ops {
			if o.K < 0 {
				d = append(d, fmt.Sprintf("stream %d <- %s", o.S, valName(o.V)))
			} else {
				d = append(d, fmt.Sprintf("stream %d <- %s, transport fails after %d bytes", o.S, valName(o.V), o.K))
			}
		}
		return d
	}
	violate := func(monitor, sig string, det map[string]any) {
		violated = true
		det["writes"] = opsDesc()
		e.violate(monitor, sig, det, rp)
	}
	st.Cases++
	for i, o := range ops {
		s := ss[o.S]
		ref := rf.of(o.V)
		tname := frameTypeName[o.V.T]
		wasDead := s.w.dead
		if o.K >= 0 && !wasDead {
			if o.K >= len(ref) {
				core.Infra("stream case: failure offset %d is not inside the %d-byte frame %s", o.K, len(ref), valName(o.V))
			}
			s.w.failAt = len(s.w.buf) + o.K
		}
		var werr error
		p := e.s.real("WriteStreamFrame", func() { werr = litefs.WriteStreamFrame(&s.w, frameOf(o.V)) })
		e.rep.Eval(2)
		st.Writes++
		vlog("write %d: stream %d <- %s (%d bytes), fault after %d -> err=%v, stream now holds %d bytes", i+1, o.S, valName(o.V), len(ref), o.K, werr, len(s.w.buf))
		if p != nil {
			violate("no-panic", "panic/WriteStreamFrame/"+tname, map[string]any{"panic": p, "write": i + 1})
			return
		}
		switch {
		case o.K < 0 && !wasDead:
			if werr != nil {
				violate("roundtrip", "frame/write-failed/"+tname, map[string]any{"err": errStr(werr), "write": i + 1, "what": "a write to a healthy transport failed"})
				return
			}
			s.acked = append(s.acked, o.V)
			s.expect = append(s.expect, ref...)
		default:
			st.FailedWrites++
			if !wasDead {
				s.failed = &ops[i]
				s.expect = append(s.expect, ref[:o.K]...)
			}
			if werr == nil {
				violate("write-failure-contained", "stream/failed-write-reported-ok/"+tname, map[string]any{"write": i + 1, "what": "the transport reported an error inside the frame but WriteStreamFrame returned nil", "transport_took_bytes": len(s.w.buf)})
				return
			}
		}
		if !bytes.Equal(s.w.buf, s.expect) {
			e.streamDiff(violate, ss[o.S].failed == nil, o.S, i+1, s.w.buf, s.expect, s.acked, tname)
			return
		}
	}
	// every stream again at the end, and what the peer of each healthy stream reads back
	ids := make([]int, 0, nstreams)
	for i := 1; i <= nstreams; i++ {
		ids = append(ids, i)
	}
	sort.Ints(ids)
	for _, id := range ids {
		s := ss[id]
		e.rep.Eval(2)
		if !bytes.Equal(s.w.buf, s.expect) {
			e.streamDiff(violate, s.failed == nil, id, len(ops), s.w.buf, s.expect, s.acked, "")
			return
		}
		if wlen != nil && id <= len(wlen) && (wlen[id-1] != len(s.w.buf) || nack[id-1] != len(s.acked)) {
			e.rep.Nonconf("streams: stream %d holds %d bytes / %d frames, the model predicts %d / %d (%v)", id, len(s.w.buf), len(s.acked), wlen[id-1], nack[id-1], opsDesc())
		}
		if s.failed != nil {
			continue
		}
		st.HealthyStreamsDecoded++
		got, err := e.decodeAll(s.w.buf)
		if err != nil || len(got) != len(s.acked) {
			violate("roundtrip", "stream/healthy-stream-misread", map[string]any{"stream": id, "frames_written": len(s.acked), "frames_read": len(got), "read_err": errStr(err)})
			return
		}
		for j := range got {
			if !reflect.DeepEqual(got[j], frameOf(s.acked[j])) {
				violate("roundtrip", "frame/different-value/"+frameTypeName[s.acked[j].T], map[string]any{"stream": id, "frame": j + 1, "written": fmt.Sprintf("%.200v", frameOf(s.acked[j])), "read": fmt.Sprintf("%.200v", got[j])})
				return
			}
		}
	}
	return
}

// decodeAll reads frames with the real reader until the clean end of the stream.
func (e *env) decodeAll(b []byte) (out []litefs.StreamFrame, err error) {
	tr := &splitReader{b: b, sizes: []int{3, 4099}}
	for len(out) <= 64 {
		var f litefs.StreamFrame
		var rerr error
		if p := e.s.real("ReadStreamFrame", func() { f, rerr = litefs.ReadStreamFrame(tr) }); p != nil {
			return out, fmt.Errorf("panic: %v", p.Value)
		}
		if rerr == io.EOF && tr.off >= len(b) {
			return out, nil
		}
		if rerr != nil {
			return out, rerr
		}
		out = append(out, f)
	}
	return out, fmt.Errorf("more than 64 frames")
}

func (e *env) streamDiff(violate func(string, string, map[string]any), healthy bool, id, write int, got, want []byte, acked []frameVal, tname string) {
	det := map[string]any{"stream": id, "after_write": write, "transport_holds_bytes": len(got), "property_allows_bytes": len(want), "first_difference_at": firstDiff(got, want),
		"transport_holds": hexHead(got, firstDiff(got, want)), "property_allows": hexHead(want, firstDiff(got, want))}
	if !healthy {
		det["what"] = "a dead stream holds something else than the frames written to it plus a prefix of the failed frame"
		violate("write-failure-contained", "stream/dead-stream-bytes", det)
		return
	}
	frames, err := e.decodeAll(got)
	var rd []string
	for _, f := range frames {
		rd = append(rd, fmt.Sprintf("%.80v", fmt.Sprintf("%T%+v", f, f)))
	}
	var wr []string
	for _, v := range acked {
		wr = append(wr, valName(v))
	}
	det["what"] = "a stream all of whose writes succeeded does not hold exactly the encodings of the frames written to it"
	det["frames_written_to_it"], det["peer_reads"], det["peer_read_err"] = wr, rd, errStr(err)
	silently := err == nil
	sig := "stream/healthy-stream-bytes/misaligned"
	if silently {
		sig = "stream/healthy-stream-bytes/silently-different-frames"
	}
	violate("write-failure-contained", sig, det)
}

func hexHead(b []byte, around int) string {
	lo := around - 8
	if lo < 0 {
		lo = 0
	}
	hi := around + 24
	if hi > len(b) {
		hi = len(b)
	}
	return fmt.Sprintf("[%d:%d]=%x", lo, hi, b[lo:hi])
}

func offsetsOf(n int) []int {
	var out []int
	for _, k := range []int{0, 1, n / 2, n - 1} {
		dup := k < 0 || k >= n
		for _, x := range out {
			dup = dup || x == k
		}
		if !dup {
			out = append(out, k)
		}
	}
	return out
}

func streamEdgeOf(ops []sop, wlen, nack []int) *edge {
	return &edge{P: "stream", Ops: ops, Wlen: wlen, Nack: nack}
}

// streamEdge replays a recorded case, after the cases that preceded it in the recorded run.
func (e *env) streamEdge(ed *edge, before [][]sop) {
	rf := &refs{e: e, m: map[string][]byte{}}
	var vals []frameVal
	for _, c := range append(before[:len(before):len(before)], ed.Ops) {
		for _, o := range c {
			vals = append(vals, o.V)
		}
	}
	rf.prepare(vals)
	var st streamStats
	for i, c := range before {
		vlog("-- case %d before the recorded one", len(before)-i)
		e.runStreamCase(c, nil, nil, rf, &st, map[string]any{"kind": "edge", "edge": streamEdgeOf(c, nil, nil), "before": before[:i]})
	}
	vlog("-- the recorded case")
	e.runStreamCase(ed.Ops, ed.Wlen, ed.Nack, rf, &st, map[string]any{"kind": "edge", "edge": ed, "before": before})
}

// streamsStage: model checking of CodecStreams.tla with on-the-fly replay of every edge, the pair
// enumeration over the frame values of Codec.tla, and the long interleaving.  One goroutine: the
// order of the real calls is part of the case.
func streamsStage(rep *core.Report, args *core.Args, edges []edge) {
	e := &env{rep: rep, args: args, s: newSlot()}
	rf := &refs{e: e, m: map[string][]byte{}}
	start := time.Now()

	// the model's frame set: the distinct values of the frame edges of Codec.tla
	var vals []frameVal
	seen := map[string]bool{}
	for i := range edges {
		if edges[i].P != "frame" || edges[i].Hostile {
			continue
		}
		var v frameVal
		if err := json.Unmarshal(edges[i].V, &v); err != nil {
			core.Infra("bad frame value: %v", err)
		}
		if k := valKey(v); !seen[k] && frameOf(v) != nil {
			seen[k] = true
			vals = append(vals, v)
		}
	}
	sort.Slice(vals, func(i, j int) bool { return valKey(vals[i]) < valKey(vals[j]) })
	if len(vals) < 30 {
		core.Infra("streams stage: only %d frame values in the edges of Codec.tla", len(vals))
	}
	rf.prepare(vals)

	// ---- (a) CodecStreams.tla, every edge replayed while TLC runs ----
	var st streamStats
	hist := &caseHist{}
	stop := tlcBeat()
	cfg := core.Pick(args, "MC_CodecStreams.cfg", "MC_CodecStreams_thorough.cfg")
	nedges := 0
	sampled := false
	res, err := core.RunTLC(core.TLCOpts{Module: "CodecStreams", Cfg: cfg, Workers: 4, Timeout: 15 * time.Minute,
		OnLine: func(tag string, payload json.RawMessage) {
			if tag != "EDGE" {
				return
			}
			var se struct {
				P    string `json:"p"`
				Ops  []sop  `json:"ops"`
				Wlen []int  `json:"wlen"`
				Nack []int  `json:"nack"`
			}
			if err := json.Unmarshal(payload, &se); err != nil || se.P != "stream" {
				core.Infra("bad stream EDGE line: %v: %.300s", err, payload)
			}
			nedges++
			if rep.ViolationCount() >= 20 {
				return // enough instances; keep draining TLC's output
			}
			nfail := 0
			for _, o := range se.Ops {
				if o.K >= 0 {
					nfail++
				}
			}
			h := fnv.New64a()
			_, _ = h.Write(payload)
			rep.Case(fmt.Sprintf("stream|%x", h.Sum64()), nfail > 0)
			rp := hist.rp(se.Ops, se.Wlen, se.Nack)
			replayOf.Store(e.s, rp)
			e.runStreamCase(se.Ops, se.Wlen, se.Nack, rf, &st, rp)
			if !sampled && nfail > 0 && len(se.Ops) == 3 {
				sampled = true
				rep.Sample(map[string]any{"stream_edge": se})
			}
		}})
	stop()
	if err != nil {
		core.Infra("tlc: %v", err)
	}
	if !res.OK() {
		core.Infra("model checking of CodecStreams.tla (%s) failed (model problem, not a code verdict): %s\n%s", cfg, res.Describe(), res.ErrorText+res.OutputTail)
	}
	rep.AddTLC(cfg[:len(cfg)-4], res)
	if min := core.Pick(args, 50000, 400000); nedges < min {
		core.Infra("expected >= %d stream edges from TLC, got %d", min, nedges)
	}
	rep.TracesValidated += int64(nedges)

	// ---- (b) every ordered pair of frame values x failure offset ----
	npairs := 0
	for _, a := range vals {
		for _, k := range offsetsOf(len(rf.of(a))) {
			for _, b := range vals {
				if rep.ViolationCount() >= 40 {
					break
				}
				ops := []sop{{S: 1, V: a, K: k}, {S: 2, V: b, K: -1}}
				rp := hist.rp(ops, nil, nil)
				replayOf.Store(e.s, rp)
				rep.Case(fmt.Sprintf("streampair|%s|%d|%s", valKey(a), k, valKey(b)), true)
				e.runStreamCase(ops, nil, nil, rf, &st, rp)
				if npairs++; npairs%256 == 0 {
					core.Beat("harness")
				}
			}
		}
	}

	// ---- (c) one long interleaving over five streams; streams 2, 4 and 1 die on the way, the handler of a
	// dead stream sends one more frame (End) as litefs does when it gives up ----
	var ops []sop
	var endV frameVal
	for _, v := range vals {
		if v.T == 3 {
			endV = v
		}
	}
	cnt := map[int]int{}
	dead := map[int]bool{}
	for round := 0; round < 2; round++ {
		for i, v := range vals {
			s := (i+round)%5 + 1
			if dead[s] {
				continue
			}
			cnt[s]++
			k := -1
			n := len(rf.of(v))
			switch {
			case s == 2 && cnt[s] == 3:
				k = n / 2
			case s == 4 && cnt[s] == 6:
				k = 1 % n
			case s == 1 && cnt[s] == 12:
				k = n - 1
			}
			ops = append(ops, sop{S: s, V: v, K: k})
			if k >= 0 {
				dead[s] = true
				ops = append(ops, sop{S: s, V: endV, K: 0})
			}
		}
	}
	rp := hist.rp(ops, nil, nil)
	replayOf.Store(e.s, rp)
	rep.Case("streamlong", true)
	e.runStreamCase(ops, nil, nil, rf, &st, rp)
	if len(dead) != 3 {
		core.Infra("streams stage: the long interleaving killed %d streams, expected 3", len(dead))
	}

	rep.TracesValidated += int64(npairs + 1)
	rep.Extra["streams"] = map[string]any{"model_edges": nedges, "frame_values": len(vals), "pairs": npairs, "long_interleaving_writes": len(ops),
		"cases": st.Cases, "writes": st.Writes, "failed_writes": st.FailedWrites, "healthy_streams_read_back": st.HealthyStreamsDecoded, "wall_s": time.Since(start).Seconds()}
	if rep.ViolationCount() == 0 && (st.FailedWrites < 10000 || st.HealthyStreamsDecoded < 10000) {
		core.Infra("streams stage vacuous: %d failed writes, %d healthy streams read back", st.FailedWrites, st.HealthyStreamsDecoded)
	}
}

// streamsRelevance: the variant with the shared encode buffer must be refuted by TLC.
func streamsRelevance(rep *core.Report) {
	stop := tlcBeat()
	defer stop()
	res, err := core.RunTLC(core.TLCOpts{Module: "CodecStreams", Cfg: "MC_CodecStreams_mut_pooled.cfg", Workers: 2, Timeout: 5 * time.Minute})
	if err != nil {
		core.Infra("tlc: %v", err)
	}
	if res.TimedOut || res.Violation != "StreamIsItsFrames" {
		core.Infra("relevance configuration MC_CodecStreams_mut_pooled.cfg (shared encode buffer, not reset by a failed write) must violate StreamIsItsFrames; got %s\n%s", res.Describe(), res.OutputTail)
	}
	rep.Extra["streams_relevance"] = map[string]any{"cfg": "MC_CodecStreams_mut_pooled.cfg", "variant": "frames assembled in a buffer shared by all streams that only a successful write drains", "tlc_violation": res.Violation}
}
