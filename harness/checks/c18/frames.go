package main

import (
	"bytes"
	"encoding/binary"
	"encoding/json"
	"fmt"
	"io"
	"math"
	"reflect"
	"sync"
	"syscall"

	"github.com/superfly/litefs"
	lfshttp "github.com/superfly/litefs/http"
	"github.com/superfly/litefs/internal"
	"github.com/superfly/ltx"
)

// symbolic 64-bit values of the model
func u64Of(s string) uint64 {
	switch s {
	case "zero":
		return 0
	case "one":
		return 1
	case "maxu64":
		return math.MaxUint64
	case "maxi64":
		return math.MaxInt64
	case "neg":
		return 1 << 63 // min int64
	}
	panic("unknown symbolic integer " + s)
}

var (
	nameMu    sync.Mutex
	nameCache = map[int]string{}
)

// nameOf gives the seeded random content used for a frame's name / lease id of length n.
func nameOf(n int) string {
	nameMu.Lock()
	defer nameMu.Unlock()
	if s, ok := nameCache[n]; ok {
		return s
	}
	s := string(payload[unit+n : unit+2*n]) // arbitrary bytes, not UTF-8
	nameCache[n] = s
	return s
}

type frameVal struct {
	T int   `json:"t"`
	F []tok `json:"f"`
}

// frameOf builds the real frame value from the model's (type, field values).
func frameOf(v frameVal) litefs.StreamFrame {
	switch v.T {
	case 1:
		return &litefs.LTXStreamFrame{Size: int64(u64Of(v.F[0].S)), Name: nameOf(int(v.F[1].N))}
	case 2:
		return &litefs.ReadyStreamFrame{}
	case 3:
		return &litefs.EndStreamFrame{}
	case 4:
		return &litefs.DropDBStreamFrame{Name: nameOf(int(v.F[0].N))}
	case 5:
		return &litefs.HandoffStreamFrame{LeaseID: nameOf(int(v.F[0].N))}
	case 6:
		return &litefs.HWMStreamFrame{TXID: ltx.TXID(u64Of(v.F[0].S)), Name: nameOf(int(v.F[1].N))}
	case 7:
		return &litefs.HeartbeatStreamFrame{Timestamp: int64(u64Of(v.F[0].S))}
	}
	return nil
}

var frameTypeName = map[int]string{1: "LTX", 2: "Ready", 3: "End", 4: "DropDB", 5: "Handoff", 6: "HWM", 7: "Heartbeat"}

// encodeTokens is the harness's own encoder of a token sequence (also used for hostile wires,
// which no writer of litefs produces).
func encodeTokens(wire []tok, body func(t tok) []byte) []byte {
	var b bytes.Buffer
	for _, t := range wire {
		switch t.K {
		case "tag", "cnt", "len":
			var x [4]byte
			binary.BigEndian.PutUint32(x[:], uint32(t.N))
			b.Write(x[:])
		case "u64":
			var x [8]byte
			binary.BigEndian.PutUint64(x[:], u64Of(t.S))
			b.Write(x[:])
		case "body":
			b.Write(body(t))
		default:
			panic("unknown token kind " + t.K)
		}
	}
	return b.Bytes()
}

// fieldAt names the token inside which (or before which) a cut offset falls.
func fieldAt(wire []tok, cut int64) string {
	off := int64(0)
	for i, t := range wire {
		w := int64(4)
		if t.K == "u64" {
			w = 8
		} else if t.K == "body" {
			w = t.N
		}
		if cut < off+w {
			if cut == off {
				return fmt.Sprintf("before-%s%d", t.K, i)
			}
			return fmt.Sprintf("inside-%s%d", t.K, i)
		}
		off += w
	}
	return "end"
}

func splitFor(ed *edge) []int {
	if ed.Len > 4096 {
		return modelSplit(ed.M)
	}
	return modelSplitSmall(ed.M)
}

func (e *env) frameEdge(ed *edge) {
	rp := map[string]any{"kind": "edge", "edge": ed}
	var v frameVal
	if err := json.Unmarshal(ed.V, &v); err != nil {
		panic(err)
	}
	bodyLen := 0
	for _, t := range ed.Wire {
		if t.K == "body" {
			bodyLen = int(t.N)
		}
	}
	model := encodeTokens(ed.Wire, func(t tok) []byte { return []byte(nameOf(int(t.N))) })
	tname := frameTypeName[v.T]
	if tname == "" {
		tname = fmt.Sprintf("type%d", v.T)
	}
	key := fmt.Sprintf("frame|%s|%d|%d|%v", ed.V, ed.Cut, ed.M, ed.Hostile)
	e.rep.Case(key, ed.Cut < ed.Len || ed.Hostile || bodyLen > 0)

	var orig litefs.StreamFrame
	wire := model
	if !ed.Hostile {
		// what a node can write: the real writer produces the bytes
		orig = frameOf(v)
		var buf bytes.Buffer
		var werr error
		p := e.s.real("WriteStreamFrame", func() { werr = litefs.WriteStreamFrame(&buf, orig) })
		e.rep.Eval(1)
		if p != nil {
			e.violate("no-panic", "panic/WriteStreamFrame/"+tname, map[string]any{"panic": p}, rp)
			return
		}
		if werr != nil {
			e.violate("roundtrip", "frame/write-failed/"+tname, map[string]any{"err": errStr(werr)}, rp)
			return
		}
		wire = buf.Bytes()
		if !bytes.Equal(wire, model) {
			e.rep.Nonconf("WriteStreamFrame(%s %s): %d bytes written, the model's token sequence gives %d bytes (first difference at %d)", tname, ed.V, len(wire), len(model), firstDiff(wire, model))
		}
	}
	complete := !ed.Hostile && ed.Cut >= ed.Len
	cut := len(wire)
	if !complete && !ed.Hostile {
		cut = int(ed.Cut)
		if cut >= len(wire) {
			cut = len(wire) - 1
		}
	}
	e.checkFrameRead(wire, cut, complete, orig, splitFor(ed), false, tname, fieldAt(ed.Wire, ed.Cut), ed.Hostile, ed.Res.Err, rp)
}

// checkFrameRead feeds wire[:cut] to the real ReadStreamFrame and evaluates the clauses.
// predicted: the model's error class ("" = none given / do not compare).
func (e *env) checkFrameRead(wire []byte, cut int, complete bool, orig litefs.StreamFrame, sizes []int, eofWithData bool, tname, where string, hostile bool, predicted string, rp any) {
	var got litefs.StreamFrame
	var err error
	tr := &splitReader{b: wire[:cut], sizes: sizes, eofWithData: eofWithData}
	p := e.s.real("ReadStreamFrame", func() { got, err = litefs.ReadStreamFrame(tr) })
	e.rep.Eval(3)
	vlog("ReadStreamFrame(%d of %d bytes, %s) -> %T err=%v; model predicts %q", cut, len(wire), where, got, err, predicted)
	det := map[string]any{"frame_type": tname, "wire_bytes": len(wire), "given_bytes": cut, "cut_at": where, "hostile_length": hostile, "returned_err": errStr(err), "returned_value": fmt.Sprintf("%T", got)}
	if p != nil {
		e.violate("no-panic", "panic/ReadStreamFrame/"+tname, mergeDet(det, map[string]any{"panic": p}), rp)
		return
	}
	if complete {
		if err != nil {
			e.violate("roundtrip", "frame/complete-rejected/"+tname, det, rp)
		} else if !reflect.DeepEqual(got, orig) {
			e.violate("roundtrip", "frame/different-value/"+tname, mergeDet(det, map[string]any{"written": fmt.Sprintf("%.200v", orig), "read": fmt.Sprintf("%.200v", got)}), rp)
		}
		return
	}
	kind := "prefix"
	if hostile {
		kind = "hostile"
	}
	if err == nil {
		e.violate("truncated-is-error", "frame/"+kind+"-accepted/"+tname+"/"+where, mergeDet(det, map[string]any{"what": "a truncated or malformed frame was returned as a value", "read": fmt.Sprintf("%.200v", got)}), rp)
		return
	}
	if err == io.EOF && cut > 0 {
		// Store.processStream treats io.EOF from ReadStreamFrame as a clean disconnect
		e.violate("truncated-is-error", "frame/clean-eof-mid-frame/"+tname+"/"+where, mergeDet(det, map[string]any{"what": "io.EOF (the clean end-of-stream signal of ReadStreamFrame) for a frame that was cut after its first byte"}), rp)
		return
	}
	if predicted != "" {
		if c := errClass(err); c != predicted && !(predicted == "badtype" && c == "other") {
			e.rep.Nonconf("ReadStreamFrame(%s, cut %s): model predicts error class %q, code returned %v", tname, where, predicted, err)
		}
	}
	if !hostile && cut > 0 {
		// the same prefix, but the stream ends because the connection broke (the reader reports an error that is
		// not an end of file): the frame was not received either
		var got2 litefs.StreamFrame
		var err2 error
		tr2 := &splitReader{b: wire[:cut], sizes: sizes, eofWithData: eofWithData, endErr: syscall.ECONNRESET}
		p2 := e.s.real("ReadStreamFrame", func() { got2, err2 = litefs.ReadStreamFrame(tr2) })
		e.rep.Eval(1)
		if p2 != nil {
			e.violate("no-panic", "panic/ReadStreamFrame/"+tname, mergeDet(det, map[string]any{"panic": p2, "stream_end": "connection reset"}), rp)
		} else if err2 == nil {
			e.violate("truncated-is-error", "frame/cut-by-a-connection-error-accepted/"+tname+"/"+where, mergeDet(det, map[string]any{"what": "the connection broke inside the frame (read error ECONNRESET after the given bytes) and a frame was returned as a value", "read": fmt.Sprintf("%.200v", got2), "stream_end": "connection reset"}), rp)
		}
	}
}

func mergeDet(a, b map[string]any) map[string]any {
	for k, v := range b {
		a[k] = v
	}
	return a
}

// ---- position maps ----

func posBody(t tok) []byte { return bytes.Repeat([]byte(t.S), int(t.N)) }

// posMapOf rebuilds the map from the entry tokens (len, body, u64, u64)* that follow the count.
func posMapOf(wire []tok) map[string]ltx.Pos {
	m := map[string]ltx.Pos{}
	for i := 1; i+3 < len(wire); i += 4 {
		m[string(posBody(wire[i+1]))] = ltx.Pos{TXID: ltx.TXID(u64Of(wire[i+2].S)), PostApplyChecksum: ltx.Checksum(u64Of(wire[i+3].S))}
	}
	return m
}

func (e *env) posEdge(ed *edge) {
	rp := map[string]any{"kind": "edge", "edge": ed}
	model := encodeTokens(ed.Wire, posBody)
	key := fmt.Sprintf("posmap|%s|%d|%d|%v|%d", ed.V, ed.Cut, ed.M, ed.Hostile, ed.Wire[0].N)
	if ed.Hostile {
		for _, t := range ed.Wire {
			if t.K == "len" {
				key += fmt.Sprintf("|%d", t.N)
			}
		}
	}
	e.rep.Case(key, ed.Cut < ed.Len || ed.Hostile || len(ed.Wire) > 1)
	orig := posMapOf(ed.Wire)
	wire := model
	if !ed.Hostile {
		var buf bytes.Buffer
		var werr error
		p := e.s.real("WritePosMapTo", func() { werr = lfshttp.WritePosMapTo(&buf, orig) })
		e.rep.Eval(1)
		if p != nil {
			e.violate("no-panic", "panic/WritePosMapTo", map[string]any{"panic": p}, rp)
			return
		}
		if werr != nil {
			e.violate("roundtrip", "posmap/write-failed", map[string]any{"err": errStr(werr)}, rp)
			return
		}
		wire = buf.Bytes()
		if !bytes.Equal(wire, model) {
			e.rep.Nonconf("WritePosMapTo(%s): %d bytes written, the model's token sequence gives %d bytes (first difference at %d)", ed.V, len(wire), len(model), firstDiff(wire, model))
		}
	}
	complete := !ed.Hostile && ed.Cut >= ed.Len
	cut := len(wire)
	if !complete && !ed.Hostile {
		cut = int(ed.Cut)
		if cut >= len(wire) {
			cut = len(wire) - 1
		}
	}
	e.checkPosRead(wire, cut, complete, orig, splitFor(ed), false, fieldAt(ed.Wire, ed.Cut), ed.Hostile, ed.Res.Err, len(orig), rp)
}

func (e *env) checkPosRead(wire []byte, cut int, complete bool, orig map[string]ltx.Pos, sizes []int, eofWithData bool, where string, hostile bool, predicted string, entries int, rp any) {
	var got map[string]ltx.Pos
	var err error
	tr := &splitReader{b: wire[:cut], sizes: sizes, eofWithData: eofWithData}
	p := e.s.real("ReadPosMapFrom", func() { got, err = lfshttp.ReadPosMapFrom(tr) })
	e.rep.Eval(3)
	vlog("ReadPosMapFrom(%d of %d bytes, %s) -> %d entries err=%v; model predicts %q", cut, len(wire), where, len(got), err, predicted)
	det := map[string]any{"entries_written": entries, "wire_bytes": len(wire), "given_bytes": cut, "cut_at": where, "hostile_length": hostile, "returned_err": errStr(err), "returned_entries": len(got)}
	if p != nil {
		e.violate("no-panic", "panic/ReadPosMapFrom", mergeDet(det, map[string]any{"panic": p}), rp)
		return
	}
	if complete {
		if err != nil {
			e.violate("roundtrip", "posmap/complete-rejected", det, rp)
		} else if len(got) != len(orig) || (len(orig) > 0 && !reflect.DeepEqual(got, orig)) {
			e.violate("roundtrip", "posmap/different-value", det, rp)
		}
		return
	}
	kind := "prefix"
	if hostile {
		kind = "hostile"
	}
	if err == nil {
		e.violate("truncated-is-error", "posmap/"+kind+"-accepted/"+stripIndex(where), mergeDet(det, map[string]any{"what": "a truncated or malformed position map was returned as a value"}), rp)
		return
	}
	if predicted != "" {
		if c := errClass(err); c != predicted {
			e.rep.Nonconf("ReadPosMapFrom(cut %s): model predicts error class %q, code returned %v", where, predicted, err)
		}
	}
}

// stripIndex removes the token index so that the signature names the field class only.
func stripIndex(where string) string {
	i := len(where)
	for i > 0 && where[i-1] >= '0' && where[i-1] <= '9' {
		i--
	}
	return where[:i]
}

// ---- ReadFullAt ----

func (e *env) rfaEdge(ed *edge) {
	rp := map[string]any{"kind": "edge", "edge": ed}
	L, off := int(ed.Len)*rfaUnit, int(ed.Cut)*rfaUnit
	N := int(ed.Res.Vals[1].N) * rfaUnit
	wantN := int(ed.Res.Vals[0].N) * rfaUnit
	var sizes []int
	switch ed.M {
	case 1:
		sizes = []int{1, 333}
	case 2:
		sizes = []int{rfaUnit + 1}
	}
	e.rep.Case(fmt.Sprintf("rfa|%d|%d|%d|%d|%v", L, off, N, ed.M, ed.Hostile), wantN < N)
	e.checkRFA(payload[:L], off, N, sizes, ed.Hostile, ed.Res.Err, wantN, rp)
}

func (e *env) checkRFA(src []byte, off, N int, sizes []int, ee bool, predicted string, predictedN int, rp any) {
	ra := &splitReaderAt{src: src, sizes: sizes, ee: ee}
	buf := make([]byte, N)
	var n int
	var err error
	p := e.s.real("ReadFullAt", func() { n, err = internal.ReadFullAt(ra, buf, int64(off)) })
	e.rep.Eval(3)
	avail := len(src) - off
	if avail < 0 {
		avail = 0
	}
	vlog("ReadFullAt(source %d bytes, off %d, buf %d) -> n=%d err=%v; model predicts n=%d %q", len(src), off, N, n, err, predictedN, predicted)
	det := map[string]any{"source_bytes": len(src), "offset": off, "buffer_bytes": N, "available": avail, "returned_n": n, "returned_err": errStr(err), "eof_with_last_bytes": ee}
	if p != nil {
		e.violate("no-panic", "panic/ReadFullAt", mergeDet(det, map[string]any{"panic": p}), rp)
		return
	}
	full := avail >= N
	if n < 0 || n > N || n > avail || !bytes.Equal(buf[:n], src[min(off, len(src)):min(off, len(src))+n]) {
		e.violate("roundtrip", "rfa/different-bytes", det, rp)
		return
	}
	if full {
		if err != nil || n != N {
			e.violate("roundtrip", "rfa/full-read-failed", det, rp)
		}
		return
	}
	if err == nil {
		e.violate("truncated-is-error", "rfa/short-read-accepted", mergeDet(det, map[string]any{"what": "fewer bytes than the buffer and no error"}), rp)
		return
	}
	if predicted != "" && (errClass(err) != predicted || n != predictedN) {
		e.rep.Nonconf("ReadFullAt(src %d, off %d, buf %d): model predicts n=%d %q, code returned n=%d %v", len(src), off, N, predictedN, predicted, n, err)
	}
}
