// Check C18: stream frames, position maps and chunked bodies round-trip and fail safely.
//
// spec -> impl: TLC explores spec/Codec.tla exhaustively (chunk writer/reader state machine with
// the chunk limit scaled to 3 units = 65535 bytes, payloads 0..7 units, every write chunking, every
// cut of the encoded stream at header-byte and unit granularity, every consumer read size and
// transport split; the seven frame types and position maps as token sequences with every
// field-boundary and mid-field prefix and with length prefixes that promise too much; ReadFullAt)
// and prints one EDGE line per explored transition.  Every edge is replayed from fresh objects on
// the real chunk.Writer/chunk.Reader, WriteStreamFrame/ReadStreamFrame, WritePosMapTo/
// ReadPosMapFrom and internal.ReadFullAt.  The monitors are the clauses of the property, evaluated
// on what the real code returned; the model's prediction is only used for conformance (R3).
//
// streams.go: CodecStreams.tla - frames written to several streams through transports that fail after
// k bytes; a failed write must not show on any other stream.
//
// A seeded randomized part (random.go) adds sizes around 65534/65535/65536/131070, random
// chunkings / splits / contents and structured garbage.  probe.go keeps one smoke probe of hostile
// length prefixes in a memory-limited child process.
package main

import (
	"encoding/json"
	"fmt"
	"github.com/superfly/litefs/verifharness/repl"
	"io"
	"os"
	"runtime"
	"strings"
	"sync"
	"sync/atomic"
	"time"

	"github.com/superfly/litefs/verifharness/core"
)

const (
	unit      = 21845 // bytes per model unit: 3 units = 65535 = chunk.MaxChunkSize
	rfaUnit   = 1000  // bytes per model unit for ReadFullAt
	callBound = 10 * time.Second
)

// ---- per-worker call guard: no real call may take longer than callBound (property: never a hang) ----

type slot struct {
	start atomic.Int64 // unix nanos of the running real call, 0 if none
	label atomic.Value // string
}

var (
	slots   []*slot
	slotsMu sync.Mutex
	gRep    *core.Report
)

func newSlot() *slot {
	s := &slot{}
	s.label.Store("")
	slotsMu.Lock()
	slots = append(slots, s)
	slotsMu.Unlock()
	return s
}

// real runs one call into litefs: panics are captured, the hang watcher sees its start time.
func (s *slot) real(label string, f func()) *core.Panic {
	s.label.Store(label)
	s.start.Store(time.Now().UnixNano())
	p := core.Try(f)
	s.start.Store(0)
	return p
}

func hangWatcher() {
	for {
		time.Sleep(250 * time.Millisecond)
		now := time.Now().UnixNano()
		slotsMu.Lock()
		for _, s := range slots {
			if st := s.start.Load(); st != 0 && time.Duration(now-st) > callBound {
				lbl, _ := s.label.Load().(string)
				slotsMu.Unlock()
				gRep.Eval(1)
				gRep.Violate("C18.no-hang", "hang/"+lbl, map[string]any{"call": lbl, "running_for": time.Duration(now - st).String(), "bound": callBound.String()}, currentReplay(s))
				gRep.Finish()
			}
		}
		slotsMu.Unlock()
	}
}

var replayOf sync.Map // *slot -> any (what the worker is replaying right now)

func currentReplay(s *slot) any {
	v, _ := replayOf.Load(s)
	return v
}

// ---- transports that split the bytes across reads ----

// splitReader hands out b in pieces: sizes[i % len(sizes)] bytes at most for the i-th call
// (0 = unlimited).  eofWithData: the last piece is returned together with io.EOF (legal io.Reader).
type splitReader struct {
	b           []byte
	off         int
	sizes       []int
	calls       int
	eofWithData bool
	endErr      error // what the reader reports at its end instead of io.EOF (a connection that broke)
}

func (s *splitReader) Read(p []byte) (int, error) {
	if len(p) == 0 {
		return 0, nil
	}
	if s.off >= len(s.b) {
		if s.endErr != nil {
			return 0, s.endErr
		}
		return 0, io.EOF
	}
	n := len(p)
	if len(s.sizes) > 0 {
		if m := s.sizes[s.calls%len(s.sizes)]; m > 0 && m < n {
			n = m
		}
	}
	s.calls++
	if rem := len(s.b) - s.off; rem < n {
		n = rem
	}
	copy(p, s.b[s.off:s.off+n])
	s.off += n
	if s.eofWithData && s.off == len(s.b) {
		if s.endErr != nil {
			return n, s.endErr
		}
		return n, io.EOF
	}
	return n, nil
}

// modelSplit maps the model's "cells per transport read" to byte patterns: 1 = never more than a
// header byte, then a small odd piece; 2 = one unit plus one byte; 99 = everything at once.
func modelSplit(m int) []int {
	switch m {
	case 1:
		return []int{1, 4099}
	case 2:
		return []int{unit + 1}
	}
	return nil
}

func modelSplitSmall(m int) []int {
	switch m {
	case 1:
		return []int{1}
	case 2:
		return []int{3, 5}
	}
	return nil
}

// splitReaderAt is an io.ReaderAt over src that returns short counts (without error) and, if ee,
// reports io.EOF together with the bytes that reach the end of the source.
type splitReaderAt struct {
	src   []byte
	sizes []int
	ee    bool
	calls int
}

func (s *splitReaderAt) ReadAt(p []byte, off int64) (int, error) {
	if len(p) == 0 {
		return 0, nil
	}
	if off >= int64(len(s.src)) {
		return 0, io.EOF
	}
	n := len(p)
	if len(s.sizes) > 0 {
		if m := s.sizes[s.calls%len(s.sizes)]; m > 0 && m < n {
			n = m
		}
	}
	s.calls++
	atEnd := false
	if rem := len(s.src) - int(off); rem <= n {
		atEnd = rem < len(p) || s.ee
		n = rem
	}
	copy(p, s.src[off:int(off)+n])
	if atEnd && int(off)+n == len(s.src) {
		return n, io.EOF
	}
	return n, nil
}

// ---- edges ----

type tok struct {
	K string `json:"k"`
	S string `json:"s"`
	N int64  `json:"n"`
}

type edge struct {
	P string `json:"p"`
	// chunk
	W      []int `json:"w"`
	Ch     []int `json:"ch"`
	Closed bool  `json:"closed"`
	CutB   struct {
		H int `json:"h"`
		D int `json:"d"`
	} `json:"cutb"`
	Cells int   `json:"cells"`
	Total int   `json:"total"`
	M     int   `json:"m"`
	R     []int `json:"r"`
	Act   struct {
		Op string `json:"op"`
		K  int    `json:"k"`
		N  int    `json:"n"`
		St string `json:"st"`
	} `json:"act"`
	Out     int `json:"out"`
	Payload int `json:"payload"`
	// frame / posmap / rfa
	V       json.RawMessage `json:"v"`
	Wire    []tok           `json:"wire"`
	Len     int64           `json:"len"`
	Cut     int64           `json:"cut"`
	Hostile bool            `json:"hostile"`
	// stream (CodecStreams.tla): the writes, and the model's bytes / acknowledged frames per stream
	Ops  []sop `json:"ops,omitempty"`
	Wlen []int `json:"wlen,omitempty"`
	Nack []int `json:"nack,omitempty"`
	Res  struct {
		Ok   bool   `json:"ok"`
		Vals []tok  `json:"vals"`
		Err  string `json:"err"`
	} `json:"res"`
}

func errClass(err error) string {
	switch err {
	case nil:
		return ""
	case io.EOF:
		return "eof"
	case io.ErrUnexpectedEOF:
		return "unexpected"
	}
	return "other"
}

func errStr(err error) string {
	if err == nil {
		return "<nil>"
	}
	return err.Error()
}

type env struct {
	rep  *core.Report
	args *core.Args
	s    *slot
}

func (e *env) violate(monitor, sig string, detail map[string]any, replay any) {
	e.rep.Violate("C18."+monitor, sig, detail, replay)
}

func main() {
	if k := os.Getenv("C18_PROBE"); k != "" {
		probeChild(k)
		return
	}
	args := core.ParseArgs()
	level := "model_checking"
	rep := core.NewReport("C18", level, args)
	gRep = rep
	rep.Rule = "one case = one explored transition of Codec.tla replayed from fresh objects on the real code (chunk: write chunking x cut of the encoded stream x transport split x reads so far x read size; frame/posmap: value x cut offset or hostile length x split; ReadFullAt: source x offset x buffer x split), plus the seeded random cases; non-trivial = the case reads a proper prefix / hostile sequence, or round-trips a payload of more than one chunk or a value with a non-empty string"
	rep.Assumptions = []string{
		"1 model unit = 21845 bytes, so the model's chunk limit of 3 units is the real limit of 65535 bytes; cuts inside a data unit are taken by the random part only",
		"string contents and integer values are concretisation parameters (symbolic in the model): contents are seeded random bytes, integers are 0, 1, max uint64, max int64, min int64",
		"hostile length prefixes above 200000 bytes and memory proportionality are outside the model (one child-process smoke probe, evidence only)",
		"a transport never returns (0, nil) forever; transports may return short counts and io.EOF together with the last bytes",
	}
	rep.Exhaustive = true
	defer core.Cleanup()

	core.Watchdog(90*time.Second, func(label string, since time.Duration) {
		core.Infra("no progress for %s while %s", since, label)
	})
	go hangWatcher()
	initPayload(args.Seed)

	if args.Replay != "" {
		replayFile(rep, args, args.Replay)
		rep.Finish()
	}

	// ---- 1. exhaustive model checking + edge emission ----
	cfg := core.Pick(args, "MC_Codec.cfg", "MC_Codec_thorough.cfg")
	edges := runModel(rep, cfg, true)
	if min := core.Pick(args, 80000, 400000); len(edges) < min {
		core.Infra("expected >= %d edges from TLC, got %d", min, len(edges))
	}

	// ---- 2. edge-complete replay on the real code ----
	replayEdges(rep, args, edges)

	// ---- 3. seeded random part ----
	randomPart(rep, args)

	// ---- 3b. several streams, writes that fail after k bytes (CodecStreams.tla, streams.go) ----
	streamsRelevance(rep)
	streamsStage(rep, args, edges)

	// ---- 4. relevance: the reader modelled exactly as coded must violate ChunkPrefixRejected ----
	if !args.Quick() {
		relevance(rep)
	}

	// ---- 5. hostile length prefixes in a memory-limited child (smoke probe) ----
	hostileProbe(rep, args)

	// the consuming side: a real replica store reads a stream that contains its own transaction coming back
	repl.StreamConsumer(rep, "C18")
	rep.Finish()
}

func tlcBeat() func() {
	core.Beat("tlc")
	stop := make(chan struct{})
	go func() {
		for {
			select {
			case <-stop:
				return
			case <-time.After(5 * time.Second):
				core.Beat("tlc")
			}
		}
	}()
	return func() { close(stop); core.Beat("harness") }
}

func runModel(rep *core.Report, cfg string, collect bool) []edge {
	stop := tlcBeat()
	defer stop()
	var edges []edge
	res, err := core.RunTLC(core.TLCOpts{Module: "MC_Codec", Cfg: cfg, Workers: 4, Timeout: 10 * time.Minute,
		OnLine: func(tag string, payload json.RawMessage) {
			if tag != "EDGE" || !collect {
				return
			}
			var e edge
			if err := json.Unmarshal(payload, &e); err != nil {
				core.Infra("bad EDGE line: %v: %.300s", err, payload)
			}
			edges = append(edges, e)
		}})
	if err != nil {
		core.Infra("tlc: %v", err)
	}
	if !res.OK() {
		core.Infra("model checking of Codec.tla (%s) failed (model problem, not a code verdict): %s\n%s", cfg, res.Describe(), res.ErrorText+res.OutputTail)
	}
	rep.AddTLC(strings.TrimSuffix(cfg, ".cfg"), res)
	return edges
}

func relevance(rep *core.Report) {
	stop := tlcBeat()
	defer stop()
	res, err := core.RunTLC(core.TLCOpts{Module: "MC_Codec", Cfg: "MC_Codec_ascoded.cfg", Workers: 4, Timeout: 5 * time.Minute})
	if err != nil {
		core.Infra("tlc: %v", err)
	}
	if res.TimedOut || res.Violation != "ChunkPrefixRejected" {
		core.Infra("relevance configuration MC_Codec_ascoded.cfg (reader as coded, io.EOF passed on) must violate ChunkPrefixRejected; got %s\n%s", res.Describe(), res.OutputTail)
	}
	rep.Extra["relevance"] = map[string]any{"cfg": "MC_Codec_ascoded.cfg", "guard_removed": "io.EOF of io.ReadFull not turned into io.ErrUnexpectedEOF", "tlc_violation": res.Violation, "note": "evidence that the invariant is not vacuous; also the model-level reproduction of known finding chunk-clean-eof-after-size-header"}
}

func replayEdges(rep *core.Report, args *core.Args, edges []edge) {
	workers := runtime.NumCPU() / 2
	if workers < 2 {
		workers = 2
	}
	if workers > 8 {
		workers = 8
	}
	jobs := make(chan *edge, 256)
	var wg sync.WaitGroup
	var done atomic.Int64
	for w := 0; w < workers; w++ {
		wg.Add(1)
		go func() {
			defer wg.Done()
			e := &env{rep: rep, args: args, s: newSlot()}
			for ed := range jobs {
				replayOf.Store(e.s, map[string]any{"kind": "edge", "edge": ed})
				e.replayEdge(ed)
				if done.Add(1)%512 == 0 {
					core.Beat("harness")
				}
			}
		}()
	}
	counts := map[string]int{}
	for i := range edges {
		counts[edges[i].P+"/"+edges[i].Act.Op]++
		jobs <- &edges[i]
	}
	close(jobs)
	wg.Wait()
	core.Beat("harness")
	rep.TracesValidated += int64(len(edges))
	rep.Extra["edges_replayed"] = len(edges)
	rep.Extra["edges_by_kind"] = counts
	for _, want := range []string{"chunk/Read", "chunk/Write", "chunk/Close", "frame/", "posmap/", "rfa/"} {
		if counts[want] == 0 {
			core.Infra("no %s edges emitted by TLC (vacuous run)", want)
		}
	}
	// samples: one chunk read edge on a proper prefix and one frame prefix
	var s1, s2 bool
	for i := range edges {
		ed := &edges[i]
		if !s1 && ed.P == "chunk" && ed.Act.Op == "Read" && ed.Cells < ed.Total && len(ed.R) >= 2 && ed.Act.St == "err" {
			rep.Sample(map[string]any{"chunk_edge": fmt.Sprintf("writes=%v chunks=%v cut=%dB+%dunits split=%d reads=%v Read(%d units) -> predicted %s", ed.W, ed.Ch, ed.CutB.H, ed.CutB.D, ed.M, ed.R, ed.Act.K, ed.Act.St)})
			s1 = true
		}
		if !s2 && ed.P == "frame" && !ed.Hostile && ed.Cut < ed.Len && ed.Cut > 20 {
			rep.Sample(map[string]any{"frame_edge": fmt.Sprintf("value=%s wire_len=%d cut=%d split=%d -> predicted %s", ed.V, ed.Len, ed.Cut, ed.M, ed.Res.Err)})
			s2 = true
		}
	}
}

func (e *env) replayEdge(ed *edge) {
	switch ed.P {
	case "chunk":
		e.chunkEdge(ed)
	case "frame":
		e.frameEdge(ed)
	case "posmap":
		e.posEdge(ed)
	case "rfa":
		e.rfaEdge(ed)
	case "stream":
		e.streamEdge(ed, nil)
	default:
		core.Infra("unknown edge kind %q", ed.P)
	}
}

func replayFile(rep *core.Report, args *core.Args, path string) {
	b, err := os.ReadFile(path)
	if err != nil {
		core.Infra("read replay: %v", err)
	}
	var f struct {
		Seed   *int64 `json:"seed"`
		Replay struct {
			Kind   string          `json:"kind"`
			Edge   *edge           `json:"edge"`
			Rand   json.RawMessage `json:"rand"`
			Before [][]sop         `json:"before"`
		} `json:"replay"`
	}
	if err := json.Unmarshal(b, &f); err != nil {
		core.Infra("parse replay: %v", err)
	}
	if f.Seed != nil && *f.Seed != args.Seed {
		args.Seed = *f.Seed // contents are concretised from the seed of the recorded run
		initPayload(args.Seed)
	}
	e := &env{rep: rep, args: args, s: newSlot()}
	switch f.Replay.Kind {
	case "edge":
		if f.Replay.Edge == nil {
			core.Infra("replay file has no edge")
		}
		replayOf.Store(e.s, map[string]any{"kind": "edge", "edge": f.Replay.Edge})
		verbose = true
		if f.Replay.Edge.P == "stream" {
			e.streamEdge(f.Replay.Edge, f.Replay.Before)
		} else {
			e.replayEdge(f.Replay.Edge)
		}
	case "rand":
		verbose = true
		e.replayRand(f.Replay.Rand)
	default:
		core.Infra("replay file of unknown kind %q", f.Replay.Kind)
	}
}

var verbose bool

func vlog(format string, a ...any) {
	if verbose {
		fmt.Printf(format+"\n", a...)
	}
}
