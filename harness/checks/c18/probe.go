package main

import (
	"bytes"
	"encoding/binary"
	"encoding/json"
	"fmt"
	"os"
	"os/exec"
	"runtime"
	"strconv"
	"strings"
	"time"

	"github.com/superfly/litefs"
	lfshttp "github.com/superfly/litefs/http"
	"github.com/superfly/litefs/verifharness/core"
)

// Smoke probe for the clause "memory use out of proportion to the bytes actually received".
// Resource use is not protocol state, so this is outside the TLA+ technique; the probe only
// measures, in a child process under `ulimit -v`, how many bytes a decoder allocates after it has
// received a handful of bytes that end in a large length prefix.  The measurement (Go's TotalAlloc
// around the call) is deterministic, so a disproportion is reported through the usual monitor path
// and matched against the known findings.

type probeOut struct {
	Kind       string `json:"kind"`
	Received   int    `json:"received_bytes"`
	Prefix     uint32 `json:"length_prefix"`
	AllocDelta uint64 `json:"allocated_bytes"`
	SysDelta   uint64 `json:"sys_delta_bytes"`
	Err        string `json:"err"`
	Panic      string `json:"panic,omitempty"`
}

func probeChild(spec string) {
	kind, arg, _ := strings.Cut(spec, ":")
	n64, _ := strconv.ParseUint(arg, 10, 32)
	n := uint32(n64)
	var b bytes.Buffer
	put32 := func(x uint32) { var t [4]byte; binary.BigEndian.PutUint32(t[:], x); b.Write(t[:]) }
	switch kind {
	case "frame-name": // DropDB frame: tag, name length, no body
		put32(4)
		put32(n)
	case "posmap-count": // count, nothing else
		put32(n)
	case "posmap-name": // one entry announced, name length, no body
		put32(1)
		put32(n)
	default:
		fmt.Println(`{"err":"unknown probe"}`)
		os.Exit(3)
	}
	in := b.Bytes()
	var m0, m1 runtime.MemStats
	runtime.GC()
	runtime.ReadMemStats(&m0)
	var err error
	p := core.Try(func() {
		if kind == "frame-name" {
			_, err = litefs.ReadStreamFrame(bytes.NewReader(in))
		} else {
			_, err = lfshttp.ReadPosMapFrom(bytes.NewReader(in))
		}
	})
	runtime.ReadMemStats(&m1)
	out := probeOut{Kind: kind, Received: len(in), Prefix: n, AllocDelta: m1.TotalAlloc - m0.TotalAlloc, SysDelta: m1.Sys - m0.Sys, Err: errStr(err)}
	if p != nil {
		out.Panic = p.Value
	}
	j, _ := json.Marshal(out)
	fmt.Println(string(j))
}

func hostileProbe(rep *core.Report, args *core.Args) {
	exe, err := os.Executable()
	if err != nil {
		rep.Note("hostile-length probe skipped: %v", err)
		return
	}
	if _, err := exec.LookPath("sh"); err != nil {
		rep.Note("hostile-length probe skipped: no sh")
		return
	}
	type pr struct {
		kind    string
		n       uint32
		limitKB int // ulimit -v
		site    string
	}
	probes := []pr{
		{"frame-name", 1 << 30, 6 << 20, "client.go: make([]byte, nameN) in LTX/DropDB/Handoff/HWM ReadFrom"},
		{"posmap-name", 1 << 30, 6 << 20, "http/http.go: make([]byte, nameN) in ReadPosMapFrom"},
		{"posmap-count", 1 << 24, 6 << 20, "http/http.go: make(map[string]ltx.Pos, n) in ReadPosMapFrom"},
		{"frame-name", 0xFFFFFFF0, 3 << 20, "client.go: make([]byte, nameN), 4 GiB announced, address space limited to 3 GiB"},
	}
	var results []any
	for _, p := range probes {
		core.Beat("probe")
		cmd := exec.Command("sh", "-c", fmt.Sprintf(`ulimit -v %d 2>/dev/null; exec "$0"`, p.limitKB), exe)
		cmd.Env = append(os.Environ(), fmt.Sprintf("C18_PROBE=%s:%d", p.kind, p.n), "GOMAXPROCS=2", "GOGC=off")
		var so, se bytes.Buffer
		cmd.Stdout, cmd.Stderr = &so, &se
		done := make(chan error, 1)
		start := time.Now()
		if err := cmd.Start(); err != nil {
			rep.Note("hostile-length probe %s could not start: %v", p.kind, err)
			continue
		}
		go func() { done <- cmd.Wait() }()
		var werr error
		select {
		case werr = <-done:
		case <-time.After(60 * time.Second):
			_ = cmd.Process.Kill()
			<-done
			rep.Note("hostile-length probe %s:%d killed after 60 s (evidence only)", p.kind, p.n)
			continue
		}
		core.Beat("harness")
		var out probeOut
		res := map[string]any{"probe": fmt.Sprintf("%s:%d", p.kind, p.n), "site": p.site, "ulimit_v_kb": p.limitKB, "wall_s": time.Since(start).Seconds()}
		if jerr := json.Unmarshal(bytes.TrimSpace(so.Bytes()), &out); werr != nil || jerr != nil {
			tail := se.String()
			if len(tail) > 300 {
				tail = tail[:300]
			}
			res["child_died"] = fmt.Sprintf("%v", werr)
			res["stderr"] = tail
			results = append(results, res)
			if strings.Contains(tail, "out of memory") || strings.Contains(tail, "cannot allocate") {
				rep.Eval(1)
				rep.Violate("C18.memory-proportional", "alloc-before-read/"+p.kind, map[string]any{"probe": res, "what": "the decoder process died with 'out of memory' after receiving 8 bytes whose length prefix announces " + strconv.FormatUint(uint64(p.n), 10) + " bytes"}, map[string]any{"kind": "probe", "probe": res["probe"]})
			}
			continue
		}
		res["result"] = out
		results = append(results, res)
		rep.Eval(1)
		if bound := uint64(1<<20 + 64*out.Received); out.AllocDelta > bound {
			rep.Violate("C18.memory-proportional", "alloc-before-read/"+p.kind, map[string]any{"probe": res, "bound_bytes": bound, "what": fmt.Sprintf("%d bytes allocated after %d bytes were received", out.AllocDelta, out.Received)}, map[string]any{"kind": "probe", "probe": res["probe"]})
		}
	}
	rep.Extra["hostile_length_probe"] = map[string]any{"note": "smoke probe outside the TLA+ technique: child process under ulimit -v (3-6 GiB), Go TotalAlloc measured around the decoder call", "results": results}
}
