package main

import (
	"bytes"
	"encoding/binary"
	"encoding/json"
	"fmt"
	"math/rand"
	"runtime"
	"sync"

	"github.com/superfly/litefs"
	lfshttp "github.com/superfly/litefs/http"
	"github.com/superfly/litefs/verifharness/core"
	"github.com/superfly/ltx"
)

// The random part: sizes around the chunk limit, random chunkings / splits / contents, and
// structured garbage.  Every case is regenerated from (VERIF_SEED, family, case seed).

type randCase struct {
	Fam      string `json:"fam"`
	CaseSeed int64  `json:"case_seed"`
}

func randomPart(rep *core.Report, args *core.Args) {
	fams := []struct {
		name string
		n    int
	}{
		{"chunk", core.Pick(args, 150, 1500)},
		{"frame", core.Pick(args, 400, 4000)},
		{"posmap", core.Pick(args, 300, 3000)},
		{"rfa", core.Pick(args, 400, 4000)},
		{"garbage-chunk", core.Pick(args, 3000, 30000)},
		{"garbage-frame", core.Pick(args, 3000, 30000)},
		{"garbage-posmap", core.Pick(args, 2000, 20000)},
	}
	workers := runtime.NumCPU() / 2
	if workers < 2 {
		workers = 2
	}
	if workers > 8 {
		workers = 8
	}
	jobs := make(chan randCase, 64)
	var wg sync.WaitGroup
	for w := 0; w < workers; w++ {
		wg.Add(1)
		go func() {
			defer wg.Done()
			e := &env{rep: rep, args: args, s: newSlot()}
			n := 0
			for c := range jobs {
				replayOf.Store(e.s, map[string]any{"kind": "rand", "rand": c})
				e.runRand(c)
				if n++; n%16 == 0 {
					core.Beat("harness")
				}
			}
		}()
	}
	total := map[string]int{}
	for fi, f := range fams {
		for i := 0; i < f.n; i++ {
			jobs <- randCase{Fam: f.name, CaseSeed: args.Seed*1000003 + int64(fi)*100003 + int64(i)}
		}
		total[f.name] = f.n
	}
	close(jobs)
	wg.Wait()
	core.Beat("harness")
	rep.Extra["random_cases"] = total
}

func (e *env) replayRand(raw json.RawMessage) {
	var c randCase
	if err := json.Unmarshal(raw, &c); err != nil {
		core.Infra("parse random replay: %v", err)
	}
	replayOf.Store(e.s, map[string]any{"kind": "rand", "rand": c})
	e.runRand(c)
}

func (e *env) runRand(c randCase) {
	rnd := rand.New(rand.NewSource(c.CaseSeed))
	rp := map[string]any{"kind": "rand", "rand": c}
	switch c.Fam {
	case "chunk":
		e.randChunk(rnd, c, rp)
	case "frame":
		e.randFrame(rnd, c, rp)
	case "posmap":
		e.randPos(rnd, c, rp)
	case "rfa":
		e.randRFA(rnd, c, rp)
	case "garbage-chunk":
		e.garbageChunk(rnd, c, rp)
	case "garbage-frame":
		e.garbageFrame(rnd, c, rp)
	case "garbage-posmap":
		e.garbagePos(rnd, c, rp)
	default:
		core.Infra("unknown random family %q", c.Fam)
	}
}

func pick(rnd *rand.Rand, xs ...int) int { return xs[rnd.Intn(len(xs))] }

func randSplit(rnd *rand.Rand, big bool) []int {
	if rnd.Intn(5) == 0 {
		return nil
	}
	n := 1 + rnd.Intn(4)
	out := make([]int, n)
	for i := range out {
		if big {
			out[i] = pick(rnd, 1, 2, 3, 7, 4099, 21845, 65534, 65535, 65536, 0, 1+rnd.Intn(70000))
		} else {
			out[i] = pick(rnd, 1, 1, 2, 3, 5, 8, 0, 1+rnd.Intn(64))
		}
	}
	if big && n == 1 && out[0] > 0 && out[0] < 8 && rnd.Intn(4) != 0 {
		out = append(out, 4099) // keep pure 1..7 byte transports on large streams rare (time)
	}
	return out
}

func randReads(rnd *rand.Rand) []int {
	n := 1 + rnd.Intn(3)
	out := make([]int, n)
	for i := range out {
		out[i] = pick(rnd, 1, 7, 512, 4096, 32768, 65534, 65535, 65536, 70000, 200000, 1+rnd.Intn(100000))
	}
	if n == 1 && out[0] < 512 && rnd.Intn(3) != 0 {
		out = append(out, 32768)
	}
	return out
}

func (e *env) randChunk(rnd *rand.Rand, c randCase, rp any) {
	size := pick(rnd, 0, 1, 2, 65533, 65534, 65535, 65536, 65537, 131069, 131070, 131071, 131072, 196605, 196606, rnd.Intn(200000), 65535+rnd.Intn(3)-1, 131070+rnd.Intn(3)-1)
	o := rnd.Intn(len(payload) - size + 1)
	data := payload[o : o+size]
	var writes []int
	for left := size; left > 0; {
		n := pick(rnd, 0, 1, 2, 65534, 65535, 65536, 65537, 131070, 131071, left, left, 1+rnd.Intn(70000))
		if n > left {
			n = left
		}
		writes = append(writes, n)
		left -= n
	}
	if rnd.Intn(3) == 0 {
		writes = append(writes, 0)
	}
	wire, ok := e.writeChunked(data, writes, true, rp)
	if !ok {
		return
	}
	e.rep.Case(fmt.Sprintf("rand|chunk|%d", c.CaseSeed), true)
	// conformance of the writer with an independent walk of its output
	dec, complete, _ := walkChunks(wire)
	if !complete || !bytes.Equal(dec, data) {
		e.rep.Nonconf("chunk.Writer: writes %v: the output is not a well-formed chunk stream of the payload", writes)
	}
	vlog("payload %d bytes, writes %v, stream %d bytes", size, writes, len(wire))
	// complete stream, several splits
	for i := 0; i < 3; i++ {
		s := e.newChunkSession(data, wire, len(wire), randSplit(rnd, true), rnd.Intn(2) == 0, rp)
		s.drain(randReads(rnd))
		if s.dead {
			return
		}
		if s.delivered != len(data) {
			e.violate("roundtrip", "chunk/short-read-back", map[string]any{"payload_bytes": len(data), "delivered": s.delivered, "writes": writes}, rp)
			return
		}
	}
	// proper prefixes: around every chunk header, the ends, and random offsets
	cuts := map[int]bool{0: true, len(wire) - 1: true, len(wire) - 2: true, len(wire) - 3: true}
	for off := 0; off+2 <= len(wire); {
		sz := int(binary.BigEndian.Uint16(wire[off:]))
		for _, d := range []int{-1, 0, 1, 2, 3} {
			cuts[off+d] = true
		}
		if sz == 0 {
			break
		}
		cuts[off+2+sz/2] = true
		off += 2 + sz
	}
	for i := 0; i < 6; i++ {
		cuts[rnd.Intn(len(wire))] = true
	}
	for cut := range cuts {
		if cut < 0 || cut >= len(wire) {
			continue
		}
		s := e.newChunkSession(data, wire, cut, randSplit(rnd, true), rnd.Intn(2) == 0, rp)
		s.drain(randReads(rnd))
		if s.dead && verbose {
			vlog("prefix of %d bytes (%s): violation recorded", cut, cutClass(wire, cut))
		}
	}
}

// walkChunks decodes a chunk stream independently of litefs: the data of all complete chunks, whether
// the end marker was reached, and the offset just after it.
func walkChunks(b []byte) (data []byte, complete bool, end int) {
	off := 0
	for {
		if off+2 > len(b) {
			return data, false, off
		}
		sz := int(binary.BigEndian.Uint16(b[off:]))
		if sz == 0 {
			return data, true, off + 2
		}
		if off+2+sz > len(b) {
			return data, false, off
		}
		data = append(data, b[off+2:off+2+sz]...)
		off += 2 + sz
	}
}

// garbageChunk feeds arbitrary bytes (random, or a valid stream with flipped / dropped / added bytes)
// to chunk.Reader.  What a correct reader may do is decided by the independent walk: a clean end only
// if the end marker is reached, with exactly the data of the chunks before it.
func (e *env) garbageChunk(rnd *rand.Rand, c randCase, rp any) {
	var b []byte
	switch rnd.Intn(3) {
	case 0:
		b = make([]byte, rnd.Intn(300))
		rnd.Read(b)
		if len(b) >= 2 && rnd.Intn(2) == 0 {
			b[0] = 0 // small first chunk so that something is decoded
		}
	default:
		size := pick(rnd, 0, 1, 5, 300, 65535, 65536, rnd.Intn(70000))
		var ch []int
		for left := size; left > 0; {
			n := 1 + rnd.Intn(65535)
			if n > left {
				n = left
			}
			ch = append(ch, n)
			left -= n
		}
		ch = append(ch, 0)
		b = wireOf(ch, payload[:size])
		for k := rnd.Intn(3); k > 0 && len(b) > 0; k-- {
			switch rnd.Intn(3) {
			case 0:
				b[rnd.Intn(min(len(b), 8))] ^= byte(1 << rnd.Intn(8))
			case 1:
				b = b[:rnd.Intn(len(b)+1)]
			case 2:
				x := make([]byte, rnd.Intn(6))
				rnd.Read(x)
				b = append(b, x...)
			}
		}
	}
	data, complete, end := walkChunks(b)
	// build the well-formed stream of which b is (a prefix of | equal to) so that the clauses apply
	var wire []byte
	cut := len(b)
	if complete {
		wire, cut = b[:end], end
	} else {
		wire = append([]byte{}, b...)
		rest := b[end:]
		switch {
		case len(rest) == 0:
		case len(rest) == 1:
			if rest[0] == 0 {
				wire = append(wire, 1, 0xAA)
				data = append(data, 0xAA)
			} else {
				pad := make([]byte, 1+int(rest[0])<<8)
				wire = append(wire, pad...)
				data = append(data, pad[1:]...)
			}
		default:
			sz := int(binary.BigEndian.Uint16(rest))
			pad := make([]byte, sz-(len(rest)-2))
			data = append(data, rest[2:]...)
			data = append(data, pad...)
			wire = append(wire, pad...)
		}
		wire = append(wire, 0, 0)
	}
	e.rep.Case(fmt.Sprintf("rand|garbage-chunk|%d", c.CaseSeed), true)
	vlog("garbage chunk stream of %d bytes: independent walk complete=%v data=%d bytes, cut class %s", len(b), complete, len(data), cutClass(wire, cut))
	s := e.newChunkSession(data, wire, cut, randSplit(rnd, len(b) > 4096), rnd.Intn(2) == 0, rp)
	s.drain(randReads(rnd))
}

func randName(rnd *rand.Rand, big bool) string {
	n := pick(rnd, 0, 1, 2, 255, 256, rnd.Intn(300))
	if big {
		n = pick(rnd, 0, 1, 2, 255, 256, 65535, 65536, 70000, rnd.Intn(80000), rnd.Intn(300))
	}
	o := rnd.Intn(len(payload) - n)
	return string(payload[o : o+n])
}

func randU64(rnd *rand.Rand) uint64 {
	switch rnd.Intn(4) {
	case 0:
		return u64Of([]string{"zero", "one", "maxu64", "maxi64", "neg"}[rnd.Intn(5)])
	case 1:
		return uint64(rnd.Intn(1 << 16))
	}
	return rnd.Uint64()
}

func randFrameVal(rnd *rand.Rand, big bool) (litefs.StreamFrame, string) {
	switch 1 + rnd.Intn(7) {
	case 1:
		return &litefs.LTXStreamFrame{Size: int64(randU64(rnd)), Name: randName(rnd, big)}, "LTX"
	case 2:
		return &litefs.ReadyStreamFrame{}, "Ready"
	case 3:
		return &litefs.EndStreamFrame{}, "End"
	case 4:
		return &litefs.DropDBStreamFrame{Name: randName(rnd, big)}, "DropDB"
	case 5:
		return &litefs.HandoffStreamFrame{LeaseID: randName(rnd, big)}, "Handoff"
	case 6:
		return &litefs.HWMStreamFrame{TXID: ltx.TXID(randU64(rnd)), Name: randName(rnd, big)}, "HWM"
	}
	return &litefs.HeartbeatStreamFrame{Timestamp: int64(randU64(rnd))}, "Heartbeat"
}

func (e *env) randFrame(rnd *rand.Rand, c randCase, rp any) {
	f, tname := randFrameVal(rnd, true)
	var buf bytes.Buffer
	var werr error
	if p := e.s.real("WriteStreamFrame", func() { werr = litefs.WriteStreamFrame(&buf, f) }); p != nil {
		e.violate("no-panic", "panic/WriteStreamFrame/"+tname, map[string]any{"panic": p}, rp)
		return
	}
	if werr != nil {
		e.violate("roundtrip", "frame/write-failed/"+tname, map[string]any{"err": errStr(werr)}, rp)
		return
	}
	wire := buf.Bytes()
	e.rep.Case(fmt.Sprintf("rand|frame|%d", c.CaseSeed), true)
	for i := 0; i < 2; i++ {
		e.checkFrameRead(wire, len(wire), true, f, randSplit(rnd, len(wire) > 4096), rnd.Intn(2) == 0, tname, "end", false, "", rp)
	}
	cuts := map[int]bool{}
	for i := 0; i < 24 && i < len(wire); i++ {
		cuts[i] = true
	}
	for i := 0; i < 8 && len(wire) > 0; i++ {
		cuts[rnd.Intn(len(wire))] = true
	}
	cuts[len(wire)-1] = true
	for cut := range cuts {
		if cut < 0 || cut >= len(wire) {
			continue
		}
		e.checkFrameRead(wire, cut, false, nil, randSplit(rnd, len(wire) > 4096), rnd.Intn(2) == 0, tname, byteClass(cut, len(wire)), false, "", rp)
	}
}

func byteClass(cut, n int) string {
	switch {
	case cut == 0:
		return "empty"
	case cut < 4:
		return "inside-tag"
	case cut == n-1:
		return "last-byte-missing"
	}
	return "inside-fields"
}

func (e *env) randPos(rnd *rand.Rand, c randCase, rp any) {
	m := map[string]ltx.Pos{}
	for n := rnd.Intn(9); n > 0; n-- {
		m[randName(rnd, rnd.Intn(20) == 0)] = ltx.Pos{TXID: ltx.TXID(randU64(rnd)), PostApplyChecksum: ltx.Checksum(randU64(rnd))}
	}
	var buf bytes.Buffer
	var werr error
	if p := e.s.real("WritePosMapTo", func() { werr = lfshttp.WritePosMapTo(&buf, m) }); p != nil {
		e.violate("no-panic", "panic/WritePosMapTo", map[string]any{"panic": p}, rp)
		return
	}
	if werr != nil {
		e.violate("roundtrip", "posmap/write-failed", map[string]any{"err": errStr(werr)}, rp)
		return
	}
	wire := buf.Bytes()
	e.rep.Case(fmt.Sprintf("rand|posmap|%d", c.CaseSeed), true)
	for i := 0; i < 2; i++ {
		e.checkPosRead(wire, len(wire), true, m, randSplit(rnd, len(wire) > 4096), rnd.Intn(2) == 0, "end", false, "", len(m), rp)
	}
	cuts := map[int]bool{len(wire) - 1: true}
	for i := 0; i < 48 && i < len(wire); i++ {
		cuts[i] = true
	}
	for i := 0; i < 16; i++ {
		cuts[rnd.Intn(len(wire))] = true
	}
	for cut := range cuts {
		if cut < 0 || cut >= len(wire) {
			continue
		}
		e.checkPosRead(wire, cut, false, nil, randSplit(rnd, len(wire) > 4096), rnd.Intn(2) == 0, "inside-byte", false, "", len(m), rp)
	}
}

func (e *env) randRFA(rnd *rand.Rand, c randCase, rp any) {
	L := pick(rnd, 0, 1, 2, 100, 4096, 65536, rnd.Intn(5000))
	off := pick(rnd, 0, 0, 1, L, L+1, L-1, rnd.Intn(L+2))
	if off < 0 {
		off = 0
	}
	N := pick(rnd, 0, 1, 2, 32, 4096, L, L+1, rnd.Intn(L+10))
	var sizes []int
	if rnd.Intn(4) != 0 {
		sizes = randSplit(rnd, false)
	}
	e.rep.Case(fmt.Sprintf("rand|rfa|%d", c.CaseSeed), true)
	e.checkRFA(payload[:L], off, N, sizes, rnd.Intn(2) == 0, "", 0, rp)
}

// garbageFrame: a type tag (valid, invalid, random) followed by random bytes in which the length
// prefix of the frame's string is bounded by 128 KiB (larger hostile lengths only in the child probe),
// and a body that is shorter than, equal to or longer than that length; sometimes cut at a random
// byte.  The oracle is an independent decoder (indepFrame).
func (e *env) garbageFrame(rnd *rand.Rand, c randCase, rp any) {
	var b bytes.Buffer
	put32 := func(x uint32) { var t [4]byte; binary.BigEndian.PutUint32(t[:], x); b.Write(t[:]) }
	put64 := func(x uint64) { var t [8]byte; binary.BigEndian.PutUint64(t[:], x); b.Write(t[:]) }
	tag := uint32(rnd.Intn(10))
	if rnd.Intn(10) == 0 {
		tag = rnd.Uint32()
	}
	put32(tag)
	str := func() {
		L := pick(rnd, 0, 1, 2, 255, 65535, 65536, 70000, 131071, rnd.Intn(300))
		put32(uint32(L))
		B := pick(rnd, 0, L, L, L+rnd.Intn(5), rnd.Intn(L+1), L-1)
		if B < 0 {
			B = 0
		}
		b.Write(payload[1000 : 1000+B])
	}
	switch tag {
	case 1, 6:
		put64(randU64(rnd))
		str()
	case 4, 5:
		str()
	case 7:
		put64(randU64(rnd))
	case 2, 3:
	default:
		x := make([]byte, rnd.Intn(12))
		rnd.Read(x)
		b.Write(x)
	}
	wire := b.Bytes()
	if rnd.Intn(3) == 0 && len(wire) > 0 {
		wire = wire[:rnd.Intn(len(wire))]
	}
	want, okWant := indepFrame(wire)
	tname := frameTypeName[int(tag)]
	if tname == "" {
		tname = "invalid-tag"
	}
	e.rep.Case(fmt.Sprintf("rand|garbage-frame|%d", c.CaseSeed), true)
	where := "garbage"
	if len(wire) == 0 {
		where = "empty"
	}
	e.checkFrameRead(wire, len(wire), okWant, want, randSplit(rnd, len(wire) > 4096), rnd.Intn(2) == 0, tname, where, !okWant, "", rp)
}

// indepFrame decodes one frame from b independently of litefs (trailing bytes are not its concern).
func indepFrame(b []byte) (litefs.StreamFrame, bool) {
	off := 0
	u32 := func() (uint32, bool) {
		if off+4 > len(b) {
			return 0, false
		}
		off += 4
		return binary.BigEndian.Uint32(b[off-4:]), true
	}
	u64 := func() (uint64, bool) {
		if off+8 > len(b) {
			return 0, false
		}
		off += 8
		return binary.BigEndian.Uint64(b[off-8:]), true
	}
	str := func() (string, bool) {
		n, ok := u32()
		if !ok || off+int(n) > len(b) {
			return "", false
		}
		off += int(n)
		return string(b[off-int(n) : off]), true
	}
	tag, ok := u32()
	if !ok {
		return nil, false
	}
	switch tag {
	case 1:
		x, ok1 := u64()
		s, ok2 := str()
		return &litefs.LTXStreamFrame{Size: int64(x), Name: s}, ok1 && ok2
	case 2:
		return &litefs.ReadyStreamFrame{}, true
	case 3:
		return &litefs.EndStreamFrame{}, true
	case 4:
		s, ok := str()
		return &litefs.DropDBStreamFrame{Name: s}, ok
	case 5:
		s, ok := str()
		return &litefs.HandoffStreamFrame{LeaseID: s}, ok
	case 6:
		x, ok1 := u64()
		s, ok2 := str()
		return &litefs.HWMStreamFrame{TXID: ltx.TXID(x), Name: s}, ok1 && ok2
	case 7:
		x, ok := u64()
		return &litefs.HeartbeatStreamFrame{Timestamp: int64(x)}, ok
	}
	return nil, false
}

// garbagePos: a count (possibly larger than what follows, bounded by 300) and entries whose name
// length is bounded by 80000 and which may repeat a name; sometimes cut at a random byte.  The
// oracle is an independent decoder (indepPos).
func (e *env) garbagePos(rnd *rand.Rand, c randCase, rp any) {
	var b bytes.Buffer
	put32 := func(x uint32) { var t [4]byte; binary.BigEndian.PutUint32(t[:], x); b.Write(t[:]) }
	put64 := func(x uint64) { var t [8]byte; binary.BigEndian.PutUint64(t[:], x); b.Write(t[:]) }
	have := rnd.Intn(6)
	count := pick(rnd, have, have, have, have+1, have+rnd.Intn(300), 0)
	put32(uint32(count))
	var names []string
	for i := 0; i < have; i++ {
		name := randName(rnd, rnd.Intn(30) == 0)
		if rnd.Intn(8) == 0 && len(names) > 0 {
			name = names[rnd.Intn(len(names))]
		}
		names = append(names, name)
		put32(uint32(len(name)))
		b.WriteString(name)
		put64(randU64(rnd))
		put64(randU64(rnd))
	}
	wire := b.Bytes()
	if rnd.Intn(3) == 0 {
		wire = wire[:rnd.Intn(len(wire))]
	}
	want, okWant := indepPos(wire)
	e.rep.Case(fmt.Sprintf("rand|garbage-posmap|%d", c.CaseSeed), true)
	e.checkPosRead(wire, len(wire), okWant, want, randSplit(rnd, len(wire) > 4096), rnd.Intn(2) == 0, "garbage", !okWant, "", len(want), rp)
}

// indepPos decodes a position map independently of litefs (a repeated name keeps the later entry).
func indepPos(b []byte) (map[string]ltx.Pos, bool) {
	if len(b) < 4 {
		return nil, false
	}
	count := int(binary.BigEndian.Uint32(b))
	m := map[string]ltx.Pos{}
	off := 4
	for i := 0; i < count; i++ {
		if off+4 > len(b) {
			return nil, false
		}
		l := int(binary.BigEndian.Uint32(b[off:]))
		if off+4+l+16 > len(b) {
			return nil, false
		}
		name := string(b[off+4 : off+4+l])
		m[name] = ltx.Pos{TXID: ltx.TXID(binary.BigEndian.Uint64(b[off+4+l:])), PostApplyChecksum: ltx.Checksum(binary.BigEndian.Uint64(b[off+4+l+8:]))}
		off += 4 + l + 16
	}
	return m, true
}
