package main

import (
	"bytes"
	"encoding/binary"
	"fmt"
	"io"
	"math/rand"

	"github.com/superfly/litefs/internal/chunk"
)

var payload []byte // seeded random bytes, shared read-only

func initPayload(seed int64) {
	rnd := rand.New(rand.NewSource(seed*7919 + 18))
	payload = make([]byte, 9*unit+70000)
	rnd.Read(payload)
	// make sure every byte value occurs in the first unit
	for i := 0; i < 256; i++ {
		payload[i*3] = byte(i)
	}
}

// wireOf is the harness's own encoder of the chunk format (from the model's chunk list, in bytes).
func wireOf(chunksBytes []int, data []byte) []byte {
	var b bytes.Buffer
	off := 0
	for _, c := range chunksBytes {
		var h [2]byte
		binary.BigEndian.PutUint16(h[:], uint16(c))
		b.Write(h[:])
		b.Write(data[off : off+c])
		off += c
	}
	return b.Bytes()
}

// cutClass says, by an independent walk over a well-formed chunk stream, where a cut falls.
func cutClass(wire []byte, cut int) string {
	if cut >= len(wire) {
		return "complete"
	}
	if cut == 0 {
		return "empty"
	}
	off := 0
	for off < len(wire) {
		if cut == off {
			return "chunk-boundary"
		}
		if cut == off+1 {
			if len(wire) >= off+2 && binary.BigEndian.Uint16(wire[off:]) == 0 {
				return "mid-end-marker"
			}
			return "mid-size-header"
		}
		if off+2 > len(wire) {
			break
		}
		size := int(binary.BigEndian.Uint16(wire[off:]))
		if cut == off+2 {
			if size == 0 {
				return "after-end-marker" // only possible with trailing bytes
			}
			return "after-size-header"
		}
		if cut < off+2+size {
			return "mid-chunk-data"
		}
		if size == 0 {
			break
		}
		off += 2 + size
	}
	return "other"
}

// writeChunked drives the real chunk.Writer; returns the bytes it produced.
func (e *env) writeChunked(data []byte, writes []int, closeIt bool, rp any) ([]byte, bool) {
	var buf bytes.Buffer
	cw := chunk.NewWriter(&buf)
	off := 0
	for i, n := range writes {
		var wn int
		var werr error
		p := e.s.real("chunk.Writer.Write", func() { wn, werr = cw.Write(data[off : off+n]) })
		e.rep.Eval(1)
		if p != nil {
			e.violate("no-panic", "panic/chunk.Writer.Write", map[string]any{"panic": p, "write": i, "size": n}, rp)
			return nil, false
		}
		if werr != nil || wn != n {
			e.violate("roundtrip", "chunk/write-failed", map[string]any{"write": i, "size": n, "n": wn, "err": errStr(werr)}, rp)
			return nil, false
		}
		off += n
	}
	if closeIt {
		var cerr error
		p := e.s.real("chunk.Writer.Close", func() { cerr = cw.Close() })
		e.rep.Eval(1)
		if p != nil {
			e.violate("no-panic", "panic/chunk.Writer.Close", map[string]any{"panic": p}, rp)
			return nil, false
		}
		if cerr != nil {
			e.violate("roundtrip", "chunk/close-failed", map[string]any{"err": errStr(cerr)}, rp)
			return nil, false
		}
	}
	return buf.Bytes(), true
}

// chunkSession reads one (possibly truncated) chunk stream through the real chunk.Reader and
// evaluates the property's clauses on every Read.
type chunkSession struct {
	e         *env
	data      []byte // what was written
	wire      []byte // complete encoded stream
	cut       int    // bytes handed to the reader
	cr        *chunk.Reader
	delivered int
	buf       []byte
	rp        any
	dead      bool // a violation was recorded; stop
	what      string
}

func (e *env) newChunkSession(data, wire []byte, cut int, sizes []int, eofWithData bool, rp any) *chunkSession {
	tr := &splitReader{b: wire[:cut], sizes: sizes, eofWithData: eofWithData}
	return &chunkSession{e: e, data: data, wire: wire, cut: cut, cr: chunk.NewReader(tr), rp: rp}
}

// read performs one Read(k bytes) and checks, clause by clause:
//
//	identical value: bytes delivered equal the payload at the delivered offset, never more than written;
//	a clean end (io.EOF) only for the complete stream and only after the whole payload;
//	the complete stream never fails; never a panic.
func (s *chunkSession) read(k int) (n int, err error) {
	if cap(s.buf) < k {
		s.buf = make([]byte, k)
	}
	p := s.buf[:k]
	pn := s.e.s.real("chunk.Reader.Read", func() { n, err = s.cr.Read(p) })
	s.e.rep.Eval(4)
	complete := s.cut >= len(s.wire)
	class := cutClass(s.wire, s.cut)
	det := func(m map[string]any) map[string]any {
		m["payload_bytes"] = len(s.data)
		m["stream_bytes"] = len(s.wire)
		m["cut_bytes"] = s.cut
		m["cut_class"] = class
		m["delivered_before"] = s.delivered
		m["read_size"] = k
		m["returned_n"] = n
		m["returned_err"] = errStr(err)
		return m
	}
	if pn != nil {
		s.dead = true
		s.e.violate("no-panic", "panic/chunk.Reader.Read", det(map[string]any{"panic": pn}), s.rp)
		return 0, fmt.Errorf("panic")
	}
	if n < 0 || n > k {
		s.dead = true
		s.e.violate("roundtrip", "chunk/bad-count", det(map[string]any{}), s.rp)
		return n, err
	}
	if s.delivered+n > len(s.data) || !bytes.Equal(p[:n], s.data[s.delivered:s.delivered+n]) {
		s.dead = true
		s.e.violate("roundtrip", "chunk/different-bytes/"+class, det(map[string]any{"what": "bytes delivered differ from the bytes written at this offset"}), s.rp)
		return n, err
	}
	s.delivered += n
	switch {
	case err == io.EOF && !complete:
		s.dead = true
		s.e.violate("truncated-is-error", "chunk/clean-eof/"+class, det(map[string]any{"what": "chunk.Reader.Read reported a clean end (io.EOF) for a truncated stream; io.ReadAll/io.Copy return no error and short data"}), s.rp)
	case err == io.EOF && s.delivered != len(s.data):
		s.dead = true
		s.e.violate("roundtrip", "chunk/short-clean-eof", det(map[string]any{"what": "clean end of the complete stream before the whole payload was delivered"}), s.rp)
	case err != nil && err != io.EOF && complete:
		s.dead = true
		s.e.violate("roundtrip", "chunk/complete-stream-error", det(map[string]any{"what": "the complete stream was not read back"}), s.rp)
	}
	return n, err
}

// drain reads until an error; sizes of the consumer's buffers cycle through ks.
func (s *chunkSession) drain(ks []int) {
	idle := 0
	for i := 0; ; i++ {
		n, err := s.read(ks[i%len(ks)])
		if s.dead || err != nil {
			return
		}
		if n == 0 {
			idle++
			if idle > 64 {
				s.dead = true
				s.e.rep.Eval(1)
				s.e.violate("no-hang", "chunk/no-progress", map[string]any{"what": "64 consecutive Read calls returned (0, nil)", "cut_bytes": s.cut, "stream_bytes": len(s.wire)}, s.rp)
				return
			}
		} else {
			idle = 0
		}
	}
}

func (e *env) chunkEdge(ed *edge) {
	rp := map[string]any{"kind": "edge", "edge": ed}
	data := payload[:ed.Payload*unit]
	writes := make([]int, len(ed.W))
	for i, w := range ed.W {
		writes[i] = w * unit
	}
	chb := make([]int, len(ed.Ch))
	for i, c := range ed.Ch {
		chb[i] = c * unit
	}
	key := fmt.Sprintf("chunk|%v|%d|%d|%v|%s%d", ed.W, ed.Cells, ed.M, ed.R, ed.Act.Op, ed.Act.K)
	e.rep.Case(key, (ed.Act.Op == "Read" && (ed.Cells < ed.Total || len(ed.Ch) > 2)) || (ed.Act.Op == "Write" && ed.Act.K > 3))
	if ed.Act.Op == "Cut" {
		return // chooses the prefix and the split; no call into the code
	}
	wire, ok := e.writeChunked(data, writes, ed.Closed, rp)
	if !ok {
		return
	}
	want := wireOf(chb, data)
	conform := bytes.Equal(wire, want)
	if !conform {
		e.rep.Nonconf("chunk.Writer: writes=%v (units) produced %d bytes, the model's chunks %v give %d bytes (first difference at %d)", ed.W, len(wire), ed.Ch, len(want), firstDiff(wire, want))
	}
	if ed.Act.Op != "Read" {
		vlog("writes=%v -> %d bytes on the wire, conform=%v", ed.W, len(wire), conform)
		return
	}
	cut := ed.CutB.H + ed.CutB.D*unit
	if ed.Cells >= ed.Total || cut > len(wire) {
		if ed.Cells >= ed.Total {
			cut = len(wire)
		} else {
			cut = len(wire) - 1 // the model asked for a proper prefix
		}
	}
	s := e.newChunkSession(data, wire, cut, modelSplit(ed.M), false, rp)
	for _, k := range ed.R {
		n, err := s.read(k * unit)
		vlog("path Read(%d) -> n=%d err=%v", k*unit, n, err)
		if s.dead {
			return
		}
		if err != nil {
			e.rep.Nonconf("chunk.Reader: path of edge %s ended early with %v", key, err)
			return
		}
	}
	before := s.delivered
	n, err := s.read(ed.Act.K * unit)
	vlog("Read(%d) -> n=%d err=%v (cut %d of %d bytes, class %s, delivered before %d); model predicts n=%d %s", ed.Act.K*unit, n, err, cut, len(wire), cutClass(wire, cut), before, ed.Act.N*unit, ed.Act.St)
	if s.dead {
		return
	}
	if n == 0 && err == nil {
		s.drain([]int{ed.Act.K * unit}) // (0, nil): make sure this is not the start of an endless loop
		if s.dead {
			return
		}
	}
	// conformance with the model's prediction (R3, evidence only)
	got := "ok"
	if err == io.EOF {
		got = "eof"
	} else if err != nil {
		got = "err"
	}
	if conform && (got != ed.Act.St || n != ed.Act.N*unit) {
		e.rep.Nonconf("chunk.Reader: edge %s: model predicts n=%d %s, code returned n=%d %v", key, ed.Act.N*unit, ed.Act.St, n, err)
	}
}

func firstDiff(a, b []byte) int {
	n := len(a)
	if len(b) < n {
		n = len(b)
	}
	for i := 0; i < n; i++ {
		if a[i] != b[i] {
			return i
		}
	}
	return n
}
