package main

import (
	"bytes"
	"context"
	"fmt"
	"time"

	"github.com/superfly/litefs"
	lhttp "github.com/superfly/litefs/http"
	"github.com/superfly/litefs/verifharness/core"
	"github.com/superfly/litefs/verifharness/sim"
)

// commitDuringJoin: "every replica connected to the primary eventually reaches the primary's position of every
// database it replicates" includes transactions committed WHILE a replica receives its initial set of
// databases. Two databases large enough that the primary cannot push the whole initial set into the
// connection at once; the joining replica is put on hold in the middle of the initial set, the primary commits
// to the database the replica has already received and goes idle, then delivery continues. The connected
// replica must reach the primary's position of both databases.
func commitDuringJoin(rep *core.Report) {
	for _, ps := range []uint32{4096, 65536} {
		core.Beat("real:c01:commit-during-join")
		cl := sim.NewCluster(core.Scratch("c01-join"))
		cl.Lease.AllowOnly()
		p, err := cl.Start("p", sim.ClusterNodeOpts{Candidate: true})
		if err != nil {
			core.Infra("start p: %v", err)
		}
		if err := cl.Elect("p", 20*time.Second); err != nil {
			core.Infra("elect: %v", err)
		}
		l := sim.L0(ps)
		pages := int(12 << 20 / ps) // 12 MiB per database
		img := func(v int) []byte {
			var buf bytes.Buffer
			for r := uint32(1); r <= uint32(pages); r++ {
				if r == l.LockPgno() {
					buf.Write(make([]byte, ps))
					continue
				}
				b := l.PageBytes(r, sim.Content{V: v + int(r), Sz: 1})
				if r == 1 {
					b[28], b[29], b[30], b[31] = byte(pages>>24), byte(pages>>16), byte(pages>>8), byte(pages)
				}
				buf.Write(b)
			}
			return buf.Bytes()
		}
		names := []string{"a.db", "b.db"}
		for i, n := range names {
			if err := lhttp.NewClient().Import(context.Background(), p.URL, n, bytes.NewReader(img(1000*(i+1)))); err != nil {
				core.Infra("import %s: %v", n, err)
			}
		}
		// the replica receives the first 18 MiB of the initial set (one database and half of the other)
		r, err := cl.Start("r", sim.ClusterNodeOpts{Candidate: false, Configure: func(s *litefs.Store) {
			s.Client.(*sim.FaultClient).HoldAfter(18 << 20)
		}})
		if err != nil {
			core.Infra("start r: %v", err)
		}
		pos := func(n *sim.CNode, name string) string {
			if db := n.Store.DB(name); db != nil {
				return db.Pos().String()
			}
			return "-"
		}
		for t0 := time.Now(); r.Client.Delivered() < 18<<20 && time.Since(t0) < 60*time.Second; time.Sleep(time.Millisecond) {
		}
		time.Sleep(50 * time.Millisecond) // whatever has been delivered is applied
		got := ""
		for _, n := range names {
			if pos(r, n) == pos(p, n) {
				got = n
			}
		}
		rep.TracesValidated++
		rep.Case(fmt.Sprintf("commit-during-join/ps%d", ps), true)
		if r.Client.Delivered() < 18<<20 || got == "" || (pos(r, names[0]) == pos(p, names[0]) && pos(r, names[1]) == pos(p, names[1])) {
			rep.Nonconf("commit-during-join/ps%d: the replica is not in the middle of its initial set (delivered %d bytes, a: %s, b: %s)", ps, r.Client.Delivered(), pos(r, names[0]), pos(r, names[1]))
			r.Client.Resume()
			_ = core.Try(cl.Close)
			continue
		}
		// the primary commits to the database the replica already has, then stays idle
		small := img(5000)[:2*int(ps)]
		copy(small[28:32], []byte{0, 0, 0, 2})
		if err := lhttp.NewClient().Import(context.Background(), p.URL, got, bytes.NewReader(small)); err != nil {
			core.Infra("commit during the join: %v", err)
		}
		r.Client.Resume()
		rep.Eval(2)
		deadline := time.Now().Add(20 * time.Second)
		for time.Now().Before(deadline) && (pos(r, names[0]) != pos(p, names[0]) || pos(r, names[1]) != pos(p, names[1])) {
			time.Sleep(2 * time.Millisecond)
		}
		detail := map[string]any{"page_size": ps, "committed_during_the_join_on": got, "primary": map[string]string{"a.db": pos(p, "a.db"), "b.db": pos(p, "b.db")},
			"replica": map[string]string{"a.db": pos(r, "a.db"), "b.db": pos(r, "b.db")}, "bound": "20s on an idle primary"}
		_, info := r.Store.PrimaryInfo()
		detail["replica_connected"] = info != nil
		if pos(r, names[0]) != pos(p, names[0]) || pos(r, names[1]) != pos(p, names[1]) {
			rep.Violate("C01.connected-replica-reaches-primary", fmt.Sprintf("commit-during-join/never-reached/ps%d", ps), detail, map[string]any{"commit_during_join": ps})
		} else {
			for _, n := range names {
				a, _ := sim.StableDiskImage(p.DBDir(n), ps)
				b, _ := sim.StableDiskImage(r.DBDir(n), ps)
				if ok, why := a.Equal(b, l.LockPgno()); !ok {
					detail["difference"] = n + ": " + why
					rep.Violate("C01.byte-identical-at-equal-position", fmt.Sprintf("commit-during-join/differs/ps%d", ps), detail, nil)
				}
			}
		}
		_ = core.Try(cl.Close)
	}
	core.Beat("harness")
}
