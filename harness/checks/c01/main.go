// Check C01: a replica at position (TXID, checksum) is byte-identical to the primary there; convergence.
package main

import (
	"os"
	"time"

	"github.com/superfly/litefs/verifharness/core"
	"github.com/superfly/litefs/verifharness/faults"
	"github.com/superfly/litefs/verifharness/multidb"
	"github.com/superfly/litefs/verifharness/repl"
	"github.com/superfly/litefs/verifharness/t3"
)

func main() {
	t3.MaybeChild()
	args := core.ParseArgs()
	rep := core.NewReport("C01", "model_checking", args)
	rep.Rule = "control scripts (promote, demote, commit, drop, block, unblock, restart, retention sweep) of every distinct final state of Replication.tla executed on a real 3-node cluster (real stores, real h2c HTTP, goroutines free-running), plus the control scripts (orphan database on a replica, commit / drop per database, block, unblock, restart of a replica or of the primary, retention sweep per database) of MultiDB.tla executed on a cluster with three databases, a filtered and an unfiltered replica; a case = (script, concretisation); non-trivial = at least one position change was observed on a non-primary node"
	rep.Assumptions = []string{"kernel page cache simulated from the Invalidator contract", "3 nodes; Replication.tla stages: one database, 2 model pages mapped onto real pages that straddle checksum blocks", "CRC64 collisions ignored"}
	defer core.Cleanup()
	stages := []repl.Stage{
		{Name: "repl-3n-2tx-2faults", Cfg: "MC_Repl_quick.cfg", Timeout: 10 * time.Minute, MaxKeep: core.Pick(args, 60, 400)},
		{Name: "repl-liveness-2n-3tx-2faults", Cfg: "MC_Repl_live.cfg", Timeout: 10 * time.Minute, Live: true},
	}
	only := os.Getenv("VERIF_C01_ONLY") // development aid: "multidb" runs the multi-database stage alone
	if only == "multidb" {
		stages = nil
	}
	repl.Main(rep, args, map[string]bool{"C01": true}, stages)
	// several databases on one cluster + the replica-side database filter (MultiDB.tla)
	multidb.Stage(rep, args)
	commitDuringJoin(rep)
	shmWriteBack(rep)
	// failure paths on the replica (spec/Faults.tla): one call of the apply of a streamed file / a snapshot fails
	faults.Run(rep, args, faults.Select{Ops: []string{"replica_apply", "replica_snapshot", "role_change"}, Monitors: []string{"replica-image", "replica-mount"}})
	if only == "" {
		t3.Stage(rep, args, map[string]bool{"C01": true})
	}
	rep.Finish()
}
