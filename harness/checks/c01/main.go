// Check C01: a replica at position (TXID, checksum) is byte-identical to the primary there; convergence.
package main

import (
	"time"

	"github.com/superfly/litefs/verifharness/core"
	"github.com/superfly/litefs/verifharness/repl"
	"github.com/superfly/litefs/verifharness/t3"
)

func main() {
	t3.MaybeChild()
	args := core.ParseArgs()
	rep := core.NewReport("C01", "model_checking", args)
	rep.Rule = "control scripts (promote, demote, commit, drop, block, unblock, restart, retention sweep) of every distinct final state of Replication.tla executed on a real 3-node cluster (real stores, real h2c HTTP, goroutines free-running); a case = (script, concretisation); non-trivial = at least one position change was observed on a non-primary node"
	rep.Assumptions = []string{"kernel page cache simulated from the Invalidator contract", "3 nodes, one database, 2 model pages mapped onto real pages that straddle checksum blocks", "CRC64 collisions ignored"}
	defer core.Cleanup()
	repl.Main(rep, args, map[string]bool{"C01": true}, []repl.Stage{
		{Name: "repl-3n-2tx-2faults", Cfg: "MC_Repl_quick.cfg", Timeout: 10 * time.Minute, MaxKeep: core.Pick(args, 60, 400)},
		{Name: "repl-liveness-2n-3tx-2faults", Cfg: "MC_Repl_live.cfg", Timeout: 10 * time.Minute, Live: true},
	})
	t3.Stage(rep, args, map[string]bool{"C01": true})
	rep.Finish()
}
