package main

import (
	"encoding/binary"
	"fmt"
	"os"
	"path/filepath"
	"sync"
	"time"

	"github.com/superfly/litefs"
	"github.com/superfly/litefs/verifharness/core"
	"github.com/superfly/litefs/verifharness/sim"
)

// shmWriteBack: what an application on a replica sees of a WAL-mode database goes through the wal-index
// (-shm file) that LiteFS rewrites after every applied transaction. A client that has the first -shm page
// mapped and dirtied has it written back by the kernel when LiteFS invalidates the page cache - during the
// very update of the wal-index. The stale page must not win: after the apply the wal-index header describes
// the database at the replica's position (its page count is the committed size, no frames are declared).
func shmWriteBack(rep *core.Report) {
	core.Beat("real:c01:shm-write-back")
	cl := sim.NewCluster(core.Scratch("c01-shm"))
	defer func() { _ = core.Try(cl.Close) }()
	cl.Lease.AllowOnly()
	p, err := cl.Start("p", sim.ClusterNodeOpts{Candidate: true})
	if err != nil {
		core.Infra("start p: %v", err)
	}
	if err := cl.Elect("p", 20*time.Second); err != nil {
		core.Infra("elect: %v", err)
	}
	l := sim.L0(4096)
	pc := p.Connect("db", 31)
	pg := sim.NewPager(pc, l, sim.PagerOpts{Sector: 512, Busy: 5 * time.Second})
	run := func(fs ...func() error) {
		for _, f := range fs {
			if err := f(); err != nil {
				core.Infra("c01 shm stage: %v", err)
			}
		}
	}
	// TX1: a two-page database in WAL mode (journal transaction that sets the WAL flag)
	pl := sim.Plan{Kind: "j", Ns: 2, M: []int{1, 2}, Out: "commit", Fin: "DELETE", V: 1, Wal: true}
	run(func() error { return pg.BeginJ(pl) }, pg.JCreate, pg.JSync, func() error { return pg.JPage(1) }, func() error { return pg.JPage(2) }, pg.JFinal)
	pg.EndJ()
	r, err := cl.Start("r", sim.ClusterNodeOpts{Candidate: false})
	if err != nil {
		core.Infra("start r: %v", err)
	}
	if err := cl.WaitPos("r", "db", p.Store.DB("db").Pos(), 20*time.Second); err != nil {
		core.Infra("replica did not catch up: %v", err)
	}
	// a client on the replica with the -shm file open; what it has mapped is the current first page
	rc := r.Connect("db", 32)
	run(func() error { return rc.OpenDB(false) }, rc.OpenSHM)
	shmPath := filepath.Join(r.DBDir("db"), "shm")
	stale, _ := os.ReadFile(shmPath)
	if len(stale) > 32768 {
		stale = stale[:32768]
	}
	var once sync.Once
	wrote := false
	r.Cache.OnSHM = func(db *litefs.DB) {
		once.Do(func() {
			if len(stale) >= 136 {
				done := make(chan struct{})
				go func() { _ = rc.WriteSHM(0, stale); close(done) }() // the kernel's write-back of the dirty page
				<-done
				wrote = true
			}
		})
	}
	// TX2: a WAL transaction that grows the database to four pages
	pw := sim.Plan{Kind: "w", Ns: 4, M: []int{1, 3, 4}, Out: "commit", V: 2, Wal: true}
	run(func() error { return pg.BeginW(pw) }, func() error { return pg.WHdr(1) }, func() error { return pg.WFrame(1, false, false) },
		func() error { return pg.WFrame(3, false, false) }, func() error { return pg.WFrame(4, false, true) }, pg.WEnd)
	want := p.Store.DB("db").Pos()
	if err := cl.WaitPos("r", "db", want, 20*time.Second); err != nil {
		core.Infra("replica did not receive the WAL transaction: %v", err)
	}
	time.Sleep(20 * time.Millisecond)
	r.Cache.OnSHM = nil
	rep.Eval(2)
	rep.TracesValidated++
	rep.Case("shm-write-back-during-apply", true)
	hdr, _ := os.ReadFile(shmPath)
	detail := map[string]any{"replica_position": r.Store.DB("db").Pos().String(), "stale_page_written_back": wrote, "shm_bytes": len(hdr)}
	if !wrote {
		rep.Nonconf("shm write-back stage: the replica never invalidated its -shm pages (stale page: %d bytes)", len(stale))
		return
	}
	if len(hdr) < 48 {
		rep.Violate("C01.replica-view-is-the-primary-image", "shm-write-back/no-wal-index", detail, nil)
		return
	}
	bo := binary.LittleEndian // the wal-index is in native byte order
	nPage, mxFrame, isInit := bo.Uint32(hdr[20:]), bo.Uint32(hdr[16:]), hdr[12]
	detail["wal_index"] = fmt.Sprintf("isInit=%d mxFrame=%d nPage=%d", isInit, mxFrame, nPage)
	detail["committed_pages"] = r.Store.DB("db").PageN()
	if isInit != 0 && (nPage != r.Store.DB("db").PageN() || mxFrame != 0) {
		rep.Violate("C01.replica-view-is-the-primary-image", "shm-write-back/stale-wal-index-after-apply", detail, map[string]any{"shm_write_back": true})
	}
}
