// t3probe: development aid (not registered): runs real-SQLite workloads on a real mount and prints the result.
package main

import (
	"fmt"
	"os"
	"time"

	"github.com/superfly/litefs/verifharness/core"
	"github.com/superfly/litefs/verifharness/t3"
)

func main() {
	t3.MaybeChild()
	defer core.Cleanup()
	ok, why := t3.Available()
	fmt.Println("available:", ok, why)
	if !ok {
		os.Exit(0)
	}
	ws := []t3.Workload{
		{JournalMode: "delete", PageSize: 4096, CacheSize: 10, Steps: 25, Seed: 1},
		{JournalMode: "wal", PageSize: 4096, CacheSize: 10, Steps: 25, Seed: 2, Replica: true},
		{JournalMode: "truncate", PageSize: 512, CacheSize: 20, Steps: 25, Seed: 3, AutoVacuum: "incremental", Replica: true},
		{JournalMode: "persist", PageSize: 1024, CacheSize: 8, Steps: 25, Seed: 4, Compress: true},
		{JournalMode: "wal", PageSize: 512, CacheSize: 8, Steps: 30, Seed: 5, AutoVacuum: "incremental"},
		{JournalMode: "delete", PageSize: 4096, CacheSize: 10, Steps: 30, Seed: 6, ModeSwitch: true},
		{JournalMode: "delete", PageSize: 4096, CacheSize: 10, Steps: 30, Seed: 6, ModeSwitch: true, Replica: true},
	}
	ws = append(ws,
		t3.Workload{JournalMode: "persist", PageSize: 1024, CacheSize: 8, Steps: 40, Seed: 14, ModeSwitch: true, Replica: true},
		t3.Workload{JournalMode: "truncate", PageSize: 4096, CacheSize: 8, Steps: 40, Seed: 15, ModeSwitch: true, Replica: true},
		t3.Workload{JournalMode: "wal", PageSize: 4096, CacheSize: 8, Steps: 40, Seed: 16, ModeSwitch: true, Replica: true})
	ws = append(ws, t3.Workload{JournalMode: "delete", PageSize: 65536, CacheSize: 20, Seed: 21, LockPage: true},
		t3.Workload{JournalMode: "wal", PageSize: 65536, CacheSize: 20, Seed: 22, LockPage: true, Replica: true})
	ws = append(ws, t3.Workload{JournalMode: "delete", PageSize: 4096, CacheSize: 5000, Steps: 60, Seed: 31, AllocFree: true, Replica: true},
		t3.Workload{JournalMode: "wal", PageSize: 1024, CacheSize: 5000, Steps: 60, Seed: 32, AllocFree: true, Replica: true})
	only := os.Getenv("T3_ONLY")
	for i, w := range ws {
		if only != "" && only != fmt.Sprint(i) {
			continue
		}
		r, hung := t3.RunIsolated(w, core.Scratch(fmt.Sprintf("t3-%d", i)), 600*time.Second)
		fmt.Printf("%s: statements=%d commits=%d evals=%d skipped=%q fails=%d hung=%v\n", w, r.Statements, r.Commits, r.Evals, r.Skipped, len(r.Fails), hung)
		for _, f := range r.Fails {
			fmt.Printf("   %s %s %v\n", f.Monitor, f.Sig, f.Detail)
		}
	}
}
