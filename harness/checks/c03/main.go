// Check C03: WAL-mode commits are captured exactly when the write lock is released.
package main

import (
	"time"

	"github.com/superfly/litefs/verifharness/core"
	"github.com/superfly/litefs/verifharness/dbreplay"
	"github.com/superfly/litefs/verifharness/faults"
	"github.com/superfly/litefs/verifharness/sim"
	"github.com/superfly/litefs/verifharness/t3"
	"github.com/superfly/litefs/verifharness/twowriters"
)

func main() {
	t3.MaybeChild()
	args := core.ParseArgs()
	rep := core.NewReport("C03", "model_checking", args)
	rep.Rule = "behaviours of DBFile.tla in WAL mode (transactions of 1-4 frames with repeated pages, rolled-back frames later overwritten, client checkpoints PASSIVE/TRUNCATE with log restart and new salts, LiteFS checkpoints, growth and shrink across a checksum block) replayed on a real node; a case is one (behaviour, concretisation); non-trivial = at least one transaction was captured"
	rep.Assumptions = []string{"SQLite's pager is represented by the environment part of DBFile.tla (Appendix A of DESIGN.md)", "CRC64 collisions ignored"}
	defer core.Cleanup()
	if t3.MaybeReplay(rep, args, map[string]bool{"C03": true}) || twowriters.MaybeReplay(rep, args, "C03") {
		rep.Finish()
	}
	// two connections on one database: a second writer asks for the write lock while the first one's release
	// is capturing its transaction (WalRelease.tla)
	dbreplay.Post = func() {
		// failure paths (spec/Faults.tla): every call of the operation through the OS interface fails once
		faults.Run(rep, args, faults.Select{Ops: []string{"wal_commit"}, Monitors: []string{"image", "effect"}})
		twowriters.Stage(rep, args, "C03")
		t3.Stage(rep, args, map[string]bool{"C03": true})
	}
	dbreplay.Main(rep, args, "C03", []dbreplay.Stage{
		{Name: "wal-3pg-4ops-exhaustive", Cfg: core.Pick(args, "MC_DBFile_wal.cfg", "MC_DBFile_wal_edge.cfg"), Timeout: 15 * time.Minute, MaxKeep: core.Pick(args, 1500, 12000), Always: []string{"LCkpt"}},
		{Name: "wal-beyond-3pg-4ops-exhaustive", Cfg: "MC_DBFile_wal_beyond.cfg", Timeout: 15 * time.Minute, MaxKeep: core.Pick(args, 800, 8000)},
		{Name: "wal-every-litefs-checkpoint-edge-3pg-4ops", Cfg: "MC_DBFile_wal_edge.cfg", Timeout: 15 * time.Minute, MaxKeep: 0, LastIs: "LCkpt"},
		{Name: "wal-block-edges-with-checkpoint-3pg-4ops", Cfg: "MC_DBFile_wal_L2b.cfg", Timeout: 10 * time.Minute, MaxKeep: 0, Need: "Ckpt", Layouts: []sim.Layout{sim.L2(512), sim.L3(512)}},
		{Name: "wal-block-edges-3pg-3ops", Cfg: "MC_DBFile_wal_L2.cfg", Timeout: 10 * time.Minute, MaxKeep: 0, Layouts: []sim.Layout{sim.L2(512), sim.L3(512)}},
		{Name: "lock-page-layout-4pg", Cfg: "MC_DBFile_lock_wal.cfg", Timeout: 10 * time.Minute, MaxKeep: core.Pick(args, 3, 48), Layouts: []sim.Layout{sim.L4()}, Workers: 2, MinNs: 4},
		{Name: "deep-simulation-4pg-8ops", Cfg: "MC_DBFile_sim.cfg", Simulate: true, Num: core.Pick(args, 40, 400), Depth: 200, Timeout: 10 * time.Minute, MaxKeep: core.Pick(args, 150, 3000)},
	})
}
