// Check C20: every API request gets a response; invalid requests change nothing.
//
// spec -> impl: every edge (abstract node state, request class) of API.tla's complete state graph is
// replayed as a real HTTP request (HTTP/1.1 and h2c) against a real http.Server of a real store with
// the right role in a small in-process cluster. Monitors, one per clause of the property:
//
//	M1 every request gets an HTTP response (status line + headers) within the client time-out
//	M2 no panic inside (no "panic serving" in the process log for the request's connection, Store.Exit
//	   not called, GET /info still answered afterwards)
//	M3 for requests the spec classifies as malformed / not allowed for the role / lacking a prerequisite,
//	   the tuple (database set incl. on-disk listing, positions, LTX listings, database file, lock table,
//	   entries outside dbs/) is identical before and after
//
// Status codes are not compared. Hostile length prefixes go to a child process under `ulimit -v`.
package main

import (
	"bufio"
	"bytes"
	"context"
	"crypto/sha1"
	"crypto/tls"
	"encoding/binary"
	"encoding/hex"
	"encoding/json"
	"fmt"
	"io"
	"log"
	"math/rand"
	"net"
	"net/http"
	"net/url"
	"os"
	"os/exec"
	"path/filepath"
	"runtime"
	"sort"
	"strings"
	"sync"
	"sync/atomic"
	"time"

	"github.com/superfly/litefs"
	lhttp "github.com/superfly/litefs/http"
	"github.com/superfly/litefs/verifharness/core"
	"github.com/superfly/litefs/verifharness/faults"
	"github.com/superfly/litefs/verifharness/sim"
	"github.com/superfly/ltx"
	"golang.org/x/net/http2"
)

// ---------------------------------------------------------------------------------------------
// data emitted by API.tla

type req struct {
	Ep    string `json:"ep"`
	M     string `json:"m"`
	Pc    string `json:"pc"`
	Id    string `json:"id"`
	Hdr   string `json:"hdr"`
	Proto string `json:"proto"`
	Body  string `json:"body"`
}

func (r req) String() string {
	return fmt.Sprintf("%s /%s pc=%s id=%s hdr=%s %s body=%s", r.M, r.Ep, r.Pc, r.Id, r.Hdr, r.Proto, r.Body)
}

type dbst struct {
	Ex   bool   `json:"ex"`
	Pos  int    `json:"pos"`
	Halt string `json:"halt"`
}

type proj struct {
	Node string          `json:"node"`
	Role string          `json:"role"`
	Dbs  map[string]dbst `json:"dbs"`
}

type edge struct {
	Path   []req  `json:"path"`
	Req    req    `json:"req"`
	Class  string `json:"class"`
	Why    string `json:"why"`
	Blocks bool   `json:"blocks"`
	Pre    proj   `json:"pre"`
	Post   proj   `json:"post"`
}

func (e *edge) changes() bool {
	a, _ := json.Marshal(e.Pre)
	b, _ := json.Marshal(e.Post)
	return !bytes.Equal(a, b)
}

// params are concretisation parameters drawn from the seed; they do not enlarge the model.
type params struct {
	PageSize uint32 `json:"page_size"`
	Compress bool   `json:"compress"`
	IDa      int64  `json:"id_a"`
	IDb      int64  `json:"id_b"`
	Foreign  uint64 `json:"foreign_node_id"`
	Seed     int64  `json:"seed"`
}

// ---------------------------------------------------------------------------------------------
// process log capture (litefs and net/http log through the global logger)

type panicLine struct {
	text string
	used bool
}

type logCapture struct {
	mu    sync.Mutex
	lines []*panicLine
	tee   io.Writer
	total int64
}

func (l *logCapture) Write(p []byte) (int, error) {
	if l.tee != nil {
		_, _ = l.tee.Write(p)
	}
	atomic.AddInt64(&l.total, 1)
	if bytes.Contains(bytes.ToLower(p), []byte("panic")) {
		s := string(p)
		if len(s) > 1500 {
			s = s[:1500]
		}
		l.mu.Lock()
		l.lines = append(l.lines, &panicLine{text: s})
		l.mu.Unlock()
	}
	return len(p), nil
}

// take returns (and consumes) the panic lines that mention the given client address.
func (l *logCapture) take(addr string) []string {
	if addr == "" {
		return nil
	}
	l.mu.Lock()
	defer l.mu.Unlock()
	var out []string
	for _, pl := range l.lines {
		if !pl.used && strings.Contains(pl.text, addr+":") {
			pl.used = true
			out = append(out, pl.text)
		}
	}
	return out
}

func (l *logCapture) unattributed() []string {
	l.mu.Lock()
	defer l.mu.Unlock()
	var out []string
	for _, pl := range l.lines {
		if !pl.used {
			out = append(out, pl.text)
		}
	}
	return out
}

var logs = &logCapture{}

// ---------------------------------------------------------------------------------------------
// the world: a real cluster with the node under test

const (
	foreignDefault = uint64(0xDEADBEEF)
	baseTx         = 2 // transactions committed to "db" before the replay starts
)

type world struct {
	dir    string
	cl     *sim.Cluster
	target *sim.CNode
	peer   *sim.CNode
	kind   string
	p      params
	exits0 int

	connMu  sync.Mutex
	closed  bool
	conns   []net.Conn   // node-to-node connections (closed with the world: h2c connections are hijacked)
	variant atomic.Int64 // rotates the concrete form of body classes that have several
}

func commitTx(n *sim.CNode, name string, ps uint32, from, to int) error {
	c := n.Connect(name, 7)
	defer c.Close()
	pg := sim.NewPager(c, sim.L0(ps), sim.PagerOpts{})
	for v := from; v <= to; v++ {
		pl := sim.Plan{Kind: "j", Ns: 3, M: []int{1, 2, 3}, Out: "commit", Fin: "DELETE", V: v}
		if v > 1 {
			pl.M = []int{1, 2}
		}
		for _, f := range []func() error{func() error { return pg.BeginJ(pl) }, pg.JCreate, pg.JSync} {
			if err := f(); err != nil {
				return err
			}
		}
		for _, q := range pl.M {
			if err := pg.JPage(q); err != nil {
				return err
			}
		}
		if err := pg.JFinal(); err != nil {
			return err
		}
		pg.EndJ()
	}
	return nil
}

// buildWorld starts a fresh cluster in which the node of the wanted kind has database "db" at
// TXID 2: primary + connected replica, or a lone node whose lease service lets nobody be primary.
func buildWorld(kind string, p params) (*world, error) {
	core.Beat("real:build-cluster")
	defer core.Beat("harness")
	w := &world{dir: core.Scratch("world"), kind: kind, p: p}
	w.cl = sim.NewCluster(filepath.Join(w.dir, "c"))
	w.cl.Lease.AllowOnly()
	cfg := func(s *litefs.Store) {
		s.HaltAcquireTimeout = 200 * time.Millisecond
		s.HaltLockTTL = time.Hour
		// same transport as lhttp.NewClient(), but the connections are remembered so that they can be
		// closed with the world (closing an h2c server does not close its hijacked connections)
		if fc, ok := s.Client.(*sim.FaultClient); ok && fc.Inner != nil {
			fc.Inner.HTTPClient = &http.Client{Transport: &http2.Transport{AllowHTTP: true,
				DialTLS: func(network, addr string, _ *tls.Config) (net.Conn, error) {
					c, err := net.Dial(network, addr)
					if err == nil {
						w.connMu.Lock()
						if w.closed {
							w.connMu.Unlock()
							_ = c.Close()
							return nil, fmt.Errorf("cluster closed")
						}
						w.conns = append(w.conns, c)
						w.connMu.Unlock()
					}
					return c, err
				}}}
		}
	}
	opts := sim.ClusterNodeOpts{Candidate: true, Compress: p.Compress, Configure: cfg}
	fail := func(err error) (*world, error) { w.close(); return nil, err }
	if kind == "noprimary" {
		n, err := w.cl.Start("n", opts)
		if err != nil {
			return fail(err)
		}
		if err := w.cl.Elect("n", 10*time.Second); err != nil {
			return fail(err)
		}
		if err := commitTx(n, "db", p.PageSize, 1, baseTx); err != nil {
			return fail(err)
		}
		// restart the node with a lease service that lets nobody be primary (a restart rather than a
		// demotion: a demoted node runs its state-change recovery, which takes the locks, some time later)
		w.cl.Stop("n")
		w.cl.Lease.AllowOnly()
		if n, err = w.cl.Start("n", opts); err != nil {
			return fail(err)
		}
		if isP, info := n.Store.PrimaryInfo(); isP || info != nil || n.Store.DB("db") == nil {
			return fail(fmt.Errorf("lone node: primary=%v info=%v db=%v", isP, info, n.Store.DB("db") != nil))
		}
		w.target = n
	} else {
		pn, err := w.cl.Start("p", opts)
		if err != nil {
			return fail(err)
		}
		if err := w.cl.Elect("p", 10*time.Second); err != nil {
			return fail(err)
		}
		// commit before the replica exists: its initial snapshot takes the database's locks for a moment
		if err := commitTx(pn, "db", p.PageSize, 1, baseTx); err != nil {
			return fail(err)
		}
		rn, err := w.cl.Start("r", opts)
		if err != nil {
			return fail(err)
		}
		if err := w.cl.WaitPos("r", "db", pn.Store.DB("db").Pos(), 10*time.Second); err != nil {
			return fail(err)
		}
		w.target, w.peer = pn, rn
		if kind == "replica" {
			w.target, w.peer = rn, pn
		}
	}
	if err := w.settle(nil, 5*time.Second); err != nil {
		return fail(err)
	}
	w.exits0 = len(w.target.Exits())
	return w, nil
}

func (w *world) close() {
	if w == nil {
		return
	}
	if w.cl != nil {
		w.cl.Close()
		w.connMu.Lock()
		for _, c := range w.conns {
			_ = c.Close()
		}
		w.conns, w.closed = nil, true
		w.connMu.Unlock()
	}
	_ = os.RemoveAll(w.dir)
}

func roleOf(n *sim.CNode) string {
	isP, info := n.Store.PrimaryInfo()
	switch {
	case isP:
		return "primary"
	case info != nil:
		return "replica"
	}
	return "noprimary"
}

// abstract maps the real node state to the spec's projection (halt is "held"/"none": the id is not observable).
func (w *world) abstract() proj {
	pr := proj{Node: w.kind, Role: roleOf(w.target), Dbs: map[string]dbst{}}
	sv := readExpvar(w.target)
	for _, name := range []string{"db", "nosuch"} {
		d, ok := sv.DBs[name]
		st := dbst{Halt: "none"}
		if ok {
			st.Ex = true
			var txid uint64
			_, _ = fmt.Sscanf(d.TXID, "%x", &txid)
			base := uint64(0)
			if name == "db" {
				base = baseTx
			}
			st.Pos = int(int64(txid) - int64(base))
			for _, v := range d.Locks {
				if v != "unlocked" {
					st.Halt = "held"
				}
			}
		}
		pr.Dbs[name] = st
	}
	return pr
}

func sameAbstract(obs, want proj) (bool, string) {
	if obs.Role != want.Role {
		return false, fmt.Sprintf("role %s, spec %s", obs.Role, want.Role)
	}
	for _, name := range []string{"db", "nosuch"} {
		o, s := obs.Dbs[name], want.Dbs[name]
		if o.Ex != s.Ex {
			return false, fmt.Sprintf("%s exists=%v, spec %v", name, o.Ex, s.Ex)
		}
		if o.Ex && o.Pos != s.Pos {
			return false, fmt.Sprintf("%s pos=+%d, spec +%d", name, o.Pos, s.Pos)
		}
		if (o.Halt != "none") != (s.Halt != "none") {
			return false, fmt.Sprintf("%s halt=%s, spec %s", name, o.Halt, s.Halt)
		}
	}
	return true, ""
}

// settle waits until the cluster is quiescent: the target shows the wanted abstract state (if given),
// exactly one node is primary and the other one is connected to it and has caught up (two-node
// clusters), and two consecutive snapshots of the target are equal.
func (w *world) settle(want *proj, d time.Duration) error {
	core.Beat("real:settle")
	defer core.Beat("harness")
	deadline := time.Now().Add(d)
	why := ""
	for {
		ok := true
		if want != nil {
			if same, diff := sameAbstract(w.abstract(), *want); !same {
				ok, why = false, diff
			}
		}
		if ok && w.peer != nil && (want == nil || want.Role != "noprimary") {
			var pri, rep *sim.CNode
			switch {
			case w.target.Store.IsPrimary() && !w.peer.Store.IsPrimary():
				pri, rep = w.target, w.peer
			case w.peer.Store.IsPrimary() && !w.target.Store.IsPrimary():
				pri, rep = w.peer, w.target
			default:
				ok, why = false, "not exactly one primary"
			}
			if ok {
				if _, info := rep.Store.PrimaryInfo(); info == nil || pri.Store.SubscriberByNodeID(rep.Store.ID()) == nil {
					ok, why = false, "replica not connected"
				}
			}
			if ok && want == nil {
				for _, db := range pri.Store.DBs() {
					if x := rep.Store.DB(db.Name()); x == nil || x.Pos() != db.Pos() {
						ok, why = false, "replica behind on "+db.Name()
					}
				}
			}
		}
		if ok {
			a := w.snapshot()
			time.Sleep(300 * time.Microsecond)
			if b := w.snapshot(); a.key() == b.key() {
				return nil
			}
			why = "snapshot not stable"
		}
		if time.Now().After(deadline) {
			return fmt.Errorf("not quiescent after %s: %s", d, why)
		}
		time.Sleep(300 * time.Microsecond)
	}
}

// ---------------------------------------------------------------------------------------------
// snapshot of the state the property speaks about

type expvarJSON struct {
	IsPrimary bool `json:"isPrimary"`
	DBs       map[string]struct {
		Name     string            `json:"name"`
		TXID     string            `json:"txid"`
		Checksum string            `json:"checksum"`
		Locks    map[string]string `json:"locks"`
	} `json:"dbs"`
}

func readExpvar(n *sim.CNode) expvarJSON {
	var sv expvarJSON
	_ = json.Unmarshal([]byte(n.Store.Expvar().String()), &sv)
	return sv
}

type dbSnap struct {
	Pos    string            `json:"pos"`
	Locks  map[string]string `json:"locks"`
	LTX    []string          `json:"ltx"`
	DBFile string            `json:"dbfile"`
	Other  []string          `json:"other"`
}

type snap struct {
	DBSet   []string          `json:"dbset"`   // names known to the store
	DiskSet []string          `json:"diskset"` // entries of dbs/ on disk
	DBs     map[string]dbSnap `json:"dbs"`
	Outside []string          `json:"outside"` // entries of the node directory and of its parent
	Tmp     []string          `json:"tmp"`     // temporary files (reported, not compared)
	Subs    []string          `json:"subs"`    // node IDs (of those requests carry) registered as stream subscribers
	k       string
}

func (s *snap) key() string {
	if s.k == "" {
		t := s.Tmp
		s.Tmp = nil
		b, _ := json.Marshal(s)
		s.Tmp = t
		s.k = string(b)
	}
	return s.k
}

func fileSig(path string) string {
	b, err := os.ReadFile(path)
	if err != nil {
		return "absent"
	}
	h := sha1.Sum(b)
	return fmt.Sprintf("%d:%s", len(b), hex.EncodeToString(h[:8]))
}

func lsNames(dir string) []string {
	ents, _ := os.ReadDir(dir)
	out := []string{}
	for _, e := range ents {
		out = append(out, e.Name())
	}
	sort.Strings(out)
	return out
}

func (w *world) snapshot() *snap {
	n := w.target
	s := &snap{DBs: map[string]dbSnap{}, DBSet: []string{}}
	sv := readExpvar(n)
	for name, d := range sv.DBs {
		s.DBSet = append(s.DBSet, name)
		ds := dbSnap{Pos: d.TXID + "/" + d.Checksum, Locks: d.Locks, LTX: []string{}, Other: []string{}}
		dir := filepath.Join(n.Dir, "dbs", name)
		ds.DBFile = fileSig(filepath.Join(dir, "database"))
		ents, _ := os.ReadDir(filepath.Join(dir, "ltx"))
		for _, e := range ents {
			if strings.HasSuffix(e.Name(), ".tmp") {
				s.Tmp = append(s.Tmp, name+"/ltx/"+e.Name())
				continue
			}
			sz := int64(-1)
			if fi, err := e.Info(); err == nil {
				sz = fi.Size()
			}
			ds.LTX = append(ds.LTX, fmt.Sprintf("%s:%d", e.Name(), sz))
		}
		sort.Strings(ds.LTX)
		for _, f := range lsNames(dir) {
			switch f {
			case "database", "ltx", "shm": // shm is LiteFS's own scratch (recreated by recovery)
			default:
				if name != "" {
					ds.Other = append(ds.Other, f+":"+fileSig(filepath.Join(dir, f)))
				}
			}
		}
		s.DBs[name] = ds
	}
	sort.Strings(s.DBSet)
	s.Subs = []string{}
	ids := map[string]uint64{"foreign": w.p.Foreign, "foreign-default": foreignDefault, "own": n.Store.ID()}
	if w.peer != nil {
		ids["peer"] = w.peer.Store.ID()
	}
	for name, id := range ids {
		if n.Store.SubscriberByNodeID(id) != nil {
			s.Subs = append(s.Subs, name)
		}
	}
	sort.Strings(s.Subs)
	s.DiskSet = lsNames(filepath.Join(n.Dir, "dbs"))
	for _, f := range lsNames(n.Dir) {
		s.Outside = append(s.Outside, "node/"+f)
	}
	for _, f := range lsNames(filepath.Dir(n.Dir)) {
		s.Outside = append(s.Outside, "cluster/"+f)
	}
	for _, f := range lsNames(w.dir) {
		s.Outside = append(s.Outside, "world/"+f)
	}
	return s
}

// locksHeld reports whether some database shows a held lock although the spec's state has no halt lock on it.
func locksHeld(s *snap, pre proj) bool {
	for name, d := range s.DBs {
		if st, ok := pre.Dbs[name]; ok && st.Halt != "none" {
			continue
		}
		for _, v := range d.Locks {
			if v != "unlocked" {
				return true
			}
		}
	}
	return false
}

// diffKinds names the parts of the tuple that differ.
func diffKinds(a, b *snap) []string {
	var out []string
	j := func(v any) string { x, _ := json.Marshal(v); return string(x) }
	if j(a.DBSet) != j(b.DBSet) || j(a.DiskSet) != j(b.DiskSet) {
		out = append(out, "dbset")
	}
	pos, locks, ltxs, file := false, false, false, false
	for name, x := range a.DBs {
		y, ok := b.DBs[name]
		if !ok {
			continue
		}
		pos = pos || x.Pos != y.Pos
		locks = locks || j(x.Locks) != j(y.Locks)
		ltxs = ltxs || j(x.LTX) != j(y.LTX)
		file = file || x.DBFile != y.DBFile || j(x.Other) != j(y.Other)
	}
	for k, v := range map[string]bool{"pos": pos, "locks": locks, "ltx": ltxs, "dbfile": file, "outside": j(a.Outside) != j(b.Outside), "subscribers": j(a.Subs) != j(b.Subs)} {
		if v {
			out = append(out, k)
		}
	}
	sort.Strings(out)
	return out
}

// ---------------------------------------------------------------------------------------------
// concretisation of request classes

type concrete struct {
	Method string
	URL    string
	Header string
	Body   []byte
	Long   bool // long-lived response (/stream, /events): read for a bounded time, then cancel
}

func nameOfClass(pc string) (string, bool) {
	switch pc {
	case "empty":
		return "", true
	case "unknown":
		return "nosuch", true
	case "malformed":
		return "../../escaped", true
	case "valid":
		return "db", true
	}
	return "", false
}

func (w *world) dbImage(name string) ([]byte, ltx.Pos) {
	n := w.target
	var pos ltx.Pos
	if db := n.Store.DB(name); db != nil {
		pos = db.Pos()
	}
	b, _ := os.ReadFile(filepath.Join(n.Dir, "dbs", name, "database"))
	return b, pos
}

func rndBytes(seed int64, n int) []byte {
	b := make([]byte, n)
	rand.New(rand.NewSource(seed)).Read(b)
	return b
}

// validLTX builds a well-formed LTX file that continues database `name` at its current position
// (a full snapshot when the database is empty or unknown).
func (w *world) validLTX(name string) []byte {
	ps := int(w.p.PageSize)
	img, pos := w.dbImage(name)
	var buf bytes.Buffer
	enc := ltx.NewEncoder(&buf)
	must := func(err error) {
		if err != nil {
			core.Infra("cannot build LTX input: %v", err)
		}
	}
	if len(img) < 2*ps || pos.TXID == 0 {
		base, _ := w.dbImage("db")
		if len(base) < 2*ps {
			core.Infra("database file of the node under test is unexpectedly short (%d bytes)", len(base))
		}
		npages := len(base) / ps
		must(enc.EncodeHeader(ltx.Header{Version: 1, PageSize: uint32(ps), Commit: uint32(npages), MinTXID: 1, MaxTXID: 1, Timestamp: time.Now().UnixMilli(), NodeID: w.p.Foreign}))
		var sum ltx.Checksum
		for i := 0; i < npages; i++ {
			pg := append([]byte(nil), base[i*ps:(i+1)*ps]...)
			if i > 0 {
				pg[ps/2] ^= byte(1 + w.p.Seed%200)
			}
			must(enc.EncodePage(ltx.PageHeader{Pgno: uint32(i + 1)}, pg))
			sum ^= ltx.ChecksumPage(uint32(i+1), pg)
		}
		enc.SetPostApplyChecksum(ltx.ChecksumFlag | sum)
		must(enc.Close())
		return buf.Bytes()
	}
	old := img[ps : 2*ps]
	nw := append([]byte(nil), old...)
	nw[ps/2] ^= byte(1 + w.p.Seed%200)
	must(enc.EncodeHeader(ltx.Header{Version: 1, PageSize: uint32(ps), Commit: uint32(len(img) / ps), MinTXID: pos.TXID + 1, MaxTXID: pos.TXID + 1,
		Timestamp: time.Now().UnixMilli(), PreApplyChecksum: pos.PostApplyChecksum, NodeID: w.p.Foreign}))
	must(enc.EncodePage(ltx.PageHeader{Pgno: 2}, nw))
	enc.SetPostApplyChecksum(ltx.ChecksumFlag | (pos.PostApplyChecksum ^ ltx.ChecksumPage(2, old) ^ ltx.ChecksumPage(2, nw)))
	must(enc.Close())
	return buf.Bytes()
}

// snapshotLTX is a complete image of the database as one transaction file 1..pos+1 (uncompressed,
// so that a flipped bit is a checksum mismatch and not a framing error).
func (w *world) snapshotLTX(name string) []byte {
	ps := int(w.p.PageSize)
	img, pos := w.dbImage(name)
	if len(img) < ps {
		img, pos = w.dbImage("db")
	}
	var buf bytes.Buffer
	enc := ltx.NewEncoder(&buf)
	must := func(err error) {
		if err != nil {
			core.Infra("cannot build LTX input: %v", err)
		}
	}
	must(enc.EncodeHeader(ltx.Header{Version: 1, PageSize: uint32(ps), Commit: uint32(len(img) / ps), MinTXID: 1, MaxTXID: pos.TXID + 1,
		Timestamp: time.Now().UnixMilli(), NodeID: w.p.Foreign}))
	var sum ltx.Checksum
	lock := ltx.LockPgno(uint32(ps))
	for i := 0; i+ps <= len(img); i += ps {
		pgno := uint32(i/ps) + 1
		if pgno == lock {
			continue
		}
		must(enc.EncodePage(ltx.PageHeader{Pgno: pgno}, img[i:i+ps]))
		sum ^= ltx.ChecksumPage(pgno, img[i:i+ps])
	}
	enc.SetPostApplyChecksum(ltx.ChecksumFlag | sum)
	must(enc.Close())
	return buf.Bytes()
}

func (w *world) body(r req) []byte {
	ps := int(w.p.PageSize)
	seed := w.p.Seed*7919 + int64(len(r.Ep))*131 + int64(len(r.Pc))
	switch r.Ep {
	case "import":
		img, _ := w.dbImage("db")
		img = append([]byte(nil), img...)
		if len(img) >= 2*ps {
			img[ps+ps/2] ^= byte(1 + w.p.Seed%200)
		}
		switch r.Body {
		case "valid":
			return img
		case "truncated":
			// cut inside a page / exactly on a page boundary / header only / complete but announcing zero pages
			switch w.variant.Add(1) % 4 {
			case 0:
				return img[:ps+ps/2]
			case 1:
				return img[:ps]
			case 2:
				return img[:100]
			default:
				binary.BigEndian.PutUint32(img[28:], 0)
				return img
			}
		case "garbage":
			return rndBytes(seed, 300)
		case "oversized": // page count far beyond the pages that follow
			binary.BigEndian.PutUint32(img[28:], 0x7fffffff)
			return img
		}
		return nil
	case "tx":
		name, _ := nameOfClass(r.Pc)
		if name != "db" && name != "nosuch" {
			name = "db"
		}
		switch r.Body {
		case "valid":
			return w.validLTX(name)
		case "truncated":
			b := w.validLTX(name)
			return b[:len(b)*2/3]
		case "garbage":
			return rndBytes(seed, 400)
		case "oversized": // header announces 64 KiB pages, a few hundred bytes follow
			b := w.validLTX(name)
			binary.BigEndian.PutUint32(b[8:], 65536)
			return b
		case "snapdamaged": // a snapshot (first TXID 1) reaching one past the position, one bit of a page flipped
			b := w.snapshotLTX(name)
			b[len(b)-ltx.TrailerSize-ps/2] ^= 0x10
			return b
		}
		return nil
	case "stream":
		var buf bytes.Buffer
		pm := map[string]ltx.Pos{}
		for _, db := range w.target.Store.DBs() {
			pm[db.Name()] = db.Pos()
		}
		switch r.Body {
		case "valid":
			_ = lhttp.WritePosMapTo(&buf, pm)
		case "truncated":
			_ = lhttp.WritePosMapTo(&buf, pm)
			if w.variant.Add(1)%2 == 0 || len(pm) == 0 {
				buf.Truncate(buf.Len() - 5) // inside an entry
			} else {
				buf.Truncate(4) // right after the count: entries announced, none present
			}
		case "garbage": // readable framing, nonsense content
			_ = lhttp.WritePosMapTo(&buf, map[string]ltx.Pos{"db\xff\xfe/..": {TXID: 0xffffffffffffff00, PostApplyChecksum: 1}, "": {TXID: 7, PostApplyChecksum: ltx.Checksum(seed)}})
		case "oversized": // one entry whose name claims 1 MiB, ten bytes follow (2^32-1 goes to the child process)
			_ = binary.Write(&buf, binary.BigEndian, uint32(1))
			_ = binary.Write(&buf, binary.BigEndian, uint32(1<<20))
			buf.Write(rndBytes(seed, 10))
		}
		return buf.Bytes()
	}
	if r.Body == "garbage" {
		return rndBytes(seed, 64)
	}
	return nil
}

func (w *world) idValue(c string) (string, bool) {
	switch c {
	case "empty":
		return "", true
	case "malformed":
		return "abc", true
	case "zero":
		return "0", true
	case "a":
		return fmt.Sprint(w.p.IDa), true
	case "b":
		return fmt.Sprint(w.p.IDb), true
	}
	return "", false
}

func (w *world) concretise(r req) concrete {
	c := concrete{Method: r.M}
	if r.Ep == "handoff" && r.Pc == "valid" && w.peer != nil {
		// "valid" names a node that is connected: after a promotion the other node needs a moment
		// to come back as this node's replica
		core.Beat("real:await-peer-connected")
		for dl := time.Now().Add(10 * time.Second); time.Now().Before(dl) && w.target.Store.SubscriberByNodeID(w.peer.Store.ID()) == nil; {
			time.Sleep(5 * time.Millisecond)
		}
		core.Beat("harness")
	}
	q := url.Values{}
	path := "/" + r.Ep
	switch r.Ep {
	case "other":
		path = "/nosuch/path"
	case "tx", "halt", "import", "export":
		if v, ok := nameOfClass(r.Pc); ok {
			q.Set("name", v)
		}
		if r.Ep == "tx" {
			q.Set("lockID", fmt.Sprint(w.p.IDa))
		}
	case "handoff":
		switch r.Pc {
		case "empty":
			q.Set("nodeID", "")
		case "unknown":
			q.Set("nodeID", litefs.FormatNodeID(0xABCDE))
		case "malformed":
			q.Set("nodeID", "zz-not-hex")
		case "valid":
			id := uint64(0x1234)
			if w.peer != nil {
				id = w.peer.Store.ID()
			}
			q.Set("nodeID", litefs.FormatNodeID(id))
		}
	case "stream":
		switch r.Pc {
		case "unknown":
			q.Set("filter", "nosuch")
		case "valid":
			q.Set("filter", "db")
		}
	}
	if r.Ep == "halt" {
		if v, ok := w.idValue(r.Id); ok {
			q.Set("id", v)
		}
	}
	c.URL = w.target.URL + path
	if len(q) > 0 {
		c.URL += "?" + q.Encode()
	}
	switch r.Hdr {
	case "own":
		c.Header = litefs.FormatNodeID(w.target.Store.ID())
	case "ownalt":
		c.Header = "0" + strings.ToLower(litefs.FormatNodeID(w.target.Store.ID()))
	case "foreign":
		c.Header = litefs.FormatNodeID(w.p.Foreign)
		// "not the node's own ID" is also the ID of a replica that is connected right now: a stream request
		// that is refused must not cost that replica its subscription (every second such request)
		if r.Ep == "stream" && r.M == "POST" && r.Body != "valid" && w.peer != nil && w.variant.Add(1)%2 == 0 {
			c.Header = litefs.FormatNodeID(w.peer.Store.ID())
		}
	}
	c.Body = w.body(r)
	c.Long = (r.Ep == "stream" && r.M == "POST") || (r.Ep == "events" && r.M == "GET")
	return c
}

// ---------------------------------------------------------------------------------------------
// sending one request

type result struct {
	Responded bool   `json:"responded"`
	Status    int    `json:"status,omitempty"`
	Err       string `json:"error,omitempty"`
	TimedOut  bool   `json:"timed_out,omitempty"`
	Local     string `json:"client_addr,omitempty"`
	BodyN     int    `json:"body_bytes"`
	BodyErr   string `json:"body_error,omitempty"`
	Took      string `json:"took"`
}

// send performs one request on a fresh connection. localIP (optional) is the loopback address the
// client binds to: every worker has its own, so that the client address in a "panic serving" log line
// identifies the worker's request.
func send(c concrete, proto string, timeout time.Duration, localIP string) result {
	var res result
	var mu sync.Mutex
	var conns []net.Conn
	defer func() { // a cancelled stream leaves its connection busy for a moment: close explicitly
		mu.Lock()
		for _, c := range conns {
			_ = c.Close()
		}
		mu.Unlock()
	}()
	dial := func(ctx context.Context, network, addr string) (net.Conn, error) {
		var d net.Dialer
		if localIP != "" {
			d.LocalAddr = &net.TCPAddr{IP: net.ParseIP(localIP)}
		}
		conn, err := d.DialContext(ctx, network, addr)
		if err == nil {
			mu.Lock()
			res.Local = conn.LocalAddr().String()
			conns = append(conns, conn)
			mu.Unlock()
			if tc, ok := conn.(*net.TCPConn); ok {
				_ = tc.SetLinger(0) // no TIME_WAIT litter: thousands of one-shot connections
			}
		}
		return conn, err
	}
	var rt http.RoundTripper
	var closeIdle func()
	if proto == "h2c" {
		t := &http2.Transport{AllowHTTP: true, DialTLS: func(network, addr string, _ *tls.Config) (net.Conn, error) {
			return dial(context.Background(), network, addr)
		}}
		rt, closeIdle = t, t.CloseIdleConnections
	} else {
		t := &http.Transport{DisableKeepAlives: true, DialContext: dial}
		rt, closeIdle = t, t.CloseIdleConnections
	}
	defer closeIdle()
	ctx, cancel := context.WithTimeout(context.Background(), timeout)
	defer cancel()
	hr, err := http.NewRequestWithContext(ctx, c.Method, c.URL, bytes.NewReader(c.Body))
	if err != nil {
		core.Infra("cannot build request %s %s: %v", c.Method, c.URL, err)
	}
	if c.Header != "" {
		hr.Header.Set(lhttp.HeaderNodeID, c.Header)
	}
	start := time.Now()
	resp, err := rt.RoundTrip(hr)
	if err != nil {
		res.Err = err.Error()
		res.TimedOut = ctx.Err() == context.DeadlineExceeded
		res.Took = time.Since(start).String()
		return res
	}
	res.Responded, res.Status = true, resp.StatusCode
	if c.Long && resp.StatusCode == 200 {
		// read what arrives first (at most 150 ms), then hang up
		tm := time.AfterFunc(150*time.Millisecond, cancel)
		buf := make([]byte, 64<<10)
		n, rerr := resp.Body.Read(buf)
		tm.Stop()
		res.BodyN = n
		if rerr != nil && rerr != io.EOF {
			res.BodyErr = rerr.Error()
		}
		cancel()
	} else {
		n, rerr := io.Copy(io.Discard, io.LimitReader(resp.Body, 16<<20))
		res.BodyN = int(n)
		if rerr != nil {
			res.BodyErr = rerr.Error()
		}
	}
	_ = resp.Body.Close()
	res.Took = time.Since(start).String()
	return res
}

// ---------------------------------------------------------------------------------------------
// replay

type worker struct {
	rep  *core.Report
	p    params
	w    *world
	at   string // JSON of the path the current world has been brought through ("" = no world)
	last *snap  // snapshot after the previous edge in this world
	st   *stats
	ip   string // loopback address this worker's client connections come from
}

type stats struct {
	mu        sync.Mutex
	edges     int
	rebuilds  int
	blocked   int
	byClass   map[string]int
	byStatus  map[int]int
	tmp       map[string]int
	noState   int
	sigs      map[string]int
	tBuild    time.Duration
	tSend     time.Duration
	tSettle   time.Duration
	tSnap     time.Duration
	tDrop     time.Duration
	tInfo     time.Duration
	transient int
}

func newStats() *stats {
	return &stats{byClass: map[string]int{}, byStatus: map[int]int{}, tmp: map[string]int{}, sigs: map[string]int{}}
}

func (st *stats) add(d *time.Duration, since time.Time) {
	st.mu.Lock()
	*d += time.Since(since)
	st.mu.Unlock()
}

// violate records the violation and counts its signature (evidence: which input classes fail how often).
func (wk *worker) violate(mon, sig string, detail, rp any) {
	wk.st.mu.Lock()
	wk.st.sigs[sig]++
	wk.st.mu.Unlock()
	wk.rep.Violate(mon, sig, detail, rp)
}

func sigOf(mon string, e *edge, extra string) string {
	s := fmt.Sprintf("%s/%s/%s/%s", mon, e.Req.Ep, e.Req.M, e.Why)
	if extra != "" {
		s += "/" + extra
	}
	return s
}

// closing a cluster waits for the stores' background goroutines (some hundred milliseconds); it is
// done off the replay path, at most 64 at a time
var (
	closers   sync.WaitGroup
	closerSem = make(chan struct{}, 64)
)

func (wk *worker) drop() {
	if wk.w != nil {
		w := wk.w
		closerSem <- struct{}{}
		closers.Add(1)
		go func() {
			defer closers.Done()
			defer func() { <-closerSem }()
			t0 := time.Now()
			w.close()
			wk.st.add(&wk.st.tDrop, t0)
		}()
	}
	wk.w, wk.at, wk.last = nil, "", nil
}

// prepare brings a world into the source state of the edge (fresh cluster + the path's requests).
func (wk *worker) prepare(e *edge) bool {
	pj, _ := json.Marshal(e.Path)
	key := e.Pre.Node + string(pj)
	if wk.w != nil && wk.at == key {
		return true
	}
	wk.drop()
	wk.st.mu.Lock()
	wk.st.rebuilds++
	wk.st.mu.Unlock()
	t0 := time.Now()
	defer wk.st.add(&wk.st.tBuild, t0)
	w, err := buildWorld(e.Pre.Node, wk.p)
	if err != nil {
		core.Infra("cannot build the test cluster (%s): %v", e.Pre.Node, err)
	}
	for _, r := range e.Path {
		c := w.concretise(r)
		core.Beat("real:path " + r.String())
		res := send(c, r.Proto, 10*time.Second, wk.ip)
		core.Beat("harness")
		if !res.Responded {
			wk.rep.Nonconf("path request %s got no response (%s); edges from this state skipped", r, res.Err)
			w.close()
			return false
		}
	}
	if err := w.settle(&e.Pre, 5*time.Second); err != nil {
		wk.rep.Nonconf("source state %v not reached through %v: %v", e.Pre, e.Path, err)
		w.close()
		return false
	}
	wk.w, wk.at = w, key
	wk.last = nil
	return true
}

func (wk *worker) runEdge(e *edge, verbose bool) {
	rep := wk.rep
	if !wk.prepare(e) {
		wk.st.mu.Lock()
		wk.st.noState++
		wk.st.mu.Unlock()
		return
	}
	w := wk.w
	rp := map[string]any{"edge": e, "params": wk.p}
	before := w.snapshot()
	// locks taken for a moment by the node's own background work (role-change recovery) are not the
	// request's doing: wait for a lock table that agrees with the source state before sending
	for i := 0; i < 150 && locksHeld(before, e.Pre); i++ {
		time.Sleep(time.Millisecond)
		before = w.snapshot()
	}
	// likewise the subscription of a stream request the harness has just cancelled goes away a moment later
	for i := 0; i < 300 && wk.last != nil && strings.Join(diffKinds(wk.last, before), "+") == "subscribers"; i++ {
		time.Sleep(time.Millisecond)
		before = w.snapshot()
	}
	if wk.last != nil && wk.last.key() != before.key() {
		rep.Nonconf("state of %s drifted between two requests (%v) before %s", w.kind, diffKinds(wk.last, before), e.Req)
	}
	c := w.concretise(e.Req)
	timeout := 10 * time.Second
	if e.Blocks {
		timeout = 300 * time.Millisecond
	}
	core.Beat("real:" + e.Req.String())
	t0 := time.Now()
	res := send(c, e.Req.Proto, timeout, wk.ip)
	wk.st.add(&wk.st.tSend, t0)
	core.Beat("harness")
	dirty := false
	detail := func(extra map[string]any) map[string]any {
		m := map[string]any{"request": fmt.Sprintf("%s %s", c.Method, strings.TrimPrefix(c.URL, w.target.URL)), "litefs_id_header": e.Req.Hdr, "proto": e.Req.Proto,
			"body_class": e.Req.Body, "body_len": len(c.Body), "node_role": e.Pre.Role, "class": e.Class, "why": e.Why, "result": res}
		for k, v := range extra {
			m[k] = v
		}
		return m
	}

	// M1: every request receives an HTTP response
	rep.Eval(1)
	if !res.Responded {
		if e.Blocks && res.TimedOut {
			wk.st.mu.Lock()
			wk.st.blocked++
			wk.st.mu.Unlock()
		} else {
			wk.violate("C20.M1-response", sigOf("M1-response", e, ""), detail(nil), rp)
		}
		dirty = true
	}

	// M2: no panic inside, the process would not have exited, the node still answers
	rep.Eval(3)
	pl := logs.take(res.Local)
	if len(pl) == 0 && (!res.Responded || res.BodyErr != "") && !(e.Blocks && res.TimedOut) {
		// the http2 server resets the stream before it logs the panic: give the line a moment
		for i := 0; i < 300 && len(pl) == 0; i++ {
			time.Sleep(time.Millisecond)
			pl = logs.take(res.Local)
		}
	}
	if len(pl) > 0 {
		wk.violate("C20.M2-no-panic", sigOf("M2-no-panic", e, ""), detail(map[string]any{"log": pl}), rp)
		dirty = true
	}
	if ex := w.target.Exits(); len(ex) != w.exits0 {
		wk.violate("C20.M2-no-exit", sigOf("M2-no-exit", e, ""), detail(map[string]any{"exit_codes": ex}), rp)
		dirty = true
	}
	core.Beat("real:GET /info")
	t2 := time.Now()
	info := send(concrete{Method: "GET", URL: w.target.URL + "/info"}, "h1", 10*time.Second, wk.ip)
	wk.st.add(&wk.st.tInfo, t2)
	core.Beat("harness")
	if !info.Responded || info.Status != 200 {
		wk.violate("C20.M2-still-serving", sigOf("M2-still-serving", e, ""), detail(map[string]any{"info": info}), rp)
		dirty = true
	}

	// M3 / conformance
	if e.Class == "valid" && !dirty {
		// also without a predicted effect: a cancelled /stream may still be writing a snapshot (read locks)
		t1 := time.Now()
		if err := w.settle(&e.Post, 5*time.Second); err != nil {
			rep.Nonconf("valid %s from %v: predicted effect not observed: %v", e.Req, e.Pre, err)
		}
		wk.st.add(&wk.st.tSettle, t1)
	}
	after := w.snapshot()
	changed := before.key() != after.key()
	if e.Class != "valid" {
		rep.Eval(1)
		if k := strings.Join(diffKinds(before, after), "+"); changed && (k == "locks" || k == "subscribers" || k == "locks+subscribers") {
			// R5: a lock held only for a moment is background work; a lock the request leaked stays
			for i := 0; i < 150 && changed; i++ {
				time.Sleep(time.Millisecond)
				if again := w.snapshot(); again.key() == before.key() {
					after, changed = again, false
					wk.st.mu.Lock()
					wk.st.transient++
					wk.st.mu.Unlock()
				}
			}
		}
		if changed {
			kinds := diffKinds(before, after)
			wk.violate("C20.M3-invalid-changes-nothing", sigOf("M3-unchanged", e, "changed="+strings.Join(kinds, "+")), detail(map[string]any{"changed": kinds, "before": before, "after": after}), rp)
		}
	} else if !dirty {
		if same, diff := sameAbstract(w.abstract(), e.Post); !same {
			rep.Nonconf("valid %s from %v: %s", e.Req, e.Pre, diff)
		}
	}
	wk.st.mu.Lock()
	wk.st.edges++
	wk.st.byClass[e.Class]++
	wk.st.byStatus[res.Status]++
	for _, t := range after.Tmp {
		wk.st.tmp[fmt.Sprintf("%s /%s %s: %s", e.Req.M, e.Req.Ep, e.Why, filepath.Ext(strings.TrimSuffix(t, ".tmp"))+".tmp left behind")]++
	}
	wk.st.mu.Unlock()
	rep.Case(fmt.Sprintf("%v|%s", e.Pre, e.Req), e.Class != "valid" || e.changes())
	if verbose {
		fmt.Printf("%s\n  -> %+v\n  class=%s why=%s changed=%v %v\n", c.Method+" "+c.URL, res, e.Class, e.Why, changed, diffKinds(before, after))
	}
	if same, diff := sameAbstract(w.abstract(), e.Pre); !same {
		if e.Class != "valid" && !changed {
			// the role is not among the things the property lists (databases, positions, logs, locks)
			rep.Nonconf("%s request %s from %v changed the node state outside the compared tuple: %s", e.Class, e.Req, e.Pre, diff)
		}
		changed = true
	}
	if changed || dirty || e.Blocks || e.changes() || len(after.Tmp) > 0 {
		wk.drop() // every edge starts from the spec's source state
	} else {
		wk.last = after
	}
}

func pickParams(seed int64, variant int) params {
	rnd := rand.New(rand.NewSource(seed*1000003 + int64(variant)*7907))
	sizes := []uint32{512, 1024, 4096}
	p := params{PageSize: sizes[(int(seed)+variant)%len(sizes)], Compress: (seed+int64(variant))%2 == 0, Seed: seed}
	p.IDa = 1 + rnd.Int63n(1<<40)
	p.IDb = p.IDa + 1 + rnd.Int63n(1000)
	p.Foreign = foreignDefault + uint64(rnd.Int63n(1<<30))<<32
	return p
}

func main() {
	if dir := os.Getenv("VERIF_C20_CHILD"); dir != "" {
		childMain(dir)
		return
	}
	args := core.ParseArgs()
	rep := core.NewReport("C20", "exploration", args)
	rep.Rule = "every edge (abstract node state reachable with <= 1 effective request, request class) of API.tla's complete state graph replayed as a real HTTP request against a real server of the right role; a case is (source state, request class); non-trivial = the spec classifies the request as not valid, or as valid with an effect"
	rep.Assumptions = []string{
		"the decision table API.tla is the oracle for which requests are malformed / role-disallowed / lacking a prerequisite; paths, headers and bodies beyond the enumerated classes are not decided",
		"nodes are real stores with real http.Servers in one process without a kernel mount (sim.Cluster); the lease service is simulated",
		"a request that must wait for a halt lock held by somebody else (/export, /import) may stay unanswered while the lock is held; this is not counted against 'gets a response'",
		"leftover *.ltx.tmp files and the shm file are not part of 'databases, positions, transaction logs and locks' (reported as evidence)",
	}
	rep.Exhaustive = true
	defer core.Cleanup()
	if os.Getenv("VERIF_LOG") != "" {
		logs.tee = os.Stderr
	}
	log.SetOutput(logs)
	litefs.TraceLog.SetOutput(io.Discard)

	core.Watchdog(120*time.Second, func(label string, since time.Duration) {
		if strings.HasPrefix(label, "real:") {
			rep.Violate("C20.M1-response", "hang/"+label, map[string]any{"no_progress_for": since.String(), "doing": label}, nil)
			rep.Finish()
		}
		core.Infra("no progress for %s while %s", since, label)
	})

	if args.Replay != "" {
		replay(rep, args.Replay)
		rep.Finish()
	}

	// ---- 1. model checking + edge emission ----
	var edges []edge
	var mu sync.Mutex
	res, err := core.RunTLC(core.TLCOpts{Module: "API", Cfg: "MC_API.cfg", Workers: 4, Timeout: 5 * time.Minute,
		OnLine: func(tag string, payload json.RawMessage) {
			if tag != "EDGE" {
				return
			}
			var e edge
			if err := json.Unmarshal(payload, &e); err != nil {
				core.Infra("bad EDGE line: %v: %s", err, payload)
			}
			mu.Lock()
			edges = append(edges, e)
			mu.Unlock()
		}})
	if err != nil {
		core.Infra("tlc: %v", err)
	}
	if !res.OK() {
		core.Infra("model checking of API.tla failed (model problem, not a code verdict): %s\n%s", res.Describe(), res.ErrorText+res.OutputTail)
	}
	rep.AddTLC("MC_API", res)
	if len(edges) < 10000 {
		core.Infra("expected >= 10000 edges from TLC, got %d", len(edges))
	}
	// longer sequences (up to 4 effective requests, e.g. halt -> handoff -> /tx with the lock still
	// granted, halt -> handoff -> promote -> ...) over the well-formed-looking request classes only
	nShallow := len(edges)
	resD, err := core.RunTLC(core.TLCOpts{Module: "API", Cfg: "MC_API_deep.cfg", Workers: 4, Timeout: 5 * time.Minute,
		OnLine: func(tag string, payload json.RawMessage) {
			if tag != "EDGE" {
				return
			}
			var e edge
			if err := json.Unmarshal(payload, &e); err != nil {
				core.Infra("bad EDGE line: %v: %s", err, payload)
			}
			if len(e.Path) < 2 { // the shallow ones are covered by the full table above
				return
			}
			mu.Lock()
			edges = append(edges, e)
			mu.Unlock()
		}})
	if err != nil {
		core.Infra("tlc: %v", err)
	}
	if !resD.OK() {
		core.Infra("model checking of API.tla (deep) failed (model problem, not a code verdict): %s\n%s", resD.Describe(), resD.ErrorText+resD.OutputTail)
	}
	rep.AddTLC("MC_API_deep", resD)
	rep.Extra["edges_deep_sequences"] = len(edges) - nShallow
	if !args.Quick() {
		// relevance: with a guard of the table removed (= what the real handlers do, see the known findings)
		// TLC must report the property on the model; evidence, not a verdict
		for _, cfg := range []string{"MC_API_mut_import.cfg", "MC_API_mut_halt.cfg", "MC_API_mut_tx.cfg"} {
			r2, err := core.RunTLC(core.TLCOpts{Module: "API", Cfg: cfg, Workers: 4, Timeout: 5 * time.Minute})
			if err != nil {
				core.Infra("tlc %s: %v", cfg, err)
			}
			if r2.Violation != "InvalidChangesNothing" {
				core.Infra("relevance configuration %s: expected TLC to report InvalidChangesNothing, got %s", cfg, r2.Describe())
			}
			rep.Note("relevance %s: TLC reports %s as expected", cfg, r2.Violation)
		}
	}

	// ---- 2. edge-complete replay ----
	st := newStats()
	variants := core.Pick(args, 1, 3)
	var plist []params
	for v := 0; v < variants; v++ {
		p := pickParams(args.Seed, v)
		plist = append(plist, p)
		replayAll(rep, edges, p, st)
	}
	rep.Extra["params"] = plist
	rep.Extra["edges_emitted"] = len(edges)
	fdKinds := map[string]int{}
	for _, f := range lsNames("/proc/self/fd") {
		t, _ := os.Readlink("/proc/self/fd/" + f)
		if i := strings.IndexAny(t, ":["); i > 0 {
			t = t[:i]
		} else if strings.HasPrefix(t, "/") {
			t = "file " + filepath.Base(t)
		}
		fdKinds[t]++
	}
	rep.Extra["open_file_descriptors_at_end"] = fdKinds
	rep.Extra["edges_replayed"] = st.edges
	rep.Extra["edges_skipped_source_state_not_reached"] = st.noState
	rep.Extra["clusters_built"] = st.rebuilds
	rep.Extra["requests_left_waiting_on_a_halt_lock_as_predicted"] = st.blocked
	rep.Extra["edges_by_class"] = st.byClass
	rep.Extra["transient_lock_observations_ignored"] = st.transient
	rep.Extra["violation_signatures_seen"] = st.sigs
	rep.Extra["worker_seconds"] = map[string]float64{"build_and_path": st.tBuild.Seconds(), "request": st.tSend.Seconds(), "settle_after_valid": st.tSettle.Seconds(), "close_cluster": st.tDrop.Seconds(), "info_probe": st.tInfo.Seconds()}
	sc := map[string]int{}
	for k, v := range st.byStatus {
		sc[fmt.Sprint(k)] = v
	}
	rep.Extra["responses_by_status"] = sc
	if len(st.tmp) > 0 {
		rep.Extra["temporary_files_left_behind_not_a_verdict"] = st.tmp
	}
	rep.TracesValidated += int64(st.edges)
	rep.Sample(map[string]any{"edge": edges[len(edges)/2]})

	// ---- 3. hostile length prefixes, child process under ulimit -v ----
	hostile(rep)
	// ---- 4. a subscriber of /events that stops reading while the node commits more than its buffer holds ----
	eventsSlowClient(rep, 1100)

	if un := logs.unattributed(); len(un) > 0 {
		rep.Eval(1)
		rep.Violate("C20.M2-no-panic", "M2-no-panic/unattributed", map[string]any{"log": un}, nil)
	}
	// failure paths (spec/Faults.tla): every call of the operation through the OS interface fails once
	faults.Run(rep, args, faults.Select{Ops: []string{"halt", "import"}, Monitors: []string{"locks"}})
	rep.Finish()
}

func replayAll(rep *core.Report, edges []edge, p params, st *stats) {
	// group by source state (= path), split into chunks so that workers share the load
	groups := map[string][]*edge{}
	var keys []string
	for i := range edges {
		e := &edges[i]
		pj, _ := json.Marshal(e.Path)
		k := e.Pre.Node + string(pj)
		if _, ok := groups[k]; !ok {
			keys = append(keys, k)
		}
		groups[k] = append(groups[k], e)
	}
	sort.Strings(keys)
	rnd := rand.New(rand.NewSource(p.Seed))
	var jobs [][]*edge
	for _, k := range keys {
		g := groups[k]
		sort.Slice(g, func(i, j int) bool { return g[i].Req.String() < g[j].Req.String() })
		rnd.Shuffle(len(g), func(i, j int) { g[i], g[j] = g[j], g[i] })
		for len(g) > 0 {
			n := 80
			if n > len(g) {
				n = len(g)
			}
			jobs = append(jobs, g[:n])
			g = g[n:]
		}
	}
	ch := make(chan []*edge)
	var wg sync.WaitGroup
	nw := runtime.NumCPU()
	if nw > 12 {
		nw = 12
	}
	for i := 0; i < nw; i++ {
		wg.Add(1)
		go func(i int) {
			defer wg.Done()
			wk := &worker{rep: rep, p: p, st: st, ip: fmt.Sprintf("127.0.20.%d", i+1)}
			for job := range ch {
				for _, e := range job {
					wk.runEdge(e, false)
				}
			}
			wk.drop()
		}(i)
	}
	for _, j := range jobs {
		ch <- j
	}
	close(ch)
	wg.Wait()
	closers.Wait()
}

// ---------------------------------------------------------------------------------------------
// hostile sizes: a primary in a child process under `ulimit -v`

const childLimitKB = 4 << 20 // 4 GiB of address space

func childMain(dir string) {
	log.SetOutput(os.Stderr)
	p := pickParams(1, 0)
	cl := sim.NewCluster(dir)
	cl.Lease.AllowOnly()
	n, err := cl.Start("p", sim.ClusterNodeOpts{Candidate: true})
	if err == nil {
		err = cl.Elect("p", 10*time.Second)
	}
	if err == nil {
		err = commitTx(n, "db", p.PageSize, 1, baseTx)
	}
	if err != nil {
		fmt.Printf("FAIL %v\n", err)
		os.Exit(3)
	}
	fmt.Printf("URL %s\n", n.URL)
	_, _ = io.Copy(io.Discard, os.Stdin) // parent closes stdin when done
	cl.Close()
}

type childProc struct {
	cmd   *exec.Cmd
	stdin io.WriteCloser
	url   string
	done  chan error
	errb  *bytes.Buffer
}

func startChild(dir string) (*childProc, error) {
	exe, err := os.Executable()
	if err != nil {
		return nil, err
	}
	cmd := exec.Command("sh", "-c", fmt.Sprintf("ulimit -v %d && exec \"$0\"", childLimitKB), exe)
	cmd.Env = append(os.Environ(), "VERIF_C20_CHILD="+dir)
	stdin, _ := cmd.StdinPipe()
	stdout, _ := cmd.StdoutPipe()
	cp := &childProc{cmd: cmd, stdin: stdin, done: make(chan error, 1), errb: &bytes.Buffer{}}
	cmd.Stderr = cp.errb
	if err := cmd.Start(); err != nil {
		return nil, err
	}
	line := make(chan string, 1)
	go func() {
		s, _ := bufio.NewReader(stdout).ReadString('\n')
		line <- s
		_, _ = io.Copy(io.Discard, stdout)
	}()
	go func() { cp.done <- cmd.Wait() }()
	select {
	case s := <-line:
		if !strings.HasPrefix(s, "URL ") {
			cp.kill()
			return nil, fmt.Errorf("child did not start: %q %s", s, tail(cp.errb.String(), 300))
		}
		cp.url = strings.TrimSpace(strings.TrimPrefix(s, "URL "))
	case <-time.After(30 * time.Second):
		cp.kill()
		return nil, fmt.Errorf("child did not report its URL within 30s")
	}
	return cp, nil
}

func (cp *childProc) kill() {
	_ = cp.stdin.Close()
	select {
	case <-cp.done:
	case <-time.After(3 * time.Second):
		_ = cp.cmd.Process.Kill()
		select {
		case <-cp.done:
		case <-time.After(3 * time.Second):
		}
	}
}

func tail(s string, n int) string {
	if len(s) > n {
		return s[len(s)-n:]
	}
	return s
}

func head(s string, n int) string {
	if len(s) > n {
		return s[:n]
	}
	return s
}

func hostile(rep *core.Report) {
	probes := []struct {
		name string
		body []byte
	}{
		{"posmap-count-0xffffffff", []byte{0xff, 0xff, 0xff, 0xff}},
		{"posmap-name-length-0xffffffff", append([]byte{0, 0, 0, 1, 0xff, 0xff, 0xff, 0xff}, []byte("db")...)},
	}
	var out []map[string]any
	for _, pr := range probes {
		ev := map[string]any{"probe": "POST /stream (h2c) " + pr.name, "ulimit_v_kb": childLimitKB}
		out = append(out, ev)
		core.Beat("real:hostile-child")
		cp, err := startChild(core.Scratch("child"))
		if err != nil {
			ev["skipped"] = err.Error()
			continue
		}
		res := send(concrete{Method: "POST", URL: cp.url + "/stream", Header: litefs.FormatNodeID(foreignDefault), Body: pr.body}, "h2c", 10*time.Second, "")
		ev["result"] = res
		time.Sleep(50 * time.Millisecond)
		died := false
		select {
		case werr := <-cp.done:
			cp.done <- werr
			died = true
			ev["child_exit"] = fmt.Sprint(werr)
			ev["child_stderr_head"] = head(cp.errb.String(), 400)
		default:
		}
		if !died {
			info := send(concrete{Method: "GET", URL: cp.url + "/info"}, "h1", 10*time.Second, "")
			ev["info_after"] = info
		}
		cp.kill()
		core.Beat("harness")
		rep.Eval(2)
		if died {
			rep.Violate("C20.M2-no-crash", "hostile/stream/"+pr.name+"/child-process-died", ev, map[string]any{"hostile": pr.name})
		} else if !res.Responded {
			rep.Violate("C20.M1-response", "hostile/stream/"+pr.name+"/no-response", ev, map[string]any{"hostile": pr.name})
		}
	}
	rep.Extra["hostile_length_prefix_probes"] = out
}

// ---------------------------------------------------------------------------------------------

func replay(rep *core.Report, path string) {
	b, err := os.ReadFile(path)
	if err != nil {
		core.Infra("read replay: %v", err)
	}
	var f struct {
		Replay struct {
			Edge    *edge   `json:"edge"`
			Params  *params `json:"params"`
			Hostile string  `json:"hostile"`
		} `json:"replay"`
	}
	if err := json.Unmarshal(b, &f); err != nil {
		core.Infra("parse replay: %v", err)
	}
	if f.Replay.Hostile != "" {
		hostile(rep)
		fmt.Printf("%v\n", rep.Extra["hostile_length_prefix_probes"])
		return
	}
	if f.Replay.Edge == nil {
		core.Infra("replay file has no edge")
	}
	p := pickParams(rep.Args.Seed, 0)
	if f.Replay.Params != nil {
		p = *f.Replay.Params
	}
	st := newStats()
	wk := &worker{rep: rep, p: p, st: st, ip: "127.0.20.1"}
	wk.runEdge(f.Replay.Edge, true)
	wk.drop()
	closers.Wait()
	for _, l := range logs.unattributed() {
		fmt.Printf("log: %s\n", head(l, 300))
	}
}
