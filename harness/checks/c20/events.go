package main

import (
	"bytes"
	"context"
	"fmt"
	"net"
	"net/url"
	"time"

	lhttp "github.com/superfly/litefs/http"
	"github.com/superfly/litefs/verifharness/core"
	"github.com/superfly/litefs/verifharness/sim"
	"golang.org/x/net/http2"
	"golang.org/x/net/http2/hpack"
)

// eventsSlowClient: "every request ... receives an HTTP response without ... wedging the node", for the
// accumulating case: a well-formed GET /events whose client stops reading (HTTP/2 flow-control window 0)
// while the node goes on committing - more transactions than the per-subscriber event buffer holds (1024).
// Every request sent meanwhile and afterwards must be answered.
func eventsSlowClient(rep *core.Report, n int) {
	core.Beat("real:c20:events-slow-client")
	cl := sim.NewCluster(core.Scratch("c20-events"))
	defer func() { _ = core.Try(cl.Close) }()
	cl.Lease.AllowOnly()
	p, err := cl.Start("p", sim.ClusterNodeOpts{Candidate: true})
	if err != nil {
		core.Infra("start p: %v", err)
	}
	if err := cl.Elect("p", 20*time.Second); err != nil {
		core.Infra("elect: %v", err)
	}
	u, _ := url.Parse(p.URL)
	conn, err := net.Dial("tcp", u.Host)
	if err != nil {
		core.Infra("dial: %v", err)
	}
	defer conn.Close()
	// HTTP/2 with prior knowledge; initial window 0 and no WINDOW_UPDATE ever: the server can send the
	// response headers but not a single byte of the event stream
	_, _ = conn.Write([]byte(http2.ClientPreface))
	fr := http2.NewFramer(conn, conn)
	_ = fr.WriteSettings(http2.Setting{ID: http2.SettingInitialWindowSize, Val: 0})
	var hb bytes.Buffer
	enc := hpack.NewEncoder(&hb)
	for _, f := range [][2]string{{":method", "GET"}, {":scheme", "http"}, {":authority", u.Host}, {":path", "/events"}} {
		_ = enc.WriteField(hpack.HeaderField{Name: f[0], Value: f[1]})
	}
	_ = fr.WriteHeaders(http2.HeadersFrameParam{StreamID: 1, BlockFragment: hb.Bytes(), EndStream: true, EndHeaders: true})
	go func() { // acknowledge settings, otherwise ignore everything
		for {
			f, err := fr.ReadFrame()
			if err != nil {
				return
			}
			if sf, ok := f.(*http2.SettingsFrame); ok && !sf.IsAck() {
				_ = fr.WriteSettingsAck()
			}
		}
	}()
	time.Sleep(100 * time.Millisecond)
	l := sim.L0(512)
	img := l.ImageOf([]sim.Content{{V: 1, Sz: 1}}).Pages[1]
	client := lhttp.NewClient()
	answered := 0
	var firstHang string
	for i := 0; i < n && firstHang == ""; i++ {
		ctx, cancel := context.WithTimeout(context.Background(), 10*time.Second)
		err := client.Import(ctx, p.URL, "ev.db", bytes.NewReader(img))
		cancel()
		if err != nil && ctx.Err() != nil {
			firstHang = fmt.Sprintf("POST /import #%d: %v", i+1, err)
			break
		}
		answered++
		if i%100 == 0 {
			core.Beat("real:c20:events-slow-client")
		}
	}
	rep.Eval(2)
	rep.TracesValidated++
	rep.Case("events-slow-client", true)
	detail := map[string]any{"transactions_sent": n, "answered": answered}
	if firstHang == "" {
		ctx, cancel := context.WithTimeout(context.Background(), 10*time.Second)
		_, ierr := client.Info(ctx, p.URL)
		cancel()
		if ierr != nil {
			firstHang = "GET /info afterwards: " + ierr.Error()
		}
	}
	if firstHang != "" {
		detail["first_request_without_response"] = firstHang
		rep.Violate("C20.M1-response", "events-slow-client/no-response", detail, map[string]any{"events_slow_client": n})
	}
	core.Beat("harness")
}
