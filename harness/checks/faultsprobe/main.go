// faultsprobe runs every case of Faults.tla with every monitor group (development aid; not a registered check).
package main

import (
	"os"
	"strings"
	"time"

	"github.com/superfly/litefs/verifharness/core"
	"github.com/superfly/litefs/verifharness/faults"
)

func main() {
	args := core.ParseArgs()
	prop := os.Getenv("FAULTS_PROP")
	if prop == "" {
		prop = "C00"
	}
	rep := core.NewReport(prop, "model_checking", args)
	rep.Rule = "development probe"
	defer core.Cleanup()
	core.Watchdog(120*time.Second, func(label string, since time.Duration) { core.Infra("no progress for %s while %s", since, label) })
	ops := []string{"rb_commit", "wal_commit", "import", "halt", "recover", "drop", "backup_sync", "replica_apply", "replica_snapshot", "open", "role_change"}
	if s := os.Getenv("FAULTS_OPS"); s != "" {
		ops = strings.Split(s, ",")
	}
	faults.Run(rep, args, faults.Select{Ops: ops, Monitors: []string{"posfile", "mount", "image", "chain", "checksum", "export", "locks", "restart", "journal", "backup", "effect", "replica-image", "replica-mount", "replica-checksum", "replica-chain", "replica-restart"}})
	rep.Finish()
}
