package main

import (
	"fmt"
	"sort"

	"github.com/superfly/litefs"
	"github.com/superfly/litefs/verifharness/core"
)

// byteRanges: the twelve locks are POSIX byte-range locks on fixed bytes of the database file and of the
// -shm file; a request for [start, end] concerns exactly the locks whose byte lies in the range ("POSIX
// byte-range lock rules between distinct owners"). Every range around the lock bytes is mapped by the real
// parsers and compared with that definition: a lock missing from the answer is a request that is granted
// without being looked at, an extra one is a lock nobody asked for.
func byteRanges(rep *core.Report) {
	shm := []litefs.LockType{litefs.LockTypeWrite, litefs.LockTypeCkpt, litefs.LockTypeRecover, litefs.LockTypeRead0, litefs.LockTypeRead1,
		litefs.LockTypeRead2, litefs.LockTypeRead3, litefs.LockTypeRead4, litefs.LockTypeDMS}
	dbl := []litefs.LockType{litefs.LockTypePending, litefs.LockTypeReserved, litefs.LockTypeShared}
	check := func(kind string, all []litefs.LockType, parse func(start, end uint64) []litefs.LockType, lo, hi uint64) {
		for start := lo; start <= hi; start++ {
			for end := start; end <= hi; end++ {
				var want []string
				for _, t := range all {
					if start <= uint64(t) && uint64(t) <= end {
						want = append(want, t.String())
					}
				}
				var got []string
				for _, t := range parse(start, end) {
					got = append(got, t.String())
				}
				sort.Strings(want)
				sort.Strings(got)
				rep.Eval(1)
				rep.Case(fmt.Sprintf("byte-range/%s/%d-%d", kind, start, end), len(want) > 0)
				if fmt.Sprint(got) != fmt.Sprint(want) {
					rep.Violate("C12.range-names-its-locks", fmt.Sprintf("byte-range/%s/%d-%d", kind, start, end),
						map[string]any{"file": kind, "start": start, "end": end, "locks_in_range": want, "parser_answer": got}, map[string]any{"kind": "byte-range", "file": kind, "start": start, "end": end})
				}
			}
		}
	}
	min := func(a []litefs.LockType) uint64 {
		m := uint64(a[0])
		for _, t := range a {
			if uint64(t) < m {
				m = uint64(t)
			}
		}
		return m
	}
	max := func(a []litefs.LockType) uint64 {
		m := uint64(a[0])
		for _, t := range a {
			if uint64(t) > m {
				m = uint64(t)
			}
		}
		return m
	}
	check("shm", shm, litefs.ParseSHMLockRange, min(shm)-2, max(shm)+2)
	// the database file's lock bytes: PENDING, RESERVED and the first byte of the SHARED range
	check("database", dbl, litefs.ParseDatabaseLockRange, min(dbl)-2, max(dbl)+3)
	// whole-file ranges as SQLite's unlock-everything requests use them
	for _, r := range [][2]uint64{{0, ^uint64(0)}, {0, 1 << 40}, {min(dbl), min(dbl) + 511}} {
		rep.Eval(2)
		if got := litefs.ParseSHMLockRange(r[0], r[1]); len(got) != len(shm) && r[0] == 0 {
			rep.Violate("C12.range-names-its-locks", fmt.Sprintf("byte-range/shm/whole/%d", r[1]), map[string]any{"answer": fmt.Sprint(got)}, nil)
		}
		if got := litefs.ParseDatabaseLockRange(r[0], r[1]); len(got) != len(dbl) {
			rep.Violate("C12.range-names-its-locks", fmt.Sprintf("byte-range/database/whole/%d-%d", r[0], r[1]), map[string]any{"answer": fmt.Sprint(got)}, nil)
		}
	}
}
