// Check C12: each advisory lock obeys reader/writer semantics with upgrade and downgrade.
//
// spec -> impl: every edge of RWMutex.tla's complete state graph (4 owners) is replayed on a real
// litefs.RWMutex and the projection compared after the step; blocking Lock/RLock scenarios are
// derived from the edges on which availability flips; each of them is run again with the waiter's
// context ended at every point RWMutexCancel.tla distinguishes (cancel.go).
// impl -> spec: goroutines hammer one real RWMutex (race detector on), the call/return log is
// validated by RWMutexTrace.tla (TLC searches a linearisation).
package main

import (
	"context"
	"encoding/json"
	"fmt"
	"math/rand"
	"os"
	"path/filepath"
	"strings"
	"sync"
	"time"

	"github.com/superfly/litefs"
	"github.com/superfly/litefs/verifharness/core"
	"github.com/superfly/litefs/verifharness/faults"
	"github.com/superfly/litefs/verifharness/sim"
)

type call struct {
	Op string `json:"op"`
	O  string `json:"o"`
}

type proj struct {
	M    string            `json:"m"`
	G    map[string]string `json:"g"`
	CanX map[string]bool   `json:"canX"`
	CanS map[string]bool   `json:"canS"`
}

type edge struct {
	Path []call `json:"path"`
	Act  struct {
		Op     string `json:"op"`
		O      string `json:"o"`
		Res    bool   `json:"res"`
		MState string `json:"mstate"`
	} `json:"act"`
	Pre  proj `json:"pre"`
	Post proj `json:"post"`
}

var owners = []string{"a", "b", "c", "d"}

var errCtx = fmt.Errorf("context ended")

type world struct {
	rw *litefs.RWMutex
	g  map[string]*litefs.RWMutexGuard
}

func newWorld() *world {
	w := &world{rw: &litefs.RWMutex{}, g: map[string]*litefs.RWMutexGuard{}}
	for _, o := range owners {
		g := w.rw.Guard()
		w.g[o] = &g
	}
	return w
}

// do performs one call on the real mutex; a panic escaping from litefs is returned as an error.
func (w *world) do(op, o string) (res bool, err error) {
	core.Beat("real:" + op)
	defer core.Beat("harness")
	if p := core.Try(func() { res, err = w.do1(op, o) }); p != nil {
		return false, fmt.Errorf("panic: %s", p.Value)
	}
	return res, err
}

func (w *world) do1(op, o string) (res bool, err error) {
	g := w.g[o]
	switch op {
	case "TryLock":
		return g.TryLock(), nil
	case "TryRLock":
		return g.TryRLock(), nil
	case "Unlock":
		g.Unlock()
		return true, nil
	case "CanLock":
		ok, _ := g.CanLock()
		return ok, nil
	case "CanRLock":
		return g.CanRLock(), nil
	case "LockCancel", "RLockCancel":
		ctx, cancel := context.WithCancel(context.Background())
		cancel()
		done := make(chan error, 1)
		go func() {
			var e error
			if p := core.Try(func() {
				if op == "LockCancel" {
					e = g.Lock(ctx)
				} else {
					e = g.RLock(ctx)
				}
			}); p != nil {
				done <- fmt.Errorf("panic: %s", p.Value)
				return
			}
			if e == nil {
				done <- nil
			} else {
				done <- errCtx
			}
		}()
		select {
		case e := <-done:
			if e != nil && e != errCtx {
				return false, e
			}
			return e == nil, nil
		case <-time.After(10 * time.Second):
			return false, fmt.Errorf("blocking call did not return within 10s of context end")
		}
	}
	return false, fmt.Errorf("unknown op %q", op)
}

func (w *world) proj() proj {
	core.Beat("real:State")
	defer core.Beat("harness")
	p := proj{M: w.rw.State().String(), G: map[string]string{}, CanX: map[string]bool{}, CanS: map[string]bool{}}
	for _, o := range owners {
		p.G[o] = w.g[o].State().String()
		p.CanX[o], _ = w.g[o].CanLock()
		p.CanS[o] = w.g[o].CanRLock()
	}
	return p
}

func projEq(a, b proj) bool {
	if a.M != b.M {
		return false
	}
	for _, o := range owners {
		if a.G[o] != b.G[o] || a.CanX[o] != b.CanX[o] || a.CanS[o] != b.CanS[o] {
			return false
		}
	}
	return true
}

func main() {
	args := core.ParseArgs()
	rep := core.NewReport("C12", "model_checking", args)
	rep.Rule = "every edge (state, owner, operation) of the complete 4-owner state graph of RWMutex.tla replayed on a real RWMutex; non-trivial = edges whose source state has at least one lock held or whose call fails; plus blocking scenarios on every availability flip and concurrent traces validated by TLC"
	rep.Assumptions = []string{"one goroutine per guard (owner)", "TLC explores the 4-owner state space completely; more owners are covered only by symmetry of the code in the owner"}
	rep.Exhaustive = true
	defer core.Cleanup()
	if os.Getenv("C12_DIRECTED") == "composite" { // development aid (never commit its evidence)
		compositeCancelled(rep)
		rep.Finish()
	}

	core.Watchdog(90*time.Second, func(label string, since time.Duration) {
		if strings.HasPrefix(label, "real:") {
			rep.Violate("C12.no-panic-or-hang", "hang/"+label, map[string]any{"no_progress_for": since.String(), "doing": label}, nil)
			rep.Finish()
		}
		core.Infra("no progress for %s while %s", since, label)
	})

	if args.Replay != "" {
		replay(rep, args.Replay)
		rep.Finish()
	}

	// ---- 1. exhaustive model checking + edge emission ----
	var edges []edge
	var mu sync.Mutex
	res, err := core.RunTLC(core.TLCOpts{Module: "RWMutex", Cfg: "MC_RWMutex.cfg", Workers: 4, Timeout: 3 * time.Minute,
		OnLine: func(tag string, payload json.RawMessage) {
			if tag != "EDGE" {
				return
			}
			var e edge
			if err := json.Unmarshal(payload, &e); err != nil {
				core.Infra("bad EDGE line: %v: %s", err, payload)
			}
			mu.Lock()
			edges = append(edges, e)
			mu.Unlock()
		}})
	if err != nil {
		core.Infra("tlc: %v", err)
	}
	if !res.OK() {
		core.Infra("model checking of RWMutex.tla failed (model problem, not a code verdict): %s\n%s", res.Describe(), res.ErrorText+res.OutputTail)
	}
	rep.AddTLC("MC_RWMutex", res)
	if len(edges) < 400 {
		core.Infra("expected >= 400 edges from TLC, got %d", len(edges))
	}

	// ---- 2. edge-complete replay ----
	for i := range edges {
		replayEdge(rep, &edges[i])
	}
	rep.Sample(map[string]any{"edge": edges[len(edges)/2]})

	// ---- 3. blocking scenarios on availability flips ----
	nblock := 0
	for i := range edges {
		nblock += blocking(rep, &edges[i])
	}
	rep.Extra["blocking_scenarios"] = nblock
	rep.Extra["edges_replayed"] = len(edges)
	rep.TracesValidated += int64(len(edges) + nblock)

	// ---- 3b. blocking calls whose context ends at chosen points (RWMutexCancel.tla, cancel.go) ----
	rep.TracesValidated += int64(cancelStage(rep, args, edges))

	// ---- 4. concurrent traces validated by TLC ----
	rounds := core.Pick(args, 12, 120)
	opsPer := core.Pick(args, 60, 150)
	concurrent(rep, args, rounds, opsPer)

	byteRanges(rep)
	releaseAll(rep)
	sameOwner(rep, core.Pick(args, 150000, 1500000))
	compositeCancelled(rep)
	// failure paths (spec/Faults.tla): every call of the operation through the OS interface fails once
	faults.Run(rep, args, faults.Select{Ops: []string{"halt", "import", "drop"}, Monitors: []string{"locks"}, Kinds: core.Pick(args, []string{"error"}, faults.LocalKinds), Layouts: core.Pick(args, []sim.Layout{sim.L0(4096)}, []sim.Layout{sim.L0(4096), sim.L1(512)})})
	rep.Finish()
}

func replayEdge(rep *core.Report, e *edge) {
	w := newWorld()
	for _, c := range e.Path {
		if _, err := w.do(c.Op, c.O); err != nil {
			rep.Eval(1)
			rep.Violate("C12.no-panic-or-hang", "edge/path/"+c.Op, map[string]any{"error": err.Error()}, map[string]any{"path": e.Path})
			return
		}
	}
	pre := w.proj()
	key := fmt.Sprintf("%v|%s|%s", e.Pre.G, e.Act.Op, e.Act.O)
	nontrivial := e.Pre.M != "unlocked" || !e.Act.Res
	rep.Case(key, nontrivial)
	rp := map[string]any{"path": e.Path, "act": e.Act}
	if !projEq(pre, e.Pre) {
		rep.Eval(1)
		rep.Violate("C12.state-after-path", "edge/prestate", map[string]any{"expected": e.Pre, "observed": pre}, rp)
		return
	}
	got, err := w.do(e.Act.Op, e.Act.O)
	if err != nil {
		rep.Eval(1)
		rep.Violate("C12.no-panic-or-hang", "edge/"+e.Act.Op+"/hang-or-panic", map[string]any{"error": err.Error()}, rp)
		return
	}
	post := w.proj()
	rep.Eval(4)
	if got != e.Act.Res {
		rep.Violate("C12.result-is-posix", "edge/"+e.Act.Op+"/result", map[string]any{"expected": e.Act.Res, "observed": got, "pre": e.Pre}, rp)
		return
	}
	if !projEq(post, e.Post) {
		rep.Violate("C12.state-after-call", "edge/"+e.Act.Op+"/state", map[string]any{"expected": e.Post, "observed": post, "pre": e.Pre}, rp)
		return
	}
	// a failed attempt (and every query) changes nothing
	if (!got || strings.HasPrefix(e.Act.Op, "Can")) && !projEq(pre, post) {
		rep.Violate("C12.failure-changes-nothing", "edge/"+e.Act.Op+"/sideeffect", map[string]any{"pre": pre, "post": post}, rp)
	}
}

// blocking derives, from an edge on which Lock/RLock availability for another owner flips from
// false to true, the scenario "waiter blocks, holder acts, waiter returns as soon as available".
func blocking(rep *core.Report, e *edge) int {
	n := 0
	for _, kind := range []string{"Lock", "RLock"} {
		for _, o := range owners {
			if o == e.Act.O {
				continue
			}
			pre, post := e.Pre.CanX[o], e.Post.CanX[o]
			if kind == "RLock" {
				pre, post = e.Pre.CanS[o], e.Post.CanS[o]
			}
			if pre || !post {
				continue
			}
			n++
			w := newWorld()
			for _, c := range e.Path {
				_, _ = w.do(c.Op, c.O)
			}
			ctx, cancel := context.WithTimeout(context.Background(), 20*time.Second)
			done := make(chan error, 1)
			go func() {
				var e error
				if p := core.Try(func() {
					if kind == "Lock" {
						e = w.g[o].Lock(ctx)
					} else {
						e = w.g[o].RLock(ctx)
					}
				}); p != nil {
					e = fmt.Errorf("panic: %s", p.Value)
				}
				done <- e
			}()
			rp := map[string]any{"path": e.Path, "waiter": o, "kind": kind, "then": e.Act}
			rep.Eval(3)
			select {
			case err := <-done:
				cancel()
				rep.Violate("C12.blocks-while-unavailable", "block/"+kind+"/early", map[string]any{"returned": fmt.Sprint(err)}, rp)
				continue
			case <-time.After(2 * time.Millisecond):
			}
			if _, err := w.do(e.Act.Op, e.Act.O); err != nil {
				cancel()
				continue // already reported by the edge replay
			}
			start := time.Now()
			select {
			case err := <-done:
				if err != nil {
					rep.Violate("C12.returns-when-available", "block/"+kind+"/error", map[string]any{"error": err.Error()}, rp)
				}
			case <-time.After(5 * time.Second):
				// R5: only a verdict if an immediate re-run shows the same
				rep.Violate("C12.returns-when-available", "block/"+kind+"/stuck", map[string]any{"waited": time.Since(start).String()}, rp)
			}
			cancel()
			want := "exclusive"
			if kind == "RLock" {
				want = "shared"
			}
			if got := w.g[o].State().String(); got != want {
				rep.Violate("C12.returns-when-available", "block/"+kind+"/state", map[string]any{"expected": want, "observed": got}, rp)
			}
		}
	}
	return n
}

type event struct {
	Ev  string `json:"ev"`
	O   string `json:"o,omitempty"`
	Op  string `json:"op,omitempty"`
	Res bool   `json:"res"`
}

func concurrent(rep *core.Report, args *core.Args, rounds, opsPer int) {
	var log []event
	var lmu sync.Mutex
	emit := func(e event) {
		lmu.Lock()
		log = append(log, e)
		lmu.Unlock()
	}
	ops := []string{"TryLock", "TryRLock", "Unlock", "CanLock", "CanRLock", "Unlock", "TryRLock", "TryLock"}
	for r := 0; r < rounds; r++ {
		w := newWorld()
		var wg sync.WaitGroup
		for i, o := range owners {
			wg.Add(1)
			go func(i int, o string) {
				defer wg.Done()
				rnd := rand.New(rand.NewSource(args.Seed*1000003 + int64(r)*131 + int64(i)))
				for k := 0; k < opsPer; k++ {
					op := ops[rnd.Intn(len(ops))]
					emit(event{Ev: "call", O: o, Op: op})
					res, err := w.do(op, o)
					if err != nil {
						rep.Violate("C12.no-panic-or-hang", "concurrent/panic", map[string]any{"error": err.Error(), "op": op}, nil)
						return
					}
					emit(event{Ev: "ret", O: o, Res: res})
					if rnd.Intn(4) == 0 {
						time.Sleep(time.Duration(rnd.Intn(20)) * time.Microsecond)
					}
				}
			}(i, o)
		}
		wg.Wait()
		emit(event{Ev: "reset"})
	}
	// validated in batches of at most 15 rounds (one TLC run each, a few in parallel): the search is
	// linear in the length of a trace, but one JVM walking a hundred thousand events takes minutes
	var batches [][]event
	var cur []event
	nr := 0
	for _, e := range log {
		cur = append(cur, e)
		if e.Ev == "reset" {
			if nr++; nr%15 == 0 {
				batches, cur = append(batches, cur), nil
			}
		}
	}
	if len(cur) > 0 {
		batches = append(batches, cur)
	}
	type verdict struct {
		ok  bool
		res *core.TLCResult
	}
	out := make([]verdict, len(batches))
	sem := make(chan struct{}, 4)
	var vwg sync.WaitGroup
	for i := range batches {
		vwg.Add(1)
		sem <- struct{}{}
		go func(i int) {
			defer vwg.Done()
			defer func() { <-sem }()
			out[i].ok, out[i].res = validate(batches[i])
		}(i)
	}
	vwg.Wait()
	for i, v := range out {
		rep.AddTLC(fmt.Sprintf("Trace_RWMutex[%d]", i), v.res)
		if !v.ok {
			p := saveTrace(batches[i], fmt.Sprintf("c12-rejected-%d", i))
			rep.Violate("C12.linearizable-posix", "concurrent/linearizability", map[string]any{"tlc": v.res.Describe(), "trace": p}, map[string]any{"trace_file": p})
		}
	}
	rep.Eval(len(log))
	rep.TracesValidated += int64(rounds)
	rep.Extra["concurrent_events"] = len(log)
	rep.Extra["trace_validation_batches"] = len(batches)
	if len(log) > 12 {
		rep.Sample(map[string]any{"concurrent_trace_prefix": log[:12]})
	}
	// binding self-test: a sequential trace with one result flipped must be rejected
	w := newWorld()
	var seq []event
	for _, c := range []call{{"TryRLock", "a"}, {"TryLock", "b"}, {"TryRLock", "b"}, {"TryLock", "a"}, {"Unlock", "b"}, {"TryLock", "a"}} {
		r, _ := w.do(c.Op, c.O)
		seq = append(seq, event{Ev: "call", O: c.O, Op: c.Op}, event{Ev: "ret", O: c.O, Res: r})
	}
	if ok, _ := validate(seq); !ok {
		core.Infra("trace validation rejects a correct sequential trace (trace spec or pipeline broken)")
	}
	seq[3].Res = !seq[3].Res
	if ok, _ := validate(seq); ok {
		core.Infra("trace validation accepts a corrupted trace (binding vacuous)")
	}
}

func saveTrace(log []event, name string) string {
	dir := filepath.Join(core.VerifRoot(), "replays", "C12")
	_ = os.MkdirAll(dir, 0o777)
	p := filepath.Join(dir, name+".ndjson")
	writeTrace(p, log)
	return p
}

func writeTrace(p string, log []event) {
	var sb strings.Builder
	for _, e := range log {
		b, _ := json.Marshal(e)
		sb.Write(b)
		sb.WriteByte('\n')
	}
	if err := os.WriteFile(p, []byte(sb.String()), 0o644); err != nil {
		core.Infra("write trace: %v", err)
	}
}

func validate(log []event) (bool, *core.TLCResult) {
	core.Beat("tlc")
	stop := make(chan struct{})
	defer close(stop)
	go func() {
		for {
			select {
			case <-stop:
				core.Beat("harness")
				return
			case <-time.After(5 * time.Second):
				core.Beat("tlc")
			}
		}
	}()
	dir := core.Scratch("trace")
	p := filepath.Join(dir, "trace.ndjson")
	writeTrace(p, log)
	res, err := core.RunTLC(core.TLCOpts{Module: "RWMutexTrace", Cfg: "Trace_RWMutex.cfg", Workers: 1, DFS: true, Timeout: 10 * time.Minute,
		Env: map[string]string{"TRACE_FILE": p}})
	if err != nil {
		core.Infra("tlc trace validation: %v", err)
	}
	if res.TimedOut {
		core.Infra("tlc trace validation timed out: %s", res.Describe())
	}
	switch res.Violation {
	case "NotAccepted":
		return true, res
	case "":
		if res.ExitCode != 0 {
			core.Infra("tlc trace validation failed: %s\n%s", res.Describe(), res.OutputTail)
		}
		return false, res
	default:
		core.Infra("unexpected TLC result in trace validation: %s\n%s", res.Describe(), res.ErrorText)
	}
	return false, res
}

func replay(rep *core.Report, path string) {
	b, err := os.ReadFile(path)
	if err != nil {
		core.Infra("read replay: %v", err)
	}
	var f struct {
		Replay struct {
			Path      []call `json:"path"`
			Act       *call  `json:"act"`
			TraceFile string `json:"trace_file"`
		} `json:"replay"`
	}
	if err := json.Unmarshal(b, &f); err != nil {
		core.Infra("parse replay: %v", err)
	}
	var cc struct {
		Replay cancelCase `json:"replay"`
	}
	if err := json.Unmarshal(b, &cc); err == nil && cc.Replay.CancelAt != "" {
		replayCancel(rep, &cc.Replay)
		return
	}
	if f.Replay.TraceFile != "" {
		tb, err := os.ReadFile(f.Replay.TraceFile)
		if err != nil {
			core.Infra("read trace: %v", err)
		}
		var log []event
		for _, l := range strings.Split(strings.TrimSpace(string(tb)), "\n") {
			var e event
			_ = json.Unmarshal([]byte(l), &e)
			log = append(log, e)
		}
		ok, res := validate(log)
		fmt.Printf("recorded trace accepted=%v (%s)\n", ok, res.Describe())
		return
	}
	w := newWorld()
	for _, c := range f.Replay.Path {
		r, _ := w.do(c.Op, c.O)
		fmt.Printf("%s(%s) -> %v   %+v\n", c.Op, c.O, r, w.proj())
	}
	if f.Replay.Act != nil {
		r, _ := w.do(f.Replay.Act.Op, f.Replay.Act.O)
		fmt.Printf("%s(%s) -> %v   %+v\n", f.Replay.Act.Op, f.Replay.Act.O, r, w.proj())
	}
}
