package main

import (
	"context"
	"fmt"
	"os"
	"sync"

	"github.com/superfly/litefs"
	"github.com/superfly/litefs/verifharness/core"
	"github.com/superfly/litefs/verifharness/sim"
)

// sameOwner: the locks of one owner are reached through the database's owner table (DB.TryLocks / TryRLocks /
// Unlock by owner id, as the FUSE handlers call them), and the kernel can deliver two requests of one owner at
// the same time (two threads of a process, a close racing a lock request). Two goroutines of the SAME owner
// lock and unlock different locks as fast as they can; afterwards - everything having been unlocked by its
// holder - every lock must be free again: a different owner gets each of them exclusively.
func sameOwner(rep *core.Report, rounds int) {
	dir := core.Scratch("c12-sameowner")
	defer os.RemoveAll(dir)
	n, err := sim.OpenNode(sim.NodeOpts{Dir: dir, Primary: true})
	if err != nil {
		core.Infra("open node: %v", err)
	}
	defer n.Close()
	c := n.Connect("db", 5)
	if err := c.OpenDB(true); err != nil {
		core.Infra("create db: %v", err)
	}
	db := n.Store.DB("db")
	ctx := context.Background()
	const owner = 4242
	type job struct {
		t     litefs.LockType
		write bool
	}
	jobs := []job{{litefs.LockTypeReserved, true}, {litefs.LockTypeShared, false}, {litefs.LockTypeRead1, false}}
	var wg sync.WaitGroup
	core.Beat("real:c12:same-owner")
	for _, j := range jobs {
		wg.Add(1)
		go func(j job) {
			defer wg.Done()
			for i := 0; i < rounds; i++ {
				ok := false
				if j.write {
					ok, _ = db.TryLocks(ctx, owner, []litefs.LockType{j.t})
				} else {
					ok = db.TryRLocks(ctx, owner, []litefs.LockType{j.t})
				}
				if ok {
					_ = db.Unlock(ctx, owner, []litefs.LockType{j.t})
				}
			}
		}(j)
	}
	wg.Wait()
	core.Beat("harness")
	rep.Eval(len(jobs))
	rep.TracesValidated++
	rep.Case("same-owner-concurrent-requests", true)
	var stuck []string
	for _, j := range jobs {
		ok, _ := db.TryLocks(ctx, 7777, []litefs.LockType{j.t})
		if !ok {
			stuck = append(stuck, j.t.String())
		} else {
			_ = db.Unlock(ctx, 7777, []litefs.LockType{j.t})
		}
	}
	if len(stuck) > 0 {
		rep.Violate("C12.unlock-releases", "same-owner/lock-still-held-after-every-unlock",
			map[string]any{"locks_not_obtainable_by_another_owner": stuck, "rounds_per_goroutine": rounds, "what": fmt.Sprintf("owner %d unlocked every lock it took", owner)},
			map[string]any{"kind": "same-owner"})
	}
}

// releaseAll: the release-everything paths (close of the -shm descriptor: DB.UnlockSHM; close of the database
// descriptor: DB.UnlockDatabase) end every lock of the owner on that file, shared or exclusive: afterwards
// another owner obtains each of them exclusively.
func releaseAll(rep *core.Report) {
	dir := core.Scratch("c12-releaseall")
	defer os.RemoveAll(dir)
	n, err := sim.OpenNode(sim.NodeOpts{Dir: dir, Primary: true})
	if err != nil {
		core.Infra("open node: %v", err)
	}
	defer n.Close()
	c := n.Connect("db", 5)
	if err := c.OpenDB(true); err != nil {
		core.Infra("create db: %v", err)
	}
	db := n.Store.DB("db")
	ctx := context.Background()
	shm := []litefs.LockType{litefs.LockTypeWrite, litefs.LockTypeCkpt, litefs.LockTypeRecover, litefs.LockTypeRead0, litefs.LockTypeRead1,
		litefs.LockTypeRead2, litefs.LockTypeRead3, litefs.LockTypeRead4, litefs.LockTypeDMS}
	dbl := []litefs.LockType{litefs.LockTypePending, litefs.LockTypeShared, litefs.LockTypeReserved}
	for _, excl := range []bool{false, true} {
		for _, file := range []string{"shm", "database"} {
			set := shm
			if file == "database" {
				set = dbl
			}
			const a, b = 5001, 5002
			for _, t := range set {
				ok := false
				if excl {
					ok, _ = db.TryLocks(ctx, a, []litefs.LockType{t})
				} else {
					ok = db.TryRLocks(ctx, a, []litefs.LockType{t})
				}
				if !ok {
					core.Infra("release-all: owner could not take %s on an idle database", t)
				}
			}
			// the owner also holds a lock on the OTHER file: closing a descriptor of one file releases the locks
			// on that file only (POSIX), so this one must survive
			other := litefs.LockTypeWrite
			if file == "shm" {
				other = litefs.LockTypeReserved
			}
			if ok, _ := db.TryLocks(ctx, a, []litefs.LockType{other}); !ok {
				core.Infra("release-all: owner could not take %s on an idle database", other)
			}
			if file == "shm" {
				db.UnlockSHM(ctx, a)
			} else {
				db.UnlockDatabase(ctx, a)
			}
			rep.Eval(1)
			if ok, _ := db.TryLocks(ctx, b, []litefs.LockType{other}); ok {
				_ = db.Unlock(ctx, b, []litefs.LockType{other})
				rep.Violate("C12.unlock-releases", fmt.Sprintf("release-all/%s/also-released-the-other-file", file),
					map[string]any{"closed_file": file, "lock_on_the_other_file": other.String(),
						"what": "closing a descriptor of one file released the owner's lock on the other file: another owner could take it"}, map[string]any{"kind": "release-all"})
			}
			_ = db.Unlock(ctx, a, []litefs.LockType{other})
			var stuck []string
			for _, t := range set {
				rep.Eval(1)
				if ok, _ := db.TryLocks(ctx, b, []litefs.LockType{t}); !ok {
					stuck = append(stuck, t.String())
				} else {
					_ = db.Unlock(ctx, b, []litefs.LockType{t})
				}
			}
			rep.Case(fmt.Sprintf("release-all/%s/exclusive=%v", file, excl), true)
			if len(stuck) > 0 {
				rep.Violate("C12.unlock-releases", fmt.Sprintf("release-all/%s/exclusive=%v", file, excl),
					map[string]any{"file": file, "held_exclusively": excl, "still_held_after_release_all": stuck}, map[string]any{"kind": "release-all"})
				// clean up so that the next round starts from an idle database
				_ = db.Unlock(ctx, a, set)
			}
		}
	}
}
