// Cancellation stage of check C12: blocking Lock(ctx)/RLock(ctx) whose context ends at chosen points.
//
// spec: RWMutexCancel.tla (a blocking acquire as a process idle -> polling -> acquired with Cancel as an
// environment action enabled at every point, in particular between the successful Try call and the
// return).  TLC proves on the model that a blocking acquire has exactly two outcomes (nil and held /
// error and the lock table as it is without the call), refutes it for the variant that returns the
// error and keeps the lock (relevance), and prints the set of legal outcomes (OUTCOME lines).
//
// bind: for every blocking scenario derived from the edges of RWMutex.tla (waiter blocks, holder acts so
// that the lock becomes available), for Lock and RLock, the waiter's context is cancelled at a fixed
// list of points - before the holder's release, inside the OnLockStateChange callback of the release
// transition, right after the release, inside the callback of the transition made by the waiter's own
// acquisition, and at the first look the waiter takes at its context after its guard changed state.
// The verdict is taken from what the real call returned and from the real lock state afterwards.
package main

import (
	"context"
	"encoding/json"
	"fmt"
	"sync"
	"sync/atomic"
	"time"

	"github.com/superfly/litefs"
	"github.com/superfly/litefs/verifharness/core"
)

// cancel points, in the order of the model's control states
var cancelPoints = []string{
	"before-release",         // polling, lock unavailable: the call must fail, nothing held
	"in-release-transition",  // from OnLockStateChange of the holder's releasing call
	"after-release",          // right after the holder's call returned
	"in-acquire-transition",  // from OnLockStateChange of the transition made by the waiter's own Try call (pc = acquired)
	"ctx-seen-after-acquire", // at the first use of the context by the waiter after its guard reached the wanted state (pc = acquired)
}

type outcome struct {
	Kind string `json:"kind"`
	G0   string `json:"g0"`
	Ret  string `json:"ret"`
	G    string `json:"g"`
}

// advCtx is a context.Context whose every use by the code under test is visible to the harness.
type advCtx struct {
	mu   sync.Mutex
	done chan struct{}
	err  error
	nObs atomic.Int64
	seen func() // called (outside mu) on every Done()/Err() before the answer is computed
}

func newAdvCtx() *advCtx { return &advCtx{done: make(chan struct{})} }

func (c *advCtx) Deadline() (time.Time, bool) { return time.Time{}, false }
func (c *advCtx) Value(any) any               { return nil }
func (c *advCtx) Done() <-chan struct{} {
	c.nObs.Add(1)
	if c.seen != nil {
		c.seen()
	}
	return c.done
}
func (c *advCtx) Err() error {
	c.nObs.Add(1)
	if c.seen != nil {
		c.seen()
	}
	c.mu.Lock()
	defer c.mu.Unlock()
	return c.err
}
func (c *advCtx) cancel() bool {
	c.mu.Lock()
	defer c.mu.Unlock()
	if c.err != nil {
		return false
	}
	c.err = context.Canceled
	close(c.done)
	return true
}
func (c *advCtx) cancelled() bool {
	c.mu.Lock()
	defer c.mu.Unlock()
	return c.err != nil
}

// cancelCase is one scenario, self-contained so that a replay file reproduces it without TLC.
type cancelCase struct {
	Path      []call    `json:"path"`
	Waiter    string    `json:"waiter"`
	Kind      string    `json:"kind"`
	Then      call      `json:"then"`
	CancelAt  string    `json:"cancel_at"`
	Pre       proj      `json:"pre"`        // model state when the waiter calls
	ExpectErr proj      `json:"expect_err"` // model state after the holder's call, without the waiter
	ExpectNil proj      `json:"expect_nil"` // ... followed by the waiter's successful Try call
	Legal     []outcome `json:"legal"`      // outcomes the model allows for this kind and guard state
}

type cancelResult struct {
	fired    bool   // the cancel point occurred and the context was ended there
	ret      string // "nil" | "err"
	violated bool
	line     string // the observation in words
}

func newWorldCB(cb func(prev, next litefs.RWMutexState)) *world {
	w := &world{rw: &litefs.RWMutex{}, g: map[string]*litefs.RWMutexGuard{}}
	w.rw.OnLockStateChange = cb
	for _, o := range owners {
		g := w.rw.Guard()
		w.g[o] = &g
	}
	return w
}

// runCancelCase drives one scenario on a fresh real RWMutex.
func runCancelCase(rep *core.Report, c *cancelCase, verbose bool) (r cancelResult) {
	violate := func(monitor, sig string, detail map[string]any) {
		r.violated = true
		detail["cancel_at"] = c.CancelAt
		detail["waiter"] = c.Waiter
		detail["call"] = c.Kind + "(ctx)"
		rep.Violate(monitor, sig, detail, c)
	}
	var mode atomic.Int32 // 0 = callback passive, 1 = cancel at a release transition, 2 = cancel at an acquire transition
	ctx := newAdvCtx()
	var fired atomic.Bool
	w := newWorldCB(func(prev, next litefs.RWMutexState) {
		switch mode.Load() {
		case 1:
			if next < prev && ctx.cancel() {
				fired.Store(true)
			}
		case 2:
			if next > prev && ctx.cancel() {
				fired.Store(true)
			}
		}
	})
	for _, pc := range c.Path {
		if _, err := w.do(pc.Op, pc.O); err != nil {
			return // reported by the edge replay
		}
	}
	g := w.g[c.Waiter]
	g0 := g.State().String()
	want := "exclusive"
	if c.Kind == "RLock" {
		want = "shared"
	}
	if c.CancelAt == "ctx-seen-after-acquire" {
		ctx.seen = func() {
			if g.State().String() == want && ctx.cancel() {
				fired.Store(true)
			}
		}
	}
	done := make(chan error, 1)
	go func() {
		var e error
		if p := core.Try(func() {
			if c.Kind == "Lock" {
				e = g.Lock(ctx)
			} else {
				e = g.RLock(ctx)
			}
		}); p != nil {
			e = fmt.Errorf("panic: %s", p.Value)
		}
		done <- e
	}()
	rep.Eval(4)
	// the waiter is inside the retry loop once it has looked at its context twice (2 ms otherwise)
	var err error
	returned := false
	for start := time.Now(); ctx.nObs.Load() < 2 && time.Since(start) < 2*time.Millisecond; {
		time.Sleep(5 * time.Microsecond)
	}
	select {
	case err = <-done:
		returned = true
		violate("C12.blocks-while-unavailable", "cancel/"+c.Kind+"/early", map[string]any{"returned": fmt.Sprint(err), "model_state": c.Pre})
		return
	default:
	}
	wait := func(what string) bool {
		core.Beat("real:" + c.Kind + "(ctx)")
		defer core.Beat("harness")
		select {
		case err = <-done:
			returned = true
			return true
		case <-time.After(5 * time.Second):
			violate("C12.no-panic-or-hang", "cancel/"+c.Kind+"/stuck", map[string]any{"waiting_for": what, "waited": "5s", "context_ended": ctx.cancelled()})
			return false
		}
	}
	act := func() bool {
		_, e := w.do(c.Then.Op, c.Then.O)
		return e == nil
	}
	switch c.CancelAt {
	case "before-release":
		ctx.cancel()
		fired.Store(true)
		if !wait("return after the context ended while the lock is unavailable") {
			return
		}
		if err == nil {
			violate("C12.blocks-while-unavailable", "cancel/"+c.Kind+"/acquired-while-unavailable", map[string]any{"returned": "<nil>", "model_state": c.Pre})
			return
		}
		if !act() {
			return
		}
	case "in-release-transition":
		mode.Store(1)
		if !act() {
			return
		}
		mode.Store(0)
	case "after-release":
		if !act() {
			return
		}
		ctx.cancel()
		fired.Store(true)
	case "in-acquire-transition":
		mode.Store(2)
		if !act() {
			return
		}
	case "ctx-seen-after-acquire":
		if !act() {
			return
		}
	default:
		core.Infra("unknown cancel point %q", c.CancelAt)
	}
	if !returned && !wait("return after the lock became available (context ended: "+fmt.Sprint(ctx.cancelled())+")") {
		return
	}
	mode.Store(0)
	ctx.seen = nil
	ctx.cancel()
	r.fired = fired.Load()

	// ---- the real outcome ----
	if err != nil && len(err.Error()) > 6 && err.Error()[:6] == "panic:" {
		violate("C12.no-panic-or-hang", "cancel/"+c.Kind+"/panic", map[string]any{"error": err.Error()})
		return
	}
	got := outcome{Kind: c.Kind, G0: g0, Ret: "nil", G: g.State().String()}
	expect := c.ExpectNil
	if err != nil {
		got.Ret, expect = "err", c.ExpectErr
	}
	r.ret = got.Ret
	post := w.proj()
	r.line = fmt.Sprintf("%s(ctx) by %s, context ended %s (point occurred: %v) -> err=%v guard=%s mutex=%s", c.Kind, c.Waiter, c.CancelAt, r.fired, err, got.G, post.M)
	if verbose {
		fmt.Println(r.line)
	}
	legal := false
	for _, l := range c.Legal {
		legal = legal || l == got
	}
	det := map[string]any{"returned": fmt.Sprint(err), "guard_before_call": g0, "guard_after": got.G, "mutex_after": post.M, "legal_outcomes": c.Legal, "cancel_point_occurred": r.fired}
	if !legal {
		if err != nil {
			violate("C12.failed-acquire-holds-nothing", "cancel/"+c.Kind+"/error-but-held", det)
		} else {
			violate("C12.returns-when-available", "cancel/"+c.Kind+"/nil-but-not-held", det)
		}
		return
	}
	if !projEq(post, expect) {
		det["expected"], det["observed"] = expect, post
		if err != nil {
			violate("C12.failed-acquire-holds-nothing", "cancel/"+c.Kind+"/error-but-table-changed", det)
		} else {
			violate("C12.state-after-call", "cancel/"+c.Kind+"/state", det)
		}
		return
	}
	// a third owner's exclusive attempt is answered as if the failed call had never been made
	third := ""
	for _, o := range owners {
		if o != c.Waiter && o != c.Then.O {
			third = o
			break
		}
	}
	ok, e := w.do("TryLock", third)
	if e != nil {
		return
	}
	if ok != expect.CanX[third] {
		det["third_owner"], det["TryLock"], det["expected"] = third, ok, expect.CanX[third]
		if err != nil {
			violate("C12.failed-acquire-holds-nothing", "cancel/"+c.Kind+"/phantom-holder", det)
		} else {
			violate("C12.result-is-posix", "cancel/"+c.Kind+"/third-owner", det)
		}
		return
	}
	// the guard whose call failed holds nothing: when everybody else lets go, an exclusive lock is granted
	if err != nil && g0 == "unlocked" {
		for _, o := range owners {
			if o != c.Waiter {
				_, _ = w.do("Unlock", o)
			}
		}
		ms := w.rw.State().String()
		ok, _ := w.do("TryLock", third)
		if !ok || ms != "unlocked" {
			det["third_owner"], det["mutex_after_all_others_unlocked"], det["TryLock_then"] = third, ms, ok
			violate("C12.failed-acquire-holds-nothing", "cancel/"+c.Kind+"/phantom-holder", det)
		}
	}
	return
}

// cancelModel runs the three configurations of RWMutexCancel.tla and returns the legal outcomes.
func cancelModel(rep *core.Report, args *core.Args) []outcome {
	type run struct {
		cfg  string
		res  *core.TLCResult
		outs map[outcome]bool
	}
	runs := []*run{{cfg: "MC_RWMutexCancel.cfg"}, {cfg: "MC_RWMutexCancel_release.cfg"}, {cfg: "MC_RWMutexCancel_mut_keep.cfg"}}
	core.Beat("tlc")
	var wg sync.WaitGroup
	for _, r := range runs {
		wg.Add(1)
		go func(r *run) {
			defer wg.Done()
			r.outs = map[outcome]bool{}
			var mu sync.Mutex
			res, err := core.RunTLC(core.TLCOpts{Module: "RWMutexCancel", Cfg: r.cfg, Workers: 2, Timeout: 3 * time.Minute,
				OnLine: func(tag string, payload json.RawMessage) {
					if tag != "OUTCOME" {
						return
					}
					var o outcome
					if err := json.Unmarshal(payload, &o); err != nil {
						core.Infra("bad OUTCOME line: %v: %s", err, payload)
					}
					mu.Lock()
					r.outs[o] = true
					mu.Unlock()
				}})
			if err != nil {
				core.Infra("tlc: %v", err)
			}
			r.res = res
		}(r)
	}
	wg.Wait()
	core.Beat("harness")
	legal := map[outcome]bool{}
	for _, r := range runs[:2] {
		if !r.res.OK() {
			core.Infra("model checking of RWMutexCancel.tla (%s) failed (model problem, not a code verdict): %s\n%s", r.cfg, r.res.Describe(), r.res.ErrorText+r.res.OutputTail)
		}
		rep.AddTLC(r.cfg[:len(r.cfg)-4], r.res)
		for o := range r.outs {
			legal[o] = true
		}
	}
	if v := runs[2].res; v.TimedOut || v.Violation != "FailedAcquireHoldsNothing" {
		core.Infra("relevance configuration MC_RWMutexCancel_mut_keep.cfg (error returned, lock kept) must violate FailedAcquireHoldsNothing; got %s\n%s", v.Describe(), v.OutputTail)
	}
	rep.Extra["cancel_relevance"] = map[string]any{"cfg": "MC_RWMutexCancel_mut_keep.cfg", "variant": "the context error is returned after a successful Try call and the lock is kept", "tlc_violation": runs[2].res.Violation}
	var out []outcome
	for o := range legal {
		if o.Ret == "err" && o.G != o.G0 {
			core.Infra("RWMutexCancel.tla allows an error outcome that changes the guard: %+v", o)
		}
		out = append(out, o)
	}
	// vacuity: both outcomes of both calls from an unlocked guard, and the failed upgrade, must be in the set
	for _, need := range []outcome{{"Lock", "unlocked", "nil", "exclusive"}, {"Lock", "unlocked", "err", "unlocked"}, {"RLock", "unlocked", "nil", "shared"}, {"RLock", "unlocked", "err", "unlocked"}, {"Lock", "shared", "err", "shared"}, {"Lock", "shared", "nil", "exclusive"}} {
		if !legal[need] {
			core.Infra("RWMutexCancel.tla did not print the outcome %+v (vacuous model run)", need)
		}
	}
	return out
}

func gKey(g map[string]string, op, o string) string {
	s := ""
	for _, x := range owners {
		s += g[x] + ","
	}
	return s + op + "," + o
}

// cancelStage enumerates scenario x kind x cancel point (x repetitions for the points at which Go's
// select may legally go either way) and returns the number of runs.
func cancelStage(rep *core.Report, args *core.Args, edges []edge) int {
	legal := cancelModel(rep, args)
	next := map[string]proj{}
	for i := range edges {
		e := &edges[i]
		if e.Act.Res && (e.Act.Op == "TryLock" || e.Act.Op == "TryRLock") {
			next[gKey(e.Pre.G, e.Act.Op, e.Act.O)] = e.Post
		}
	}
	reps := core.Pick(args, 3, 25)
	type stat struct{ Runs, PointOccurred, Nil, Err int }
	stats := map[string]*stat{}
	n := 0
	sampled := false
	for i := range edges {
		e := &edges[i]
		for _, kind := range []string{"Lock", "RLock"} {
			for _, o := range owners {
				if o == e.Act.O {
					continue
				}
				pre, post := e.Pre.CanX[o], e.Post.CanX[o]
				if kind == "RLock" {
					pre, post = e.Pre.CanS[o], e.Post.CanS[o]
				}
				if pre || !post {
					continue
				}
				nx, ok := next[gKey(e.Post.G, "Try"+kind, o)]
				if !ok {
					core.Infra("no successful Try%s(%s) edge from model state %v (edge set incomplete)", kind, o, e.Post.G)
				}
				var lg []outcome
				for _, l := range legal {
					if l.Kind == kind && l.G0 == e.Pre.G[o] {
						lg = append(lg, l)
					}
				}
				for _, cp := range cancelPoints {
					c := &cancelCase{Path: e.Path, Waiter: o, Kind: kind, Then: call{Op: e.Act.Op, O: e.Act.O}, CancelAt: cp,
						Pre: e.Pre, ExpectErr: e.Post, ExpectNil: nx, Legal: lg}
					rep.Case(fmt.Sprintf("cancel|%v|%s|%s|%s|%s|%s", e.Pre.G, e.Act.Op, e.Act.O, o, kind, cp), true)
					st := stats[kind+"/"+cp]
					if st == nil {
						st = &stat{}
						stats[kind+"/"+cp] = st
					}
					k := reps
					if cp == "before-release" {
						k = 1 // one legal outcome only
					}
					for j := 0; j < k; j++ {
						r := runCancelCase(rep, c, false)
						n++
						st.Runs++
						if r.fired {
							st.PointOccurred++
						}
						switch r.ret {
						case "nil":
							st.Nil++
						case "err":
							st.Err++
						}
						if r.violated {
							break
						}
					}
					if !sampled && cp == "in-acquire-transition" {
						rep.Sample(map[string]any{"cancel_case": c})
						sampled = true
					}
				}
			}
		}
	}
	rep.Extra["cancel_runs"] = n
	rep.Extra["cancel_by_point"] = stats
	// vacuity: the points inside the waiter's own acquisition must have occurred for both calls
	for _, kind := range []string{"Lock", "RLock"} {
		if st := stats[kind+"/in-acquire-transition"]; rep.ViolationCount() == 0 && (st == nil || st.PointOccurred == 0) {
			core.Infra("the context of %s(ctx) was never ended inside the waiter's own acquisition (stage vacuous)", kind)
		}
		if st := stats[kind+"/before-release"]; rep.ViolationCount() == 0 && (st == nil || st.Err == 0) {
			core.Infra("%s(ctx) never failed on an unavailable lock (stage vacuous)", kind)
		}
	}
	return n
}

// replayCancel re-runs a recorded cancellation scenario (up to 300 times: at the points outside the
// waiter's own acquisition Go's select may legally pick either branch).
func replayCancel(rep *core.Report, c *cancelCase) {
	n := map[string]int{}
	for i := 0; i < 300; i++ {
		r := runCancelCase(rep, c, false)
		n[r.ret]++
		if i == 0 || r.violated {
			fmt.Printf("run %d: %s violation=%v\n", i+1, r.line, r.violated)
		}
		if r.violated {
			break
		}
	}
	fmt.Printf("runs by returned value: %v\n", n)
}
