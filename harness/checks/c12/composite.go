package main

import (
	"bytes"
	"context"
	"fmt"
	"io"
	"os"
	"time"

	"github.com/superfly/litefs"

	"github.com/superfly/litefs/verifharness/core"
	"github.com/superfly/litefs/verifharness/sim"
)

// compositeCancelled: LiteFS's own acquisitions of several locks in a row (Export, WriteSnapshotTo,
// AcquireWriteLock, AcquireHaltLock, Recover) are started while another owner holds ONE of the database's
// locks exclusively, and are given up - their context ends - while they wait for it. "A failed attempt
// changes nothing": once the blocker is gone every lock of the database is free again, and the same
// operation then succeeds. One run per (journal mode, blocking lock, operation).
func compositeCancelled(rep *core.Report) {
	for _, wal := range []bool{false, true} {
		dir := core.Scratch("c12-composite")
		n, err := sim.OpenNode(sim.NodeOpts{Dir: dir, Primary: true, Configure: func(s *litefs.Store) { s.HaltAcquireTimeout = 10 * time.Second }})
		if err != nil {
			core.Infra("open node: %v", err)
		}
		l := sim.L0(4096)
		pg := sim.NewPager(n.Connect("db", 11), l, sim.PagerOpts{Sector: 512, Busy: time.Second})
		if err := commitJc(pg, sim.Plan{Kind: "j", Ns: 3, M: []int{1, 2, 3}, Out: "commit", Fin: "DELETE", V: 1, Wal: wal}); err != nil {
			core.Infra("composite: tx1: %v", err)
		}
		if wal {
			if err := commitWc(pg, sim.Plan{Kind: "w", Ns: 3, M: []int{1, 2}, Out: "commit", V: 2, Wal: true}, 3); err != nil {
				core.Infra("composite: tx2: %v", err)
			}
		}
		pg.C.Close()
		db := n.Store.DB("db")
		ctx := context.Background()
		all := []litefs.LockType{litefs.LockTypePending, litefs.LockTypeShared, litefs.LockTypeReserved,
			litefs.LockTypeWrite, litefs.LockTypeCkpt, litefs.LockTypeRecover, litefs.LockTypeRead0, litefs.LockTypeRead1,
			litefs.LockTypeRead2, litefs.LockTypeRead3, litefs.LockTypeRead4, litefs.LockTypeDMS}
		const blocker, probe = 7001, 7002
		ops := []string{"export", "snapshot", "write-lock", "halt", "recover"}
		run := func(op string, c context.Context) error {
			switch op {
			case "export":
				_, err := db.Export(c, io.Discard)
				return err
			case "snapshot":
				var buf bytes.Buffer
				_, _, err := db.WriteSnapshotTo(c, &buf)
				return err
			case "write-lock":
				g, err := db.AcquireWriteLock(c, nil)
				if err == nil {
					g.Unlock()
				}
				return err
			case "halt":
				_, err := db.AcquireHaltLock(c, 9001)
				if err == nil {
					db.ReleaseHaltLock(context.Background(), 9001)
				}
				return err
			case "recover":
				return db.Recover(c)
			}
			return nil
		}
		for _, bl := range all {
			for _, op := range ops {
				key := fmt.Sprintf("composite-cancelled/wal=%v/blocked-at=%s/%s", wal, bl, op)
				core.Beat("real:c12:" + key)
				if ok, _ := db.TryLocks(ctx, blocker, []litefs.LockType{bl}); !ok {
					core.Infra("composite: blocker could not take %s on an idle database", bl)
				}
				c, cancel := context.WithTimeout(ctx, 120*time.Millisecond)
				var opErr error
				done := make(chan struct{})
				go func() { opErr = run(op, c); close(done) }()
				select {
				case <-done:
				case <-time.After(15 * time.Second):
					cancel()
					rep.Violate("C12.blocking-ends-with-context", "composite-does-not-return/"+op+"/"+bl.String(), map[string]any{"operation": op, "blocked_at": bl.String(), "wal": wal,
						"what": "the operation did not return 15 s after its context had ended"}, map[string]any{"kind": "composite-cancelled"})
					_ = db.Unlock(ctx, blocker, []litefs.LockType{bl})
					<-done
					continue
				}
				cancel()
				_ = db.Unlock(ctx, blocker, []litefs.LockType{bl})
				core.Beat("harness")
				rep.Case(key, opErr != nil)
				var stuck []string
				for _, t := range all {
					rep.Eval(1)
					if ok, _ := db.TryLocks(ctx, probe, []litefs.LockType{t}); !ok {
						stuck = append(stuck, t.String())
					} else {
						_ = db.Unlock(ctx, probe, []litefs.LockType{t})
					}
				}
				if len(stuck) > 0 {
					rep.Violate("C12.failed-attempt-changes-nothing", fmt.Sprintf("composite-cancelled/%s/wal=%v/leaves=%v", op, wal, stuck),
						map[string]any{"operation": op, "blocked_at": bl.String(), "wal": wal, "operation_error": sim.ErrString(opErr), "locks_still_held_by_nobody_known": stuck,
							"what": "the operation was given up while it waited for a lock another owner held; that owner has released it, no owner holds anything, yet these locks cannot be taken"},
						map[string]any{"kind": "composite-cancelled", "op": op, "blocked_at": bl.String(), "wal": wal})
					_ = n.Close
					goto nextMode
				}
				// the same operation, nobody in the way
				c2, cancel2 := context.WithTimeout(ctx, 5*time.Second)
				err2 := run(op, c2)
				cancel2()
				rep.Eval(1)
				if err2 != nil {
					rep.Violate("C12.failed-attempt-changes-nothing", fmt.Sprintf("composite-cancelled/%s/wal=%v/repetition-fails", op, wal),
						map[string]any{"operation": op, "blocked_at": bl.String(), "wal": wal, "first_error": sim.ErrString(opErr), "second_error": sim.ErrString(err2)},
						map[string]any{"kind": "composite-cancelled", "op": op, "blocked_at": bl.String(), "wal": wal})
					goto nextMode
				}
			}
		}
	nextMode:
		core.Beat("harness")
		n.Close()
		_ = os.RemoveAll(dir)
	}
}

func commitJc(pg *sim.Pager, pl sim.Plan) error {
	if err := pg.BeginJ(pl); err != nil {
		return err
	}
	for _, f := range []func() error{pg.JCreate, pg.JSync} {
		if err := f(); err != nil {
			return err
		}
	}
	for _, q := range pl.M {
		if err := pg.JPage(q); err != nil {
			return err
		}
	}
	err := pg.JFinal()
	pg.EndJ()
	return err
}

func commitWc(pg *sim.Pager, pl sim.Plan, salt int) error {
	if err := pg.BeginW(pl); err != nil {
		return err
	}
	if !pg.HasHdr() {
		if err := pg.WHdr(salt); err != nil {
			return err
		}
	}
	for i, q := range pl.M {
		if err := pg.WFrame(q, false, i == len(pl.M)-1); err != nil {
			return err
		}
	}
	return pg.WEnd()
}
