package main

// world.go: one real three-node LiteFS cluster (primary P, holder replica R, third replica T) with
// everything the C13 monitors need to observe it without source hooks: position changes on every
// node (Invalidator.InvalidatePos), labelled OS calls (checkpoint, forwarded file), and every
// halt / tx HTTP exchange (round-tripper around the real client), all stamped by one atomic sequence.

import (
	"bytes"
	"context"
	"encoding/json"
	"errors"
	"fmt"
	"io"
	"net/http"
	"os"
	"path/filepath"
	"strconv"
	"strings"
	"sync"
	"sync/atomic"
	"syscall"
	"time"

	"bazil.org/fuse"
	"github.com/superfly/litefs"
	lfuse "github.com/superfly/litefs/fuse"
	lhttp "github.com/superfly/litefs/http"
	"github.com/superfly/litefs/verifharness/core"
	"github.com/superfly/litefs/verifharness/sim"
	"github.com/superfly/ltx"
)

// ---------------------------------------------------------------- event log

// event is one observation of the real code. Seq is a process-wide atomic counter: two events are
// ordered as the code executed them whenever one happened-before the other.
type event struct {
	Seq    int64  `json:"seq"`
	Node   string `json:"node"`
	Kind   string `json:"kind"` // pos | os | http | mark
	TXID   uint64 `json:"txid,omitempty"`
	Chk    uint64 `json:"chk,omitempty"`
	Label  string `json:"label,omitempty"` // os label, or "METHOD /path"
	Call   string `json:"call,omitempty"`  // os call (Rename, Open, ...)
	LockID int64  `json:"lock_id,omitempty"`
	To     string `json:"to,omitempty"`     // http: node the request was addressed to
	Status int    `json:"status,omitempty"` // http status seen by the client (0 = no response)
	Err    string `json:"err,omitempty"`
	// POST /halt answered 200: the position carried by the lock in the response body
	GrantTXID uint64 `json:"grant_txid,omitempty"`
	GrantChk  uint64 `json:"grant_chk,omitempty"`
	HasGrant  bool   `json:"has_grant,omitempty"`
}

type recorder struct {
	seq atomic.Int64
	mu  sync.Mutex
	evs []event
}

func (r *recorder) add(e event) int64 {
	e.Seq = r.seq.Add(1)
	r.mu.Lock()
	r.evs = append(r.evs, e)
	r.mu.Unlock()
	return e.Seq
}

// mark returns a fresh sequence number (a point in the order) without logging an event.
func (r *recorder) mark() int64 { return r.seq.Add(1) }

func (r *recorder) snapshot() []event {
	r.mu.Lock()
	defer r.mu.Unlock()
	return append([]event(nil), r.evs...)
}

// between returns the events with lo < Seq < hi that satisfy f.
func (r *recorder) between(lo, hi int64, f func(e event) bool) []event {
	var out []event
	for _, e := range r.snapshot() {
		if e.Seq > lo && e.Seq < hi && f(e) {
			out = append(out, e)
		}
	}
	return out
}

// ---------------------------------------------------------------- HTTP tap (client side)

// tap wraps the transport of a node's real HTTP client: it records every /halt and /tx exchange and
// can lose a response after the server handled the request (the request was executed, the caller
// sees a transport error), which sim.FaultClient cannot do on its own.
type txCopy struct {
	Seq    int64
	LockID int64
	Body   []byte
}

type tap struct {
	w     *world
	node  string
	inner http.RoundTripper
	rec   *recorder

	mu          sync.Mutex
	loseResp    map[string]int   // "POST /tx" -> how many responses to lose
	dropReq     map[string]int   // "POST /tx" -> how many requests to drop before they are sent
	txLog       []txCopy         // every /tx body this node tried to send
	partitioned bool             // no /halt or /tx request of this node reaches anybody
	onSend      func(key string) // called right before a /halt or /tx request goes out (nil = nobody waits for it)
	stall       *stallGate       // if set, the body of the next POST /tx stops after a prefix until released
	lastHaltID  atomic.Int64     // lock id of the last POST /halt that was sent
}

// stallGate holds a forwarded commit in flight: the request header and the first bytes of the body (the
// LTX header) reach the primary, the rest waits for release().
type stallGate struct {
	after   int
	reached chan struct{}
	rel     chan struct{}
	once    sync.Once
}

func (g *stallGate) release() { g.once.Do(func() { close(g.rel) }) }

type stallReader struct {
	b    []byte
	off  int
	g    *stallGate
	told bool
}

func (r *stallReader) Read(p []byte) (int, error) {
	if r.off >= len(r.b) {
		return 0, io.EOF
	}
	lim := len(r.b)
	if r.off < r.g.after {
		lim = r.g.after
		if lim > len(r.b) {
			lim = len(r.b)
		}
	} else {
		if !r.told {
			r.told = true
			close(r.g.reached)
		}
		<-r.g.rel
	}
	n := copy(p, r.b[r.off:lim])
	r.off += n
	return n, nil
}

func (r *stallReader) Close() error { return nil }

// stallNextTx arms the gate for the next POST /tx of this node.
func (t *tap) stallNextTx(after int) *stallGate {
	g := &stallGate{after: after, reached: make(chan struct{}), rel: make(chan struct{})}
	t.mu.Lock()
	t.stall = g
	t.mu.Unlock()
	return g
}

func (t *tap) notifySend(f func(key string)) {
	t.mu.Lock()
	t.onSend = f
	t.mu.Unlock()
}

func (t *tap) partition(on bool) {
	t.mu.Lock()
	t.partitioned = on
	t.mu.Unlock()
}

// reset forgets fault injections that were armed but not consumed.
func (t *tap) reset() {
	t.mu.Lock()
	t.loseResp, t.dropReq = nil, nil
	t.mu.Unlock()
}

func (t *tap) lose(key string, n int) {
	t.mu.Lock()
	if t.loseResp == nil {
		t.loseResp = map[string]int{}
	}
	t.loseResp[key] += n
	t.mu.Unlock()
}

func (t *tap) drop(key string, n int) {
	t.mu.Lock()
	if t.dropReq == nil {
		t.dropReq = map[string]int{}
	}
	t.dropReq[key] += n
	t.mu.Unlock()
}

// txSince returns the /tx bodies this node tried to send after sequence point seq.
func (t *tap) txSince(seq int64) []txCopy {
	t.mu.Lock()
	defer t.mu.Unlock()
	var out []txCopy
	for _, c := range t.txLog {
		if c.Seq > seq {
			out = append(out, c)
		}
	}
	return out
}

func (t *tap) RoundTrip(req *http.Request) (*http.Response, error) {
	path := req.URL.Path
	if path != "/halt" && path != "/tx" {
		return t.inner.RoundTrip(req)
	}
	key := req.Method + " " + path
	q := req.URL.Query()
	idStr := q.Get("id")
	if path == "/tx" {
		idStr = q.Get("lockID")
	}
	id, _ := strconv.ParseInt(idStr, 10, 64)
	if path == "/tx" && req.Body != nil {
		b, err := io.ReadAll(req.Body)
		_ = req.Body.Close()
		if err != nil {
			return nil, err
		}
		t.mu.Lock()
		t.txLog = append(t.txLog, txCopy{Seq: t.rec.mark(), LockID: id, Body: b})
		t.mu.Unlock()
		req.Body = io.NopCloser(bytes.NewReader(b))
		req.ContentLength = int64(len(b))
		t.mu.Lock()
		g := t.stall
		t.stall = nil
		t.mu.Unlock()
		if g != nil && len(b) > g.after {
			req.Body = &stallReader{b: b, g: g}
			req.GetBody = nil
		} else if g != nil {
			g.release()
			close(g.reached)
		}
	}
	ev := event{Node: t.node, Kind: "http", Label: key, LockID: id, To: t.w.roleOfHost(req.URL.Host)}
	t.mu.Lock()
	dropIt := t.dropReq[key] > 0
	if dropIt {
		t.dropReq[key]--
	}
	part := t.partitioned
	t.mu.Unlock()
	if part {
		ev.Err = "partitioned (fault injection)"
		t.rec.add(ev)
		return nil, errors.New("fault injection: partitioned from the primary")
	}
	if dropIt {
		ev.Err = "request lost (fault injection)"
		t.rec.add(ev)
		return nil, errors.New("fault injection: request lost")
	}
	t.mu.Lock()
	onSend := t.onSend
	t.mu.Unlock()
	if key == "POST /halt" {
		t.lastHaltID.Store(id)
	}
	if onSend != nil {
		onSend(key)
	}
	resp, err := t.inner.RoundTrip(req)
	if err != nil {
		ev.Err = err.Error()
		t.rec.add(ev)
		return nil, err
	}
	ev.Status = resp.StatusCode
	if key == "POST /halt" && resp.StatusCode == 200 {
		// keep the granted lock's position: what the primary told the holder to start from
		b, rerr := io.ReadAll(resp.Body)
		_ = resp.Body.Close()
		if rerr != nil {
			ev.Err = rerr.Error()
			t.rec.add(ev)
			return nil, rerr
		}
		var hl litefs.HaltLock
		if json.Unmarshal(b, &hl) == nil {
			ev.GrantTXID, ev.GrantChk, ev.HasGrant = uint64(hl.Pos.TXID), uint64(hl.Pos.PostApplyChecksum), true
		}
		resp.Body = io.NopCloser(bytes.NewReader(b))
	}
	t.mu.Lock()
	lose := t.loseResp[key] > 0
	if lose {
		t.loseResp[key]--
	}
	t.mu.Unlock()
	if lose {
		_, _ = io.Copy(io.Discard, resp.Body)
		_ = resp.Body.Close()
		ev.Err = "response lost (fault injection)"
		t.rec.add(ev)
		return nil, errors.New("fault injection: response lost")
	}
	t.rec.add(ev)
	return resp, nil
}

// ---------------------------------------------------------------- cluster

type worldOpts struct {
	WAL       bool
	Layout    sim.Layout
	Pager     sim.PagerOpts
	Compress  bool
	AcquireTO time.Duration // Store.HaltAcquireTimeout on every node
}

type world struct {
	o    worldOpts
	dir  string
	cl   *sim.Cluster
	n    map[string]*sim.CNode // "P","R","T"
	taps map[string]*tap
	rec  *recorder
	db   string

	ref   []sim.Content // committed model image of the database (maintained by successful commits)
	ver   int           // last version number used by a transaction
	salt  int           // last WAL salt generation used
	owner uint64        // next lock owner
	pg    map[string]*sim.Pager
	ids   map[string]uint64
}

var roles = []string{"P", "R", "T"}

const dbName = "db"

// newWorld starts P, R, T, elects P, creates the database on P (rollback mode, optionally switched
// to WAL) with two committed transactions and waits until both replicas have caught up.
func newWorld(o worldOpts) (*world, error) {
	if o.AcquireTO == 0 {
		o.AcquireTO = 2400 * time.Millisecond
	}
	w := &world{o: o, dir: core.Scratch("c13"), rec: &recorder{}, n: map[string]*sim.CNode{}, taps: map[string]*tap{}, db: dbName, owner: 100, ids: map[string]uint64{}, pg: map[string]*sim.Pager{}}
	w.cl = sim.NewCluster(w.dir)
	w.cl.Lease.AllowOnly()
	for _, r := range roles {
		role := r
		cn, err := w.cl.Start(role, sim.ClusterNodeOpts{Candidate: true, Compress: o.Compress, Configure: func(s *litefs.Store) {
			s.HaltLockTTL = time.Millisecond           // a granted lock is overdue at once ...
			s.HaltLockMonitorInterval = 24 * time.Hour // ... but only the harness enforces expiry (Store.EnforceHaltLockExpiration)
			s.HaltAcquireTimeout = o.AcquireTO
		}})
		if err != nil {
			w.close()
			return nil, fmt.Errorf("start %s: %w", role, err)
		}
		w.n[role] = cn
		w.ids[role] = cn.Store.ID()
		tp := &tap{w: w, node: role, inner: cn.Client.Inner.HTTPClient.Transport, rec: w.rec}
		cn.Client.Inner.HTTPClient.Transport = tp
		w.taps[role] = tp
		cn.Cache.OnPos = func(db *litefs.DB) {
			if db.Name() != w.db {
				return
			}
			p := db.Pos()
			w.rec.add(event{Node: role, Kind: "pos", TXID: uint64(p.TXID), Chk: uint64(p.PostApplyChecksum)})
		}
		dbDir := cn.DBDir(w.db)
		cn.OS.Before = func(ev sim.OSEvent) error {
			switch {
			case strings.HasPrefix(ev.Label, "CHECKPOINT"), ev.Label == "WRITELTX" && ev.Call == "Rename":
				if strings.HasPrefix(ev.Path, dbDir+string(filepath.Separator)) {
					w.rec.add(event{Node: role, Kind: "os", Label: ev.Label, Call: ev.Call})
				}
			}
			return nil
		}
	}
	if err := w.cl.Elect("P", 20*time.Second); err != nil {
		w.close()
		return nil, err
	}
	// create the database on the primary; replicas fetch snapshots meanwhile (shared locks), so a
	// set-up transaction that finds the database busy is retried like SQLite's busy handler would
	n := 2
	if o.WAL {
		n = 3 // create, switch the header to WAL, one transaction through the log
	}
	for k := 0; k < n; k++ {
		var res txResult
		for try := 0; try < 100; try++ {
			res = w.localTx("P", k == 0)
			if res.Err == nil || !(res.Errno == syscall.EAGAIN || res.Errno == syscall.EBUSY) {
				break
			}
			w.ver-- // the refused attempt wrote nothing that was kept
			time.Sleep(10 * time.Millisecond)
		}
		if res.Err != nil {
			w.close()
			return nil, fmt.Errorf("set-up transaction %d: %w", k+1, res.Err)
		}
		if err := w.settle([]string{"R", "T"}, 20*time.Second); err != nil {
			w.close()
			return nil, err
		}
	}
	if err := w.settle([]string{"R", "T"}, 20*time.Second); err != nil {
		w.close()
		return nil, err
	}
	return w, nil
}

func (w *world) close() {
	for _, pg := range w.pg {
		pg := pg
		_ = core.Try(pg.C.Close)
	}
	if w.cl != nil {
		done := make(chan struct{})
		go func() { w.cl.Close(); close(done) }()
		select {
		case <-done:
		case <-time.After(60 * time.Second):
		}
	}
	_ = os.RemoveAll(w.dir)
}

func (w *world) roleOfHost(host string) string {
	for r, n := range w.n {
		if strings.HasSuffix(n.URL, "//"+host) {
			return r
		}
	}
	return "?"
}

func (w *world) pos(role string) ltx.Pos {
	if db := w.n[role].Store.DB(w.db); db != nil {
		return db.Pos()
	}
	return ltx.Pos{}
}

func (w *world) primary() string {
	for _, r := range roles {
		if w.n[r].Store.IsPrimary() {
			return r
		}
	}
	return ""
}

// settle waits until the given nodes report the position of the current primary.
func (w *world) settle(nodes []string, d time.Duration) error {
	p := w.primary()
	if p == "" {
		return fmt.Errorf("no primary")
	}
	want := w.pos(p)
	for _, r := range nodes {
		if r == p {
			continue
		}
		if err := w.cl.WaitPos(r, w.db, want, d); err != nil {
			return err
		}
	}
	return nil
}

// ---------------------------------------------------------------- transactions through the pager simulator

type txResult struct {
	Err     error         // nil = the commit call returned success to the application
	Errno   syscall.Errno // errno the application would see
	Stage   string        // where it failed: begin | write | commit
	Before  ltx.Pos       // position of the writing node before
	After   ltx.Pos       // position of the writing node after
	V       int           // version number written
	RetSeq  int64         // sequence point taken right after the finalisation call returned
	CallSeq int64         // sequence point taken right before the transaction began
	Exits   []int
}

func (w *world) nextOwner() uint64 { w.owner++; return w.owner }

// pager returns the node's one SQLite connection (kept open, as an application keeps its connection).
func (w *world) pager(role string) *sim.Pager {
	if pg := w.pg[role]; pg != nil {
		return pg
	}
	c := w.n[role].Connect(w.db, w.nextOwner())
	pg := sim.NewPager(c, w.o.Layout, w.o.Pager)
	w.pg[role] = pg
	return pg
}

func (w *world) walSize(role string) int64 {
	fi, err := os.Stat(filepath.Join(w.n[role].DBDir(w.db), "wal"))
	if err != nil {
		return 0
	}
	return fi.Size()
}

// openTx is a write transaction that has been begun and written but not committed.
type openTx struct {
	role string
	pg   *sim.Pager
	pl   sim.Plan
	res  txResult
}

// localTx runs one complete write transaction on node `role` as a SQLite connection would (rollback
// journal or WAL according to the database's mode). create = very first transaction of the database.
func (w *world) localTx(role string, create bool) txResult {
	tx, res := w.beginTx(role, create)
	if tx == nil {
		return res
	}
	return w.commitTx(tx)
}

func (w *world) failTx(role string, res txResult, stage string, err error) txResult {
	res.Err, res.Stage, res.Errno = err, stage, sim.Errno(errors.Unwrap(err))
	if res.Errno == 0 {
		res.Errno = sim.Errno(err)
	}
	if res.RetSeq == 0 {
		res.RetSeq = w.rec.mark()
	}
	res.After = w.pos(role)
	res.Exits = w.n[role].Exits()
	return res
}

// beginTx takes the locks and writes every page of the transaction (journal records + database pages,
// or WAL frames including the commit frame); nothing is committed yet. On failure everything the
// connection holds is released (a rollback-journal transaction is played back as SQLite would).
func (w *world) beginTx(role string, create bool) (*openTx, txResult) {
	var res txResult
	pg := w.pager(role)
	pg.Ref = append([]sim.Content(nil), w.ref...)
	w.ver++
	v := w.ver
	res.V = v
	res.Before = w.pos(role)
	res.CallSeq = w.rec.mark()
	walNow := len(w.ref) > 0 && w.ref[0].Wal
	pl := sim.Plan{Kind: "j", Ns: 3, M: []int{1, 2}, Out: "commit", Fin: "DELETE", V: v, Wal: walNow}
	if v%2 == 0 {
		pl.M = []int{1, 3}
	}
	if create {
		pl.M = []int{1, 2, 3}
	} else if w.o.WAL && !walNow {
		pl.Wal = true // the transaction that switches the header to WAL mode
	}
	core.Beat("real:tx-begin:" + role)
	defer core.Beat("harness")
	if walNow {
		pl.Kind = "w"
		if err := pg.BeginW(pl); err != nil {
			_ = pg.C.LockSHM(fuse.LockUnlock, 124, 124)
			return nil, w.failTx(role, res, "begin", err)
		}
		salt := 0
		if w.walSize(role) == 0 {
			// LiteFS emptied the log (checkpoint at grant / recovery / apply): SQLite starts a new one
			pg.ForgetWAL()
			w.salt++
			salt = w.salt
		}
		if err := pg.WHdr(salt); err != nil {
			w.abortW(pg, &pl)
			return nil, w.failTx(role, res, "write", err)
		}
		for i, q := range pl.M {
			if err := pg.WFrame(q, false, i == len(pl.M)-1); err != nil {
				w.abortW(pg, &pl)
				return nil, w.failTx(role, res, "write", err)
			}
		}
		return &openTx{role: role, pg: pg, pl: pl, res: res}, res
	}
	if err := pg.BeginJ(pl); err != nil {
		pg.EndJ()
		return nil, w.failTx(role, res, "begin", err)
	}
	steps := []func() error{pg.JCreate, pg.JSync}
	for _, q := range pl.M {
		q := q
		steps = append(steps, func() error { return pg.JPage(q) })
	}
	for _, f := range steps {
		if err := f(); err != nil {
			w.rollbackJ(pg, pl)
			return nil, w.failTx(role, res, "write", err)
		}
	}
	return &openTx{role: role, pg: pg, pl: pl, res: res}, res
}

// abortW ends a WAL transaction that could not be written: the pager forgets it and drops WRITE.
func (w *world) abortW(pg *sim.Pager, pl *sim.Plan) {
	_ = core.Try(func() {
		_ = pg.C.LockSHM(fuse.LockUnlock, 120, 120)
		_ = pg.C.LockSHM(fuse.LockUnlock, 124, 124)
		pg.ForgetWAL()
	})
}

// commitTx is the commit point of the application: journal finalisation, or release of WRITE.
func (w *world) commitTx(tx *openTx) txResult {
	res, pg, role := tx.res, tx.pg, tx.role
	core.Beat("real:tx-commit:" + role)
	defer core.Beat("harness")
	if tx.pl.Kind == "w" {
		before := w.pos(role)
		err := pg.WEnd() // releases WRITE: LiteFS captures (and forwards) the transaction here
		res.RetSeq = w.rec.mark()
		res.After = w.pos(role)
		res.Exits = w.n[role].Exits()
		if err != nil {
			return w.failTx(role, res, "commit", err)
		}
		if res.After == before {
			// CommitWAL cannot report failure to SQLite; LiteFS stops the node instead (Store.Exit)
			res.Err, res.Stage = fmt.Errorf("wal commit not captured (exits %v)", res.Exits), "commit"
			pg.Ref = append([]sim.Content(nil), w.ref...)
			return res
		}
		w.ref = append([]sim.Content(nil), pg.Ref...)
		return res
	}
	err := pg.JFinal()
	res.RetSeq = w.rec.mark()
	if err != nil {
		w.rollbackJ(pg, tx.pl)
		return w.failTx(role, res, "commit", err)
	}
	pg.EndJ()
	res.After = w.pos(role)
	res.Exits = w.n[role].Exits()
	w.ref = append([]sim.Content(nil), pg.Ref...)
	return res
}

// abortTx gives up an open transaction (used when a script ends with a writer still open).
func (w *world) abortTx(tx *openTx) {
	if tx.pl.Kind == "w" {
		// the frames are in the log with a commit frame; SQLite cannot un-write them, so commit
		_ = core.Try(func() { _ = w.commitTx(tx) })
		return
	}
	w.rollbackJ(tx.pg, tx.pl)
}

// rollbackJ plays the journal back the way SQLite does after a failed commit and drops the locks.
func (w *world) rollbackJ(pg *sim.Pager, pl sim.Plan) {
	_ = core.Try(func() {
		for _, q := range pl.M {
			if q <= len(pg.Ref) {
				_ = pg.JRbPage(q)
			}
		}
		_ = pg.C.RemoveJournal()
		pg.EndJ()
	})
}

// ---------------------------------------------------------------- the HALT lock through the FUSE lock file

const haltByte = uint64(litefs.LockTypeHalt) // 72

type haltHandle struct {
	role  string
	h     *lfuse.LockHandle
	owner fuse.LockOwner
}

// openLockFile is open("<db>-lock") on the node's file system.
func (w *world) openLockFile(role string) (*haltHandle, error) {
	n := w.n[role]
	nd, err := n.Root.Lookup(sim.Ctx(), w.db+"-lock")
	if err != nil {
		return nil, fmt.Errorf("lookup lock file: %w", err)
	}
	ln, ok := nd.(*lfuse.LockNode)
	if !ok {
		return nil, fmt.Errorf("lock file is a %T", nd)
	}
	h, err := ln.Open(sim.Ctx(), &fuse.OpenRequest{}, &fuse.OpenResponse{})
	if err != nil {
		return nil, err
	}
	return &haltHandle{role: role, h: h.(*lfuse.LockHandle), owner: fuse.LockOwner(w.nextOwner())}, nil
}

// lockWait is fcntl(F_SETLKW, F_WRLCK, byte 72).
func (hh *haltHandle) lockWait(ctx context.Context) error {
	return hh.h.LockWait(ctx, &fuse.LockWaitRequest{LockOwner: hh.owner, Lock: fuse.FileLock{Start: haltByte, End: haltByte, Type: fuse.LockWrite}})
}

// unlock is fcntl(F_SETLK, F_UNLCK, byte 72).
func (hh *haltHandle) unlock(ctx context.Context) error {
	return hh.h.Unlock(ctx, &fuse.UnlockRequest{LockOwner: hh.owner, Lock: fuse.FileLock{Start: haltByte, End: haltByte, Type: fuse.LockUnlock}})
}

// flush is close(fd).
func (hh *haltHandle) flush(ctx context.Context) error {
	return hh.h.Flush(ctx, &fuse.FlushRequest{LockOwner: hh.owner})
}

// ---------------------------------------------------------------- lock table of a node (Store.Expvar)

// writeLocksHeld reports whether the node's internal write lock set of the database is pinned
// (what the halt lock does): rollback mode = PENDING/SHARED/RESERVED exclusive, WAL mode = WRITE/CKPT/... exclusive.
func (w *world) lockTable(role string) map[string]string {
	return parseLockTable(w.n[role].Store.Expvar().String(), w.db)
}

// ---------------------------------------------------------------- crafted forwarded transactions

// craftLTX builds a well-formed, contiguous LTX file against the current image of node `role`: it
// rewrites model pages 1 and 2 with a fresh version. The file is what an honest writer at that
// position would produce; only its sender is wrong.
func (w *world) craftLTX(role string, nodeID uint64) ([]byte, ltx.Pos, error) {
	n := w.n[role]
	im, err := sim.StableDiskImage(n.DBDir(w.db), w.o.Layout.PageSize)
	if err != nil {
		return nil, ltx.Pos{}, err
	}
	if im.N == 0 {
		return nil, ltx.Pos{}, fmt.Errorf("no database image on %s", role)
	}
	model, bad := w.o.Layout.ModelOf(im)
	if len(bad) > 0 || len(model) == 0 {
		return nil, ltx.Pos{}, fmt.Errorf("image of %s does not decode (pages %v)", role, bad)
	}
	w.ver++
	v := w.ver
	cur := w.pos(role)
	nc1 := sim.Content{V: v, Sz: model[0].Sz, Wal: model[0].Wal}
	nc2 := sim.Content{V: v}
	r1, r2 := w.o.Layout.Real(1), w.o.Layout.Real(2)
	next := im.Clone()
	next.Pages[r1] = w.o.Layout.PageBytes(r1, nc1)
	next.Pages[r2] = w.o.Layout.PageBytes(r2, nc2)
	post := next.Checksum(w.o.Layout.LockPgno())
	var buf bytes.Buffer
	enc := ltx.NewEncoder(&buf)
	if err := enc.EncodeHeader(ltx.Header{Version: 1, PageSize: w.o.Layout.PageSize, Commit: im.N, MinTXID: cur.TXID + 1, MaxTXID: cur.TXID + 1,
		Timestamp: time.Now().UnixMilli(), PreApplyChecksum: cur.PostApplyChecksum, NodeID: nodeID}); err != nil {
		return nil, ltx.Pos{}, err
	}
	for _, r := range []uint32{r1, r2} {
		if err := enc.EncodePage(ltx.PageHeader{Pgno: r}, next.Pages[r]); err != nil {
			return nil, ltx.Pos{}, err
		}
	}
	enc.SetPostApplyChecksum(ltx.Checksum(post))
	if err := enc.Close(); err != nil {
		return nil, ltx.Pos{}, err
	}
	return buf.Bytes(), ltx.Pos{TXID: cur.TXID + 1, PostApplyChecksum: ltx.Checksum(post)}, nil
}

// postTx sends POST /tx to a node with the real HTTP client (the harness's own instance: the sender is
// "H", not one of the nodes).
func (w *world) postTx(to string, nodeID uint64, lockID int64, body []byte) (status int, err error) {
	return w.postTxAs("H", to, nodeID, lockID, body)
}

// postTxAs delivers a /tx request; as = "R" for a delayed duplicate of a request the holder itself sent
// (the network's doing, still the holder's message), "H" for a request the holder never sent.
func (w *world) postTxAs(as, to string, nodeID uint64, lockID int64, body []byte) (status int, err error) {
	cl, st := w.directClient()
	ctx, cancel := context.WithTimeout(context.Background(), 20*time.Second)
	defer cancel()
	err = cl.Commit(ctx, w.n[to].URL, nodeID, w.db, lockID, bytes.NewReader(body))
	w.rec.add(event{Node: as, Kind: "http", Label: "POST /tx", To: to, LockID: lockID, Status: st.status, Err: errStr(err)})
	return st.status, err
}

// postHalt / deleteHalt deliver a (duplicated) acquire or release request directly.
func (w *world) postHalt(to string, nodeID uint64, lockID int64) (*litefs.HaltLock, int, error) {
	cl, st := w.directClient()
	ctx, cancel := context.WithTimeout(context.Background(), 20*time.Second)
	defer cancel()
	hl, err := cl.AcquireHaltLock(ctx, w.n[to].URL, nodeID, w.db, lockID)
	w.rec.add(event{Node: "H", Kind: "http", Label: "POST /halt", To: to, LockID: lockID, Status: st.status, Err: errStr(err)})
	return hl, st.status, err
}

func (w *world) deleteHalt(to string, nodeID uint64, lockID int64) (int, error) {
	cl, st := w.directClient()
	ctx, cancel := context.WithTimeout(context.Background(), 20*time.Second)
	defer cancel()
	err := cl.ReleaseHaltLock(ctx, w.n[to].URL, nodeID, w.db, lockID)
	w.rec.add(event{Node: "H", Kind: "http", Label: "DELETE /halt", To: to, LockID: lockID, Status: st.status, Err: errStr(err)})
	return st.status, err
}

func (w *world) directClient() (*lhttp.Client, *statusTap) {
	cl := lhttp.NewClient()
	st := &statusTap{inner: cl.HTTPClient.Transport}
	cl.HTTPClient.Transport = st
	return cl, st
}

func errStr(err error) string {
	if err == nil {
		return ""
	}
	return err.Error()
}

type statusTap struct {
	inner  http.RoundTripper
	status int
}

func (s *statusTap) RoundTrip(r *http.Request) (*http.Response, error) {
	resp, err := s.inner.RoundTrip(r)
	if err == nil {
		s.status = resp.StatusCode
	}
	return resp, err
}

// parseLockTable extracts the lock states of one database from Store.Expvar().
func parseLockTable(js, db string) map[string]string {
	var v struct {
		DBs map[string]struct {
			Locks map[string]string `json:"locks"`
		} `json:"dbs"`
	}
	if err := jsonUnmarshal(js, &v); err != nil {
		return nil
	}
	return v.DBs[db].Locks
}
