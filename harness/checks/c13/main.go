package main

import (
	"context"
	"fmt"
	"os"
	"time"

	"github.com/superfly/litefs/verifharness/core"
	"github.com/superfly/litefs/verifharness/sim"
)

func main() {
	defer core.Cleanup()
	sc := os.Args[1]
	w, err := newWorld(worldOpts{WAL: len(os.Args) > 2, Layout: sim.L0(512)})
	if err != nil {
		fmt.Println("ERR", err)
		return
	}
	defer w.close()
	fmt.Println("pos", w.pos("P"), w.pos("R"), w.pos("T"))
	switch sc {
	case "lostack":
		hh, _ := w.openLockFile("R")
		fmt.Println("lockWait", hh.lockWait(context.Background()))
		w.taps["R"].lose("POST /tx", 1)
		r := w.localTx("R", false)
		fmt.Println("R tx (ack lost):", r.Err, r.Before, r.After, "P:", w.pos("P"))
		r = w.localTx("R", false)
		fmt.Println("R tx2:", r.Err, r.Before, r.After, "P:", w.pos("P"))
		fmt.Println("unlock", hh.unlock(context.Background()))
		fmt.Println("settle R", w.settle([]string{"R", "T"}, 3*time.Second))
		r = w.localTx("P", false)
		fmt.Println("P tx:", r.Err, r.After)
		fmt.Println("settle R", w.settle([]string{"R"}, 3*time.Second), "T", w.settle([]string{"T"}, 3*time.Second))
		fmt.Println("pos", w.pos("P"), w.pos("R"), w.pos("T"))
	case "lag":
		w.n["R"].Client.Block()
		r := w.localTx("P", false)
		fmt.Println("P tx:", r.Err, r.After, "R at", w.pos("R"))
		hh, _ := w.openLockFile("R")
		done := make(chan error, 1)
		go func() { done <- hh.lockWait(context.Background()) }()
		time.Sleep(100 * time.Millisecond)
		fmt.Println("R remote lock while waiting", w.n["R"].Store.DB("db").RemoteHaltLock())
		w.n["R"].Client.Unblock()
		select {
		case e := <-done:
			fmt.Println("lockWait", e)
		case <-time.After(5 * time.Second):
			fmt.Println("lockWait still blocked")
		}
		fmt.Println("R remote lock", w.n["R"].Store.DB("db").RemoteHaltLock(), "R pos", w.pos("R"), "P locks", w.lockTable("P")["pending"], w.lockTable("P")["write"])
		r = w.localTx("R", false)
		fmt.Println("R tx:", r.Err, r.Stage, r.Before, r.After, "P:", w.pos("P"))
		ctx, c := context.WithTimeout(context.Background(), 3*time.Second)
		fmt.Println("unlock", hh.unlock(ctx))
		c()
		fmt.Println("P locks", w.lockTable("P")["pending"], w.lockTable("P")["write"])
	case "pchange":
		hh, _ := w.openLockFile("R")
		fmt.Println("lockWait", hh.lockWait(context.Background()))
		r := w.localTx("R", false)
		fmt.Println("R tx:", r.Err, r.After, "P:", w.pos("P"))
		fmt.Println("settle T", w.settle([]string{"T"}, 3*time.Second))
		t0 := time.Now()
		fmt.Println("elect T", w.cl.Elect("T", 10*time.Second), time.Since(t0))
		for i := 0; i < 2000; i++ {
			if _, info := w.n["R"].Store.PrimaryInfo(); info != nil && info.AdvertiseURL == w.n["T"].URL {
				break
			}
			time.Sleep(time.Millisecond)
		}
		_, info := w.n["R"].Store.PrimaryInfo()
		fmt.Println("R sees primary", info, time.Since(t0), "R lock", w.n["R"].Store.DB("db").RemoteHaltLock())
		r = w.localTx("R", false)
		fmt.Println("R tx after change:", r.Err, r.Stage, r.Before, r.After, "T:", w.pos("T"), "P:", w.pos("P"))
		r = w.localTx("T", false)
		fmt.Println("T local tx:", r.Err, r.Stage, r.After)
		time.Sleep(300 * time.Millisecond)
		fmt.Println("pos", w.pos("P"), w.pos("R"), w.pos("T"), "P primary?", w.n["P"].Store.IsPrimary(), w.lockTable("P")["pending"])
		ctx, c := context.WithTimeout(context.Background(), 3*time.Second)
		fmt.Println("unlock", hh.unlock(ctx))
		c()
	case "rogue":
		b, pos, err := w.craftLTX("P", 0xdead)
		fmt.Println("craft", len(b), pos, err)
		st, err := w.postTx("P", w.ids["T"], 999, b)
		fmt.Println("post", st, err, "P:", w.pos("P"), w.n["P"].Exits())
		fmt.Println("settle", w.settle([]string{"R", "T"}, 3*time.Second))
		r := w.localTx("P", false)
		fmt.Println("P tx:", r.Err, r.After)
	}
	for _, e := range w.rec.snapshot() {
		if e.Seq > 14 {
			fmt.Printf("%+v\n", e)
		}
	}
}
