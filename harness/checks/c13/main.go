// Check C13: write forwarding under a halt lock is exclusive, ordered and acknowledged.
//
// spec: spec/Halt.tla is model-checked exhaustively in two variants -- the repaired one (every clause
// of the property is an invariant) and the code as written (the clauses that hold as written; the
// clauses that do not are separate configurations in which TLC must find the recorded violation).
// spec -> impl: TLC emits replay scripts (behaviours of the as-written variant with an eager stream,
// one per distinct end state); every script is executed on a REAL three-node cluster (sim.Cluster:
// real stores, real h2c HTTP, real FUSE handlers without a mount). The holder takes the lock through
// LockHandle.LockWait on "<db>-lock" byte 72 and writes through the pager simulator on the replica.
// Verdicts come only from the monitors in engine.go, evaluated on values observed from the running
// code (positions seen by the Invalidator, OS labels, HTTP statuses, returned errors); agreement
// with the model's predictions beyond that is conformance evidence (R3).
package main

import (
	"encoding/json"
	"fmt"
	"math/rand"
	"os"
	"sort"
	"strings"
	"sync"
	"time"

	"github.com/superfly/litefs/verifharness/core"
	"github.com/superfly/litefs/verifharness/sim"
)

const prop = "C13"

type tlcStage struct {
	name, cfg string
	expect    string // "" = must pass; otherwise the invariant TLC must report as violated
	timeout   time.Duration
	quick     bool
	kind      string // exhaustive | finding | relevance | lead
}

var stages = []tlcStage{
	{"MC_Halt_fixed_q", "MC_Halt_fixed_q.cfg", "", 8 * time.Minute, true, "exhaustive"},
	{"MC_Halt_ascoded_q", "MC_Halt_ascoded_q.cfg", "", 8 * time.Minute, true, "exhaustive"},
	{"Find_Halt_holder", "Find_Halt_holder.cfg", "OnlyFromHolder", 3 * time.Minute, true, "finding"},
	{"Find_Halt_former", "Find_Halt_former.cfg", "FormerCannotPublish", 3 * time.Minute, true, "finding"},
	{"Find_Halt_wedge", "Find_Halt_wedge.cfg", "NoWedge", 3 * time.Minute, true, "finding"},
	{"MC_Halt_fixed_t1", "MC_Halt_fixed_t1.cfg", "", 15 * time.Minute, false, "exhaustive"},
	{"MC_Halt_fixed_t2", "MC_Halt_fixed_t2.cfg", "", 15 * time.Minute, false, "exhaustive"},
	{"MC_Halt_ascoded_t", "MC_Halt_ascoded_t.cfg", "", 15 * time.Minute, false, "exhaustive"},
	{"MC_Halt_drop", "MC_Halt_drop.cfg", "", 8 * time.Minute, false, "exhaustive"},
	{"Mut_Halt_drop_ascoded", "Mut_Halt_drop_ascoded.cfg", "Exclusive", 3 * time.Minute, false, "relevance"},
	{"Mut_Halt_grantpins", "Mut_Halt_grantpins.cfg", "Exclusive", 3 * time.Minute, false, "relevance"},
	{"Mut_Halt_fwdfirst", "Mut_Halt_fwdfirst.cfg", "AckedIsOnPrimary", 3 * time.Minute, false, "relevance"},
	{"Mut_Halt_waitpos", "Mut_Halt_waitpos.cfg", "StartsAtLockPos", 3 * time.Minute, false, "relevance"},
	{"Mut_Halt_idem", "Mut_Halt_idem.cfg", "SameIdSameLock", 3 * time.Minute, false, "relevance"},
	{"Mut_Halt_expiry", "Mut_Halt_expiry.cfg", "WritableAgain", 3 * time.Minute, false, "relevance"},
	{"Lead_Halt_stuck", "Lead_Halt_stuck.cfg", "NoStuck", 3 * time.Minute, false, "lead"},
}

var scriptCfgs = []string{"Script_Halt_a.cfg", "Script_Halt_b.cfg", "Script_Halt_c.cfg"}

func keepAlive(label string) func() {
	stop := make(chan struct{})
	go func() {
		for {
			core.Beat(label)
			select {
			case <-stop:
				return
			case <-time.After(3 * time.Second):
			}
		}
	}()
	return func() { close(stop); core.Beat("harness") }
}

func main() {
	args := core.ParseArgs()
	rep := core.NewReport(prop, "model_checking", args)
	rep.Rule = "replay scripts = behaviours of Halt.tla (code-as-written variant, eager stream), one per distinct end state of the bounded script configurations, sampled by seed with one script per distinct set of (action, outcome) pairs first; each is executed on a real 3-node cluster in rollback-journal or WAL mode; distinct = script x journal mode x layout; non-trivial = the script contains a granted halt lock and at least one of: forwarded commit, message fault, expiry, rogue /tx, primary change, blocked stream, refused local writer"
	rep.Assumptions = []string{
		"checksums of different histories differ (CRC64 collision-freeness)",
		"the twelve SQLite locks are abstracted to one write lock per node in Halt.tla (C11/C12 decide the lock protocol itself)",
		"expiry is driven by Store.EnforceHaltLockExpiration with an already overdue lock (HaltLockTTL = 1 ms, monitor interval 24 h), i.e. the monitor tick is the event, wall-clock TTL arithmetic is not exercised",
		"'reaches every other replica' is checked for the third replica while the granting node stays primary (after a primary change LiteFS makes no such promise for any transaction)",
		"a failed forwarded commit in WAL mode ends the script for the holder (LiteFS calls Store.Exit(99); a process restart is outside Halt.tla)",
		"sequence numbers come from one atomic counter: an event observed before another one started is ordered before it",
	}
	defer core.Cleanup()

	core.Watchdog(150*time.Second, func(label string, since time.Duration) {
		if strings.HasPrefix(label, "real:") {
			rep.Violate("C13.no-hang", "hang/"+label, map[string]any{"no_progress_for": since.String(), "doing": label}, nil)
			rep.Finish()
		}
		core.Infra("no progress for %s while %s", since, label)
	})

	if args.Replay != "" {
		replayFile(rep, args)
		rep.Finish()
	}

	// development aid: C13_DIRECTED=<substring> runs only the matching directed scripts and prints their results
	if d := os.Getenv("C13_DIRECTED"); d != "" {
		for i, sc := range directed() {
			if !strings.Contains(sc.Src, d) {
				continue
			}
			for _, wal := range []bool{false, true} {
				cfg := runCfgs(false)[i%len(runCfgs(false))]
				cfg.WAL = wal
				r := runScript(sc, cfg)
				b, _ := json.MarshalIndent(r, "", " ")
				fmt.Fprintf(os.Stderr, "---- %s [%s]\n%s\n", sc.Src, cfg, b)
				record(rep, sc, cfg, r)
			}
		}
		rep.Finish()
	}

	// ---- 1. model checking ----
	for _, st := range stages {
		if args.Quick() && !st.quick {
			continue
		}
		done := keepAlive("tlc:" + st.name)
		res, err := core.RunTLC(core.TLCOpts{Module: "Halt", Cfg: st.cfg, Workers: 4, Timeout: st.timeout})
		done()
		if err != nil {
			core.Infra("tlc %s: %v", st.name, err)
		}
		rep.AddTLC(st.name, res)
		switch {
		case st.expect == "" && !res.OK():
			core.Infra("model checking %s failed (a model problem, not a verdict about the code): %s\n%s\n%s", st.name, res.Describe(), res.ErrorText, res.OutputTail)
		case st.expect != "" && res.Violation != st.expect:
			core.Infra("%s: expected TLC to report a violation of %s, got %s\n%s", st.name, st.expect, res.Describe(), res.OutputTail)
		}
		if st.expect != "" {
			l, _ := rep.Extra["expected_model_violations"].([]any)
			rep.Extra["expected_model_violations"] = append(l, map[string]any{"cfg": st.cfg, "kind": st.kind, "invariant": st.expect, "states_to_counterexample": res.Distinct})
		}
	}

	// ---- 2. scripts from TLC ----
	var all []script
	if os.Getenv("C13_MODEL") != "ascoded" {
		// /repo carries the two repairs (holder check in /tx, lock-free unset in the stream), so the
		// predictions come from the repaired variant of Halt.tla; C13_MODEL=ascoded selects the original
		scriptCfgs = []string{"Script_Halt_fixed_a.cfg", "Script_Halt_fixed_b.cfg", "Script_Halt_fixed_c.cfg"}
		rep.Note("scripts and predictions come from the repaired variant of Halt.tla (TxHolderCheck, UnsetFix)")
	}
	for _, cfg := range scriptCfgs {
		var mu sync.Mutex
		n0 := len(all)
		done := keepAlive("tlc:" + cfg)
		res, err := core.RunTLC(core.TLCOpts{Module: "Halt", Cfg: cfg, Workers: 4, Timeout: 8 * time.Minute,
			OnLine: func(tag string, payload json.RawMessage) {
				if tag != "TRACE" {
					return
				}
				var sc script
				if err := json.Unmarshal(payload, &sc); err != nil {
					core.Infra("bad TRACE line: %v: %.300s", err, payload)
				}
				sc.Src = cfg
				mu.Lock()
				all = append(all, sc)
				mu.Unlock()
			}})
		done()
		if err != nil {
			core.Infra("tlc %s: %v", cfg, err)
		}
		if !res.OK() {
			core.Infra("script generation %s failed: %s\n%s\n%s", cfg, res.Describe(), res.ErrorText, res.OutputTail)
		}
		rep.AddTLC(cfg, res)
		rep.Note("%s: %d scripts emitted", cfg, len(all)-n0)
	}
	if len(all) < 100 {
		core.Infra("expected >= 100 scripts from TLC, got %d", len(all))
	}
	sort.Slice(all, func(i, j int) bool { return all[i].key() < all[j].key() })
	rep.Extra["scripts_emitted"] = len(all)
	want := core.Pick(args, 84, 900)
	picked := pick(all, want, args.Seed)
	rep.Extra["scripts_replayed"] = len(picked)
	rep.Extra["distinct_outcome_sets_emitted"] = countSigs(all)
	rep.Extra["distinct_outcome_sets_replayed"] = countSigs(picked)

	// ---- 3. replay on real clusters ----
	cfgs := runCfgs(!args.Quick())
	type job struct {
		i  int
		sc script
	}
	jobs := make(chan job)
	var wg sync.WaitGroup
	var mu sync.Mutex
	stepsTotal, fwdTotal, overlapTotal := 0, 0, 0
	leads := map[string]int{}
	classes := map[string]int{}
	workers := 4
	for k := 0; k < workers; k++ {
		wg.Add(1)
		go func() {
			defer wg.Done()
			for j := range jobs {
				cfg := cfgs[(j.i+int(args.Seed))%len(cfgs)]
				r := confirmed(j.sc, cfg)
				mu.Lock()
				record(rep, j.sc, cfg, r)
				stepsTotal += r.Steps
				fwdTotal += r.Forwards
				overlapTotal += r.Overlapped
				for k, v := range r.Leads {
					leads[k] += v
				}
				for k, v := range r.Classes {
					classes[k] += v
				}
				mu.Unlock()
			}
		}()
	}
	for i, sc := range picked {
		jobs <- job{i, sc}
	}
	close(jobs)
	wg.Wait()

	// ---- 4. directed scenarios (not TLC behaviours of the eager configuration) ----
	for i, sc := range directed() {
		for _, wal := range []bool{false, true} {
			cfg := cfgs[i%len(cfgs)]
			cfg.WAL = wal
			r := confirmed(sc, cfg)
			record(rep, sc, cfg, r)
			stepsTotal += r.Steps
			fwdTotal += r.Forwards
			overlapTotal += r.Overlapped
			for k, v := range r.Leads {
				leads[k] += v
			}
			for k, v := range r.Classes {
				classes[k] += v
			}
		}
	}
	rep.Extra["script_steps_executed"] = stepsTotal
	rep.Extra["forwarded_commits_observed"] = fwdTotal
	rep.Extra["forwarded_commits_overlapped_with_expiry"] = overlapTotal
	rep.Extra["leads_outside_c13_observed_on_real_code"] = leads
	rep.Extra["outcome_classes_observed"] = classes
	if len(picked) > 0 {
		rep.Sample(map[string]any{"script": picked[len(picked)/2].compact(), "source": picked[len(picked)/2].Src})
		rep.Sample(map[string]any{"script": picked[0].compact(), "source": picked[0].Src})
	}
	rep.Finish()
}

func record(rep *core.Report, sc script, cfg runCfg, r *runResult) {
	rep.Eval(r.Evals)
	rep.TracesValidated++
	rep.Case(sc.key()+"|"+cfg.String(), r.Nontrivial)
	for _, nc := range r.Nonconf {
		rep.Nonconf("%s [%s] %s", sc.short(), cfg, nc)
	}
	if r.Infra != "" {
		core.Infra("script %s [%s]: %s", sc.short(), cfg, r.Infra)
	}
	for _, f := range r.Fails {
		rep.Violate(f.Monitor, f.Sig, map[string]any{"step": f.Step, "detail": f.Detail, "config": cfg.String(), "retried": r.Retried},
			map[string]any{"script": sc, "config": cfg})
	}
}

// pick selects n scripts: first one per distinct set of (action, outcome) pairs (round-robin over the
// sets in seed order), then uniformly.
func pick(all []script, n int, seed int64) []script {
	if n >= len(all) {
		return all
	}
	rnd := rand.New(rand.NewSource(seed*7919 + 13))
	groups := map[string][]int{}
	var keys []string
	for i, sc := range all {
		s := sc.sig()
		if _, ok := groups[s]; !ok {
			keys = append(keys, s)
		}
		groups[s] = append(groups[s], i)
	}
	sort.Strings(keys)
	rnd.Shuffle(len(keys), func(i, j int) { keys[i], keys[j] = keys[j], keys[i] })
	var out []script
	used := map[int]bool{}
	for round := 0; len(out) < n && round < 4; round++ {
		for _, k := range keys {
			if len(out) >= n {
				break
			}
			g := groups[k]
			i := g[rnd.Intn(len(g))]
			if !used[i] {
				used[i] = true
				out = append(out, all[i])
			}
		}
	}
	for len(out) < n {
		i := rnd.Intn(len(all))
		if !used[i] {
			used[i] = true
			out = append(out, all[i])
		}
	}
	return out
}

func countSigs(l []script) int {
	m := map[string]bool{}
	for _, s := range l {
		m[s.sig()] = true
	}
	return len(m)
}

func runCfgs(thorough bool) []runCfg {
	c := []runCfg{
		{WAL: false, Layout: "L0", PageSize: 512, Sector: 512},
		{WAL: true, Layout: "L1", PageSize: 512, Sector: 512, BigEndian: true},
		{WAL: false, Layout: "L1", PageSize: 1024, Sector: 512, Compress: true},
		{WAL: true, Layout: "L0", PageSize: 4096, Sector: 4096, SplitHdr: true, Compress: true},
	}
	if thorough {
		c = append(c,
			runCfg{WAL: false, Layout: "L0", PageSize: 4096, Sector: 4096, Flush: true},
			runCfg{WAL: true, Layout: "L0", PageSize: 1024, Sector: 512, Flush: true},
		)
	}
	return c
}

func (c runCfg) layout() sim.Layout {
	if c.Layout == "L1" {
		return sim.L1(c.PageSize)
	}
	return sim.L0(c.PageSize)
}

func replayFile(rep *core.Report, args *core.Args) {
	b, err := os.ReadFile(args.Replay)
	if err != nil {
		core.Infra("read replay: %v", err)
	}
	var f struct {
		Replay struct {
			Script script `json:"script"`
			Config runCfg `json:"config"`
		} `json:"replay"`
	}
	if err := json.Unmarshal(b, &f); err != nil {
		core.Infra("parse replay: %v", err)
	}
	if len(f.Replay.Script.H) == 0 {
		core.Infra("replay file holds no script")
	}
	r := runScript(f.Replay.Script, f.Replay.Config)
	record(rep, f.Replay.Script, f.Replay.Config, r)
	rep.States, rep.Transitions = 1, 1
	rep.Sample(map[string]any{"script": f.Replay.Script.compact()})
	fmt.Fprintf(os.Stderr, "replayed %s: fails=%d nonconf=%v\n", f.Replay.Script.short(), len(r.Fails), r.Nonconf)
}

// confirmed runs a script; when a monitor fails, the script is run once more on a fresh cluster and only the
// failures that occur again (same signature) are kept (R5). A script is a fixed sequence of steps whose
// interleavings the harness constructs itself, so a defect of the code shows on every execution; what shows
// once and not again is the machine (this check runs beside others), not litefs.
func confirmed(sc script, cfg runCfg) *runResult {
	r := runScript(sc, cfg)
	if len(r.Fails) == 0 {
		return r
	}
	r2 := runScript(sc, cfg)
	r2.Retried = true
	first := map[string]bool{}
	for _, f := range r.Fails {
		first[f.Sig] = true
	}
	var keep []failure
	for _, f := range r2.Fails {
		if first[f.Sig] {
			keep = append(keep, f)
		}
	}
	if len(keep) < len(r2.Fails) || len(keep) < len(r.Fails) {
		if r2.Classes == nil {
			r2.Classes = map[string]int{}
		}
		r2.Classes["failure-not-repeated-on-second-execution"] += len(r.Fails) + len(r2.Fails) - 2*len(keep)
	}
	r2.Fails = keep
	return r2
}
