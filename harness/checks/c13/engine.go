package main

// engine.go: executes one Halt.tla script on a real cluster and evaluates the C13 monitors.
//
// Monitors (each derived from one clause of the property, evaluated on observed values only):
//   M1 exclusive/position   during [grant, release|expiry] every position change of the granting node
//                           is preceded by a WRITELTX rename (a forwarded file), never a local commit
//   M2 exclusive/checkpoint no CHECKPOINT:* OS call on the granting node in that window; a client
//                           checkpoint attempted in the window is refused
//   M3 local writer         a local writer on the halted primary is refused with EAGAIN/EBUSY; after
//                           release/expiry a local writer is admitted again
//   M4 starts at lock.pos   LockWait returns with the holder exactly at lock.Pos; the first forwarded
//                           LTX file has PreApplyChecksum = lock.Pos checksum and MinTXID = lock.Pos.TXID+1
//   M5 acknowledged         the primary's position event (txid, checksum) of a holder commit is sequenced
//                           before the holder's finalisation call returns; the third replica reaches it
//   M6 idempotent acquire   an acquire with the id of the lock that is currently granted returns that lock;
//                           a fresh lock carries the primary's position
//   M7 only from holder     a /tx that is answered 200 was sent by the current holder with the current
//                           lock id (classes: no-halt-lock, wrong-lock-id, released-lock, expired-lock);
//                           a refused /tx changes nothing
//   M9 no hang              LockWait / Unlock / Flush / transaction calls return within their bounds

import (
	"bytes"
	"context"
	"encoding/json"
	"errors"
	"fmt"
	"sort"
	"strings"
	"sync"
	"syscall"
	"time"

	"bazil.org/fuse"
	"github.com/superfly/litefs"
	"github.com/superfly/litefs/verifharness/core"
	"github.com/superfly/litefs/verifharness/sim"
	"github.com/superfly/ltx"
)

type mpos struct {
	T int `json:"t"`
	C int `json:"c"`
}

type sum struct {
	Prim string `json:"prim"`
	PP   mpos   `json:"pp"`
	PR   mpos   `json:"pr"`
	PT   mpos   `json:"pt"`
	HL   int    `json:"hl"`
	RL   int    `json:"rl"`
	HH   bool   `json:"hh"`
	CR   bool   `json:"cr"`
	CT   bool   `json:"ct"`
	WD   bool   `json:"wd"`
}

type gArgs struct {
	F    string `json:"f,omitempty"`
	D    bool   `json:"d,omitempty"`
	N    string `json:"n,omitempty"`
	Kind string `json:"kind,omitempty"`
	Lid  int    `json:"lid,omitempty"`
	K    string `json:"k,omitempty"`
	ID   int    `json:"id,omitempty"`
	Intr bool   `json:"intr,omitempty"` // Release: the first unlock attempt is interrupted (a reader holds a read lock), then retried
}

type oRes struct {
	Res  string `json:"res"`
	ID   int    `json:"id,omitempty"`
	T    int    `json:"t,omitempty"`
	C    int    `json:"c,omitempty"`
	Acc  bool   `json:"acc,omitempty"`
	Rb   bool   `json:"rb,omitempty"`
	Held bool   `json:"held,omitempty"`
}

type step struct {
	A string `json:"a"`
	G gArgs  `json:"g"`
	O oRes   `json:"o"`
	S sum    `json:"s"`
}

type script struct {
	H       []step `json:"h"`
	End     sum    `json:"end"`
	Src     string `json:"src,omitempty"`
	NoModel bool   `json:"no_model,omitempty"` // directed scenario: no predictions, monitors only
}

func (st step) label() string {
	s := st.A
	switch {
	case st.G.F != "" && st.G.F != "none":
		s += "(" + st.G.F + ")"
	case st.G.N != "":
		s += "(" + st.G.N + ")"
	case st.G.Kind != "":
		s += "(" + st.G.Kind + ")"
	case st.G.K != "":
		s += "(" + st.G.K + ")"
	}
	if st.G.D {
		s += "+dup"
	}
	return s
}

func (sc script) compact() []string {
	var out []string
	for _, st := range sc.H {
		out = append(out, st.label()+" -> "+st.O.Res)
	}
	return out
}

func (sc script) key() string { return strings.Join(sc.compact(), ";") }

func (sc script) short() string {
	k := sc.key()
	if len(k) > 160 {
		k = k[:160] + "..."
	}
	return k
}

// sig is the set of (action, outcome) pairs of the script.
func (sc script) sig() string {
	m := map[string]bool{}
	for _, st := range sc.H {
		m[st.label()+">"+st.O.Res] = true
	}
	var l []string
	for k := range m {
		l = append(l, k)
	}
	sort.Strings(l)
	return strings.Join(l, ",")
}

type runCfg struct {
	WAL       bool   `json:"wal"`
	Layout    string `json:"layout"`
	PageSize  uint32 `json:"page_size"`
	Sector    int    `json:"sector"`
	BigEndian bool   `json:"big_endian,omitempty"`
	SplitHdr  bool   `json:"split_hdr,omitempty"`
	Compress  bool   `json:"compress,omitempty"`
	Flush     bool   `json:"flush,omitempty"` // release with close(fd) (Flush) instead of F_UNLCK (Unlock)
}

func (c runCfg) String() string {
	m := "rollback"
	if c.WAL {
		m = "wal"
	}
	s := fmt.Sprintf("%s/%s/%d", m, c.Layout, c.PageSize)
	if c.Compress {
		s += "/lz4"
	}
	if c.Flush {
		s += "/flush"
	}
	return s
}

type failure struct {
	Monitor string
	Sig     string
	Step    int
	Detail  any
	Timing  bool
}

type runResult struct {
	Evals               int
	Steps               int
	Forwards            int
	Overlapped          int // forwarded commits executed overlapped with the expiry that follows them in the script
	InterruptedReleases int
	OverlapExpiredEarly int
	Nontrivial          bool
	Fails               []failure
	Nonconf             []string
	Infra               string
	Leads               map[string]int
	Classes             map[string]int
	Retried             bool
}

func (r *runResult) timing() bool {
	for _, f := range r.Fails {
		if f.Timing {
			return true
		}
	}
	return false
}

func (r *runResult) sameFailure(o *runResult) bool {
	for _, f := range r.Fails {
		for _, g := range o.Fails {
			if f.Timing && g.Timing && f.Sig == g.Sig {
				return true
			}
		}
	}
	return false
}

func (r *runResult) dropTiming() {
	var keep []failure
	for _, f := range r.Fails {
		if !f.Timing {
			keep = append(keep, f)
		}
	}
	r.Fails = keep
}

type window struct {
	node  string
	id    int64
	start int64
	end   int64 // 0 = open
}

type dupMsg struct {
	k    string
	to   string
	mid  int   // model lock id
	id   int64 // real lock id
	body []byte
}

type engine struct {
	w    *world
	sc   script
	cfg  runCfg
	res  *runResult
	i    int
	prim string

	hh                   *haltHandle
	hhModel              int
	realID               map[int]int64 // model lock id -> real lock id
	handleID             int64         // real id of the current handle (0 = not known yet)
	held                 map[string]int64
	former               map[int64]string // real id -> released | expired
	lastEnd              map[string]string
	grantPos             map[int64]ltx.Pos
	wins                 []*window
	first                bool
	curLock              *litefs.HaltLock
	lw                   *openTx
	dups                 []dupMsg
	cmap                 map[mpos]ltx.Pos
	base                 int64
	commits              []ltx.Pos // successful holder commits while "P" was primary
	pchanged             bool
	rDead                bool
	dead                 bool
	blocked              map[string]bool
	stepPre              int64
	granted, interesting bool
	expiredInFlight      bool
	lastHolderCommitSeq  int64
	lagEntered           chan struct{}
	httpSeen             int64
}

func (e *engine) fail(monitor, sig string, timing bool, detail any) {
	e.res.Fails = append(e.res.Fails, failure{Monitor: monitor, Sig: sig, Step: e.i, Detail: detail, Timing: timing})
}

func (e *engine) nonconf(format string, a ...any) {
	e.res.Nonconf = append(e.res.Nonconf, fmt.Sprintf("step %d %s: ", e.i, e.stepName())+fmt.Sprintf(format, a...))
}

func (e *engine) stepName() string {
	if e.i >= 0 && e.i < len(e.sc.H) {
		return e.sc.H[e.i].label()
	}
	return "end"
}

// bounded runs f (a call into the real code) and reports a panic or a time-out instead of hanging.
func bounded(label string, d time.Duration, f func()) (pn *core.Panic, timedOut bool) {
	core.Beat("real:" + label)
	defer core.Beat("harness")
	done := make(chan *core.Panic, 1)
	go func() { done <- core.Try(f) }()
	select {
	case p := <-done:
		return p, false
	case <-time.After(d):
		return nil, true
	}
}

func runScript(sc script, cfg runCfg) *runResult {
	res := &runResult{Leads: map[string]int{}, Classes: map[string]int{}}
	w, err := newWorld(worldOpts{WAL: cfg.WAL, Layout: cfg.layout(), Compress: cfg.Compress,
		Pager: sim.PagerOpts{Sector: cfg.Sector, BigEndian: cfg.BigEndian, SplitHdr: cfg.SplitHdr}})
	if err != nil {
		res.Infra = "cluster start: " + err.Error()
		return res
	}
	defer w.close()
	e := &engine{w: w, sc: sc, cfg: cfg, res: res, prim: "P", realID: map[int]int64{}, held: map[string]int64{}, former: map[int64]string{},
		lastEnd: map[string]string{}, grantPos: map[int64]ltx.Pos{}, cmap: map[mpos]ltx.Pos{}, blocked: map[string]bool{}}
	p0 := w.pos("P")
	e.cmap[mpos{1, 0}] = p0
	e.base = int64(p0.TXID) - 1
	e.httpSeen = w.rec.mark()
	for i := range sc.H {
		e.i = i
		st := sc.H[i]
		if !sc.NoModel {
			e.conform(st.S)
		}
		if e.dead {
			break
		}
		e.stepPre = w.rec.mark()
		e.doStep(st)
		e.scanHTTP()
		res.Steps++
		res.Classes[st.A+":"+st.O.Res]++
		if e.dead || e.rDead {
			break
		}
	}
	e.i = len(sc.H)
	e.finish()
	return res
}

// ---------------------------------------------------------------- conformance of positions (R3)

func (e *engine) realOf(m mpos) (ltx.Pos, bool) {
	p, ok := e.cmap[m]
	return p, ok
}

// conform waits until the nodes the model calls caught up have the predicted positions (the stream is
// eager in the script configurations) and records a non-conformance if they do not get there.
func (e *engine) conform(s sum) {
	if s.WD {
		// the model says the holder's stream goroutine is stuck by now; the frame that does it travels on its own
		deadline := time.Now().Add(10 * time.Second)
		for !e.holderPinned() && time.Now().Before(deadline) {
			time.Sleep(time.Millisecond)
		}
		if !e.holderPinned() {
			e.nonconf("model predicts a stuck replication stream on the holder, its lock table is free: %v", e.w.lockTable("R"))
			e.dead = true
			return
		}
	}
	want := map[string]mpos{"P": s.PP, "R": s.PR, "T": s.PT}
	for _, n := range roles {
		if e.pchanged && n == "P" {
			continue // the old primary is inert in the model
		}
		exp, ok := e.realOf(want[n])
		if !ok {
			continue
		}
		deadline := time.Now().Add(10 * time.Second)
		for e.w.pos(n) != exp && time.Now().Before(deadline) {
			time.Sleep(300 * time.Microsecond)
		}
		if got := e.w.pos(n); got != exp {
			e.nonconf("node %s at %s, model predicts %s (t=%d c=%d)", n, got, exp, want[n].T, want[n].C)
			e.dead = true
			return
		}
	}
}

// ---------------------------------------------------------------- bookkeeping from observed HTTP exchanges

func (e *engine) openWindow(node string, id int64, at int64) {
	for _, w := range e.wins {
		if w.node == node && w.end == 0 {
			return
		}
	}
	e.wins = append(e.wins, &window{node: node, id: id, start: at})
}

func (e *engine) closeWindow(node string, at int64) {
	for _, w := range e.wins {
		if w.node == node && w.end == 0 {
			w.end = at
			if w.end < w.start {
				w.end = w.start
			}
			e.checkWindow(w)
		}
	}
}

// scanHTTP replays the /halt and /tx exchanges observed since the last call into the harness's own
// record of who holds what, and evaluates M7 on every accepted /tx.
func (e *engine) scanHTTP() {
	hi := e.w.rec.mark()
	evs := e.w.rec.between(e.httpSeen, hi, func(ev event) bool { return ev.Kind == "http" })
	e.httpSeen = hi
	for _, ev := range evs {
		to := ev.To
		switch ev.Label {
		case "POST /halt":
			if ev.Status != 200 {
				continue
			}
			if e.held[to] == 0 {
				e.held[to] = ev.LockID
				delete(e.former, ev.LockID)
				e.grantPos[ev.LockID] = e.w.pos(to)
				e.openWindow(to, ev.LockID, ev.Seq)
				// M4: a fresh lock carries the granting node's position at the grant. Nothing commits on
				// that node between the grant and the response (that is M1), so this is the last position
				// change the node made before the response was seen - also when a local writer finished
				// while the request was waiting for the write lock.
				if ev.HasGrant {
					e.res.Evals++
					if last := e.w.rec.between(0, ev.Seq, func(x event) bool { return x.Kind == "pos" && x.Node == to }); len(last) > 0 {
						lp := last[len(last)-1]
						if lp.TXID != ev.GrantTXID || lp.Chk != ev.GrantChk {
							e.fail("C13.holder-starts-at-lock-position", "granted-position-is-not-the-primary-position", false, map[string]any{
								"granting_node": to, "lock_id": ev.LockID,
								"lock_position":    ltx.Pos{TXID: ltx.TXID(ev.GrantTXID), PostApplyChecksum: ltx.Checksum(ev.GrantChk)}.String(),
								"primary_position": ltx.Pos{TXID: ltx.TXID(lp.TXID), PostApplyChecksum: ltx.Checksum(lp.Chk)}.String()})
						}
					}
				}
			}
		case "DELETE /halt":
			if ev.Status != 200 {
				continue
			}
			if e.held[to] == ev.LockID && ev.LockID != 0 {
				e.held[to] = 0
				e.former[ev.LockID] = "released"
				e.lastEnd[to] = "released"
				e.closeWindow(to, e.stepPre)
			}
		case "POST /tx":
			e.res.Evals++
			if ev.Status != 200 {
				continue
			}
			holder := ev.Node == "R" && ev.LockID != 0 && e.held[to] == ev.LockID
			if holder {
				e.res.Forwards++
				continue
			}
			class := "no-halt-lock"
			switch {
			case e.held[to] != 0:
				class = "wrong-lock-id"
			case e.former[ev.LockID] != "":
				class = e.former[ev.LockID] + "-lock"
			}
			e.fail("C13.tx-only-from-current-holder", "tx-accepted/"+class, false, map[string]any{
				"sender": ev.Node, "to": to, "lock_id_in_request": ev.LockID, "lock_id_granted_by_receiver": e.held[to],
				"status": ev.Status, "receiver_position_now": e.w.pos(to).String(), "receiver_is_primary": e.w.n[to].Store.IsPrimary()})
		}
	}
}

// checkWindow evaluates M1 and M2 on the events of the granting node between grant and release/expiry.
func (e *engine) checkWindow(w *window) {
	evs := e.w.rec.between(w.start, w.end, func(ev event) bool { return ev.Node == w.node && (ev.Kind == "pos" || ev.Kind == "os") })
	armed := false
	e.res.Evals += 2
	for _, ev := range evs {
		switch {
		case ev.Kind == "os" && strings.HasPrefix(ev.Label, "CHECKPOINT"):
			e.fail("C13.no-checkpoint-while-halted", "checkpoint-during-halt/"+ev.Label, false, map[string]any{"node": w.node, "event": ev, "window": []int64{w.start, w.end}})
			return
		case ev.Kind == "os" && ev.Label == "WRITELTX":
			armed = true
		case ev.Kind == "pos":
			if !armed {
				sig := "local-position-change-during-halt"
				if ev.Chk == uint64(ltx.ChecksumFlag) {
					sig += "/to-the-empty-checksum" // the database was dropped
				}
				e.fail("C13.position-changes-only-by-forwarded-files", sig, false, map[string]any{"node": w.node, "event": ev, "window": []int64{w.start, w.end}})
				return
			}
			armed = false
		}
	}
}

// holderPinned: R's write locks are taken although no transaction of the application is open.
func (e *engine) holderPinned() bool {
	lt := e.w.lockTable("R")
	return lt["pending"] == "exclusive" || lt["write"] == "exclusive"
}

func isBusy(errno syscall.Errno) bool { return errno == syscall.EAGAIN || errno == syscall.EBUSY }

// ---------------------------------------------------------------- one script step

func (e *engine) doStep(st step) {
	w := e.w
	tapR := w.taps["R"]
	model := !e.sc.NoModel
	obs := ""
	switch st.A {
	case "Open":
		hh, err := w.openLockFile("R")
		if err != nil {
			e.res.Infra = "open lock file: " + err.Error()
			e.dead = true
			return
		}
		e.hh, e.handleID, e.hhModel = hh, 0, st.G.ID
		obs = "ok"

	case "Acquire":
		if e.hh == nil {
			hh, err := w.openLockFile("R")
			if err != nil {
				e.res.Infra = "open lock file: " + err.Error()
				e.dead = true
				return
			}
			e.hh, e.handleID = hh, 0
		}
		e.hhModel = st.O.ID
		switch st.G.F {
		case "reqlost":
			tapR.drop("POST /halt", 1)
		case "resplost":
			tapR.lose("POST /halt", 1)
		}
		p := e.prim
		ppos := w.pos(p)
		if st.G.Intr {
			// the requester gives the request up (FUSE interrupt, time-out on its side) while the primary is inside
			// its grant-time recovery, i.e. after it took the write lock and before it answers; then it asks again
			// through the same handle (the same lock id), as the lock file's handler does after EINTR
			ctx0, cancel0 := context.WithCancel(context.Background())
			prevHook := w.n[p].OS.Before
			var once sync.Once
			w.n[p].OS.Before = func(ev sim.OSEvent) error {
				if ev.Label == "CHECKPOINT:DB" {
					once.Do(func() {
						cancel0()
						time.Sleep(200 * time.Millisecond) // the cancellation reaches the primary's handler
					})
				}
				if prevHook != nil {
					return prevHook(ev)
				}
				return nil
			}
			var err0 error
			pn0, to0 := bounded("LockWait(abandoned)", w.o.AcquireTO+20*time.Second, func() { err0 = e.hh.lockWait(ctx0) })
			cancel0()
			w.n[p].OS.Before = prevHook
			if e.callTrouble("LockWait (abandoned)", pn0, to0) {
				return
			}
			e.res.Classes[fmt.Sprintf("Acquire:abandoned-first-attempt-error=%v", err0 != nil)]++
			time.Sleep(50 * time.Millisecond)
		}
		wasHeld := e.handleID != 0 && e.held[p] == e.handleID
		var err error
		ctx, cancel := context.WithTimeout(context.Background(), w.o.AcquireTO+15*time.Second)
		pn, to := bounded("LockWait", w.o.AcquireTO+20*time.Second, func() { err = e.hh.lockWait(ctx) })
		cancel()
		tapR.reset()
		if e.callTrouble("LockWait", pn, to) {
			return
		}
		for _, ev := range w.rec.between(e.stepPre, w.rec.mark(), func(ev event) bool { return ev.Kind == "http" && ev.Node == "R" && ev.Label == "POST /halt" }) {
			e.handleID = ev.LockID
		}
		if e.handleID != 0 && st.O.ID != 0 {
			e.realID[st.O.ID] = e.handleID
		}
		switch {
		case err == nil:
			obs = "ok"
		case strings.Contains(err.Error(), "no primary available"), strings.Contains(err.Error(), "partitioned"):
			obs = "noprimary"
		case strings.Contains(err.Error(), "wait:"):
			obs = "wait"
		case strings.Contains(err.Error(), "fault injection"):
			obs = "err"
		case strings.Contains(err.Error(), "code=500"), strings.Contains(err.Error(), "remote begin") && strings.Contains(err.Error(), "deadline exceeded"):
			obs = "busy"
		default:
			obs = "other: " + err.Error()
		}
		if err == nil {
			rl := w.n["R"].Store.DB(w.db).RemoteHaltLock()
			e.res.Evals += 2
			if rl != nil {
				// M4: the holder starts from exactly the position the lock was granted at
				if got := w.pos("R"); got != rl.Pos {
					e.fail("C13.holder-starts-at-lock-position", "holder-not-at-lock-position-after-acquire", false, map[string]any{"lock": rl, "holder_position": got.String()})
				}
				// M6: same id while granted => same lock; fresh lock => the primary's position at grant
				if wasHeld {
					if gp, ok := e.grantPos[rl.ID]; ok && gp != rl.Pos {
						e.fail("C13.same-id-same-lock", "repeated-acquire/different-position", false, map[string]any{"first_grant_position": gp.String(), "returned": rl})
					}
				} else if rl.Pos != ppos {
					e.fail("C13.holder-starts-at-lock-position", "lock-position-differs-from-primary-position", false, map[string]any{"lock": rl, "primary_position_at_grant": ppos.String()})
				}
				if rl.ID != e.handleID {
					e.fail("C13.same-id-same-lock", "repeated-acquire/different-id", false, map[string]any{"requested": e.handleID, "returned": rl})
				}
			}
			e.curLock, e.first = rl, true
		} else if wasHeld && obs == "busy" {
			// the lock with this id is granted right now: the primary must answer with it, not refuse
			e.res.Evals++
			e.fail("C13.same-id-same-lock", "repeated-acquire/refused", false, map[string]any{"error": err.Error(), "id": e.handleID})
		}
		if st.G.D && e.handleID != 0 {
			e.dups = append(e.dups, dupMsg{k: "halt", to: p, mid: st.O.ID, id: e.handleID})
		}

	case "AcquireRace":
		// the request is sent while the local writer's transaction is open, the writer commits while
		// AcquireHaltLock waits for the write lock, then the call is left to finish
		if e.lw == nil {
			obs = "other: no open writer"
			break
		}
		if e.hh == nil {
			hh, err := w.openLockFile("R")
			if err != nil {
				e.res.Infra = "open lock file: " + err.Error()
				e.dead = true
				return
			}
			e.hh, e.handleID = hh, 0
		}
		e.hhModel = st.O.ID
		p := e.prim
		sent := make(chan struct{}, 1)
		tapR.notifySend(func(key string) {
			if key == "POST /halt" {
				select {
				case sent <- struct{}{}:
				default:
				}
			}
		})
		var err error
		done := make(chan struct{})
		var pn *core.Panic
		var to bool
		go func() {
			defer close(done)
			ctx, cancel := context.WithTimeout(context.Background(), w.o.AcquireTO+15*time.Second)
			defer cancel()
			pn, to = bounded("LockWait", w.o.AcquireTO+20*time.Second, func() { err = e.hh.lockWait(ctx) })
		}()
		select {
		case <-sent:
			time.Sleep(150 * time.Millisecond) // the handler reaches AcquireWriteLock and waits there
		case <-done:
		case <-time.After(10 * time.Second):
		}
		tapR.notifySend(nil)
		// with D: the same request is repeated (same lock id) while the first one is still waiting - a
		// client that retries after a time-out on its side
		type dupRes struct {
			hl          *litefs.HaltLock
			status      int
			err         error
			walAtAnswer int64 // size of the primary's WAL file when the answer arrived
		}
		var dupDone chan dupRes
		var dupID int64
		if st.G.D && e.cfg.WAL {
			// widen the window in which the primary's grant-time recovery (checkpoint of the local writer's
			// frames) runs: a grant must not be answered before that recovery is over
			prevHook := w.n[p].OS.Before
			var once sync.Once
			w.n[p].OS.Before = func(ev sim.OSEvent) error {
				if ev.Label == "CHECKPOINT:DB" {
					once.Do(func() { time.Sleep(250 * time.Millisecond) })
				}
				if prevHook != nil {
					return prevHook(ev)
				}
				return nil
			}
			defer func() { w.n[p].OS.Before = prevHook }()
		}
		if st.G.D {
			dupID = tapR.lastHaltID.Load()
			e.res.Classes[fmt.Sprintf("AcquireRace:repeat-id-known=%v", dupID != 0)]++
			if dupID != 0 {
				dupDone = make(chan dupRes, 1)
				go func() {
					var d dupRes
					d.hl, d.status, d.err = w.postHalt(p, w.ids["R"], dupID)
					d.walAtAnswer = w.walSize(p)
					dupDone <- d
				}()
				time.Sleep(100 * time.Millisecond)
			}
		}
		var r txResult
		tx := e.lw
		e.lw = nil
		pn2, to2 := bounded("local-writer-commit", 60*time.Second, func() { r = w.commitTx(tx) })
		<-done
		if dupDone != nil {
			e.res.Evals++
			select {
			case d := <-dupDone:
				// two requests with one lock id: both are answered with the same lock (or both refused)
				rl := w.n["R"].Store.DB(w.db).RemoteHaltLock()
				firstOK, dupOK := err == nil, d.status == 200 && d.hl != nil
				if dupOK && e.cfg.WAL && d.walAtAnswer > 0 {
					e.fail("C13.holder-starts-at-lock-position", "grant-answered-before-the-grant-time-recovery-finished", false,
						map[string]any{"primary_wal_bytes_when_the_repeated_request_was_granted": d.walAtAnswer, "lock": d.hl})
				}
				switch {
				case firstOK != dupOK:
					e.fail("C13.same-id-same-lock", fmt.Sprintf("repeated-acquire-while-waiting/first-ok=%v/repeat-ok=%v", firstOK, dupOK), false,
						map[string]any{"repeat_status": d.status, "repeat_error": fmt.Sprint(d.err), "first_error": fmt.Sprint(err), "repeated": d.hl, "first": rl})
				case firstOK && rl != nil && (d.hl.ID != rl.ID || d.hl.Pos != rl.Pos):
					e.fail("C13.same-id-same-lock", "repeated-acquire-while-waiting/different-answer", false, map[string]any{"repeated": d.hl, "first": rl})
				}
			case <-time.After(w.o.AcquireTO + 5*time.Second):
				e.fail("C13.same-id-same-lock", "repeated-acquire-while-waiting/no-answer", true, map[string]any{"lock_id": dupID, "bound": (w.o.AcquireTO + 5*time.Second).String()})
			}
		}
		tapR.reset()
		if e.callTrouble("local writer commit", pn2, to2) || e.callTrouble("LockWait", pn, to) {
			return
		}
		for _, ev := range w.rec.between(e.stepPre, w.rec.mark(), func(ev event) bool { return ev.Kind == "http" && ev.Node == "R" && ev.Label == "POST /halt" }) {
			e.handleID = ev.LockID
		}
		if e.handleID != 0 && st.O.ID != 0 {
			e.realID[st.O.ID] = e.handleID
		}
		switch {
		case r.Err != nil:
			obs = "other: local commit: " + r.Err.Error()
		case err == nil:
			obs = "ok"
			e.cmap[mpos{st.O.T, st.O.C}] = r.After
			e.res.Evals++
			// the holder was told to wait for the lock's position and LockWait succeeded: it is there
			if got, want := w.pos("R"), w.pos(p); got != want {
				e.fail("C13.holder-starts-at-lock-position", "holder-behind-primary-after-acquire", false, map[string]any{"holder_position": got.String(), "primary_position": want.String()})
			}
			rl := w.n["R"].Store.DB(w.db).RemoteHaltLock()
			e.res.Evals++
			if rl == nil {
				// the catch-up file of a lagging holder must not cost it the lock it was just granted
				e.fail("C13.holder-starts-at-lock-position", "lock-lost-to-catch-up-file", false, map[string]any{"holder_position": w.pos("R").String()})
			} else if got := w.pos("R"); got != rl.Pos {
				e.fail("C13.holder-starts-at-lock-position", "holder-not-at-lock-position-after-acquire", false, map[string]any{"lock": rl, "holder_position": got.String()})
			}
			e.curLock, e.first = rl, rl != nil
		default:
			e.cmap[mpos{st.O.T, st.O.C}] = r.After
			obs = "other: " + err.Error()
		}

	case "AcqTimeout":
		obs = "waitfail" // the time-out is part of the LockWait call of the preceding step

	case "RTx":
		switch st.G.F {
		case "reqlost":
			tapR.drop("POST /tx", 1)
		case "resplost":
			tapR.lose("POST /tx", 1)
		}
		p := e.prim
		var r txResult
		// A forwarded commit followed in the script by the expiry of the lock is executed OVERLAPPED: the
		// request is held in flight after its header reached the primary, the expiry is attempted, then the
		// body is let through. The code must order the two as the script does (commit, then expiry): an
		// expiry that takes effect while the commit is in flight makes the commit one from a former holder.
		var gate *stallGate
		if e.i+1 < len(e.sc.H) && e.sc.H[e.i+1].A == "Expire" && (e.sc.H[e.i+1].G.N == "" || e.sc.H[e.i+1].G.N == p) &&
			(st.G.F == "" || st.G.F == "none") && !st.G.D && e.held[p] != 0 && e.held[p] == e.handleID {
			gate = tapR.stallNextTx(120)
			go func(g *stallGate) {
				select {
				case <-g.reached:
				case <-time.After(20 * time.Second):
					g.release()
					return
				}
				t0 := time.Now()
				for !time.Now().After(t0) {
					time.Sleep(200 * time.Microsecond)
				}
				time.Sleep(5 * time.Millisecond)
				done := make(chan struct{})
				go func() {
					_ = core.Try(func() { w.n[p].Store.EnforceHaltLockExpiration(context.Background()) })
					close(done)
				}()
				select {
				case <-done:
				case <-time.After(400 * time.Millisecond):
				}
				// did the expiry take effect although the commit is still in flight? (as written, the
				// expiry round is skipped while a forwarded commit holds the halt mutex.) The halt lock
				// pins the primary's write locks: when they are free, the lock is gone.
				if lt := w.lockTable(p); lt["pending"] != "exclusive" && lt["write"] != "exclusive" {
					e.res.OverlapExpiredEarly++
					e.expiredInFlight = true
				}
				g.release()
				<-done
			}(gate)
		}
		// Kind "release-race": another connection of the holder gives the halt lock back while this
		// transaction is inside its commit step (LiteFS is building the transaction file): the release
		// waits for the commit (its recovery needs the write lock), the commit is the holder's
		var relDone chan struct{}
		if st.G.Kind == "release-race" && e.hh != nil && !e.cfg.WAL {
			relDone = make(chan struct{})
			prevHook := w.n["R"].OS.Before
			var once sync.Once
			hh := e.hh
			w.n["R"].OS.Before = func(ev sim.OSEvent) error {
				if ev.Call == "Create" && strings.HasPrefix(ev.Label, "COMMITJOURNAL") {
					once.Do(func() {
						go func() {
							defer close(relDone)
							ctx, cancel := context.WithTimeout(context.Background(), 10*time.Second)
							defer cancel()
							_ = core.Try(func() { _ = hh.unlock(ctx) })
						}()
						time.Sleep(150 * time.Millisecond)
					})
				}
				if prevHook != nil {
					return prevHook(ev)
				}
				return nil
			}
			defer func() { w.n["R"].OS.Before = prevHook }()
		}
		pn, to := bounded("holder-transaction", 60*time.Second, func() {
			// like SQLite's busy handler: the stream goroutine takes the write lock for a moment whenever a
			// frame arrives (also for the holder's own frames, which it then discards)
			for a := 0; a < 10; a++ {
				if r = w.localTx("R", false); r.Err == nil || r.Stage != "begin" || !isBusy(r.Errno) {
					break
				}
				time.Sleep(30 * time.Millisecond)
			}
		})
		tapR.reset()
		if gate != nil {
			gate.release()
			e.res.Overlapped++
		}
		if relDone != nil {
			select {
			case <-relDone:
			case <-time.After(20 * time.Second):
			}
			e.first = false
		}
		if e.callTrouble("holder transaction", pn, to) {
			return
		}
		if e.expiredInFlight {
			// bookkeeping of the expiry that already happened, BEFORE the /tx exchange is judged
			e.expiredInFlight = false
			if id := e.held[p]; id != 0 && w.n[p].Store.DB(w.db) != nil {
				e.held[p] = 0
				e.former[id] = "expired"
				e.lastEnd[p] = "expired"
				e.closeWindow(p, e.stepPre)
			}
		}
		switch {
		case r.Err == nil:
			obs = "ok"
		case r.Stage == "begin" && isBusy(r.Errno):
			obs = "busy"
		case r.Stage == "write" && r.Errno == syscall.EACCES:
			obs = "ro"
		case r.Stage == "commit":
			obs = "refused"
		default:
			obs = fmt.Sprintf("other: %s (%v) at %s", r.Err, r.Errno, r.Stage)
		}
		sent := tapR.txSince(e.stepPre)
		if len(sent) > 0 && e.first && e.curLock != nil {
			// M4: first forwarded file after the acquire starts at lock.Pos
			e.first = false
			e.res.Evals++
			dec := ltx.NewDecoder(bytes.NewReader(sent[0].Body))
			if derr := dec.DecodeHeader(); derr == nil {
				h := dec.Header()
				if h.PreApplyChecksum != e.curLock.Pos.PostApplyChecksum || h.MinTXID != e.curLock.Pos.TXID+1 {
					e.fail("C13.holder-starts-at-lock-position", "first-forwarded-file-not-at-lock-position", false, map[string]any{
						"lock": e.curLock, "min_txid": h.MinTXID.String(), "pre_apply_checksum": h.PreApplyChecksum.String()})
				}
			}
		}
		if r.Err == nil {
			e.lastHolderCommitSeq = w.rec.mark()
			// M5: on the primary under the same (txid, checksum) before the commit returned
			e.res.Evals++
			found := w.rec.between(r.CallSeq, r.RetSeq, func(ev event) bool {
				return ev.Kind == "pos" && ev.Node == p && ev.TXID == uint64(r.After.TXID) && ev.Chk == uint64(r.After.PostApplyChecksum)
			})
			if len(found) == 0 {
				e.fail("C13.applied-on-primary-before-commit-returns", "holder-commit-returned-before-primary-applied", false, map[string]any{
					"holder_position_after_commit": r.After.String(), "primary": p, "primary_position": w.pos(p).String()})
			}
			if p == "P" {
				e.commits = append(e.commits, r.After)
			}
			e.cmap[mpos{st.O.T, st.O.C}] = r.After
		} else if model {
			if st.O.Acc {
				e.cmap[mpos{st.O.T, st.O.C}] = w.pos(p)
			}
			if st.O.Rb {
				e.cmap[mpos{st.O.T, st.S.PR.C}] = w.pos("R")
			}
		}
		if st.G.D && len(sent) > 0 {
			e.dups = append(e.dups, dupMsg{k: "tx", to: p, id: sent[0].LockID, body: sent[0].Body})
		}
		if e.cfg.WAL && obs == "refused" {
			e.rDead = true // LiteFS called Store.Exit(99): the holder process would be gone
		}
		if len(r.Exits) > 0 && obs != "refused" {
			e.fail("C13.no-exit", "exit/holder/"+obs, false, map[string]any{"codes": r.Exits})
		}

	case "RDie":
		// the holder's writing process dies in the middle of a transaction: journal synced, pages written,
		// nothing committed. Its database handles are closed (its locks go away), the journal stays; the
		// HALT lock is held through the lock-file handle of another process and stays as well.
		var tx *openTx
		var r txResult
		pn, to := bounded("holder-writer-dies", 60*time.Second, func() {
			for a := 0; a < 10; a++ {
				if tx, r = w.beginTx("R", false); tx != nil || r.Stage != "begin" || !isBusy(r.Errno) {
					break
				}
				time.Sleep(30 * time.Millisecond)
			}
			if tx != nil {
				tx.pg.C.Close()
				delete(w.pg, "R")
				if st.G.Kind != "other-pages" {
					w.ver++ // the next transaction (same parity of the version) rewrites the pages the dead one touched
				}
			}
		})
		if e.callTrouble("holder writer", pn, to) {
			return
		}
		if tx != nil {
			obs = "ok"
		} else {
			obs = fmt.Sprintf("other: %v at %s", r.Err, r.Stage)
		}

	case "Release":
		switch st.G.F {
		case "reqlost":
			tapR.drop("DELETE /halt", 1)
		case "resplost":
			tapR.lose("DELETE /halt", 1)
		}
		if e.hh == nil {
			obs = "noop"
			break
		}
		var err error
		if st.G.Intr && e.cfg.WAL {
			// another connection on the holder is inside a read transaction: the checkpoint that the release
			// performs cannot get the write lock, the unlock request is interrupted (EINTR) and retried
			rc := w.n["R"].Connect(w.db, 9100+uint64(e.i))
			if oerr := firstNonNil(rc.OpenDB(false), rc.OpenSHM(), rc.LockSHM(fuse.LockRead, 128, 128), rc.LockSHM(fuse.LockRead, 124, 124)); oerr == nil {
				// (a FUSE interrupt cancels the request's context; a deadline would not be answered with EINTR)
				ictx, icancel := context.WithCancel(context.Background())
				tm := time.AfterFunc(150*time.Millisecond, icancel)
				_, _ = bounded("Unlock (to be interrupted)", 20*time.Second, func() { _ = e.hh.unlock(ictx) })
				tm.Stop()
				icancel()
				e.res.InterruptedReleases++
			}
			_ = rc.LockSHM(fuse.LockUnlock, 124, 124)
			_ = rc.LockSHM(fuse.LockUnlock, 128, 128)
			rc.Close()
		}
		ctx, cancel := context.WithTimeout(context.Background(), 3*time.Second)
		pn, to := bounded("Unlock", 30*time.Second, func() {
			if e.cfg.Flush {
				err = e.hh.flush(ctx)
			} else {
				err = e.hh.unlock(ctx)
			}
		})
		cancel()
		tapR.reset()
		if e.callTrouble("Unlock", pn, to) {
			return
		}
		switch {
		case err == nil:
			obs = "ok"
		case strings.Contains(err.Error(), "no primary available"), strings.Contains(err.Error(), "partitioned"):
			obs = "noprimary"
		case strings.Contains(err.Error(), "fault injection"):
			obs = "err"
		case errors.Is(err, context.DeadlineExceeded) || strings.Contains(err.Error(), "deadline exceeded"):
			obs = "hang"
		default:
			obs = "other: " + err.Error()
		}
		e.res.Evals++
		if obs == "hang" {
			lt := w.lockTable("R")
			rl := w.n["R"].Store.DB(w.db).RemoteHaltLock()
			sig := "hang/unlock/other"
			if rl != nil && (lt["pending"] == "exclusive" || lt["write"] == "exclusive") && w.pos("R") != w.pos(e.prim) {
				// nobody on R runs a transaction, yet its write locks are taken and its remote halt lock is
				// still set: the replication goroutine is stuck clearing that lock on an incoming frame
				sig = "hang/unlock/stale-remote-lock-and-foreign-frame"
			}
			e.fail("C13.release-completes", sig, true, map[string]any{"error": err.Error(), "bound": "3s (typical < 10ms)", "holder_lock_table": lt,
				"holder_remote_lock": rl, "holder_position": w.pos("R").String(), "primary_position": w.pos(e.prim).String()})
		}
		e.first = false
		if st.G.D && e.handleID != 0 {
			e.dups = append(e.dups, dupMsg{k: "unhalt", to: e.prim, id: e.handleID})
		}

	case "LWBegin":
		p := e.prim
		halted := e.held[p] != 0
		var tx *openTx
		var r txResult
		attempts := 1
		if !halted {
			attempts = 4 // SQLite's busy handler: a snapshot reader may hold the locks for a moment
		}
		for a := 0; a < attempts; a++ {
			pn, to := bounded("local-writer-begin", 60*time.Second, func() { tx, r = w.beginTx(p, false) })
			if e.callTrouble("local writer", pn, to) {
				return
			}
			if tx != nil || !isBusy(r.Errno) {
				break
			}
			time.Sleep(50 * time.Millisecond)
		}
		e.res.Evals++
		switch {
		case tx != nil:
			obs = "ok"
			e.lw = tx
			if halted {
				e.fail("C13.no-local-transaction-while-halted", "local-writer-admitted-during-halt", false, map[string]any{"primary": p, "lock_id": e.held[p], "lock_table": w.lockTable(p)})
			}
		case isBusy(r.Errno):
			obs = "busy"
			if !halted {
				how := e.lastEnd[p]
				if how == "" {
					how = "never-halted"
				}
				e.fail("C13.primary-writes-again-after-release-or-expiry", "local-writer-refused/"+how, false, map[string]any{"primary": p, "error": r.Err.Error(), "lock_table": w.lockTable(p)})
			}
		default:
			obs = fmt.Sprintf("other: %s (%v) at %s", r.Err, r.Errno, r.Stage)
			if halted {
				e.fail("C13.no-local-transaction-while-halted", "local-writer-refusal-is-not-busy", false, map[string]any{"error": r.Err.Error(), "errno": int(r.Errno), "stage": r.Stage})
			}
		}

	case "LWCommit":
		if e.lw == nil {
			obs = "other: no open writer"
			break
		}
		var r txResult
		tx := e.lw
		e.lw = nil
		pn, to := bounded("local-writer-commit", 60*time.Second, func() { r = w.commitTx(tx) })
		if e.callTrouble("local writer commit", pn, to) {
			return
		}
		if r.Err == nil {
			obs = "ok"
			e.cmap[mpos{st.O.T, st.O.C}] = r.After
		} else {
			obs = "other: " + r.Err.Error()
		}

	case "TAcquire":
		// the third node asks for the halt lock of the same database through its own lock file, and its application
		// happens to use the same lock-owner value as the holder's (lock owners are unique per kernel, not per
		// cluster): two nodes, two requests - the second one must wait for the first holder
		p := e.prim
		hhT, herr := w.openLockFile("T")
		if herr != nil {
			e.res.Infra = "open lock file on T: " + herr.Error()
			e.dead = true
			return
		}
		if e.hh != nil {
			hhT.owner = e.hh.owner
		}
		heldByR := e.held[p] != 0 && w.n["R"].Store.DB(w.db).RemoteHaltLock() != nil
		var err error
		ctx, cancel := context.WithTimeout(context.Background(), w.o.AcquireTO+5*time.Second)
		pn, to := bounded("LockWait(T)", w.o.AcquireTO+10*time.Second, func() { err = hhT.lockWait(ctx) })
		cancel()
		if e.callTrouble("LockWait on T", pn, to) {
			return
		}
		e.res.Evals++
		if err == nil {
			obs = "ok"
			if heldByR {
				e.fail("C13.no-local-transaction-while-halted", "second-node-granted-the-halt-lock-while-it-is-held", false, map[string]any{"holder": "R", "second": "T",
					"holders_lock": w.n["R"].Store.DB(w.db).RemoteHaltLock(), "seconds_lock": w.n["T"].Store.DB(w.db).RemoteHaltLock(),
					"what": "two replicas hold the halt lock of one database at the same time (their applications use the same lock-owner value)"})
			}
			uctx, ucancel := context.WithTimeout(context.Background(), 10*time.Second)
			_ = core.Try(func() { _ = hhT.unlock(uctx) })
			ucancel()
		} else {
			obs = "busy"
		}
		e.res.Classes[fmt.Sprintf("TAcquire:granted=%v/holder-held=%v", err == nil, heldByR)]++
		if heldByR {
			// whatever became of the second node's request, the holder has neither released the lock nor let it expire
			e.res.Evals++
			time.Sleep(20 * time.Millisecond)
			if lt := w.lockTable(p); lt["pending"] != "exclusive" && lt["write"] != "exclusive" {
				e.fail("C13.no-local-transaction-while-halted", "holder-lost-the-lock-to-another-nodes-request", false, map[string]any{"holder": "R", "other": "T",
					"others_request_error": sim.ErrString(err), "lock_table_of_the_primary": lt,
					"what": "while R holds the halt lock another replica's request (same lock-owner value) was made and ended; afterwards the primary's write locks are free although R neither released the lock nor let it expire"})
			}
		}

	case "LDrop":
		// the primary's application unlinks the database (FUSE unlink -> RootNode.Remove -> DB.Drop)
		p := e.prim
		halted := e.held[p] != 0
		before := w.pos(p)
		var err error
		pn, to := bounded("local-drop", 60*time.Second, func() {
			c := w.n[p].Connect(w.db, 4242)
			err = c.RemoveDB()
		})
		if e.callTrouble("local drop", pn, to) {
			return
		}
		e.res.Evals++
		after := w.pos(p)
		if err == nil || after != before {
			obs = "ok"
			if halted {
				e.fail("C13.no-local-transaction-while-halted", "local-drop-admitted-during-halt", false, map[string]any{"primary": p, "lock_id": e.held[p],
					"position_before": before.String(), "position_after": after.String(), "error": sim.ErrString(err), "lock_table": w.lockTable(p),
					"what": "while a replica holds the database's halt lock the primary executed an unlink of the database: a local transaction (the position advanced) inside the halt"})
			}
		} else {
			obs = "busy"
		}
		// the database is gone (or the unlink was refused): the script ends here
		e.dead = true

	case "Ckpt":
		p := e.prim
		halted := e.held[p] != 0
		var err error
		pn, to := bounded("checkpoint", 60*time.Second, func() {
			for a := 0; a < 3; a++ {
				if err = e.checkpoint(p); err == nil || halted || e.lw != nil {
					break
				}
				time.Sleep(30 * time.Millisecond)
			}
		})
		if e.callTrouble("checkpoint", pn, to) {
			return
		}
		e.res.Evals++
		if err == nil {
			obs = "ok"
			if halted {
				e.fail("C13.no-checkpoint-while-halted", "checkpoint-admitted-during-halt", false, map[string]any{"primary": p, "lock_table": w.lockTable(p)})
			}
		} else {
			obs = "busy"
		}

	case "Expire":
		n := st.G.N
		if n == "" {
			n = e.prim
		}
		// the lock is overdue as soon as the clock has moved past its grant (TTL 1 ns; the clock of this
		// machine may be coarse): wait for one visible clock step, then let the store enforce expiry
		t0 := time.Now()
		for !time.Now().After(t0) {
			time.Sleep(200 * time.Microsecond)
		}
		time.Sleep(5 * time.Millisecond)
		pn, to := bounded("EnforceHaltLockExpiration", 30*time.Second, func() { w.n[n].Store.EnforceHaltLockExpiration(context.Background()) })
		if e.callTrouble("EnforceHaltLockExpiration", pn, to) {
			return
		}
		if id := e.held[n]; id != 0 {
			e.held[n] = 0
			e.former[id] = "expired"
			e.lastEnd[n] = "expired"
			e.closeWindow(n, e.stepPre)
		}
		obs = "ok"

	case "Rogue":
		p := e.prim
		lockID := int64(999)
		if st.G.Kind == "former" {
			lockID = e.realID[st.G.Lid]
			if lockID == 0 {
				lockID = 998
			}
		}
		sender := w.ids["T"]
		if p == "T" {
			sender = w.ids["P"]
		}
		if e.cfg.WAL && e.held[p] == 0 && w.walSize(p) > 0 && e.lw == nil {
			// ApplyLTXNoLock assumes an empty log (what a granted halt lock guarantees); give it one
			_ = core.Try(func() { _ = w.n[p].Store.DB(w.db).Checkpoint(context.Background()) })
		}
		body, npos, err := w.craftLTX(p, 0xdead)
		if err != nil {
			e.res.Infra = "craft ltx: " + err.Error()
			e.dead = true
			return
		}
		before := w.pos(p)
		var status int
		pn, to := bounded("POST /tx", 60*time.Second, func() { status, _ = w.postTx(p, sender, lockID, body) })
		if e.callTrouble("POST /tx", pn, to) {
			return
		}
		e.res.Evals++
		if status == 200 {
			obs = "ok"
			e.cmap[mpos{st.O.T, st.O.C}] = npos
		} else {
			obs = "refused"
			if got := w.pos(p); got != before {
				e.fail("C13.tx-only-from-current-holder", "refused-tx-changed-position", false, map[string]any{"status": status, "before": before.String(), "after": got.String()})
			}
		}
		if ex := w.n[p].Exits(); len(ex) > 0 {
			e.fail("C13.no-exit", "exit/primary/rogue-tx", false, map[string]any{"codes": ex})
			e.dead = true
		}

	case "Dup":
		var m *dupMsg
		for k := range e.dups {
			if e.dups[k].k == st.G.K {
				m = &e.dups[k]
				e.dups = append(e.dups[:k:k], e.dups[k+1:]...)
				break
			}
		}
		if m == nil {
			obs = "other: no such duplicate"
			break
		}
		before := w.pos(m.to)
		var status int
		pn, to := bounded("duplicate "+m.k, 60*time.Second, func() {
			switch m.k {
			case "halt":
				_, status, _ = w.postHalt(m.to, w.ids["R"], m.id)
			case "unhalt":
				status, _ = w.deleteHalt(m.to, w.ids["R"], m.id)
			case "tx":
				status, _ = w.postTxAs("R", m.to, w.ids["R"], m.id, m.body)
			}
		})
		if e.callTrouble("duplicate request", pn, to) {
			return
		}
		switch {
		case m.k == "halt" && status == 200:
			obs = "ok"
		case m.k == "halt":
			obs = "busy"
		case m.k == "unhalt":
			obs = "ok"
		case status == 200:
			obs = "ok"
			if model {
				e.cmap[mpos{st.O.T, st.O.C}] = w.pos(m.to)
			}
		default:
			obs = "refused"
			e.res.Evals++
			if got := w.pos(m.to); got != before {
				e.fail("C13.tx-only-from-current-holder", "refused-tx-changed-position", false, map[string]any{"status": status, "before": before.String(), "after": got.String()})
			}
		}

	case "Block":
		n := st.G.N
		w.n[n].Client.Block()
		w.taps[n].partition(true) // the node is cut off: neither its stream nor its requests reach the primary
		e.blocked[n] = true
		deadline := time.Now().Add(10 * time.Second)
		for time.Now().Before(deadline) {
			if _, info := w.n[n].Store.PrimaryInfo(); info == nil {
				break
			}
			time.Sleep(time.Millisecond)
		}
		obs = "ok"

	case "Unblock":
		n := st.G.N
		w.taps[n].partition(false)
		w.n[n].Client.Unblock()
		delete(e.blocked, n)
		deadline := time.Now().Add(15 * time.Second)
		for time.Now().Before(deadline) {
			if _, info := w.n[n].Store.PrimaryInfo(); info != nil {
				break
			}
			time.Sleep(time.Millisecond)
		}
		obs = "ok"

	case "Lag":
		// the holder's replication goroutine will pause once, inside processLTXStreamFrame, before it
		// writes the next incoming file: the holder lags behind the primary while it stays connected
		e.lagEntered = make(chan struct{})
		prev := w.n["R"].OS.Before
		var once sync.Once
		w.n["R"].OS.Before = func(ev sim.OSEvent) error {
			if ev.Label == "PROCESSLTX" && ev.Call == "Create" {
				once.Do(func() {
					close(e.lagEntered)
					time.Sleep(400 * time.Millisecond)
				})
			}
			if prev != nil {
				return prev(ev)
			}
			return nil
		}
		obs = "ok"

	case "LagWait":
		select {
		case <-e.lagEntered:
		case <-time.After(10 * time.Second):
		}
		obs = "ok"

	case "PChange":
		var err error
		pn, to := bounded("primary-change", 60*time.Second, func() { err = w.cl.Elect("T", 30*time.Second) })
		if e.callTrouble("primary change", pn, to) {
			return
		}
		if err != nil {
			e.res.Infra = "primary change: " + err.Error()
			e.dead = true
			return
		}
		deadline := time.Now().Add(15 * time.Second)
		for time.Now().Before(deadline) {
			if _, info := w.n["R"].Store.PrimaryInfo(); info != nil && info.AdvertiseURL == w.n["T"].URL {
				break
			}
			time.Sleep(time.Millisecond)
		}
		e.prim, e.pchanged = "T", true
		obs = "ok"

	default:
		e.res.Infra = "unknown script action " + st.A
		e.dead = true
		return
	}

	if (st.A == "Acquire" || st.A == "AcquireRace") && obs == "ok" {
		e.granted = true
	}
	switch {
	case st.A == "RTx", st.A == "Expire", st.A == "AcquireRace", st.A == "Rogue", st.A == "PChange", st.A == "Dup", st.A == "Block",
		st.G.F != "" && st.G.F != "none", obs == "busy", obs == "hang", obs == "wait":
		e.interesting = true
	}
	e.res.Nontrivial = e.granted && e.interesting
	if model {
		want := st.O.Res
		if st.A == "Release" && want == "noop" {
			want = "ok"
		}
		if obs != want {
			e.nonconf("observed %q, model predicts %q", obs, st.O.Res)
			e.dead = true
		}
	}
}

func (e *engine) callTrouble(what string, pn *core.Panic, timedOut bool) bool {
	e.res.Evals++
	if pn != nil {
		e.fail("C13.no-panic", "panic/"+e.sc.H[e.i].A, false, map[string]any{"call": what, "panic": pn.Value, "stack": pn.Stack})
		e.dead = true
		return true
	}
	if timedOut {
		e.fail("C13.no-hang", "hang/"+e.sc.H[e.i].A, true, map[string]any{"call": what})
		e.dead = true
		return true
	}
	return false
}

// checkpoint attempts a checkpoint on the primary: SQLite's own in WAL mode (CKPT lock, copy, truncate),
// LiteFS's DB.Checkpoint otherwise. nil = a checkpoint ran.
func (e *engine) checkpoint(p string) error {
	w := e.w
	walNow := len(w.ref) > 0 && w.ref[0].Wal
	if walNow && e.lw == nil {
		pg := w.pager(p)
		if !pg.C.SHMOpen() {
			if err := pg.C.OpenDB(false); err != nil {
				return err
			}
			if err := pg.C.OpenSHM(); err != nil {
				return err
			}
			if err := pg.C.OpenWAL(); err != nil {
				return err
			}
			_ = pg.C.LockSHM(fuse.LockRead, 128, 128)
		}
		if w.walSize(p) == 0 {
			pg.ForgetWAL()
		}
		return pg.Ckpt("TRUNCATE")
	}
	if walNow {
		// another connection wants to checkpoint while the writer is open
		c := w.n[p].Connect(w.db, w.nextOwner())
		defer c.Close()
		if err := c.OpenDB(false); err != nil {
			return err
		}
		if err := c.OpenSHM(); err != nil {
			return err
		}
		if err := c.LockSHM(fuse.LockWrite, 121, 121); err != nil {
			return err
		}
		_ = c.LockSHM(fuse.LockUnlock, 121, 121)
		return nil
	}
	ctx, cancel := context.WithTimeout(context.Background(), 300*time.Millisecond)
	defer cancel()
	return w.n[p].Store.DB(w.db).Checkpoint(ctx)
}

// ---------------------------------------------------------------- end of script

func (e *engine) finish() {
	w := e.w
	if !e.sc.NoModel && !e.dead && !e.rDead {
		e.conform(e.sc.End)
	}
	e.scanHTTP()
	end := w.rec.mark()
	for _, win := range e.wins {
		if win.end == 0 {
			win.end = end
			e.checkWindow(win)
		}
	}
	openWriterAtEnd := e.lw != nil
	if e.lw != nil {
		// a writer left open by the script: give it up only after every check that looks at positions
		defer func(tx *openTx) { _, _ = bounded("abort-open-writer", 30*time.Second, func() { w.abortTx(tx) }) }(e.lw)
		e.lw = nil
	}
	// M5 (second half): every acknowledged holder commit reaches the third replica
	if len(e.commits) > 0 && !e.pchanged && !e.blocked["T"] && !e.dead {
		e.res.Evals++
		want := w.pos("P")
		deadline := time.Now().Add(30 * time.Second)
		for w.pos("T") != want && time.Now().Before(deadline) {
			time.Sleep(time.Millisecond)
		}
		if got := w.pos("T"); got != want {
			e.fail("C13.reaches-every-other-replica", "third-replica-did-not-reach-primary", true, map[string]any{"third": got.String(), "primary": want.String(), "bound": "30s"})
		} else {
			for _, c := range e.commits {
				seen := false
				for _, ev := range w.rec.snapshot() {
					if ev.Node == "T" && ev.Kind == "pos" && (ev.TXID == uint64(c.TXID) && ev.Chk == uint64(c.PostApplyChecksum) || ev.TXID > uint64(c.TXID)) {
						seen = true
						break
					}
				}
				if !seen {
					e.fail("C13.reaches-every-other-replica", "holder-commit-missing-on-third-replica", false, map[string]any{"commit": c.String()})
				}
			}
		}
	}
	// C09 on forwarded commits: on every node the log is one verified chain that ends at the position
	// (a node's files and position are read under the node's write activity having stopped: the script is over)
	if !e.dead {
		for _, n := range roles {
			if len(w.n[n].Exits()) > 0 {
				continue
			}
			e.res.Evals++
			var probs []string
			for try := 0; try < 50; try++ { // a frame may still be on its way: position and files are read together until they agree
				p := w.pos(n)
				probs = sim.ChainProblems(w.n[n].DBDir(w.db), uint64(p.TXID), uint64(p.PostApplyChecksum))
				if len(probs) == 0 || w.pos(n) == p && try > 5 {
					break
				}
				time.Sleep(10 * time.Millisecond)
			}
			if len(probs) > 0 {
				e.fail("C13.log-is-one-chain", "chain-problem/"+n, true, map[string]any{"node": n, "problems": probs})
			}
		}
	}
	// C01 on the holder: once it is back at the primary's position, what a SQLite connection reads on it
	// (database file + the frames its wal-index declares valid) is the primary's image. The wal-index is
	// authoritative when LiteFS wrote it last, i.e. when the holder's last position change was an apply.
	// (not while the script left a local writer open on the primary: its uncommitted pages are in the file)
	if !e.dead && !openWriterAtEnd && !e.blocked["R"] && !e.pchanged && len(w.n["R"].Exits()) == 0 && len(w.n[e.prim].Exits()) == 0 {
		deadline := time.Now().Add(10 * time.Second)
		for w.pos("R") != w.pos(e.prim) && time.Now().Before(deadline) {
			time.Sleep(2 * time.Millisecond)
		}
		if rp := w.pos("R"); rp == w.pos(e.prim) && rp.TXID > 0 {
			var lastR event
			for _, ev := range w.rec.snapshot() {
				if ev.Node == "R" && ev.Kind == "pos" {
					lastR = ev
				}
			}
			applied := lastR.Seq > e.lastHolderCommitSeq // the holder's own commits are recorded by RTx
			if applied {
				e.res.Evals++
				view, ok, verr := sim.SQLiteView(w.n["R"].DBDir(w.db), w.o.Layout.PageSize)
				pim, perr := sim.StableDiskImage(w.n[e.prim].DBDir(w.db), w.o.Layout.PageSize)
				if ok && verr == nil && perr == nil {
					if same, why := view.Equal(pim, w.o.Layout.LockPgno()); !same {
						e.fail("C13.holder-identical-to-primary-afterwards", "holder-view-differs-from-primary", false, map[string]any{
							"position": rp.String(), "why": why, "holder_wal_bytes": w.walSize("R")})
					}
				}
			}
		}
	}
	// leads outside C13 (recorded, never a verdict)
	if !e.blocked["R"] && !e.dead {
		lt := w.lockTable("R")
		rl := w.n["R"].Store.DB(w.db).RemoteHaltLock()
		behind := w.pos("R") != w.pos(e.prim)
		pinned := lt["pending"] == "exclusive" || lt["write"] == "exclusive"
		switch {
		case behind && pinned && rl != nil:
			e.res.Leads["holder-replication-stuck-clearing-stale-remote-lock"]++
		case behind && !e.sc.NoModel && e.sc.End.PR != e.sc.End.PP && !e.sc.End.WD && e.sc.End.CR:
			e.res.Leads["holder-never-catches-up-after-lost-commit-response"]++
		}
	}
	for _, n := range roles {
		if ex := w.n[n].Exits(); len(ex) > 0 && !(n == "R" && e.rDead) {
			e.res.Leads["store-exit-"+n]++
		}
	}
	// a holder whose writer died is an ordinary replica with a journal to roll back once its lock has ended:
	// the primary's next transaction must not make it stop itself
	for _, st := range e.sc.H {
		if st.A == "RDie" && !e.rDead && !e.dead {
			e.res.Evals++
			if ex := w.n["R"].Exits(); len(ex) > 0 {
				e.fail("C13.no-exit", "exit/holder-after-its-writer-died", false, map[string]any{"codes": ex, "holder_position": w.pos("R").String(), "primary_position": w.pos(e.prim).String()})
			}
			break
		}
	}
}

// ---------------------------------------------------------------- directed scenarios

func mk(a string, g gArgs) step { return step{A: a, G: g} }

// directed returns hand-written scripts that are longer than the bounded script configurations allow
// (no model predictions: only the monitors decide).
func directed() []script {
	none := gArgs{F: "none"}
	return []script{
		{NoModel: true, Src: "directed/lifecycle", H: []step{
			mk("Acquire", none), mk("RTx", none), mk("LWBegin", gArgs{}), mk("Ckpt", gArgs{}), mk("RTx", none), mk("Release", none),
			mk("LWBegin", gArgs{}), mk("LWCommit", gArgs{}), mk("Acquire", none), mk("RTx", none), mk("Release", none),
			mk("RTx", none), mk("LWBegin", gArgs{}), mk("LWCommit", gArgs{}), mk("Ckpt", gArgs{})}},
		{NoModel: true, Src: "directed/retry-after-lost-grant", H: []step{
			mk("Acquire", gArgs{F: "resplost"}), mk("LWBegin", gArgs{}), mk("Acquire", none), mk("RTx", none), mk("RTx", none),
			mk("Release", gArgs{F: "resplost"}), mk("LWBegin", gArgs{}), mk("LWCommit", gArgs{}), mk("Rogue", gArgs{Kind: "bogus"})}},
		{NoModel: true, Src: "directed/expiry-while-held", H: []step{
			mk("Acquire", none), mk("RTx", none), mk("Expire", gArgs{N: "P"}), mk("LWBegin", gArgs{}), mk("LWCommit", gArgs{}),
			mk("RTx", none), mk("Release", none)}},
		{NoModel: true, Src: "directed/lost-commit-request", H: []step{
			mk("Acquire", none), mk("RTx", gArgs{F: "reqlost"}), mk("RTx", none), mk("Release", none), mk("LWBegin", gArgs{}), mk("LWCommit", gArgs{})}},
		{NoModel: true, Src: "directed/interrupted-release", H: []step{
			mk("Acquire", none), mk("RTx", none), mk("Release", gArgs{F: "none", Intr: true}), mk("LWBegin", gArgs{}), mk("LWCommit", gArgs{}),
			mk("Acquire", none), mk("RTx", none), mk("RTx", none), mk("Release", gArgs{F: "none", Intr: true}), mk("LWBegin", gArgs{}), mk("LWCommit", gArgs{})}},
		// a release of a former lock (the duplicate of the first release) arrives while the same replica
		// holds the lock again through another handle, i.e. under another id: it must not end that lock
		{NoModel: true, Src: "directed/late-release-of-former-lock", H: []step{
			mk("Acquire", none), mk("RTx", none), mk("Release", gArgs{F: "none", D: true}), mk("Open", gArgs{ID: 2}), mk("Acquire", none), mk("RTx", none),
			mk("Dup", gArgs{K: "unhalt"}), mk("LWBegin", gArgs{}), mk("RTx", none), mk("Release", none), mk("LWBegin", gArgs{}), mk("LWCommit", gArgs{})}},
		{NoModel: true, Src: "directed/late-release-after-expiry", H: []step{
			mk("Acquire", gArgs{F: "none", D: true}), mk("RTx", none), mk("Release", gArgs{F: "none", D: true}), mk("Open", gArgs{ID: 2}), mk("Acquire", none),
			mk("Dup", gArgs{K: "unhalt"}), mk("RTx", none), mk("LWBegin", gArgs{}), mk("Dup", gArgs{K: "halt"}), mk("RTx", none), mk("Release", none), mk("LWBegin", gArgs{}), mk("LWCommit", gArgs{})}},
		// the holder's writer dies with a hot journal, the lock expires on the primary, the primary commits:
		// the transaction arriving on the (former) holder and the rollback of the dead transaction must leave
		// the holder with the primary's image under the primary's position
		{NoModel: true, Src: "directed/holder-writer-dies-then-expiry", H: []step{
			mk("Acquire", none), mk("RTx", none), mk("RDie", gArgs{}), mk("Expire", gArgs{N: "P"}), mk("LWBegin", gArgs{}), mk("LWCommit", gArgs{})}},
		{NoModel: true, Src: "directed/holder-writer-dies-first-then-expiry", H: []step{
			mk("Acquire", none), mk("RDie", gArgs{Kind: "other-pages"}), mk("Expire", gArgs{N: "P"}), mk("LWBegin", gArgs{}), mk("LWCommit", gArgs{}), mk("LWBegin", gArgs{}), mk("LWCommit", gArgs{})}},
		// the acquire request is repeated with the same id while the first one still waits for a local writer
		{NoModel: true, Src: "directed/acquire-repeated-while-waiting", H: []step{
			mk("LWBegin", gArgs{}), mk("AcquireRace", gArgs{F: "none", D: true}), mk("RTx", none), mk("Release", none), mk("LWBegin", gArgs{}), mk("LWCommit", gArgs{}),
			mk("Acquire", none), mk("RTx", none), mk("Release", none), mk("LWBegin", gArgs{}), mk("LWCommit", gArgs{})}},
		// the lock is given back by another connection of the holder while a commit is being built
		{NoModel: true, Src: "directed/release-during-commit", H: []step{
			mk("Acquire", none), mk("RTx", none), mk("RTx", gArgs{F: "none", Kind: "release-race"}), mk("LWBegin", gArgs{}), mk("LWCommit", gArgs{})}},
		// the holder is cut off from its primary (stream gone, no primary known) and its application commits:
		// the commit cannot reach the primary, so it must not return success
		{NoModel: true, Src: "directed/holder-loses-its-primary", H: []step{
			mk("Acquire", none), mk("RTx", none), mk("Block", gArgs{N: "R"}), mk("RTx", none), mk("Unblock", gArgs{N: "R"}),
			mk("Expire", gArgs{N: "P"}), mk("LWBegin", gArgs{}), mk("LWCommit", gArgs{})}},
		// the holder's writer dies with a hot journal before anything was committed under the lock (the position is
		// still the lock's), the lock is given back: the release must roll the journal back
		{NoModel: true, Src: "directed/holder-writer-dies-then-release", H: []step{
			mk("Acquire", none), mk("RDie", gArgs{}), mk("Release", none), mk("LWBegin", gArgs{}), mk("LWCommit", gArgs{}), mk("LWBegin", gArgs{}), mk("LWCommit", gArgs{})}},
		{NoModel: true, Src: "directed/holder-writer-dies-on-other-pages-then-release", H: []step{
			mk("Acquire", none), mk("RDie", gArgs{Kind: "other-pages"}), mk("Release", none), mk("LWBegin", gArgs{}), mk("LWCommit", gArgs{})}},
		{NoModel: true, Src: "directed/holder-commits-then-its-writer-dies-then-release", H: []step{
			mk("Acquire", none), mk("RTx", none), mk("RDie", gArgs{Kind: "other-pages"}), mk("Release", none), mk("LWBegin", gArgs{}), mk("LWCommit", gArgs{})}},
		// the acquire request is given up by the requester inside the primary's grant and repeated with the same id
		{NoModel: true, Src: "directed/acquire-abandoned-then-repeated", H: []step{
			mk("Acquire", gArgs{F: "none", Intr: true}), mk("LWBegin", gArgs{}), mk("RTx", none), mk("LWBegin", gArgs{}), mk("Release", none), mk("LWBegin", gArgs{}), mk("LWCommit", gArgs{})}},
		// a second replica asks for the lock with the same lock-owner value while the first one holds it
		{NoModel: true, Src: "directed/second-node-same-lock-owner", H: []step{
			mk("Acquire", none), mk("RTx", none), mk("TAcquire", gArgs{}), mk("RTx", none), mk("Release", none), mk("LWBegin", gArgs{}), mk("LWCommit", gArgs{})}},
		{NoModel: true, Src: "directed/second-node-same-lock-owner-at-the-lock-position", H: []step{
			mk("Acquire", none), mk("TAcquire", gArgs{}), mk("RTx", none), mk("Release", none), mk("LWBegin", gArgs{}), mk("LWCommit", gArgs{})}},
		// the primary's application unlinks the database while the replica holds the halt lock
		{NoModel: true, Src: "directed/local-drop-during-halt", H: []step{
			mk("Acquire", none), mk("RTx", none), mk("LDrop", gArgs{})}},
		{NoModel: true, Src: "directed/lagging-holder", H: []step{
			mk("Lag", gArgs{}), mk("LWBegin", gArgs{}), mk("LWCommit", gArgs{}), mk("LagWait", gArgs{}), mk("Acquire", none), mk("RTx", none), mk("Release", none)}},
	}
}

var _ = json.Marshal

func firstNonNil(errs ...error) error {
	for _, e := range errs {
		if e != nil {
			return e
		}
	}
	return nil
}
