// Check C15: dropping a database is a replicated transaction; recreation continues the log.
package main

import (
	"time"

	"github.com/superfly/litefs/verifharness/core"
	"github.com/superfly/litefs/verifharness/faults"
	"github.com/superfly/litefs/verifharness/repl"
)

func main() {
	args := core.ParseArgs()
	rep := core.NewReport("C15", "model_checking", args)
	rep.Rule = "control scripts of Replication.tla that contain a Drop (create / write / drop / recreate with replicas connected, blocked, restarted or joining afterwards) executed on a real 3-node cluster, the drop issued through the FUSE unlink handler; a case = (script, concretisation); non-trivial = at least one position change was observed on a non-primary node"
	rep.Assumptions = []string{"3 nodes, one database", "crash points inside the drop on the primary are enumerated by C05's machinery for local commits only; a crash inside Drop itself is not enumerated yet"}
	defer core.Cleanup()
	repl.Main(rep, args, map[string]bool{"C15": true}, []repl.Stage{
		{Name: "repl-drop-3n-3tx-1fault", Cfg: "MC_Repl_drop.cfg", Timeout: 10 * time.Minute, MaxKeep: core.Pick(args, 70, 500), Need: "Drop"},
	})
	// failure paths (spec/Faults.tla): every call of the operation through the OS interface fails once
	faults.Run(rep, args, faults.Select{Ops: []string{"drop"}, Monitors: []string{"effect"}})
	rep.Finish()
}
