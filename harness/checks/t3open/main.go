// t3open: development aid - opens a data directory with a fresh store and prints what it finds.
package main

import (
	"fmt"
	"os"

	"github.com/superfly/litefs"
	"github.com/superfly/litefs/verifharness/sim"
)

func main() {
	dir := os.Args[1]
	s := litefs.NewStore(dir, true)
	s.Leaser = litefs.NewStaticLeaser(true, "x", "http://localhost:1")
	err := s.Open()
	fmt.Println("open error:", err)
	if err == nil {
		for _, db := range s.DBs() {
			ps := uint32(4096)
			if len(os.Args) > 2 {
				fmt.Sscan(os.Args[2], &ps)
			}
			im, _ := sim.DiskImage(db.Path(), ps)
			fmt.Printf("db %s pos=%s pages=%d from-scratch=%016x\n", db.Name(), db.Pos(), db.PageN(), im.Checksum(uint32(0x40000000/int64(ps))+1))
		}
		_ = s.Close()
	}
}
