// Check C05: any crash point recovers to exactly the position of the newest LTX file.
package main

import (
	"os"
	"runtime"
	"sync"
	"time"

	"github.com/superfly/litefs/verifharness/core"
	"github.com/superfly/litefs/verifharness/dbreplay"
	"github.com/superfly/litefs/verifharness/faults"
)

func main() {
	args := core.ParseArgs()
	rep := core.NewReport("C05", "fault_enumeration", args)
	rep.Rule = "behaviours of DBFile.tla that contain a Crash step (TLC model-checks restart recovery for a crash between any two pager operations, inside CommitJournal between LTX rename and journal invalidation, and inside client / LiteFS checkpoints); on the real code the interrupted operation is executed once while the data directory is copied at EVERY step boundary (each labelled litefs.OS call, each page write / truncate via hook H1, each pager operation boundary), and a fresh store is opened on every distinct copy; a case = one (behaviour, concretisation, crash point); non-trivial = behaviours with more than one distinct survivor"
	rep.Assumptions = []string{"crash model = process death: completed writes survive, torn or reordered writes after power loss are not modelled", "SQLite's pager is represented by the environment part of DBFile.tla"}
	defer core.Cleanup()
	core.Watchdog(180*time.Second, func(label string, since time.Duration) {
		if len(label) > 5 && label[:5] == "real:" {
			rep.Violate("C05.no-hang", "hang/"+label, map[string]any{"no_progress_for": since.String()}, nil)
			rep.Finish()
		}
		core.Infra("no progress for %s while %s", since, label)
	})
	if args.Replay != "" {
		if !acReplayFile(rep, args.Replay) {
			dbreplay.ReplayCrashFile(rep, "C05", args.Replay)
		}
		rep.Finish()
	}
	stages := []dbreplay.Stage{
		{Name: "crash-rb-3pg-3ops", Cfg: "MC_DBFile_crash_rb.cfg", Timeout: 10 * time.Minute, MaxKeep: core.Pick(args, 250, 2500), LastIs: "Crash"},
		{Name: "crash-wal-2pg-4ops", Cfg: "MC_DBFile_crash_wal.cfg", Timeout: 15 * time.Minute, MaxKeep: core.Pick(args, 350, 3500), LastIs: "Crash"},
		// every behaviour in which the interrupted WAL commit is not the first transaction of the log (the
		// restart has to cut the log back to the end of the newest captured transaction: WALOffset+WALSize)
		{Name: "crash-in-a-later-wal-commit", Cfg: "MC_DBFile_crash_wal.cfg", Timeout: 15 * time.Minute, MaxKeep: core.Pick(args, 120, 0), LastIs: "Crash", Needs: []string{"WEnd*2"}},
		// ... and the one in which it is the third: the newest captured transaction then starts behind the log's
		// first one (edge-complete emission: crash states coincide, so one behaviour per distinct state is too few)
		{Name: "crash-in-the-third-wal-commit", Cfg: "MC_DBFile_crash_wal3.cfg", Timeout: 15 * time.Minute, MaxKeep: core.Pick(args, 150, 0), LastIs: "Crash", Needs: []string{"WEnd*2", "BeginW*3"},
			Has: []string{`"at":"w_frames"`}, Not: []string{`"a":"Ckpt"`, `"a":"LCkpt"`, `"out":"rollback"`}},
	}
	if os.Getenv("C05_STAGES") == "applycrash" { // development aid: only the stage of ApplyCrash.tla
		stages = nil
	}
	cfgs := dbreplay.StdConfigs(!args.Quick())
	survivors := 0
	for _, st := range stages {
		core.Beat("tlc")
		stop := make(chan struct{})
		go func() {
			for {
				select {
				case <-stop:
					return
				case <-time.After(5 * time.Second):
					core.Beat("tlc")
				}
			}
		}()
		traces := dbreplay.Collect(rep, st, args.Seed)
		close(stop)
		var only []dbreplay.Trace
		for _, t := range traces {
			if n := len(t.H); n > 0 && t.H[n-1].A == "Crash" {
				only = append(only, t)
			}
		}
		type job struct {
			i  int
			tr dbreplay.Trace
		}
		jobs := make(chan job)
		var wg sync.WaitGroup
		var mu sync.Mutex
		for w := 0; w < runtime.NumCPU(); w++ {
			wg.Add(1)
			go func() {
				defer wg.Done()
				for j := range jobs {
					cfg := cfgs[(j.i+int(args.Seed))%len(cfgs)]
					dir := core.Scratch("crash")
					r := dbreplay.RunCrash(j.tr, cfg, dir, true)
					_ = os.RemoveAll(dir)
					mu.Lock()
					dbreplay.Record(rep, "C05", j.tr, cfg, r)
					survivors += r.Commits
					mu.Unlock()
				}
			}()
		}
		for i, tr := range only {
			jobs <- job{i, tr}
		}
		close(jobs)
		wg.Wait()
		if len(only) > 0 {
			rep.Sample(map[string]any{"behaviour": dbreplay.Compact(only[len(only)/2])})
		}
	}
	rep.Extra["survivor_directories_reopened"] = survivors
	// crash points inside LiteFS-internal operations (spec/ApplyCrash.tla): replica apply of a streamed
	// file / snapshot / drop, LiteFS's own checkpoint and recovery, DB.Drop, a crash during DB.Open itself
	runApplyCrash(rep, args)
	// failure paths (spec/Faults.tla): every call of the operation through the OS interface fails once
	faults.Run(rep, args, faults.Select{Ops: []string{"rb_commit", "wal_commit", "import", "drop", "replica_apply", "replica_snapshot", "open", "role_change"}, Monitors: []string{"restart", "effect", "replica-restart"}, Kinds: faults.LocalKinds})
	rep.Finish()
}
