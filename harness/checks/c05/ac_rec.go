package main

import (
	"crypto/sha256"
	"encoding/hex"
	"fmt"
	"os"
	"path/filepath"
	"strings"
	"sync"
	"time"

	"github.com/superfly/litefs"
	"github.com/superfly/litefs/verifharness/core"
	"github.com/superfly/litefs/verifharness/sim"
	"github.com/superfly/ltx"
)

// ---- hook H1 dispatch (one global callback in litefs; recorders are found by store) ----

var (
	acH1Once sync.Once
	acH1     sync.Map // *litefs.Store -> *acRec
)

func acInstallH1() {
	acH1Once.Do(func() {
		prev := litefs.VerifStepHook
		litefs.VerifStepHook = func(db *litefs.DB, kind string, arg uint32, internal bool) {
			if r, ok := acH1.Load(db.Store()); ok {
				r.(*acRec).h1(kind, arg, internal)
				return
			}
			if prev != nil {
				prev(db, kind, arg, internal)
			}
		}
	})
}

// acSurv is a copy of the victim's data directory taken at a step boundary.
type acSurv struct {
	dir      string
	at       string   // the real event before which the copy was taken
	next     string   // model label of that event ("" if the event has no model step)
	before   []string // model labels of the steps completed before the copy
	returned bool     // taken after the operation had returned / the position had been reported
	digest   string
}

// acRec copies the victim's data directory at every labelled litefs.OS call and every H1 step and
// translates the real events into the step labels of ApplyCrash.tla.
type acRec struct {
	mu       sync.Mutex
	dir      string // victim data directory
	base     string // survivors are created here
	prefix   string
	L        sim.Layout
	on       bool
	section  string // which sub-machine issues page writes / truncates: a(pply) j(ournal rollback) c(heckpoint) p(ager)
	labels   []string
	survs    []*acSurv
	seen     map[string]bool
	n        int
	returned bool
	events   int
	hooked   int
	armOn    map[string]bool // recording starts with the first event that has one of these labels
	openOnly bool            // recording ends when DB.Open is over (a later Recover of the running node is another operation)
	sawInit  bool
}

// arm makes the recorder start by itself at the first event carrying one of the labels.
func (r *acRec) arm(section string, labels ...string) {
	r.mu.Lock()
	r.armOn, r.section = map[string]bool{}, section
	for _, l := range labels {
		r.armOn[l] = true
	}
	r.mu.Unlock()
}

func newRec(dir, base, prefix string, L sim.Layout) *acRec {
	return &acRec{dir: dir, base: base, prefix: prefix, L: L, seen: map[string]bool{}}
}

func (r *acRec) start(section string) {
	r.mu.Lock()
	r.on, r.section = true, section
	r.mu.Unlock()
}

func (r *acRec) stop() {
	r.mu.Lock()
	r.on = false
	r.mu.Unlock()
}

func acDigest(dir string) string {
	h := sha256.New()
	_ = filepath.Walk(dir, func(p string, fi os.FileInfo, err error) error {
		if err != nil || fi.IsDir() {
			return nil
		}
		rel, _ := filepath.Rel(dir, p)
		if strings.HasPrefix(rel, "mnt-not-mounted") {
			return nil
		}
		b, _ := os.ReadFile(p)
		fmt.Fprintf(h, "%s:%d:", rel, len(b))
		h.Write(b)
		return nil
	})
	return hex.EncodeToString(h.Sum(nil)[:12])
}

// take copies the directory (callers hold r.mu). A directory identical to an earlier copy with the
// same "returned" flag is not kept twice, but its step position is still remembered for conformance.
func (r *acRec) takeLocked(at, next string) {
	r.events++
	dg := acDigest(r.dir)
	sv := &acSurv{at: at, next: next, before: append([]string(nil), r.labels...), returned: r.returned, digest: dg}
	k := fmt.Sprintf("%s/%v", dg, r.returned)
	if !r.seen[k] {
		r.n++
		dir := filepath.Join(r.base, fmt.Sprintf("%s%03d", r.prefix, r.n))
		// the copy must be the directory that was hashed: nothing else writes while the hook runs, and
		// the harness's own boundaries are taken on a quiescent node; a mismatch is retried, never judged
		for try := 0; ; try++ {
			if err := sim.CopyDir(r.dir, dir); err != nil {
				core.Infra("copy survivor: %v", err)
			}
			if d2 := acDigest(dir); d2 == dg {
				break
			}
			if try >= 20 {
				core.Infra("victim directory keeps changing while it is copied (%s): another writer is active", at)
			}
			_ = os.RemoveAll(dir)
			time.Sleep(5 * time.Millisecond)
			dg = acDigest(r.dir)
		}
		sv.digest = dg
		k = fmt.Sprintf("%s/%v", dg, r.returned)
		if r.seen[k] {
			_ = os.RemoveAll(dir)
		} else {
			r.seen[k] = true
			sv.dir = dir
		}
	}
	r.survs = append(r.survs, sv)
}

// Take is used by the harness at boundaries that the code under test does not expose itself
// (between two requests of the simulated SQLite connection).
func (r *acRec) Take(at string) {
	r.mu.Lock()
	defer r.mu.Unlock()
	if r.on {
		r.takeLocked(at, "")
	}
}

// Mark appends a model label for a step that the harness itself performed.
func (r *acRec) Mark(label string) {
	r.mu.Lock()
	if r.on {
		r.labels = append(r.labels, label)
	}
	r.mu.Unlock()
}

// isOn / SetReturnedLocked are for callbacks that run inside a hooked call of the victim itself
// (DB.setPos happens between two events, never inside the recorder's own critical section).
func (r *acRec) isOn() bool {
	r.mu.Lock()
	defer r.mu.Unlock()
	return r.on
}
func (r *acRec) SetReturnedLocked() { r.SetReturned() }

// eventCount is the number of hooked events seen since the recorder was started ("op-start" excluded).
func (r *acRec) eventCount() int {
	r.mu.Lock()
	defer r.mu.Unlock()
	return r.hooked
}

func (r *acRec) SetReturned() {
	r.mu.Lock()
	r.returned = true
	r.mu.Unlock()
}

func ltxName(path string) string {
	min, max, err := ltx.ParseFilename(filepath.Base(path))
	if err != nil {
		return ""
	}
	return fmt.Sprintf("%d-%d", uint64(min), uint64(max))
}

func (r *acRec) os(ev sim.OSEvent) error {
	r.mu.Lock()
	defer r.mu.Unlock()
	if !r.on && r.armOn == nil {
		return nil
	}
	label := ""
	switch ev.Call + " " + ev.Label {
	case "MkdirAll CREATDEDBIFNOTEXISTS":
		label = "n_mkdir"
	case "WriteFile CREATDEDBIFNOTEXISTS":
		label = "n_dbfile"
	case "Create PROCESSLTX", "Create WRITELTX":
		label = "s_create"
	case "Rename PROCESSLTX", "Rename WRITELTX":
		label = "s_rename"
	case "Remove REMOVEFILESEXCEPT":
		if n := ltxName(ev.Path); n != "" {
			label = "s_rm:" + n
		}
	case "Open APPLYLTX:LTX":
		label, r.section = "a_open", "a"
	case "OpenFile APPLYLTX:DB":
		label, r.section = "a_opendb", "a"
	case "Remove APPLYLTX:DROP:DB":
		label = "a_rmdb"
	case "Remove APPLYLTX:DROP:JOURNAL":
		label = "a_rmj"
	case "Remove APPLYLTX:DROP:WAL":
		label = "a_rmwal"
	case "Remove APPLYLTX:DROP:SHM":
		label = "a_rmshm"
	case "OpenFile UPDATESHM":
		if r.section == "c" {
			label = "c_shm"
		} else {
			label = "a_shm"
		}
	case "OpenFile ROLLBACKJOURNAL":
		label, r.section = "j_open", "j"
	case "OpenFile ROLLBACKJOURNALDB":
		label, r.section = "j_opendb", "j"
	case "Remove ROLLBACKJOURNAL":
		label = "j_rm"
	case "OpenFile CHECKPOINT:DB":
		label, r.section = "c_open", "c"
	case "Open CHECKPOINT:WAL":
		label, r.section = "c_openwal", "c"
	case "Truncate TRUNCATEWAL":
		label = "c_wal"
	case "Create DROP:LTX":
		label = "d_create"
	case "Rename DROP:LTX":
		label = "d_rename"
	case "Remove DROP:DB":
		label = "d_rmdb"
	case "Remove DROP:JOURNAL":
		label = "d_rmj"
	case "Remove DROP:WAL":
		label = "d_rmwal"
	case "Remove DROP:SHM":
		label = "d_rmshm"
	case "Rename COMMITJOURNAL:LTX":
		label = "p_ltx"
	case "Remove INVALIDATEJOURNAL:DELETE", "Truncate INVALIDATEJOURNAL:TRUNCATE", "OpenFile INVALIDATEJOURNAL:PERSIST":
		label = "p_jrm"
	case "Rename COMMITWAL:LTX":
		label = "w_ltx"
	case "Open INITDBHDR":
		label = "o_hdr"
	case "Remove OPEN:SHM":
		label = "o_rmshm"
	case "ReadDir MAXLTX":
		label = "o_max"
	case "Open SYNCWAL:LTX":
		label = "o_sync"
	case "OpenFile SYNCWAL:WAL":
		label = "o_syncwal"
	case "Rename SYNCWAL":
		label = "o_walmv"
	case "Open INITDBFILE":
		label = "o_init"
	}
	if !r.on {
		if !r.armOn[label] {
			return nil
		}
		r.on, r.armOn = true, nil
	}
	if r.openOnly {
		if label == "o_init" {
			r.sawInit = true
		} else if r.sawInit && (label == "j_open" || label == "c_open" || label == "s_create" || label == "n_mkdir") {
			r.on = false
			return nil
		}
	}
	r.hooked++
	r.takeLocked("os:"+ev.Call+":"+ev.Label, label)
	if label != "" {
		r.labels = append(r.labels, label)
	}
	return nil
}

func (r *acRec) h1(kind string, arg uint32, internal bool) {
	r.mu.Lock()
	defer r.mu.Unlock()
	if !r.on {
		return
	}
	label := ""
	switch kind {
	case "page":
		if q := r.L.Model(arg); q != 0 {
			label = fmt.Sprintf("%s_page:%d", r.section, q)
		}
	case "truncate":
		label = r.section + "_trunc"
	}
	r.takeLocked(fmt.Sprintf("h1:%s:%d:%v", kind, arg, internal), label)
	if label != "" {
		r.labels = append(r.labels, label)
	}
}
