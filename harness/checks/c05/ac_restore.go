package main

import (
	"bytes"
	"context"
	"fmt"
	"io"
	"os"
	"path/filepath"

	"github.com/superfly/litefs"
	"github.com/superfly/litefs/verifharness/core"
	"github.com/superfly/litefs/verifharness/sim"
	"github.com/superfly/ltx"
)

// acBackup is a backup service that holds one snapshot of the database (produced by the real
// DB.WriteSnapshotTo of another node) and refuses every upload as not contiguous, so that
// Store.SyncBackup takes the restore path (Store.restoreDBFromBackup -> DB.WriteLTXFileAt).
type acBackup struct {
	pos  ltx.Pos
	snap []byte
}

func (b *acBackup) URL() string { return "mem://c05" }
func (b *acBackup) PosMap(ctx context.Context) (map[string]ltx.Pos, error) {
	return map[string]ltx.Pos{acDB: b.pos}, nil
}
func (b *acBackup) WriteTx(ctx context.Context, name string, r io.Reader) (ltx.TXID, error) {
	_, _ = io.Copy(io.Discard, r)
	return 0, ltx.NewPosMismatchError(b.pos)
}
func (b *acBackup) FetchSnapshot(ctx context.Context, name string) (io.ReadCloser, error) {
	return io.NopCloser(bytes.NewReader(b.snap)), nil
}

func (x *acExec) configureLocal(st *litefs.Store) {}

// runRestore: the node has its own history (1 or 3 transactions), the backup service holds a
// two-transaction history of another lineage; SyncBackup must replace the local database.
func (x *acExec) runRestore(node *sim.Node, pg *sim.Pager, rec *acRec) error {
	s, L := x.s, x.cfg.Layout
	// the backup's content comes from the real snapshot writer of a node with that history
	bdir := filepath.Join(x.base, "B")
	b, err := sim.OpenNode(sim.NodeOpts{Dir: bdir, Primary: true, Compress: x.cfg.Compress})
	if err != nil {
		x.infra("open backup source node: %v", err)
		return nil
	}
	bc := b.Connect(acDB, 55)
	bpg := sim.NewPager(bc, L, x.cfg.Pager)
	for _, v := range []int{19, 20} {
		if err := commitJ(bpg, sim.Plan{Ns: s.Na, M: seqTo(s.Na), V: v}, nil, nil); err != nil {
			x.infra("backup history: %v", err)
			return nil
		}
	}
	var buf bytes.Buffer
	hdr, trl, err := b.Store.DB(acDB).WriteSnapshotTo(sim.Ctx(), &buf)
	if err != nil {
		x.infra("snapshot for the backup service: %v", err)
		return nil
	}
	x.after = append([]sim.Content(nil), bpg.Ref...)
	x.apos = acPos{uint64(hdr.MaxTXID), uint64(trl.PostApplyChecksum)}
	bc.Close()
	b.Close()
	_ = os.RemoveAll(bdir)

	tr := map[string]int{"behind": 1, "ahead": 3}[s.Rk]
	if err := chain(pg, s.Nb, 10, tr); err != nil {
		x.infra("local history: %v", err)
		return nil
	}
	x.before, x.bpos = append([]sim.Content(nil), pg.Ref...), posOf(node.Store.DB(acDB))
	node.Store.BackupDelay = 0
	node.Store.BackupClient = &acBackup{pos: ltx.NewPos(hdr.MaxTXID, trl.PostApplyChecksum), snap: buf.Bytes()}
	core.Beat("real:restore-from-backup")
	rec.start("j")
	rec.Take("op-start")
	var opErr error
	if pn := core.Try(func() { opErr = node.Store.SyncBackup(sim.Ctx()) }); pn != nil {
		opErr = fmt.Errorf("panic: %v", pn.Value)
	}
	if opErr == nil {
		rec.SetReturned()
	}
	rec.Take("op-done")
	rec.stop()
	if got := posOf(node.Store.DB(acDB)); opErr == nil && got != x.apos {
		opErr = fmt.Errorf("restore ended at %s, the backup is at %s", got, x.apos)
	}
	return opErr
}
