package main

// Binding of spec/ApplyCrash.tla to the real code (crash points inside LiteFS-internal operations:
// replica apply of a streamed file / snapshot / drop, LiteFS's own checkpoint and recovery, DB.Drop on
// the primary, DB.Open's journal rollback and re-apply, restore from backup).
//
// TLC model-checks the specification and prints (a) one SCN line per scenario with the step sequence
// of the uninterrupted operation and (b) one TRACE line per recovered state: the steps up to the last
// crash and the predicted outcome. The harness executes every selected scenario on real stores with a
// recorder that copies the victim's data directory at EVERY labelled litefs.OS call and EVERY H1 step,
// opens a fresh store on every copy ("survivor") and evaluates the monitors of C05 on the real bytes.
// Model predictions are only compared for conformance (rep.Nonconf), never for a verdict.

import (
	"encoding/json"
	"fmt"
	"sort"
	"strings"
	"sync"
	"time"

	"github.com/superfly/litefs/verifharness/core"
)

// acScn is a scenario chosen by the specification's Init.
type acScn struct {
	Op string `json:"op"`
	Nb int    `json:"nb"`
	Na int    `json:"na"`
	M  []int  `json:"M"`
	Rk string `json:"rk"`
	Ns []int  `json:"ns"`
	Cx string `json:"cx"`
	Wk bool   `json:"wk"`
}

func ints(a []int) string {
	s := make([]string, len(a))
	for i, v := range a {
		s[i] = fmt.Sprint(v)
	}
	return strings.Join(s, ".")
}

// ID is a stable name of the scenario.
func (s acScn) ID() string {
	m := append([]int(nil), s.M...)
	sort.Ints(m)
	switch s.Op {
	case "inc":
		return fmt.Sprintf("%s/%d-%d/M%s", s.Op, s.Nb, s.Na, ints(m))
	case "hotj":
		return fmt.Sprintf("%s/%s/%d-%d/M%s", s.Op, s.Rk, s.Nb, s.Na, ints(m))
	case "snap", "restore":
		return fmt.Sprintf("%s/%s/%d-%d", s.Op, s.Rk, s.Nb, s.Na)
	case "rdrop":
		return fmt.Sprintf("rdrop/%d", s.Nb)
	case "ckpt":
		return fmt.Sprintf("ckpt/%s/%s", s.Cx, ints(s.Ns))
	case "hotw":
		return fmt.Sprintf("hotw/%s", ints(s.Ns))
	case "pdrop":
		return fmt.Sprintf("pdrop/%s", ints(s.Ns))
	}
	return s.Op
}

// Class is the part of the scenario that goes into violation signatures (shape, not sizes).
func (s acScn) Class() string {
	switch s.Op {
	case "inc", "hotj":
		sh := "same"
		if s.Na > s.Nb {
			sh = "grow"
		} else if s.Na < s.Nb {
			sh = "shrink"
		}
		if s.Nb == 0 {
			sh = "first"
		}
		return s.Op + "/" + sh
	case "snap", "restore":
		return s.Op + "/" + s.Rk
	case "ckpt":
		return "ckpt/" + s.Cx
	case "pdrop":
		if s.Wk {
			return "pdrop/wal"
		}
		return "pdrop/rb"
	}
	return s.Op
}

type acOut struct {
	O string `json:"o"` // "before" | "after" | "other"
	T int    `json:"t"` // predicted TXID
	N int    `json:"n"` // predicted size in model pages
}

type acModel struct {
	mu    sync.Mutex
	scns  map[string]acScn
	steps map[string][]string // scenario id -> step sequences of the uninterrupted operation (canonical, joined)
	out   map[string]acOut    // scenario id | canonical steps up to the last crash -> prediction
	order []string
}

// silent model labels have no counterpart among the real events
var acSilent = map[string]bool{"a_done": true}

// canon removes silent labels and sorts every run of checkpoint page copies (Go map order).
func canon(h []string) []string {
	var out []string
	for _, l := range h {
		if acSilent[l] {
			continue
		}
		out = append(out, l)
	}
	for i := 0; i < len(out); {
		if !strings.HasPrefix(out[i], "c_page:") {
			i++
			continue
		}
		j := i
		for j < len(out) && strings.HasPrefix(out[j], "c_page:") {
			j++
		}
		sort.Strings(out[i:j])
		i = j
	}
	return out
}

func acKey(id string, h []string) string { return id + "|" + strings.Join(canon(h), ",") }

// acCollect runs TLC on one configuration of ApplyCrash.tla and gathers the emitted lines.
func acCollect(rep *core.Report, name, cfg string, seed int64, timeout time.Duration) *acModel {
	m := &acModel{scns: map[string]acScn{}, steps: map[string][]string{}, out: map[string]acOut{}}
	core.Beat("tlc")
	stop := make(chan struct{})
	go func() {
		for {
			select {
			case <-stop:
				return
			case <-time.After(5 * time.Second):
				core.Beat("tlc")
			}
		}
	}()
	res, err := core.RunTLC(core.TLCOpts{Module: "ApplyCrash", Cfg: cfg, Timeout: timeout, OnLine: func(tag string, payload json.RawMessage) {
		var l struct {
			S acScn    `json:"s"`
			H []string `json:"h"`
			acOut
		}
		if tag != "SCN" && tag != "TRACE" {
			return
		}
		if err := json.Unmarshal(payload, &l); err != nil {
			core.Infra("bad %s line: %v", tag, err)
		}
		id := l.S.ID()
		m.mu.Lock()
		defer m.mu.Unlock()
		if _, ok := m.scns[id]; !ok {
			m.scns[id] = l.S
			m.order = append(m.order, id)
		}
		if tag == "SCN" {
			m.steps[id] = append(m.steps[id], strings.Join(canon(l.H), ","))
			return
		}
		m.out[acKey(id, l.H)] = l.acOut
	}})
	close(stop)
	if err != nil {
		core.Infra("tlc %s: %v", name, err)
	}
	if !res.OK() {
		core.Infra("model checking stage %s failed (a model problem, not a verdict about the code): %s\n%s\n%s", name, res.Describe(), res.ErrorText, res.OutputTail)
	}
	rep.AddTLC(name, res)
	sort.Strings(m.order)
	rep.Note("stage %s: %d scenarios, %d recovered states (crash outcomes) emitted by TLC", name, len(m.scns), len(m.out))
	return m
}

// acRelevance runs a configuration in which one ordering / recovery step of the specification is
// switched off; TLC must find a violation of the property on the model (evidence, not a verdict).
func acRelevance(rep *core.Report, cfgs []string) {
	got := map[string]string{}
	for _, cfg := range cfgs {
		core.Beat("tlc")
		res, err := core.RunTLC(core.TLCOpts{Module: "ApplyCrash", Cfg: cfg, Timeout: 10 * time.Minute})
		if err != nil {
			core.Infra("tlc %s: %v", cfg, err)
		}
		if res.TimedOut || (res.Violation == "" && res.ExitCode != 0) {
			core.Infra("relevance configuration %s: %s\n%s", cfg, res.Describe(), res.OutputTail)
		}
		if res.Violation == "" {
			got[cfg] = "NO VIOLATION (the switched-off step is not needed for the property on the model)"
		} else {
			got[cfg] = "violates " + res.Violation
		}
	}
	rep.Extra["applycrash_relevance"] = got
}
