package main

import (
	"context"
	"fmt"
	"os"
	"path/filepath"
	"sort"
	"strings"
	"time"

	"github.com/superfly/litefs"
	"github.com/superfly/litefs/verifharness/core"
	"github.com/superfly/litefs/verifharness/dbreplay"
	"github.com/superfly/litefs/verifharness/sim"
	"github.com/superfly/ltx"
)

const acDB = "db"

type acPos struct {
	txid uint64
	chk  uint64
}

func (p acPos) String() string { return fmt.Sprintf("%d/%016x", p.txid, p.chk) }

func posOf(db *litefs.DB) acPos {
	if db == nil {
		return acPos{}
	}
	p := db.Pos()
	return acPos{uint64(p.TXID), uint64(p.PostApplyChecksum)}
}

type acFail struct {
	Monitor string
	Sig     string
	Detail  map[string]any
}

// acResult is what one scenario contributed.
type acResult struct {
	ID        string
	Cfg       string
	Evals     int
	Fails     []acFail
	Nonconf   []string
	Notes     []string
	Surv1     int // distinct first-level survivors (crash inside the operation)
	Surv2     int // distinct second-level survivors (crash inside the recovery of a first-level survivor)
	Points1   int // step boundaries of the operation at which the directory was copied
	Points2   int
	FollowUps int
	Infra     string
}

// acExec executes one scenario.
type acExec struct {
	m       *acModel
	s       acScn
	id      string
	cfg     dbreplay.Config
	base    string
	level2  int // 0 = no crash inside recovery, 1 = for a sample of first-level survivors, 2 = all
	follow2 bool
	seed    int64
	walP    bool // the streaming primary keeps its database in WAL mode (replica scenarios)
	res     *acResult

	role   string // "replica" | "primary"
	cl     *sim.Cluster
	P      *sim.CNode
	before []sim.Content
	after  []sim.Content
	bpos   acPos
	apos   acPos
	judged map[string]bool
	nS     int
	fin    string
}

func (x *acExec) fail(monitor, sig string, detail map[string]any) {
	x.res.Fails = append(x.res.Fails, acFail{monitor, sig, detail})
}
func (x *acExec) nonconf(format string, a ...any) {
	if len(x.res.Nonconf) < 8 {
		x.res.Nonconf = append(x.res.Nonconf, fmt.Sprintf(format, a...))
	}
}

func seqTo(n int) []int {
	out := make([]int, n)
	for i := range out {
		out[i] = i + 1
	}
	return out
}

// commitJ runs one rollback-journal transaction through the FUSE handlers; take (optional) is called
// before every request group, mark after the journal is durable.
func commitJ(pg *sim.Pager, pl sim.Plan, take func(string), mark func(string)) error {
	if take == nil {
		take = func(string) {}
	}
	if mark == nil {
		mark = func(string) {}
	}
	pl.Kind, pl.Out = "j", "commit"
	if pl.Fin == "" {
		pl.Fin = "DELETE"
	}
	sort.Ints(pl.M)
	was := len(pg.Ref)
	take("pager:BeginJ")
	if err := pg.BeginJ(pl); err != nil {
		return fmt.Errorf("BeginJ: %w", err)
	}
	take("pager:JCreate")
	if err := pg.JCreate(); err != nil {
		return fmt.Errorf("JCreate: %w", err)
	}
	// LiteFS plays a journal back from the moment its first header is written (the magic is only
	// required from the second segment on), so the journal counts as present from here
	mark("p_journal")
	take("pager:JSync")
	if err := pg.JSync(); err != nil {
		return fmt.Errorf("JSync: %w", err)
	}
	for _, q := range pl.M {
		if err := pg.JPage(q); err != nil {
			return fmt.Errorf("JPage(%d): %w", q, err)
		}
	}
	take("pager:JFinal")
	if err := pg.JFinal(); err != nil {
		return fmt.Errorf("JFinal: %w", err)
	}
	mark("returned")
	if pl.Ns < was {
		if err := pg.JTrunc(pl.Ns); err != nil {
			return fmt.Errorf("JTrunc: %w", err)
		}
	}
	pg.EndJ()
	return nil
}

// commitW runs one WAL transaction; salt != 0 starts a new log.
func commitW(pg *sim.Pager, pl sim.Plan, salt int, take func(string), mark func(string)) error {
	if take == nil {
		take = func(string) {}
	}
	if mark == nil {
		mark = func(string) {}
	}
	pl.Kind, pl.Out, pl.Wal = "w", "commit", true
	sort.Ints(pl.M)
	take("pager:BeginW")
	if err := pg.BeginW(pl); err != nil {
		return fmt.Errorf("BeginW: %w", err)
	}
	if err := pg.WHdr(salt); err != nil {
		return fmt.Errorf("WHdr: %w", err)
	}
	for i, q := range pl.M {
		take("pager:WFrame")
		if err := pg.WFrame(q, false, i == len(pl.M)-1); err != nil {
			return fmt.Errorf("WFrame(%d): %w", q, err)
		}
	}
	mark("w_frames")
	take("pager:WEnd")
	if err := pg.WEnd(); err != nil {
		return fmt.Errorf("WEnd: %w", err)
	}
	mark("returned")
	return nil
}

// walChain builds the pre-state of the checkpoint scenarios: a rollback-mode transaction that creates
// ns[0] pages and switches the header to WAL, then one captured WAL transaction per further size.
func walChain(pg *sim.Pager, ns []int, upto int) error {
	if err := commitJ(pg, sim.Plan{Ns: ns[0], M: seqTo(ns[0]), Wal: true, V: 1}, nil, nil); err != nil {
		return err
	}
	for i := 1; i <= upto; i++ {
		salt := 0
		if i == 1 {
			salt = 1
		}
		if err := commitW(pg, walPlan(ns, i), salt, nil, nil); err != nil {
			return err
		}
	}
	return nil
}

func walPlan(ns []int, i int) sim.Plan {
	in := map[int]bool{1: true}
	for q := ns[i-1] + 1; q <= ns[i]; q++ {
		in[q] = true
	}
	if i%2 == 0 {
		in[ns[i]] = true // every second transaction also rewrites the last page
	}
	var m []int
	for q := range in {
		m = append(m, q)
	}
	sort.Ints(m)
	return sim.Plan{Ns: ns[i], M: m, V: 1 + i}
}

// chain writes a rollback-journal history of j transactions on n pages: the first one writes every
// page, the later ones only page 1 (the newest transaction file is then an incremental one).
func chain(pg *sim.Pager, n, v0, j int) error {
	for i := 1; i <= j; i++ {
		m := []int{1}
		if i == 1 {
			m = seqTo(n)
		}
		if err := commitJ(pg, sim.Plan{Ns: n, M: m, V: v0 + i}, nil, nil); err != nil {
			return err
		}
	}
	return nil
}

func (x *acExec) infra(format string, a ...any) {
	if x.res.Infra == "" {
		x.res.Infra = fmt.Sprintf(format, a...)
	}
}

// run executes the scenario: pre-state, the operation under the recorder, then every survivor.
func (x *acExec) run() {
	acInstallH1()
	x.judged = map[string]bool{}
	L := x.cfg.Layout
	s := x.s
	var rec *acRec
	var opErr error
	var victimClose func()

	switch s.Op {
	case "inc", "snap", "rdrop":
		x.role = "replica"
		rec, opErr = x.runStream()
	default:
		x.role = "primary"
		rec, victimClose, opErr = x.runLocal()
	}
	if x.cl != nil {
		defer x.cl.Close()
	}
	if x.res.Infra != "" {
		if victimClose != nil {
			victimClose()
		}
		return
	}
	if victimClose != nil {
		victimClose()
	}
	if opErr != nil {
		// the operation itself failed on the live node: not a clause of C05 (a crash-recovery property);
		// the model says it completes, so this is a conformance remark. The survivors are still judged.
		x.nonconf("%s: operation did not complete on the live node: %v", x.id, opErr)
	}
	_ = L

	// ---- conformance of the operation's step sequence ----
	real := strings.Join(canon(rec.labels), ",")
	okSeq := false
	for _, ms := range x.m.steps[x.id] {
		if ms == real {
			okSeq = true
		}
	}
	if !okSeq && opErr == nil {
		x.nonconf("%s [%s]: real step sequence is not a behaviour of ApplyCrash.tla: real=%s model=%v", x.id, x.cfg, real, x.m.steps[x.id])
	}

	// ---- every survivor ----
	x.res.Points1 = len(rec.survs)
	idx := 0
	for _, sv := range rec.survs {
		if sv.dir == "" {
			// same directory as an earlier copy: only the model's prediction for this step position is compared
			continue
		}
		x.res.Surv1++
		lvl2 := x.level2 == 2 || (x.level2 == 1 && (idx+int(x.seed))%2 == 0)
		idx++
		x.judge(sv, nil, lvl2, true)
	}
	for _, sv := range rec.survs {
		if sv.dir != "" {
			_ = os.RemoveAll(sv.dir)
		}
	}
}

// quiesce returns when the stream goroutine has finished the frame it is processing: a position is
// reported inside ApplyLTXNoLock, the frame is done when the database's write lock is free again.
func quiesce(db *litefs.DB) {
	if db == nil {
		return
	}
	ctx, cancel := context.WithTimeout(context.Background(), 10*time.Second)
	defer cancel()
	if g, err := db.AcquireWriteLock(ctx, nil); err == nil {
		g.Unlock()
	}
}

// ---------------------------------------------------------------- replica: streamed file / snapshot / drop

func (x *acExec) startPrimary() error {
	x.cl = sim.NewCluster(filepath.Join(x.base, "cl"))
	x.cl.Lease.AllowOnly()
	p, err := x.cl.Start("P", sim.ClusterNodeOpts{Candidate: true, Compress: x.cfg.Compress})
	if err != nil {
		return err
	}
	x.P = p
	return x.cl.Elect("P", 10*time.Second)
}

func (x *acExec) runStream() (*acRec, error) {
	s, L := x.s, x.cfg.Layout
	if err := x.startPrimary(); err != nil {
		x.infra("start primary: %v", err)
		return nil, nil
	}
	pconn := x.P.Connect(acDB, 101)
	ppg := sim.NewPager(pconn, L, x.cfg.Pager)
	rdir := filepath.Join(x.cl.Dir, "R")
	rec := newRec(rdir, x.base, "a", L)
	blocked := false
	conf := func(st *litefs.Store) {
		st.OS.(*sim.OSWrap).Before = rec.os
		acH1.Store(st, rec)
		if blocked {
			st.Client.(*sim.FaultClient).Block()
		}
	}
	var R *sim.CNode
	var err error
	switch s.Op {
	case "inc", "rdrop":
		// the replica follows from the first transaction on, so that its newest transaction file is the
		// incremental one of the second transaction (a replica that joins later gets one snapshot file)
		for i := 1; i <= 2; i++ {
			m := []int{1}
			if i == 1 {
				m = seqTo(s.Nb)
			}
			var err error
			if x.walP && i > 1 {
				err = commitW(ppg, sim.Plan{Ns: s.Nb, M: m, V: i}, 1, nil, nil)
			} else {
				err = commitJ(ppg, sim.Plan{Ns: s.Nb, M: m, V: i, Wal: x.walP}, nil, nil)
			}
			if err != nil {
				x.infra("pre-state: %v", err)
				return nil, nil
			}
			if i == 1 {
				if R, err = x.cl.Start("R", sim.ClusterNodeOpts{Compress: x.cfg.Compress, Configure: conf}); err != nil {
					x.infra("start replica: %v", err)
					return nil, nil
				}
			}
			if err := x.cl.WaitPos("R", acDB, x.P.Store.DB(acDB).Pos(), 10*time.Second); err != nil {
				x.infra("replica did not reach the pre-state: %v", err)
				return nil, nil
			}
			quiesce(R.Store.DB(acDB))
		}
		if fs, _ := sim.ListLTX(filepath.Join(rdir, "dbs", acDB)); len(fs) != 2 {
			x.infra("pre-state: replica holds %d transaction files, want 2", len(fs))
			return nil, nil
		}
		x.before = append([]sim.Content(nil), ppg.Ref...)
	case "snap":
		vs := []int{19, 20}
		if s.Rk == "behind2" {
			vs = []int{18, 19, 20} // the snapshot reaches TXID 3
		}
		for _, v := range vs {
			if err := commitJ(ppg, sim.Plan{Ns: s.Na, M: seqTo(s.Na), V: v}, nil, nil); err != nil {
				x.infra("pre-state: %v", err)
				return nil, nil
			}
		}
		if tr := map[string]int{"fresh": 0, "behind": 1, "behind2": 2, "equal": 2, "ahead": 3}[s.Rk]; tr > 0 {
			// the replica's own history is written by a node that was primary on its own
			fdir := filepath.Join(x.base, "F")
			_ = os.MkdirAll(fdir, 0o777)
			_ = os.WriteFile(filepath.Join(fdir, "clusterid"), []byte(x.cl.ClusterID+"\n"), 0o666)
			f, err := sim.OpenNode(sim.NodeOpts{Dir: fdir, Primary: true, Compress: x.cfg.Compress})
			if err != nil {
				x.infra("open fork node: %v", err)
				return nil, nil
			}
			fc := f.Connect(acDB, 77)
			fpg := sim.NewPager(fc, L, x.cfg.Pager)
			if err := chain(fpg, s.Nb, 10, tr); err != nil {
				x.infra("fork history: %v", err)
				return nil, nil
			}
			x.before = append([]sim.Content(nil), fpg.Ref...)
			fc.Close()
			f.Close()
			if err := sim.CopyDir(fdir, rdir); err != nil {
				x.infra("copy fork dir: %v", err)
				return nil, nil
			}
			_ = os.RemoveAll(fdir)
		}
		// the replica connects as soon as it runs: the recorder starts by itself with the first step
		// of the snapshot's arrival (the state copied before that step is the pre-state)
		if tr := map[string]int{"fresh": 0, "behind": 1, "behind2": 2, "equal": 2, "ahead": 3}[s.Rk]; tr > 0 {
			if fs, _ := sim.ListLTX(filepath.Join(rdir, "dbs", acDB)); len(fs) > 0 {
				x.bpos = acPos{fs[len(fs)-1].Max, fs[len(fs)-1].Post}
			}
		}
		rec.arm("a", "s_create", "n_mkdir")
		if R, err = x.cl.Start("R", sim.ClusterNodeOpts{Compress: x.cfg.Compress, Configure: conf}); err != nil {
			x.infra("start replica: %v", err)
			return nil, nil
		}
	}
	defer acH1.Delete(R.Store)
	// the moment the replica reports the new position (inside DB.setPos) is the moment after which
	// the transaction counts as acknowledged
	R.Cache.OnPos = func(db *litefs.DB) {
		if db.Name() == acDB && rec.isOn() {
			rec.SetReturnedLocked()
		}
	}
	if s.Op != "snap" {
		x.bpos = posOf(R.Store.DB(acDB))
	}

	// ---- the interrupted operation ----
	core.Beat("real:stream-apply")
	if s.Op != "snap" {
		rec.start("a")
		rec.Take("op-start")
	}
	var opErr error
	switch s.Op {
	case "inc":
		if x.walP {
			opErr = commitW(ppg, sim.Plan{Ns: s.Na, M: append([]int(nil), s.M...), V: 9}, 0, nil, nil)
		} else {
			opErr = commitJ(ppg, sim.Plan{Ns: s.Na, M: append([]int(nil), s.M...), V: 9, Fin: x.fin}, nil, nil)
		}
	case "rdrop":
		pconn.Close()
		opErr = x.P.Connect(acDB, 102).RemoveDB()
		ppg.Ref = nil
	case "snap":
	}
	if opErr != nil {
		rec.stop()
		x.infra("primary could not commit the transaction to stream: %v", opErr)
		return nil, nil
	}
	x.apos = posOf(x.P.Store.DB(acDB))
	x.after = append([]sim.Content(nil), ppg.Ref...)
	want := x.P.Store.DB(acDB).Pos()
	if err := x.cl.WaitPos("R", acDB, want, 10*time.Second); err != nil {
		opErr = err
	} else {
		quiesce(R.Store.DB(acDB))
	}
	core.Beat("harness")
	rec.SetReturned()
	if opErr == nil {
		rec.Take("op-done")
	}
	rec.stop()
	if ex := R.Exits(); len(ex) > 0 && opErr == nil {
		opErr = fmt.Errorf("replica called Exit %v", ex)
	}
	x.cl.Stop("R")
	return rec, opErr
}

// ---------------------------------------------------------------- primary: checkpoint / recover / drop / local commits / restore

func (x *acExec) runLocal() (*acRec, func(), error) {
	s, L := x.s, x.cfg.Layout
	dir := filepath.Join(x.base, "live")
	rec := newRec(dir, x.base, "a", L)
	node, err := sim.OpenNode(sim.NodeOpts{Dir: dir, Primary: true, Compress: x.cfg.Compress, Configure: func(st *litefs.Store) {
		st.OS.(*sim.OSWrap).Before = rec.os
		acH1.Store(st, rec)
		x.configureLocal(st)
	}})
	if err != nil {
		x.infra("open node: %v", err)
		return nil, nil, nil
	}
	closer := func() {
		acH1.Delete(node.Store)
		_ = core.Try(node.Close)
	}
	conn := node.Connect(acDB, 101)
	pg := sim.NewPager(conn, L, x.cfg.Pager)
	db := func() *litefs.DB { return node.Store.DB(acDB) }
	var opErr error
	pre := func(err error) bool {
		if err != nil {
			x.infra("pre-state: %v", err)
			return false
		}
		return true
	}
	switch s.Op {
	case "ckpt":
		if !pre(walChain(pg, s.Ns, len(s.Ns)-1)) {
			return nil, closer, nil
		}
		x.before = append([]sim.Content(nil), pg.Ref...)
		x.after, x.bpos = x.before, posOf(db())
		x.apos = x.bpos
		core.Beat("real:checkpoint")
		rec.start("c")
		rec.SetReturned() // every transaction in the log had returned success before the checkpoint began
		rec.Take("op-start")
		if pn := core.Try(func() {
			if s.Cx == "recover" {
				// a real role change: the primary is demoted, gives its lease back and runs
				// Store.Recover (journal rollback + checkpoint of every database) before it looks for a
				// primary again; the same DB.Recover is what the release of a remote halt lock calls
				node.Store.Demote()
				deadline := time.Now().Add(10 * time.Second)
				for rec.eventCount() == 0 && time.Now().Before(deadline) {
					time.Sleep(time.Millisecond)
				}
				if rec.eventCount() == 0 {
					opErr = fmt.Errorf("the demoted node did not start Store.Recover within 10s")
				}
				quiesce(db())
			} else {
				opErr = db().Checkpoint(sim.Ctx())
			}
		}); pn != nil {
			opErr = fmt.Errorf("panic: %v", pn.Value)
		}
		rec.Take("op-done")
		rec.stop()
	case "hotw":
		if !pre(walChain(pg, s.Ns, 1)) {
			return nil, closer, nil
		}
		x.before, x.bpos = append([]sim.Content(nil), pg.Ref...), posOf(db())
		core.Beat("real:wal-commit")
		rec.start("p")
		rec.Take("op-start")
		opErr = commitW(pg, walPlan(s.Ns, 2), 0, rec.Take, func(l string) {
			if l == "returned" {
				rec.SetReturned()
			} else {
				rec.Mark(l)
			}
		})
		rec.Take("op-done")
		rec.stop()
		x.after, x.apos = append([]sim.Content(nil), pg.Ref...), posOf(db())
	case "hotj":
		if s.Rk == "DELETE" {
			x.fin = "DELETE"
		} else if x.fin == "DELETE" {
			x.fin = "TRUNCATE"
		}
		if s.Nb > 0 && !pre(chain(pg, s.Nb, 0, 2)) {
			return nil, closer, nil
		}
		if s.Nb == 0 {
			// SQLite creates the (empty) database file when it opens the connection
			if err := conn.OpenDB(true); err != nil {
				x.infra("create database: %v", err)
				return nil, closer, nil
			}
		}
		x.before, x.bpos = append([]sim.Content(nil), pg.Ref...), posOf(db())
		core.Beat("real:journal-commit")
		rec.start("p")
		rec.Take("op-start")
		opErr = commitJ(pg, sim.Plan{Ns: s.Na, M: append([]int(nil), s.M...), V: 9, Fin: x.fin}, rec.Take, func(l string) {
			if l == "returned" {
				rec.SetReturned()
			} else {
				rec.Mark(l)
			}
		})
		rec.Take("op-done")
		rec.stop()
		x.after, x.apos = append([]sim.Content(nil), pg.Ref...), posOf(db())
	case "pdrop":
		if !pre(walChainOrPlain(pg, s)) {
			return nil, closer, nil
		}
		x.before, x.bpos = append([]sim.Content(nil), pg.Ref...), posOf(db())
		conn.Close()
		core.Beat("real:drop")
		rec.start("d")
		rec.Take("op-start")
		if pn := core.Try(func() { opErr = node.Connect(acDB, 102).RemoveDB() }); pn != nil {
			opErr = fmt.Errorf("panic: %v", pn.Value)
		}
		if opErr == nil {
			rec.SetReturned()
		}
		rec.Take("op-done")
		rec.stop()
		x.after, x.apos = nil, posOf(db())
	case "restore":
		opErr = x.runRestore(node, pg, rec)
	default:
		x.infra("unknown operation %q", s.Op)
	}
	core.Beat("harness")
	if ex := node.Exits(); len(ex) > 0 && opErr == nil {
		opErr = fmt.Errorf("node called Exit %v", ex)
	}
	_ = core.Try(conn.Close)
	return rec, closer, opErr
}

func walChainOrPlain(pg *sim.Pager, s acScn) error {
	if s.Wk {
		return walChain(pg, s.Ns, 1)
	}
	return chain(pg, s.Ns[0], 0, 2)
}

// ---------------------------------------------------------------- survivors

func newestLTX(dbDir string) (cands []*sim.LTXFile, all []*sim.LTXFile) {
	all, _ = sim.ListLTX(dbDir)
	var max uint64
	for _, f := range all {
		if f.Max > max {
			max = f.Max
		}
	}
	for _, f := range all {
		if f.Max == max {
			cands = append(cands, f)
		}
	}
	return cands, all
}

func hotJournal(dbDir string) (bool, int64) {
	b, err := os.ReadFile(filepath.Join(dbDir, "journal"))
	if err != nil {
		return false, -1
	}
	magic := []byte{0xd9, 0xd5, 0x05, 0xf9, 0x20, 0xa1, 0x63, 0xd7}
	return len(b) >= 8 && string(b[:8]) == string(magic), int64(len(b))
}

// judge opens a fresh store on a copy of the survivor and evaluates the clauses of C05 on what the
// real code reports and on the real bytes. first = crash point inside the operation; prefix = the
// model labels up to the first crash when sv is a second-level survivor.
func (x *acExec) judge(sv *acSurv, prefix []string, level2, followUp bool) {
	L := x.cfg.Layout
	lvl := 1
	hist := append(append([]string(nil), sv.before...), "CRASH")
	if prefix != nil {
		lvl = 2
		hist = append(append(append([]string(nil), prefix...), sv.before...), "CRASH")
	}
	nextStep := sv.next
	if i := strings.IndexByte(nextStep, ':'); i >= 0 {
		nextStep = nextStep[:i]
	}
	if nextStep == "" {
		nextStep = "-"
	}
	sig := func(what string) string {
		return fmt.Sprintf("%s/%s/crash%d-before:%s", what, x.s.Class(), lvl, nextStep)
	}
	detail := func(extra map[string]any) map[string]any {
		var onDisk []string
		_ = filepath.Walk(filepath.Join(sv.dir, "dbs", acDB), func(p string, fi os.FileInfo, err error) error {
			if err == nil && !fi.IsDir() {
				rel, _ := filepath.Rel(filepath.Join(sv.dir, "dbs", acDB), p)
				onDisk = append(onDisk, fmt.Sprintf("%s(%d bytes)", rel, fi.Size()))
			}
			return nil
		})
		m := map[string]any{"scenario": x.id, "config": x.cfg.String(), "crash_level": lvl, "crash_before_real_event": sv.at, "files_at_restart": onDisk,
			"model_steps_before_crash": strings.Join(hist, ","), "taken_after_success_was_reported": sv.returned,
			"before": x.bpos.String(), "after": x.apos.String()}
		for k, v := range extra {
			m[k] = v
		}
		return m
	}
	pred, havePred := x.m.out[acKey(x.id, hist)]
	if !havePred {
		x.nonconf("%s [%s]: no behaviour of ApplyCrash.tla crashes after steps %s", x.id, x.cfg, strings.Join(canon(hist), ","))
	}
	if sv.dir == "" {
		return
	}
	jk := sv.digest + fmt.Sprint(sv.returned)
	if x.judged[jk] && !level2 {
		return
	}
	x.judged[jk] = true

	// ---- the newest transaction file on disk at the moment of the restart ----
	work := filepath.Join(x.base, fmt.Sprintf("w%d", x.nS))
	x.nS++
	var node *sim.Node
	var cn *sim.CNode
	name := ""
	if x.role == "replica" {
		name = fmt.Sprintf("S%d", x.nS)
		work = filepath.Join(x.cl.Dir, name)
	}
	if err := sim.CopyDir(sv.dir, work); err != nil {
		core.Infra("copy survivor: %v", err)
	}
	defer os.RemoveAll(work)
	dbDir := filepath.Join(work, "dbs", acDB)
	cands, _ := newestLTX(dbDir)
	x.res.Evals += 7
	valid := 0
	for _, c := range cands {
		if c.Err == "" {
			valid++
		}
	}
	if len(cands) > 0 && valid == 0 {
		x.fail("C05.newest-ltx-verifies", sig("newest-ltx-invalid"), detail(map[string]any{"file": cands[0].Name, "error": cands[0].Err}))
		return
	}

	// ---- restart ----
	var rec2 *acRec
	if level2 {
		rec2 = newRec(work, x.base, fmt.Sprintf("b%d_", x.nS), L)
		rec2.returned, rec2.openOnly = sv.returned, true
	}
	conf := func(st *litefs.Store) {
		if rec2 != nil {
			st.OS.(*sim.OSWrap).Before = rec2.os
			acH1.Store(st, rec2)
			rec2.start("o")
		}
		if x.role == "replica" {
			st.Client.(*sim.FaultClient).Block()
		}
		x.configureLocal(st)
	}
	var err error
	var pn *core.Panic
	done := make(chan struct{})
	core.Beat("real:open-survivor")
	go func() {
		pn = core.Try(func() {
			if x.role == "replica" {
				cn, err = x.cl.Start(name, sim.ClusterNodeOpts{Compress: x.cfg.Compress, Configure: conf})
				if cn != nil {
					node = cn.Node
				}
			} else {
				node, err = sim.OpenNode(sim.NodeOpts{Dir: work, Primary: true, Compress: x.cfg.Compress, Configure: conf})
			}
		})
		close(done)
	}()
	select {
	case <-done:
	case <-time.After(30 * time.Second):
		x.fail("C05.restart-succeeds", sig("restart-hangs"), detail(nil))
		return
	}
	core.Beat("harness")
	if rec2 != nil {
		rec2.stop()
	}
	closeNode := func() {
		if node == nil {
			return
		}
		acH1.Delete(node.Store)
		if cn != nil {
			x.cl.Stop(name)
		} else {
			_ = core.Try(node.Close)
		}
		node = nil
	}
	defer closeNode()
	if pn != nil {
		x.fail("C05.restart-succeeds", sig("restart-panics"), detail(map[string]any{"panic": pn.Value, "stack": pn.Stack}))
		return
	}
	if err != nil {
		x.fail("C05.restart-succeeds", sig("restart-fails"), detail(map[string]any{"error": err.Error()}))
		return
	}
	if ex := node.Exits(); len(ex) > 0 {
		x.fail("C05.restart-succeeds", sig("exit-on-restart"), detail(map[string]any{"codes": ex}))
		return
	}
	pos := posOf(node.Store.DB(acDB))

	// ---- position = the one named by a newest transaction file ----
	okPos := len(cands) == 0 && pos == (acPos{})
	for _, c := range cands {
		if c.Err == "" && pos.txid == c.Max && pos.chk == c.Post {
			okPos = true
		}
	}
	if !okPos {
		var names []string
		for _, c := range cands {
			names = append(names, fmt.Sprintf("%s(post=%016x)", c.Name, c.Post))
		}
		x.fail("C05.position-of-newest-ltx", sig("position"), detail(map[string]any{"reported": pos.String(), "newest_files": names}))
	}
	// ---- which is the position before or after the interrupted operation ----
	var expect []sim.Content
	class := ""
	switch {
	case pos == x.apos:
		expect, class = x.after, "after"
	case pos == x.bpos:
		expect, class = x.before, "before"
	default:
		x.fail("C05.before-or-after", sig("neither-before-nor-after"), detail(map[string]any{"reported": pos.String()}))
		return
	}
	if x.apos == x.bpos {
		class = "after" // the operation does not move the position (checkpoint / recover)
	}
	if sv.returned && pos != x.apos {
		x.fail("C05.acknowledged-commit-not-lost", sig("acknowledged-commit-lost"), detail(map[string]any{"reported": pos.String()}))
	}
	// ---- image, size and from-scratch checksum of that position, never a mixture ----
	want := L.ImageOf(expect)
	im, derr := sim.DiskImage(dbDir, L.PageSize)
	if derr != nil {
		core.Infra("disk image: %v", derr)
	}
	if ok, why := im.Equal(want, L.LockPgno()); !ok {
		model, bad := L.ModelOf(im)
		x.fail("C05.image-of-that-position", sig("image"), detail(map[string]any{"why": why, "position": class, "recovered_model": model, "undecodable_pages": bad, "expected_model": expect}))
	}
	if fi, serr := os.Stat(filepath.Join(dbDir, "database")); serr == nil && fi.Size() != int64(want.N)*int64(L.PageSize) {
		x.fail("C05.image-of-that-position", sig("file-size"), detail(map[string]any{"file_bytes": fi.Size(), "expected_pages": want.N, "page_size": L.PageSize}))
	}
	if pos.txid > 0 {
		if fs := im.Checksum(L.LockPgno()); fs != pos.chk {
			x.fail("C05.checksum-of-that-position", sig("checksum"), detail(map[string]any{"reported": pos.String(), "from_scratch": fmt.Sprintf("%016x", fs)}))
		}
	}
	// ---- nothing left for SQLite to replay ----
	if hot, size := hotJournal(dbDir); hot {
		x.fail("C05.no-hot-journal", sig("journal-left"), detail(map[string]any{"size": size}))
	}
	if _, cm := sim.WalkWAL(filepath.Join(dbDir, "wal"), L.PageSize); cm != 0 {
		x.fail("C05.no-uncheckpointed-wal", sig("wal-left"), detail(map[string]any{"commit_size": cm}))
	}

	// ---- conformance: the model's prediction for this crash point ----
	if havePred {
		mn := 0
		for p := 1; p < len(L.Map); p++ {
			if L.Map[p] <= im.N {
				mn = p
			}
		}
		if pred.O != class && !(pred.O == "before" && x.apos == x.bpos) || uint64(pred.T) != pos.txid || pred.N != mn {
			x.nonconf("%s [%s]: crash after %s: model predicts %s t=%d n=%d, real %s t=%d n=%d", x.id, x.cfg, strings.Join(canon(hist), ","), pred.O, pred.T, pred.N, class, pos.txid, mn)
		}
	}

	// ---- crash points inside this recovery ----
	if rec2 != nil {
		x.res.Points2 += len(rec2.survs)
	}

	// ---- the restarted node can go on ----
	if followUp && len(x.res.Fails) == 0 {
		x.res.FollowUps++
		x.res.Evals += 3
		if x.role == "replica" {
			x.catchUp(cn, name, sv, sig, detail)
		} else {
			x.commitAgain(node, dbDir, expect, pos, sig, detail)
		}
	}
	closeNode()

	if rec2 != nil {
		pre := append(append([]string(nil), sv.before...), "CRASH")
		for _, s2 := range rec2.survs {
			if s2.dir != "" {
				x.res.Surv2++
			}
			x.judge(s2, pre, false, x.follow2)
		}
		for _, s2 := range rec2.survs {
			if s2.dir != "" {
				_ = os.RemoveAll(s2.dir)
			}
		}
	}
}

// catchUp: the restarted replica connects to the primary again and must reach its position and image.
func (x *acExec) catchUp(cn *sim.CNode, name string, sv *acSurv, sig func(string) string, detail func(map[string]any) map[string]any) {
	want := x.P.Store.DB(acDB).Pos()
	L := x.cfg.Layout
	cn.Client.Unblock()
	core.Beat("real:catch-up")
	err := x.cl.WaitPos(name, acDB, want, 10*time.Second)
	core.Beat("harness")
	if err != nil {
		if ex := cn.Exits(); len(ex) > 0 {
			x.fail("C05.can-replicate-again", sig("catch-up-node-stopped"), detail(map[string]any{"exit_codes": ex, "error": err.Error()}))
			return
		}
		// a time bound alone does not decide: the same survivor gets a second, longer chance
		x.cl.Stop(name)
		dir := filepath.Join(x.cl.Dir, name)
		_ = os.RemoveAll(dir)
		if cerr := sim.CopyDir(sv.dir, dir); cerr != nil {
			core.Infra("copy survivor: %v", cerr)
		}
		cn2, serr := x.cl.Start(name, sim.ClusterNodeOpts{Compress: x.cfg.Compress})
		if serr != nil {
			x.fail("C05.can-replicate-again", sig("catch-up-restart-fails"), detail(map[string]any{"error": serr.Error()}))
			return
		}
		core.Beat("real:catch-up")
		err = x.cl.WaitPos(name, acDB, want, 30*time.Second)
		core.Beat("harness")
		if err != nil {
			x.fail("C05.can-replicate-again", sig("catch-up-not-reached"), detail(map[string]any{"error": err.Error(), "exit_codes": cn2.Exits()}))
			return
		}
	}
	// let the stream goroutine finish the frame before the bytes are read
	quiesce(x.cl.Nodes[name].Store.DB(acDB))
	dbDir := filepath.Join(x.cl.Dir, name, "dbs", acDB)
	im, _ := sim.DiskImage(dbDir, L.PageSize)
	wantIm := L.ImageOf(x.after)
	if ok, why := im.Equal(wantIm, L.LockPgno()); !ok {
		x.fail("C05.can-replicate-again", sig("catch-up-image"), detail(map[string]any{"why": why}))
	} else if want.TXID > 0 && im.Checksum(L.LockPgno()) != uint64(want.PostApplyChecksum) {
		x.fail("C05.can-replicate-again", sig("catch-up-checksum"), detail(nil))
	}
}

// commitAgain: the restarted primary accepts one more transaction and captures it correctly.
func (x *acExec) commitAgain(node *sim.Node, dbDir string, expect []sim.Content, pos acPos, sig func(string) string, detail func(map[string]any) map[string]any) {
	L := x.cfg.Layout
	conn := node.Connect(acDB, 202)
	defer func() { _ = core.Try(conn.Close) }()
	pg := sim.NewPager(conn, L, x.cfg.Pager)
	pg.Ref = append([]sim.Content(nil), expect...)
	ns := len(expect)
	m := []int{1}
	if ns == 0 {
		ns, m = 2, []int{1, 2}
	} else if ns > 1 {
		m = append(m, ns)
	}
	pl := sim.Plan{Ns: ns, M: m, V: 90}
	var ferr error
	core.Beat("real:follow-up-commit")
	fpn := core.Try(func() {
		if pg.WalMode() {
			ferr = commitW(pg, pl, 77, nil, nil)
		} else {
			ferr = commitJ(pg, pl, nil, nil)
		}
	})
	core.Beat("harness")
	if fpn != nil || ferr != nil || len(node.Exits()) > 0 {
		d := map[string]any{"error": fmt.Sprint(ferr), "exits": node.Exits()}
		if fpn != nil {
			d["panic"], d["stack"] = fpn.Value, fpn.Stack
		}
		x.fail("C05.can-commit-again", sig("follow-up-commit-fails"), detail(d))
		return
	}
	np := posOf(node.Store.DB(acDB))
	if np.txid != pos.txid+1 {
		x.fail("C05.can-commit-again", sig("follow-up-not-captured"), detail(map[string]any{"txid": np.txid, "want": pos.txid + 1}))
		return
	}
	files, _ := sim.ListLTX(dbDir)
	if n := len(files); n == 0 || files[n-1].Err != "" || (files[n-1].Pre != pos.chk && pos.txid > 0) {
		x.fail("C05.can-commit-again", sig("follow-up-chain"), detail(nil))
		return
	}
	got := files[len(files)-1].Apply(L.ImageOf(expect))
	if ok, why := got.Equal(L.ImageOf(pg.Ref), L.LockPgno()); !ok {
		x.fail("C05.can-commit-again", sig("follow-up-delta-wrong"), detail(map[string]any{"why": why}))
	}
}

var _ = ltx.Pos{}
