package main

import (
	"encoding/json"
	"math/rand"
	"os"
	"runtime"
	"sort"
	"strings"
	"sync"
	"time"

	"github.com/superfly/litefs/verifharness/core"
	"github.com/superfly/litefs/verifharness/dbreplay"
	"github.com/superfly/litefs/verifharness/sim"
)

// concretisations: page size, LZ4, WAL checksum byte order, journal sector size, layout
func acConfigs(thorough bool) []dbreplay.Config {
	cfgs := []dbreplay.Config{
		{Layout: sim.L0(512), Pager: sim.PagerOpts{Sector: 512, SplitHdr: true}, Compress: true},
		{Layout: sim.L0(4096), Pager: sim.PagerOpts{Sector: 4096, BigEndian: true}},
		{Layout: sim.L0(1024), Pager: sim.PagerOpts{Sector: 512, BigEndian: true, SplitHdr: true}, Compress: true},
	}
	if thorough {
		cfgs = append(cfgs,
			dbreplay.Config{Layout: sim.L1(512), Pager: sim.PagerOpts{Sector: 512}},
			dbreplay.Config{Layout: sim.L0(65536), Pager: sim.PagerOpts{Sector: 512}, Compress: true},
			dbreplay.Config{Layout: sim.L3(512), Pager: sim.PagerOpts{Sector: 512, BigEndian: true}, Compress: true},
		)
	}
	return cfgs
}

var acFins = []string{"DELETE", "TRUNCATE", "PERSIST"}

type acJob struct {
	ID     string `json:"id"`
	Scn    acScn  `json:"scn"`
	Cfg    int    `json:"cfg"`
	Fin    string `json:"fin"`
	Level2 int    `json:"level2"`
	Follow bool   `json:"follow2"`
	Seed   int64  `json:"seed"`
	Thor   bool   `json:"thorough_configs"`
	Model  string `json:"model_cfg"`
	WalP   bool   `json:"wal_primary"`
}

func acRunJob(m *acModel, j acJob) *acResult {
	cfgs := acConfigs(j.Thor)
	cfg := cfgs[j.Cfg%len(cfgs)]
	res := &acResult{ID: j.ID, Cfg: cfg.String()}
	base := core.Scratch("ac")
	defer os.RemoveAll(base)
	x := &acExec{m: m, s: j.Scn, id: j.ID, cfg: cfg, base: base, level2: j.Level2, follow2: j.Follow, seed: j.Seed, res: res, fin: j.Fin, walP: j.WalP}
	if pn := core.Try(x.run); pn != nil {
		// a panic that escapes here happened in the harness's own driving code or in litefs while the
		// harness prepared the pre-state: never a verdict
		res.Infra = "panic while driving scenario " + j.ID + ": " + strings.SplitN(pn.Stack, "\n", 2)[0] + " " + pn.Stack
	}
	if x.cl != nil {
		x.cl.Close()
	}
	return res
}

func acRecord(rep *core.Report, j acJob, r *acResult, tot map[string]int) {
	if r.Infra != "" {
		core.Infra("applycrash scenario %s [%s]: %s", r.ID, r.Cfg, r.Infra)
	}
	rep.Eval(r.Evals)
	rep.TracesValidated++
	rep.Case("applycrash|"+r.ID+"|"+r.Cfg, r.Surv1 > 1)
	for _, nc := range r.Nonconf {
		rep.Nonconf("ApplyCrash %s", nc)
	}
	for _, f := range r.Fails {
		rep.Violate(f.Monitor, f.Sig, f.Detail, map[string]any{"kind": "applycrash", "job": j})
	}
	tot["scenarios"]++
	tot["scenarios/"+j.Scn.Op]++
	tot["step_boundaries_in_operations"] += r.Points1
	tot["survivors_level1_reopened"] += r.Surv1
	tot["step_boundaries_in_recoveries"] += r.Points2
	tot["survivors_level2_reopened"] += r.Surv2
	tot["follow_ups"] += r.FollowUps
}

// runApplyCrash is the stage added to C05: crash points inside LiteFS-internal operations.
func runApplyCrash(rep *core.Report, args *core.Args) {
	start := time.Now()
	thorough := !args.Quick()
	modelCfg := core.Pick(args, "MC_ApplyCrash_quick.cfg", "MC_ApplyCrash.cfg")
	m := acCollect(rep, "applycrash", modelCfg, args.Seed, 15*time.Minute)
	// restore from backup, as repaired (the snapshot is renamed into the log before the other transaction
	// files are removed); the order as originally coded violates the property on the model and is kept as
	// a relevance configuration of the thorough tier (MC_ApplyCrash_lead_restore.cfg)
	mr := acCollect(rep, "applycrash-restore", "MC_ApplyCrash_restore.cfg", args.Seed, 10*time.Minute)
	for id, s := range mr.scns {
		m.scns[id], m.steps[id] = s, mr.steps[id]
		m.order = append(m.order, id)
	}
	for k, v := range mr.out {
		m.out[k] = v
	}
	sort.Strings(m.order)

	// ---- which scenarios are executed ----
	rnd := rand.New(rand.NewSource(args.Seed))
	byOp := map[string][]string{}
	for _, id := range m.order {
		byOp[m.scns[id].Op] = append(byOp[m.scns[id].Op], id)
	}
	var jobs []acJob
	// quick tier: every scenario of the smaller operations, a seed-dependent sample of the larger families
	quota := map[string]int{"inc": 15, "snap": 30, "rdrop": 3, "ckpt": 36, "hotw": 18, "pdrop": 12, "hotj": 24, "restore": 9}
	var ops []string
	for op := range byOp {
		ops = append(ops, op)
	}
	sort.Strings(ops)
	for _, op := range ops {
		ids := byOp[op]
		if !thorough {
			rnd.Shuffle(len(ids), func(a, b int) { ids[a], ids[b] = ids[b], ids[a] })
			if q := quota[op]; len(ids) > q {
				ids = ids[:q]
			}
			sort.Strings(ids)
		}
		for i, id := range ids {
			n := len(jobs) + int(args.Seed)
			j := acJob{ID: id, Scn: m.scns[id], Cfg: n, Fin: acFins[(i+int(args.Seed))%3], Level2: 1, Seed: args.Seed, Thor: thorough, Model: modelCfg, WalP: (i+int(args.Seed))%2 == 1}
			if thorough {
				j.Level2, j.Follow = 2, true
				// the block-straddling layouts copy hundreds of filler pages per step: only every third scenario gets one
				if k := n % len(acConfigs(true)); (k == 3 || k == 5) && i%3 != 0 {
					j.Cfg = n + 1
				}
			}
			jobs = append(jobs, j)
		}
	}

	// ---- execute ----
	tot := map[string]int{}
	var mu sync.Mutex
	var wg sync.WaitGroup
	ch := make(chan acJob)
	workers := runtime.NumCPU()
	if workers > 16 {
		workers = 16
	}
	for w := 0; w < workers; w++ {
		wg.Add(1)
		go func() {
			defer wg.Done()
			for j := range ch {
				r := acRunJob(m, j)
				mu.Lock()
				acRecord(rep, j, r, tot)
				mu.Unlock()
			}
		}()
	}
	for _, j := range jobs {
		ch <- j
	}
	close(ch)
	wg.Wait()
	core.Beat("harness")
	tot["scenarios_in_model"] = len(m.scns)
	tot["crash_outcomes_in_model"] = len(m.out)
	rep.Extra["applycrash"] = tot
	if len(jobs) > 0 {
		rep.Sample(map[string]any{"applycrash_scenario": jobs[len(jobs)/2].ID, "steps": m.steps[jobs[len(jobs)/2].ID]})
	}

	if thorough {
		// larger bound, model only (4 pages: 387 scenarios)
		core.Beat("tlc")
		if res, err := core.RunTLC(core.TLCOpts{Module: "ApplyCrash", Cfg: "MC_ApplyCrash_big.cfg", Timeout: 15 * time.Minute}); err != nil {
			core.Infra("tlc MC_ApplyCrash_big.cfg: %v", err)
		} else if !res.OK() {
			core.Infra("model checking MC_ApplyCrash_big.cfg failed (a model problem, not a verdict about the code): %s\n%s\n%s", res.Describe(), res.ErrorText, res.OutputTail)
		} else {
			rep.AddTLC("applycrash-4pages-model-only", res)
		}
		acRelevance(rep, []string{
			"MC_ApplyCrash_rel_streamrename.cfg", "MC_ApplyCrash_rel_snaprename.cfg", "MC_ApplyCrash_rel_ckptwal.cfg",
			"MC_ApplyCrash_rel_rollbackrm.cfg", "MC_ApplyCrash_rel_droprename.cfg", "MC_ApplyCrash_rel_syncwal.cfg",
			"MC_ApplyCrash_rel_openrollback.cfg", "MC_ApplyCrash_rel_openckpt.cfg", "MC_ApplyCrash_rel_reapply.cfg",
			"MC_ApplyCrash_rel_truncorder.cfg", "MC_ApplyCrash_lead_restore.cfg", "MC_ApplyCrash_fix_restore.cfg",
		})
	}
	rep.Note("applycrash stage: %d scenarios executed in %.1fs", len(jobs), time.Since(start).Seconds())
}

// acReplayFile re-executes the scenario stored in a replay file written by this stage.
func acReplayFile(rep *core.Report, path string) bool {
	b, err := os.ReadFile(path)
	if err != nil {
		core.Infra("read replay: %v", err)
	}
	var f struct {
		Replay struct {
			Kind string `json:"kind"`
			Job  acJob  `json:"job"`
		} `json:"replay"`
	}
	if err := json.Unmarshal(b, &f); err != nil || f.Replay.Kind != "applycrash" {
		return false
	}
	cfg := f.Replay.Job.Model
	if cfg == "" {
		cfg = "MC_ApplyCrash.cfg"
	}
	if f.Replay.Job.Scn.Op == "restore" {
		cfg = "MC_ApplyCrash_restore.cfg"
	}
	m := acCollect(rep, "applycrash", cfg, 0, 15*time.Minute)
	r := acRunJob(m, f.Replay.Job)
	acRecord(rep, f.Replay.Job, r, map[string]int{})
	return true
}
