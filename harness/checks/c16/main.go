// Check C16: import replaces a database atomically; export returns the exact current image.
//
// ImportExport.tla enumerates (state of the target database, class of the offered image, interface).
// Every case is realised on a real primary with a real replica; the import goes through DB.Import or
// POST /import, the export through DB.Export or GET /export.
package main

import (
	"bytes"
	"context"
	"encoding/json"
	"fmt"
	"io"
	"math/rand"
	"os"
	"path/filepath"
	"sort"
	"sync"
	"time"

	"github.com/superfly/litefs"
	lhttp "github.com/superfly/litefs/http"
	"github.com/superfly/litefs/verifharness/core"
	"github.com/superfly/litefs/verifharness/faults"
	"github.com/superfly/litefs/verifharness/sim"
)

type tcase struct {
	Target string `json:"target"`
	Input  string `json:"input"`
	Iface  string `json:"iface"`
	Result string `json:"result"`
	Img    string `json:"img"`
	Pos    int    `json:"pos"`
	Exited bool   `json:"exited"`
}

func (c tcase) key() string { return c.Target + "/" + c.Input + "/" + c.Iface }

type facts struct {
	Pos   string
	Image string
	Files string
}

func factsOf(n *sim.Node, ps uint32, lock uint32) facts {
	var f facts
	f.Pos = "0000000000000000/0000000000000000" // an absent database and one at position zero are the same thing to applications
	if db := n.Store.DB("db"); db != nil {
		f.Pos = db.Pos().String()
	}
	im, _ := sim.StableDiskImage(n.DBDir("db"), ps)
	f.Image = fmt.Sprintf("%d:%016x", im.N, im.Checksum(lock))
	ents, _ := os.ReadDir(filepath.Join(n.DBDir("db"), "ltx"))
	var names []string
	for _, e := range ents {
		if fi, err := e.Info(); err == nil && filepath.Ext(e.Name()) == ".ltx" {
			names = append(names, fmt.Sprintf("%s:%d", e.Name(), fi.Size()))
		}
	}
	sort.Strings(names)
	f.Files = fmt.Sprint(names)
	return f
}

// reopened returns the facts a restart on a copy of the directory yields (what SQLite would see
// after LiteFS's recovery), or an error if the copy cannot be opened.
func reopened(dir string, ps uint32, lock uint32) (facts, error) {
	cp := core.Scratch("c16-reopen")
	defer os.RemoveAll(cp)
	if err := sim.CopyDir(dir, cp); err != nil {
		return facts{}, err
	}
	var n *sim.Node
	var err error
	if p := core.Try(func() { n, err = sim.OpenNode(sim.NodeOpts{Dir: cp, Primary: true}) }); p != nil {
		return facts{}, fmt.Errorf("panic: %s", p.Value)
	}
	if err != nil {
		return facts{}, err
	}
	defer n.Close()
	return factsOf(n, ps, lock), nil
}

func main() {
	args := core.ParseArgs()
	rep := core.NewReport("C16", "model_checking", args)
	rep.Rule = "every case (target database absent / empty / dropped / rollback / rollback with a hot journal left by a dead connection / WAL with committed frames / WAL checkpointed; image valid with rollback or WAL header, bigger, smaller, other page size, truncated, garbage, empty; DB.Import or POST /import) of ImportExport.tla realised on a real primary with a real replica; non-trivial = cases with an existing database or a non-empty input"
	rep.Assumptions = []string{"images are harness-generated SQLite-format files (valid header, arbitrary page bodies); LiteFS does not validate b-tree structure either", "one replica"}
	rep.Exhaustive = true
	defer core.Cleanup()
	core.Watchdog(120*time.Second, func(label string, since time.Duration) {
		if len(label) > 5 && label[:5] == "real:" {
			rep.Violate("C16.no-hang", "hang/"+label, map[string]any{"no_progress_for": since.String()}, nil)
			rep.Finish()
		}
		core.Infra("no progress for %s while %s", since, label)
	})
	var cases []tcase
	var mu sync.Mutex
	res, err := core.RunTLC(core.TLCOpts{Module: "ImportExport", Cfg: "MC_ImportExport.cfg", Workers: 4, Timeout: 5 * time.Minute,
		OnLine: func(tag string, payload json.RawMessage) {
			if tag != "CASE" {
				return
			}
			var c tcase
			if err := json.Unmarshal(payload, &c); err != nil {
				core.Infra("bad CASE: %v", err)
			}
			mu.Lock()
			cases = append(cases, c)
			mu.Unlock()
		}})
	if err != nil {
		core.Infra("tlc: %v", err)
	}
	if !res.OK() {
		core.Infra("model checking of ImportExport.tla failed (model problem, not a verdict): %s\n%s", res.Describe(), res.ErrorText)
	}
	rep.AddTLC("MC_ImportExport", res)
	if !args.Quick() {
		if r2, err := core.RunTLC(core.TLCOpts{Module: "ImportExport", Cfg: "MC_ImportExport_ascoded.cfg", Workers: 2, Timeout: 5 * time.Minute}); err == nil {
			rep.Extra["relevance_ascoded_violation"] = r2.Violation
		}
	}
	if len(cases) < 100 {
		core.Infra("expected >= 100 cases, got %d", len(cases))
	}
	sort.Slice(cases, func(i, j int) bool { return cases[i].key() < cases[j].key() })
	layouts := []sim.Layout{sim.L0(512), sim.L1(512), sim.L0(4096), sim.L1(1024)}
	jobs := make(chan int)
	var wg sync.WaitGroup
	rounds := core.Pick(args, 1, 3)
	for w := 0; w < 8; w++ {
		wg.Add(1)
		go func() {
			defer wg.Done()
			for i := range jobs {
				c := cases[i%len(cases)]
				l := layouts[(i+int(args.Seed))%len(layouts)]
				runCase(rep, c, l, args.Seed+int64(i))
			}
		}()
	}
	for i := 0; i < rounds*len(cases); i++ {
		jobs <- i
	}
	close(jobs)
	wg.Wait()
	rep.Sample(cases[len(cases)/2])
	exportDuringImport(rep, args.Seed)
	namedDatabases(rep)
	// failure paths (spec/Faults.tla): every call of the operation through the OS interface fails once
	faults.Run(rep, args, faults.Select{Ops: []string{"import"}, Monitors: []string{"image", "export", "restart"}})
	rep.Finish()
}

var rmu sync.Mutex

func commitJ(pg *sim.Pager, pl sim.Plan) error {
	if err := pg.BeginJ(pl); err != nil {
		return err
	}
	for _, f := range []func() error{pg.JCreate, pg.JSync} {
		if err := f(); err != nil {
			return err
		}
	}
	for _, q := range pl.M {
		if err := pg.JPage(q); err != nil {
			return err
		}
	}
	err := pg.JFinal()
	pg.EndJ()
	return err
}

func mask(b []byte) []byte {
	o := append([]byte(nil), b...)
	if len(o) >= 44 {
		copy(o[24:28], []byte{0, 0, 0, 0})
		copy(o[40:44], []byte{0, 0, 0, 0})
	}
	return o
}

func flat(im sim.Image) []byte {
	var buf bytes.Buffer
	for r := uint32(1); r <= im.N; r++ {
		buf.Write(im.Pages[r])
	}
	return buf.Bytes()
}

func runCase(rep *core.Report, c tcase, l sim.Layout, seed int64) {
	core.Beat("real:c16:" + c.key())
	defer core.Beat("harness")
	dir := core.Scratch("c16")
	defer os.RemoveAll(dir)
	cl := sim.NewCluster(dir)
	defer func() { _ = core.Try(cl.Close) }()
	cl.Lease.AllowOnly()
	n1, err := cl.Start("n1", sim.ClusterNodeOpts{Candidate: true})
	if err != nil {
		core.Infra("start n1: %v", err)
	}
	n2, err := cl.Start("n2", sim.ClusterNodeOpts{})
	if err != nil {
		core.Infra("start n2: %v", err)
	}
	if err := cl.Elect("n1", 20*time.Second); err != nil {
		core.Infra("elect: %v", err)
	}
	conn := n1.Connect("db", 51)
	pg := sim.NewPager(conn, l, sim.PagerOpts{Sector: 512, Busy: 5 * time.Second})
	wal := c.Target == "wal_frames" || c.Target == "wal_clean"
	must := func(err error, what string) {
		if err != nil {
			core.Infra("%s [%s]: %v", what, c.key(), err)
		}
	}
	switch c.Target {
	case "absent":
	case "empty":
		must(conn.OpenDB(true), "create empty")
		conn.Close()
	default:
		must(commitJ(pg, sim.Plan{Kind: "j", Ns: 2, M: []int{1, 2}, Out: "commit", Fin: "DELETE", V: 1, Wal: wal}), "tx1")
		if wal {
			pl := sim.Plan{Kind: "w", Ns: 2, M: []int{1, 2}, Out: "commit", V: 2, Wal: true}
			must(pg.BeginW(pl), "beginw")
			must(pg.WHdr(3), "whdr")
			must(pg.WFrame(1, false, false), "wframe1")
			must(pg.WFrame(2, false, true), "wframe2")
			must(pg.WEnd(), "wend")
			if c.Target == "wal_clean" {
				must(pg.Ckpt("TRUNCATE"), "ckpt")
			}
		} else {
			must(commitJ(pg, sim.Plan{Kind: "j", Ns: 2, M: []int{1}, Out: "commit", Fin: "DELETE", V: 2}), "tx2")
		}
		must(cl.WaitPos("n2", "db", n1.Store.DB("db").Pos(), 20*time.Second), "replica catch-up")
		switch c.Target {
		case "dropped":
			conn.Close()
			must(n1.Connect("db", 52).RemoveDB(), "drop")
		case "rb_open_tx":
			// a connection is in the middle of a write transaction (it commits while the import waits)
			pl := sim.Plan{Kind: "j", Ns: 2, M: []int{1, 2}, Out: "commit", Fin: "DELETE", V: 3}
			must(firstErr(func() error { return pg.BeginJ(pl) }, pg.JCreate, pg.JSync, func() error { return pg.JPage(1) }, func() error { return pg.JPage(2) }), "open transaction")
		case "rb_hot_journal":
			// an application dies in the middle of a transaction: its locks go, the hot journal stays
			pl := sim.Plan{Kind: "j", Ns: 2, M: []int{1, 2}, Out: "commit", Fin: "DELETE", V: 3}
			must(firstErr(func() error { return pg.BeginJ(pl) }, pg.JCreate, pg.JSync, func() error { return pg.JPage(1) }, func() error { return pg.JPage(2) }), "hot journal")
			conn.Close()
		}
	}
	if db := n1.Store.DB("db"); db != nil && db.Pos().TXID > 0 && c.Target != "rb_hot_journal" && c.Target != "rb_open_tx" {
		must(cl.WaitPos("n2", "db", db.Pos(), 20*time.Second), "replica catch-up")
	}
	// the committed image before the import, as a restart would see it
	before, berr := reopened(n1.Dir, l.PageSize, l.LockPgno())
	if berr != nil {
		core.Infra("cannot reopen a copy before the import: %v", berr)
	}
	hasPages := c.Target != "absent" && c.Target != "empty" && c.Target != "dropped"
	liveBefore := factsOf(n1.Node, l.PageSize, l.LockPgno())

	// ---- export of the current state equals the committed image ----
	rmu.Lock()
	defer rmu.Unlock()
	if hasPages && c.Target != "rb_hot_journal" && c.Target != "rb_open_tx" {
		rep.Eval(1)
		var buf bytes.Buffer
		pos, eerr := n1.Store.DB("db").Export(context.Background(), &buf)
		want := flat(l.ImageOf(pg.Ref))
		if eerr != nil || !bytes.Equal(buf.Bytes(), want) {
			rep.Violate("C16.export-is-current-image", "export-before/"+c.Target, map[string]any{"error": fmt.Sprint(eerr), "pos": pos.String(), "len": buf.Len(), "want_len": len(want), "case": c}, map[string]any{"case": c})
		}
	}

	// ---- the offered image ----
	rnd := rand.New(rand.NewSource(seed))
	var input []byte
	truncKind := ""
	inL := l
	switch c.Input {
	case "valid_rb":
		input = flat(l.ImageOf([]sim.Content{{V: 31, Sz: 2}, {V: 32}}))
	case "valid_wal":
		input = flat(l.ImageOf([]sim.Content{{V: 33, Sz: 2, Wal: true}, {V: 34}}))
	case "valid_bigger":
		input = flat(l.ImageOf([]sim.Content{{V: 35, Sz: 3}, {V: 36}, {V: 37}}))
	case "valid_smaller":
		input = flat(l.ImageOf([]sim.Content{{V: 38, Sz: 1}}))
	case "other_page_size":
		inL = sim.L0(2048)
		input = flat(inL.ImageOf([]sim.Content{{V: 39, Sz: 2}, {V: 40}}))
	case "truncated":
		// an image that is not all there, in one of four ways (by case number): cut inside its last page; cut
		// exactly on a page boundary (whole pages missing); nothing but the 100-byte header; complete but with a
		// header that announces zero pages
		full := flat(l.ImageOf([]sim.Content{{V: 41, Sz: 3}, {V: 42}, {V: 43}}))
		ps := int(l.PageSize)
		switch seed % 4 {
		case 0:
			input = full[:len(full)-ps/2-rnd.Intn(ps/4)]
		case 1:
			input = full[:len(full)-ps*(1+rnd.Intn(2))]
		case 2:
			input = full[:100]
		default:
			input = append([]byte(nil), full...)
			copy(input[28:32], []byte{0, 0, 0, 0})
		}
		truncKind = []string{"inside-page", "page-boundary", "header-only", "zero-page-count"}[seed%4]
	case "garbage":
		input = make([]byte, 3000+rnd.Intn(2000))
		rnd.Read(input)
	case "empty":
		input = nil
	}
	var ierr error
	writerDone := make(chan error, 1)
	if c.Target == "rb_open_tx" {
		go func() {
			time.Sleep(150 * time.Millisecond) // the import is waiting for the write lock by now
			err := pg.JFinal()
			pg.EndJ()
			writerDone <- err
		}()
	} else {
		writerDone <- nil
	}
	pn := core.Try(func() {
		if c.Iface == "http" {
			ierr = lhttp.NewClient().Import(context.Background(), n1.URL, "db", bytes.NewReader(input))
		} else {
			var db *litefs.DB
			db, ierr = n1.Store.CreateDBIfNotExists("db")
			if ierr == nil {
				ierr = db.Import(context.Background(), bytes.NewReader(input))
			}
		}
	})
	if werr := <-writerDone; werr != nil {
		core.Infra("the open transaction could not commit [%s]: %v", c.key(), werr)
	}
	rep.Case(c.key()+"/"+l.Name+fmt.Sprint(l.PageSize), hasPages || len(input) > 0)
	rep.TracesValidated++
	rep.Eval(4)
	detail := map[string]any{"case": c, "layout": fmt.Sprintf("%s/%d", l.Name, l.PageSize), "import_error": fmt.Sprint(ierr), "exits": n1.Exits(), "before": before}
	if truncKind != "" {
		detail["truncation"] = truncKind
	}
	shape := c.Target + "/" + c.Input
	if pn != nil {
		detail["panic"] = pn.Value
		rep.Violate("C16.no-panic", "panic/"+shape, detail, map[string]any{"case": c})
		return
	}
	if ierr == nil {
		// ---- success: one new transaction, export returns the imported bytes, the replica follows ----
		db := n1.Store.DB("db")
		var buf bytes.Buffer
		_, eerr := db.Export(context.Background(), &buf)
		if c.Iface == "http" {
			buf.Reset()
			var rc io.ReadCloser
			rc, eerr = lhttp.NewClient().Export(context.Background(), n1.URL, "db")
			if eerr == nil {
				_, eerr = io.Copy(&buf, rc)
				_ = rc.Close()
			}
		}
		if eerr != nil || !bytes.Equal(mask(buf.Bytes()), mask(input)) {
			detail["export_error"] = fmt.Sprint(eerr)
			detail["export_len"], detail["input_len"] = buf.Len(), len(input)
			rep.Violate("C16.export-after-import", "export-differs/"+shape, detail, map[string]any{"case": c})
			return
		}
		after := factsOf(n1.Node, inL.PageSize, inL.LockPgno())
		detail["after"] = after
		var bt, at uint64
		fmt.Sscanf(before.Pos, "%x/", &bt)
		fmt.Sscanf(after.Pos, "%x/", &at)
		if c.Target == "rb_open_tx" {
			bt++ // the transaction that was open committed first
		}
		if at != bt+1 {
			rep.Violate("C16.one-new-transaction", "txid-delta/"+shape, detail, map[string]any{"case": c})
		}
		// C04 on imports: the checksum of the new position is the from-scratch checksum of the bytes on disk
		rep.Eval(1)
		if im, ierr2 := sim.StableDiskImage(n1.DBDir("db"), inL.PageSize); ierr2 == nil {
			if got := im.Checksum(inL.LockPgno()); got != uint64(db.Pos().PostApplyChecksum) {
				detail["from_scratch"] = fmt.Sprintf("%016x", got)
				rep.Violate("C16.position-checksum-is-image", "checksum-after-import/"+shape, detail, map[string]any{"case": c})
			}
		}
		// C09 on imports: the log stays one verified chain ending at the new position (primary and replica)
		rep.Eval(1)
		if probs := sim.ChainProblems(n1.DBDir("db"), uint64(db.Pos().TXID), uint64(db.Pos().PostApplyChecksum)); len(probs) > 0 {
			detail["chain_problems"] = probs
			rep.Violate("C16.log-is-one-chain", "chain-after-import/"+shape, detail, map[string]any{"case": c})
		}
		if werr := cl.WaitPos("n2", "db", db.Pos(), 30*time.Second); werr != nil {
			detail["replica"] = werr.Error()
			rep.Violate("C16.replicas-reach-identical-image", "replica-behind/"+shape, detail, map[string]any{"case": c})
			return
		}
		rf := factsOf(n2.Node, inL.PageSize, inL.LockPgno())
		if rf.Image != after.Image || len(n2.Exits()) > 0 {
			detail["replica"] = rf
			rep.Violate("C16.replicas-reach-identical-image", "replica-differs/"+shape, detail, map[string]any{"case": c})
		}
		if c.Result != "ok" {
			rep.Nonconf("%s: model predicts %s, real import succeeded", c.key(), c.Result)
		}
		// ---- the import stays what a later recovery / restart sees: nothing of the replaced database
		// (a pending journal, WAL frames) may come back ----
		rep.Eval(2)
		var rerr error
		if pn := core.Try(func() { rerr = n1.Store.Recover(context.Background()) }); pn != nil || rerr != nil {
			detail["recover_error"], detail["recover_panic"] = fmt.Sprint(rerr), fmt.Sprint(pn)
			rep.Violate("C16.import-survives-recovery", "recover-fails/"+shape, detail, map[string]any{"case": c})
			return
		}
		var buf2 bytes.Buffer
		if _, eerr := db.Export(context.Background(), &buf2); eerr != nil || !bytes.Equal(mask(buf2.Bytes()), mask(input)) {
			detail["export_after_recover_error"] = fmt.Sprint(eerr)
			detail["export_len"], detail["input_len"] = buf2.Len(), len(input)
			rep.Violate("C16.import-survives-recovery", "export-differs-after-recover/"+shape, detail, map[string]any{"case": c})
			return
		}
		if re, rerr := reopened(n1.Dir, inL.PageSize, inL.LockPgno()); rerr != nil {
			detail["restart_error"] = rerr.Error()
			rep.Violate("C16.import-survives-recovery", "restart-fails-after-import/"+shape, detail, map[string]any{"case": c})
		} else if re.Image != after.Image || re.Pos != after.Pos {
			detail["after_restart"] = re
			rep.Violate("C16.import-survives-recovery", "restart-differs-after-import/"+shape, detail, map[string]any{"case": c})
		}
		return
	}
	// ---- failure: nothing changed, node not stopped, restart possible ----
	if len(n1.Exits()) > 0 {
		rep.Violate("C16.failed-import-does-not-stop-node", "exit/"+shape, detail, map[string]any{"case": c})
	}
	after, aerr := reopened(n1.Dir, l.PageSize, l.LockPgno())
	if aerr != nil {
		detail["restart_error"] = aerr.Error()
		rep.Violate("C16.failed-import-allows-restart", "restart-fails/"+shape, detail, map[string]any{"case": c})
		return
	}
	detail["after"] = after
	if after != before {
		rep.Violate("C16.failed-import-changes-nothing", "changed/"+shape, detail, map[string]any{"case": c})
	} else if liveAfter := factsOf(n1.Node, l.PageSize, l.LockPgno()); liveAfter != liveBefore && len(n1.Exits()) == 0 {
		// the running node (no restart in between) must not have changed either
		detail["live_before"], detail["live_after"] = liveBefore, liveAfter
		rep.Violate("C16.failed-import-changes-nothing", "changed-live/"+shape, detail, map[string]any{"case": c})
	}
	if db := n1.Store.DB("db"); db != nil && len(n1.Exits()) == 0 {
		rep.Eval(1)
		if probs := sim.ChainProblems(n1.DBDir("db"), uint64(db.Pos().TXID), uint64(db.Pos().PostApplyChecksum)); len(probs) > 0 {
			detail["chain_problems"] = probs
			rep.Violate("C16.log-is-one-chain", "chain-after-failed-import/"+shape, detail, map[string]any{"case": c})
		}
	}
	if c.Result != "error" {
		rep.Nonconf("%s: model predicts %s, real import failed: %v", c.key(), c.Result, ierr)
	}
}

func firstErr(fs ...func() error) error {
	for _, f := range fs {
		if err := f(); err != nil {
			return err
		}
	}
	return nil
}
