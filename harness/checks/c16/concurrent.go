package main

import (
	"bytes"
	"context"
	"encoding/json"
	"fmt"
	"io"
	"net/http"
	"path/filepath"
	"time"

	"github.com/superfly/litefs"
	lhttp "github.com/superfly/litefs/http"
	"github.com/superfly/litefs/verifharness/core"
	"github.com/superfly/litefs/verifharness/sim"
)

// exportDuringImport: GET /export arrives while POST /import of an image of another size holds the write
// lock with its body still on the way. The export is answered only when the import is over, and what it
// returns is exactly one committed image (ImportExport.tla: Export returns the current image; the two
// operations are serialised by the write lock): the image after the import, or the one before it - never a
// prefix or a mixture, and never a truncated body that looks complete.
func exportDuringImport(rep *core.Report, seed int64) {
	for _, sh := range []struct {
		name         string
		before, into []sim.Content
	}{
		{"grow-2-to-6", []sim.Content{{V: 61, Sz: 2}, {V: 62}}, []sim.Content{{V: 71, Sz: 6}, {V: 72}, {V: 73}, {V: 74}, {V: 75}, {V: 76}}},
		{"shrink-5-to-2", []sim.Content{{V: 63, Sz: 5}, {V: 64}, {V: 65}, {V: 66}, {V: 67}}, []sim.Content{{V: 77, Sz: 2}, {V: 78}}},
		{"same-3", []sim.Content{{V: 68, Sz: 3}, {V: 69}, {V: 70}}, []sim.Content{{V: 79, Sz: 3}, {V: 80}, {V: 81}}},
	} {
		for _, l := range []sim.Layout{sim.L0(512), sim.L0(4096)} {
			core.Beat("real:c16:export-during-import/" + sh.name)
			dir := core.Scratch("c16x")
			cl := sim.NewCluster(dir)
			cl.Lease.AllowOnly()
			n1, err := cl.Start("n1", sim.ClusterNodeOpts{Candidate: true})
			if err != nil {
				core.Infra("start n1: %v", err)
			}
			if err := cl.Elect("n1", 20*time.Second); err != nil {
				core.Infra("elect: %v", err)
			}
			imgBefore, imgAfter := flat(l.ImageOf(sh.before)), flat(l.ImageOf(sh.into))
			if err := lhttp.NewClient().Import(context.Background(), n1.URL, "db", bytes.NewReader(imgBefore)); err != nil {
				core.Infra("first import: %v", err)
			}
			db := n1.Store.DB("db")
			pr, pw := io.Pipe()
			impDone := make(chan error, 1)
			go func() { impDone <- lhttp.NewClient().Import(context.Background(), n1.URL, "db", pr) }()
			_, _ = pw.Write(imgAfter[:len(imgAfter)/2])
			// wait until the import holds the write lock
			held := false
			for t0 := time.Now(); time.Since(t0) < 20*time.Second && !held; time.Sleep(time.Millisecond) {
				held = writeLockHeld(n1.Store, "db")
			}
			if !held {
				core.Infra("the import never took the write lock")
			}
			type expRes struct {
				body []byte
				err  error
				at   time.Time
			}
			expDone := make(chan expRes, 1)
			go func() {
				var r expRes
				var rc io.ReadCloser
				rc, r.err = lhttp.NewClient().Export(context.Background(), n1.URL, "db")
				if r.err == nil {
					r.body, r.err = io.ReadAll(rc)
					_ = rc.Close()
				}
				r.at = time.Now()
				expDone <- r
			}()
			// give the export time to reach the lock, then let the import finish
			time.Sleep(40 * time.Millisecond)
			finished := time.Now()
			_, _ = pw.Write(imgAfter[len(imgAfter)/2:])
			_ = pw.Close()
			ierr := <-impDone
			var er expRes
			select {
			case er = <-expDone:
			case <-time.After(60 * time.Second):
				rep.Violate("C16.no-hang", "export-during-import/hang/"+sh.name, map[string]any{"layout": l.Name}, nil)
				_ = core.Try(cl.Close)
				continue
			}
			core.Beat("harness")
			rep.Case("export-during-import/"+sh.name+"/"+l.Name+fmt.Sprint(l.PageSize), true)
			rep.TracesValidated++
			rep.Eval(2)
			detail := map[string]any{"shape": sh.name, "layout": fmt.Sprintf("%s/%d", l.Name, l.PageSize), "import_error": fmt.Sprint(ierr), "export_error": fmt.Sprint(er.err),
				"export_bytes": len(er.body), "bytes_before": len(imgBefore), "bytes_after": len(imgAfter), "export_answered_before_import_finished": er.at.Before(finished), "position": db.Pos().String()}
			switch {
			case ierr != nil:
				core.Infra("second import failed: %v", ierr)
			case er.err != nil:
				// an error is an honest answer (nothing was handed out as an image)
			case bytes.Equal(mask(er.body), mask(imgAfter)), bytes.Equal(mask(er.body), mask(imgBefore)):
			default:
				rep.Violate("C16.export-returns-a-committed-image", "export-during-import/neither-before-nor-after/"+sh.name, detail, map[string]any{"concurrent": sh.name})
			}
			_ = core.Try(cl.Close)
		}
	}
}

func writeLockHeld(s *litefs.Store, name string) bool {
	var v struct {
		DBs map[string]struct {
			Locks struct {
				Pending string `json:"pending"`
			} `json:"locks"`
		} `json:"dbs"`
	}
	if err := json.Unmarshal([]byte(s.Expvar().String()), &v); err != nil {
		return false
	}
	return v.DBs[name].Locks.Pending == "exclusive"
}

var _ = filepath.Join
var _ = http.StatusOK

// namedDatabases: import and export address a database by NAME; names may contain characters that mean
// something in a URL query ('+', '&', '=', ' ', '#', '%'). Each name gets its own image through the real client and
// server; afterwards the node holds exactly those databases and every export returns the image imported under
// that name.
func namedDatabases(rep *core.Report) {
	core.Beat("real:c16:named-databases")
	dir := core.Scratch("c16n")
	cl := sim.NewCluster(dir)
	defer func() { _ = core.Try(cl.Close) }()
	cl.Lease.AllowOnly()
	n1, err := cl.Start("n1", sim.ClusterNodeOpts{Candidate: true})
	if err != nil {
		core.Infra("start n1: %v", err)
	}
	if err := cl.Elect("n1", 20*time.Second); err != nil {
		core.Infra("elect: %v", err)
	}
	l := sim.L0(1024)
	names := []string{"sales", "sales&2024.db", "orders+archive.db", "a b.db", "k=v.db", "100%.db", "hash#1.db", "ünï.db"}
	want := map[string][]byte{}
	for round := 0; round < 2; round++ {
		for i, name := range names {
			img := flat(l.ImageOf([]sim.Content{{V: 100*round + 2*i + 1, Sz: 2}, {V: 100*round + 2*i + 2}}))
			if err := lhttp.NewClient().Import(context.Background(), n1.URL, name, bytes.NewReader(img)); err != nil {
				rep.Nonconf("named databases: import %q: %v", name, err)
				continue
			}
			want[name] = img
		}
	}
	rep.TracesValidated++
	rep.Case("named-databases", true)
	have := map[string]bool{}
	for _, db := range n1.Store.DBs() {
		have[db.Name()] = true
	}
	var problems []string
	for name, img := range want {
		rep.Eval(2)
		if !have[name] {
			problems = append(problems, fmt.Sprintf("database %q does not exist after its import", name))
		}
		rc, eerr := lhttp.NewClient().Export(context.Background(), n1.URL, name)
		var got []byte
		if eerr == nil {
			got, eerr = io.ReadAll(rc)
			_ = rc.Close()
		}
		if eerr != nil || !bytes.Equal(mask(got), mask(img)) {
			problems = append(problems, fmt.Sprintf("export of %q: error %v, %d bytes, imported %d bytes, equal=%v", name, eerr, len(got), len(img), bytes.Equal(mask(got), mask(img))))
		}
	}
	for name := range have {
		if _, ok := want[name]; !ok {
			problems = append(problems, fmt.Sprintf("database %q exists although nothing was imported under that name", name))
		}
	}
	if len(problems) > 0 {
		rep.Violate("C16.import-replaces-the-named-database", "named-databases", map[string]any{"problems": problems}, map[string]any{"named_databases": true})
	}
}
