// Check C07: a node without write authority cannot change a replicated database.
//
// Authority.tla enumerates (journal mode, pager-protocol state, WAL content, how authority was lost,
// operation). Every edge is realised on real stores: the protocol state is built with the byte-level
// pager while the node is primary, authority is withdrawn through the lease service (or the node is
// a replica from the start), the operation is issued as one FUSE request and the monitors compare
// logical image, position and log before and after.
package main

import (
	"bytes"
	"context"
	"encoding/json"
	"fmt"
	"os"
	"path/filepath"
	"sort"
	"strings"
	"sync"
	"syscall"
	"time"

	"bazil.org/fuse"
	"github.com/superfly/litefs"
	lhttp "github.com/superfly/litefs/http"
	"github.com/superfly/litefs/verifharness/core"
	"github.com/superfly/litefs/verifharness/sim"
)

type edge struct {
	Mode string   `json:"mode"`
	PS   string   `json:"ps"`
	WalC bool     `json:"walc"`
	Role string   `json:"role"`
	Path []string `json:"path"`
	Op   string   `json:"op"`
	Res  string   `json:"res"`
}

func (e edge) key() string {
	role := e.Role
	switch role {
	case "exholder_rl":
		role = "exholder(release-answer-lost)"
	case "exholder_af":
		role = "exholder(acquisition-failed)"
	}
	return fmt.Sprintf("%s/%s/walc=%v/%s/%s", e.Mode, e.PS, e.WalC, role, e.Op)
}

type facts struct {
	Pos   string
	Image string
	Files string
}

func factsOf(n *sim.Node, l sim.Layout) facts { return factsUpTo(n, l, -1) }

// factsUpTo reads position, image and log until two consecutive readings agree: LiteFS's own
// checkpoint after a role change runs on another goroutine, and a reading that overlaps it (database
// file read before, WAL read after the checkpoint) is the harness's tear, not a change of the image.
func factsUpTo(n *sim.Node, l sim.Layout, maxFrames int) facts {
	prev := factsOnce(n, l, maxFrames)
	for i := 0; i < 200; i++ {
		time.Sleep(2 * time.Millisecond)
		cur := factsOnce(n, l, maxFrames)
		if cur == prev {
			return cur
		}
		prev = cur
	}
	return prev
}

func factsOnce(n *sim.Node, l sim.Layout, maxFrames int) facts {
	var f facts
	if db := n.Store.DB("db"); db != nil {
		f.Pos = db.Pos().String()
	}
	im, _ := sim.DiskImageUpTo(n.DBDir("db"), l.PageSize, maxFrames)
	f.Image = fmt.Sprintf("%d:%016x", im.N, im.Checksum(l.LockPgno()))
	ents, _ := os.ReadDir(filepath.Join(n.DBDir("db"), "ltx"))
	var names []string
	for _, e := range ents {
		if fi, err := e.Info(); err == nil && filepath.Ext(e.Name()) == ".ltx" { // *.tmp are not transactions
			names = append(names, fmt.Sprintf("%s:%d", e.Name(), fi.Size()))
		}
	}
	sort.Strings(names)
	f.Files = fmt.Sprint(names)
	return f
}

func main() {
	args := core.ParseArgs()
	rep := core.NewReport("C07", "model_checking", args)
	rep.Rule = "every edge (journal mode, pager-protocol state, WAL holding committed frames or not, authority lost by demotion mid-protocol or replica from the start, operation kind) of Authority.tla realised on real stores; non-trivial = edges whose operation targets an existing file or an open transaction (i.e. not a no-op by absence)"
	rep.Assumptions = []string{"authority is withdrawn through an in-memory lease service (Store.Demote + no re-election); the halt-lock holder variant belongs to C13", "SQLite's connection is the byte-level pager of the harness"}
	rep.Exhaustive = true
	defer core.Cleanup()
	core.Watchdog(120*time.Second, func(label string, since time.Duration) {
		if len(label) > 5 && label[:5] == "real:" {
			rep.Violate("C07.no-hang", "hang/"+label, map[string]any{"no_progress_for": since.String()}, nil)
			rep.Finish()
		}
		core.Infra("no progress for %s while %s", since, label)
	})

	var edges []edge
	seen := map[string]bool{}
	var mu sync.Mutex
	res, err := core.RunTLC(core.TLCOpts{Module: "Authority", Cfg: "MC_Authority.cfg", Workers: 4, Timeout: 5 * time.Minute,
		OnLine: func(tag string, payload json.RawMessage) {
			if tag != "EDGE" {
				return
			}
			var e edge
			if err := json.Unmarshal(payload, &e); err != nil {
				core.Infra("bad EDGE: %v", err)
			}
			mu.Lock()
			if !seen[e.key()] {
				seen[e.key()] = true
				edges = append(edges, e)
			}
			mu.Unlock()
		}})
	if err != nil {
		core.Infra("tlc: %v", err)
	}
	if !res.OK() {
		core.Infra("model checking of Authority.tla failed (model problem, not a verdict): %s\n%s", res.Describe(), res.ErrorText)
	}
	rep.AddTLC("MC_Authority", res)
	// relevance: the guard table as coded lets a WAL truncate through (evidence, not a verdict)
	if !args.Quick() {
		r2, err := core.RunTLC(core.TLCOpts{Module: "Authority", Cfg: "MC_Authority_ascoded.cfg", Workers: 2, Timeout: 5 * time.Minute})
		if err == nil {
			rep.Extra["relevance_ascoded_violation"] = r2.Violation
		}
	}
	if len(edges) < 100 {
		core.Infra("expected >= 100 distinct edges, got %d", len(edges))
	}
	sort.Slice(edges, func(i, j int) bool { return edges[i].key() < edges[j].key() })

	layouts := []sim.Layout{sim.L0(512), sim.L1(512), sim.L0(4096), sim.L1(1024)}
	if !args.Quick() {
		layouts = append(layouts, sim.L0(1024), sim.L0(65536))
	}
	type job struct {
		i int
		e edge
	}
	jobs := make(chan job)
	var wg sync.WaitGroup
	rounds := core.Pick(args, 1, 3)
	for w := 0; w < 8; w++ {
		wg.Add(1)
		go func() {
			defer wg.Done()
			for j := range jobs {
				l := layouts[(j.i+int(args.Seed))%len(layouts)]
				runEdge(rep, j.e, l)
			}
		}()
	}
	n := 0
	for r := 0; r < rounds; r++ {
		for _, e := range edges {
			jobs <- job{n, e}
			n++
		}
	}
	close(jobs)
	wg.Wait()
	rep.Sample(edges[len(edges)/3])
	rep.Finish()
}

var rmu sync.Mutex

func violate(rep *core.Report, mon, sig string, detail map[string]any, e edge, l sim.Layout) {
	detail["edge"] = e
	detail["layout"] = fmt.Sprintf("%s/%d", l.Name, l.PageSize)
	rep.Violate(mon, sig, detail, map[string]any{"edge": e, "page_size": l.PageSize, "layout": l.Name})
}

func commitJ(pg *sim.Pager, pl sim.Plan) error {
	if err := pg.BeginJ(pl); err != nil {
		return err
	}
	for _, f := range []func() error{pg.JCreate, pg.JSync} {
		if err := f(); err != nil {
			return err
		}
	}
	for _, q := range pl.M {
		if err := pg.JPage(q); err != nil {
			return err
		}
	}
	err := pg.JFinal()
	pg.EndJ()
	return err
}

func commitW(pg *sim.Pager, pl sim.Plan, salt int) error {
	if err := pg.BeginW(pl); err != nil {
		return err
	}
	if !pg.HasHdr() {
		if err := pg.WHdr(salt); err != nil {
			return err
		}
	}
	for i, q := range pl.M {
		if err := pg.WFrame(q, false, i == len(pl.M)-1); err != nil {
			return err
		}
	}
	return pg.WEnd()
}

func runEdge(rep *core.Report, e edge, l sim.Layout) {
	core.Beat("real:c07:" + e.key())
	defer core.Beat("harness")
	dir := core.Scratch("c07")
	defer os.RemoveAll(dir)
	cl := sim.NewCluster(dir)
	defer func() { _ = core.Try(cl.Close) }()
	cl.Lease.AllowOnly()
	// Store.Exit ends the process in real life: what a restart finds is the directory at that moment
	exitCopy := filepath.Join(dir, "at-exit")
	var exitOnce sync.Once
	n1, err := cl.Start("n1", sim.ClusterNodeOpts{Candidate: true, Configure: func(s *litefs.Store) {
		old := s.Exit
		s.Exit = func(code int) {
			exitOnce.Do(func() { _ = sim.CopyDir(filepath.Join(dir, "n1"), exitCopy) })
			old(code)
		}
	}})
	if err != nil {
		core.Infra("start n1: %v", err)
	}
	if err := cl.Elect("n1", 20*time.Second); err != nil {
		core.Infra("elect: %v", err)
	}
	conn := n1.Connect("db", 41)
	pg := sim.NewPager(conn, l, sim.PagerOpts{Sector: 512, Busy: 5 * time.Second})
	// the database exists with one committed transaction (position 1) ...
	if err := commitJ(pg, sim.Plan{Kind: "j", Ns: 2, M: []int{1, 2}, Out: "commit", Fin: "DELETE", V: 1, Wal: e.Mode == "wal"}); err != nil {
		core.Infra("create database: %v", err)
	}
	// ... and, if the model says so, a WAL holding a committed, captured transaction (position 2)
	if e.WalC {
		if err := commitW(pg, sim.Plan{Kind: "w", Ns: 2, M: []int{1, 2}, Out: "commit", V: 2, Wal: true}, 5); err != nil {
			core.Infra("wal commit: %v", err)
		}
	} else if e.Mode == "rb" && len(e.Path) > 5 {
		if err := commitJ(pg, sim.Plan{Kind: "j", Ns: 2, M: []int{1}, Out: "commit", Fin: "DELETE", V: 2}); err != nil {
			core.Infra("second commit: %v", err)
		}
	}
	t0 := factsOf(n1.Node, l) // committed state before the open transaction
	victim := n1
	vconn, vpg := conn, pg
	// the attempted operation (run after the role change, or - role "destroying" - from inside it)
	var db *litefs.DB
	var before facts
	var operr error
	var pn *core.Panic
	applicable := true
	limit := -1
	ranAtDestroy := false
	ps := int64(l.PageSize)
	runOp := func() {
		db = victim.Store.DB("db")
		// the image at the node's position: frames of a complete but uncaptured transaction do not count
		if e.Role != "replica" && !strings.HasPrefix(e.Role, "exholder") {
			limit = pg.CommittedFrames()
		}
		before = factsUpTo(victim.Node, l, limit)
		pn = core.Try(func() {
			switch e.Op {
			case "DBWrite":
				operr = vconn.WriteDB(0, l.PageBytes(1, sim.Content{V: 77, Sz: 2, Wal: e.Mode == "wal"}))
			case "DBWriteCkpt":
				// a checkpointer's page write: WAL_CKPT_LOCK (byte 121 of the -shm file) held exclusively first
				_ = vconn.OpenSHM()
				if operr = vconn.LockSHM(fuse.LockWrite, 121, 121); operr == nil {
					operr = vconn.WriteDB(0, l.PageBytes(1, sim.Content{V: 78, Sz: 2, Wal: true}))
					_ = vconn.LockSHM(fuse.LockUnlock, 121, 121)
				}
			case "DBTruncate":
				sz, _ := vconn.DBSize()
				operr = vconn.TruncateDB(sz)
			case "DBShrink":
				sz, _ := vconn.DBSize()
				operr = vconn.TruncateDB(sz - int64(l.PageSize))
				if operr != nil {
					operr = vconn.TruncateDB(0) // also open(O_TRUNC)
				}
			case "DBRemove":
				c2 := victim.Connect("db", 43)
				operr = c2.RemoveDB()
			case "DBRemoveRace":
				// the unlink starts on the primary; when Drop creates its transaction file the lease is lost
				n1.OS.Before = func(ev sim.OSEvent) error {
					if ev.Label == "DROP:LTX" && ev.Call == "Create" {
						cl.Lease.AllowOnly()
						n1.Store.Demote()
						for t0 := time.Now(); n1.Store.IsPrimary() && time.Since(t0) < 10*time.Second; {
							time.Sleep(200 * time.Microsecond)
						}
					}
					return nil
				}
				c2 := victim.Connect("db", 43)
				operr = c2.RemoveDB()
				n1.OS.Before = nil
				if n1.Store.IsPrimary() {
					core.Infra("the drop did not reach the point at which authority is withdrawn")
				}
			case "JCreate":
				if vconn.JournalExists() {
					applicable = false
					return
				}
				operr = vconn.OpenJournal()
			case "JWrite":
				if operr = vconn.OpenJournal(); operr == nil {
					operr = vconn.WriteJournal(512, []byte{0, 0, 0, 1})
				}
			case "JZeroHeader":
				if operr = vconn.OpenJournal(); operr == nil {
					operr = vconn.WriteJournal(0, make([]byte, 28))
				}
			case "JTruncate":
				if operr = vconn.OpenJournal(); operr == nil {
					operr = vconn.TruncateJournal(0)
				}
			case "JRemove":
				operr = vconn.RemoveJournal()
			case "WCreate":
				operr = vconn.OpenWAL()
			case "WHeader":
				if operr = vconn.OpenWAL(); operr == nil {
					h := make([]byte, 32)
					copy(h, []byte{0x37, 0x7f, 0x06, 0x82})
					operr = vconn.WriteWAL(0, h)
				}
			case "WFrame":
				if operr = vconn.OpenWAL(); operr == nil {
					operr = vconn.WriteWAL(32+3*(24+ps), make([]byte, 24))
				}
			case "WTruncate":
				if operr = vconn.OpenWAL(); operr == nil {
					operr = vconn.TruncateWAL(0)
				}
			case "WRemove":
				if operr = vconn.OpenWAL(); operr == nil {
					operr = vconn.RemoveWAL()
				}
			case "WUnlockWrite":
				operr = vconn.LockSHM(fuse.LockUnlock, 120, 120)
			case "ImportRace":
				// the request arrives on the primary and waits for the write lock the open transaction holds;
				// the lease is lost while it waits
				im := l.ImageOf([]sim.Content{{V: 56, Sz: 1, Wal: false}})
				done := make(chan error, 1)
				go func() {
					done <- lhttp.NewClient().Import(context.Background(), n1.URL, "db", bytes.NewReader(im.Pages[1]))
				}()
				time.Sleep(100 * time.Millisecond)
				cl.Lease.AllowOnly()
				n1.Store.Demote()
				for t0 := time.Now(); n1.Store.IsPrimary() && time.Since(t0) < 10*time.Second; {
					time.Sleep(200 * time.Microsecond)
				}
				select {
				case operr = <-done:
				case <-time.After(20 * time.Second):
					operr = nil
					violate(rep, "C07.no-hang", "import-still-waiting-after-demotion", map[string]any{}, e, l)
				}
			case "Import":
				im := l.ImageOf([]sim.Content{{V: 55, Sz: 1, Wal: false}})
				operr = db.Import(sim.Ctx(), bytes.NewReader(im.Pages[1]))
			default:
				core.Infra("unknown op %s", e.Op)
			}
		})
	}
	if e.Role == "replica" || strings.HasPrefix(e.Role, "exholder") {
		n2, err := cl.Start("n2", sim.ClusterNodeOpts{Candidate: false})
		if err != nil {
			core.Infra("start n2: %v", err)
		}
		if err := cl.WaitPos("n2", "db", n1.Store.DB("db").Pos(), 20*time.Second); err != nil {
			core.Infra("replica did not catch up: %v", err)
		}
		victim = n2
		vconn = n2.Connect("db", 42)
		vpg = sim.NewPager(vconn, l, sim.PagerOpts{Sector: 512})
		if err := vconn.OpenDB(false); err != nil {
			core.Infra("open db on replica: %v", err)
		}
		if e.Mode == "wal" {
			_ = vconn.OpenSHM()
		}
		if strings.HasPrefix(e.Role, "exholder") {
			// the replica is granted the halt lock (it is writable now), the lock ends on the primary the
			// way an expiry ends it, the primary commits, and that transaction reaches the former holder
			vdb := n2.Store.DB("db")
			if inPath(e.Path, "acquirefailed") {
				// the replica lags (its stream delivers nothing for a while) when it asks for the lock: the primary grants
				// it, the replica does not reach the lock's position in time, the acquisition fails
				n2.Client.Hold()
				defer n2.Client.Resume() // (a held stream would keep the node from closing)
				if e.Mode == "wal" {
					err = commitW(pg, sim.Plan{Kind: "w", Ns: 2, M: []int{1}, Out: "commit", V: 8, Wal: true}, 6)
				} else {
					err = commitJ(pg, sim.Plan{Kind: "j", Ns: 2, M: []int{1}, Out: "commit", Fin: "DELETE", V: 8})
				}
				if err != nil {
					core.Infra("primary commit before the failing acquisition: %v", err)
				}
				n2.Store.HaltAcquireTimeout = 300 * time.Millisecond
				actx, acancel := context.WithTimeout(context.Background(), 10*time.Second)
				_, aerr := vdb.AcquireRemoteHaltLock(actx, 434343)
				acancel()
				if aerr == nil {
					core.Infra("the acquisition of a lagging replica succeeded")
				}
				if n1.Store.DB("db").InWriteTx() {
					core.Infra("the primary still holds the halt lock after the failed acquisition: %v", aerr)
				}
				if vdb.Writeable() {
					violate(rep, "C07.authority-ends-with-halt-lock", "failed-acquirer-writable", map[string]any{
						"remote_halt_lock": vdb.RemoteHaltLock(), "position": vdb.Pos().String(), "acquire_error": sim.ErrString(aerr),
						"what": "the acquisition of the halt lock failed (the replica did not reach the lock's position in time) and the lock was given back to the primary; the replica counts itself writable"}, e, l)
				}
			}
			if !inPath(e.Path, "acquirefailed") {
				ctx, cancel := context.WithTimeout(context.Background(), 20*time.Second)
				hl, err := vdb.AcquireRemoteHaltLock(ctx, 424242)
				cancel()
				if err != nil {
					core.Infra("acquire halt lock on the replica: %v", err)
				}
				if !vdb.Writeable() {
					core.Infra("halt lock holder is not writable")
				}
				if inPath(e.Path, "releaselost") {
					// the holder gives the lock back; the primary executes the release, the answer is lost
					n2.Client.LoseReleaseAnswer.Store(true)
					rctx, rcancel := context.WithTimeout(context.Background(), 10*time.Second)
					_ = vdb.ReleaseRemoteHaltLock(rctx, hl.ID)
					rcancel()
					if n1.Store.DB("db").InWriteTx() {
						core.Infra("the primary did not execute the release")
					}
					if vdb.Writeable() {
						violate(rep, "C07.authority-ends-with-halt-lock", "former-holder-still-writable/release-answer-lost", map[string]any{
							"remote_halt_lock": vdb.RemoteHaltLock(), "position": vdb.Pos().String(), "what": "the primary has released the halt lock (the answer to the holder's release was lost); the former holder still counts itself writable"}, e, l)
					}
					goto released
				}
				n1.Store.DB("db").ReleaseHaltLock(context.Background(), hl.ID)
				if e.Mode == "wal" {
					err = commitW(pg, sim.Plan{Kind: "w", Ns: 2, M: []int{1}, Out: "commit", V: 8, Wal: true}, 6)
				} else {
					err = commitJ(pg, sim.Plan{Kind: "j", Ns: 2, M: []int{1}, Out: "commit", Fin: "DELETE", V: 8})
				}
				if err != nil {
					core.Infra("primary commit after the halt lock ended: %v", err)
				}
				if err := cl.WaitPos("n2", "db", n1.Store.DB("db").Pos(), 20*time.Second); err != nil {
					core.Infra("former holder did not receive the primary's transaction: %v", err)
				}
				if vdb.Writeable() {
					violate(rep, "C07.authority-ends-with-halt-lock", "former-holder-still-writable", map[string]any{
						"remote_halt_lock": vdb.RemoteHaltLock(), "position": vdb.Pos().String()}, e, l)
					return
				}
			released:
			}
		}
	} else {
		// advance the open transaction to the protocol state, then withdraw authority
		pl := sim.Plan{Kind: "j", Ns: 2, M: []int{1, 2}, Out: "commit", Fin: "DELETE", V: 7}
		var err error
		switch e.PS {
		case "idle":
			if e.Mode == "wal" {
				_ = conn.OpenSHM()
			}
		case "j_created":
			err = firstErr(func() error { return pg.BeginJ(pl) }, pg.JCreate)
		case "j_synced":
			err = firstErr(func() error { return pg.BeginJ(pl) }, pg.JCreate, pg.JSync)
		case "page_written":
			err = firstErr(func() error { return pg.BeginJ(pl) }, pg.JCreate, pg.JSync, func() error { return pg.JPage(1) })
		case "w_locked", "frame_partial", "frame_commit":
			pl.Kind, pl.Wal = "w", true
			err = pg.BeginW(pl)
			if err == nil && !pg.HasHdr() {
				err = pg.WHdr(9)
			}
			if err == nil && e.PS != "w_locked" {
				err = pg.WFrame(1, false, false)
			}
			if err == nil && e.PS == "frame_commit" {
				err = pg.WFrame(2, false, true)
			}
		}
		if err != nil {
			core.Infra("advance to %s: %v", e.PS, err)
		}
		if e.Op == "DBRemoveRace" || e.Op == "ImportRace" {
			goto demoted // authority is withdrawn in the middle of the operation instead
		}
		cl.Lease.AllowOnly()
		if e.Role == "destroying" {
			// the operation is attempted at the moment the lease service sees the lease go away
			// (inside Lease.Close(), called by the node on its way out of the primary role)
			opDone := make(chan struct{})
			var once sync.Once
			cl.Lease.Log = func(ev, node, detail string) {
				if ev == "close" {
					once.Do(func() { runOp(); close(opDone) })
				}
			}
			n1.Store.Demote()
			select {
			case <-opDone:
			case <-time.After(30 * time.Second):
				core.Infra("the demoted node did not destroy its lease")
			}
			ranAtDestroy = true
		} else {
			n1.Store.Demote()
		}
		deadline := time.Now().Add(20 * time.Second)
		for n1.Store.IsPrimary() {
			if time.Now().After(deadline) {
				violate(rep, "C07.demotion-takes-effect", "still-primary", map[string]any{}, e, l)
				return
			}
			time.Sleep(200 * time.Microsecond)
		}
	}
demoted:
	db = victim.Store.DB("db")
	if !ranAtDestroy && (db == nil || (db.Writeable() && e.Op != "DBRemoveRace" && e.Op != "ImportRace")) {
		core.Infra("victim is still writable")
	}
	if !ranAtDestroy {
		runOp()
	}
	_ = vpg
	rmu.Lock()
	defer rmu.Unlock()
	exits := victim.Exits()
	nontrivial := applicable
	rep.Case(e.key()+"/"+l.Name+fmt.Sprint(l.PageSize), nontrivial)
	rep.TracesValidated++
	if !applicable {
		return
	}
	rep.Eval(3)
	detail := map[string]any{"error": sim.ErrString(operr), "before": before, "exits": exits}
	if pn != nil {
		detail["panic"] = pn.Value
		violate(rep, "C07.no-panic", "panic/"+e.Op, detail, e, l)
		return
	}
	after := factsUpTo(victim.Node, l, limit)
	detail["after"] = after
	if len(exits) > 0 {
		// the node stopped itself: what counts is what a restart finds
		cp := exitCopy
		if _, serr := os.Stat(cp); serr != nil {
			cp = core.Scratch("c07-restart")
			defer os.RemoveAll(cp)
			_ = sim.CopyDir(victim.Dir, cp)
		}
		rn, err := sim.OpenNode(sim.NodeOpts{Dir: cp, Primary: false, PrimaryURL: "http://gone.invalid"})
		if err != nil {
			violate(rep, "C07.refused-not-published", "restart-fails-after-exit/"+e.Op, detail, e, l)
			return
		}
		after = factsOf(rn, l)
		detail["after_restart"] = after
		rn.Close()
	}
	// M1: image, position and log unchanged
	if after != before {
		violate(rep, "C07.no-change-without-authority", fmt.Sprintf("changed/%s/%s/%s/walc=%v", e.Op, e.Mode, e.PS, e.WalC), detail, e, l)
		return
	}
	// M2: page, journal and WAL writes are refused with a read-only permission error
	switch e.Op {
	case "DBWrite", "DBWriteCkpt", "JWrite", "JZeroHeader", "WHeader", "WFrame":
		if operr == nil {
			violate(rep, "C07.write-refused", "write-accepted/"+e.Op, detail, e, l)
		} else if sim.Errno(operr) != syscall.EACCES {
			violate(rep, "C07.write-refused-with-eacces", "errno/"+e.Op+"/"+sim.Errno(operr).Error(), detail, e, l)
		}
	case "JCreate", "DBRemove", "JTruncate", "JRemove", "Import":
		// operations that would change the database must be refused with some error
		if operr == nil {
			violate(rep, "C07.operation-refused", "accepted/"+e.Op, detail, e, l)
		}
	}
	// M4: once the connection lets go and the role-change recovery has run, the node holds exactly the
	// committed state from before the open transaction: nothing of it was published
	if (e.Role == "demoted" || e.Role == "destroying") && len(exits) == 0 && !((e.Op == "WTruncate" || e.Op == "WRemove") && e.WalC) && e.Op != "Import" {
		_ = core.Try(vconn.Close)
		deadline := time.Now().Add(10 * time.Second)
		for time.Now().Before(deadline) {
			_, jerr := os.Stat(filepath.Join(victim.DBDir("db"), "journal"))
			fi, werr := os.Stat(filepath.Join(victim.DBDir("db"), "wal"))
			if os.IsNotExist(jerr) && (os.IsNotExist(werr) || (werr == nil && fi.Size() == 0)) {
				break
			}
			time.Sleep(time.Millisecond)
		}
		rep.Eval(1)
		final := factsOf(victim.Node, l)
		if _, serr := os.Stat(exitCopy); serr == nil {
			// the node stopped itself while the connection was closing (commit refused by exit)
			if rn, err := sim.OpenNode(sim.NodeOpts{Dir: exitCopy, Primary: false, PrimaryURL: "http://gone.invalid"}); err == nil {
				final = factsOf(rn, l)
				rn.Close()
			} else {
				detail["restart_error"] = err.Error()
			}
		}
		if final != t0 {
			detail["final"] = final
			detail["committed_before_transaction"] = t0
			violate(rep, "C07.nothing-published-after-loss", fmt.Sprintf("final-state/%s/%s/%s", e.Op, e.Mode, e.PS), detail, e, l)
		}
	}
	// conformance with the model's reaction class (R3)
	obs := "harmless"
	switch {
	case len(exits) > 0:
		obs = "exit"
	case operr != nil && sim.Errno(operr) == syscall.EACCES:
		obs = "eacces"
	case operr != nil:
		obs = "refused"
	}
	if obs != e.Res && !(e.Res == "refused" && obs == "eacces") {
		rep.Nonconf("%s: model reaction %q, real %q (%s)", e.key(), e.Res, obs, sim.ErrString(operr))
	}
}

func firstErr(fs ...func() error) error {
	for _, f := range fs {
		if err := f(); err != nil {
			return err
		}
	}
	return nil
}

func inPath(p []string, a string) bool {
	for _, x := range p {
		if x == a {
			return true
		}
	}
	return false
}
