package main

import (
	"context"
	"fmt"
	"os"
	"path/filepath"
	"sort"
	"time"

	"github.com/superfly/litefs"
	"github.com/superfly/litefs/verifharness/core"
	"github.com/superfly/litefs/verifharness/sim"
	"github.com/superfly/ltx"
)

const dbName = "db"
const window = litefs.MaxBackupLTXFileN // 256

// config is a concretisation variant (does not enlarge the model).
type config struct {
	Layout   sim.Layout
	Compress bool
	Pager    sim.PagerOpts
	Backend  string // "file" | "lfsc"
}

func (c config) String() string {
	return fmt.Sprintf("%s/%s-%d/lz4=%v", c.Backend, c.Layout.Name, c.Layout.PageSize, c.Compress)
}

type fail struct {
	Monitor string
	Sig     string
	Detail  any
}

type observation struct {
	Exists bool
	Pos    ltx.Pos
	HWM    uint64
	Local  []*sim.LTXFile
	Other  []string
	Svc    []svcFile
}

func (o observation) spos() ltx.Pos { return posOf(o.Svc) }

// world is one real primary with a wrapped real backup client and the service behind it.
type world struct {
	cfg   config
	dir   string
	be    backend
	wc    *wrapClient
	node  *sim.Node
	conn  *sim.Conn
	pg    *sim.Pager
	donor []svcFile

	commits    int
	crashed    bool              // a client died in the middle of a transaction (hot journal) at some point
	hotPending bool              // ... and its journal has not been played back yet: the database file holds uncommitted pages
	posEvents  []ltx.Pos         // every position change of the primary (Invalidator.InvalidatePos)
	lin        map[uint64]uint64 // the primary's current history: txid -> checksum (known points)
	cks        map[int]uint64    // model image id -> real checksum
	ackedMax   uint64            // largest HWM any WriteTx returned to the store
	need       uint64            // lowest service position the primary is guaranteed to extend from
	restores   int
	wasOn      bool      // service chain was on the primary's history after the previous step
	svcBefore  []svcFile // service files after the last service-side change
	idle       struct {
		p0     ltx.Pos
		k      int
		strict bool
		n      int
	}

	evals   int
	fails   []fail
	nonconf []string
	log     []string
}

func (w *world) failf(monitor, sig string, detail any) {
	w.fails = append(w.fails, fail{monitor, sig, detail})
}
func (w *world) note(f string, a ...any) { w.log = append(w.log, fmt.Sprintf(f, a...)) }

func newBackend(kind, dir string) backend {
	if kind == "lfsc" {
		return newLFSCBackend()
	}
	return newFileBackend(filepath.Join(dir, "backup"))
}

// openWorld starts a real primary on a fresh directory.
func openWorld(cfg config, donor []svcFile) (*world, error) {
	dir := core.Scratch("c14")
	w := &world{cfg: cfg, dir: dir, donor: donor, lin: map[uint64]uint64{}, cks: map[int]uint64{}, wasOn: true}
	w.be = newBackend(cfg.Backend, dir)
	var err error
	core.Beat("real:OpenNode")
	w.node, err = sim.OpenNode(sim.NodeOpts{Dir: filepath.Join(dir, "data"), Primary: true, Compress: cfg.Compress,
		Configure: func(s *litefs.Store) {
			w.wc = &wrapClient{inner: w.be.Client(s)}
			s.BackupClient = w.wc
			s.BackupDelay = 0 // no background loop: passes are driven with Store.SyncBackup
			s.BackupFullSyncInterval = 0
			s.Retention = time.Nanosecond
		}})
	core.Beat("harness")
	if err != nil {
		w.be.Close()
		return nil, err
	}
	w.node.Cache.OnPos = func(db *litefs.DB) {
		if db.Name() == dbName {
			w.posEvents = append(w.posEvents, db.Pos())
		}
	}
	w.conn = w.node.Connect(dbName, 7)
	w.pg = sim.NewPager(w.conn, cfg.Layout, cfg.Pager)
	for j, f := range donor {
		w.cks[-(j + 1)] = f.Post
	}
	return w, nil
}

func (w *world) close() {
	if w.conn != nil {
		w.conn.Close()
	}
	if w.node != nil {
		w.node.Close()
	}
	w.be.Close()
	_ = os.RemoveAll(w.dir)
}

func (w *world) db() *litefs.DB { return w.node.Store.DB(dbName) }

func (w *world) observe() observation {
	var o observation
	core.Beat("real:observe")
	if db := w.db(); db != nil {
		o.Exists, o.Pos, o.HWM = true, db.Pos(), uint64(db.HWM())
	}
	core.Beat("harness")
	o.Local, o.Other = sim.ListLTX(w.node.DBDir(dbName))
	o.Svc = w.be.Files(dbName)
	return o
}

// commit performs one rollback-journal transaction through the fuse handlers; content version v.
func (w *world) commit(v int) error {
	pg := w.pg
	pl := sim.Plan{Kind: "j", Ns: 3, M: []int{1, 2 + v%2}, Out: "commit", Fin: []string{"DELETE", "TRUNCATE", "PERSIST"}[v%3], V: v}
	if len(pg.Ref) < 3 {
		pl.M = []int{1, 2, 3}
	}
	core.Beat("real:commit")
	defer core.Beat("harness")
	for _, f := range []func() error{func() error { return pg.BeginJ(pl) }, pg.JCreate, pg.JSync} {
		if err := f(); err != nil {
			return err
		}
	}
	for _, q := range pl.M {
		if err := pg.JPage(q); err != nil {
			return err
		}
	}
	if err := pg.JFinal(); err != nil {
		return err
	}
	pg.EndJ()
	return nil
}

// resyncPager makes the pager's reference image the one on disk (after a restore).
func (w *world) resyncPager() {
	im, err := sim.DiskImage(w.node.DBDir(dbName), w.cfg.Layout.PageSize)
	if err != nil || im.N == 0 {
		w.pg.Ref = nil
		return
	}
	ref, _ := w.cfg.Layout.ModelOf(im)
	w.pg.Ref = ref
}

// ----------------------------------------------------------------- derived facts

func chainProblem(svc []svcFile) string {
	for i, f := range svc {
		if f.Err != "" {
			return fmt.Sprintf("file %s does not verify: %s", f.Name, f.Err)
		}
		if f.Min > f.Max {
			return fmt.Sprintf("file %s: min > max", f.Name)
		}
		if i == 0 {
			if f.Min != 1 || f.Pre != 0 {
				return fmt.Sprintf("first file %s starts at txid %d with pre-apply checksum %x", f.Name, f.Min, f.Pre)
			}
			continue
		}
		p := svc[i-1]
		if f.Min != p.Max+1 {
			return fmt.Sprintf("gap/overlap: %s follows %s", f.Name, p.Name)
		}
		if f.Pre != p.Post {
			return fmt.Sprintf("checksum chain broken: %s pre=%x, %s post=%x", f.Name, f.Pre, p.Name, p.Post)
		}
	}
	return ""
}

func (w *world) onHistory(svc []svcFile) bool {
	for _, f := range svc {
		if c, ok := w.lin[f.Max]; !ok || c != f.Post {
			return false
		}
	}
	return true
}

func hasLocal(o observation, t uint64) bool {
	for _, f := range o.Local {
		if f.Min == t && f.Max == t {
			return true
		}
	}
	return false
}

// relation classifies the service relative to the primary from observed facts only.
func (w *world) relation(o observation) string {
	sp := o.spos()
	switch {
	case !o.Exists && len(o.Svc) == 0:
		return "absent"
	case !o.Exists:
		return "noLocal"
	case o.Pos.TXID == 0 && len(o.Svc) == 0:
		return "absent0"
	case o.Pos.TXID == 0:
		return "localZero"
	case len(o.Svc) == 0:
		return "missing"
	case sp.TXID > o.Pos.TXID:
		return "ahead"
	case sp.TXID == o.Pos.TXID:
		if sp.PostApplyChecksum == o.Pos.PostApplyChecksum {
			return "equal"
		}
		return "forkEq"
	}
	if c, ok := w.lin[uint64(sp.TXID)]; !ok || c != uint64(sp.PostApplyChecksum) {
		return "behindFork"
	}
	hi := uint64(sp.TXID) + window
	if uint64(o.Pos.TXID) < hi {
		hi = uint64(o.Pos.TXID)
	}
	for t := uint64(sp.TXID) + 1; t <= hi; t++ {
		if !hasLocal(o, t) {
			return "behindGap"
		}
	}
	return "behindOk"
}

func needsAdopt(rel string) bool {
	switch rel {
	case "noLocal", "ahead", "forkEq", "behindFork", "behindGap", "localZero":
		return true
	}
	return false
}

func (w *world) strict(o observation) bool {
	if !o.Exists || o.Pos.TXID == 0 {
		return false
	}
	switch w.relation(o) {
	case "missing":
		return true
	case "equal", "behindOk", "behindGap":
		return uint64(o.spos().TXID) >= w.need
	}
	return false
}

func (w *world) resetIdle(o observation, strictOK bool) {
	k := int(o.Pos.TXID) - int(o.spos().TXID)
	if k < 0 {
		k = 0
	}
	w.idle.p0, w.idle.k, w.idle.strict, w.idle.n = o.Pos, k, strictOK && w.strict(o), 0
}

func bound(k int) int { return (k+window-1)/window + 1 }

// ----------------------------------------------------------------- monitors evaluated after every step

// afterStep evaluates the state monitors. primary says whether the step was the primary's (commit,
// sweep, pass) - then the service may only have grown by appending - or a service-side fault.
func (w *world) afterStep(what string, o observation, primary bool) {
	// the service's files verify and chain contiguously
	w.evals++
	if p := chainProblem(o.Svc); p != "" {
		w.failf("C14.service-chain-contiguous", "chain/"+what, map[string]any{"problem": p, "files": names(o.Svc)})
	}
	// the published high-water mark never exceeds what the service acknowledged
	w.evals++
	if o.HWM > w.ackedMax {
		w.failf("C14.hwm-not-above-acknowledged", "hwm/"+what, map[string]any{"hwm": o.HWM, "largest_acknowledged": w.ackedMax})
	}
	if primary {
		// the primary never removes or rewrites what the service holds
		w.evals++
		if d := appendOnly(w.svcBefore, o.Svc); d != "" {
			w.failf("C14.service-not-overwritten", "overwrite/"+what, map[string]any{"problem": d, "before": names(w.svcBefore), "after": names(o.Svc)})
		}
		// the service's chain stays a prefix of the primary's history
		w.evals++
		if w.wasOn && !w.onHistory(o.Svc) {
			w.failf("C14.service-prefix-of-history", "prefix/"+what, map[string]any{"service": positions(o.Svc), "primary_history": w.lin})
		}
	}
	w.wasOn = w.onHistory(o.Svc)
	w.svcBefore = o.Svc
	if ex := w.node.Exits(); len(ex) > 0 {
		w.failf("C14.no-fatal-exit", "exit/"+what, map[string]any{"exit_codes": ex})
	}
}

func names(fs []svcFile) []string {
	var out []string
	for _, f := range fs {
		out = append(out, f.Name)
	}
	return out
}

func positions(fs []svcFile) []string {
	var out []string
	for _, f := range fs {
		out = append(out, fmt.Sprintf("%d-%d:%x", f.Min, f.Max, f.Post))
	}
	return out
}

func appendOnly(before, after []svcFile) string {
	if len(after) < len(before) {
		return fmt.Sprintf("service lost files: %d -> %d", len(before), len(after))
	}
	for i := range before {
		if before[i].Name != after[i].Name || string(before[i].Data) != string(after[i].Data) {
			return fmt.Sprintf("file %d (%s) changed or was replaced (%s)", i, before[i].Name, after[i].Name)
		}
	}
	if len(after) > len(before)+1 {
		return fmt.Sprintf("more than one file added by one pass: %d -> %d", len(before), len(after))
	}
	return ""
}

// imagesAgree compares the primary's image (files on disk, and what a connection reads through
// the page cache) with the image the service's snapshot denotes, byte for byte.
func (w *world) imagesAgree(o observation) (bool, string) {
	lock := w.cfg.Layout.LockPgno()
	snap, err := snapshotOf(w.wc.inner, dbName)
	if err != nil {
		return false, "fetch snapshot: " + err.Error()
	}
	if snap.Err != "" {
		return false, "snapshot does not verify: " + snap.Err
	}
	if snap.Min != 1 || snap.Max != uint64(o.Pos.TXID) || snap.Post != uint64(o.Pos.PostApplyChecksum) {
		return false, fmt.Sprintf("snapshot is %d-%d post=%x, primary at %s", snap.Min, snap.Max, snap.Post, o.Pos)
	}
	sim_ := snap.image()
	disk, err := sim.DiskImage(w.node.DBDir(dbName), w.cfg.Layout.PageSize)
	if err != nil {
		return false, "disk image: " + err.Error()
	}
	if ok, d := disk.Equal(sim_, lock); !ok {
		return false, "snapshot vs primary's files: " + d
	}
	if got := disk.Checksum(lock); got != uint64(o.Pos.PostApplyChecksum) {
		return false, fmt.Sprintf("from-scratch checksum %x <> position checksum %x", got, uint64(o.Pos.PostApplyChecksum))
	}
	if disk.N > 0 {
		w.resyncPager()
		w.conn.CloseDB()
		vis, err := w.pg.VisibleImage()
		if err != nil {
			return false, "read through handles: " + err.Error()
		}
		if ok, d := vis.Equal(sim_, lock); !ok {
			return false, "snapshot vs image read through the handles: " + d
		}
	}
	return true, ""
}

// ----------------------------------------------------------------- steps

type syncPlan struct {
	Inject      string
	Lag         int
	BeforeWrite func()
	BeforeFetch func()
}

type syncResult struct {
	Err      error
	Calls    []callRec
	Rel      string
	Clean    bool
	Restored bool
	Pre      observation
	Post     observation
}

func (w *world) doCommit(id int) bool {
	if err := w.commit(id); err != nil {
		// committing is not what C14 is about: a failure here is a harness/infra matter unless the
		// store exited
		w.failf("C14.harness", "commit-failed", map[string]any{"error": err.Error(), "id": id})
		return false
	}
	w.commits++
	o := w.observe()
	w.cks[id] = uint64(o.Pos.PostApplyChecksum)
	w.lin[uint64(o.Pos.TXID)] = uint64(o.Pos.PostApplyChecksum)
	w.posEvents = nil
	w.afterStep("commit", o, true)
	w.resetIdle(o, true)
	return true
}

// doCrash plays a client that dies in the middle of a write transaction: journal created and synced,
// pages written, then the process is gone (its handles are closed, which releases its locks; the
// journal stays). The next client is a new connection.
func (w *world) doCrash() {
	pg := w.pg
	pl := sim.Plan{Kind: "j", Ns: 3, M: []int{1, 2, 3}, Out: "commit", Fin: "DELETE", V: 90}
	if len(pg.Ref) < 3 {
		pl.Ns = len(pg.Ref)
		pl.M = pl.M[:len(pg.Ref)]
	}
	core.Beat("real:crash-in-transaction")
	err := firstErrOf(func() error { return pg.BeginJ(pl) }, pg.JCreate, pg.JSync)
	for _, q := range pl.M {
		if err == nil {
			err = pg.JPage(q)
		}
	}
	ref := pg.Ref
	w.conn.Close()
	w.conn = w.node.Connect(dbName, 8)
	w.pg = sim.NewPager(w.conn, w.cfg.Layout, w.cfg.Pager)
	w.pg.Ref = ref
	core.Beat("harness")
	if err != nil {
		w.failf("C14.harness", "crash-step-failed", map[string]any{"error": err.Error()})
		return
	}
	w.crashed, w.hotPending = true, true
	o := w.observe()
	w.afterStep("crash", o, true)
}

// doRecover is the recovery LiteFS runs on a role change or restart: an interrupted transaction is rolled back.
func (w *world) doRecover() {
	core.Beat("real:Store.Recover")
	var err error
	p := core.Try(func() { err = w.node.Store.Recover(context.Background()) })
	core.Beat("harness")
	if p != nil || err != nil {
		w.failf("C14.no-panic", "recover", map[string]any{"panic": fmt.Sprint(p), "error": fmt.Sprint(err)})
		return
	}
	w.hotPending = false
	o := w.observe()
	w.afterStep("recover", o, true)
	// the database file is the image at the primary's position (nothing of the abandoned transaction, and
	// nothing of a history given up in a restore, comes back)
	w.evals++
	if disk, derr := sim.DiskImage(w.node.DBDir(dbName), w.cfg.Layout.PageSize); derr == nil && o.Exists && o.Pos.TXID > 0 {
		if got := disk.Checksum(w.cfg.Layout.LockPgno()); got != uint64(o.Pos.PostApplyChecksum) {
			w.failf("C14.restored-image-identical", "recover-after-restore/image-not-at-position", map[string]any{
				"from_scratch_checksum": fmt.Sprintf("%016x", got), "position": o.Pos.String(), "restores_so_far": w.restores})
		}
	}
	w.resyncPager()
}

func firstErrOf(fs ...func() error) error {
	for _, f := range fs {
		if err := f(); err != nil {
			return err
		}
	}
	return nil
}

func (w *world) doTouch() {
	core.Beat("real:open")
	err := w.conn.OpenDB(true)
	core.Beat("harness")
	if err != nil {
		w.failf("C14.harness", "touch-failed", map[string]any{"error": err.Error()})
		return
	}
	o := w.observe()
	w.afterStep("touch", o, true)
	w.resetIdle(o, true)
}

func (w *world) doSweep() {
	core.Beat("real:EnforceRetention")
	var err error
	p := core.Try(func() { err = w.node.Store.EnforceRetention(context.Background()) })
	core.Beat("harness")
	if p != nil || err != nil {
		w.failf("C14.no-panic", "sweep", map[string]any{"panic": fmt.Sprint(p), "error": fmt.Sprint(err)})
		return
	}
	w.afterStep("sweep", w.observe(), true)
}

// applyFault changes the service behind the primary's back.
func (w *world) applyFault(kind string, n int, midPass bool) {
	cur := w.be.Files(dbName)
	switch kind {
	case "rewind":
		if n < len(cur) {
			w.be.SetFiles(dbName, cur[:n])
		}
	case "fork":
		w.be.SetFiles(dbName, w.donor[:n])
	case "wipe":
		w.be.Wipe(dbName)
	}
	o := w.observe()
	w.afterStep("fault", o, false)
	w.resetIdle(o, !midPass)
}

// doSync runs one Store.SyncBackup pass and evaluates the pass monitors.
func (w *world) doSync(pl syncPlan) syncResult {
	pre := w.observe()
	r := syncResult{Pre: pre, Rel: w.relation(pre), Clean: true}
	w.be.SetLag(pl.Lag)
	w.wc.inject = pl.Inject
	if pl.BeforeWrite != nil {
		f := pl.BeforeWrite
		w.wc.beforeWrite = func() { r.Clean = false; f() }
	}
	if pl.BeforeFetch != nil {
		f := pl.BeforeFetch
		w.wc.beforeFetch = func() { r.Clean = false; f() }
	}
	w.posEvents = nil
	_ = w.wc.take()
	done := make(chan any, 1)
	core.Beat("real:SyncBackup")
	go func() {
		var p any
		if pv := core.Try(func() { r.Err = w.node.Store.SyncBackup(context.Background()) }); pv != nil {
			p = pv.Value
		}
		done <- p
	}()
	select {
	case p := <-done:
		core.Beat("harness")
		if p != nil {
			w.failf("C14.no-panic", "sync/panic/"+r.Rel, map[string]any{"panic": fmt.Sprint(p)})
			return r
		}
	case <-time.After(60 * time.Second):
		core.Beat("harness")
		w.failf("C14.no-hang", "sync/hang/"+r.Rel, map[string]any{"waited": "60s"})
		return r
	}
	w.wc.inject, w.wc.beforeWrite, w.wc.beforeFetch = "", nil, nil
	r.Calls = w.wc.take()
	post := w.observe()
	r.Post = post

	// bookkeeping from the recorded calls
	fetched := false
	lastAck, anyAck := uint64(0), false
	for _, c := range r.Calls {
		if c.Kind == "WriteTx" && c.Acked {
			lastAck, anyAck = c.HWM, true
			if c.HWM > w.ackedMax {
				w.ackedMax = c.HWM
			}
			if c.HWM > 0 && c.HWM-1 > w.need {
				w.need = c.HWM - 1
			}
		}
		if c.Kind == "FetchSnapshot" && c.Err == "" {
			fetched = true
		}
	}
	if len(w.posEvents) > 0 {
		// the primary's position changed inside the pass: it applied a snapshot
		r.Restored = true
		w.restores++
		w.lin = map[uint64]uint64{}
		for _, f := range post.Svc {
			w.lin[f.Max] = f.Post
		}
		w.lin[uint64(post.Pos.TXID)] = uint64(post.Pos.PostApplyChecksum)
		if t := uint64(post.Pos.TXID); t > w.need {
			w.need = t
		}
		w.resyncPager()
		w.conn.CloseDB()
	}
	w.posEvents = nil
	// what the node publishes after a pass is not above the service's latest acknowledgement: a
	// service that was rewound acknowledges less than it once did, and retention works from this value
	w.evals++
	if anyAck && post.HWM > lastAck {
		w.failf("C14.hwm-not-above-acknowledged", "hwm-above-latest-ack/sync", map[string]any{"hwm": post.HWM, "latest_acknowledged_in_pass": lastAck, "largest_ever_acknowledged": w.ackedMax})
	}
	w.afterStep("sync/"+r.Rel, post, true)

	// a pass fails only when the service (or the link to it) fails
	if r.Err != nil && r.Clean && pl.Inject == "" {
		w.evals++
		w.failf("C14.idle-syncs-converge", "sync-error/"+r.Rel, map[string]any{"error": r.Err.Error(), "calls": r.Calls,
			"what": "Store.SyncBackup failed although the service answered every call and no failure was injected"})
	}

	// every upload the store built verifies
	for _, c := range r.Calls {
		if c.Kind == "WriteTx" {
			w.evals++
			if c.Verify != "" {
				w.failf("C14.service-chain-contiguous", "upload-invalid/"+r.Rel, map[string]any{"call": c})
			}
		}
	}

	// ahead / inconsistent / not extendable: the primary adopts the service's snapshot, the
	// service's files are untouched
	if r.Clean && r.Err == nil && needsAdopt(r.Rel) {
		w.evals++
		sig := "adopt/" + r.Rel
		if r.Rel == "localZero" {
			sig = "adopt/local-pos-zero/service-has-data"
		}
		sp := pre.spos()
		switch {
		case !fetched || !r.Restored:
			w.failf("C14.adopts-service-snapshot", sig, map[string]any{"relation": r.Rel, "primary": pre.Pos.String(), "service": sp.String(),
				"calls": r.Calls, "primary_after": post.Pos.String(), "what": "the pass ended without adopting the service's snapshot"})
		case post.Pos != sp:
			w.failf("C14.adopts-service-snapshot", sig+"/position", map[string]any{"primary_after": post.Pos.String(), "service": sp.String()})
		case len(post.Svc) != len(pre.Svc):
			w.failf("C14.service-not-overwritten", sig+"/files", map[string]any{"before": names(pre.Svc), "after": names(post.Svc)})
		default:
			w.hotPending = false // the restore has played the journal back (or left it to be judged after the recovery)
			if ok, d := w.imagesAgree(post); !ok {
				w.failf("C14.adopts-service-snapshot", sig+"/image", map[string]any{"difference": d})
			}
		}
	}
	if r.Restored {
		w.hotPending = false
	}
	if r.Restored && (!post.Exists || post.Pos != post.spos()) && r.Err == nil {
		w.evals++
		w.failf("C14.adopts-service-snapshot", "restore/position/"+r.Rel, map[string]any{"primary_after": post.Pos.String(), "service": post.spos().String()})
	}

	// repeated syncs on an idle primary bring the service to the primary's position
	switch {
	case r.Err != nil:
		w.resetIdle(post, true)
	case r.Clean:
		w.idle.n++
	}
	if r.Err == nil && w.idle.n >= bound(w.idle.k) && r.Rel != "localZero" {
		w.evals++
		sig := fmt.Sprintf("converge/%s/strict=%v", r.Rel, w.idle.strict)
		sp := post.spos()
		switch {
		case post.Exists && post.Pos != sp, !post.Exists && len(post.Svc) > 0:
			w.failf("C14.idle-syncs-converge", sig+"/position", map[string]any{"syncs": w.idle.n, "lag_at_idle": w.idle.k,
				"primary": post.Pos.String(), "service": sp.String()})
		case w.idle.strict && post.Pos != w.idle.p0:
			w.failf("C14.idle-syncs-converge", sig+"/primary-moved", map[string]any{"syncs": w.idle.n, "primary_at_idle": w.idle.p0.String(),
				"primary_now": post.Pos.String(), "restored": r.Restored, "calls": r.Calls,
				"what": "the service was behind and extendable, yet the primary gave up committed transactions"})
		case post.Exists && post.Pos.TXID > 0 && !w.hotPending:
			if ok, d := w.imagesAgree(post); !ok {
				w.failf("C14.restored-image-identical", sig+"/image", map[string]any{"difference": d})
			}
		}
	}
	return r
}

// callShape abstracts the calls of a pass for the comparison with the model's decision branch.
func callShape(calls []callRec) string {
	s := ""
	for _, c := range calls {
		switch c.Kind {
		case "WriteTx":
			s += fmt.Sprintf("W[%d-%d]", c.Min, c.Max)
			switch {
			case c.PosMis:
				s += "mismatch "
			case c.Inject != "":
				s += c.Inject + " "
			case c.Err != "":
				s += "err "
			default:
				s += "ok "
			}
		case "FetchSnapshot":
			if c.Err != "" {
				s += "F-nodata "
			} else {
				s += "F "
			}
		}
	}
	return s
}

func localNames(o observation) [][2]int {
	var out [][2]int
	for _, f := range o.Local {
		out = append(out, [2]int{int(f.Min), int(f.Max)})
	}
	sort.Slice(out, func(i, j int) bool { return out[i][0] < out[j][0] || (out[i][0] == out[j][0] && out[i][1] < out[j][1]) })
	return out
}
