package main

import (
	"context"
	"fmt"
	"github.com/superfly/litefs"
	"github.com/superfly/litefs/verifharness/sim"
	"github.com/superfly/ltx"
	"os"
	"path/filepath"
	"time"

	"github.com/superfly/litefs/verifharness/core"
)

func finish(w *world, out *outcome) {
	out.Fails, out.Nonconf, out.Evals, out.Log, out.Restores = w.fails, w.nonconf, w.evals, w.log, w.restores
	out.Nontrivial = true
}

func expect(w *world, what string, got, want any) {
	if fmt.Sprint(got) != fmt.Sprint(want) {
		w.nonconf = append(w.nonconf, fmt.Sprintf("%s: model (window %d) predicts %v, real code gives %v", what, window, want, got))
	}
}

// runBatch: a backlog longer than the 256-file compaction window. The service holds txid 1; the
// primary commits n more; passes must upload [2..257], [258..513], ... and reach equality within
// ceil(n/256)+1 passes, with a sweep after every pass (the HWM gates what it may remove).
func runBatch(cs cfgSpec, n int) (out outcome) {
	w, err := openWorld(cs.config(), nil)
	if err != nil {
		core.Infra("open node: %v", err)
	}
	defer w.close()
	defer finish(w, &out)
	w.afterStep("open", w.observe(), true)
	if !w.doCommit(1) {
		return
	}
	r := w.doSync(syncPlan{})
	expect(w, "first pass calls", callShape(r.Calls), "W[1-1]ok ")
	for i := 2; i <= n+1 && len(w.fails) == 0; i++ {
		w.doCommit(i)
	}
	s := 1
	for pass := 1; len(w.fails) == 0 && w.idle.n < bound(w.idle.k) && pass < 20; pass++ {
		hi := s + window
		if n+1 < hi {
			hi = n + 1
		}
		want := "noop"
		if s < n+1 {
			want = fmt.Sprintf("W[%d-%d]ok ", s+1, hi)
		} else {
			want = ""
		}
		r := w.doSync(syncPlan{})
		expect(w, fmt.Sprintf("pass %d calls", pass), callShape(r.Calls), want)
		expect(w, fmt.Sprintf("pass %d service position", pass), int(r.Post.spos().TXID), hi)
		if s < n+1 {
			expect(w, fmt.Sprintf("pass %d hwm", pass), int(r.Post.HWM), hi)
		}
		s = hi
		w.doSweep()
		w.note("pass %d: calls=%q service=%s hwm=%d local files=%d", pass, callShape(r.Calls), r.Post.spos(), r.Post.HWM, len(w.observe().Local))
	}
	// service missing: one snapshot pass
	if len(w.fails) == 0 {
		w.applyFault("wipe", 0, false)
		r := w.doSync(syncPlan{})
		expect(w, "after wipe calls", callShape(r.Calls), fmt.Sprintf("W[1-%d]ok ", n+1))
		for len(w.fails) == 0 && w.idle.n < bound(w.idle.k) {
			w.doSync(syncPlan{})
		}
	}
	return
}

// runDrop: a drop is one more transaction of the chain (commit = 0); the service follows it and a
// restored database is the (empty) image of that position; recreation continues the chain.
func runDrop(cs cfgSpec) (out outcome) {
	w, err := openWorld(cs.config(), nil)
	if err != nil {
		core.Infra("open node: %v", err)
	}
	defer w.close()
	defer finish(w, &out)
	w.afterStep("open", w.observe(), true)
	if !w.doCommit(1) || !w.doCommit(2) {
		return
	}
	w.doSync(syncPlan{})
	w.conn.CloseDB()
	core.Beat("real:drop")
	err = w.conn.RemoveDB()
	core.Beat("harness")
	if err != nil {
		w.note("drop refused: %v (scenario skipped)", err)
		return
	}
	o := w.observe()
	w.lin[uint64(o.Pos.TXID)] = uint64(o.Pos.PostApplyChecksum)
	w.posEvents = nil
	w.pg.Ref = nil
	w.afterStep("drop", o, true)
	w.resetIdle(o, true)
	expect(w, "position after drop", int(o.Pos.TXID), 3)
	for n := 0; len(w.fails) == 0 && w.idle.n < bound(w.idle.k) && n < 4; n++ {
		r := w.doSync(syncPlan{})
		w.note("after drop: calls=%q primary=%s service=%s", callShape(r.Calls), r.Post.Pos, r.Post.spos())
	}
	return
}

// runLeadHWM settles Appendix G lead (i). Stage 1: the service acknowledged txid 3 and is then
// rewound to 1; a sweep (HWM still 3) removes files the service no longer holds; the pass finds a
// gap and restores. Stage 2: the primary, now following the service's history, commits two NEW
// transactions; the stale HWM lets the next sweep remove them before they were ever uploaded and
// the next pass restores again - no fault in between. No clause of C14 as stated is violated (the
// HWM is a value the service did acknowledge; a log that cannot be extended is to be replaced by
// the service's snapshot), so the outcome is recorded as a note with its reproducer.
func runLeadHWM(cs cfgSpec, donor []svcFile) (out outcome, facts map[string]any) {
	facts = map[string]any{}
	w, err := openWorld(cs.config(), donor)
	if err != nil {
		core.Infra("open node: %v", err)
	}
	defer w.close()
	defer finish(w, &out)
	w.afterStep("open", w.observe(), true)
	w.doCommit(1)
	w.doSync(syncPlan{})
	w.doCommit(2)
	w.doCommit(3)
	w.doSync(syncPlan{})
	o := w.observe()
	facts["before"] = fmt.Sprintf("primary %s hwm=%d service files %v", o.Pos, o.HWM, names(o.Svc))
	w.applyFault("rewind", 1, false)
	w.doSweep()
	o = w.observe()
	facts["after_rewind_and_sweep"] = fmt.Sprintf("hwm=%d service at txid %d, local files %v", o.HWM, o.spos().TXID, localNames(o))
	r := w.doSync(syncPlan{})
	facts["stage1"] = fmt.Sprintf("relation=%s calls=%q restored=%v primary now %s hwm=%d", r.Rel, callShape(r.Calls), r.Restored, r.Post.Pos, r.Post.HWM)
	facts["stage1_hwm_above_service"] = r.Post.HWM > uint64(r.Post.spos().TXID)
	if len(w.fails) > 0 {
		return
	}
	w.doCommit(4)
	w.doCommit(5)
	before := w.observe().Pos
	w.doSweep()
	o = w.observe()
	r = w.doSync(syncPlan{})
	facts["stage2"] = fmt.Sprintf("primary committed up to %s (never uploaded); sweep with stale hwm=%d left %v; relation=%s calls=%q restored=%v primary now %s",
		before, o.HWM, localNames(o), r.Rel, callShape(r.Calls), r.Restored, r.Post.Pos)
	facts["stage2_lost_unuploaded_transactions_without_new_fault"] = r.Restored && r.Post.Pos.TXID < before.TXID
	return
}

// runLeadPosZero settles Appendix G lead (ii): the database object exists at position zero (an
// application opened the file) while the service holds data.
func runLeadPosZero(cs cfgSpec, donor []svcFile) (out outcome, facts map[string]any) {
	facts = map[string]any{}
	w, err := openWorld(cs.config(), donor)
	if err != nil {
		core.Infra("open node: %v", err)
	}
	defer w.close()
	defer finish(w, &out)
	w.afterStep("open", w.observe(), true)
	w.doTouch()
	w.applyFault("fork", 2, false)
	r := w.doSync(syncPlan{})
	facts["pass_at_position_zero"] = fmt.Sprintf("relation=%s calls=%q err=%v restored=%v primary %s service %s", r.Rel, callShape(r.Calls), r.Err, r.Restored, r.Post.Pos, r.Post.spos())
	// drop the (known) monitor failure of this pass from the follow-up so that the follow-up runs
	fails := w.fails
	w.fails = nil
	w.doCommit(1)
	r = w.doSync(syncPlan{})
	facts["pass_after_first_commit"] = fmt.Sprintf("relation=%s calls=%q restored=%v primary %s (the first commit is given up)", r.Rel, callShape(r.Calls), r.Restored, r.Post.Pos)
	w.fails = append(fails, w.fails...)
	return
}

// runRestoreWithOpenTx: a sync pass that has to adopt the service's snapshot arrives while an application
// connection has a write transaction open (journal created, a page written, RESERVED held). The restore has
// to wait for that transaction like any other writer of the database; whatever the order in which the two
// finish, the primary's log is one chain ending at its position afterwards, the database is the image at that
// position, and a restart on the same directory finds the same.
func runRestoreWithOpenTx(cs cfgSpec, donor []svcFile) (out outcome) {
	w, err := openWorld(cs.config(), donor)
	if err != nil {
		core.Infra("open node: %v", err)
	}
	defer w.close()
	defer finish(w, &out)
	w.afterStep("open", w.observe(), true)
	w.doCommit(1)
	w.doCommit(2)
	w.doSync(syncPlan{})
	w.applyFault("fork", 3, false) // the service is ahead on another history: the next pass restores
	// the open transaction
	pg := w.pg
	pl := sim.Plan{Kind: "j", Ns: 3, M: []int{1, 2}, Out: "commit", Fin: "DELETE", V: 77}
	if err := firstErrOf(func() error { return pg.BeginJ(pl) }, pg.JCreate, pg.JSync, func() error { return pg.JPage(1) }); err != nil {
		w.failf("C14.harness", "open-tx", map[string]any{"error": err.Error()})
		return
	}
	done := make(chan syncResult, 1)
	go func() { done <- w.doSync(syncPlan{}) }()
	// the pass has asked the service for its position and is now waiting for the write lock
	for t0 := time.Now(); time.Since(t0) < 5*time.Second; time.Sleep(time.Millisecond) {
		w.wc.mu.Lock()
		n := len(w.wc.calls)
		w.wc.mu.Unlock()
		if n > 0 {
			break
		}
	}
	time.Sleep(150 * time.Millisecond)
	cerr := firstErrOf(func() error { return pg.JPage(2) }, pg.JFinal)
	pg.EndJ()
	var r syncResult
	select {
	case r = <-done:
	case <-time.After(60 * time.Second):
		w.failf("C14.no-hang", "restore-with-open-tx/sync-hangs", map[string]any{"commit_error": fmt.Sprint(cerr)})
		return
	}
	w.note("restore with open transaction: commit err=%v, pass relation=%s restored=%v err=%v, primary %s", cerr, r.Rel, r.Restored, r.Err, r.Post.Pos)
	if len(w.fails) > 0 {
		return
	}
	o := w.observe()
	w.evals += 2
	if probs := sim.ChainProblems(w.node.DBDir(dbName), uint64(o.Pos.TXID), uint64(o.Pos.PostApplyChecksum)); len(probs) > 0 {
		w.failf("C14.log-is-one-chain-after-restore", "restore-with-open-tx/chain", map[string]any{"problems": probs, "files": localNames(o), "position": o.Pos.String(), "commit_error": fmt.Sprint(cerr)})
		return
	}
	// a restart on the same directory
	cp := core.Scratch("c14-reopen")
	defer os.RemoveAll(cp)
	if err := sim.CopyDir(w.node.Dir, cp); err != nil {
		core.Infra("copy: %v", err)
	}
	var n2 *sim.Node
	var oerr error
	if p := core.Try(func() { n2, oerr = sim.OpenNode(sim.NodeOpts{Dir: cp, Primary: true}) }); p != nil || oerr != nil {
		w.failf("C14.restart-after-restore", "restore-with-open-tx/restart-fails", map[string]any{"error": fmt.Sprint(oerr), "panic": fmt.Sprint(p), "files": localNames(o), "position": o.Pos.String()})
		return
	}
	defer n2.Close()
	if db := n2.Store.DB(dbName); db == nil || db.Pos() != o.Pos {
		w.failf("C14.restart-after-restore", "restore-with-open-tx/restart-position", map[string]any{"before": o.Pos.String(), "files": localNames(o)})
	}
	// and the passes converge as usual
	for n := 0; len(w.fails) == 0 && w.idle.n < bound(w.idle.k) && n < 4; n++ {
		w.pg = sim.NewPager(w.conn, w.cfg.Layout, w.cfg.Pager)
		w.resyncPager()
		w.doSync(syncPlan{})
	}
	return
}

// runContinuousMonitor: the primary's own backup loop (Store.monitorPrimaryBackup, BackupDelay > 0) instead of
// passes driven one by one. The service does not know the database; while the first upload (a snapshot) is on
// its way the application commits once more, then the primary is idle. The loop has to bring the service to
// the primary's position (C14: "repeated syncs on an idle primary bring the service to the primary's
// position") without giving up a transaction.
func runContinuousMonitor(cs cfgSpec) (out outcome) {
	dir := core.Scratch("c14-monitor")
	defer os.RemoveAll(dir)
	w := &world{cfg: cs.config(), dir: dir, lin: map[uint64]uint64{}, cks: map[int]uint64{}, wasOn: true}
	w.be = newBackend(cs.Backend, dir)
	defer w.be.Close()
	defer finish(w, &out)
	var err error
	started := make(chan struct{})
	w.node, err = sim.OpenNode(sim.NodeOpts{Dir: filepath.Join(dir, "data"), Primary: true, Compress: w.cfg.Compress,
		Configure: func(s *litefs.Store) {
			w.wc = &wrapClient{inner: w.be.Client(s)}
			s.BackupClient = gatedBackup{w.wc, started}
			s.BackupDelay = 20 * time.Millisecond
			s.BackupFullSyncInterval = 0
			s.Retention = time.Hour
		}})
	if err != nil {
		core.Infra("open node: %v", err)
	}
	defer w.node.Close()
	w.conn = w.node.Connect(dbName, 7)
	defer w.conn.Close()
	w.pg = sim.NewPager(w.conn, w.cfg.Layout, w.cfg.Pager)
	if err := w.commit(1); err != nil {
		core.Infra("commit 1: %v", err)
	}
	// the commit in the middle of the first upload
	var cerr error
	w.wc.mu.Lock()
	w.wc.beforeWrite = func() { cerr = w.commit(2) }
	w.wc.mu.Unlock()
	close(started) // from here on the loop may talk to the service
	want := func() ltx.Pos { return w.db().Pos() }
	deadline := time.Now().Add(8 * time.Second)
	for time.Now().Before(deadline) {
		if cerr == nil && want().TXID == 2 && posOf(w.be.Files(dbName)) == want() {
			break
		}
		time.Sleep(5 * time.Millisecond)
	}
	out.Nontrivial = true
	w.evals += 2
	o := w.observe()
	if cerr != nil {
		w.nonconf = append(w.nonconf, "continuous monitor: the commit during the upload failed: "+cerr.Error())
		return
	}
	if o.Pos.TXID != 2 {
		w.failf("C14.idle-syncs-converge", "continuous-monitor/primary-moved", map[string]any{"primary": o.Pos.String(), "service": o.spos().String(), "what": "the primary gave up a committed transaction"})
		return
	}
	if o.spos() != o.Pos {
		w.failf("C14.idle-syncs-converge", "continuous-monitor/service-behind-an-idle-primary", map[string]any{"primary": o.Pos.String(), "service": o.spos().String(),
			"service_files": names(o.Svc), "bound": "8s with a 20 ms backup delay", "calls": callShape(w.wc.take())})
	}
	return
}

// runContinuousLostAnswer: the primary's own backup loop again; an upload is executed by the service but its
// answer is lost (connection reset after the service stored the file), and the primary commits once more
// before the loop has looked at the service again. The service's chain is a prefix of the primary's log and
// can simply be extended: the primary must keep its transactions and the service must reach its position.
func runContinuousLostAnswer(cs cfgSpec) (out outcome) {
	dir := core.Scratch("c14-lostanswer")
	defer os.RemoveAll(dir)
	w := &world{cfg: cs.config(), dir: dir, lin: map[uint64]uint64{}, cks: map[int]uint64{}, wasOn: true}
	w.be = newBackend(cs.Backend, dir)
	defer w.be.Close()
	defer finish(w, &out)
	var err error
	started := make(chan struct{})
	w.node, err = sim.OpenNode(sim.NodeOpts{Dir: filepath.Join(dir, "data"), Primary: true, Compress: w.cfg.Compress,
		Configure: func(s *litefs.Store) {
			w.wc = &wrapClient{inner: w.be.Client(s)}
			s.BackupClient = gatedBackup{w.wc, started}
			s.BackupDelay = 20 * time.Millisecond
			s.BackupFullSyncInterval = 0
			s.Retention = time.Hour
		}})
	if err != nil {
		core.Infra("open node: %v", err)
	}
	defer w.node.Close()
	w.conn = w.node.Connect(dbName, 7)
	defer w.conn.Close()
	w.pg = sim.NewPager(w.conn, w.cfg.Layout, w.cfg.Pager)
	for v := 1; v <= 3; v++ {
		if err := w.commit(v); err != nil {
			core.Infra("commit %d: %v", v, err)
		}
	}
	close(started)
	waitSvc := func(txid uint64, d time.Duration) bool {
		deadline := time.Now().Add(d)
		for time.Now().Before(deadline) {
			if p := posOf(w.be.Files(dbName)); uint64(p.TXID) == txid && p == w.db().Pos() {
				return true
			}
			time.Sleep(5 * time.Millisecond)
		}
		return false
	}
	if !waitSvc(3, 8*time.Second) {
		w.nonconf = append(w.nonconf, "continuous lost answer: the service did not reach transaction 3 in 8 s")
		return
	}
	// the next upload is executed, its answer is lost; right after it the primary commits again
	var cerr error
	w.wc.mu.Lock()
	w.wc.inject = "errAfter"
	w.wc.mu.Unlock()
	if err := w.commit(4); err != nil {
		core.Infra("commit 4: %v", err)
	}
	deadline := time.Now().Add(5 * time.Second)
	for time.Now().Before(deadline) {
		w.wc.mu.Lock()
		pending := w.wc.inject != ""
		w.wc.mu.Unlock()
		if !pending {
			break
		}
		time.Sleep(time.Millisecond)
	}
	cerr = w.commit(5)
	out.Nontrivial = true
	w.evals += 2
	if cerr != nil {
		w.nonconf = append(w.nonconf, "continuous lost answer: commit 5 failed: "+cerr.Error())
		return
	}
	ok := waitSvc(5, 15*time.Second)
	o := w.observe()
	if o.Pos.TXID != 5 {
		w.failf("C14.idle-syncs-converge", "continuous-lost-answer/primary-moved", map[string]any{"primary": o.Pos.String(), "service": o.spos().String(),
			"what": "after an upload whose answer was lost the primary gave up committed transactions although the service held a prefix of its log", "calls": callShape(w.wc.take())})
		return
	}
	if !ok {
		w.failf("C14.idle-syncs-converge", "continuous-lost-answer/service-behind-an-idle-primary", map[string]any{"primary": o.Pos.String(), "service": o.spos().String(),
			"service_files": names(o.Svc), "bound": "15s with a 20 ms backup delay", "calls": callShape(w.wc.take())})
	}
	return
}

// gatedBackup keeps the store's backup loop away from the service until the scenario is set up.
type gatedBackup struct {
	*wrapClient
	started chan struct{}
}

func (g gatedBackup) PosMap(ctx context.Context) (map[string]ltx.Pos, error) {
	select {
	case <-g.started:
	case <-ctx.Done():
		return nil, ctx.Err()
	}
	return g.wrapClient.PosMap(ctx)
}
