// Check C14: backup sync uploads a gap-free chain and treats the backup as authoritative.
//
// spec -> impl: Backup.tla is model-checked exhaustively (window 2 standing for 256); a second
// configuration with the real window emits one script per distinct idle state (commits, touches,
// retention sweeps, sync passes with their WriteTx answers, service-side faults between and inside
// passes). Every script is executed on a real primary (sim node, real Store.SyncBackup /
// EnforceRetention, commits through the fuse handlers) against the real FileBackupClient and the
// real lfsc.BackupClient talking to a local LiteFS-Cloud-protocol server. The property's clauses
// are evaluated as monitors on real observations after every step; agreement with the model's
// predicted observables and decision branch is conformance.
package main

import (
	"encoding/json"
	"fmt"
	"math/rand"
	"os"
	"runtime"
	"sort"
	"strings"
	"sync"
	"time"

	"github.com/superfly/litefs/verifharness/core"
	"github.com/superfly/litefs/verifharness/faults"
	"github.com/superfly/litefs/verifharness/sim"
)

type stepG struct {
	K   string `json:"k"`
	N   int    `json:"n"`
	Ans string `json:"ans"`
	Lag int    `json:"lag"`
	Br  string `json:"br"`
	Why string `json:"why"`
}
type stepO struct {
	Ex    bool    `json:"ex"`
	Pt    int     `json:"pt"`
	Pid   int     `json:"pid"`
	St    int     `json:"st"`
	Sid   int     `json:"sid"`
	Hwm   int     `json:"hwm"`
	Files [][]int `json:"files"`
	Chain [][]int `json:"chain"`
	Pc    string  `json:"pc"`
	Rs    int     `json:"rs"`
}
type step struct {
	A string `json:"a"`
	G stepG  `json:"g"`
	O stepO  `json:"o"`
}
type script struct {
	H []step `json:"h"`
}

func (s step) key() string {
	switch s.A {
	case "Commit":
		return "C"
	case "Touch":
		return "T"
	case "Crash":
		return "X"
	case "Recover":
		return "V"
	case "Sweep":
		return "R"
	case "SyncStart":
		return "S(" + s.G.Br + ")"
	case "SyncWrite":
		return fmt.Sprintf("w(%s,%d)", s.G.Ans, s.G.Lag)
	case "SyncRestore":
		return "r(" + s.G.Ans + ")"
	case "Fault":
		return fmt.Sprintf("F(%s,%d)", s.G.K, s.G.N)
	}
	return s.A
}

func (sc script) key() string {
	var sb strings.Builder
	for _, s := range sc.H {
		sb.WriteString(s.key())
		sb.WriteByte(';')
	}
	return sb.String()
}

func (sc script) maxLag() int {
	m := 0
	for _, s := range sc.H {
		if s.G.Lag > m {
			m = s.G.Lag
		}
	}
	return m
}

type cfgSpec struct {
	Backend  string `json:"backend"`
	Layout   string `json:"layout"`
	PageSize uint32 `json:"page_size"`
	Compress bool   `json:"compress"`
}

func (c cfgSpec) config() config {
	l := sim.L0(c.PageSize)
	if c.Layout == "L1" {
		l = sim.L1(c.PageSize)
	}
	return config{Layout: l, Compress: c.Compress, Pager: sim.PagerOpts{Sector: 512}, Backend: c.Backend}
}

func (c cfgSpec) donorKey() string { return fmt.Sprintf("%s-%d-%v", c.Layout, c.PageSize, c.Compress) }

const maxDonor = 5

// buildDonor produces a foreign history: an independent primary commits maxDonor transactions with
// other content and uploads after each one, which yields single-transaction files 1-1, 2-2, ...
func buildDonor(rep *core.Report, c cfgSpec) []svcFile {
	c.Backend = "file"
	w, err := openWorld(c.config(), nil)
	if err != nil {
		core.Infra("donor: open node: %v", err)
	}
	defer w.close()
	w.afterStep("open", w.observe(), true)
	for j := 1; j <= maxDonor && len(w.fails) == 0; j++ {
		if w.doCommit(1000 + j) {
			w.doSync(syncPlan{})
		}
	}
	fs := w.be.Files(dbName)
	if len(w.fails) > 0 || len(fs) != maxDonor {
		// the donor is an ordinary primary (commit, sync, commit, sync, ...): what goes wrong here
		// is an observation about the code under test
		var out outcome
		finish(w, &out)
		if len(out.Fails) == 0 {
			out.Fails = []fail{{"C14.idle-syncs-converge", "donor/files", map[string]any{"files": names(fs), "expected": maxDonor}}}
		}
		if rep == nil {
			core.Infra("donor history could not be built: %+v", out.Fails)
		}
		report(rep, "donor", nil, c, out, "donor")
		rep.Finish()
	}
	return fs
}

type outcome struct {
	Fails      []fail
	Nonconf    []string
	Evals      int
	Log        []string
	Nontrivial bool
	Restores   int
}

// runScript executes one model behaviour on a real primary.
func runScript(sc script, cs cfgSpec, donor []svcFile, verbose bool) (out outcome) {
	w, err := openWorld(cs.config(), donor)
	if err != nil {
		core.Infra("open node: %v", err)
	}
	defer w.close()
	defer func() {
		out.Fails, out.Nonconf, out.Evals, out.Log, out.Restores = w.fails, w.nonconf, w.evals, w.log, w.restores
	}()
	w.afterStep("open", w.observe(), true)

	conform := func(i int, o stepO, obs observation) {
		var d []string
		if o.Ex != obs.Exists {
			d = append(d, fmt.Sprintf("exists: model %v real %v", o.Ex, obs.Exists))
		}
		if o.Pt != int(obs.Pos.TXID) || (o.Pt > 0 && w.cks[o.Pid] != uint64(obs.Pos.PostApplyChecksum)) {
			d = append(d, fmt.Sprintf("primary position: model (%d,id %d) real %s", o.Pt, o.Pid, obs.Pos))
		}
		sp := obs.spos()
		if o.St != int(sp.TXID) || (o.St > 0 && w.cks[o.Sid] != uint64(sp.PostApplyChecksum)) {
			d = append(d, fmt.Sprintf("service position: model (%d,id %d) real %s", o.St, o.Sid, sp))
		}
		if o.Hwm != int(obs.HWM) {
			d = append(d, fmt.Sprintf("hwm: model %d real %d", o.Hwm, obs.HWM))
		}
		mf := append([][]int(nil), o.Files...)
		sort.Slice(mf, func(a, b int) bool { return mf[a][0] < mf[b][0] || (mf[a][0] == mf[b][0] && mf[a][1] < mf[b][1]) })
		rf := localNames(obs)
		same := len(mf) == len(rf)
		for k := 0; same && k < len(mf); k++ {
			same = mf[k][0] == rf[k][0] && mf[k][1] == rf[k][1]
		}
		if !same {
			d = append(d, fmt.Sprintf("local LTX files: model %v real %v", mf, rf))
		}
		same = len(o.Chain) == len(obs.Svc)
		for k := 0; same && k < len(o.Chain); k++ {
			same = o.Chain[k][0] == int(obs.Svc[k].Min) && o.Chain[k][1] == int(obs.Svc[k].Max)
		}
		if !same {
			d = append(d, fmt.Sprintf("service files: model %v real %v", o.Chain, names(obs.Svc)))
		}
		if o.Rs != w.restores {
			d = append(d, fmt.Sprintf("restores: model %d real %d", o.Rs, w.restores))
		}
		if len(d) > 0 {
			w.nonconf = append(w.nonconf, fmt.Sprintf("step %d: %s", i, strings.Join(d, "; ")))
		}
	}

	for i := 0; i < len(sc.H) && len(w.fails) == 0; i++ {
		s := sc.H[i]
		switch s.A {
		case "Commit":
			if !w.doCommit(s.G.N) {
				return out
			}
		case "Touch":
			w.doTouch()
		case "Crash":
			out.Nontrivial = true
			w.doCrash()
		case "Recover":
			w.doRecover()
		case "Sweep":
			w.doSweep()
		case "Fault":
			w.applyFault(s.G.K, s.G.N, false)
		case "SyncStart":
			out.Nontrivial = true
			// collect the steps of this pass
			j := i
			pl := syncPlan{}
			pre := s.O
			want := ""
			switch s.G.Br {
			case "upload":
				hi := pre.St + window
				if pre.Pt < hi {
					hi = pre.Pt
				}
				want = fmt.Sprintf("W[%d-%d]", pre.St+1, hi)
			case "snapshot":
				want = fmt.Sprintf("W[1-%d]", pre.Pt)
			}
			wantErr := false
			for sc.H[j].O.Pc != "idle" {
				j++
				n := sc.H[j]
				switch n.A {
				case "Fault":
					k, cnt := n.G.K, n.G.N
					prevW, prevF := pl.BeforeWrite, pl.BeforeFetch
					if n.O.Pc == "write" {
						pl.BeforeWrite = func() {
							if prevW != nil {
								prevW()
							}
							w.applyFault(k, cnt, true)
						}
					} else {
						pl.BeforeFetch = func() {
							if prevF != nil {
								prevF()
							}
							w.applyFault(k, cnt, true)
						}
					}
				case "SyncWrite":
					pl.Lag = n.G.Lag
					switch n.G.Ans {
					case "errBefore", "errAfter":
						pl.Inject = n.G.Ans
						wantErr = true
					}
					want += n.G.Ans + " "
				case "SyncRestore":
					if n.G.Ans == "ok" {
						want += "F "
					} else {
						want += "F-nodata "
						wantErr = true
					}
				}
			}
			i = j
			s = sc.H[j]
			r := w.doSync(pl)
			got := callShape(r.Calls)
			if got != want {
				w.nonconf = append(w.nonconf, fmt.Sprintf("step %d: decision branch %q: model expects calls %q, real code made %q", j, sc.H[j].G.Br+sc.H[j].G.Why, want, got))
			}
			if (r.Err != nil) != wantErr {
				w.nonconf = append(w.nonconf, fmt.Sprintf("step %d: pass result: model error=%v, real %v", j, wantErr, r.Err))
			}
			if verbose {
				w.note("   pass: relation=%s calls=%q err=%v restored=%v", r.Rel, got, r.Err, r.Restored)
			}
		default:
			core.Infra("unknown script step %q", s.A)
		}
		if len(w.fails) > 0 {
			break
		}
		obs := w.observe()
		conform(i, s.O, obs)
		if verbose {
			w.note("%-12s -> primary %s hwm=%d files=%v | service %v", s.key(), obs.Pos, obs.HWM, localNames(obs), names(obs.Svc))
		}
	}
	// an interrupted transaction is resolved before the idle tail (a snapshot of a database whose journal
	// is still hot is refused by the real code; see Backup.tla, SyncStart)
	if len(w.fails) == 0 && w.hotPending {
		w.doRecover()
	}
	// idle tail: with no further commits, faults or failures the passes must converge
	for n := 0; len(w.fails) == 0 && w.idle.n < bound(w.idle.k) && n < 6; n++ {
		r := w.doSync(syncPlan{})
		if verbose {
			o := r.Post
			w.note("idle sync    -> primary %s hwm=%d | service %v (relation before: %s)", o.Pos, o.HWM, names(o.Svc), r.Rel)
		}
		if r.Err != nil {
			break
		}
	}
	return out
}

// pruneToLeaves drops scripts that are proper prefixes of other scripts (the spanning tree's inner
// nodes are executed on the way to its leaves).
func pruneToLeaves(scs []script) []script {
	keys := make([]string, len(scs))
	idx := make([]int, len(scs))
	for i := range scs {
		keys[i] = scs[i].key()
		idx[i] = i
	}
	sort.Slice(idx, func(a, b int) bool { return keys[idx[a]] < keys[idx[b]] })
	var out []script
	for p, i := range idx {
		if p+1 < len(idx) && strings.HasPrefix(keys[idx[p+1]], keys[i]) {
			continue
		}
		out = append(out, scs[i])
	}
	return out
}

func tlcStage(rep *core.Report, name, cfg string, timeout time.Duration, onTrace func(script)) *core.TLCResult {
	core.Beat("tlc")
	stop := make(chan struct{})
	go func() {
		for {
			select {
			case <-stop:
				return
			case <-time.After(5 * time.Second):
				core.Beat("tlc")
			}
		}
	}()
	defer func() { close(stop); core.Beat("harness") }()
	res, err := core.RunTLC(core.TLCOpts{Module: "Backup", Cfg: cfg, Workers: 4, Timeout: timeout,
		OnLine: func(tag string, payload json.RawMessage) {
			if tag != "TRACE" || onTrace == nil {
				return
			}
			var sc script
			if err := json.Unmarshal(payload, &sc); err != nil {
				core.Infra("bad TRACE line: %v: %.200s", err, payload)
			}
			onTrace(sc)
		}})
	if err != nil {
		core.Infra("tlc %s: %v", name, err)
	}
	return res
}

func mustHold(rep *core.Report, name, cfg string, timeout time.Duration, onTrace func(script)) {
	res := tlcStage(rep, name, cfg, timeout, onTrace)
	if !res.OK() {
		core.Infra("model checking %s failed (a model problem, not a verdict about the code): %s\n%s\n%s", name, res.Describe(), res.ErrorText, res.OutputTail)
	}
	rep.AddTLC(name, res)
}

// mustViolate runs a configuration in which one guard is dropped (or a lead is stated as an
// invariant); the expected violation is evidence of relevance, never a verdict.
func mustViolate(rep *core.Report, name, cfg, want string) {
	res := tlcStage(rep, name, cfg, 5*time.Minute, nil)
	if res.Violation == "" || res.TimedOut {
		core.Infra("configuration %s was expected to violate %s but TLC reports: %s\n%s", name, want, res.Describe(), res.OutputTail)
	}
	ok := false
	for _, w := range strings.Split(want, "|") {
		ok = ok || res.Violation == w
	}
	if !ok {
		core.Infra("configuration %s violates %s, expected %s", name, res.Violation, want)
	}
	l, _ := rep.Extra["expected_violations"].([]any)
	rep.Extra["expected_violations"] = append(l, map[string]any{"cfg": cfg, "violated": res.Violation, "distinct": res.Distinct})
}

func report(rep *core.Report, kind string, sc any, cs cfgSpec, out outcome, key string) {
	rep.Eval(out.Evals)
	rep.TracesValidated++
	rep.Case(key+"|"+cs.Backend, out.Nontrivial)
	for _, nc := range out.Nonconf {
		rep.Nonconf("%s [%s] %s", key, cs.config(), nc)
	}
	for _, f := range out.Fails {
		if f.Monitor == "C14.harness" {
			core.Infra("harness step failed in %s [%s]: %v", key, cs.config(), f.Detail)
		}
		rep.Violate(f.Monitor, f.Sig, map[string]any{"detail": f.Detail, "config": cs.config().String(), "script": key},
			map[string]any{"kind": kind, "script": sc, "config": cs})
	}
}

func main() {
	args := core.ParseArgs()
	rep := core.NewReport("C14", "model_checking", args)
	rep.Rule = "one case = one model behaviour (script of commits, touches, retention sweeps, sync passes with their WriteTx answers, service faults) ending in a distinct idle state of Backup.tla, executed on a real primary per backend; non-trivial = contains at least one sync pass. Scripts that are proper prefixes of other scripts are executed as part of those."
	rep.Assumptions = []string{
		"commits and sweeps happen between sync passes (Store.SyncBackup reads the position once per pass)",
		"one database; drops are exercised by one fixed real scenario, not by the model (a drop's checksum is not unique)",
		"CRC64 collision-freeness (a checksum identifies a history)",
		"the LiteFS Cloud service is a local re-implementation of the three protocol calls lfsc.BackupClient makes",
		"service faults: rewind to an earlier file boundary, replacement by a foreign contiguous chain, wipe",
	}
	defer core.Cleanup()
	if os.Getenv("C14_DIRECTED") == "lostanswer" { // development aid (never commit its evidence)
		for _, be := range []string{"file", "lfsc"} {
			v := cfgSpec{Layout: "L0", PageSize: 512, Compress: false}
			v.Backend = be
			out := runContinuousLostAnswer(v)
			report(rep, "continuous-lost-answer", nil, v, out, "continuous-lost-answer")
		}
		rep.Finish()
	}
	core.Watchdog(180*time.Second, func(label string, since time.Duration) {
		if strings.HasPrefix(label, "real:") {
			rep.Violate("C14.no-hang", "hang/"+label, map[string]any{"no_progress_for": since.String()}, nil)
			rep.Finish()
		}
		core.Infra("no progress for %s while %s", since, label)
	})

	if args.Replay != "" {
		replayFile(args.Replay)
		rep.Finish()
	}

	// ---- 1. exhaustive model checking (window 2 stands for 256)
	mustHold(rep, "MC_Backup", "MC_Backup.cfg", 10*time.Minute, nil)
	if !args.Quick() {
		mustHold(rep, "MC_Backup_fixed", "MC_Backup_fixed.cfg", 10*time.Minute, nil)
	}

	// ---- 2. behaviours with the real window, one per distinct idle state
	var scs []script
	var mu sync.Mutex
	emitCfg := core.Pick(args, "MC_Backup_emit_quick.cfg", "MC_Backup_emit.cfg")
	mustHold(rep, "MC_Backup_emit", emitCfg, 15*time.Minute, func(sc script) {
		mu.Lock()
		scs = append(scs, sc)
		mu.Unlock()
	})
	total := len(scs)
	scs = pruneToLeaves(scs)
	rep.Note("TLC emitted %d behaviours (%s), %d are leaves of the spanning tree and are executed", total, emitCfg, len(scs))
	if len(scs) < 500 {
		core.Infra("expected at least 500 behaviours from TLC, got %d", len(scs))
	}
	// ---- 2b. behaviours in which a client dies in the middle of a transaction (hot journal) and LiteFS's
	// recovery runs at some later point, in particular after a restore has replaced the database
	var hot []script
	mustHold(rep, "MC_Backup_emit_hot", "MC_Backup_emit_hot.cfg", 10*time.Minute, func(sc script) {
		for _, st := range sc.H {
			if st.A == "Crash" {
				mu.Lock()
				hot = append(hot, sc)
				mu.Unlock()
				return
			}
		}
	})
	nHot := len(hot)
	hot = pruneToLeaves(hot)
	rep.Note("TLC emitted %d behaviours with an interrupted transaction (MC_Backup_emit_hot.cfg), %d leaves executed", nHot, len(hot))
	if len(hot) < 50 {
		core.Infra("expected at least 50 behaviours with an interrupted transaction, got %d", len(hot))
	}
	scs = append(scs, hot...)

	// ---- 3. concretisation variants and donors
	variants := []cfgSpec{
		{Layout: "L0", PageSize: 512, Compress: false},
		{Layout: "L0", PageSize: 4096, Compress: true},
		{Layout: "L1", PageSize: 512, Compress: true},
		{Layout: "L0", PageSize: 1024, Compress: false},
	}
	if args.Quick() {
		variants = variants[:2]
	}
	donors := map[string][]svcFile{}
	for _, v := range variants {
		donors[v.donorKey()] = buildDonor(rep, v)
	}

	// ---- 4. replay every behaviour on both backends
	type job struct {
		sc script
		cs cfgSpec
	}
	rnd := rand.New(rand.NewSource(args.Seed))
	var jobs []job
	for i, sc := range scs {
		for b, be := range []string{"file", "lfsc"} {
			if be == "file" && sc.maxLag() > 0 {
				continue // the file client's HWM answer never lags
			}
			// thorough: every script on both backends; quick: both backends as well (the space is small)
			v := variants[(i+b+int(args.Seed))%len(variants)]
			v.Backend = be
			jobs = append(jobs, job{sc, v})
		}
	}
	rnd.Shuffle(len(jobs), func(a, b int) { jobs[a], jobs[b] = jobs[b], jobs[a] })
	ch := make(chan job)
	var wg sync.WaitGroup
	restores, byBackend := 0, map[string]int{}
	for k := 0; k < runtime.NumCPU(); k++ {
		wg.Add(1)
		go func() {
			defer wg.Done()
			for j := range ch {
				dbg := os.Getenv("VERIF_C14_VERBOSE")
				verbose := dbg != "" && strings.Contains(j.sc.key(), dbg)
				out := runScript(j.sc, j.cs, donors[j.cs.donorKey()], verbose)
				if verbose {
					fmt.Fprintf(os.Stderr, "---- %s [%s]\n%s\n", j.sc.key(), j.cs.config(), strings.Join(out.Log, "\n"))
				}
				mu.Lock()
				restores += out.Restores
				byBackend[j.cs.Backend]++
				mu.Unlock()
				report(rep, "script", j.sc, j.cs, out, j.sc.key())
			}
		}()
	}
	for _, j := range jobs {
		ch <- j
	}
	close(ch)
	wg.Wait()
	rep.Extra["scripts_by_backend"] = byBackend
	rep.Extra["restores_observed"] = restores
	if len(scs) > 0 {
		rep.Sample(map[string]any{"behaviour": scs[len(scs)/2].key()})
	}

	// ---- 5. batches longer than the 256-file window, drop, and the Appendix G leads
	for _, be := range []string{"file", "lfsc"} {
		v := variants[int(args.Seed)%len(variants)]
		v.Backend = be
		n := core.Pick(args, 300, 600)
		out := runBatch(v, n)
		report(rep, "batch", map[string]any{"commits": n}, v, out, fmt.Sprintf("batch-%d", n))
		out = runDrop(v)
		report(rep, "drop", nil, v, out, "drop")
		out, facts := runLeadHWM(v, donors[v.donorKey()])
		report(rep, "lead-hwm", nil, v, out, "lead-stale-hwm")
		rep.Extra["lead_stale_hwm_"+be] = facts
		out = runContinuousMonitor(v)
		report(rep, "continuous-monitor", nil, v, out, "continuous-monitor")
		out = runContinuousLostAnswer(v)
		report(rep, "continuous-lost-answer", nil, v, out, "continuous-lost-answer")
		out = runRestoreWithOpenTx(v, donors[v.donorKey()])
		report(rep, "restore-open-tx", nil, v, out, "restore-with-open-transaction")
		out, facts = runLeadPosZero(v, donors[v.donorKey()])
		report(rep, "lead-poszero", nil, v, out, "lead-pos-zero")
		rep.Extra["lead_pos_zero_"+be] = facts
	}

	rep.Note("Appendix G lead (i) (stale HWM after a service rewind): reproduced on the real code on both backends (lead_stale_hwm_*), recorded as a note, not a finding: the HWM is a value the service did acknowledge (monitor C14.hwm-not-above-acknowledged holds) and a log that cannot be extended is to be replaced by the service's snapshot (stage 1). Stage 2 is the stronger observation: after the primary adopted the rewound / foreign service, DB.hwm keeps the old value, so retention removes NEW transactions that were never uploaded and the next pass gives them up without any further fault (TLC: MC_Backup_lead_hwm2.cfg). Hardening candidate: proposed_fixes/C14-note-stale-hwm-after-restore.diff.")
	rep.Note("Appendix G lead (ii) (database object at position zero while the service holds data): reproduced, genuine, known finding backup-ahead-of-empty-local-db-not-adopted (lead_pos_zero_*; TLC: MC_Backup_lead_poszero.cfg; with FixPosZero=TRUE the unexcused invariants hold, MC_Backup_fixed.cfg).")

	// ---- 6. relevance: a dropped guard must be caught by TLC (thorough tier; evidence only)
	if !args.Quick() {
		mustViolate(rep, "rel_sweep", "MC_Backup_rel_sweep.cfg", "RetentionSafe|Progress")
		mustViolate(rep, "rel_hwm", "MC_Backup_rel_hwm.cfg", "HwmAcked")
		mustViolate(rep, "rel_service", "MC_Backup_rel_service.cfg", "ChainContig|AdoptProp")
		mustViolate(rep, "rel_ahead", "MC_Backup_rel_ahead.cfg", "Progress|AdoptProp")
		mustViolate(rep, "rel_mismatch", "MC_Backup_rel_mismatch.cfg", "Progress|AdoptProp")
		mustViolate(rep, "lead_poszero", "MC_Backup_lead_poszero.cfg", "Progress|AdoptProp")
		mustViolate(rep, "lead_hwm1", "MC_Backup_lead_hwm1.cfg", "LeadHwmLeService")
		mustViolate(rep, "lead_hwm2", "MC_Backup_lead_hwm2.cfg", "LeadNoRepeatLoss")
		mustViolate(rep, "rel_hot", "MC_Backup_rel_hot.cfg", "RestoreDiscardsInterrupted|ImageAtPosition")
	}
	// failure paths (spec/Faults.tla): every call of the operation through the OS interface fails once
	faults.Run(rep, args, faults.Select{Ops: []string{"backup_sync"}, Monitors: []string{"backup"}})
	rep.Finish()
}

func replayFile(path string) {
	b, err := os.ReadFile(path)
	if err != nil {
		core.Infra("read replay: %v", err)
	}
	var f struct {
		Replay struct {
			Kind   string          `json:"kind"`
			Script json.RawMessage `json:"script"`
			Config cfgSpec         `json:"config"`
		} `json:"replay"`
	}
	if err := json.Unmarshal(b, &f); err != nil {
		core.Infra("parse replay: %v", err)
	}
	cs := f.Replay.Config
	donor := buildDonor(nil, cs)
	var out outcome
	switch f.Replay.Kind {
	case "script":
		var sc script
		if err := json.Unmarshal(f.Replay.Script, &sc); err != nil {
			core.Infra("parse script: %v", err)
		}
		fmt.Printf("script %s on %s\n", sc.key(), cs.config())
		out = runScript(sc, cs, donor, true)
	case "batch":
		var m struct {
			Commits int `json:"commits"`
		}
		_ = json.Unmarshal(f.Replay.Script, &m)
		out = runBatch(cs, m.Commits)
	case "drop":
		out = runDrop(cs)
	case "donor":
		fmt.Println("donor history built without a monitor failure")
	case "lead-hwm":
		var facts map[string]any
		out, facts = runLeadHWM(cs, donor)
		fb, _ := json.MarshalIndent(facts, "", " ")
		fmt.Println(string(fb))
	case "lead-poszero":
		var facts map[string]any
		out, facts = runLeadPosZero(cs, donor)
		fb, _ := json.MarshalIndent(facts, "", " ")
		fmt.Println(string(fb))
	default:
		core.Infra("unknown replay kind %q", f.Replay.Kind)
	}
	for _, l := range out.Log {
		fmt.Println(l)
	}
	for _, nc := range out.Nonconf {
		fmt.Println("NONCONFORMANCE", nc)
	}
	for _, fl := range out.Fails {
		d, _ := json.Marshal(fl.Detail)
		fmt.Printf("MONITOR FAILED %s sig=%s %s\n", fl.Monitor, fl.Sig, d)
	}
	if len(out.Fails) == 0 {
		fmt.Println("no monitor failed")
	}
}
